/-
  Proofs/C02Frame2.lean — the frame theorem once more, with more information at the state changes: the transition
  reference `tr` that executes denotes a transition `t` of the configuration, declared in the scope the change is made
  from, the destination handed to `nchangeState` is `t`'s, and the source of `t` has not been exited while the
  current event is processed (`event_data.exited_states`; `tnLoop` skips such states).

  The membership of the offered candidates in `allTrans cfg` (`Frame2.ncandidates_reg`) is proved here, from
  `Model/Tree.lean`, `Model/Spec/C02.lean` and `ncandidates` alone.
-/
import Proofs.C02Frame

namespace TM
open C02

structure Closed2 (cfg : NCfg) (sub : NSub) (sc : Script) (R : View → View → Prop) : Prop where
  refl : ∀ v, R v v
  trans : ∀ {a b c}, R a b → R b c → R a c
  mark : ∀ (v : View) (e : GEv), e.isMark = true → (∀ t m, e = .fin t m → m = confMask cfg v.conf) →
    (hne : ∀ t x, e = .raised t x → x.isEngine = true) → R v ⟨v.conf, v.glog ++ [e]⟩
  execChange : ∀ (scope : Scope) (x : Ctx) (dest : SPath) (tr : TRef) (t : NTrans) (s s' : NSt),
    cfg.root.walkTo scope.pre = some scope → (tr, t) ∈ allTrans cfg → tr.scope = scope.pre → t.dest = some dest →
    (scope.pre ++ t.source) ∉ s.exited →
    (nchangeState sub sc cfg scope x dest { s with glog := s.glog ++ [.exec tr] }).state? = some s' →
    R s.view s'.view

namespace Frame2

/-! ### the candidates offered in a reachable scope are transitions of the configuration -/

theorem enter_eq {sc sc' : Scope} {k : Nat} (h : sc.enter k = some sc') :
    ∃ d kids, sc.states.find k = some (d, kids) ∧
      sc' = { owner := some d, states := kids, events := d.events, pre := sc.pre ++ [k] } := by
  unfold Scope.enter at h
  split at h
  · next d kids hf => exact ⟨d, kids, hf, by simpa using h.symm⟩
  · simp at h

/-- the transitions declared in a scope and below it -/
def scopeAll (sc : Scope) : List (TRef × NTrans) := scopeTrans sc.pre sc.events ++ forestTrans sc.pre sc.states

theorem forestTrans_find {sf : SForest} {k : Nat} {d : SDef} {kids : SForest} (pre : SPath)
    (h : sf.find k = some (d, kids)) :
    ∀ e ∈ scopeTrans (pre ++ [k]) d.events ++ forestTrans (pre ++ [k]) kids, e ∈ forestTrans pre sf := by
  induction sf with
  | nil => simp [SForest.find] at h
  | cons d0 kids0 rest _ ihr =>
    simp only [SForest.find] at h
    intro e he
    simp only [forestTrans, List.mem_append]
    split at h
    · rename_i hk
      simp only [Option.some.injEq, Prod.mk.injEq] at h
      obtain ⟨rfl, rfl⟩ := h
      subst hk
      simp only [List.mem_append] at he
      exact Or.inl he
    · exact Or.inr (ihr h e he)

theorem scopeAll_enter {sc sc' : Scope} {k : Nat} (h : sc.enter k = some sc') :
    ∀ e ∈ scopeAll sc', e ∈ scopeAll sc := by
  obtain ⟨d, kids, hf, rfl⟩ := enter_eq h
  intro e he
  simp only [scopeAll, List.mem_append]
  exact Or.inr (forestTrans_find sc.pre hf e he)

theorem scopeAll_walkTo : ∀ (p : SPath) (sc sc' : Scope), sc.walkTo p = some sc' →
    ∀ e ∈ scopeAll sc', e ∈ scopeAll sc
  | [], sc, sc', h => by simp only [Scope.walkTo, Option.some.injEq] at h; subst h; exact fun e he => he
  | k :: p, sc, sc', h => by
    simp only [Scope.walkTo] at h
    cases he : sc.enter k with
    | none => simp [he] at h
    | some sc1 =>
      rw [he] at h
      intro e hm
      exact scopeAll_enter he e (scopeAll_walkTo p sc1 sc' h e hm)

theorem alookup_mem {β : Type} {k : Nat} {v : β} : ∀ {l : List (Nat × β)}, alookup k l = some v → (k, v) ∈ l
  | [], h => by simp [alookup] at h
  | (k', v') :: l, h => by
    simp only [alookup] at h
    split at h
    · rename_i hk
      simp only [Option.some.injEq] at h
      subst h; subst hk; simp
    · exact List.mem_cons_of_mem _ (alookup_mem h)

/-- the candidates offered in a reachable scope are registered transitions, with their references -/
theorem ncandidates_reg {cfg : NCfg} {sc : Scope} (hw : cfg.root.walkTo sc.pre = some sc) {ev : Nat} {ts : List NTrans}
    (hts : alookup ev sc.events = some ts) (src : SPath) :
    ∀ e ∈ ncandidates sc.pre ev ts src, e ∈ allTrans cfg := by
  intro e he
  have h1 : e ∈ scopeTrans sc.pre sc.events := by
    simp only [ncandidates, List.mem_map, List.mem_filter] at he
    obtain ⟨ti, ⟨hti, _⟩, rfl⟩ := he
    simp only [scopeTrans, List.mem_flatMap, List.mem_map]
    exact ⟨(ev, ts), alookup_mem hts, ti, hti, rfl⟩
  have h2 : e ∈ scopeAll sc := by simp only [scopeAll, List.mem_append]; exact Or.inl h1
  exact scopeAll_walkTo sc.pre cfg.root sc hw e h2

/-! ### callbacks do not touch `exited` -/

section Exited
variable (sub : NSub) (sc : Script) (cfg : NCfg)

theorem ninvoke_exited (hC : NoCmds sc) (slot : Slot) (x : Ctx) (c : Nat) (s s' : NSt)
    (h : (ninvoke sub sc cfg slot x c s).state? = some s') : s'.exited = s.exited := by
  simp only [ninvoke, hC c, nrunCmds] at h
  cases ho : (sc c (s.count c)).out <;> simp only [ho, Res.state?, Option.some.injEq] at h <;> subst h <;> rfl

theorem ncallbacks_exited (hC : NoCmds sc) (slot : Slot) (x : Ctx) : ∀ (cbs : List Nat) (s s' : NSt),
    (ncallbacks sub sc cfg slot x cbs s).state? = some s' → s'.exited = s.exited
  | [], s, s', h => by simp only [ncallbacks, Res.state?, Option.some.injEq] at h; subst h; rfl
  | c :: cs, s, s', h => by
    unfold ncallbacks at h
    cases hi : ninvoke sub sc cfg slot x c s with
    | ok b s1 =>
      simp only [hi, Res.bind] at h
      rw [ncallbacks_exited hC slot x cs s1 s' h]
      exact ninvoke_exited sub sc cfg hC slot x c s s1 (by simp [hi, Res.state?])
    | err e s1 =>
      simp only [hi, Res.bind, Res.state?, Option.some.injEq] at h; subst h
      exact ninvoke_exited sub sc cfg hC slot x c s s1 (by simp [hi, Res.state?])
    | oof => simp [hi, Res.bind, Res.state?] at h

theorem nevalConds_exited (hC : NoCmds sc) (x : Ctx) : ∀ (cs : List Cond) (s s' : NSt),
    (nevalConds sub sc cfg x cs s).state? = some s' → s'.exited = s.exited
  | [], s, s', h => by simp only [nevalConds, Res.state?, Option.some.injEq] at h; subst h; rfl
  | c :: cs, s, s', h => by
    unfold nevalConds at h
    cases hi : ninvoke sub sc cfg (if c.target then .condition else .unless) x c.cb s with
    | ok b s1 =>
      have h1 := ninvoke_exited sub sc cfg hC _ x c.cb s s1 (by rw [hi]; rfl)
      simp only [hi, Res.bind] at h
      split at h
      · rw [nevalConds_exited hC x cs s1 s' h, h1]
      · simp only [Res.state?, Option.some.injEq] at h; subst h; exact h1
    | err e s1 =>
      simp only [hi, Res.bind, Res.state?, Option.some.injEq] at h; subst h
      exact ninvoke_exited sub sc cfg hC _ x c.cb s s1 (by rw [hi]; rfl)
    | oof => simp [hi, Res.bind, Res.state?] at h

theorem bind_eq_ok {α β} {r : NR α} {f : α → NSt → NR β} {b : β} {s' : NSt} (h : r.bind f = .ok b s') :
    ∃ a s1, r = .ok a s1 ∧ f a s1 = .ok b s' := by
  cases r with
  | ok a s1 => exact ⟨a, s1, rfl, h⟩
  | err e s1 => simp [Res.bind] at h
  | oof => simp [Res.bind] at h

/-- a transition that is offered and blocked leaves `exited` as it was -/
theorem nexecute_false_exited (hC : NoCmds sc) (scope : Scope) (x : Ctx) (tr : TRef) (t : NTrans) (s s' : NSt)
    (h : nexecute sub sc cfg scope x tr t s = .ok false s') : s'.exited = s.exited := by
  unfold nexecute at h
  obtain ⟨_, s1, h1, h⟩ := bind_eq_ok h
  obtain ⟨ok, s2, h2, h⟩ := bind_eq_ok h
  have e1 : s1.exited = s.exited :=
    ncallbacks_exited sub sc cfg hC _ x _ (s.emitG (.cand tr)) s1 (by rw [h1]; rfl)
  have e2 : s2.exited = s1.exited := nevalConds_exited sub sc cfg hC x _ s1 s2 (by rw [h2]; rfl)
  cases ok with
  | false =>
    simp only [Bool.not_false, if_true, Res.ok.injEq, true_and] at h
    subst h; rw [e2, e1]
  | true =>
    simp only [Bool.not_true, Bool.false_eq_true, if_false] at h
    obtain ⟨_, s3, _, h⟩ := bind_eq_ok h
    obtain ⟨_, s4, _, h⟩ := bind_eq_ok h
    obtain ⟨_, s5, _, h⟩ := bind_eq_ok h
    obtain ⟨_, s5', _, h⟩ := bind_eq_ok h
    obtain ⟨_, s6, _, h⟩ := bind_eq_ok h
    obtain ⟨_, s7, _, h⟩ := bind_eq_ok h
    simp at h

end Exited

variable {cfg : NCfg} {sub : NSub} {sc : Script} {R : View → View → Prop}

/-- what is known of the candidates offered in a scope for the state `p`: listed in the configuration, declared in
that scope, with source `p` -/
def CandOK (cfg : NCfg) (scope : Scope) (p : SPath) (cands : List (TRef × NTrans)) : Prop :=
  ∀ e ∈ cands, e ∈ allTrans cfg ∧ e.1.scope = scope.pre ∧ e.2.source = p

theorem ncandidates_scope {pre : SPath} {ev : Nat} {ts : List NTrans} {p : SPath} {c : TRef × NTrans}
    (h : c ∈ ncandidates pre ev ts p) : c.1.scope = pre := by
  simp only [ncandidates, List.mem_map, List.mem_filter] at h
  obtain ⟨e, _, rfl⟩ := h
  rfl

theorem ncandidates_source {pre : SPath} {ev : Nat} {ts : List NTrans} {p : SPath} {c : TRef × NTrans}
    (h : c ∈ ncandidates pre ev ts p) : c.2.source = p := by
  simp only [ncandidates, List.mem_map, List.mem_filter] at h
  obtain ⟨e, ⟨_, hs⟩, rfl⟩ := h
  simpa using hs

theorem ncandidates_ok {scope : Scope} (hw : cfg.root.walkTo scope.pre = some scope) {ev : Nat} {ts : List NTrans}
    (hts : alookup ev scope.events = some ts) (p : SPath) : CandOK cfg scope p (ncandidates scope.pre ev ts p) :=
  fun e he => ⟨ncandidates_reg hw hts p e he, ncandidates_scope he, ncandidates_source he⟩

theorem weaken2 {α} (hcl : Closed2 cfg sub sc R) {r : NR α} {v w : View} (f : R v w) (h : PresV R r w) :
    PresV R r v := fun s' hs => hcl.trans f (h s' hs)

theorem ncallbacks_pres2 (hC : NoCmds sc) (hcl : Closed2 cfg sub sc R) (slot : Slot) (x : Ctx) (cbs : List Nat)
    (s : NSt) : PresV R (ncallbacks sub sc cfg slot x cbs s) s.view := by
  intro s' h; rw [ncallbacks_view sub sc cfg hC slot x cbs s s' h]; exact hcl.refl _

theorem nevalConds_pres2 (hC : NoCmds sc) (hcl : Closed2 cfg sub sc R) (x : Ctx) (cs : List Cond)
    (s : NSt) : PresV R (nevalConds sub sc cfg x cs s) s.view := by
  intro s' h; rw [nevalConds_view sub sc cfg hC x cs s s' h]; exact hcl.refl _

/-- a mark other than `fin` -/
theorem mark2 (hcl : Closed2 cfg sub sc R) (s : NSt) (e : GEv) (hm : e.isMark = true)
    (hf : ∀ t m, e = .fin t m → m = confMask cfg s.conf) (hr : ∀ t x, e = .raised t x → x.isEngine = true) :
    R s.view (s.emitG e).view :=
  hcl.mark s.view e hm hf hr

/-- the `exec` mark, the `before` callbacks and the state change (if any), from the state before the mark -/
theorem execStep_pres2 (hcl : Closed2 cfg sub sc R) (scope : Scope) (x : Ctx) (tr : TRef) (t : NTrans)
    (dest : Option SPath) (s4 : NSt) (l : List GEv) (hw : cfg.root.walkTo scope.pre = some scope)
    (hm : (tr, t) ∈ allTrans cfg) (hsc : tr.scope = scope.pre) (hd : t.dest = dest)
    (hx : (scope.pre ++ t.source) ∉ s4.exited) :
    s4.glog = l ++ [.exec tr] →
    PresV R (match dest with
      | some d => nchangeState sub sc cfg scope x d s4
      | none => (.ok () s4 : NR Unit)) ⟨s4.conf, l⟩ := by
  intro hg
  cases dest with
  | none =>
    refine PresV.ok ?_
    have := hcl.mark ⟨s4.conf, l⟩ (.exec tr) rfl (by intro t m h; cases h) (by intro t x h; cases h)
    simpa [NSt.view, hg] using this
  | some d =>
    intro s' h
    have hs : ({ ({ s4 with glog := l } : NSt) with glog := ({ s4 with glog := l } : NSt).glog ++ [.exec tr] } : NSt) = s4 := by
      cases s4; simp only at hg; subst hg; rfl
    have := hcl.execChange scope x d tr t { s4 with glog := l } s' hw hm hsc hd hx (by rw [hs]; exact h)
    exact this


theorem nfinalStage_pres2 (hC : NoCmds sc) (hcl : Closed2 cfg sub sc R) (scope : Scope) (x : Ctx) (dest : Option SPath)
    (conf0 : Forest) (s : NSt) : PresV R (nfinalStage sub sc cfg scope x dest conf0 s) s.view := by
  intro s' h
  rw [nfinalStage_view sub sc cfg hC scope x dest conf0 s s' h]
  exact hcl.refl _

theorem nexecute_pres2 (hC : NoCmds sc) (hcl : Closed2 cfg sub sc R) (scope : Scope) (x : Ctx) (tr : TRef) (t : NTrans)
    (s : NSt) (hw : cfg.root.walkTo scope.pre = some scope) (hm : (tr, t) ∈ allTrans cfg)
    (hsc : tr.scope = scope.pre) (hx : (scope.pre ++ t.source) ∉ s.exited) :
    PresV R (nexecute sub sc cfg scope x tr t s) s.view := by
  unfold nexecute
  have hcand : R s.view (s.emitG (.cand tr)).view := mark2 hcl s _ rfl (by intro t m h; cases h) (by intro t x h; cases h)
  refine PresV.bind (weaken2 hcl hcand (ncallbacks_pres2 hC hcl _ x _ _)) ?_
  intro _ s1 h1 f1
  have e1 : s1.exited = s.exited :=
    ncallbacks_exited sub sc cfg hC _ x _ (s.emitG (.cand tr)) s1 (by rw [h1]; rfl)
  refine weaken2 hcl f1 (PresV.bind (nevalConds_pres2 hC hcl x _ s1) ?_)
  intro ok s2 h2 f2
  have e2 : s2.exited = s1.exited := nevalConds_exited sub sc cfg hC x _ s1 s2 (by rw [h2]; rfl)
  refine weaken2 hcl f2 ?_
  cases ok with
  | false => exact PresV.ok (hcl.refl _)
  | true =>
    simp only [Bool.not_true, Bool.false_eq_true, if_false]
    refine PresV.bind (ncallbacks_pres2 hC hcl _ x _ s2) ?_
    intro _ s3 h3 f3
    have e3 : s3.exited = s2.exited := ncallbacks_exited sub sc cfg hC _ x _ s2 s3 (by rw [h3]; rfl)
    refine weaken2 hcl f3 ?_
    -- from `s3`: the `exec` mark and the `before` callbacks (which fail or not) ...
    have hexec : R s3.view (s3.emitG (.exec tr)).view := mark2 hcl s3 _ rfl (by intro t m h; cases h) (by intro t x h; cases h)
    refine PresV.bind (weaken2 hcl hexec (ncallbacks_pres2 hC hcl _ x _ _)) ?_
    intro _ s4 h4 _
    have hv : s4.view = (s3.emitG (.exec tr)).view :=
      ncallbacks_view sub sc cfg hC _ x _ _ s4 (by rw [h4]; rfl)
    have hconf : s4.conf = s3.conf := congrArg View.conf hv
    have hg : s4.glog = s3.glog ++ [.exec tr] := congrArg View.glog hv
    -- ... then the state change
    have e4 : s4.exited = s3.exited :=
      ncallbacks_exited sub sc cfg hC _ x _ (s3.emitG (.exec tr)) s4 (by rw [h4]; rfl)
    have hx4 : (scope.pre ++ t.source) ∉ s4.exited := by rw [e4, e3, e2, e1]; exact hx
    have hstep := execStep_pres2 hcl scope x tr t t.dest s4 s3.glog hw hm hsc rfl hx4 hg
    rw [hconf] at hstep
    refine PresV.bind hstep ?_
    intro _ s5 _ f5
    refine weaken2 hcl f5 (PresV.bind (nfinalStage_pres2 hC hcl scope x _ _ s5) ?_)
    intro _ s5 _ f5
    refine weaken2 hcl f5 (PresV.bind (ncallbacks_pres2 hC hcl _ x _ s5) ?_)
    intro _ s6 _ f6
    refine weaken2 hcl f6 (PresV.bind (ncallbacks_pres2 hC hcl _ x _ s6) ?_)
    intro _ s7 _ f7
    exact PresV.ok f7

theorem ntry_pres2 (hC : NoCmds sc) (hcl : Closed2 cfg sub sc R) (scope : Scope) (x : Ctx)
    (hw : cfg.root.walkTo scope.pre = some scope) (p : SPath) : ∀ (cands : List (TRef × NTrans)) (s : NSt),
    CandOK cfg scope p cands → (scope.pre ++ p) ∉ s.exited → PresV R (ntry sub sc cfg scope x cands s) s.view
  | [], s, _, _ => PresV.ok (hcl.refl _)
  | (tr, t) :: r, s, hc, hx => by
    unfold ntry
    have h0 := hc (tr, t) (List.mem_cons_self ..)
    have hsrc : t.source = p := h0.2.2
    refine PresV.bind (nexecute_pres2 hC hcl scope x tr t s hw h0.1 h0.2.1 (by rw [hsrc]; exact hx)) ?_
    intro b s1 h1 f1
    cases b with
    | true => exact PresV.ok f1
    | false =>
      -- a blocked candidate has not changed `exited`
      have e1 : s1.exited = s.exited := nexecute_false_exited sub sc cfg hC scope x tr t s s1 h1
      exact weaken2 hcl (v := s.view) (w := ({ s1 with result := some false } : NSt).view) f1
        (ntry_pres2 hC hcl scope x hw p r _ (fun e he => hc e (List.mem_cons_of_mem _ he))
          (show (scope.pre ++ p) ∉ s1.exited by rw [e1]; exact hx))

theorem nprocess_pres2 (hC : NoCmds sc) (hcl : Closed2 cfg sub sc R) (scope : Scope) (x : Ctx)
    (hw : cfg.root.walkTo scope.pre = some scope) (p : SPath) (cands : List (TRef × NTrans)) (s : NSt)
    (hc : CandOK cfg scope p cands) (hx : (scope.pre ++ p) ∉ s.exited) :
    PresV R (nprocess sub sc cfg scope x cands s) s.view := by
  unfold nprocess
  refine PresV.bind (ncallbacks_pres2 hC hcl _ x _ s) ?_
  intro _ s1 h1 f1
  have e1 : s1.exited = s.exited := ncallbacks_exited sub sc cfg hC _ x _ s s1 (by rw [h1]; rfl)
  exact weaken2 hcl f1 (ntry_pres2 hC hcl scope x hw p cands s1 hc (by rw [e1]; exact hx))

theorem tnLoop_pres2 (hC : NoCmds sc) (hcl : Closed2 cfg sub sc R) (scope : Scope) (x : Ctx) (ev : Nat)
    (ts : List NTrans) (hw : cfg.root.walkTo scope.pre = some scope) (hts : alookup ev scope.events = some ts) :
    ∀ (ps done : List SPath) (s : NSt), PresV R (tnLoop sub sc cfg scope x ev ts ps done s) s.view
  | [], _, s => PresV.ok (hcl.refl _)
  | p :: ps, done, s => by
    unfold tnLoop
    simp only []
    split
    · exact tnLoop_pres2 hC hcl scope x ev ts hw hts ps done s
    · rename_i hn
      have hx : (scope.pre ++ p) ∉ s.exited := fun hm => hn (Or.inr (Or.inr hm))
      split
      · exact PresV.err (hcl.refl _)
      · refine PresV.bind (nprocess_pres2 hC hcl scope x hw p _ s (ncandidates_ok hw hts p) hx) ?_
        intro _ s1 _ f1
        exact weaken2 hcl f1 (tnLoop_pres2 hC hcl scope x ev ts hw hts ps _ s1)

theorem triggerNested_pres2 (hC : NoCmds sc) (hcl : Closed2 cfg sub sc R) (scope : Scope) (x : Ctx) (ev : Nat)
    (ts : List NTrans) (hw : cfg.root.walkTo scope.pre = some scope) (hts : alookup ev scope.events = some ts)
    (s : NSt) : PresV R (triggerNested sub sc cfg scope x ev ts s) s.view := by
  unfold triggerNested
  split
  · exact PresV.err (hcl.refl _)
  · exact PresV.err (hcl.refl _)
  · split
    · exact PresV.oof
    · refine PresV.bind (tnLoop_pres2 hC hcl scope x ev ts hw hts _ _ s) ?_
      intro _ s1 _ f1
      split
      · exact PresV.ok f1
      · exact PresV.ok (s := { s1 with result := some true }) f1

theorem ten_pres2 (hC : NoCmds sc) (hcl : Closed2 cfg sub sc R) (x : Ctx) (ev : Nat) :
    ∀ (tree : Forest) (scope : Scope) (res : List (Nat × Bool)) (offered : Bool) (s : NSt),
    cfg.root.walkTo scope.pre = some scope → PresV R (ten sub sc cfg x ev scope tree res offered s) s.view := by
  intro tree
  induction tree with
  | nil => intro scope res offered s _; unfold ten; exact PresV.ok (hcl.refl _)
  | cons key value rest ihv ihr =>
    intro scope res offered s hw
    unfold ten
    refine PresV.bind ?_ ?_
    · split
      · exact PresV.ok (hcl.refl _)
      · split
        · exact PresV.err (hcl.refl _)
        · rename_i inner he
          refine PresV.bind (ihv inner [] false s (Scope.walkTo_enter hw he)) ?_
          intro _ s1 _ f1
          exact PresV.ok f1
    · intro res1 s1 _ f1
      refine weaken2 hcl f1 ?_
      split
      · split
        · rename_i ts hts
          refine PresV.bind (triggerNested_pres2 hC hcl scope x ev ts hw hts s1) ?_
          intro _ s2 _ f2
          exact weaken2 hcl f2 (ihr scope _ true s2 hw)
        · exact ihr scope res1 offered s1 hw
      · exact ihr scope res1 offered s1 hw

theorem checkEventResult_pres2 (hcl : Closed2 cfg sub sc R) (res : Option Bool) (ev : Nat) (s : NSt) :
    PresV R (checkEventResult cfg res ev s) s.view := by
  unfold checkEventResult
  split
  · exact PresV.ok (hcl.refl _)
  · split
    · exact PresV.ok (hcl.refl _)
    · exact PresV.err (hcl.refl _)
    · exact PresV.oof

theorem triggerEventBody_pres2 (hC : NoCmds sc) (hcl : Closed2 cfg sub sc R) (x : Ctx) (ev : Nat) (s : NSt) :
    PresV R (triggerEventBody sub sc cfg x ev s) s.view := by
  unfold triggerEventBody
  refine PresV.bind (ten_pres2 hC hcl x ev s.conf cfg.root [] false s (NCfg.walkTo_root cfg)) ?_
  intro r s1 _ f1
  refine weaken2 hcl f1 (PresV.bind (checkEventResult_pres2 hcl _ ev s1) ?_)
  intro b s2 _ f2
  exact PresV.ok (s := { s2 with result := some b }) f2

theorem nfinalize_pres2 (hC : NoCmds sc) (hcl : Closed2 cfg sub sc R) (x : Ctx) (s s' : NSt)
    (h : nfinalize sub sc cfg x s = some s') : R s.view s'.view := by
  unfold nfinalize at h
  have hfin : R s.view (s.emitG (.fin x.tag (confMask cfg s.conf))).view :=
    mark2 hcl s _ rfl (by intro t m h; cases h; rfl) (by intro t x h; cases h)
  have hp := weaken2 hcl hfin (ncallbacks_pres2 hC hcl .finalize x cfg.finalize _)
  split at h
  · rename_i u s1 hc; cases h; exact hp _ (by rw [hc]; rfl)
  · rename_i e s1 hc; cases h; exact hp _ (by rw [hc]; rfl)
  · cases h

/-- the `except BaseException` clause of `_trigger_event` -/
theorem exceptClause_pres2 (hC : NoCmds sc) (hcl : Closed2 cfg sub sc R) (x : Ctx) (body : NR Bool) (v : View)
    (hbody : PresV R body v) :
    PresV R (match body with
      | .ok b s' => (.ok b s' : NR Bool)
      | .err e s' =>
        match cfg.onException with
        | [] => .err e s'
        | hs => (ncallbacks sub sc cfg .onException x hs s').bind fun _ s'' => .ok (s''.result.getD false) s''
      | .oof => .oof) v := by
  cases body with
  | ok b s1 => exact hbody
  | oof => exact PresV.oof
  | err e s1 =>
    have f1 : R v s1.view := hbody s1 rfl
    simp only []
    split
    · exact PresV.err f1
    · refine weaken2 hcl f1 (PresV.bind (ncallbacks_pres2 hC hcl _ x _ s1) ?_)
      intro _ s2 _ f2
      exact PresV.ok f2

/-- the `finally` clause of `_trigger_event` -/
theorem finallyClause_pres2 (hC : NoCmds sc) (hcl : Closed2 cfg sub sc R) (x : Ctx) (r1 : NR Bool) (v : View)
    (hr1 : PresV R r1 v) :
    PresV R (match r1 with
      | .ok b s' => match nfinalize sub sc cfg x s' with
        | some s'' => (.ok b s'' : NR Bool)
        | none => .oof
      | .err e s' => match nfinalize sub sc cfg x s' with
        | some s'' => .err e s''
        | none => .oof
      | .oof => .oof) v := by
  cases r1 with
  | oof => exact PresV.oof
  | ok b s1 =>
    simp only []
    cases hf : nfinalize sub sc cfg x s1 with
    | none => exact PresV.oof
    | some s2 => exact PresV.ok (hcl.trans (hr1 s1 rfl) (nfinalize_pres2 hC hcl x s1 s2 hf))
  | err e s1 =>
    simp only []
    cases hf : nfinalize sub sc cfg x s1 with
    | none => exact PresV.oof
    | some s2 => exact PresV.err (hcl.trans (hr1 s1 rfl) (nfinalize_pres2 hC hcl x s1 s2 hf))

theorem ntriggerEvent_pres2 (hC : NoCmds sc) (hcl : Closed2 cfg sub sc R) (x : Ctx) (ev : Nat) (s : NSt) :
    PresV R (ntriggerEvent sub sc cfg x ev s) s.view := by
  have hbody : PresV R (triggerEventBody sub sc cfg x ev { s with result := none, exited := [] }) s.view :=
    triggerEventBody_pres2 hC hcl x ev { s with result := none, exited := [] }
  unfold ntriggerEvent
  exact finallyClause_pres2 hC hcl x _ _ (exceptClause_pres2 hC hcl x _ _ hbody)

theorem ndrain_pres2 (hC : NoCmds sc) (hcl : Closed2 cfg sub sc R) : ∀ (n : Nat) (s : NSt),
    PresV R (ndrain sub sc cfg n s) s.view
  | 0, _ => PresV.oof
  | n + 1, s => by
    unfold ndrain
    split
    · exact PresV.ok (hcl.refl _)
    · rename_i ev tag _ _
      have ht := ntriggerEvent_pres2 hC hcl ⟨0, tag⟩ ev s
      split
      · rename_i b s1 hc
        have f1 : R s.view s1.view := ht s1 (by rw [hc]; rfl)
        exact weaken2 hcl (w := ({ s1 with queue := s1.queue.drop 1 } : NSt).view) f1 (ndrain_pres2 hC hcl n _)
      · rename_i e s1 hc
        have f1 : R s.view s1.view := ht s1 (by rw [hc]; rfl)
        exact PresV.err (s := { s1 with queue := [] }) f1
      · exact PresV.oof

theorem nmachineProcess_pres2 (hC : NoCmds sc) (hcl : Closed2 cfg sub sc R) (qmax ev tag : Nat) (s : NSt) :
    PresV R (nmachineProcess sub sc cfg qmax ev tag s) s.view := by
  unfold nmachineProcess
  split
  · split
    · exact ntriggerEvent_pres2 hC hcl _ ev s
    · exact PresV.err (hcl.refl _)
  · simp only []
    split
    · exact PresV.ok (s := { s with queue := s.queue ++ [(ev, tag)] }) (hcl.refl _)
    · refine PresV.bind (v := s.view) (ndrain_pres2 hC hcl qmax { s with queue := s.queue ++ [(ev, tag)] }) ?_
      intro _ s1 _ f1
      exact PresV.ok f1

theorem napiTrigger_pres2 (hR : NoRaise sc) (hC : NoCmds sc) (hcl : Closed2 cfg sub sc R) (qmax ev : Nat) (s : NSt) :
    PresV R (napiTrigger sub sc cfg qmax ev s) s.view := by
  unfold napiTrigger
  simp only []
  have hapi : R s.view ((({ s with nextTag := s.nextTag + 1 } : NSt).emit (.api 0 s.nextTag 0 ev)).emitG
      (.api s.nextTag ev)).view :=
    hcl.mark s.view (.api s.nextTag ev) rfl (by intro t m h; cases h) (by intro t x h; cases h)
  have hp := weaken2 hcl hapi (nmachineProcess_pres2 hC hcl qmax ev s.nextTag
    ((({ s with nextTag := s.nextTag + 1 } : NSt).emit (.api 0 s.nextTag 0 ev)).emitG (.api s.nextTag ev)))
  split
  · rename_i b s1 hc
    have f1 : R s.view s1.view := hp s1 (by rw [hc]; rfl)
    refine PresV.ok (hcl.trans f1 ?_)
    exact hcl.mark s1.view (.ret s.nextTag b) rfl (by intro t m h; cases h) (by intro t x h; cases h)
  · rename_i e s1 hc
    have f1 : R s.view s1.view := hp s1 (by rw [hc]; rfl)
    refine PresV.err (hcl.trans f1 ?_)
    exact hcl.mark s1.view (.raised s.nextTag e) rfl (by intro t m h; cases h)
      (by intro t x h; cases h; exact nmachineProcess_errE hR hC qmax ev _ _ _ _ hc)
  · exact PresV.oof

end Frame2

variable (cfg : NCfg) (sub : NSub) (sc : Script) (R : View → View → Prop)

theorem frame_apiTrigger2 (hR : NoRaise sc) (hC : NoCmds sc) (hcl : Closed2 cfg sub sc R) (qmax ev : Nat) (s s' : NSt)
    (h : (napiTrigger sub sc cfg qmax ev s).state? = some s') : R s.view s'.view :=
  Frame2.napiTrigger_pres2 hR hC hcl qmax ev s s' h

theorem frame_history2 (hR : NoRaise sc) (hC : NoCmds sc) (hcl : ∀ sub, Closed2 cfg sub sc R) (qmax fuel : Nat) :
    ∀ (evs : List Nat) (s s' : NSt), nrunHistory sc cfg qmax fuel evs s = some s' → R s.view s'.view := by
  have hcmd : ∀ (ev : Nat) (s : NSt), PresV R (nrunCmd sc cfg qmax fuel (.trigger 0 ev) s) s.view := by
    intro ev s
    cases fuel with
    | zero => exact PresV.oof
    | succ f =>
      unfold nrunCmd
      exact PresV.map (Frame2.napiTrigger_pres2 hR hC (hcl _) qmax ev s)
  intro evs
  induction evs with
  | nil => intro s s' h; simp only [nrunHistory, Option.some.injEq] at h; subst h; exact (hcl (fun _ s => .oof)).refl _
  | cons ev evs ih =>
    intro s s' h
    unfold nrunHistory at h
    have hc := hcmd ev s
    split at h
    · rename_i u s1 he
      exact (hcl (fun _ s => .oof)).trans (hc s1 (by rw [he]; rfl)) (ih s1 s' h)
    · rename_i e s1 he
      exact (hcl (fun _ s => .oof)).trans (hc s1 (by rw [he]; rfl)) (ih s1 s' h)
    · cases h

end TM
