/-
  Proofs/C05AGen.lean — a trace-simulation skeleton for the asynchronous flat engine (`Model/Async.lean`), generic in
  the acceptor (the abstract acceptor interface `N5.Acc` of `Proofs/C05NGen.lean`).

  `APost A Pok Perr σ l r`: whatever `r` appended to the log `l` moves the acceptor from `σ` to a state in which
  `Pok` (normal return) / `Perr` (exception) holds.  A `Block` packages what has to be known about single trace
  items of ONE event (`call` of one of its callbacks, `done`) and about the interpreter of awaited triggers; from it
  every function of the async engine from `start` / `gather` up to `Async.eventTrigger` is shown to advance the
  acceptor — for EVERY script, kind assignment (plain / coroutine / suspending callbacks) and configuration, with NO
  staging hypothesis: `gather` starts all callbacks of a stage and finishes them later, which an acceptor that
  ignores `done` items does not see.

  Instances: the machine-wide abstract queue (`Proofs/C05A.lean`, queued=True), the per-model queues
  (`Proofs/C05M.lean`, queued='model').
-/
import Model.Async
import Proofs.C05NGen

namespace TM
namespace A5
open N5 (Acc)
open Async (Job Entry Kinds)

variable {Z : Type}

/-- outcome predicate: what `r` appended to the log `l` advances the acceptor from `σ` -/
def APost {α} (A : Acc Z) (Pok Perr : Z → St → Prop) (σ : Z) (l : List Item) : R α → Prop
  | .oof => True
  | .ok _ s' => ∃ σ' seg, s'.log = l ++ seg ∧ A.adv σ seg σ' ∧ Pok σ' s'
  | .err _ s' => ∃ σ' seg, s'.log = l ++ seg ∧ A.adv σ seg σ' ∧ Perr σ' s'

theorem APost.bind {α β} {A : Acc Z} {P Pok Perr : Z → St → Prop} {σ : Z} {l : List Item} {r : R α}
    {f : α → St → R β} (h : APost A P Perr σ l r)
    (hf : ∀ a σ1 s1, P σ1 s1 → APost A Pok Perr σ1 s1.log (f a s1)) :
    APost A Pok Perr σ l (r.bind f) := by
  cases r with
  | oof => trivial
  | err e s1 => exact h
  | ok a s1 =>
    obtain ⟨σ1, seg1, l1, a1, p1⟩ := h
    have h2 := hf a σ1 s1 p1
    simp only [Res.bind]
    cases hr : f a s1 with
    | oof => trivial
    | ok b s2 =>
      rw [hr] at h2
      obtain ⟨σ2, seg2, l2, a2, p2⟩ := h2
      exact ⟨σ2, seg1 ++ seg2, by rw [l2, l1, List.append_assoc], A.trans a1 a2, p2⟩
    | err e s2 =>
      rw [hr] at h2
      obtain ⟨σ2, seg2, l2, a2, p2⟩ := h2
      exact ⟨σ2, seg1 ++ seg2, by rw [l2, l1, List.append_assoc], A.trans a1 a2, p2⟩

theorem APost.weaken {α} {A : Acc Z} {Pok Perr Pok' Perr' : Z → St → Prop} {σ : Z} {l : List Item} {r : R α}
    (h : APost A Pok Perr σ l r) (h1 : ∀ a b, Pok a b → Pok' a b) (h2 : ∀ a b, Perr a b → Perr' a b) :
    APost A Pok' Perr' σ l r := by
  cases r with
  | oof => trivial
  | ok a s1 => obtain ⟨σ1, seg, l, a, p⟩ := h; exact ⟨σ1, seg, l, a, h1 _ _ p⟩
  | err e s1 => obtain ⟨σ1, seg, l, a, p⟩ := h; exact ⟨σ1, seg, l, a, h2 _ _ p⟩

theorem APost.map {α β} {A : Acc Z} {Pok Perr : Z → St → Prop} {σ : Z} {l : List Item} {r : R α} (f : α → β)
    (h : APost A Pok Perr σ l r) : APost A Pok Perr σ l (r.map f) := by
  cases r <;> exact h

theorem APost.ok {α} (A : Acc Z) {Pok Perr : Z → St → Prop} {σ : Z} {s : St} (a : α) (h : Pok σ s) :
    APost A Pok Perr σ s.log (.ok a s : R α) := ⟨σ, [], by simp, A.refl σ, h⟩

theorem APost.err {α} (A : Acc Z) {Pok Perr : Z → St → Prop} {σ : Z} {s : St} (e : Exc) (h : Perr σ s) :
    APost A Pok Perr σ s.log (.err e s : R α) := ⟨σ, [], by simp, A.refl σ, h⟩

/-- prefix the segment `seg0` (already appended to the log, acceptor already advanced) -/
theorem APost.pre {α} {A : Acc Z} {Pok Perr : Z → St → Prop} {σ σ1 : Z} {l : List Item} {seg0 : List Item}
    {r : R α} (h0 : A.adv σ seg0 σ1) (h : APost A Pok Perr σ1 (l ++ seg0) r) : APost A Pok Perr σ l r := by
  cases r with
  | oof => trivial
  | ok a s1 =>
    obtain ⟨σ2, seg, l2, a2, p2⟩ := h
    exact ⟨σ2, seg0 ++ seg, by rw [l2, List.append_assoc], A.trans h0 a2, p2⟩
  | err e s1 =>
    obtain ⟨σ2, seg, l2, a2, p2⟩ := h
    exact ⟨σ2, seg0 ++ seg, by rw [l2, List.append_assoc], A.trans h0 a2, p2⟩

/-- continue after `r` on both outcomes (the shape of `try … except … finally`) -/
theorem APost.both {α β} {A : Acc Z} {Pok Perr Pok' Perr' : Z → St → Prop} {σ : Z} {l : List Item} {r : R α}
    (h : APost A Pok Perr σ l r) {k : R α → R β} (hoof : k .oof = .oof)
    (ho : ∀ a σ1 s1, Pok σ1 s1 → APost A Pok' Perr' σ1 s1.log (k (.ok a s1)))
    (he : ∀ e σ1 s1, Perr σ1 s1 → APost A Pok' Perr' σ1 s1.log (k (.err e s1))) :
    APost A Pok' Perr' σ l (k r) := by
  cases r with
  | oof => rw [hoof]; trivial
  | ok a s1 =>
    obtain ⟨σ1, seg1, l1, a1, p1⟩ := h
    have h2 := ho a σ1 s1 p1
    cases hr : k (.ok a s1) with
    | oof => trivial
    | ok b s2 =>
      rw [hr] at h2; obtain ⟨σ2, seg2, l2, a2, p2⟩ := h2
      exact ⟨σ2, seg1 ++ seg2, by rw [l2, l1, List.append_assoc], A.trans a1 a2, p2⟩
    | err e s2 =>
      rw [hr] at h2; obtain ⟨σ2, seg2, l2, a2, p2⟩ := h2
      exact ⟨σ2, seg1 ++ seg2, by rw [l2, l1, List.append_assoc], A.trans a1 a2, p2⟩
  | err e s1 =>
    obtain ⟨σ1, seg1, l1, a1, p1⟩ := h
    have h2 := he e σ1 s1 p1
    cases hr : k (.err e s1) with
    | oof => trivial
    | ok b s2 =>
      rw [hr] at h2; obtain ⟨σ2, seg2, l2, a2, p2⟩ := h2
      exact ⟨σ2, seg1 ++ seg2, by rw [l2, l1, List.append_assoc], A.trans a1 a2, p2⟩
    | err e s2 =>
      rw [hr] at h2; obtain ⟨σ2, seg2, l2, a2, p2⟩ := h2
      exact ⟨σ2, seg1 ++ seg2, by rw [l2, l1, List.append_assoc], A.trans a1 a2, p2⟩

/-- the same for the `Option (β × St)` results of `start` / `startAll` -/
def OPost {β} (A : Acc Z) (P : Z → St → Prop) (σ : Z) (l : List Item) : Option (β × St) → Prop
  | none => True
  | some (_, s') => ∃ σ' seg, s'.log = l ++ seg ∧ A.adv σ seg σ' ∧ P σ' s'

/-- What has to be known about the trace items of ONE event (the event of context `x`) and about the interpreter
`sub` of awaited triggers.  `Blk`: anywhere in the processing of the event before its finalize stage; `Syn f`: after
at least one of its callbacks has started (`f` = the finalize stage has begun); `Any`: either.
None of them may depend on anything but the queue and the tag counter of the engine state (`…Frame`). -/
structure Block (A : Acc Z) (sub : Sub) (x : Ctx) where
  Blk : Z → St → Prop
  Syn : Bool → Z → St → Prop
  Any : Z → St → Prop
  toBlk : ∀ {σ s}, Syn false σ s → Blk σ s
  blkAny : ∀ {σ s}, Blk σ s → Any σ s
  synAny : ∀ {σ s}, Syn true σ s → Any σ s
  blkFrame : ∀ {σ s s'}, Blk σ s → s'.queue = s.queue → s'.nextTag = s.nextTag → Blk σ s'
  synFrame : ∀ {f σ s s'}, Syn f σ s → s'.queue = s.queue → s'.nextTag = s.nextTag → Syn f σ s'
  /-- a callback of a stage before finalize starts -/
  callBlk : ∀ {σ s} (slot : Slot) (c st : Nat), slot ≠ .finalize → Blk σ s →
    ∃ σ1, A.adv σ [.call slot c x.model x.tag st] σ1 ∧ Syn false σ1 s
  done : ∀ σ c o, A.adv σ [.done c o] σ
  sub : ∀ (f : Bool) (c : Cmd) (σ : Z) (s : St), Syn f σ s → APost A (Syn f) (Syn f) σ s.log (sub c s)

section Generic
variable {A : Acc Z} {sub : Sub} {x : Ctx} (B : Block A sub x) (sc : Script) (kd : Kinds) (cfg : Cfg)

theorem runCmds_post (f : Bool) : ∀ (cmds : List Cmd) (σ : Z) (s : St), B.Syn f σ s →
    APost A (B.Syn f) (B.Syn f) σ s.log (runCmds sub cmds s)
  | [], σ, s, hs => APost.ok A () hs
  | c :: cs, σ, s, hs => by
    simp only [runCmds]
    exact APost.bind (B.sub f c σ s hs) (fun _ σ1 s1 h1 => runCmds_post f cs σ1 s1 h1)

/-- phase 1 of one callable, given how the acceptor takes its `call` item -/
theorem start_post (f : Bool) (j : Job) (σ σ1 : Z) (s : St)
    (hcall : A.adv σ [.call j.slot j.cb x.model x.tag (s.stateOf x.model)] σ1) (h1 : B.Syn f σ1 s) :
    OPost A (B.Syn f) σ s.log (Async.start sub sc kd x j s) := by
  let s2 : St := ({ s with counts := aset j.cb (s.count j.cb + 1) s.counts }).emit
    (.call j.slot j.cb x.model x.tag (s.stateOf x.model))
  have hs2 : B.Syn f σ1 s2 := B.synFrame h1 rfl rfl
  have hr := runCmds_post B f (sc j.cb (s.count j.cb)).cmds σ1 s2 hs2
  have hl2 : s2.log = s.log ++ [.call j.slot j.cb x.model x.tag (s.stateOf x.model)] := rfl
  rw [hl2] at hr
  have hr' := APost.pre hcall hr
  unfold Async.start
  show OPost A _ σ s.log (match runCmds sub (sc j.cb (s.count j.cb)).cmds s2 with
    | .ok _ s3 =>
      if 2 ≤ kd j.cb then some ((⟨j.cb, (sc j.cb (s.count j.cb)).out, true, kd j.cb == 3 || kd j.cb == 4, j.target⟩ : Entry), s3)
      else some ((⟨j.cb, (sc j.cb (s.count j.cb)).out, false, false, j.target⟩ : Entry),
        s3.emit (.done j.cb (sc j.cb (s.count j.cb)).out))
    | .err e s3 => some ((⟨j.cb, .raise e, false, false, j.target⟩ : Entry), s3.emit (.done j.cb (.raise e)))
    | .oof => (none : Option (Entry × St)))
  cases hrc : runCmds sub (sc j.cb (s.count j.cb)).cmds s2 with
  | oof => trivial
  | ok u s3 =>
    rw [hrc] at hr'
    obtain ⟨σ3, seg, l3, a3, p3⟩ := hr'
    by_cases hk : 2 ≤ kd j.cb
    · simp only [hk, if_true]
      exact ⟨σ3, seg, l3, a3, p3⟩
    · simp only [hk, if_false]
      exact ⟨σ3, seg ++ [.done j.cb (sc j.cb (s.count j.cb)).out], by simp [St.emit, l3],
        A.trans a3 (B.done σ3 _ _), B.synFrame p3 rfl rfl⟩
  | err e s3 =>
    rw [hrc] at hr'
    obtain ⟨σ3, seg, l3, a3, p3⟩ := hr'
    exact ⟨σ3, seg ++ [.done j.cb (.raise e)], by simp [St.emit, l3], A.trans a3 (B.done σ3 _ _), B.synFrame p3 rfl rfl⟩

theorem OPost.cons {β γ} {P : Z → St → Prop} {σ : Z} {l : List Item} {r1 : Option (β × St)}
    (h1 : OPost A P σ l r1) {k : β × St → Option (γ × St)}
    (hk : ∀ e σ1 s1, P σ1 s1 → OPost A P σ1 s1.log (k (e, s1))) :
    OPost A P σ l (r1.bind k) := by
  cases r1 with
  | none => trivial
  | some p =>
    obtain ⟨e, s1⟩ := p
    obtain ⟨σ1, seg1, l1, a1, p1⟩ := h1
    have h2 := hk e σ1 s1 p1
    show OPost A P σ l (k (e, s1))
    cases hr : k (e, s1) with
    | none => trivial
    | some q =>
      obtain ⟨es, s2⟩ := q
      rw [hr] at h2
      obtain ⟨σ2, seg2, l2, a2, p2⟩ := h2
      exact ⟨σ2, seg1 ++ seg2, by rw [l2, l1, List.append_assoc], A.trans a1 a2, p2⟩

theorem startAll_eq (j : Job) (js : List Job) (s : St) :
    Async.startAll sub sc kd x (j :: js) s =
      (Async.start sub sc kd x j s).bind fun p =>
        (Async.startAll sub sc kd x js p.2).map fun q => (p.1 :: q.1, q.2) := by
  simp only [Async.startAll]
  cases Async.start sub sc kd x j s with
  | none => rfl
  | some p =>
    obtain ⟨e, s1⟩ := p
    simp only [Option.bind_some]
    cases Async.startAll sub sc kd x js s1 with
    | none => rfl
    | some q => obtain ⟨es, s2⟩ := q; rfl

/-- phase 1 of a stage whose `call` items keep the acceptor in `Syn f` -/
theorem startAll_syn (f : Bool) : ∀ (js : List Job),
    (∀ j ∈ js, ∀ σ s st, B.Syn f σ s → ∃ σ1, A.adv σ [.call j.slot j.cb x.model x.tag st] σ1 ∧ B.Syn f σ1 s) →
    ∀ (σ : Z) (s : St), B.Syn f σ s → OPost A (B.Syn f) σ s.log (Async.startAll sub sc kd x js s)
  | [], _, σ, s, hs => ⟨σ, [], by simp, A.refl σ, hs⟩
  | j :: js, hall, σ, s, hs => by
    rw [startAll_eq]
    obtain ⟨σ1, a1, h1⟩ := hall j (List.mem_cons_self ..) σ s (s.stateOf x.model) hs
    refine OPost.cons (start_post B sc kd f j σ σ1 s a1 h1) ?_
    intro e σ2 s2 h2
    have ih := startAll_syn f js (fun j' hj' => hall j' (List.mem_cons_of_mem _ hj')) σ2 s2 h2
    show OPost A (B.Syn f) σ2 s2.log ((Async.startAll sub sc kd x js s2).map fun q => (e :: q.1, q.2))
    cases hr : Async.startAll sub sc kd x js s2 with
    | none => trivial
    | some q => obtain ⟨es, s3⟩ := q; rw [hr] at ih; exact ih

/-- phase 1 of a stage before finalize, anywhere in the block -/
theorem startAll_blk : ∀ (js : List Job), (∀ j ∈ js, j.slot ≠ .finalize) →
    ∀ (σ : Z) (s : St), B.Blk σ s → OPost A B.Blk σ s.log (Async.startAll sub sc kd x js s)
  | [], _, σ, s, hb => ⟨σ, [], by simp, A.refl σ, hb⟩
  | j :: js, hsl, σ, s, hb => by
    rw [startAll_eq]
    obtain ⟨σ1, a1, h1⟩ := B.callBlk j.slot j.cb (s.stateOf x.model) (hsl j (List.mem_cons_self ..)) hb
    have hst : OPost A B.Blk σ s.log (Async.start sub sc kd x j s) := by
      have := start_post B sc kd false j σ σ1 s a1 h1
      cases hr : Async.start sub sc kd x j s with
      | none => trivial
      | some p =>
        obtain ⟨e, s1⟩ := p
        rw [hr] at this
        obtain ⟨σ2, seg, l2, a2, p2⟩ := this
        exact ⟨σ2, seg, l2, a2, B.toBlk p2⟩
    refine OPost.cons hst ?_
    intro e σ2 s2 h2
    have ih := startAll_blk js (fun j' hj' => hsl j' (List.mem_cons_of_mem _ hj')) σ2 s2 h2
    show OPost A B.Blk σ2 s2.log ((Async.startAll sub sc kd x js s2).map fun q => (e :: q.1, q.2))
    cases hr : Async.startAll sub sc kd x js s2 with
    | none => trivial
    | some q => obtain ⟨es, s3⟩ := q; rw [hr] at ih; exact ih

include B in
/-- phase 2: only `done` items -/
theorem finishAll_adv : ∀ (es : List Entry) (s : St) (σ : Z),
    ∃ seg, (Async.finishAll es s).log = s.log ++ seg ∧ A.adv σ seg σ ∧
      (Async.finishAll es s).queue = s.queue ∧ (Async.finishAll es s).nextTag = s.nextTag
  | [], s, σ => ⟨[], by simp [Async.finishAll], A.refl σ, rfl, rfl⟩
  | e :: es, s, σ => by
    simp only [Async.finishAll]
    by_cases hp : e.pending = true
    · simp only [hp, if_true]
      obtain ⟨seg, l1, a1, q1, n1⟩ := finishAll_adv es (s.emit (.done e.cb e.out)) σ
      exact ⟨.done e.cb e.out :: seg, by rw [l1]; simp [St.emit], A.trans (B.done σ _ _) a1, q1, n1⟩
    · simp only [hp]
      exact finishAll_adv es s σ

include B in
/-- `gather`, given what phase 1 does -/
theorem gather_of_startAll (P : Z → St → Prop)
    (hP : ∀ {σ s s'}, P σ s → s'.queue = s.queue → s'.nextTag = s.nextTag → P σ s')
    (js : List Job) (σ : Z) (s : St) (h : OPost A P σ s.log (Async.startAll sub sc kd x js s)) :
    APost A P P σ s.log (Async.gather sub sc kd x js s) := by
  unfold Async.gather
  cases hr : Async.startAll sub sc kd x js s with
  | none => trivial
  | some q =>
    obtain ⟨es, s1⟩ := q
    rw [hr] at h
    obtain ⟨σ1, seg1, l1, a1, p1⟩ := h
    obtain ⟨seg2, l2, a2, q2, n2⟩ := finishAll_adv B es s1 σ1
    show APost A P P σ s.log (match Async.firstExc es with
      | some e => .err e (Async.finishAll es s1)
      | none => .ok (es.map Entry.value) (Async.finishAll es s1))
    cases Async.firstExc es with
    | none => exact ⟨σ1, seg1 ++ seg2, by rw [l2, l1, List.append_assoc], A.trans a1 a2, hP p1 q2 n2⟩
    | some e => exact ⟨σ1, seg1 ++ seg2, by rw [l2, l1, List.append_assoc], A.trans a1 a2, hP p1 q2 n2⟩

theorem gather_blk (js : List Job) (hsl : ∀ j ∈ js, j.slot ≠ .finalize) (σ : Z) (s : St) (hb : B.Blk σ s) :
    APost A B.Blk B.Blk σ s.log (Async.gather sub sc kd x js s) :=
  gather_of_startAll B sc kd B.Blk B.blkFrame js σ s (startAll_blk B sc kd js hsl σ s hb)

theorem callbacks_blk (slot : Slot) (hslot : slot ≠ .finalize) (cs : List Nat) (σ : Z) (s : St) (hb : B.Blk σ s) :
    APost A B.Blk B.Blk σ s.log (Async.callbacks sub sc kd slot x cs s) := by
  unfold Async.callbacks
  refine APost.map _ (gather_blk B sc kd _ ?_ σ s hb)
  intro j hj
  obtain ⟨c, _, rfl⟩ := List.mem_map.mp hj
  exact hslot

theorem evalConds_blk (conds : List Cond) (σ : Z) (s : St) (hb : B.Blk σ s) :
    APost A B.Blk B.Blk σ s.log (Async.evalConds sub sc kd x conds s) := by
  unfold Async.evalConds
  refine APost.map _ (gather_blk B sc kd _ ?_ σ s hb)
  intro j hj
  obtain ⟨c, _, rfl⟩ := List.mem_map.mp hj
  unfold Async.condJob
  cases c.target <;> simp

theorem changeState_blk (t : Trans) (dst : Nat) (σ : Z) (s : St) (hb : B.Blk σ s) :
    APost A B.Blk B.Blk σ s.log (Async.changeState sub sc kd cfg x t dst s) := by
  unfold Async.changeState
  cases cfg.state? (s.stateOf x.model) with
  | none => exact APost.err A _ hb
  | some src =>
    refine APost.bind (callbacks_blk B sc kd .onExit (by simp) _ σ s hb) ?_
    intro _ σ1 s1 h1
    cases cfg.state? dst with
    | none => exact APost.err A _ h1
    | some d =>
      have h1' : B.Blk σ1 (s1.setState x.model dst) := B.blkFrame h1 rfl rfl
      refine APost.bind (callbacks_blk B sc kd .onEnter (by simp) _ σ1 _ h1') ?_
      intro _ σ2 s2 h2
      by_cases hf : d.final = true
      · simp only [hf, if_true]; exact callbacks_blk B sc kd .onFinal (by simp) _ σ2 s2 h2
      · simp only [hf]; exact APost.ok A () h2

theorem execute_blk (t : Trans) (σ : Z) (s : St) (hb : B.Blk σ s) :
    APost A B.Blk B.Blk σ s.log (Async.execute sub sc kd cfg x t s) := by
  unfold Async.execute
  refine APost.bind (callbacks_blk B sc kd .prepare (by simp) _ σ s hb) ?_
  intro _ σ1 s1 h1
  refine APost.bind (evalConds_blk B sc kd _ σ1 s1 h1) ?_
  intro ok σ2 s2 h2
  cases ok with
  | false => exact APost.ok A false h2
  | true =>
    simp only [Bool.not_true, Bool.false_eq_true, if_false]
    refine APost.bind (callbacks_blk B sc kd .beforeSC (by simp) _ σ2 s2 h2) ?_
    intro _ σ3 s3 h3
    refine APost.bind (callbacks_blk B sc kd .before (by simp) _ σ3 s3 h3) ?_
    intro _ σ4 s4 h4
    refine APost.bind (P := B.Blk) ?_ ?_
    · cases t.dest with
      | none => exact APost.ok A () h4
      | some d => exact changeState_blk B sc kd cfg t d σ4 s4 h4
    · intro _ σ5 s5 h5
      refine APost.bind (callbacks_blk B sc kd .after (by simp) _ σ5 s5 h5) ?_
      intro _ σ6 s6 h6
      refine APost.bind (callbacks_blk B sc kd .afterSC (by simp) _ σ6 s6 h6) ?_
      intro _ σ7 s7 h7
      exact APost.ok A true h7

theorem tryTransitions_blk : ∀ (ts : List Trans) (σ : Z) (s : St), B.Blk σ s →
    APost A B.Blk B.Blk σ s.log (Async.tryTransitions sub sc kd cfg x ts s)
  | [], σ, s, hb => APost.ok A false hb
  | t :: ts, σ, s, hb => by
    simp only [Async.tryTransitions]
    refine APost.bind (execute_blk B sc kd cfg t σ s hb) ?_
    intro ok σ1 s1 h1
    cases ok with
    | true => exact APost.ok A true h1
    | false => exact tryTransitions_blk ts σ1 s1 h1

theorem eventBody_blk (ts : List Trans) (src : Nat) (σ : Z) (s : St) (hb : B.Blk σ s) :
    APost A B.Blk B.Blk σ s.log (Async.eventBody sub sc kd cfg ts x src s) := by
  unfold Async.eventBody
  cases candidates ts src with
  | none =>
    by_cases hig : ignoreInvalid cfg src = true
    · simp only [hig, if_true]; exact APost.ok A false hb
    · simp only [hig]; exact APost.err A _ hb
  | some cs =>
    unfold Async.eventProcess
    exact APost.bind (callbacks_blk B sc kd .prepareEvent (by simp) _ σ s hb)
      (fun _ σ1 s1 h1 => tryTransitions_blk B sc kd cfg cs σ1 s1 h1)

theorem exceptClause_blk (body : R Bool) (σ : Z) (l : List Item) (hbody : APost A B.Blk B.Blk σ l body) :
    APost A B.Blk B.Blk σ l (Async.exceptClause sub sc kd cfg x body) := by
  refine APost.both (k := Async.exceptClause sub sc kd cfg x) hbody rfl ?_ ?_
  · intro b σ1 s1 h1; exact APost.ok A b h1
  · intro e σ1 s1 h1
    show APost A B.Blk B.Blk σ1 s1.log (match cfg.onException with
      | [] => .err e s1
      | hs => (Async.callbacks sub sc kd .onException x hs s1).bind fun _ s' => .ok false s')
    cases cfg.onException with
    | nil => exact APost.err A e h1
    | cons h0 hs =>
      exact APost.bind (callbacks_blk B sc kd .onException (by simp) (h0 :: hs) σ1 s1 h1)
        (fun _ σ2 s2 h2 => APost.ok A false h2)

/-- the `finally:` block, given that the finalize callbacks take the acceptor from `Blk` to `Syn true` -/
theorem finallyClause_post
    (hfin : ∀ σ s, B.Blk σ s → APost A (B.Syn true) (B.Syn true) σ s.log
      (Async.callbacks sub sc kd .finalize x cfg.finalize s))
    (r : R Bool) (σ : Z) (l : List Item) (hr : APost A B.Blk B.Blk σ l r) :
    APost A (B.Syn true) (B.Syn true) σ l (Async.finallyClause sub sc kd cfg x r) := by
  refine APost.both (k := Async.finallyClause sub sc kd cfg x) hr rfl ?_ ?_
  · intro b σ1 s1 h1
    have h := hfin σ1 s1 h1
    show APost A _ _ σ1 s1.log (match Async.callbacks sub sc kd .finalize x cfg.finalize s1 with
      | .ok _ s' => .ok b s'
      | .err _ s' => .ok b s'
      | .oof => .oof)
    cases hc : Async.callbacks sub sc kd .finalize x cfg.finalize s1 with
    | oof => trivial
    | ok u s2 => rw [hc] at h; exact h
    | err e s2 => rw [hc] at h; exact h
  · intro e σ1 s1 h1
    have h := hfin σ1 s1 h1
    show APost A _ _ σ1 s1.log (match Async.callbacks sub sc kd .finalize x cfg.finalize s1 with
      | .ok _ s' => .err e s'
      | .err _ s' => .err e s'
      | .oof => .oof)
    cases hc : Async.callbacks sub sc kd .finalize x cfg.finalize s1 with
    | oof => trivial
    | ok u s2 => rw [hc] at h; exact h
    | err e2 s2 => rw [hc] at h; exact h

/-- `AsyncEvent._trigger` for the event of `x`: if it returns, the event has been finalized; if it raises, it has
been finalized too, or nothing happened at all (unregistered state of the model) -/
theorem eventTrigger_post
    (hfin : ∀ σ s, B.Blk σ s → APost A (B.Syn true) (B.Syn true) σ s.log
      (Async.callbacks sub sc kd .finalize x cfg.finalize s))
    (ts : List Trans) (σ : Z) (s : St) (hb : B.Blk σ s) :
    APost A (B.Syn true) B.Any σ s.log (Async.eventTrigger sub sc kd cfg ts x s) := by
  unfold Async.eventTrigger
  simp only []
  cases hst : cfg.state? (s.stateOf x.model) with
  | none => exact APost.err A _ (B.blkAny hb)
  | some sd =>
    simp only []
    refine (finallyClause_post B sc kd cfg hfin _ σ s.log ?_).weaken (fun _ _ h => h) (fun _ _ h => B.synAny h)
    exact exceptClause_blk B sc kd cfg _ σ s.log (eventBody_blk B sc kd cfg ts _ σ s hb)

end Generic

end A5
end TM
