/-
  Proofs/C02.lean — assembling the layers: the relation "the ghost invariant is carried from the view before to the
  view after" is closed under marks and under state changes, hence (frame theorem) under every trigger call.
-/
import Proofs.C02Tree
import Proofs.C02Enter
import Proofs.C02Change
import Proofs.C02Ghost
import Proofs.C02Frame
import Proofs.C02Fin

namespace TM
open C02

/-- **the invariant of C02** on a ghost state `g` and a configuration: the configuration is admissible with a
single active root; `g.live` — the states entered and not exited — is duplicate-free and has exactly the nodes
of the configuration tree (active states and all their ancestors); plus bookkeeping facts about the ghost
itself (it has not halted, states entered in the current event imply an executed transition, the per-event
maximum is up to date) -/
structure GI (cfg : NCfg) (g : G) (conf : Forest) : Prop where
  conf_ok : ConfOK cfg.states conf = true
  root1 : conf.len = 1
  nodup : g.live.Nodup
  live_eq : ∀ p, p ∈ g.live ↔ p ∈ conf.nodes
  running : g.halted = false
  entered_exec : g.entered ≠ [] → g.execd ≠ []
  max_ok : g.execd.length ≤ g.maxExec

/-- the five flags that never rise, and the end-of-event checks -/
def C02.G.core (g : G) : Bool × Bool × Bool × Bool × Bool :=
  (g.enteredWhileLive, g.exitedWhileDead, g.enterBeforeParent, g.exitBeforeChild, g.finBad)

/-- what a piece of a run does to every ghost state that satisfies the invariant -/
def Carries (cfg : NCfg) (a : Forest) (seg : List GEv) (b : Forest) : Prop :=
  ∀ g, GI cfg g a →
    GI cfg (grun cfg g seg) b ∧ (grun cfg g seg).core = g.core ∧ g.maxExec ≤ (grun cfg g seg).maxExec ∧
    ((grun cfg g seg).enteredThenExited = true → g.enteredThenExited = true ∨ 2 ≤ (grun cfg g seg).maxExec)

def RInv (cfg : NCfg) (a b : View) : Prop := ∃ seg, b.glog = a.glog ++ seg ∧ Carries cfg a.conf seg b.conf

theorem Carries.refl (cfg : NCfg) (a : Forest) : Carries cfg a [] a := by
  intro g hg
  exact ⟨hg, rfl, Nat.le_refl _, fun h => Or.inl h⟩

theorem Carries.trans {cfg : NCfg} {a b c : Forest} {s1 s2 : List GEv}
    (h1 : Carries cfg a s1 b) (h2 : Carries cfg b s2 c) : Carries cfg a (s1 ++ s2) c := by
  intro g hg
  obtain ⟨g1, c1, m1, e1⟩ := h1 g hg
  obtain ⟨g2, c2, m2, e2⟩ := h2 _ g1
  rw [grun_append]
  refine ⟨g2, c2.trans c1, Nat.le_trans m1 m2, ?_⟩
  intro h
  rcases e2 h with h' | h'
  · rcases e1 h' with h'' | h''
    · exact Or.inl h''
    · exact Or.inr (Nat.le_trans h'' m2)
  · exact Or.inr h'

theorem RInv.refl (cfg : NCfg) (v : View) : RInv cfg v v := ⟨[], by simp, Carries.refl cfg _⟩

theorem RInv.trans {cfg : NCfg} {a b c : View} (h1 : RInv cfg a b) (h2 : RInv cfg b c) : RInv cfg a c := by
  obtain ⟨s1, l1, c1⟩ := h1
  obtain ⟨s2, l2, c2⟩ := h2
  exact ⟨s1 ++ s2, by rw [l2, l1, List.append_assoc], c1.trans c2⟩

/-! ### `eraseDups` as a duplicate test (any type) -/

theorem eraseDups_len_le' {α} [BEq α] [LawfulBEq α] : ∀ (n : Nat) (l : List α), l.length ≤ n →
    l.eraseDups.length ≤ l.length := by
  intro n
  induction n with
  | zero => intro l h; cases l <;> simp_all
  | succ n ih =>
    intro l h
    cases l with
    | nil => simp
    | cons a l =>
      rw [List.eraseDups_cons]
      have h1 := List.length_filter_le (fun b => !b == a) l
      have h2 := ih (l.filter fun b => !b == a) (by simp at h; omega)
      simp only [List.length_cons]
      omega

theorem nodup_of_eraseDups_len' {α} [BEq α] [LawfulBEq α] : ∀ (l : List α),
    l.eraseDups.length = l.length → l.Nodup := by
  intro l
  induction l with
  | nil => simp
  | cons a l ih =>
    intro h
    rw [List.eraseDups_cons] at h
    have h1 := List.length_filter_le (fun b => !b == a) l
    have h2 := eraseDups_len_le' _ (l.filter fun b => !b == a) (Nat.le_refl _)
    simp only [List.length_cons] at h
    have h3 : (l.filter fun b => !b == a).length = l.length := by omega
    have h4 := List.length_filter_eq_length_iff.mp h3
    have h5 : l.filter (fun b => !b == a) = l := List.filter_eq_self.mpr h4
    rw [h5] at h
    refine List.nodup_cons.mpr ⟨?_, ih (by omega)⟩
    intro hm
    have := h4 a hm
    simp at this

/-! ### marks -/

theorem grun_single (cfg : NCfg) (g : G) (e : GEv) : grun cfg g [e] = gstep cfg g e := rfl

/-- a mark (other than a callback exception) carries the invariant; `fin` needs the mask of the configuration -/
theorem Carries.mark (cfg : NCfg) (hwf : cfg.states.WF = true) (conf : Forest) (e : GEv) (hm : e.isMark = true)
    (hfin : ∀ t m, e = .fin t m → m = confMask cfg conf)
    (hne : ∀ t x, e = .raised t x → x.isEngine = true) :
    Carries cfg conf [e] conf := by
  intro g hg
  rw [grun_single]
  have hh := hg.running
  have same : ∀ e', gstep cfg g e' = g →
      GI cfg (gstep cfg g e') conf ∧ (gstep cfg g e').core = g.core ∧ g.maxExec ≤ (gstep cfg g e').maxExec ∧
      ((gstep cfg g e').enteredThenExited = true → g.enteredThenExited = true ∨ 2 ≤ (gstep cfg g e').maxExec) := by
    intro e' h'; rw [h']; exact ⟨hg, rfl, Nat.le_refl _, fun h => Or.inl h⟩
  cases e with
  | enter p => simp [GEv.isMark] at hm
  | exit p => simp [GEv.isMark] at hm
  | api t ev => exact same _ (by simp [gstep, hh])
  | cand t => exact same _ (by simp [gstep, hh])
  | ret t b => exact same _ (by simp [gstep, hh])
  | exec r =>
    have l1 : (gstep cfg g (.exec r)).live = g.live := by simp [gstep, hh]
    have l2 : (gstep cfg g (.exec r)).halted = false := by simp [gstep, hh]
    have l3 : (gstep cfg g (.exec r)).execd = g.execd ++ [r] := by simp [gstep, hh]
    have l4 : (gstep cfg g (.exec r)).maxExec = max g.maxExec (g.execd.length + 1) := by simp [gstep, hh]
    have l5 : (gstep cfg g (.exec r)).core = g.core := by simp [gstep, hh, G.core]
    have l6 : (gstep cfg g (.exec r)).enteredThenExited = g.enteredThenExited := by simp [gstep, hh]
    refine ⟨⟨hg.conf_ok, hg.root1, by rw [l1]; exact hg.nodup, by rw [l1]; exact hg.live_eq, l2, ?_, ?_⟩, l5, ?_, ?_⟩
    · intro _; rw [l3]; simp
    · rw [l3, l4]; simp only [List.length_append, List.length_singleton]; omega
    · rw [l4]; omega
    · rw [l6]; exact fun h => Or.inl h
  | fin t m =>
    have hmask := hfin t m rfl
    have hok : finOk cfg g.live m = true := by
      rw [hmask]; exact finOk_of_inv cfg hwf conf hg.conf_ok g.live hg.nodup hg.live_eq
    have l1 : (gstep cfg g (.fin t m)).live = g.live := by simp [gstep, hh]
    have l2 : (gstep cfg g (.fin t m)).halted = false := by simp [gstep, hh]
    have l3 : (gstep cfg g (.fin t m)).execd = [] := by simp [gstep, hh]
    have l4 : (gstep cfg g (.fin t m)).maxExec = g.maxExec := by simp [gstep, hh]
    have l5 : (gstep cfg g (.fin t m)).core = g.core := by simp [gstep, hh, G.core, hok]
    have l6 : (gstep cfg g (.fin t m)).enteredThenExited = g.enteredThenExited := by simp [gstep, hh]
    have l7 : (gstep cfg g (.fin t m)).entered = [] := by simp [gstep, hh]
    refine ⟨⟨hg.conf_ok, hg.root1, by rw [l1]; exact hg.nodup, by rw [l1]; exact hg.live_eq, l2, ?_, ?_⟩, l5, ?_, ?_⟩
    · intro h; exact absurd l7 h
    · rw [l3]; simp
    · rw [l4]; exact Nat.le_refl _
    · rw [l6]; exact fun h => Or.inl h
  | raised t x =>
    have hx := hne t x rfl
    cases x with
    | user n => simp [Exc.isEngine] at hx
    | base n => simp [Exc.isEngine] at hx
    | machineError => exact same _ (by simp [gstep, hh])
    | attributeError => exact same _ (by simp [gstep, hh])
    | valueError => exact same _ (by simp [gstep, hh])
    | cancelled => exact same _ (by simp [gstep, hh])
    | other => exact same _ (by simp [gstep, hh])

/-! ### state changes -/

theorem Scope.walk_eq_walkTo : ∀ (p : SPath) (sc : Scope), sc.walk p = sc.walkTo p
  | [], sc => rfl
  | k :: p, sc => by
    simp only [Scope.walk, Scope.walkTo]
    cases sc.enter k with
    | none => rfl
    | some sc' => exact Scope.walk_eq_walkTo p sc'

theorem enterSpec_holds : EnterSpec := fun sc hwf d0 dr T ents h => enterDest_spec sc hwf d0 dr T ents h

theorem enterRootEq_holds : EnterRootEq := by
  intro sc rt dst
  rw [enterRoot_eq, Scope.walk_eq_walkTo]
  cases sc.walkTo rt <;> rfl

variable (sub : NSub) (sc : Script) (cfg : NCfg)

theorem ninvoke_ok (hR : NoRaise sc) (hC : NoCmds sc) (slot : Slot) (x : Ctx) (c : Nat) (s : NSt) :
    ∃ b s', ninvoke sub sc cfg slot x c s = .ok b s' ∧ s'.conf = s.conf ∧ s'.glog = s.glog := by
  obtain ⟨b, hb⟩ := hR c (s.count c)
  refine ⟨b, (({ s with counts := aset c (s.count c + 1) s.counts }).emit
    (.call slot c x.model x.tag (confMask cfg s.conf))).emit (.done c (.ret b)), ?_, rfl, rfl⟩
  simp only [ninvoke, hC c (s.count c), nrunCmds, hb]

theorem ncallbacks_ok (hR : NoRaise sc) (hC : NoCmds sc) (slot : Slot) (x : Ctx) :
    ∀ (cbs : List Nat) (s : NSt), ∃ s', ncallbacks sub sc cfg slot x cbs s = .ok () s' ∧ s'.conf = s.conf ∧ s'.glog = s.glog
  | [], s => ⟨s, rfl, rfl, rfl⟩
  | c :: cs, s => by
    obtain ⟨b, s1, h1, c1, g1⟩ := ninvoke_ok sub sc cfg hR hC slot x c s
    obtain ⟨s2, h2, c2, g2⟩ := ncallbacks_ok hR hC slot x cs s1
    exact ⟨s2, by simp only [ncallbacks, h1, Res.bind, h2], c2.trans c1, g2.trans g1⟩

theorem exitAll_ok (hR : NoRaise sc) (hC : NoCmds sc) (x : Ctx) :
    ∀ (fs : List Found) (s : NSt), ∃ s', exitAll sub sc cfg x fs s = .ok () s' ∧ s'.conf = s.conf ∧
      s'.glog = s.glog ++ (pathsOf fs).map GEv.exit
  | [], s => ⟨s, rfl, rfl, by simp [pathsOf]⟩
  | f :: fs, s => by
    obtain ⟨s1, h1, c1, g1⟩ := ncallbacks_ok sub sc cfg hR hC .onExit x f.d.onExit (s.emitG (.exit f.path))
    obtain ⟨s2, h2, c2, g2⟩ := exitAll_ok hR hC x fs s1
    refine ⟨s2, by simp only [exitAll, h1, Res.bind, h2], c2.trans c1, ?_⟩
    rw [g2, g1]; simp [NSt.emitG, pathsOf]

theorem enterAll_ok (hR : NoRaise sc) (hC : NoCmds sc) (x : Ctx) :
    ∀ (fs : List Found) (s : NSt), ∃ s', enterAll sub sc cfg x fs s = .ok () s' ∧ s'.conf = s.conf ∧
      s'.glog = s.glog ++ (pathsOf fs).map GEv.enter
  | [], s => ⟨s, rfl, rfl, by simp [pathsOf]⟩
  | f :: fs, s => by
    obtain ⟨s1, h1, c1, g1⟩ := ncallbacks_ok sub sc cfg hR hC .onEnter x f.d.onEnter (s.emitG (.enter f.path))
    obtain ⟨s2, h2, c2, g2⟩ := enterAll_ok hR hC x fs s1
    refine ⟨s2, by simp only [enterAll, h1, Res.bind, h2], c2.trans c1, ?_⟩
    rw [g2, g1]; simp [NSt.emitG, pathsOf]

/-- the `exec` mark followed by a resolved state change carries the invariant -/
theorem Carries.change (hwf : cfg.states.WF = true) (scope : Scope) (hsc : cfg.root.walkTo scope.pre = some scope)
    (conf : Forest) (dest : SPath) (r : Resolved) (tr : TRef)
    (hr : resolveTransition cfg.root scope conf dest = .ok r) :
    Carries cfg conf (GEv.exec tr :: ((pathsOf r.exits).map GEv.exit ++ (pathsOf r.enters).map GEv.enter)) r.tree := by
  intro g hg
  obtain ⟨A, hA, xnd, xin, xord, xcl, nnd, nnew, npf, tok, tlen, tmem⟩ :=
    resolveTransition_spec enterSpec_holds enterRootEq_holds cfg hwf scope hsc conf hg.conf_ok hg.root1 dest r hr
  have hm := Carries.mark cfg hwf conf (.exec tr) rfl (fun t m h => by cases h) (fun t x h => by cases h) g hg
  rw [grun_single] at hm
  obtain ⟨g1ok, c1, m1, _⟩ := hm
  have hsplit : grun cfg g (GEv.exec tr :: ((pathsOf r.exits).map GEv.exit ++ (pathsOf r.enters).map GEv.enter))
      = grun cfg (gstep cfg g (.exec tr)) ((pathsOf r.exits).map GEv.exit ++ (pathsOf r.enters).map GEv.enter) := rfl
  rw [hsplit]
  have hh := hg.running
  have e1 : (gstep cfg g (.exec tr)).entered = g.entered := by simp [gstep, hh]
  have e2 : (gstep cfg g (.exec tr)).execd = g.execd ++ [tr] := by simp [gstep, hh]
  have e3 : (gstep cfg g (.exec tr)).enteredThenExited = g.enteredThenExited := by simp [gstep, hh]
  have e4 : (gstep cfg g (.exec tr)).live = g.live := by simp [gstep, hh]
  have hAl : A = [] ∨ (A ∈ (gstep cfg g (.exec tr)).live ∧ A ∉ pathsOf r.exits) := by
    rcases hA with h | h
    · exact Or.inl h
    · refine Or.inr ⟨by rw [e4]; exact (hg.live_eq A).2 h, ?_⟩
      intro hx
      have := (xin A hx).2
      rw [properPrefix_self] at this
      cases this
  obtain ⟨lnd, lmem, f1, f2, f3, f4, f5, lh, lent, _, _, lexe, lmax, lete⟩ :=
    grun_change cfg (gstep cfg g (.exec tr)) A (pathsOf r.exits) (pathsOf r.enters) g1ok.running g1ok.nodup hAl
      xnd (fun p hp => (g1ok.live_eq p).2 (xin p hp).1) xord
      (fun p hp q hq hpq => xcl p hp q ((g1ok.live_eq q).1 hq) hpq)
      nnd (fun p hp hl => nnew p hp ((g1ok.live_eq p).1 hl)) npf
  refine ⟨⟨tok, tlen, lnd, ?_, lh, ?_, ?_⟩, ?_, ?_, ?_⟩
  · intro p
    rw [lmem, tmem]
    constructor
    · rintro (⟨h1, h2⟩ | h)
      · exact Or.inl ⟨(g1ok.live_eq p).1 h1, h2⟩
      · exact Or.inr h
    · rintro (⟨h1, h2⟩ | h)
      · exact Or.inl ⟨(g1ok.live_eq p).2 h1, h2⟩
      · exact Or.inr h
  · intro _; rw [lexe, e2]; simp
  · rw [lexe, lmax]; exact g1ok.max_ok
  · simp only [G.core, f1, f2, f3, f4, f5]; exact c1
  · rw [lmax]; exact m1
  · intro h
    rw [lete, e3, e1] at h
    rw [Bool.or_eq_true] at h
    rcases h with h | h
    · exact Or.inl h
    · right
      rw [lmax]
      have hne : g.entered ≠ [] := by
        intro h0; rw [h0] at h; simp at h
      have hx : g.execd ≠ [] := hg.entered_exec hne
      have : 2 ≤ (gstep cfg g (.exec tr)).execd.length := by
        rw [e2]; simp only [List.length_append, List.length_singleton]
        have : 0 < g.execd.length := by
          cases hl : g.execd with
          | nil => exact absurd hl hx
          | cons a l => simp
        omega
      exact Nat.le_trans this g1ok.max_ok

/-- the relation "carries the invariant" is closed under everything hierarchical dispatch does -/
theorem rinv_closed (hwf : cfg.states.WF = true) (hR : NoRaise sc) (hC : NoCmds sc) :
    Closed' cfg sub sc (RInv cfg) where
  refl := RInv.refl cfg
  trans := RInv.trans
  mark := fun v e hm hfin hne => ⟨[e], rfl, Carries.mark cfg hwf v.conf e hm hfin hne⟩
  execChange := by
    intro scope x dest tr s s' hsc h
    simp only [nchangeState] at h
    cases hr : resolveTransition cfg.root scope s.conf dest with
    | err e =>
      simp only [hr, Res.state?, Option.some.injEq] at h
      subst h
      exact ⟨[.exec tr], rfl, Carries.mark cfg hwf s.conf (.exec tr) rfl (fun t m h => by cases h) (fun t x h => by cases h)⟩
    | oof => simp [hr, Res.state?] at h
    | ok r =>
      simp only [hr] at h
      obtain ⟨s1, h1, c1, g1⟩ := exitAll_ok sub sc cfg hR hC x r.exits
        { s with glog := s.glog ++ [.exec tr], exited := s.exited ++ r.exitNames }
      obtain ⟨s2, h2, c2, g2⟩ := enterAll_ok sub sc cfg hR hC x r.enters { s1 with conf := r.tree }
      simp only [h1, Res.bind, h2, Res.state?, Option.some.injEq] at h
      subst h
      refine ⟨GEv.exec tr :: ((pathsOf r.exits).map GEv.exit ++ (pathsOf r.enters).map GEv.enter), ?_, ?_⟩
      · show s2.glog = s.glog ++ _
        rw [g2]; show s1.glog ++ _ = _; rw [g1]; simp
      · show Carries cfg s.conf _ s2.conf
        rw [c2]
        exact Carries.change cfg hwf scope hsc s.conf dest r tr hr

end TM
