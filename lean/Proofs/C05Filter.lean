import Model.Spec.C05
import Model.Spec.C07

namespace TM
namespace C05F
open C05

theorem busy_nil (fin0 : Nat) (σ : Q) : busy fin0 σ [] = none := by simp [busy]

theorem busy_done (fin0 : Nat) (σ : Q) (c : Nat) (o : Out) (l : List Item) :
    busy fin0 σ (.done c o :: l) = busy fin0 σ l := by simp [busy]

theorem busy_ret_true (fin0 : Nat) (σ : Q) (d : Nat) (l : List Item) :
    busy fin0 σ (.ret d true :: l) = if d = σ.owner ∧ σ.q.length = 1 ∧ σ.fin then some l else none := by
  simp [busy]

theorem busy_ret_false (fin0 : Nat) (σ : Q) (d : Nat) (l : List Item) :
    busy fin0 σ (.ret d false :: l) = none := by
  simp [busy]

theorem busy_raised (fin0 : Nat) (σ : Q) (d : Nat) (e : Exc) (l : List Item) :
    busy fin0 σ (.raised d e :: l) = if d = σ.owner then some l else none := by
  simp [busy]

theorem busy_api0_ret (fin0 : Nat) (σ : Q) (t m ev t' : Nat) (b : Bool) (l : List Item) :
    busy fin0 σ (.api 0 t m ev :: .ret t' b :: l) =
      if t' = t then (if b then busy fin0 { σ with q := σ.q ++ [(t, m)] } l else busy fin0 σ l) else none := by
  simp [busy]

theorem busy_api0_raised (fin0 : Nat) (σ : Q) (t m ev t' : Nat) (e : Exc) (l : List Item) :
    busy fin0 σ (.api 0 t m ev :: .raised t' e :: l) = if t' = t then busy fin0 σ l else none := by
  simp [busy]

theorem busy_api_nil (fin0 : Nat) (σ : Q) (k t m ev : Nat) :
    busy fin0 σ [.api k t m ev] = none := by
  simp [busy]

theorem busy_api_other (fin0 : Nat) (σ : Q) (k t m ev : Nat) (l : List Item) (h0 : k ≠ 0) (h3 : k ≠ 3) :
    busy fin0 σ (.api k t m ev :: l) = none := by
  unfold busy
  split <;> simp_all

theorem busy_api_bad (fin0 : Nat) (σ : Q) (k t m ev : Nat) (x : Item) (l : List Item)
    (h1 : ∀ t b, x ≠ .ret t b) (h2 : ∀ t e, x ≠ .raised t e) :
    busy fin0 σ (.api k t m ev :: x :: l) = none := by
  unfold busy
  split <;> simp_all

theorem busy_call_head (fin0 : Nat) (σ : Q) (sl : Slot) (c m t st : Nat) (r : List (Nat × Nat)) (l : List Item)
    (hq : σ.q = (t, m) :: r) (hf : σ.fin = false) :
    busy fin0 σ (.call sl c m t st :: l) = busy fin0 { σ with fin := decide (sl = .finalize ∧ c = fin0) } l := by
  simp [busy, hq, hf]

theorem busy_call_fin (fin0 : Nat) (σ : Q) (c m t st : Nat) (r : List (Nat × Nat)) (l : List Item)
    (hq : σ.q = (t, m) :: r) (hf : σ.fin = true) (hc : c ≠ fin0) :
    busy fin0 σ (.call .finalize c m t st :: l) = busy fin0 σ l := by
  simp [busy, hq, hf, hc]

theorem busy_call_next (fin0 : Nat) (σ : Q) (sl : Slot) (c m t st : Nat) (h : Nat × Nat) (r : List (Nat × Nat))
    (l : List Item) (hq : σ.q = h :: (t, m) :: r) (hf : σ.fin = true) (hne : ¬ (h.1 = t ∧ h.2 = m)) :
    busy fin0 σ (.call sl c m t st :: l) =
      busy fin0 { σ with q := (t, m) :: r, fin := decide (sl = .finalize ∧ c = fin0) } l := by
  obtain ⟨h1, h2⟩ := h
  simp only [] at hne
  simp only [busy, hq, hf, if_neg hne]
  simp

/-- the accepted runs of `busy` on traces without remove_model, as a relation -/
inductive Run (fin0 : Nat) : Q → List Item → List Item → Prop
  | done {σ c o l rest} : Run fin0 σ l rest → Run fin0 σ (.done c o :: l) rest
  | callHead {σ sl c m t st r l rest} : σ.q = (t, m) :: r → σ.fin = false →
      Run fin0 { σ with fin := decide (sl = .finalize ∧ c = fin0) } l rest → Run fin0 σ (.call sl c m t st :: l) rest
  | callFin {σ c m t st r l rest} : σ.q = (t, m) :: r → σ.fin = true → c ≠ fin0 →
      Run fin0 σ l rest → Run fin0 σ (.call .finalize c m t st :: l) rest
  | callNext {σ sl c m t st h r l rest} : σ.q = h :: (t, m) :: r → σ.fin = true → ¬ (h.1 = t ∧ h.2 = m) →
      Run fin0 { σ with q := (t, m) :: r, fin := decide (sl = .finalize ∧ c = fin0) } l rest →
      Run fin0 σ (.call sl c m t st :: l) rest
  | defer {σ t m ev l rest} : Run fin0 { σ with q := σ.q ++ [(t, m)] } l rest →
      Run fin0 σ (.api 0 t m ev :: .ret t true :: l) rest
  | refuse {σ t m ev l rest} : Run fin0 σ l rest → Run fin0 σ (.api 0 t m ev :: .ret t false :: l) rest
  | refuseExc {σ t m ev e l rest} : Run fin0 σ l rest → Run fin0 σ (.api 0 t m ev :: .raised t e :: l) rest
  | ret {σ d rest} : d = σ.owner → σ.q.length = 1 → σ.fin = true → Run fin0 σ (.ret d true :: rest) rest
  | raised {σ d e rest} : d = σ.owner → Run fin0 σ (.raised d e :: rest) rest

theorem busy_call_inv (fin0 : Nat) (σ : Q) (sl : Slot) (c m t st : Nat) (l rest : List Item)
    (h : busy fin0 σ (.call sl c m t st :: l) = some rest) :
    (∃ r, σ.q = (t, m) :: r ∧ σ.fin = false ∧
        busy fin0 { σ with fin := decide (sl = .finalize ∧ c = fin0) } l = some rest) ∨
    (∃ r, σ.q = (t, m) :: r ∧ σ.fin = true ∧ sl = .finalize ∧ c ≠ fin0 ∧ busy fin0 σ l = some rest) ∨
    (∃ h r, σ.q = h :: (t, m) :: r ∧ σ.fin = true ∧ ¬ (h.1 = t ∧ h.2 = m) ∧
        busy fin0 { σ with q := (t, m) :: r, fin := decide (sl = .finalize ∧ c = fin0) } l = some rest) := by
  simp only [busy] at h
  split at h
  · rename_i t0 m0 r hq
    split at h
    · rename_i heq
      obtain ⟨rfl, rfl⟩ := heq
      split at h
      · rename_i hf
        split at h
        · rename_i hs
          exact Or.inr (Or.inl ⟨r, hq, hf, hs.1, hs.2, h⟩)
        · cases h
      · rename_i hf
        exact Or.inl ⟨r, hq, by simpa using hf, h⟩
    · rename_i hne
      split at h
      · rename_i hf
        split at h
        · rename_i t1 m1 r2
          split at h
          · rename_i heq
            obtain ⟨rfl, rfl⟩ := heq
            exact Or.inr (Or.inr ⟨(t0, m0), r2, hq, hf, hne, h⟩)
          · cases h
        · cases h
      · cases h
  · cases h

/-- no remove_model calls (api kind 3) in the trace -/
def NoRemove (l : List Item) : Prop := ∀ i ∈ l, ∀ t m e, i ≠ .api 3 t m e

theorem NoRemove.tail {x : Item} {l : List Item} (h : NoRemove (x :: l)) : NoRemove l :=
  fun i hi => h i (List.mem_cons_of_mem _ hi)

theorem busy_run (fin0 : Nat) : ∀ (n : Nat) (l : List Item) (σ : Q) (rest : List Item), l.length ≤ n →
    NoRemove l → busy fin0 σ l = some rest → Run fin0 σ l rest := by
  intro n
  induction n with
  | zero =>
    intro l σ rest hl _ h
    cases l with
    | nil => simp [busy_nil] at h
    | cons x l => simp at hl
  | succ n ih =>
    intro l σ rest hl hnr h
    cases l with
    | nil => simp [busy_nil] at h
    | cons x l =>
      have hl' : l.length ≤ n := by simpa using hl
      cases x with
      | done c o =>
        rw [busy_done] at h
        exact .done (ih l σ rest hl' hnr.tail h)
      | call sl c m t st =>
        rcases busy_call_inv fin0 σ sl c m t st l rest h with ⟨r, hq, hf, h'⟩ | ⟨r, hq, hf, rfl, hc, h'⟩ |
          ⟨h0, r, hq, hf, hne, h'⟩
        · exact .callHead hq hf (ih l _ rest hl' hnr.tail h')
        · exact .callFin hq hf hc (ih l _ rest hl' hnr.tail h')
        · exact .callNext hq hf hne (ih l _ rest hl' hnr.tail h')
      | ret d b =>
        cases b with
        | false => simp [busy_ret_false] at h
        | true =>
          rw [busy_ret_true] at h
          split at h
          · rename_i hc
            cases h
            exact .ret hc.1 hc.2.1 hc.2.2
          · cases h
      | raised d e =>
        rw [busy_raised] at h
        split at h
        · rename_i hc
          cases h
          exact .raised hc
        · cases h
      | api k t m ev =>
        have hk3 : k ≠ 3 := by
          intro hk; subst hk
          exact hnr _ (List.mem_cons_self) t m ev rfl
        by_cases hk0 : k = 0
        · subst hk0
          cases l with
          | nil => simp [busy_api_nil] at h
          | cons y l =>
            have hl2 : l.length ≤ n := by simp at hl'; omega
            cases y with
            | ret t' b =>
              rw [busy_api0_ret] at h
              split at h
              · rename_i ht; subst ht
                cases b with
                | true => exact .defer (ih l _ rest hl2 hnr.tail.tail (by simpa using h))
                | false => exact .refuse (ih l _ rest hl2 hnr.tail.tail (by simpa using h))
              · cases h
            | raised t' e =>
              rw [busy_api0_raised] at h
              split at h
              · rename_i ht; subst ht
                exact .refuseExc (ih l _ rest hl2 hnr.tail.tail h)
              · cases h
            | done c o => rw [busy_api_bad _ _ _ _ _ _ _ _ (by simp) (by simp)] at h; cases h
            | call sl c m t st => rw [busy_api_bad _ _ _ _ _ _ _ _ (by simp) (by simp)] at h; cases h
            | api k t m ev => rw [busy_api_bad _ _ _ _ _ _ _ _ (by simp) (by simp)] at h; cases h
        · rw [busy_api_other _ _ _ _ _ _ _ hk0 hk3] at h; cases h

theorem Run.suffix {fin0 : Nat} {σ : Q} {l rest : List Item} (h : Run fin0 σ l rest) : rest <:+ l := by
  induction h with
  | done _ ih => exact ih.trans (List.suffix_cons _ _)
  | callHead _ _ _ ih => exact ih.trans (List.suffix_cons _ _)
  | callFin _ _ _ _ ih => exact ih.trans (List.suffix_cons _ _)
  | callNext _ _ _ _ ih => exact ih.trans (List.suffix_cons _ _)
  | defer _ ih => exact (ih.trans (List.suffix_cons _ _)).trans (List.suffix_cons _ _)
  | refuse _ ih => exact (ih.trans (List.suffix_cons _ _)).trans (List.suffix_cons _ _)
  | refuseExc _ ih => exact (ih.trans (List.suffix_cons _ _)).trans (List.suffix_cons _ _)
  | ret _ _ _ => exact List.suffix_cons _ _
  | raised _ => exact List.suffix_cons _ _

/-- tags of the trigger calls of a trace, in order -/
def tagsOf (l : List Item) : List Nat :=
  l.filterMap fun i => match i with | .api 0 t _ _ => some t | _ => none

@[simp] theorem tagsOf_nil : tagsOf [] = [] := rfl
@[simp] theorem tagsOf_done (c o l) : tagsOf (.done c o :: l) = tagsOf l := rfl
@[simp] theorem tagsOf_call (sl c m t st l) : tagsOf (.call sl c m t st :: l) = tagsOf l := rfl
@[simp] theorem tagsOf_ret (t b l) : tagsOf (.ret t b :: l) = tagsOf l := rfl
@[simp] theorem tagsOf_raised (t e l) : tagsOf (.raised t e :: l) = tagsOf l := rfl
@[simp] theorem tagsOf_api0 (t m e l) : tagsOf (.api 0 t m e :: l) = t :: tagsOf l := rfl

/-- a filter that keeps API calls, their outcomes and every finalize-stage callback start (it may
drop `done` items and the starts of callbacks of other stages) -/
structure KeepOK (keep : Item → Bool) : Prop where
  api : ∀ k t m e, keep (.api k t m e) = true
  ret : ∀ t b, keep (.ret t b) = true
  raised : ∀ t e, keep (.raised t e) = true
  fin : ∀ c m t st, keep (.call .finalize c m t st) = true

/-- the acceptor state `σ'` on the filtered trace versus the state `σ` on the raw trace: equal, or the
filtered run still shows the completed previous head (the `call` item that made the raw run pop it was
dropped) -/
def Lag (σ' σ : Q) : Prop :=
  σ' = σ ∨ (σ'.owner = σ.owner ∧ σ'.fin = true ∧ σ.fin = false ∧ ∃ h, σ'.q = h :: σ.q)

theorem run_filter {fin0 : Nat} {keep : Item → Bool} (hk : KeepOK keep) {σ : Q} {l rest : List Item}
    (h : Run fin0 σ l rest) : ∀ σ', Lag σ' σ → (σ'.q.map (·.1) ++ tagsOf l).Nodup →
      busy fin0 σ' (l.filter keep) = some (rest.filter keep) := by
  induction h with
  | @done σ c o l rest _ ih =>
    intro σ' hl hn
    rw [List.filter_cons]
    split
    · rw [busy_done]; exact ih σ' hl (by simpa using hn)
    · exact ih σ' hl (by simpa using hn)
  | @callHead σ sl c m t st r l rest hq hf _ ih =>
    intro σ' hl hn
    rw [List.filter_cons]
    rcases hl with rfl | ⟨ho, hf', _, h0, hq'⟩
    · split
      · rw [busy_call_head fin0 _ sl c m t st r _ hq hf]
        exact ih _ (Or.inl rfl) (by simpa using hn)
      · rename_i hkeep
        have hsl : sl ≠ .finalize := by
          intro hs; subst hs; exact hkeep (hk.fin c m t st)
        refine ih σ' (Or.inl ?_) (by simpa using hn)
        cases σ'; simp_all
    · split
      · have hne : ¬ (h0.1 = t ∧ h0.2 = m) := by
          intro hc
          rw [hq', hq] at hn
          simp [hc.1] at hn
        rw [busy_call_next fin0 σ' sl c m t st h0 r _ (by rw [hq', hq]) hf' hne]
        refine ih _ (Or.inl ?_) ?_
        · cases σ; cases σ'; simp_all
        · rw [hq', hq] at hn
          simp only [tagsOf_call] at hn
          exact hn.sublist (by simp)
      · rename_i hkeep
        have hsl : sl ≠ .finalize := by
          intro hs; subst hs; exact hkeep (hk.fin c m t st)
        refine ih σ' (Or.inr ⟨ho, hf', by simp [hsl], h0, hq'⟩) (by simpa using hn)
  | @callFin σ c m t st r l rest hq hf hc _ ih =>
    intro σ' hl hn
    rcases hl with rfl | ⟨_, _, hff, _⟩
    · rw [List.filter_cons, if_pos (hk.fin c m t st), busy_call_fin fin0 _ c m t st r _ hq hf hc]
      exact ih _ (Or.inl rfl) (by simpa using hn)
    · rw [hf] at hff; cases hff
  | @callNext σ sl c m t st h r l rest hq hf hne _ ih =>
    intro σ' hl hn
    rcases hl with rfl | ⟨_, _, hff, _⟩
    · rw [List.filter_cons]
      split
      · rw [busy_call_next fin0 _ sl c m t st h r _ hq hf hne]
        refine ih _ (Or.inl rfl) ?_
        rw [hq] at hn
        simp only [tagsOf_call] at hn
        exact hn.sublist (by simp)
      · rename_i hkeep
        have hsl : sl ≠ .finalize := by
          intro hs; subst hs; exact hkeep (hk.fin c m t st)
        exact ih σ' (Or.inr ⟨rfl, hf, by simp [hsl], h, hq⟩) (by simpa using hn)
    · rw [hf] at hff; cases hff
  | @defer σ t m ev l rest _ ih =>
    intro σ' hl hn
    rw [List.filter_cons, if_pos (hk.api _ _ _ _), List.filter_cons, if_pos (hk.ret _ _), busy_api0_ret,
      if_pos rfl, if_pos rfl]
    refine ih _ ?_ ?_
    · rcases hl with rfl | ⟨ho, hf', hf, h0, hq'⟩
      · exact Or.inl rfl
      · exact Or.inr ⟨ho, hf', hf, h0, by simp [hq']⟩
    · simpa using hn
  | @refuse σ t m ev l rest _ ih =>
    intro σ' hl hn
    rw [List.filter_cons, if_pos (hk.api _ _ _ _), List.filter_cons, if_pos (hk.ret _ _), busy_api0_ret,
      if_pos rfl]
    simp only [Bool.false_eq_true, if_false]
    refine ih _ hl ?_
    simp only [tagsOf_api0, tagsOf_ret] at hn
    exact hn.sublist (by simp)
  | @refuseExc σ t m ev e l rest _ ih =>
    intro σ' hl hn
    rw [List.filter_cons, if_pos (hk.api _ _ _ _), List.filter_cons, if_pos (hk.raised _ _), busy_api0_raised,
      if_pos rfl]
    refine ih _ hl ?_
    simp only [tagsOf_api0, tagsOf_raised] at hn
    exact hn.sublist (by simp)
  | @ret σ d rest hd hq hf =>
    intro σ' hl hn
    rcases hl with rfl | ⟨_, _, hff, _⟩
    · rw [List.filter_cons, if_pos (hk.ret _ _), busy_ret_true]
      simp [hd, hq, hf]
    · rw [hf] at hff; cases hff
  | @raised σ d e rest hd =>
    intro σ' hl hn
    have ho : σ'.owner = σ.owner := by
      rcases hl with rfl | ⟨ho, _⟩
      · rfl
      · exact ho
    rw [List.filter_cons, if_pos (hk.raised _ _), busy_raised, ho, if_pos hd]

end C05F
end TM
