/-
  Proofs/C05Filter.lean — the C05 acceptor (`C05.idle` / `C05.busy`) is insensitive to dropping `done`
  items and the starts of non-finalize callbacks from a trace without remove_model calls.

  `busy` pops a completed head lazily, at the first callback `call` item of the next pending entry.  If
  that item is dropped, the run on the filtered trace keeps the old head longer (`Lag`) and catches up
  at the next kept `call` item of the new head (at the latest its `finalize` callbacks, which are
  kept).  The old head differs from the new one as a `(tag, model)` pair because the raw run popped
  it, so no freshness hypothesis on tags is needed; `C05_idle_filter` keeps it only for compatibility
  with the planned statement (`C05_idle_filter_gen` is the statement without it).
  `traceRm` at the end shows that the `NoRemove` hypothesis cannot be dropped.
-/
import Model.Spec.C05
import Model.Spec.C07

namespace TM
namespace C05F
open C05

theorem busy_nil (fin0 : Nat) (σ : Q) : busy fin0 σ [] = none := by simp [busy]

theorem busy_done (fin0 : Nat) (σ : Q) (c : Nat) (o : Out) (l : List Item) :
    busy fin0 σ (.done c o :: l) = busy fin0 σ l := by simp [busy]

theorem busy_ret_true (fin0 : Nat) (σ : Q) (d : Nat) (l : List Item) :
    busy fin0 σ (.ret d true :: l) = if d = σ.owner ∧ σ.q.length = 1 ∧ σ.fin then some l else none := by
  simp [busy]

theorem busy_ret_false (fin0 : Nat) (σ : Q) (d : Nat) (l : List Item) :
    busy fin0 σ (.ret d false :: l) = none := by
  simp [busy]

theorem busy_raised (fin0 : Nat) (σ : Q) (d : Nat) (e : Exc) (l : List Item) :
    busy fin0 σ (.raised d e :: l) = if d = σ.owner then some l else none := by
  simp [busy]

theorem busy_api0_ret (fin0 : Nat) (σ : Q) (t m ev t' : Nat) (b : Bool) (l : List Item) :
    busy fin0 σ (.api 0 t m ev :: .ret t' b :: l) =
      if t' = t then (if b then busy fin0 { σ with q := σ.q ++ [(t, m)] } l else busy fin0 σ l) else none := by
  simp [busy]

theorem busy_api0_raised (fin0 : Nat) (σ : Q) (t m ev t' : Nat) (e : Exc) (l : List Item) :
    busy fin0 σ (.api 0 t m ev :: .raised t' e :: l) = if t' = t then busy fin0 σ l else none := by
  simp [busy]

theorem busy_api_nil (fin0 : Nat) (σ : Q) (k t m ev : Nat) :
    busy fin0 σ [.api k t m ev] = none := by
  simp [busy]

theorem busy_api_other (fin0 : Nat) (σ : Q) (k t m ev : Nat) (l : List Item) (h0 : k ≠ 0) (h3 : k ≠ 3) :
    busy fin0 σ (.api k t m ev :: l) = none := by
  unfold busy
  split <;> simp_all

theorem busy_api_bad (fin0 : Nat) (σ : Q) (k t m ev : Nat) (x : Item) (l : List Item)
    (h1 : ∀ t b, x ≠ .ret t b) (h2 : ∀ t e, x ≠ .raised t e) :
    busy fin0 σ (.api k t m ev :: x :: l) = none := by
  unfold busy
  split <;> simp_all

theorem busy_call_head (fin0 : Nat) (σ : Q) (sl : Slot) (c m t st : Nat) (r : List (Nat × Nat)) (l : List Item)
    (hq : σ.q = (t, m) :: r) (hf : σ.fin = false) :
    busy fin0 σ (.call sl c m t st :: l) = busy fin0 { σ with fin := decide (sl = .finalize ∧ c = fin0) } l := by
  simp [busy, hq, hf]

theorem busy_call_fin (fin0 : Nat) (σ : Q) (c m t st : Nat) (r : List (Nat × Nat)) (l : List Item)
    (hq : σ.q = (t, m) :: r) (hf : σ.fin = true) (hc : c ≠ fin0) :
    busy fin0 σ (.call .finalize c m t st :: l) = busy fin0 σ l := by
  simp [busy, hq, hf, hc]

theorem busy_call_next (fin0 : Nat) (σ : Q) (sl : Slot) (c m t st : Nat) (h : Nat × Nat) (r : List (Nat × Nat))
    (l : List Item) (hq : σ.q = h :: (t, m) :: r) (hf : σ.fin = true) (hne : ¬ (h.1 = t ∧ h.2 = m)) :
    busy fin0 σ (.call sl c m t st :: l) =
      busy fin0 { σ with q := (t, m) :: r, fin := decide (sl = .finalize ∧ c = fin0) } l := by
  obtain ⟨h1, h2⟩ := h
  simp only [] at hne
  simp only [busy, hq, hf, if_neg hne]
  simp

/-- the accepted runs of `busy` on traces without remove_model, as a relation -/
inductive Run (fin0 : Nat) : Q → List Item → List Item → Prop
  | done {σ c o l rest} : Run fin0 σ l rest → Run fin0 σ (.done c o :: l) rest
  | callHead {σ sl c m t st r l rest} : σ.q = (t, m) :: r → σ.fin = false →
      Run fin0 { σ with fin := decide (sl = .finalize ∧ c = fin0) } l rest → Run fin0 σ (.call sl c m t st :: l) rest
  | callFin {σ c m t st r l rest} : σ.q = (t, m) :: r → σ.fin = true → c ≠ fin0 →
      Run fin0 σ l rest → Run fin0 σ (.call .finalize c m t st :: l) rest
  | callNext {σ sl c m t st h r l rest} : σ.q = h :: (t, m) :: r → σ.fin = true → ¬ (h.1 = t ∧ h.2 = m) →
      Run fin0 { σ with q := (t, m) :: r, fin := decide (sl = .finalize ∧ c = fin0) } l rest →
      Run fin0 σ (.call sl c m t st :: l) rest
  | defer {σ t m ev l rest} : Run fin0 { σ with q := σ.q ++ [(t, m)] } l rest →
      Run fin0 σ (.api 0 t m ev :: .ret t true :: l) rest
  | refuse {σ t m ev l rest} : Run fin0 σ l rest → Run fin0 σ (.api 0 t m ev :: .ret t false :: l) rest
  | refuseExc {σ t m ev e l rest} : Run fin0 σ l rest → Run fin0 σ (.api 0 t m ev :: .raised t e :: l) rest
  | ret {σ d rest} : d = σ.owner → σ.q.length = 1 → σ.fin = true → Run fin0 σ (.ret d true :: rest) rest
  | raised {σ d e rest} : d = σ.owner → Run fin0 σ (.raised d e :: rest) rest

theorem busy_call_inv (fin0 : Nat) (σ : Q) (sl : Slot) (c m t st : Nat) (l rest : List Item)
    (h : busy fin0 σ (.call sl c m t st :: l) = some rest) :
    (∃ r, σ.q = (t, m) :: r ∧ σ.fin = false ∧
        busy fin0 { σ with fin := decide (sl = .finalize ∧ c = fin0) } l = some rest) ∨
    (∃ r, σ.q = (t, m) :: r ∧ σ.fin = true ∧ sl = .finalize ∧ c ≠ fin0 ∧ busy fin0 σ l = some rest) ∨
    (∃ h r, σ.q = h :: (t, m) :: r ∧ σ.fin = true ∧ ¬ (h.1 = t ∧ h.2 = m) ∧
        busy fin0 { σ with q := (t, m) :: r, fin := decide (sl = .finalize ∧ c = fin0) } l = some rest) := by
  simp only [busy] at h
  split at h
  · rename_i t0 m0 r hq
    split at h
    · rename_i heq
      obtain ⟨rfl, rfl⟩ := heq
      split at h
      · rename_i hf
        split at h
        · rename_i hs
          exact Or.inr (Or.inl ⟨r, hq, hf, hs.1, hs.2, h⟩)
        · cases h
      · rename_i hf
        exact Or.inl ⟨r, hq, by simpa using hf, h⟩
    · rename_i hne
      split at h
      · rename_i hf
        split at h
        · rename_i t1 m1 r2
          split at h
          · rename_i heq
            obtain ⟨rfl, rfl⟩ := heq
            exact Or.inr (Or.inr ⟨(t0, m0), r2, hq, hf, hne, h⟩)
          · cases h
        · cases h
      · cases h
  · cases h

/-- no remove_model calls (api kind 3) in the trace -/
def NoRemove (l : List Item) : Prop := ∀ i ∈ l, ∀ t m e, i ≠ .api 3 t m e

/-- the boolean form of `NoRemove` -/
def noRemoveB (l : List Item) : Bool := l.all fun i => match i with | .api 3 _ _ _ => false | _ => true

theorem noRemove_of_B {l : List Item} (h : noRemoveB l = true) : NoRemove l := by
  intro i hi t m e he
  subst he
  have := List.all_eq_true.mp h _ hi
  simp at this

theorem NoRemove.tail {x : Item} {l : List Item} (h : NoRemove (x :: l)) : NoRemove l :=
  fun i hi => h i (List.mem_cons_of_mem _ hi)

theorem busy_run (fin0 : Nat) : ∀ (n : Nat) (l : List Item) (σ : Q) (rest : List Item), l.length ≤ n →
    NoRemove l → busy fin0 σ l = some rest → Run fin0 σ l rest := by
  intro n
  induction n with
  | zero =>
    intro l σ rest hl _ h
    cases l with
    | nil => simp [busy_nil] at h
    | cons x l => simp at hl
  | succ n ih =>
    intro l σ rest hl hnr h
    cases l with
    | nil => simp [busy_nil] at h
    | cons x l =>
      have hl' : l.length ≤ n := by simpa using hl
      cases x with
      | done c o =>
        rw [busy_done] at h
        exact .done (ih l σ rest hl' hnr.tail h)
      | call sl c m t st =>
        rcases busy_call_inv fin0 σ sl c m t st l rest h with ⟨r, hq, hf, h'⟩ | ⟨r, hq, hf, rfl, hc, h'⟩ |
          ⟨h0, r, hq, hf, hne, h'⟩
        · exact .callHead hq hf (ih l _ rest hl' hnr.tail h')
        · exact .callFin hq hf hc (ih l _ rest hl' hnr.tail h')
        · exact .callNext hq hf hne (ih l _ rest hl' hnr.tail h')
      | ret d b =>
        cases b with
        | false => simp [busy_ret_false] at h
        | true =>
          rw [busy_ret_true] at h
          split at h
          · rename_i hc
            cases h
            exact .ret hc.1 hc.2.1 hc.2.2
          · cases h
      | raised d e =>
        rw [busy_raised] at h
        split at h
        · rename_i hc
          cases h
          exact .raised hc
        · cases h
      | api k t m ev =>
        have hk3 : k ≠ 3 := by
          intro hk; subst hk
          exact hnr _ (List.mem_cons_self) t m ev rfl
        by_cases hk0 : k = 0
        · subst hk0
          cases l with
          | nil => simp [busy_api_nil] at h
          | cons y l =>
            have hl2 : l.length ≤ n := by simp at hl'; omega
            cases y with
            | ret t' b =>
              rw [busy_api0_ret] at h
              split at h
              · rename_i ht; subst ht
                cases b with
                | true => exact .defer (ih l _ rest hl2 hnr.tail.tail (by simpa using h))
                | false => exact .refuse (ih l _ rest hl2 hnr.tail.tail (by simpa using h))
              · cases h
            | raised t' e =>
              rw [busy_api0_raised] at h
              split at h
              · rename_i ht; subst ht
                exact .refuseExc (ih l _ rest hl2 hnr.tail.tail h)
              · cases h
            | done c o => rw [busy_api_bad _ _ _ _ _ _ _ _ (by simp) (by simp)] at h; cases h
            | call sl c m t st => rw [busy_api_bad _ _ _ _ _ _ _ _ (by simp) (by simp)] at h; cases h
            | api k t m ev => rw [busy_api_bad _ _ _ _ _ _ _ _ (by simp) (by simp)] at h; cases h
        · rw [busy_api_other _ _ _ _ _ _ _ hk0 hk3] at h; cases h

theorem Run.suffix {fin0 : Nat} {σ : Q} {l rest : List Item} (h : Run fin0 σ l rest) : rest <:+ l := by
  induction h with
  | done _ ih => exact ih.trans (List.suffix_cons _ _)
  | callHead _ _ _ ih => exact ih.trans (List.suffix_cons _ _)
  | callFin _ _ _ _ ih => exact ih.trans (List.suffix_cons _ _)
  | callNext _ _ _ _ ih => exact ih.trans (List.suffix_cons _ _)
  | defer _ ih => exact (ih.trans (List.suffix_cons _ _)).trans (List.suffix_cons _ _)
  | refuse _ ih => exact (ih.trans (List.suffix_cons _ _)).trans (List.suffix_cons _ _)
  | refuseExc _ ih => exact (ih.trans (List.suffix_cons _ _)).trans (List.suffix_cons _ _)
  | ret _ _ _ => exact List.suffix_cons _ _
  | raised _ => exact List.suffix_cons _ _

/-- tags of the trigger calls of a trace, in order -/
def tagsOf (l : List Item) : List Nat :=
  l.filterMap fun i => match i with | .api 0 t _ _ => some t | _ => none

@[simp] theorem tagsOf_nil : tagsOf [] = [] := rfl
@[simp] theorem tagsOf_done (c o l) : tagsOf (.done c o :: l) = tagsOf l := rfl
@[simp] theorem tagsOf_call (sl c m t st l) : tagsOf (.call sl c m t st :: l) = tagsOf l := rfl
@[simp] theorem tagsOf_ret (t b l) : tagsOf (.ret t b :: l) = tagsOf l := rfl
@[simp] theorem tagsOf_raised (t e l) : tagsOf (.raised t e :: l) = tagsOf l := rfl
@[simp] theorem tagsOf_api0 (t m e l) : tagsOf (.api 0 t m e :: l) = t :: tagsOf l := rfl

/-- a filter that keeps API calls, their outcomes and every finalize-stage callback start (it may
drop `done` items and the starts of callbacks of other stages) -/
structure KeepOK (keep : Item → Bool) : Prop where
  api : ∀ k t m e, keep (.api k t m e) = true
  ret : ∀ t b, keep (.ret t b) = true
  raised : ∀ t e, keep (.raised t e) = true
  fin : ∀ c m t st, keep (.call .finalize c m t st) = true

/-- the acceptor state `σ'` on the filtered trace versus the state `σ` on the raw trace: equal, or the
filtered run still shows the completed previous head `h` (the `call` item that made the raw run pop it
was dropped); `h` differs from the raw head because the raw run popped it -/
def Lag (σ' σ : Q) : Prop :=
  σ' = σ ∨ (σ'.owner = σ.owner ∧ σ'.fin = true ∧ σ.fin = false ∧
    ∃ h x r, σ'.q = h :: x :: r ∧ σ.q = x :: r ∧ h ≠ x)

theorem run_filter {fin0 : Nat} {keep : Item → Bool} (hk : KeepOK keep) {σ : Q} {l rest : List Item}
    (h : Run fin0 σ l rest) : ∀ σ', Lag σ' σ →
      busy fin0 σ' (l.filter keep) = some (rest.filter keep) := by
  induction h with
  | @done σ c o l rest _ ih =>
    intro σ' hl
    rw [List.filter_cons]
    split
    · rw [busy_done]; exact ih σ' hl
    · exact ih σ' hl
  | @callHead σ sl c m t st r l rest hq hf _ ih =>
    intro σ' hl
    rw [List.filter_cons]
    rcases hl with rfl | ⟨ho, hf', _, h0, x, r', hq', hq'', hx⟩
    · split
      · rw [busy_call_head fin0 _ sl c m t st r _ hq hf]
        exact ih _ (Or.inl rfl)
      · rename_i hkeep
        have hsl : sl ≠ .finalize := by
          intro hs; subst hs; exact hkeep (hk.fin c m t st)
        refine ih σ' (Or.inl ?_)
        cases σ'; simp_all
    · rw [hq] at hq''
      obtain ⟨rfl, rfl⟩ := List.cons.inj hq''
      split
      · have hne : ¬ (h0.1 = t ∧ h0.2 = m) := by
          intro hc
          exact hx (Prod.ext hc.1 hc.2)
        rw [busy_call_next fin0 σ' sl c m t st h0 r _ hq' hf' hne]
        refine ih _ (Or.inl ?_)
        cases σ; cases σ'; simp_all
      · rename_i hkeep
        have hsl : sl ≠ .finalize := by
          intro hs; subst hs; exact hkeep (hk.fin c m t st)
        exact ih σ' (Or.inr ⟨ho, hf', by simp [hsl], h0, (t, m), r, hq', hq, hx⟩)
  | @callFin σ c m t st r l rest hq hf hc _ ih =>
    intro σ' hl
    rcases hl with rfl | ⟨_, _, hff, _⟩
    · rw [List.filter_cons, if_pos (hk.fin c m t st), busy_call_fin fin0 _ c m t st r _ hq hf hc]
      exact ih _ (Or.inl rfl)
    · rw [hf] at hff; cases hff
  | @callNext σ sl c m t st h r l rest hq hf hne _ ih =>
    intro σ' hl
    rcases hl with rfl | ⟨_, _, hff, _⟩
    · rw [List.filter_cons]
      split
      · rw [busy_call_next fin0 _ sl c m t st h r _ hq hf hne]
        exact ih _ (Or.inl rfl)
      · rename_i hkeep
        have hsl : sl ≠ .finalize := by
          intro hs; subst hs; exact hkeep (hk.fin c m t st)
        refine ih σ' (Or.inr ⟨rfl, hf, by simp [hsl], h, (t, m), r, hq, rfl, ?_⟩)
        intro e; subst e; exact hne ⟨rfl, rfl⟩
    · rw [hf] at hff; cases hff
  | @defer σ t m ev l rest _ ih =>
    intro σ' hl
    rw [List.filter_cons, if_pos (hk.api _ _ _ _), List.filter_cons, if_pos (hk.ret _ _), busy_api0_ret,
      if_pos rfl, if_pos rfl]
    refine ih _ ?_
    rcases hl with rfl | ⟨ho, hf', hf, h0, x, r, hq', hq, hx⟩
    · exact Or.inl rfl
    · exact Or.inr ⟨ho, hf', hf, h0, x, r ++ [(t, m)], by simp [hq'], by simp [hq], hx⟩
  | @refuse σ t m ev l rest _ ih =>
    intro σ' hl
    rw [List.filter_cons, if_pos (hk.api _ _ _ _), List.filter_cons, if_pos (hk.ret _ _), busy_api0_ret,
      if_pos rfl]
    simp only [Bool.false_eq_true, if_false]
    exact ih _ hl
  | @refuseExc σ t m ev e l rest _ ih =>
    intro σ' hl
    rw [List.filter_cons, if_pos (hk.api _ _ _ _), List.filter_cons, if_pos (hk.raised _ _), busy_api0_raised,
      if_pos rfl]
    exact ih _ hl
  | @ret σ d rest hd hq hf =>
    intro σ' hl
    rcases hl with rfl | ⟨_, _, hff, _⟩
    · rw [List.filter_cons, if_pos (hk.ret _ _), busy_ret_true]
      simp [hd, hq, hf]
    · rw [hf] at hff; cases hff
  | @raised σ d e rest hd =>
    intro σ' hl
    have ho : σ'.owner = σ.owner := by
      rcases hl with rfl | ⟨ho, _⟩
      · rfl
      · exact ho
    rw [List.filter_cons, if_pos (hk.raised _ _), busy_raised, ho, if_pos hd]

theorem idle_nil (fin0 n : Nat) : idle fin0 n [] = true := by
  cases n <;> simp [idle]

theorem idle_api0_some (fin0 n d m ev : Nat) (l rest : List Item)
    (h : busy fin0 { owner := d, q := [(d, m)], fin := false } l = some rest) :
    idle fin0 (n + 1) (.api 0 d m ev :: l) = idle fin0 n rest := by
  rw [idle.eq_def]
  simp [h]

theorem idle_api0_refused (fin0 n d m ev : Nat) (l : List Item) :
    idle fin0 (n + 1) (.api 0 d m ev :: .ret d false :: l) = idle fin0 n l := by
  rw [idle.eq_def]
  simp [busy_ret_false]

theorem idle_inv (fin0 n : Nat) (l : List Item) (h : idle fin0 n l = true) (hnr : NoRemove l) :
    l = [] ∨ ∃ n' d m ev l1, n = n' + 1 ∧ l = .api 0 d m ev :: l1 ∧
      ((∃ rest, busy fin0 { owner := d, q := [(d, m)], fin := false } l1 = some rest ∧ idle fin0 n' rest = true) ∨
       (∃ l', l1 = .ret d false :: l' ∧ idle fin0 n' l' = true)) := by
  unfold idle at h
  split at h
  · exact Or.inl rfl
  · cases h
  · rename_i n' d m ev l1
    refine Or.inr ⟨n', d, m, ev, l1, rfl, rfl, ?_⟩
    split at h
    · rename_i rest hb
      exact Or.inl ⟨rest, hb, h⟩
    · split at h
      · rename_i d' l' _
        simp only [Bool.and_eq_true, decide_eq_true_eq] at h
        obtain ⟨rfl, h⟩ := h
        exact Or.inr ⟨l', rfl, h⟩
      · cases h
  · rename_i r m ev r' b l1
    exact absurd rfl (hnr _ List.mem_cons_self r m ev)
  · rename_i r m ev r' e l1
    exact absurd rfl (hnr _ List.mem_cons_self r m ev)
  · cases h

end C05F

/-- the C05 acceptor is insensitive to dropping `done` items and non-finalize callback starts, on
traces which contain no remove_model call -/
theorem C05_idle_filter_gen (fin0 : Nat) (keep : Item → Bool) (hk : C05F.KeepOK keep) :
    ∀ (n : Nat) (l : List Item), C05F.NoRemove l →
      C05.idle fin0 n l = true → C05.idle fin0 n (l.filter keep) = true := by
  intro n
  induction n with
  | zero =>
    intro l hnr h
    rcases C05F.idle_inv fin0 0 l h hnr with rfl | ⟨n', _, _, _, _, hn, _⟩
    · simp [C05F.idle_nil]
    · omega
  | succ n ih =>
    intro l hnr h
    rcases C05F.idle_inv fin0 (n + 1) l h hnr with rfl | ⟨n', d, m, ev, l1, hn, rfl, hc⟩
    · simp [C05F.idle_nil]
    · obtain rfl : n = n' := by omega
      rw [List.filter_cons, if_pos (hk.api _ _ _ _)]
      rcases hc with ⟨rest, hb, hi⟩ | ⟨l', rfl, hi⟩
      · have hrun := C05F.busy_run fin0 _ l1 _ rest (Nat.le_refl _) hnr.tail hb
        have hsuf := hrun.suffix
        have hb' := C05F.run_filter (keep := keep) hk hrun _ (Or.inl rfl)
        rw [C05F.idle_api0_some fin0 n d m ev _ _ hb']
        exact ih rest (fun i hi' => hnr i (List.mem_cons_of_mem _ (hsuf.subset hi'))) hi
      · rw [List.filter_cons, if_pos (hk.ret _ _), C05F.idle_api0_refused]
        exact ih l' hnr.tail.tail hi

/-- the statement with the (unnecessary) tag-freshness hypothesis, as originally planned -/
theorem C05_idle_filter (fin0 : Nat) (keep : Item → Bool) (hk : C05F.KeepOK keep) :
    ∀ (n : Nat) (l : List Item), C05F.NoRemove l → (C05F.tagsOf l).Nodup →
      C05.idle fin0 n l = true → C05.idle fin0 n (l.filter keep) = true :=
  fun n l h1 _ h => C05_idle_filter_gen fin0 keep hk n l h1 h

theorem C07_keepOK (cfg : Cfg) (sc : Script) : C05F.KeepOK (C07.keep cfg sc) := by
  refine ⟨?_, ?_, ?_, ?_⟩
  · intros; rfl
  · intros; rfl
  · intros; rfl
  · intros; simp [C07.keep, C07.isCondSlot]

/-- instance: the observation map of C07 -/
theorem C05_idle_obsC07_gen (fin0 : Nat) (cfg : Cfg) (sc : Script) (n : Nat) (l : List Item)
    (h1 : C05F.NoRemove l) (h : C05.idle fin0 n l = true) :
    C05.idle fin0 n (C07.obsC07 cfg sc l) = true :=
  C05_idle_filter_gen fin0 (C07.keep cfg sc) (C07_keepOK cfg sc) n l h1 h

theorem C05_idle_obsC07 (fin0 : Nat) (cfg : Cfg) (sc : Script) (n : Nat) (l : List Item)
    (h1 : C05F.NoRemove l) (_h2 : (C05F.tagsOf l).Nodup) (h : C05.idle fin0 n l = true) :
    C05.idle fin0 n (C07.obsC07 cfg sc l) = true :=
  C05_idle_obsC07_gen fin0 cfg sc n l h1 h

/-! ### non-vacuity -/

namespace C05F

/-- drops every `done` item and the starts of callback 3 in slot `before` -/
def keepEx : Item → Bool
  | .done _ _ => false
  | .call .before 3 _ _ _ => false
  | _ => true

theorem keepEx_ok : KeepOK keepEx := ⟨fun _ _ _ _ => rfl, fun _ _ => rfl, fun _ _ => rfl, fun _ _ _ _ => rfl⟩

/-- two sessions; in the first one a callback of the event 1 defers the trigger 2, and the first
callback of the deferred event (the item that makes the raw run pop the completed head) is dropped -/
def traceEx : List Item :=
  [ .api 0 1 0 5,
      .call .before 2 0 1 0, .api 0 2 0 6, .ret 2 true, .done 2 (.ret true),
      .call .finalize 9 0 1 0, .done 9 (.ret true),
      .call .before 3 0 2 0, .done 3 (.ret true),
      .call .finalize 9 0 2 0, .done 9 (.ret true),
    .ret 1 true,
    .api 0 3 0 5, .call .finalize 9 0 3 0, .done 9 (.ret true), .ret 3 true ]

example : C05.idle 9 2 traceEx = true := by decide
example : traceEx.filter keepEx =
    [ .api 0 1 0 5, .call .before 2 0 1 0, .api 0 2 0 6, .ret 2 true, .call .finalize 9 0 1 0,
      .call .finalize 9 0 2 0, .ret 1 true, .api 0 3 0 5, .call .finalize 9 0 3 0, .ret 3 true ] := by decide
example : C05.idle 9 2 (traceEx.filter keepEx) = true := by decide
example : NoRemove traceEx := noRemove_of_B (by decide)
example : C05.idle 9 2 (traceEx.filter keepEx) = true :=
  C05_idle_filter_gen 9 keepEx keepEx_ok 2 traceEx
    (noRemove_of_B (by decide)) (by decide)

/-- the `NoRemove` hypothesis matters: a remove_model issued from the dropped first callback of the
deferred event removes that event from the lagging queue of the filtered run only -/
def traceRm : List Item :=
  [ .api 0 1 0 5,
      .call .before 2 0 1 0, .api 0 2 1 6, .ret 2 true,
      .call .finalize 9 0 1 0,
      .call .before 3 1 2 0, .api 3 7 1 0, .ret 7 true,
      .call .finalize 9 1 2 0,
    .ret 1 true ]

example : C05.idle 9 1 traceRm = true := by decide
example : C05.idle 9 1 (traceRm.filter keepEx) = false := by decide

end C05F

end TM
