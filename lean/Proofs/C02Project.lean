/-
  Proofs/C02Project.lean — the ghost log of the model is what `C02.project` reads off its observable `Item` log,
  provided the machine is instrumented the way the harness instruments it (recorder convention): every state has an
  on_enter and an on_exit callback, every transition a prepare and a before callback, the machine a finalize_event
  callback, the FIRST callbacks of those lists are pairwise distinct within their slot and occur nowhere else in
  that slot.  Hence the verified monitors, which the driver runs on `project cfg items`, judge the model's observable
  traces exactly as the theorems about `glog` say.
-/
import Proofs.C02Frame
import Proofs.C02Fin
import Proofs.C02Change
import Proofs.C02Enter

namespace TM
open C02

def enterHeads (cfg : NCfg) : List Nat := (allDefs cfg).filterMap (·.2.onEnter.head?)
def exitHeads (cfg : NCfg) : List Nat := (allDefs cfg).filterMap (·.2.onExit.head?)
def prepHeads (cfg : NCfg) : List Nat := (allTrans cfg).filterMap (·.2.prepare.head?)
def beforeHeads (cfg : NCfg) : List Nat := (allTrans cfg).filterMap (·.2.before.head?)

/-- the recorder convention -/
structure Instrumented (cfg : NCfg) : Prop where
  enter_ne : ∀ e ∈ allDefs cfg, e.2.onEnter ≠ []
  exit_ne : ∀ e ∈ allDefs cfg, e.2.onExit ≠ []
  prep_ne : ∀ e ∈ allTrans cfg, e.2.prepare ≠ []
  before_ne : ∀ e ∈ allTrans cfg, e.2.before ≠ []
  fin_ne : cfg.finalize ≠ []
  enter_nodup : (enterHeads cfg).Nodup
  exit_nodup : (exitHeads cfg).Nodup
  prep_nodup : (prepHeads cfg).Nodup
  before_nodup : (beforeHeads cfg).Nodup
  enter_tail : ∀ e ∈ allDefs cfg, ∀ c ∈ e.2.onEnter.tail, c ∉ enterHeads cfg
  exit_tail : ∀ e ∈ allDefs cfg, ∀ c ∈ e.2.onExit.tail, c ∉ exitHeads cfg
  prep_tail : ∀ e ∈ allTrans cfg, ∀ c ∈ e.2.prepare.tail, c ∉ prepHeads cfg
  before_tail : ∀ e ∈ allTrans cfg, ∀ c ∈ e.2.before.tail, c ∉ beforeHeads cfg
  fin_tail : ∀ c ∈ cfg.finalize.tail, some c ≠ cfg.finalize.head?

namespace Project

/-! ### `project` and the synchronisation relation -/

theorem project_append (cfg : NCfg) (l m : List Item) : project cfg (l ++ m) = project cfg l ++ project cfg m := by
  simp [project, List.filterMap_append]

/-- the items appended to the log project to the ghost events appended to the ghost log -/
def Sync (cfg : NCfg) (s s' : NSt) : Prop :=
  ∃ items, s'.log = s.log ++ items ∧ s'.glog = s.glog ++ project cfg items

theorem Sync.refl (cfg : NCfg) (s : NSt) : Sync cfg s s := ⟨[], by simp, by simp [project]⟩

theorem Sync.trans {cfg : NCfg} {a b c : NSt} (h1 : Sync cfg a b) (h2 : Sync cfg b c) : Sync cfg a c := by
  obtain ⟨i1, l1, g1⟩ := h1
  obtain ⟨i2, l2, g2⟩ := h2
  exact ⟨i1 ++ i2, by rw [l2, l1, List.append_assoc], by rw [g2, g1, project_append, List.append_assoc]⟩

/-- only the logs matter -/
theorem Sync.congr {cfg : NCfg} {a a' b b' : NSt} (h : Sync cfg a b) (la : a'.log = a.log) (ga : a'.glog = a.glog)
    (lb : b'.log = b.log) (gb : b'.glog = b.glog) : Sync cfg a' b' := by
  obtain ⟨i, l, g⟩ := h
  exact ⟨i, by rw [lb, la, l], by rw [gb, ga, g]⟩

theorem Sync.keeps {cfg : NCfg} {s s' : NSt} (h : Sync cfg s s') (h0 : project cfg s.log = s.glog) :
    project cfg s'.log = s'.glog := by
  obtain ⟨i, l, g⟩ := h
  rw [l, g, project_append, h0]

/-- items were appended that project to nothing; the ghost log and the configuration are unchanged -/
def Quiet (cfg : NCfg) (s s' : NSt) : Prop :=
  ∃ items, s'.log = s.log ++ items ∧ project cfg items = [] ∧ s'.glog = s.glog ∧ s'.conf = s.conf

theorem Quiet.refl (cfg : NCfg) (s : NSt) : Quiet cfg s s := ⟨[], by simp, rfl, rfl, rfl⟩

theorem Quiet.trans {cfg : NCfg} {a b c : NSt} (h1 : Quiet cfg a b) (h2 : Quiet cfg b c) : Quiet cfg a c := by
  obtain ⟨i1, l1, p1, g1, c1⟩ := h1
  obtain ⟨i2, l2, p2, g2, c2⟩ := h2
  exact ⟨i1 ++ i2, by rw [l2, l1, List.append_assoc], by rw [project_append, p1, p2]; rfl, by rw [g2, g1], by rw [c2, c1]⟩

theorem Quiet.sync {cfg : NCfg} {s s' : NSt} (h : Quiet cfg s s') : Sync cfg s s' := by
  obtain ⟨i, l, p, g, _⟩ := h
  exact ⟨i, l, by rw [p, g]; simp⟩

/-- a ghost event was appended together with items that project to exactly it -/
theorem sync_of_mark {cfg : NCfg} {s s' : NSt} {g : GEv} {items : List Item}
    (hl : s'.log = s.log ++ items) (hp : project cfg items = [g]) (hg : s'.glog = s.glog ++ [g]) : Sync cfg s s' :=
  ⟨items, hl, by rw [hp, hg]⟩

/-! ### every end state -/

def PresS {α} (cfg : NCfg) (r : NR α) (s : NSt) : Prop := ∀ s', r.state? = some s' → Sync cfg s s'

section Pres
variable {cfg : NCfg}

theorem PresS.ok {α} {s t : NSt} {a : α} (h : Sync cfg s t) : PresS cfg (.ok a t : NR α) s := by
  intro s' hs; simp only [Res.state?, Option.some.injEq] at hs; subst hs; exact h
theorem PresS.err {α} {s t : NSt} {e : Exc} (h : Sync cfg s t) : PresS cfg (.err e t : NR α) s := by
  intro s' hs; simp only [Res.state?, Option.some.injEq] at hs; subst hs; exact h
theorem PresS.oof {α} {s : NSt} : PresS cfg (.oof : NR α) s := by
  intro s' hs; simp [Res.state?] at hs

theorem PresS.weaken {α} {r : NR α} {s w : NSt} (f : Sync cfg s w) (h : PresS cfg r w) : PresS cfg r s :=
  fun s' hs => f.trans (h s' hs)

theorem PresS.bind {α β} {r : NR α} {f : α → NSt → NR β} {s : NSt}
    (h1 : PresS cfg r s) (h2 : ∀ a s1, r = .ok a s1 → PresS cfg (f a s1) s1) : PresS cfg (r.bind f) s := by
  intro s' h
  cases r with
  | ok a s1 => exact (h1 s1 rfl).trans (h2 a s1 rfl s' h)
  | err e s1 => simp only [Res.bind, Res.state?, Option.some.injEq] at h; subst h; exact h1 s1 rfl
  | oof => simp [Res.bind, Res.state?] at h

theorem PresS.map {α β} {r : NR α} {f : α → β} {s : NSt} (h1 : PresS cfg r s) : PresS cfg (r.map f) s := by
  intro s' h
  cases r with
  | ok a s1 => exact h1 s' h
  | err e s1 => exact h1 s' h
  | oof => simp [Res.map, Res.state?] at h

end Pres

/-! ### callbacks -/

section Callbacks
variable (sub : NSub) (sc : Script) (cfg : NCfg)

/-- what one invocation appends -/
theorem ninvoke_log (hC : NoCmds sc) (slot : Slot) (x : Ctx) (c : Nat) (s s' : NSt)
    (h : (ninvoke sub sc cfg slot x c s).state? = some s') :
    ∃ o, s'.log = s.log ++ [.call slot c x.model x.tag (confMask cfg s.conf), .done c o] ∧
      s'.glog = s.glog ∧ s'.conf = s.conf := by
  simp only [ninvoke, hC c, nrunCmds] at h
  cases ho : (sc c (s.count c)).out with
  | ret b =>
    simp only [ho, Res.state?, Option.some.injEq] at h; subst h
    exact ⟨.ret b, by simp [NSt.emit], rfl, rfl⟩
  | raise e =>
    simp only [ho, Res.state?, Option.some.injEq] at h; subst h
    exact ⟨.raise e, by simp [NSt.emit], rfl, rfl⟩

theorem projItem_done (c : Nat) (o : Out) : projItem cfg (.done c o) = none := rfl

theorem ninvoke_quiet (hC : NoCmds sc) (slot : Slot) (x : Ctx) (c : Nat) (s s' : NSt)
    (hn : ∀ m t st, projItem cfg (.call slot c m t st) = none)
    (h : (ninvoke sub sc cfg slot x c s).state? = some s') : Quiet cfg s s' := by
  obtain ⟨o, hl, hg, hc⟩ := ninvoke_log sub sc cfg hC slot x c s s' h
  exact ⟨_, hl, by simp [project, hn, projItem_done], hg, hc⟩

/-- callbacks none of which is a marker -/
theorem ncallbacks_quiet (hC : NoCmds sc) (slot : Slot) (x : Ctx) : ∀ (cbs : List Nat) (s s' : NSt),
    (∀ c ∈ cbs, ∀ m t st, projItem cfg (.call slot c m t st) = none) →
    (ncallbacks sub sc cfg slot x cbs s).state? = some s' → Quiet cfg s s'
  | [], s, s', _, h => by simp only [ncallbacks, Res.state?, Option.some.injEq] at h; subst h; exact Quiet.refl _ _
  | c :: cs, s, s', hn, h => by
    unfold ncallbacks at h
    have hq := fun s1 => ninvoke_quiet sub sc cfg hC slot x c s s1 (hn c (by simp))
    cases hi : ninvoke sub sc cfg slot x c s with
    | ok b s1 =>
      simp only [hi, Res.bind] at h
      exact (hq s1 (by rw [hi]; rfl)).trans
        (ncallbacks_quiet hC slot x cs s1 s' (fun c' hc' => hn c' (by simp [hc'])) h)
    | err e s1 =>
      simp only [hi, Res.bind, Res.state?, Option.some.injEq] at h; subst h
      exact hq s1 (by rw [hi]; rfl)
    | oof => simp [hi, Res.bind, Res.state?] at h

/-- a ghost event followed by the callbacks whose first one is its marker -/
theorem ncallbacks_mark (hC : NoCmds sc) (slot : Slot) (x : Ctx) (g : GEv) (cbs : List Nat) (s : NSt)
    (hne : cbs ≠ [])
    (hhead : ∀ c, cbs.head? = some c → projItem cfg (.call slot c x.model x.tag (confMask cfg s.conf)) = some g)
    (htail : ∀ c ∈ cbs.tail, ∀ m t st, projItem cfg (.call slot c m t st) = none) :
    PresS cfg (ncallbacks sub sc cfg slot x cbs (s.emitG g)) s := by
  intro s' h
  cases cbs with
  | nil => exact absurd rfl hne
  | cons c cs =>
    unfold ncallbacks at h
    have hq : ∀ s1, (ninvoke sub sc cfg slot x c (s.emitG g)).state? = some s1 → Sync cfg s s1 := by
      intro s1 h1
      obtain ⟨o, hl, hg, hc⟩ := ninvoke_log sub sc cfg hC slot x c _ s1 h1
      refine sync_of_mark (g := g) hl ?_ hg
      have := hhead c rfl
      simp only [NSt.emitG] at this ⊢
      simp [project, this, projItem_done]
    cases hi : ninvoke sub sc cfg slot x c (s.emitG g) with
    | ok b s1 =>
      simp only [hi, Res.bind] at h
      exact (hq s1 (by rw [hi]; rfl)).trans (ncallbacks_quiet sub sc cfg hC slot x cs s1 s' htail h).sync
    | err e s1 =>
      simp only [hi, Res.bind, Res.state?, Option.some.injEq] at h; subst h
      exact hq s1 (by rw [hi]; rfl)
    | oof => simp [hi, Res.bind, Res.state?] at h

theorem nevalConds_quiet (hC : NoCmds sc) (x : Ctx) : ∀ (cs : List Cond) (s s' : NSt),
    (nevalConds sub sc cfg x cs s).state? = some s' → Quiet cfg s s'
  | [], s, s', h => by simp only [nevalConds, Res.state?, Option.some.injEq] at h; subst h; exact Quiet.refl _ _
  | c :: cs, s, s', h => by
    unfold nevalConds at h
    have hq := fun s1 => ninvoke_quiet sub sc cfg hC (if c.target then .condition else .unless) x c.cb s s1
      (by intro m t st; cases c.target <;> rfl)
    cases hi : ninvoke sub sc cfg (if c.target then .condition else .unless) x c.cb s with
    | ok b s1 =>
      have h1 := hq s1 (by rw [hi]; rfl)
      simp only [hi, Res.bind] at h
      split at h
      · exact h1.trans (nevalConds_quiet hC x cs s1 s' h)
      · simp only [Res.state?, Option.some.injEq] at h; subst h; exact h1
    | err e s1 =>
      simp only [hi, Res.bind, Res.state?, Option.some.injEq] at h; subst h
      exact hq s1 (by rw [hi]; rfl)
    | oof => simp [hi, Res.bind, Res.state?] at h

end Callbacks

/-! ### markers: what `projItem` reads off the first callbacks -/

theorem find_of_nodup {γ : Type} (k : γ → Option Nat) : ∀ (l : List γ) (e : γ) (c : Nat),
    (l.filterMap k).Nodup → e ∈ l → k e = some c → l.find? (fun e => decide (k e = some c)) = some e
  | [], e, c, _, hm, _ => by simp at hm
  | a :: l, e, c, hnd, hm, hk => by
    by_cases ha : k a = some c
    · rw [List.find?_cons_of_pos (by simp [ha])]
      simp only [List.mem_cons] at hm
      rcases hm with rfl | hm
      · rfl
      · exfalso
        rw [List.filterMap_cons_some ha, List.nodup_cons] at hnd
        exact hnd.1 (List.mem_filterMap.mpr ⟨e, hm, hk⟩)
    · rw [List.find?_cons_of_neg (by simp [ha])]
      simp only [List.mem_cons] at hm
      rcases hm with rfl | hm
      · exact absurd hk ha
      · refine find_of_nodup k l e c ?_ hm hk
        cases hka : k a with
        | none => rwa [List.filterMap_cons_none hka] at hnd
        | some y => rw [List.filterMap_cons_some hka, List.nodup_cons] at hnd; exact hnd.2

theorem find_none {γ : Type} (k : γ → Option Nat) (l : List γ) (c : Nat) (h : c ∉ l.filterMap k) :
    l.find? (fun e => decide (k e = some c)) = none := by
  rw [List.find?_eq_none]
  intro e he hk
  exact h (List.mem_filterMap.mpr ⟨e, he, by simpa using hk⟩)

section Markers
variable {cfg : NCfg} (hI : Instrumented cfg)
include hI

theorem enter_head {p : SPath} {d : SDef} (hm : (p, d) ∈ allDefs cfg) (c m t st : Nat)
    (hc : d.onEnter.head? = some c) : projItem cfg (.call .onEnter c m t st) = some (.enter p) := by
  have := find_of_nodup (fun e : SPath × SDef => e.2.onEnter.head?) (allDefs cfg) (p, d) c hI.enter_nodup hm hc
  simp only [projItem]
  rw [this]; rfl

theorem enter_tail' {p : SPath} {d : SDef} (hm : (p, d) ∈ allDefs cfg) (c : Nat) (hc : c ∈ d.onEnter.tail)
    (m t st : Nat) : projItem cfg (.call .onEnter c m t st) = none := by
  have := find_none (fun e : SPath × SDef => e.2.onEnter.head?) (allDefs cfg) c (hI.enter_tail _ hm c hc)
  simp only [projItem]
  rw [this]; rfl

theorem exit_head {p : SPath} {d : SDef} (hm : (p, d) ∈ allDefs cfg) (c m t st : Nat)
    (hc : d.onExit.head? = some c) : projItem cfg (.call .onExit c m t st) = some (.exit p) := by
  have := find_of_nodup (fun e : SPath × SDef => e.2.onExit.head?) (allDefs cfg) (p, d) c hI.exit_nodup hm hc
  simp only [projItem]
  rw [this]; rfl

theorem exit_tail' {p : SPath} {d : SDef} (hm : (p, d) ∈ allDefs cfg) (c : Nat) (hc : c ∈ d.onExit.tail)
    (m t st : Nat) : projItem cfg (.call .onExit c m t st) = none := by
  have := find_none (fun e : SPath × SDef => e.2.onExit.head?) (allDefs cfg) c (hI.exit_tail _ hm c hc)
  simp only [projItem]
  rw [this]; rfl

theorem prep_head {tr : TRef} {t : NTrans} (hm : (tr, t) ∈ allTrans cfg) (c m tg st : Nat)
    (hc : t.prepare.head? = some c) : projItem cfg (.call .prepare c m tg st) = some (.cand tr) := by
  have := find_of_nodup (fun e : TRef × NTrans => e.2.prepare.head?) (allTrans cfg) (tr, t) c hI.prep_nodup hm hc
  simp only [projItem]
  rw [this]; rfl

theorem prep_tail' {tr : TRef} {t : NTrans} (hm : (tr, t) ∈ allTrans cfg) (c : Nat) (hc : c ∈ t.prepare.tail)
    (m tg st : Nat) : projItem cfg (.call .prepare c m tg st) = none := by
  have := find_none (fun e : TRef × NTrans => e.2.prepare.head?) (allTrans cfg) c (hI.prep_tail _ hm c hc)
  simp only [projItem]
  rw [this]; rfl

theorem before_head {tr : TRef} {t : NTrans} (hm : (tr, t) ∈ allTrans cfg) (c m tg st : Nat)
    (hc : t.before.head? = some c) : projItem cfg (.call .before c m tg st) = some (.exec tr) := by
  have := find_of_nodup (fun e : TRef × NTrans => e.2.before.head?) (allTrans cfg) (tr, t) c hI.before_nodup hm hc
  simp only [projItem]
  rw [this]; rfl

theorem before_tail' {tr : TRef} {t : NTrans} (hm : (tr, t) ∈ allTrans cfg) (c : Nat) (hc : c ∈ t.before.tail)
    (m tg st : Nat) : projItem cfg (.call .before c m tg st) = none := by
  have := find_none (fun e : TRef × NTrans => e.2.before.head?) (allTrans cfg) c (hI.before_tail _ hm c hc)
  simp only [projItem]
  rw [this]; rfl

theorem fin_head (c m t st : Nat) (hc : cfg.finalize.head? = some c) :
    projItem cfg (.call .finalize c m t st) = some (.fin t st) := by
  have _ := hI
  simp [projItem, hc]

theorem fin_tail' (c : Nat) (hc : c ∈ cfg.finalize.tail) (m t st : Nat) :
    projItem cfg (.call .finalize c m t st) = none := by
  have := hI.fin_tail c hc
  simp only [projItem]
  rw [if_neg (fun e => this e.symm)]

end Markers

/-! ### registered states and transitions -/

theorem Scope.walk_eq_walkTo' : ∀ (p : SPath) (sc : Scope), sc.walk p = sc.walkTo p
  | [], sc => rfl
  | k :: p, sc => by
    simp only [Scope.walk, Scope.walkTo]
    cases sc.enter k with
    | none => rfl
    | some sc' => exact Scope.walk_eq_walkTo' p sc'

theorem reg_of_walk {cfg : NCfg} {p : SPath} {d : SDef} {kids : SForest} (h : cfg.states.walk p = some (d, kids)) :
    (p, d) ∈ allDefs cfg := by
  have := forestDefs_find_of_walk (pre := []) h
  simp only [List.nil_append] at this
  exact List.mem_of_find?_eq_some this

theorem walk_ne_nil {sf : SForest} {p : SPath} {e : SDef × SForest} (h : sf.walk p = some e) : p ≠ [] := by
  rintro rfl; simp [SForest.walk] at h

theorem reg_of_scope_walk {cfg : NCfg} {sc : Scope} (hw : cfg.root.walkTo sc.pre = some sc) {rel : SPath} {d : SDef}
    {kids : SForest} (h : sc.states.walk rel = some (d, kids)) : (sc.pre ++ rel, d) ∈ allDefs cfg := by
  have hK : Change.kidsAt cfg.states sc.pre = some sc.states := Change.walkTo_kidsAt hw
  have := Change.walk_append hK (walk_ne_nil h)
  exact reg_of_walk (this.trans h)

theorem getState_reg {cfg : NCfg} {sc : Scope} (hw : cfg.root.walkTo sc.pre = some sc) {p : SPath} {f : Found}
    (h : getState cfg.root sc p = some f) : (f.path, f.d) ∈ allDefs cfg := by
  unfold getState at h
  split at h
  · rename_i d kids hk
    cases h
    exact reg_of_scope_walk hw hk
  · split at h
    · split at h
      · rename_i d kids hk
        cases h
        exact reg_of_walk hk
      · cases h
    · cases h

theorem exitStates_reg {cfg : NCfg} {sc : Scope} (hw : cfg.root.walkTo sc.pre = some sc) (rt : SPath) :
    ∀ (ps : List SPath) (exits : List Found), exitStates cfg.root sc rt ps = .ok exits →
      ∀ f ∈ exits, (f.path, f.d) ∈ allDefs cfg
  | [], exits, h => by simp only [exitStates, PR.ok.injEq] at h; subst h; simp
  | p :: ps, exits, h => by
    simp only [exitStates] at h
    split at h
    · cases h
    · rename_i f0 hg
      obtain ⟨r, hr, h⟩ := Change.bind_ok h
      simp only [PR.ok.injEq] at h
      subst h
      intro f hf
      simp only [List.mem_cons] at hf
      rcases hf with rfl | hf
      · exact getState_reg hw hg
      · exact exitStates_reg hw rt ps r hr f hf

theorem enterRoot_reg {cfg : NCfg} (hwf : cfg.states.WF = true) {sc : Scope}
    (hw : cfg.root.walkTo sc.pre = some sc) (rt : SPath) (d0 : Nat) (dr : SPath) (r : Forest × List Found)
    (h : enterRoot sc rt (d0 :: dr) = .ok r) : ∀ f ∈ r.2, (f.path, f.d) ∈ allDefs cfg := by
  rw [enterRoot_eq, Scope.walk_eq_walkTo'] at h
  cases hw' : sc.walkTo rt with
  | none => simp [hw'] at h
  | some sc' =>
    simp only [hw'] at h
    have hpre : sc'.pre = sc.pre ++ rt := Change.walkTo_pre hw'
    have hA : cfg.root.walkTo sc'.pre = some sc' := by
      rw [hpre, Change.walkTo_append, hw]; exact hw'
    have hK : Change.kidsAt cfg.states sc'.pre = some sc'.states := Change.walkTo_kidsAt hA
    have hKwf : sc'.states.WF = true := Change.WF_kidsAt hwf hK
    obtain ⟨T, ents⟩ := r
    obtain ⟨v, _, _, _, _, _, hreg⟩ := enterDest_spec sc' hKwf d0 dr T ents h
    intro f hf
    obtain ⟨rel, hp, hwk⟩ := hreg f hf
    rw [hp]
    exact reg_of_scope_walk hA hwk

theorem resolveTransition_reg {cfg : NCfg} (hwf : cfg.states.WF = true) {sc : Scope}
    (hw : cfg.root.walkTo sc.pre = some sc) (conf : Forest) (dest : SPath) (r : Resolved)
    (h : resolveTransition cfg.root sc conf dest = .ok r) :
    (∀ f ∈ r.exits, (f.path, f.d) ∈ allDefs cfg) ∧ (∀ f ∈ r.enters, (f.path, f.d) ∈ allDefs cfg) := by
  have hdest : dest ≠ [] := by
    rintro rfl
    simp [resolveTransition, Change.getState_nil] at h
  simp only [resolveTransition] at h
  split at h
  · cases h
  · split at h
    · cases h
    · cases h
    rename_i sT _
    have hdst : (if (activePrefix sT dest).2.isEmpty = true then
        (activePrefix sT dest).1.drop ((activePrefix sT dest).1.length - 1) else (activePrefix sT dest).2) ≠ [] := by
      split
      · rename_i he
        have h1 := Change.activePrefix_fst_ne_nil (f := sT) hdest (by simpa using he)
        intro e
        have h2 := congrArg List.length e
        have h3 : 0 < (activePrefix sT dest).1.length := List.length_pos_iff.mpr h1
        simp at h2; omega
      · rename_i he
        simpa using he
    generalize (if (activePrefix sT dest).2.isEmpty = true then
        (activePrefix sT dest).1.drop ((activePrefix sT dest).1.length - 1) else (activePrefix sT dest).2) = dst
        at h hdst
    generalize (if (activePrefix sT dest).2.isEmpty = true then
        (activePrefix sT dest).1.dropLast else (activePrefix sT dest).1) = rt at h
    obtain ⟨d0, dr, rfl⟩ := List.exists_cons_of_ne_nil hdst
    split at h
    · cases h
    · cases h
    · split at h
      · cases h
      · obtain ⟨exits, hex, h⟩ := Change.bind_ok h
        obtain ⟨r', hen, h⟩ := Change.bind_ok h
        simp only [PR.ok.injEq] at h
        subst h
        exact ⟨exitStates_reg hw rt _ exits hex, enterRoot_reg hwf hw rt d0 dr r' hen⟩

/-- the transitions declared in a scope and below it -/
def scopeAll (sc : Scope) : List (TRef × NTrans) := scopeTrans sc.pre sc.events ++ forestTrans sc.pre sc.states

theorem forestTrans_find {sf : SForest} {k : Nat} {d : SDef} {kids : SForest} (pre : SPath)
    (h : sf.find k = some (d, kids)) :
    ∀ e ∈ scopeTrans (pre ++ [k]) d.events ++ forestTrans (pre ++ [k]) kids, e ∈ forestTrans pre sf := by
  induction sf with
  | nil => simp [SForest.find] at h
  | cons d0 kids0 rest _ ihr =>
    simp only [SForest.find] at h
    intro e he
    simp only [forestTrans, List.mem_append]
    split at h
    · rename_i hk
      simp only [Option.some.injEq, Prod.mk.injEq] at h
      obtain ⟨rfl, rfl⟩ := h
      subst hk
      simp only [List.mem_append] at he
      exact Or.inl he
    · exact Or.inr (ihr h e he)

theorem scopeAll_enter {sc sc' : Scope} {k : Nat} (h : sc.enter k = some sc') :
    ∀ e ∈ scopeAll sc', e ∈ scopeAll sc := by
  obtain ⟨d, kids, hf, rfl⟩ := Scope.enter_eq h
  intro e he
  simp only [scopeAll, List.mem_append]
  exact Or.inr (forestTrans_find sc.pre hf e he)

theorem scopeAll_walkTo : ∀ (p : SPath) (sc sc' : Scope), sc.walkTo p = some sc' →
    ∀ e ∈ scopeAll sc', e ∈ scopeAll sc
  | [], sc, sc', h => by simp only [Scope.walkTo, Option.some.injEq] at h; subst h; exact fun e he => he
  | k :: p, sc, sc', h => by
    simp only [Scope.walkTo] at h
    cases he : sc.enter k with
    | none => simp [he] at h
    | some sc1 =>
      rw [he] at h
      intro e hm
      exact scopeAll_enter he e (scopeAll_walkTo p sc1 sc' h e hm)

theorem alookup_mem {β : Type} {k : Nat} {v : β} : ∀ {l : List (Nat × β)}, alookup k l = some v → (k, v) ∈ l
  | [], h => by simp [alookup] at h
  | (k', v') :: l, h => by
    simp only [alookup] at h
    split at h
    · rename_i hk
      simp only [Option.some.injEq] at h
      subst h; subst hk; simp
    · exact List.mem_cons_of_mem _ (alookup_mem h)

/-- the candidates offered in a reachable scope are registered transitions, with their references -/
theorem ncandidates_reg {cfg : NCfg} {sc : Scope} (hw : cfg.root.walkTo sc.pre = some sc) {ev : Nat} {ts : List NTrans}
    (hts : alookup ev sc.events = some ts) (src : SPath) :
    ∀ e ∈ ncandidates sc.pre ev ts src, e ∈ allTrans cfg := by
  intro e he
  have h1 : e ∈ scopeTrans sc.pre sc.events := by
    simp only [ncandidates, List.mem_map, List.mem_filter] at he
    obtain ⟨ti, ⟨hti, _⟩, rfl⟩ := he
    simp only [scopeTrans, List.mem_flatMap, List.mem_map]
    exact ⟨(ev, ts), alookup_mem hts, ti, hti, rfl⟩
  have h2 : e ∈ scopeAll sc := by simp only [scopeAll, List.mem_append]; exact Or.inl h1
  exact scopeAll_walkTo sc.pre cfg.root sc hw e h2

/-! ### the engine -/

section Engine
variable {cfg : NCfg} {sub : NSub} {sc : Script}

theorem ncallbacks_sync_quiet (hC : NoCmds sc) (slot : Slot) (x : Ctx) (cbs : List Nat) (s : NSt)
    (hn : ∀ c ∈ cbs, ∀ m t st, projItem cfg (.call slot c m t st) = none) :
    PresS cfg (ncallbacks sub sc cfg slot x cbs s) s :=
  fun s' h => (ncallbacks_quiet sub sc cfg hC slot x cbs s s' hn h).sync

theorem nevalConds_sync (hC : NoCmds sc) (x : Ctx) (cs : List Cond) (s : NSt) :
    PresS cfg (nevalConds sub sc cfg x cs s) s :=
  fun s' h => (nevalConds_quiet sub sc cfg hC x cs s s' h).sync

theorem exitAll_sync (hC : NoCmds sc) (hI : Instrumented cfg) (x : Ctx) : ∀ (fs : List Found) (s : NSt),
    (∀ f ∈ fs, (f.path, f.d) ∈ allDefs cfg) → PresS cfg (exitAll sub sc cfg x fs s) s
  | [], s, _ => PresS.ok (Sync.refl _ _)
  | f :: fs, s, hr => by
    unfold exitAll
    have hf := hr f (by simp)
    refine PresS.bind (ncallbacks_mark sub sc cfg hC .onExit x (.exit f.path) f.d.onExit s (hI.exit_ne _ hf) ?_ ?_) ?_
    · intro c hc; exact exit_head hI hf c _ _ _ hc
    · intro c hc m t st; exact exit_tail' hI hf c hc m t st
    · intro _ s1 _; exact exitAll_sync hC hI x fs s1 (fun f' hf' => hr f' (by simp [hf']))

theorem enterAll_sync (hC : NoCmds sc) (hI : Instrumented cfg) (x : Ctx) : ∀ (fs : List Found) (s : NSt),
    (∀ f ∈ fs, (f.path, f.d) ∈ allDefs cfg) → PresS cfg (enterAll sub sc cfg x fs s) s
  | [], s, _ => PresS.ok (Sync.refl _ _)
  | f :: fs, s, hr => by
    unfold enterAll
    have hf := hr f (by simp)
    refine PresS.bind (ncallbacks_mark sub sc cfg hC .onEnter x (.enter f.path) f.d.onEnter s (hI.enter_ne _ hf) ?_ ?_) ?_
    · intro c hc; exact enter_head hI hf c _ _ _ hc
    · intro c hc m t st; exact enter_tail' hI hf c hc m t st
    · intro _ s1 _; exact enterAll_sync hC hI x fs s1 (fun f' hf' => hr f' (by simp [hf']))

theorem nchangeState_sync (hwf : cfg.states.WF = true) (hC : NoCmds sc) (hI : Instrumented cfg) (scope : Scope)
    (hw : cfg.root.walkTo scope.pre = some scope) (x : Ctx) (dest : SPath) (s : NSt) :
    PresS cfg (nchangeState sub sc cfg scope x dest s) s := by
  unfold nchangeState
  split
  · exact PresS.err (Sync.refl _ _)
  · exact PresS.oof
  · rename_i r hr
    obtain ⟨hex, hen⟩ := resolveTransition_reg hwf hw _ _ r hr
    refine PresS.bind (s := s) ?_ ?_
    · intro s' h
      exact (exitAll_sync hC hI x r.exits { s with exited := s.exited ++ r.exitNames } hex s' h).congr
        rfl rfl rfl rfl
    intro _ s1 _ s' h
    exact (enterAll_sync hC hI x r.enters _ hen s' h).congr rfl rfl rfl rfl

theorem nfinalStage_sync (hC : NoCmds sc) (scope : Scope) (x : Ctx) (dest : Option SPath) (conf0 : Forest) (s : NSt) :
    PresS cfg (nfinalStage sub sc cfg scope x dest conf0 s) s := by
  rcases nfinalStage_cases sub sc cfg scope x dest conf0 s with h1 | ⟨cbs, h1⟩ | ⟨e, _, h1⟩ | h1 <;> rw [h1]
  · exact PresS.ok (Sync.refl _ _)
  · exact ncallbacks_sync_quiet hC _ x cbs s (fun _ _ _ _ _ => rfl)
  · exact PresS.err (Sync.refl _ _)
  · exact PresS.oof

theorem nexecute_sync (hwf : cfg.states.WF = true) (hC : NoCmds sc) (hI : Instrumented cfg) (scope : Scope)
    (hw : cfg.root.walkTo scope.pre = some scope) (x : Ctx) (tr : TRef) (t : NTrans) (hm : (tr, t) ∈ allTrans cfg)
    (s : NSt) : PresS cfg (nexecute sub sc cfg scope x tr t s) s := by
  unfold nexecute
  refine PresS.bind (ncallbacks_mark sub sc cfg hC .prepare x (.cand tr) t.prepare s (hI.prep_ne _ hm) ?_ ?_) ?_
  · intro c hc; exact prep_head hI hm c _ _ _ hc
  · intro c hc m tg st; exact prep_tail' hI hm c hc m tg st
  intro _ s1 _
  refine PresS.bind (nevalConds_sync hC x _ s1) ?_
  intro ok s2 _
  cases ok with
  | false => exact PresS.ok (Sync.refl _ _)
  | true =>
    simp only [Bool.not_true, Bool.false_eq_true, if_false]
    refine PresS.bind (ncallbacks_sync_quiet hC _ x _ s2 (fun _ _ _ _ _ => rfl)) ?_
    intro _ s3 _
    refine PresS.bind (ncallbacks_mark sub sc cfg hC .before x (.exec tr) t.before s3 (hI.before_ne _ hm) ?_ ?_) ?_
    · intro c hc; exact before_head hI hm c _ _ _ hc
    · intro c hc m tg st; exact before_tail' hI hm c hc m tg st
    intro _ s4 _
    refine PresS.bind ?_ ?_
    · split
      · exact nchangeState_sync hwf hC hI scope hw x _ s4
      · exact PresS.ok (Sync.refl _ _)
    intro _ s5 _
    refine PresS.bind (nfinalStage_sync hC scope x _ _ s5) ?_
    intro _ s5 _
    refine PresS.bind (ncallbacks_sync_quiet hC _ x _ s5 (fun _ _ _ _ _ => rfl)) ?_
    intro _ s6 _
    refine PresS.bind (ncallbacks_sync_quiet hC _ x _ s6 (fun _ _ _ _ _ => rfl)) ?_
    intro _ s7 _
    exact PresS.ok (Sync.refl _ _)

theorem ntry_sync (hwf : cfg.states.WF = true) (hC : NoCmds sc) (hI : Instrumented cfg) (scope : Scope)
    (hw : cfg.root.walkTo scope.pre = some scope) (x : Ctx) : ∀ (cands : List (TRef × NTrans)) (s : NSt),
    (∀ e ∈ cands, e ∈ allTrans cfg) → PresS cfg (ntry sub sc cfg scope x cands s) s
  | [], s, _ => PresS.ok (Sync.refl _ _)
  | (tr, t) :: r, s, hc => by
    unfold ntry
    refine PresS.bind (nexecute_sync hwf hC hI scope hw x tr t (hc _ (by simp)) s) ?_
    intro b s1 _
    cases b with
    | true => exact PresS.ok ((Sync.refl cfg s1).congr rfl rfl rfl rfl)
    | false =>
      intro s' h
      exact (ntry_sync hwf hC hI scope hw x r _ (fun e he => hc e (by simp [he])) s' h).congr rfl rfl rfl rfl

theorem nprocess_sync (hwf : cfg.states.WF = true) (hC : NoCmds sc) (hI : Instrumented cfg) (scope : Scope)
    (hw : cfg.root.walkTo scope.pre = some scope) (x : Ctx) (cands : List (TRef × NTrans)) (s : NSt)
    (hc : ∀ e ∈ cands, e ∈ allTrans cfg) : PresS cfg (nprocess sub sc cfg scope x cands s) s := by
  unfold nprocess
  refine PresS.bind (ncallbacks_sync_quiet hC _ x _ s (fun _ _ _ _ _ => rfl)) ?_
  intro _ s1 _
  exact ntry_sync hwf hC hI scope hw x cands s1 hc

theorem tnLoop_sync (hwf : cfg.states.WF = true) (hC : NoCmds sc) (hI : Instrumented cfg) (scope : Scope)
    (hw : cfg.root.walkTo scope.pre = some scope) (x : Ctx) (ev : Nat) (ts : List NTrans)
    (hts : alookup ev scope.events = some ts) : ∀ (ps done : List SPath) (s : NSt),
    PresS cfg (tnLoop sub sc cfg scope x ev ts ps done s) s
  | [], _, s => PresS.ok (Sync.refl _ _)
  | p :: ps, done, s => by
    unfold tnLoop
    simp only []
    split
    · exact tnLoop_sync hwf hC hI scope hw x ev ts hts ps done s
    · split
      · exact PresS.err (Sync.refl _ _)
      · refine PresS.bind (nprocess_sync hwf hC hI scope hw x _ s (ncandidates_reg hw hts p)) ?_
        intro _ s1 _
        exact tnLoop_sync hwf hC hI scope hw x ev ts hts ps _ s1

theorem triggerNested_sync (hwf : cfg.states.WF = true) (hC : NoCmds sc) (hI : Instrumented cfg) (scope : Scope)
    (hw : cfg.root.walkTo scope.pre = some scope) (x : Ctx) (ev : Nat) (ts : List NTrans)
    (hts : alookup ev scope.events = some ts) (s : NSt) :
    PresS cfg (triggerNested sub sc cfg scope x ev ts s) s := by
  unfold triggerNested
  split
  · exact PresS.err (Sync.refl _ _)
  · exact PresS.err (Sync.refl _ _)
  · split
    · exact PresS.oof
    · refine PresS.bind (tnLoop_sync hwf hC hI scope hw x ev ts hts _ _ s) ?_
      intro _ s1 _
      split
      · exact PresS.ok (Sync.refl _ _)
      · exact PresS.ok ((Sync.refl cfg s1).congr rfl rfl rfl rfl)

theorem ten_sync (hwf : cfg.states.WF = true) (hC : NoCmds sc) (hI : Instrumented cfg) (x : Ctx) (ev : Nat) :
    ∀ (tree : Forest) (scope : Scope) (res : List (Nat × Bool)) (offered : Bool) (s : NSt),
    cfg.root.walkTo scope.pre = some scope → PresS cfg (ten sub sc cfg x ev scope tree res offered s) s := by
  intro tree
  induction tree with
  | nil => intro scope res offered s _; unfold ten; exact PresS.ok (Sync.refl _ _)
  | cons key value rest ihv ihr =>
    intro scope res offered s hw
    unfold ten
    refine PresS.bind ?_ ?_
    · split
      · exact PresS.ok (Sync.refl _ _)
      · split
        · exact PresS.err (Sync.refl _ _)
        · rename_i inner he
          refine PresS.bind (ihv inner [] false s (Scope.walkTo_enter hw he)) ?_
          intro _ s1 _
          exact PresS.ok (Sync.refl _ _)
    · intro res1 s1 _
      split
      · split
        · rename_i ts hts
          refine PresS.bind (triggerNested_sync hwf hC hI scope hw x ev ts hts s1) ?_
          intro _ s2 _
          exact ihr scope _ true s2 hw
        · exact ihr scope res1 offered s1 hw
      · exact ihr scope res1 offered s1 hw

theorem checkEventResult_sync (res : Option Bool) (ev : Nat) (s : NSt) :
    PresS cfg (checkEventResult cfg res ev s) s := by
  unfold checkEventResult
  split
  · exact PresS.ok (Sync.refl _ _)
  · split
    · exact PresS.ok (Sync.refl _ _)
    · exact PresS.err (Sync.refl _ _)
    · exact PresS.oof

theorem triggerEventBody_sync (hwf : cfg.states.WF = true) (hC : NoCmds sc) (hI : Instrumented cfg) (x : Ctx)
    (ev : Nat) (s : NSt) : PresS cfg (triggerEventBody sub sc cfg x ev s) s := by
  unfold triggerEventBody
  refine PresS.bind (ten_sync hwf hC hI x ev s.conf cfg.root [] false s (NCfg.walkTo_root cfg)) ?_
  intro r s1 _
  refine PresS.bind (checkEventResult_sync _ ev s1) ?_
  intro b s2 _
  exact PresS.ok ((Sync.refl cfg s2).congr rfl rfl rfl rfl)

theorem nfinalize_sync (hC : NoCmds sc) (hI : Instrumented cfg) (x : Ctx) (s s' : NSt)
    (h : nfinalize sub sc cfg x s = some s') : Sync cfg s s' := by
  unfold nfinalize at h
  have hp : PresS cfg (ncallbacks sub sc cfg .finalize x cfg.finalize (s.emitG (.fin x.tag (confMask cfg s.conf)))) s :=
    ncallbacks_mark sub sc cfg hC .finalize x _ cfg.finalize s hI.fin_ne
      (fun c hc => fin_head hI c _ _ _ hc) (fun c hc m t st => fin_tail' hI c hc m t st)
  split at h
  · rename_i u s1 hc; cases h; exact hp _ (by rw [hc]; rfl)
  · rename_i e s1 hc; cases h; exact hp _ (by rw [hc]; rfl)
  · cases h

/-- the `except BaseException` clause of `_trigger_event` -/
theorem exceptClause_sync (hC : NoCmds sc) (x : Ctx) (body : NR Bool) (s : NSt) (hbody : PresS cfg body s) :
    PresS cfg (match body with
      | .ok b s' => (.ok b s' : NR Bool)
      | .err e s' =>
        match cfg.onException with
        | [] => .err e s'
        | hs => (ncallbacks sub sc cfg .onException x hs s').bind fun _ s'' => .ok (s''.result.getD false) s''
      | .oof => .oof) s := by
  cases body with
  | ok b s1 => exact hbody
  | oof => exact PresS.oof
  | err e s1 =>
    have f1 : Sync cfg s s1 := hbody s1 rfl
    simp only []
    split
    · exact PresS.err f1
    · refine PresS.weaken f1 (PresS.bind (ncallbacks_sync_quiet hC _ x _ s1 (fun _ _ _ _ _ => rfl)) ?_)
      intro _ s2 _
      exact PresS.ok (Sync.refl _ _)

/-- the `finally` clause of `_trigger_event` -/
theorem finallyClause_sync (hC : NoCmds sc) (hI : Instrumented cfg) (x : Ctx) (r1 : NR Bool) (s : NSt)
    (h1 : PresS cfg r1 s) :
    PresS cfg (match r1 with
      | .ok b s' => match nfinalize sub sc cfg x s' with
        | some s'' => (.ok b s'' : NR Bool)
        | none => .oof
      | .err e s' => match nfinalize sub sc cfg x s' with
        | some s'' => .err e s''
        | none => .oof
      | .oof => .oof) s := by
  cases r1 with
  | oof => exact PresS.oof
  | ok b s1 =>
    simp only []
    cases hf : nfinalize sub sc cfg x s1 with
    | none => exact PresS.oof
    | some s2 => exact PresS.ok ((h1 s1 rfl).trans (nfinalize_sync hC hI x s1 s2 hf))
  | err e s1 =>
    simp only []
    cases hf : nfinalize sub sc cfg x s1 with
    | none => exact PresS.oof
    | some s2 => exact PresS.err ((h1 s1 rfl).trans (nfinalize_sync hC hI x s1 s2 hf))

theorem ntriggerEvent_sync (hwf : cfg.states.WF = true) (hC : NoCmds sc) (hI : Instrumented cfg) (x : Ctx)
    (ev : Nat) (s : NSt) : PresS cfg (ntriggerEvent sub sc cfg x ev s) s := by
  have hbody : PresS cfg (triggerEventBody sub sc cfg x ev { s with result := none, exited := [] }) s :=
    fun s' h => (triggerEventBody_sync hwf hC hI x ev { s with result := none, exited := [] } s' h).congr
      rfl rfl rfl rfl
  unfold ntriggerEvent
  exact finallyClause_sync hC hI x _ _ (exceptClause_sync hC x _ _ hbody)

theorem ndrain_sync (hwf : cfg.states.WF = true) (hC : NoCmds sc) (hI : Instrumented cfg) : ∀ (n : Nat) (s : NSt),
    PresS cfg (ndrain sub sc cfg n s) s
  | 0, _ => PresS.oof
  | n + 1, s => by
    unfold ndrain
    split
    · exact PresS.ok (Sync.refl _ _)
    · rename_i ev tag _ _
      have ht := ntriggerEvent_sync (sub := sub) hwf hC hI ⟨0, tag⟩ ev s
      split
      · rename_i b s1 hc
        have f1 : Sync cfg s s1 := ht s1 (by rw [hc]; rfl)
        intro s' h
        exact f1.trans ((ndrain_sync hwf hC hI n _ s' h).congr rfl rfl rfl rfl)
      · rename_i e s1 hc
        have f1 : Sync cfg s s1 := ht s1 (by rw [hc]; rfl)
        exact PresS.err (f1.congr rfl rfl rfl rfl)
      · exact PresS.oof

theorem nmachineProcess_sync (hwf : cfg.states.WF = true) (hC : NoCmds sc) (hI : Instrumented cfg)
    (qmax ev tag : Nat) (s : NSt) : PresS cfg (nmachineProcess sub sc cfg qmax ev tag s) s := by
  unfold nmachineProcess
  split
  · split
    · exact ntriggerEvent_sync hwf hC hI _ ev s
    · exact PresS.err (Sync.refl _ _)
  · simp only []
    split
    · exact PresS.ok ((Sync.refl cfg s).congr rfl rfl rfl rfl)
    · refine PresS.bind (s := s) ?_ ?_
      · intro s' h
        exact (ndrain_sync hwf hC hI qmax { s with queue := s.queue ++ [(ev, tag)] } s' h).congr rfl rfl rfl rfl
      · intro _ s1 _
        exact PresS.ok (Sync.refl _ _)

theorem napiTrigger_sync (hwf : cfg.states.WF = true) (hC : NoCmds sc) (hI : Instrumented cfg) (qmax ev : Nat)
    (s : NSt) : PresS cfg (napiTrigger sub sc cfg qmax ev s) s := by
  unfold napiTrigger
  simp only []
  have hapi : Sync cfg s ((({ s with nextTag := s.nextTag + 1 } : NSt).emit (.api 0 s.nextTag 0 ev)).emitG
      (.api s.nextTag ev)) := ⟨[.api 0 s.nextTag 0 ev], rfl, rfl⟩
  have hp := PresS.weaken hapi (nmachineProcess_sync (sub := sub) hwf hC hI qmax ev s.nextTag
    ((({ s with nextTag := s.nextTag + 1 } : NSt).emit (.api 0 s.nextTag 0 ev)).emitG (.api s.nextTag ev)))
  split
  · rename_i b s1 hc
    have f1 : Sync cfg s s1 := hp s1 (by rw [hc]; rfl)
    exact PresS.ok (f1.trans ⟨[.ret s.nextTag b], rfl, rfl⟩)
  · rename_i e s1 hc
    have f1 : Sync cfg s s1 := hp s1 (by rw [hc]; rfl)
    exact PresS.err (f1.trans ⟨[.raised s.nextTag e], rfl, rfl⟩)
  · exact PresS.oof

end Engine

end Project

/-- one trigger call keeps "projection of the item log = ghost log" -/
theorem project_apiTrigger (cfg : NCfg) (hwf : cfg.states.WF = true) (hI : Instrumented cfg)
    (sub : NSub) (sc : Script) (hC : NoCmds sc) (qmax ev : Nat) (s s' : NSt)
    (h0 : project cfg s.log = s.glog)
    (h : (napiTrigger sub sc cfg qmax ev s).state? = some s') : project cfg s'.log = s'.glog :=
  (Project.napiTrigger_sync hwf hC hI qmax ev s s' h).keeps h0

/-- a whole history from a state with empty logs -/
theorem project_history (cfg : NCfg) (hwf : cfg.states.WF = true) (hI : Instrumented cfg)
    (sc : Script) (hC : NoCmds sc) (qmax fuel : Nat) :
    ∀ (evs : List Nat) (s s' : NSt), project cfg s.log = s.glog →
      nrunHistory sc cfg qmax fuel evs s = some s' → project cfg s'.log = s'.glog := by
  have hcmd : ∀ (ev : Nat) (s : NSt), Project.PresS cfg (nrunCmd sc cfg qmax fuel (.trigger 0 ev) s) s := by
    intro ev s
    cases fuel with
    | zero => exact Project.PresS.oof
    | succ f =>
      unfold nrunCmd
      exact Project.PresS.map (Project.napiTrigger_sync hwf hC hI qmax ev s)
  intro evs
  induction evs with
  | nil => intro s s' h0 h; simp only [nrunHistory, Option.some.injEq] at h; subst h; exact h0
  | cons ev evs ih =>
    intro s s' h0 h
    unfold nrunHistory at h
    have hc := hcmd ev s
    split at h
    · rename_i u s1 he
      exact ih s1 s' ((hc s1 (by rw [he]; rfl)).keeps h0) h
    · rename_i e s1 he
      exact ih s1 s' ((hc s1 (by rw [he]; rfl)).keeps h0) h
    · cases h

end TM
