/-
  Proofs/C02Project.lean — the ghost log of the model is what `C02.project` reads off its observable `Item` log,
  provided the machine is instrumented the way the harness instruments it (recorder convention): every state has an
  on_enter and an on_exit callback, every transition a prepare and a before callback, the machine a finalize_event
  callback, the FIRST callbacks of those lists are pairwise distinct within their slot and occur nowhere else in
  that slot.  Hence the verified monitors, which the driver runs on `project cfg items`, judge the model's observable
  traces exactly as the theorems about `glog` say.
-/
import Proofs.C02Frame
import Proofs.C02Fin
import Proofs.C02Change

namespace TM
open C02

def enterHeads (cfg : NCfg) : List Nat := (allDefs cfg).filterMap (·.2.onEnter.head?)
def exitHeads (cfg : NCfg) : List Nat := (allDefs cfg).filterMap (·.2.onExit.head?)
def prepHeads (cfg : NCfg) : List Nat := (allTrans cfg).filterMap (·.2.prepare.head?)
def beforeHeads (cfg : NCfg) : List Nat := (allTrans cfg).filterMap (·.2.before.head?)

/-- the recorder convention -/
structure Instrumented (cfg : NCfg) : Prop where
  enter_ne : ∀ e ∈ allDefs cfg, e.2.onEnter ≠ []
  exit_ne : ∀ e ∈ allDefs cfg, e.2.onExit ≠ []
  prep_ne : ∀ e ∈ allTrans cfg, e.2.prepare ≠ []
  before_ne : ∀ e ∈ allTrans cfg, e.2.before ≠ []
  fin_ne : cfg.finalize ≠ []
  enter_nodup : (enterHeads cfg).Nodup
  exit_nodup : (exitHeads cfg).Nodup
  prep_nodup : (prepHeads cfg).Nodup
  before_nodup : (beforeHeads cfg).Nodup
  enter_tail : ∀ e ∈ allDefs cfg, ∀ c ∈ e.2.onEnter.tail, c ∉ enterHeads cfg
  exit_tail : ∀ e ∈ allDefs cfg, ∀ c ∈ e.2.onExit.tail, c ∉ exitHeads cfg
  prep_tail : ∀ e ∈ allTrans cfg, ∀ c ∈ e.2.prepare.tail, c ∉ prepHeads cfg
  before_tail : ∀ e ∈ allTrans cfg, ∀ c ∈ e.2.before.tail, c ∉ beforeHeads cfg
  fin_tail : ∀ c ∈ cfg.finalize.tail, some c ≠ cfg.finalize.head?

/-- one trigger call keeps "projection of the item log = ghost log" -/
theorem project_apiTrigger (cfg : NCfg) (hwf : cfg.states.WF = true) (hI : Instrumented cfg)
    (sub : NSub) (sc : Script) (hC : NoCmds sc) (qmax ev : Nat) (s s' : NSt)
    (h0 : project cfg s.log = s.glog)
    (h : (napiTrigger sub sc cfg qmax ev s).state? = some s') : project cfg s'.log = s'.glog := by
  sorry

/-- a whole history from a state with empty logs -/
theorem project_history (cfg : NCfg) (hwf : cfg.states.WF = true) (hI : Instrumented cfg)
    (sc : Script) (hC : NoCmds sc) (qmax fuel : Nat) :
    ∀ (evs : List Nat) (s s' : NSt), project cfg s.log = s.glog →
      nrunHistory sc cfg qmax fuel evs s = some s' → project cfg s'.log = s'.glog := by
  sorry

end TM
