/-
  Proofs/C02Q.lean — the relation "carries the invariant" is closed under the state changes of a QUEUED machine whose
  callbacks trigger events (the `api`/`ret` marks of those calls are interleaved with the exits and enters and are
  invisible to the bookkeeping), and the bound of the ghost counter `maxExec` by the number of `exec` events.
-/
import Proofs.C02
import Proofs.C02Queued
import Proofs.C03Pass2

namespace TM
open C02

theorem Carries.of_filter {cfg : NCfg} {a b : Forest} {seg seg' : List GEv}
    (hf : (seg.filter fun e => !e.isCall) = seg') (h : Carries cfg a seg' b) : Carries cfg a seg b := by
  intro g hg
  have := h g hg
  rw [grun_filter_calls cfg g seg, hf]
  exact this

theorem rinv_closedQ (cfg : NCfg) (sc : Script) (hwf : cfg.states.WF = true) (hR : NoRaise sc) (hT : TriggersOnly sc) :
    ClosedQ cfg sc (RInv cfg) where
  refl := RInv.refl cfg
  trans := RInv.trans
  mark := fun v e hm hfin hne => ⟨[e], rfl, Carries.mark cfg hwf v.conf e hm hfin hne⟩
  execChange := by
    intro sub hsub scope x dest tr s s' calls hb hsc hcalls h
    have hfc : (calls.filter fun e => !e.isCall) = [] := by
      rw [List.filter_eq_nil_iff]; intro e he; simp [hcalls e he]
    have hexec : ([GEv.exec tr].filter fun e => !e.isCall) = [GEv.exec tr] := rfl
    simp only [nchangeState] at h
    cases hr : resolveTransition cfg.root scope s.conf dest with
    | err e =>
      simp only [hr, Res.state?, Option.some.injEq] at h
      subst h
      refine ⟨[.exec tr] ++ calls, by simp [NSt.view], ?_⟩
      refine Carries.of_filter (seg' := [.exec tr]) ?_
        (Carries.mark cfg hwf s.conf (.exec tr) rfl (fun t m h => by cases h) (fun t x h => by cases h))
      rw [List.filter_append, hexec, hfc]; rfl
    | oof => simp [hr, Res.state?] at h
    | ok r =>
      simp only [hr] at h
      obtain ⟨s1, h1, c1, b1, seg1, g1, f1⟩ := exitAll_busy cfg sub sc hR hT hsub x r.exits
        { s with glog := s.glog ++ [.exec tr] ++ calls, exited := s.exited ++ r.exitNames } hb
      obtain ⟨s2, h2, c2, _, seg2, g2, f2⟩ := enterAll_busy cfg sub sc hR hT hsub x r.enters
        { s1 with conf := r.tree } b1
      simp only [h1, Res.bind, h2, Res.state?, Option.some.injEq] at h
      subst h
      refine ⟨[.exec tr] ++ calls ++ seg1 ++ seg2, ?_, ?_⟩
      · show s2.glog = s.glog ++ _
        rw [g2]; show s1.glog ++ _ = _; rw [g1]; simp
      · show Carries cfg s.conf _ s2.conf
        rw [c2]
        refine Carries.of_filter ?_ (Carries.change cfg hwf scope hsc s.conf dest r tr hr)
        rw [List.filter_append, List.filter_append, List.filter_append, hexec, hfc, f1, f2]
        simp

/-! ### the per-event counter is bounded by the number of `exec` events -/

theorem grun_execd_le (cfg : NCfg) (seg : List GEv) : ∀ (g : G),
    (grun cfg g seg).execd.length ≤ g.execd.length + (execRefs seg).length ∧
    (grun cfg g seg).maxExec ≤ max g.maxExec (g.execd.length + (execRefs seg).length) := by
  induction seg with
  | nil =>
    intro g
    refine ⟨?_, ?_⟩ <;> simp only [grun, List.foldl, execRefs, List.filterMap_nil, List.length_nil, Nat.add_zero] <;> omega
  | cons e seg ih =>
    intro g
    have hrun : grun cfg g (e :: seg) = grun cfg (gstep cfg g e) seg := rfl
    rw [hrun]
    obtain ⟨i1, i2⟩ := ih (gstep cfg g e)
    by_cases hh : g.halted = true
    · have hs : gstep cfg g e = g := by simp [gstep, hh]
      rw [hs] at i1 i2 ⊢
      have : (execRefs seg).length ≤ (execRefs (e :: seg)).length := by
        cases e <;> simp [execRefs]
      constructor <;> omega
    · have hh' : g.halted = false := by simpa using hh
      cases e with
      | exec r =>
        have l3 : (gstep cfg g (.exec r)).execd = g.execd ++ [r] := by simp [gstep, hh']
        have l4 : (gstep cfg g (.exec r)).maxExec = max g.maxExec (g.execd.length + 1) := by simp [gstep, hh']
        simp only [l3, l4] at i1 i2
        simp only [List.length_append, List.length_singleton] at i1 i2
        have : (execRefs (GEv.exec r :: seg)).length = (execRefs seg).length + 1 := by
          simp [execRefs]
        constructor <;> omega
      | fin t m =>
        have l3 : (gstep cfg g (.fin t m)).execd = [] := by simp [gstep, hh']
        have l4 : (gstep cfg g (.fin t m)).maxExec = g.maxExec := by simp [gstep, hh']
        simp only [l3, l4] at i1 i2
        have : (execRefs (GEv.fin t m :: seg)).length = (execRefs seg).length := by
          simp [execRefs]
        simp only [List.length_nil] at i1 i2
        constructor <;> omega
      | enter p =>
        have l3 : (gstep cfg g (.enter p)).execd = g.execd := by simp [gstep, hh']
        have l4 : (gstep cfg g (.enter p)).maxExec = g.maxExec := by simp [gstep, hh']
        simp only [l3, l4] at i1 i2
        have : (execRefs (GEv.enter p :: seg)).length = (execRefs seg).length := by
          simp [execRefs]
        constructor <;> omega
      | exit p =>
        have l3 : (gstep cfg g (.exit p)).execd = g.execd := by simp [gstep, hh']
        have l4 : (gstep cfg g (.exit p)).maxExec = g.maxExec := by simp [gstep, hh']
        simp only [l3, l4] at i1 i2
        have : (execRefs (GEv.exit p :: seg)).length = (execRefs seg).length := by
          simp [execRefs]
        constructor <;> omega
      | api t ev =>
        have hs : gstep cfg g (.api t ev) = g := by simp [gstep, hh']
        rw [hs] at i1 i2 ⊢
        have : (execRefs (GEv.api t ev :: seg)).length = (execRefs seg).length := by
          simp [execRefs]
        constructor <;> omega
      | cand t =>
        have hs : gstep cfg g (.cand t) = g := by simp [gstep, hh']
        rw [hs] at i1 i2 ⊢
        have : (execRefs (GEv.cand t :: seg)).length = (execRefs seg).length := by
          simp [execRefs]
        constructor <;> omega
      | ret t b =>
        have hs : gstep cfg g (.ret t b) = g := by simp [gstep, hh']
        rw [hs] at i1 i2 ⊢
        have : (execRefs (GEv.ret t b :: seg)).length = (execRefs seg).length := by
          simp [execRefs]
        constructor <;> omega
      | raised t x =>
        have l3 : (gstep cfg g (.raised t x)).execd = g.execd := by cases x <;> simp [gstep, hh']
        have l4 : (gstep cfg g (.raised t x)).maxExec = g.maxExec := by cases x <;> simp [gstep, hh']
        simp only [l3, l4] at i1 i2
        have : (execRefs (GEv.raised t x :: seg)).length = (execRefs seg).length := by
          simp [execRefs]
        constructor <;> omega

end TM
