/-
  Proofs/C02Global.lean — machines whose transitions are all declared on the machine: in the single `trigger_nested`
  pass of an event every executing transition has an active source that was not entered during the event and below which
  nothing was entered during the event — PROVIDED every transition that executed before it kept its destination inside the
  branch of its source (the region condition `regionOK`).  Hence a transition that is not local at its moment
  (`nonLocalRun`) implies a transition that violates the region condition (`nonRegionRun`): the only way to enter and
  afterwards exit a state within one event is a transition that targets another region.
-/
import Proofs.C02Regions
import Proofs.C03Pass2

namespace TM
open C02 C03

/-- the region condition alone: wherever a proper prefix of the source (or the machine) has two or more live children,
the destination lies in the same child's branch as the source -/
def regionOK (live : List SPath) (src dst : SPath) : Bool :=
  (List.range src.length).all fun k =>
    decide ((liveKids live (src.take k)).length < 2) || isPrefix (src.take (k + 1)) dst

def regionRef (cfg : NCfg) (g : G) (tr : TRef) : Bool :=
  (allTrans cfg).all fun e =>
    e.1 != tr || (match e.2.dest with
      | some d => regionOK g.live (tr.scope ++ e.2.source) (tr.scope ++ d)
      | none => true)

/-- some transition that executes in the segment violates the region condition at that moment -/
def nonRegionRun (cfg : NCfg) : G → List GEv → Bool
  | _, [] => false
  | g, e :: l =>
    (match e with
      | .exec tr => !regionRef cfg g tr
      | _ => false) || nonRegionRun cfg (gstep cfg g e) l

namespace Global
open Pass

/-! ### runs -/

theorem nonRegionRun_append (cfg : NCfg) : ∀ (a b : List GEv) (g : G),
    nonRegionRun cfg g (a ++ b) = (nonRegionRun cfg g a || nonRegionRun cfg (grun cfg g a) b)
  | [], b, g => by simp [nonRegionRun, grun]
  | e :: a, b, g => by
    have : grun cfg g (e :: a) = grun cfg (gstep cfg g e) a := rfl
    simp only [List.cons_append, nonRegionRun, this, nonRegionRun_append cfg a b (gstep cfg g e), Bool.or_assoc]

theorem nonLocalRun_quiet (cfg : NCfg) : ∀ (seg : List GEv) (g : G), refs seg = [] → nonLocalRun cfg g seg = false
  | [], _, _ => rfl
  | e :: l, g, h => by
    cases e <;> simp only [refs, List.filterMap_cons] at h <;> try (exact absurd h (List.cons_ne_nil _ _))
    all_goals (simp only [nonLocalRun, Bool.false_or]; exact nonLocalRun_quiet cfg l _ h)

theorem nonRegionRun_quiet (cfg : NCfg) : ∀ (seg : List GEv) (g : G), refs seg = [] → nonRegionRun cfg g seg = false
  | [], _, _ => rfl
  | e :: l, g, h => by
    cases e <;> simp only [refs, List.filterMap_cons] at h <;> try (exact absurd h (List.cons_ne_nil _ _))
    all_goals (simp only [nonRegionRun, Bool.false_or]; exact nonRegionRun_quiet cfg l _ h)

theorem refs_change (X N : List SPath) : refs (X.map GEv.exit ++ N.map GEv.enter) = [] := by
  rw [refs_append]
  have h1 : ∀ X : List SPath, refs (X.map GEv.exit) = [] := by
    intro X; induction X with
    | nil => rfl
    | cons p X ih => simp [refs]
  have h2 : ∀ N : List SPath, refs (N.map GEv.enter) = [] := by
    intro N; induction N with
    | nil => rfl
    | cons p N ih => simp [refs]
  rw [h1, h2]; rfl

theorem gstep_cand (cfg : NCfg) (g : G) (tr : TRef) : gstep cfg g (.cand tr) = g := by
  unfold gstep; split <;> rfl

theorem gstep_api (cfg : NCfg) (g : G) (t e : Nat) : gstep cfg g (.api t e) = g := by
  unfold gstep; split <;> rfl

/-- a piece of the pass as a triple over ghost states: the ghost log grows by a segment such that from every ghost
state satisfying `P` either some transition of the segment violates the region condition, or every executed transition
of the segment is local and `Q` holds of the ghost state afterwards -/
def Trip (cfg : NCfg) (s s' : NSt) (P Q : G → Prop) : Prop :=
  ∃ seg, s'.glog = s.glog ++ seg ∧
    ∀ g, P g → (nonRegionRun cfg g seg = true ∨ (nonLocalRun cfg g seg = false ∧ Q (grun cfg g seg)))

theorem Trip.nil {cfg : NCfg} {s s' : NSt} {P Q : G → Prop} (hg : s'.glog = s.glog) (hP : ∀ g, P g → Q g) :
    Trip cfg s s' P Q := ⟨[], by simp [hg], fun g h => Or.inr ⟨rfl, hP g h⟩⟩

theorem Trip.trans {cfg : NCfg} {a b c : NSt} {P Q R : G → Prop} (h1 : Trip cfg a b P Q)
    (h2 : Trip cfg b c Q R) : Trip cfg a c P R := by
  obtain ⟨s1, e1, r1⟩ := h1
  obtain ⟨s2, e2, r2⟩ := h2
  refine ⟨s1 ++ s2, by rw [e2, e1, List.append_assoc], fun g hg => ?_⟩
  rw [nonRegionRun_append, nonLocalRun_append, grun_append]
  rcases r1 g hg with r1 | ⟨r1, p1⟩
  · left; simp [r1]
  · rcases r2 _ p1 with r2 | ⟨r2, p2⟩
    · left; simp [r2]
    · right; exact ⟨by simp [r1, r2], p2⟩

theorem Trip.mono {cfg : NCfg} {a b : NSt} {P P' Q Q' : G → Prop} (h : Trip cfg a b P Q)
    (hP : ∀ g, P' g → P g) (hQ : ∀ g, Q g → Q' g) : Trip cfg a b P' Q' := by
  obtain ⟨s1, e1, r1⟩ := h
  refine ⟨s1, e1, fun g hg => ?_⟩
  rcases r1 g (hP g hg) with r | ⟨r, p⟩
  · exact Or.inl r
  · exact Or.inr ⟨r, hQ _ p⟩

/-- a segment without `exec` -/
theorem Trip.quiet {cfg : NCfg} {a b : NSt} {P : G → Prop} (h : Quiet a b) : Trip cfg a b P (fun _ => True) := by
  obtain ⟨s1, e1, r1⟩ := h
  exact ⟨s1, e1, fun g _ => Or.inr ⟨nonLocalRun_quiet cfg s1 g r1, trivial⟩⟩

theorem Trip.good {cfg : NCfg} {a b : NSt} {P Q : G → Prop} (h : Trip cfg a b P Q) (g : G) (hg : P g) :
    ∃ seg, b.glog = a.glog ++ seg ∧ (nonLocalRun cfg g seg = true → nonRegionRun cfg g seg = true) := by
  obtain ⟨s1, e1, r1⟩ := h
  refine ⟨s1, e1, fun hl => ?_⟩
  rcases r1 g hg with r | ⟨r, _⟩
  · exact r
  · rw [r] at hl; cases hl

end Global

namespace Global
open Pass

/-! ### the engine side: callbacks are silent, the five ways `Transition.execute` ends -/

/-- what callbacks leave alone -/
structure Same (s s' : NSt) : Prop where
  conf : s'.conf = s.conf
  glog : s'.glog = s.glog
  exited : s'.exited = s.exited

theorem Same.refl (s : NSt) : Same s s := ⟨rfl, rfl, rfl⟩

theorem Same.trans {a b c : NSt} (h1 : Same a b) (h2 : Same b c) : Same a c :=
  ⟨h2.conf.trans h1.conf, h2.glog.trans h1.glog, h2.exited.trans h1.exited⟩

section
variable (sub : NSub) (sc : Script) (cfg : NCfg)

theorem ncb (hR : NoRaise sc) (hC : NoCmds sc) (slot : Slot) (x : Ctx) (cbs : List Nat) (s : NSt) :
    ∃ s', ncallbacks sub sc cfg slot x cbs s = .ok () s' ∧ Same s s' := by
  obtain ⟨s', h, c, g⟩ := ncallbacks_ok sub sc cfg hR hC slot x cbs s
  exact ⟨s', h, c, g, Pass2.ncallbacks_exited sub sc cfg hC slot x cbs s s' (by rw [h]; rfl)⟩

theorem nec (hR : NoRaise sc) (hC : NoCmds sc) (x : Ctx) : ∀ (cs : List Cond) (s : NSt),
    ∃ b s', nevalConds sub sc cfg x cs s = .ok b s' ∧ Same s s'
  | [], s => ⟨true, s, rfl, Same.refl s⟩
  | c :: cs, s => by
    obtain ⟨b, s1, h1, c1, g1⟩ := ninvoke_ok sub sc cfg hR hC (if c.target then .condition else .unless) x c.cb s
    have x1 := Pass2.ninvoke_exited sub sc cfg hC _ x c.cb s s1 (by rw [h1]; rfl)
    have q1 : Same s s1 := ⟨c1, g1, x1⟩
    by_cases hb : b = c.target
    · obtain ⟨b2, s2, h2, q2⟩ := nec hR hC x cs s1
      exact ⟨b2, s2, by simp only [nevalConds, h1, Res.bind, hb, if_true, h2], q1.trans q2⟩
    · exact ⟨false, s1, by simp only [nevalConds, h1, Res.bind, hb, if_false], q1⟩

/-- the five ways `Transition.execute` of a machine-level transition ends when callbacks neither raise nor trigger -/
theorem nexecute_cases (hR : NoRaise sc) (hC : NoCmds sc) (x : Ctx) (tr : TRef) (t : NTrans) (s : NSt) :
    (∃ s', nexecute sub sc cfg cfg.root x tr t s = .ok false s' ∧ s'.conf = s.conf ∧ s'.exited = s.exited ∧
      s'.glog = s.glog ++ [.cand tr]) ∨
    (t.dest = none ∧ ∃ s', nexecute sub sc cfg cfg.root x tr t s = .ok true s' ∧ s'.conf = s.conf ∧
      s'.exited = s.exited ∧ s'.glog = s.glog ++ [.cand tr, .exec tr]) ∨
    (∃ d e s', t.dest = some d ∧ nexecute sub sc cfg cfg.root x tr t s = .err e s' ∧
      s'.glog = s.glog ++ [.cand tr, .exec tr]) ∨
    (∃ d r s', t.dest = some d ∧ resolveTransition cfg.root cfg.root s.conf d = .ok r ∧
      nexecute sub sc cfg cfg.root x tr t s = .ok true s' ∧ s'.conf = r.tree ∧
      s'.exited = s.exited ++ r.exitNames ∧
      s'.glog = s.glog ++ (.cand tr :: .exec tr ::
        ((pathsOf r.exits).map GEv.exit ++ (pathsOf r.enters).map GEv.enter))) ∨
    (∃ d r e s', t.dest = some d ∧ resolveTransition cfg.root cfg.root s.conf d = .ok r ∧
      nexecute sub sc cfg cfg.root x tr t s = .err e s' ∧
      s'.glog = s.glog ++ (.cand tr :: .exec tr ::
        ((pathsOf r.exits).map GEv.exit ++ (pathsOf r.enters).map GEv.enter))) ∨
    nexecute sub sc cfg cfg.root x tr t s = .oof := by
  obtain ⟨s1, h1, q1⟩ := ncb sub sc cfg hR hC .prepare x t.prepare (s.emitG (.cand tr))
  obtain ⟨ok, s2, h2, q2⟩ := nec sub sc cfg hR hC x t.conds s1
  have q02 : s2.conf = s.conf ∧ s2.exited = s.exited ∧ s2.glog = s.glog ++ [.cand tr] :=
    ⟨q2.conf.trans q1.conf, q2.exited.trans q1.exited, q2.glog.trans q1.glog⟩
  cases ok with
  | false =>
    left
    exact ⟨s2, by simp only [nexecute, h1, Res.bind, h2, Bool.not_false, if_true], q02⟩
  | true =>
    right
    obtain ⟨s3, h3, q3⟩ := ncb sub sc cfg hR hC .beforeSC x cfg.beforeSC s2
    obtain ⟨s4, h4, q4⟩ := ncb sub sc cfg hR hC .before x t.before (s3.emitG (.exec tr))
    have q04 : s4.conf = s.conf ∧ s4.exited = s.exited ∧ s4.glog = s.glog ++ [.cand tr, .exec tr] := by
      refine ⟨q4.conf.trans (q3.conf.trans q02.1), q4.exited.trans (q3.exited.trans q02.2.1), ?_⟩
      rw [q4.glog]; show s3.glog ++ [GEv.exec tr] = _
      rw [q3.glog, q02.2.2]; simp
    have hpre : nexecute sub sc cfg cfg.root x tr t s =
        ((match t.dest with
          | some d => nchangeState sub sc cfg cfg.root x d s4
          | none => .ok () s4).bind fun _ s5 =>
        (nfinalStage sub sc cfg cfg.root x t.dest s4.conf s5).bind fun _ s5 =>
        (ncallbacks sub sc cfg .after x t.after s5).bind fun _ s6 =>
        (ncallbacks sub sc cfg .afterSC x cfg.afterSC s6).bind fun _ s7 => .ok true s7) := by
      simp only [nexecute, h1, Res.bind, h2, Bool.not_true, Bool.false_eq_true, if_false, h3, h4]
      rfl
    have htail : ∀ s5, ∃ s7, ((Res.ok () s5 : NR Unit).bind fun _ s5 =>
        (ncallbacks sub sc cfg .after x t.after s5).bind fun _ s6 =>
        (ncallbacks sub sc cfg .afterSC x cfg.afterSC s6).bind fun _ s7 => (.ok true s7 : NR Bool)) = .ok true s7 ∧
        Same s5 s7 := by
      intro s5
      obtain ⟨s6, h6, q6⟩ := ncb sub sc cfg hR hC .after x t.after s5
      obtain ⟨s7, h7, q7⟩ := ncb sub sc cfg hR hC .afterSC x cfg.afterSC s6
      exact ⟨s7, by simp only [Res.bind, h6, h7], q6.trans q7⟩
    cases hd : t.dest with
    | none =>
      left
      obtain ⟨s7, h7, q7⟩ := htail s4
      refine ⟨rfl, s7, ?_, q7.conf.trans q04.1, q7.exited.trans q04.2.1, q7.glog.trans q04.2.2⟩
      rw [hpre, hd]; simp only [nfinalStage, Pass.bind_ok]; exact h7
    | some d =>
      right
      cases hr : resolveTransition cfg.root cfg.root s.conf d with
      | err e =>
        left
        have hr' : resolveTransition cfg.root cfg.root s4.conf d = .err e := by rw [q04.1]; exact hr
        refine ⟨d, e, s4, rfl, ?_, q04.2.2⟩
        rw [hpre, hd]; simp only [nchangeState, hr', Res.bind]
      | oof =>
        right; right; right
        have hr' : resolveTransition cfg.root cfg.root s4.conf d = .oof := by rw [q04.1]; exact hr
        rw [hpre, hd]; simp only [nchangeState, hr', Res.bind]
      | ok r =>
        right
        have hr' : resolveTransition cfg.root cfg.root s4.conf d = .ok r := by rw [q04.1]; exact hr
        obtain ⟨s5a, h5a, c5a, g5a⟩ := exitAll_ok sub sc cfg hR hC x r.exits
          { s4 with exited := s4.exited ++ r.exitNames }
        have x5a := Pass2.exitAll_exited sub sc cfg hC x r.exits _ s5a (by rw [h5a]; rfl)
        obtain ⟨s5, h5, c5, g5⟩ := enterAll_ok sub sc cfg hR hC x r.enters { s5a with conf := r.tree }
        have x5 := Pass2.enterAll_exited sub sc cfg hC x r.enters _ s5 (by rw [h5]; rfl)
        have hx5 : s5.exited = s.exited ++ r.exitNames := by
          rw [x5]; show s5a.exited = _; rw [x5a]; show s4.exited ++ _ = _; rw [q04.2.1]
        have hg5 : s5.glog = s.glog ++ (.cand tr :: .exec tr ::
            ((pathsOf r.exits).map GEv.exit ++ (pathsOf r.enters).map GEv.enter)) := by
          rw [g5]; show s5a.glog ++ _ = _; rw [g5a]; show s4.glog ++ _ ++ _ = _; rw [q04.2.2]; simp
        have hpre5 : nexecute sub sc cfg cfg.root x tr t s =
            ((nfinalStage sub sc cfg cfg.root x (some d) s4.conf s5).bind fun _ s5 =>
            (ncallbacks sub sc cfg .after x t.after s5).bind fun _ s6 =>
            (ncallbacks sub sc cfg .afterSC x cfg.afterSC s6).bind fun _ s7 => .ok true s7) := by
          rw [hpre, hd]; simp only [nchangeState, hr', h5a, Pass.bind_ok, h5]
        rcases nfinalStage_cases sub sc cfg cfg.root x (some d) s4.conf s5 with hf | ⟨cbs, hf⟩ | ⟨e, _, hf⟩ | hf
        · left
          obtain ⟨s7, h7, q7⟩ := htail s5
          refine ⟨d, r, s7, rfl, hr, ?_, ?_, ?_, ?_⟩
          · rw [hpre5, hf]; exact h7
          · rw [q7.conf, c5]
          · rw [q7.exited, hx5]
          · rw [q7.glog, hg5]
        · left
          obtain ⟨s5', h5', q5'⟩ := ncb sub sc cfg hR hC .onFinal x cbs s5
          obtain ⟨s7, h7, q7⟩ := htail s5'
          refine ⟨d, r, s7, rfl, hr, ?_, ?_, ?_, ?_⟩
          · rw [hpre5, hf, h5']; exact h7
          · rw [q7.conf, q5'.conf, c5]
          · rw [q7.exited, q5'.exited, hx5]
          · rw [q7.glog, q5'.glog, hg5]
        · right; left
          refine ⟨d, r, e, s5, rfl, hr, ?_, hg5⟩
          rw [hpre5, hf]; rfl
        · right; right
          rw [hpre5, hf]; rfl

end

end Global

namespace Global

/-! ### the transitions of a machine without local declarations, event keys unique -/

theorem forestTrans_nil : ∀ (sf : SForest) (pre : SPath), sf.noEvents = true → forestTrans pre sf = []
  | .nil, _, _ => rfl
  | .cons d kids rest, pre, h => by
    simp only [SForest.noEvents, Bool.and_eq_true, List.isEmpty_iff] at h
    simp only [forestTrans, h.1.1, scopeTrans, List.flatMap_nil, List.nil_append,
      forestTrans_nil kids _ h.1.2, forestTrans_nil rest _ h.2]

theorem allTrans_global (cfg : NCfg) (hno : cfg.states.noEvents = true) : allTrans cfg = scopeTrans [] cfg.events := by
  simp [allTrans, forestTrans_nil _ _ hno]

theorem alookup_of_mem {β : Type} : ∀ (l : List (Nat × β)) (k : Nat) (v : β), (l.map (·.1)).Nodup → (k, v) ∈ l →
    alookup k l = some v
  | [], _, _, _, h => by cases h
  | (k', v') :: r, k, v, hnd, h => by
    simp only [List.map_cons, List.nodup_cons] at hnd
    simp only [alookup]
    rcases List.mem_cons.1 h with h | h
    · cases h; simp
    · have : k' ≠ k := by
        intro e; subst e
        exact hnd.1 (List.mem_map.2 ⟨(k', v), h, rfl⟩)
      simp only [this, if_false]
      exact alookup_of_mem r k v hnd.2 h

theorem mem_of_alookup {β : Type} : ∀ (l : List (Nat × β)) (k : Nat) (v : β), alookup k l = some v → (k, v) ∈ l
  | [], _, _, h => by cases h
  | (k', v') :: r, k, v, h => by
    simp only [alookup] at h
    split at h
    · rename_i e; cases h; subst e; simp
    · exact List.mem_cons_of_mem _ (mem_of_alookup r k v h)

theorem mem_scopeTrans {pre : SPath} {events : List (Nat × List NTrans)} {e : TRef × NTrans} :
    e ∈ scopeTrans pre events ↔ ∃ k ts, (k, ts) ∈ events ∧ e.1 = ⟨pre, k, e.1.idx⟩ ∧ ts[e.1.idx]? = some e.2 := by
  obtain ⟨tr, t⟩ := e
  simp only [scopeTrans, List.mem_flatMap, List.mem_map, Prod.mk.injEq, Prod.exists]
  constructor
  · rintro ⟨k, ts, hm, t', i, hz, rfl, rfl⟩
    exact ⟨k, ts, hm, rfl, List.mem_zipIdx_iff_getElem?.mp hz⟩
  · rintro ⟨k, ts, hm, h1, h2⟩
    exact ⟨k, ts, hm, t, tr.idx, List.mem_zipIdx_iff_getElem?.mpr h2, h1.symm, rfl⟩

section
variable {cfg : NCfg} (hno : cfg.states.noEvents = true) (hkeys : (cfg.events.map (·.1)).Nodup)
  {ev : Nat} {ts : List NTrans} (hts : alookup ev cfg.events = some ts)
include hno hkeys hts

/-- a reference to a machine-level transition of `ev` denotes exactly one transition -/
theorem trans_unique {e : TRef × NTrans} (he : e ∈ allTrans cfg) (_hsc : e.1.scope = []) (hev : e.1.ev = ev) :
    ts[e.1.idx]? = some e.2 := by
  rw [allTrans_global cfg hno, mem_scopeTrans] at he
  obtain ⟨k, ts', hm, h1, h2⟩ := he
  have hk : k = ev := by rw [← hev, h1]
  subst hk
  have := alookup_of_mem _ _ _ hkeys hm
  rw [hts] at this
  cases this
  exact h2

omit hno hkeys in
theorem trans_mem {tr : TRef} {t : NTrans} (hsc : tr.scope = []) (hev : tr.ev = ev) (ht : ts[tr.idx]? = some t) :
    (tr, t) ∈ allTrans cfg := by
  refine List.mem_append_left _ (mem_scopeTrans.2 ⟨ev, ts, mem_of_alookup _ _ _ hts, ?_, ht⟩)
  obtain ⟨a, b, c⟩ := tr
  simp only at hsc hev
  subst hsc hev; rfl

theorem regionRef_iff (g : G) {tr : TRef} {t : NTrans} (hsc : tr.scope = []) (hev : tr.ev = ev)
    (ht : ts[tr.idx]? = some t) :
    regionRef cfg g tr = true ↔ ∀ d, t.dest = some d → regionOK g.live t.source d = true := by
  simp only [regionRef, List.all_eq_true, Bool.or_eq_true, bne_iff_ne, ne_eq]
  constructor
  · intro h d hd
    have := h (tr, t) (trans_mem hts hsc hev ht)
    simpa [hd, hsc] using this
  · intro h e he
    by_cases h1 : e.1 = tr
    · right
      have h2 := trans_unique hno hkeys hts he (by rw [h1]; exact hsc) (by rw [h1]; exact hev)
      rw [h1, ht] at h2
      cases h2
      cases hd : e.2.dest with
      | none => rfl
      | some d => simpa [hsc] using h d hd
    · exact Or.inl h1

theorem localRef_iff (g : G) {tr : TRef} {t : NTrans} (hsc : tr.scope = []) (hev : tr.ev = ev)
    (ht : ts[tr.idx]? = some t) :
    localRef cfg g tr = true ↔ ∀ d, t.dest = some d → localNow g t.source d = true := by
  simp only [localRef, List.all_eq_true, Bool.or_eq_true, bne_iff_ne, ne_eq]
  constructor
  · intro h d hd
    have := h (tr, t) (trans_mem hts hsc hev ht)
    simpa [hd, hsc] using this
  · intro h e he
    by_cases h1 : e.1 = tr
    · right
      have h2 := trans_unique hno hkeys hts he (by rw [h1]; exact hsc) (by rw [h1]; exact hev)
      rw [h1, ht] at h2
      cases h2
      cases hd : e.2.dest with
      | none => rfl
      | some d => simpa [hsc] using h d hd
    · exact Or.inl h1

end

theorem localNow_iff (g : G) (p d : SPath) :
    localNow g p d = true ↔
      p ∈ g.live ∧ p ∉ g.entered ∧ regionOK g.live p d = true ∧ ∀ q ∈ g.entered, isPrefix p q = false := by
  simp only [localNow, regionOK, Bool.and_eq_true, List.contains_iff_mem, Bool.not_eq_true', List.all_eq_true,
    Bool.not_eq_true', and_assoc]
  constructor
  · rintro ⟨h1, h2, h3, h4⟩
    exact ⟨h1, by simpa using h2, h3, h4⟩
  · rintro ⟨h1, h2, h3, h4⟩
    exact ⟨h1, by simpa using h2, h3, h4⟩

end Global

namespace Global

/-! ### the loop invariant -/

/-- the invariant of the pass at "remaining list `rem`, `done` set, ghost `g`, engine state `s`" -/
structure LInv (cfg : NCfg) (rem done : List SPath) (g : G) (s : NSt) : Prop where
  gi : GI2 cfg g s.conf
  ia : ∀ r ∈ rem, r ∉ s.exited → r ∈ g.live ∧ r ∉ g.entered
  ib : ∀ r ∈ rem, r ∉ done → r ∉ s.exited → ∀ q ∈ g.entered, isPrefix r q = false

theorem LInv.weaken {cfg : NCfg} {rem rem' done done' : List SPath} {g : G} {s s' : NSt}
    (h : LInv cfg rem done g s) (hr : ∀ r ∈ rem', r ∈ rem) (hd : ∀ r ∈ done, r ∈ done')
    (hc : s'.conf = s.conf) (hx : s'.exited = s.exited) : LInv cfg rem' done' g s' :=
  ⟨hc ▸ h.gi, fun r hr' hx' => h.ia r (hr r hr') (hx ▸ hx'),
    fun r hr' hd' hx' => h.ib r (hr r hr') (fun h' => hd' (hd r h')) (hx ▸ hx')⟩

/-- every prefix of an entered state is entered too or a prefix of the destination -/
theorem enters_shape (cfg : NCfg) (hwf : cfg.states.WF = true) (conf : Forest) (hc : ConfOK cfg.states conf = true)
    (hlen : conf.len = 1) (dest : SPath) (r : Resolved)
    (h : resolveTransition cfg.root cfg.root conf dest = .ok r) :
    ∀ q ∈ pathsOf r.enters, ∀ u, isPrefix u q = true → u ∈ pathsOf r.enters ∨ isPrefix u dest = true := by
  obtain ⟨A, d0, dr, st, order, sc', T, happ, _, _, _, _, _, _, hw, hen⟩ :=
    Effect.resolve_inv cfg hwf cfg.root rfl conf hc hlen dest r h
  have happ' : A ++ d0 :: dr = dest := happ
  have hK : Change.kidsAt cfg.states A = some sc'.states := Change.walkTo_kidsAt hw
  have hKwf : sc'.states.WF = true := Change.WF_kidsAt hwf hK
  have hpre : sc'.pre = A := by
    have := Change.walkTo_pre hw
    simpa [NCfg.root] using this
  obtain ⟨v, _, hTok, _, hNmem, -, -⟩ := enterDest_spec sc' hKwf d0 dr T r.enters hen
  rw [hpre] at hNmem
  have hpc := nodes_prefixClosed (Change.ConfOK_WF hTok)
  intro q hq u hu
  obtain ⟨q', hq', rfl⟩ := (hNmem q).1 hq
  have hu' : (A ++ q').take u.length = u := by simpa [isPrefix] using hu
  by_cases hle : u.length ≤ A.length
  · right
    rw [List.take_append_of_le_length hle] at hu'
    rw [← happ']
    simp only [isPrefix, beq_iff_eq]
    rw [List.take_append_of_le_length hle]; exact hu'
  · left
    rw [List.take_append, List.take_of_length_le (by omega)] at hu'
    refine (hNmem u).2 ⟨q'.take (u.length - A.length), ?_, hu'.symm⟩
    by_cases hlt : u.length - A.length < q'.length
    · exact hpc q' hq' _ (by omega) hlt
    · rw [List.take_of_length_le (by omega)]; exact hq'

/-- live set and entered list after an executed state change -/
theorem change_fields (cfg : NCfg) (hwf : cfg.states.WF = true) (conf : Forest) (dest : SPath) (r : Resolved)
    (tr : TRef) (hr : resolveTransition cfg.root cfg.root conf dest = .ok r) (g : G) (hg : GI cfg g conf) :
    (∀ q, q ∈ (grun cfg g (GEv.exec tr :: ((pathsOf r.exits).map GEv.exit ++ (pathsOf r.enters).map GEv.enter))).live ↔
      (q ∈ g.live ∧ q ∉ pathsOf r.exits) ∨ q ∈ pathsOf r.enters) ∧
    (grun cfg g (GEv.exec tr :: ((pathsOf r.exits).map GEv.exit ++ (pathsOf r.enters).map GEv.enter))).entered =
      g.entered ++ pathsOf r.enters ∧
    (∀ q ∈ pathsOf r.enters, q ∈ g.live → q ∈ pathsOf r.exits) := by
  obtain ⟨A, hA, xnd, xin, xord, xcl, nnd, nnew, npf, tok, tlen, tmem⟩ :=
    resolveTransition_spec enterSpec_holds enterRootEq_holds cfg hwf cfg.root rfl conf hg.conf_ok hg.root1 dest r hr
  have hm := Carries.mark cfg hwf conf (.exec tr) rfl (fun t m h => by cases h) (fun t x h => by cases h) g hg
  rw [grun_single] at hm
  obtain ⟨g1ok, _, _, _⟩ := hm
  have hsplit : grun cfg g (GEv.exec tr :: ((pathsOf r.exits).map GEv.exit ++ (pathsOf r.enters).map GEv.enter))
      = grun cfg (gstep cfg g (.exec tr)) ((pathsOf r.exits).map GEv.exit ++ (pathsOf r.enters).map GEv.enter) := rfl
  have hh := hg.running
  have e1 : (gstep cfg g (.exec tr)).entered = g.entered := by simp [gstep, hh]
  have e4 : (gstep cfg g (.exec tr)).live = g.live := by simp [gstep, hh]
  have hAl : A = [] ∨ (A ∈ (gstep cfg g (.exec tr)).live ∧ A ∉ pathsOf r.exits) := by
    rcases hA with h | h
    · exact Or.inl h
    · refine Or.inr ⟨by rw [e4]; exact (hg.live_eq A).2 h, ?_⟩
      intro hx
      have := (xin A hx).2
      rw [properPrefix_self] at this
      cases this
  obtain ⟨_, lmem, _, _, _, _, _, _, lent, _⟩ :=
    grun_change cfg (gstep cfg g (.exec tr)) A (pathsOf r.exits) (pathsOf r.enters) g1ok.running g1ok.nodup hAl
      xnd (fun p hp => (g1ok.live_eq p).2 (xin p hp).1) xord
      (fun p hp q hq hpq => xcl p hp q ((g1ok.live_eq q).1 hq) hpq)
      nnd (fun p hp hl => nnew p hp ((g1ok.live_eq p).1 hl)) npf
  rw [hsplit]
  refine ⟨fun q => ?_, by rw [lent, e1], fun q hq hl => nnew q hq ((hg.live_eq q).1 hl)⟩
  rw [lmem, e4]

end Global

namespace Global

/-- **preservation**: a transition from the head `p` of the remaining list executes, its destination respecting the
region condition -/
theorem LInv.change {cfg : NCfg} (hwf : cfg.states.WF = true) {p : SPath} {ps done : List SPath} {g : G} {s s1 : NSt}
    {d : SPath} {r : Resolved} {tr : TRef} {t : NTrans}
    (hI : LInv cfg (p :: ps) done g s)
    (hord : (p :: ps).Pairwise (fun a b => properPrefix a b = false ∧ a ≠ b))
    (hpx : p ∉ s.exited)
    (hmem : (tr, t) ∈ allTrans cfg) (hscope : tr.scope = []) (hdest : t.dest = some d)
    (hreg : regionOK g.live p d = true)
    (hr : resolveTransition cfg.root cfg.root s.conf d = .ok r)
    (hc1 : s1.conf = r.tree) (hx1 : s1.exited = s.exited ++ r.exitNames) :
    LInv cfg ps (done ++ prefixesOf p)
      (grun cfg g (.exec tr :: ((pathsOf r.exits).map GEv.exit ++ (pathsOf r.enters).map GEv.enter))) s1 := by
  have hgb := hI.gi.base
  obtain ⟨lmem, lent, nnew⟩ := change_fields cfg hwf s.conf d r tr hr g hgb
  have hnames := resolveTransition_exitNames enterSpec_holds enterRootEq_holds cfg hwf cfg.root rfl s.conf
    hgb.conf_ok hgb.root1 d r hr
  rw [hnames] at hx1
  obtain ⟨hpl, hpe⟩ := hI.ia p (by simp) hpx
  rw [List.pairwise_cons] at hord
  have hia : ∀ r' ∈ ps, r' ∉ s1.exited →
      r' ∉ s.exited ∧ r' ∈ g.live ∧ r' ∉ g.entered ∧ r' ∉ pathsOf r.exits ∧ r' ∉ pathsOf r.enters := by
    intro r' hr' hx'
    rw [hx1, List.mem_append, not_or] at hx'
    obtain ⟨h1, h2⟩ := hI.ia r' (List.mem_cons_of_mem _ hr') hx'.1
    exact ⟨hx'.1, h1, h2, hx'.2, fun hn => hx'.2 (nnew r' hn h1)⟩
  have hwfc : s.conf.WF = true := Change.ConfOK_WF hgb.conf_ok
  have hpc : PrefixClosed g.live := prefixClosed_of_mem hgb.live_eq (nodes_prefixClosed hwfc)
  refine ⟨?_, ?_, ?_⟩
  · rw [hc1]
    exact (Carries2.change cfg hwf cfg.root rfl s.conf d r tr t hmem hscope hdest hr g hI.gi).1
  · intro r' hr' hx'
    obtain ⟨_, h1, h2, h3, h4⟩ := hia r' hr' hx'
    rw [lmem, lent, List.mem_append, not_or]
    exact ⟨Or.inl ⟨h1, h3⟩, h2, h4⟩
  · intro r' hr' hd' hx' q hq
    obtain ⟨h0, h1, h2, h3, h4⟩ := hia r' hr' hx'
    rw [List.mem_append, not_or] at hd'
    rw [lent] at hq
    rcases List.mem_append.1 hq with hq | hq
    · exact hI.ib r' (List.mem_cons_of_mem _ hr') hd'.1 h0 q hq
    · cases hpq : isPrefix r' q with
      | false => rfl
      | true =>
        exfalso
        rcases enters_shape cfg hwf s.conf hgb.conf_ok hgb.root1 d r hr q hq r' hpq with hn | hrd
        · exact h4 hn
        · have hrd' : d.take r'.length = r' := by simpa [isPrefix] using hrd
          have hr'ne : r' ≠ [] := fun e => Forest.nil_not_mem_nodes s.conf (e ▸ (hgb.live_eq r').1 h1)
          obtain ⟨ho1, ho2⟩ := hord.1 r' hr'
          rcases Regions.diverge p r' with h | h | ⟨k, hkp, hks, heq, hne⟩
          · have ht : r'.take p.length = p := by simpa [isPrefix] using h
            have hl : p.length ≤ r'.length := by
              have := congrArg List.length ht
              simp only [List.length_take] at this
              omega
            simp only [properPrefix, Bool.and_eq_false_iff, decide_eq_false_iff_not, beq_eq_false_iff_ne] at ho1
            rcases ho1 with ho1 | ho1
            · have : p.length = r'.length := by omega
              rw [this, List.take_length] at ht
              exact ho2 ht.symm
            · exact ho1 ht
          · have ht : p.take r'.length = r' := by simpa [isPrefix] using h
            exact hd'.2 (Pass.mem_prefixesOf hr'ne ht)
          · have hml : (p.take k).length = k := by rw [List.length_take]; omega
            have hxl : (p.take (k+1)).length = k + 1 := by rw [List.length_take]; omega
            have hyl : (r'.take (k+1)).length = k + 1 := by rw [List.length_take]; omega
            have hmin : min k (k+1) = k := by omega
            have h2k : 2 ≤ (liveKids g.live (p.take k)).length :=
              Regions.two_kids hgb.nodup (Regions.take_mem hpc hpl hkp) (Regions.take_mem hpc h1 hks)
                (by rw [hxl, hml]) (by rw [hyl, hml])
                (by rw [hml, List.take_take, hmin]) (by rw [hml, List.take_take, hmin, heq]) hne
            simp only [regionOK, List.all_eq_true, List.mem_range, Bool.or_eq_true, decide_eq_true_eq] at hreg
            rcases hreg k hkp with h | h
            · omega
            · simp only [isPrefix, hxl, beq_iff_eq] at h
              have : d.take (k+1) = r'.take (k+1) := by
                have h5 : (d.take r'.length).take (k+1) = r'.take (k+1) := by rw [hrd']
                have hm : min (k+1) r'.length = k + 1 := by omega
                rw [List.take_take, hm] at h5
                exact h5
              exact hne (h.symm.trans this)

end Global

namespace Global
open Pass

/-- the order of the pass: a state is never listed before one of its descendants, nor twice -/
def Ord (l : List SPath) : Prop := l.Pairwise (fun a b => properPrefix a b = false ∧ a ≠ b)

section
variable (sub : NSub) (sc : Script) {cfg : NCfg} (hwf : cfg.states.WF = true)
  (hno : cfg.states.noEvents = true) (hkeys : (cfg.events.map (·.1)).Nodup)
  {ev : Nat} {ts : List NTrans} (hts : alookup ev cfg.events = some ts)

include hno hkeys hts in
/-- at the moment a candidate of the head `p` executes, "local" and "region condition" coincide -/
theorem exec_runs {p : SPath} {ps done : List SPath} {s : NSt} {g : G} (hI : LInv cfg (p :: ps) done g s)
    (hpd : p ∉ done) (hpx : p ∉ s.exited) {c : TRef × NTrans} (hc : c ∈ ncandidates [] ev ts p)
    (rest : List GEv) (hrest : refs rest = []) :
    nonRegionRun cfg g (.cand c.1 :: .exec c.1 :: rest) = true ∨
    (nonLocalRun cfg g (.cand c.1 :: .exec c.1 :: rest) = false ∧
      ∀ d, c.2.dest = some d → regionOK g.live p d = true) := by
  obtain ⟨hsc, hev, ht, hsrc⟩ := ncandidates_spec hc
  simp only [nonRegionRun, nonLocalRun, gstep_cand, Bool.false_or]
  cases hreg : regionRef cfg g c.1 with
  | false => left; simp
  | true =>
    right
    have hreg' := (regionRef_iff hno hkeys hts g hsc hev ht).1 hreg
    rw [hsrc] at hreg'
    have hloc : localRef cfg g c.1 = true := by
      rw [localRef_iff hno hkeys hts g hsc hev ht]
      intro d hd
      rw [hsrc, localNow_iff]
      obtain ⟨h1, h2⟩ := hI.ia p (by simp) hpx
      exact ⟨h1, h2, hreg' d hd, hI.ib p (by simp) hpd hpx⟩
    refine ⟨?_, hreg'⟩
    rw [hloc, nonLocalRun_quiet cfg rest _ hrest]; rfl

include hwf in
theorem LInv.execMark {p : SPath} {ps done : List SPath} {s s' : NSt} {g : G} (hI : LInv cfg (p :: ps) done g s)
    (tr : TRef) (hc : s'.conf = s.conf) (hx : s'.exited = s.exited) :
    LInv cfg ps (done ++ prefixesOf p) (gstep cfg g (.exec tr)) s' := by
  have hh := hI.gi.base.running
  have e1 : (gstep cfg g (.exec tr)).entered = g.entered := by simp [gstep, hh]
  have e4 : (gstep cfg g (.exec tr)).live = g.live := by simp [gstep, hh]
  refine ⟨?_, ?_, ?_⟩
  · rw [hc]; exact (Carries2.execMark cfg hwf s.conf tr g hI.gi).1
  · intro r hr hx'; rw [e1, e4]; exact hI.ia r (List.mem_cons_of_mem _ hr) (hx ▸ hx')
  · intro r hr hd hx'; rw [e1]
    exact hI.ib r (List.mem_cons_of_mem _ hr) (fun h => hd (List.mem_append_left _ h)) (hx ▸ hx')

variable (hR : NoRaise sc) (hC : NoCmds sc) (x : Ctx)

/-- the post-condition of one state's turn -/
def TurnPost (cfg : NCfg) (p : SPath) (ps done : List SPath) (s' : NSt) (g : G) : Prop :=
  (s'.result = some true ∧ LInv cfg ps (done ++ prefixesOf p) g s') ∨ LInv cfg (p :: ps) done g s'

include hwf hno hkeys hts hR hC in
theorem ntry_trip {p : SPath} {ps done : List SPath} (hord : Ord (p :: ps)) (hpd : p ∉ done) :
    ∀ (cands : List (TRef × NTrans)) (s : NSt), (∀ c ∈ cands, c ∈ ncandidates [] ev ts p) → p ∉ s.exited →
    match ntry sub sc cfg cfg.root x cands s with
    | .ok _ s' => Trip cfg s s' (fun g => LInv cfg (p :: ps) done g s) (TurnPost cfg p ps done s')
    | .err _ s' => Trip cfg s s' (fun g => LInv cfg (p :: ps) done g s) (fun _ => True)
    | .oof => True
  | [], s, _, _ => by
    simp only [ntry]
    exact Trip.nil rfl (fun g h => Or.inr h)
  | (tr, t) :: rest, s, hcs, hpx => by
    have hc := hcs (tr, t) (by simp)
    obtain ⟨hsc, hev, ht, hsrc⟩ := ncandidates_spec hc
    have hmem : (tr, t) ∈ allTrans cfg := trans_mem hts hsc hev ht
    rcases nexecute_cases sub sc cfg hR hC x tr t s with ⟨s1, he, c1, x1, g1⟩ | ⟨hd, s1, he, c1, x1, g1⟩ |
      ⟨d, e, s1, hd, he, g1⟩ | ⟨d, r, s1, hd, hr, he, c1, x1, g1⟩ | ⟨d, r, e, s1, hd, hr, he, g1⟩ | he
    · -- blocked
      simp only [ntry, he, Res.bind, Bool.false_eq_true, if_false]
      have ih := ntry_trip hord hpd rest { s1 with result := some false }
        (fun c h => hcs c (List.mem_cons_of_mem _ h)) (by show p ∉ s1.exited; rw [x1]; exact hpx)
      have t1 : Trip cfg s { s1 with result := some false } (fun g => LInv cfg (p :: ps) done g s)
          (fun g => LInv cfg (p :: ps) done g { s1 with result := some false }) := by
        refine ⟨[.cand tr], g1, fun g hg => Or.inr ⟨by simp [nonLocalRun], ?_⟩⟩
        show LInv cfg (p :: ps) done (gstep cfg g (.cand tr)) _
        rw [gstep_cand]
        exact hg.weaken (fun _ h => h) (fun _ h => h) c1 x1
      revert ih
      cases ntry sub sc cfg cfg.root x rest { s1 with result := some false } with
      | ok u s2 => exact fun ih => t1.trans ih
      | err e s2 => exact fun ih => t1.trans ih
      | oof => exact fun _ => trivial
    · -- an internal transition executes
      simp only [ntry, he, Res.bind, if_true]
      refine ⟨[.cand tr, .exec tr], g1, fun g hg => ?_⟩
      rcases exec_runs hno hkeys hts hg hpd hpx hc [] rfl with h | ⟨h, _⟩
      · exact Or.inl h
      · refine Or.inr ⟨h, Or.inl ⟨rfl, ?_⟩⟩
        show LInv cfg ps _ (gstep cfg (gstep cfg g (.cand tr)) (.exec tr)) _
        rw [gstep_cand]
        exact hg.execMark hwf tr c1 x1
    · -- the state change cannot be resolved
      simp only [ntry, he, Res.bind]
      refine ⟨[.cand tr, .exec tr], g1, fun g hg => ?_⟩
      rcases exec_runs hno hkeys hts hg hpd hpx hc [] rfl with h | ⟨h, _⟩
      · exact Or.inl h
      · exact Or.inr ⟨h, trivial⟩
    · -- a state change executes
      simp only [ntry, he, Res.bind, if_true]
      refine ⟨_, g1, fun g hg => ?_⟩
      rcases exec_runs hno hkeys hts hg hpd hpx hc _ (refs_change _ _) with h | ⟨h, hreg⟩
      · exact Or.inl h
      · refine Or.inr ⟨h, Or.inl ⟨rfl, ?_⟩⟩
        show LInv cfg ps _ (grun cfg (gstep cfg g (.cand tr)) _) _
        rw [gstep_cand]
        exact hg.change hwf hord hpx hmem hsc hd (hreg d hd) hr c1 x1
    · -- the state change executes and the final check fails (engine error)
      simp only [ntry, he, Res.bind]
      refine ⟨_, g1, fun g hg => ?_⟩
      rcases exec_runs hno hkeys hts hg hpd hpx hc _ (refs_change _ _) with h | ⟨h, _⟩
      · exact Or.inl h
      · exact Or.inr ⟨h, trivial⟩
    · simp only [ntry, he, Res.bind]

end

end Global

namespace Global
open Pass

section
variable (sub : NSub) (sc : Script) {cfg : NCfg} (hwf : cfg.states.WF = true)
  (hno : cfg.states.noEvents = true) (hkeys : (cfg.events.map (·.1)).Nodup)
  {ev : Nat} {ts : List NTrans} (hts : alookup ev cfg.events = some ts)
  (hR : NoRaise sc) (hC : NoCmds sc) (x : Ctx)

include hwf hno hkeys hts hR hC

theorem nprocess_trip {p : SPath} {ps done : List SPath} (hord : Ord (p :: ps)) (hpd : p ∉ done) (s : NSt)
    (hpx : p ∉ s.exited) :
    match nprocess sub sc cfg cfg.root x (ncandidates [] ev ts p) s with
    | .ok _ s' => Trip cfg s s' (fun g => LInv cfg (p :: ps) done g s) (TurnPost cfg p ps done s')
    | .err _ s' => Trip cfg s s' (fun g => LInv cfg (p :: ps) done g s) (fun _ => True)
    | .oof => True := by
  obtain ⟨s1, h1, q1⟩ := ncb sub sc cfg hR hC .prepareEvent x cfg.prepareEvent s
  have t1 : Trip cfg s s1 (fun g => LInv cfg (p :: ps) done g s) (fun g => LInv cfg (p :: ps) done g s1) :=
    Trip.nil q1.glog (fun g h => h.weaken (fun _ h => h) (fun _ h => h) q1.conf q1.exited)
  have h2 := ntry_trip sub sc hwf hno hkeys hts hR hC x hord hpd (ncandidates [] ev ts p) s1 (fun _ h => h)
    (by rw [q1.exited]; exact hpx)
  simp only [nprocess, h1, Res.bind]
  revert h2
  cases ntry sub sc cfg cfg.root x (ncandidates [] ev ts p) s1 with
  | ok u s2 => exact fun h2 => t1.trans h2
  | err e s2 => exact fun h2 => t1.trans h2
  | oof => exact fun _ => trivial

theorem tnLoop_trip : ∀ (rem done : List SPath) (s s' : NSt), Ord rem →
    (tnLoop sub sc cfg cfg.root x ev ts rem done s).state? = some s' →
    Trip cfg s s' (fun g => LInv cfg rem done g s) (fun _ => True)
  | [], done, s, s', _, h => by
    simp only [tnLoop, Res.state?, Option.some.injEq] at h; subst h
    exact Trip.nil rfl (fun _ _ => trivial)
  | p :: ps, done, s, s', hord, h => by
    have hord' : Ord ps := (List.pairwise_cons.1 hord).2
    unfold tnLoop at h
    simp only [] at h
    split at h
    · exact (tnLoop_trip ps done s s' hord' h).mono
        (fun g hg => hg.weaken (fun _ h => List.mem_cons_of_mem _ h) (fun _ h => h) rfl rfl) (fun _ h => h)
    · rename_i hcond
      have hpd : p ∉ done := fun hm => hcond (Or.inl hm)
      have hpx : p ∉ s.exited := fun hm => hcond (Or.inr (Or.inr (by
        have : cfg.root.pre ++ p = p := List.nil_append p
        rw [this]; exact hm)))
      split at h
      · simp only [Res.state?, Option.some.injEq] at h; subst h
        exact Trip.nil rfl (fun _ _ => trivial)
      · have hp := nprocess_trip sub sc hwf hno hkeys hts hR hC x hord hpd s hpx
        have hpre : cfg.root.pre = [] := rfl
        rw [hpre] at h
        revert hp h
        cases nprocess sub sc cfg cfg.root x (ncandidates [] ev ts p) s with
        | oof => intro h _; simp [Res.bind, Res.state?] at h
        | err e s1 =>
          intro h hp
          simp only [Res.bind, Res.state?, Option.some.injEq] at h; subst h
          exact hp
        | ok u s1 =>
          intro h hp
          simp only [Res.bind] at h
          have ih := tnLoop_trip ps _ s1 s' hord' h
          refine hp.trans (ih.mono ?_ (fun _ h => h))
          intro g hg
          rcases hg with ⟨hres, hg⟩ | hg
          · rw [if_pos hres]; exact hg
          · refine hg.weaken (fun _ h => List.mem_cons_of_mem _ h) ?_ rfl rfl
            intro r hr
            split
            · exact List.mem_append_left _ hr
            · exact hr

end

end Global

namespace Global
open Pass

/-- the ghost state between two events -/
def Start (cfg : NCfg) (conf : Forest) (g : G) : Prop := GI2 cfg g conf ∧ g.entered = []

section
variable (sub : NSub) (sc : Script) {cfg : NCfg} (hwf : cfg.states.WF = true)
  (hno : cfg.states.noEvents = true) (hkeys : (cfg.events.map (·.1)).Nodup)
  (hR : NoRaise sc) (hC : NoCmds sc) (x : Ctx) (ev : Nat)

include hwf hno hkeys hR hC

theorem triggerNested_trip {ts : List NTrans} (hts : alookup ev cfg.events = some ts) (s s' : NSt)
    (hc : ConfOK cfg.states s.conf = true)
    (h : (triggerNested sub sc cfg cfg.root x ev ts s).state? = some s') :
    Trip cfg s s' (Start cfg s.conf) (fun _ => True) := by
  have hred : s.conf.reduceGet cfg.root.pre = .ok (some s.conf) := rfl
  simp only [triggerNested, hred] at h
  cases hro : resolveOrder s.conf with
  | none => rw [hro] at h; simp [Res.state?] at h
  | some order =>
    rw [hro] at h; simp only [] at h
    have hperm := resolveOrder_perm hro
    have hnd : order.Nodup := hperm.nodup_iff.mpr (Forest.nodes_nodup (Change.ConfOK_WF hc))
    have hord : Ord order := (resolveOrder_children_first hro).and hnd
    have hinit : ∀ g, Start cfg s.conf g → LInv cfg order [] g s := by
      rintro g ⟨hg, he⟩
      refine ⟨hg, fun r hr _ => ⟨(hg.base.live_eq r).2 (hperm.mem_iff.1 hr), by rw [he]; simp⟩, ?_⟩
      intro r _ _ _ q hq
      rw [he] at hq; cases hq
    rcases bind_state h with ⟨e, he⟩ | ⟨dn, s1, he, h1⟩
    · exact (tnLoop_trip sub sc hwf hno hkeys hts hR hC x order [] s s' hord (by rw [he]; rfl)).mono hinit
        (fun _ h => h)
    · have t1 := (tnLoop_trip sub sc hwf hno hkeys hts hR hC x order [] s s1 hord (by rw [he]; rfl)).mono hinit
        (fun _ h => h)
      refine t1.trans (Trip.nil ?_ (fun _ h => h))
      split at h1 <;> (simp only [Res.state?, Option.some.injEq] at h1; subst h1; rfl)

theorem ten_trip (s s' : NSt) (hl : s.conf.len = 1) (hc : ConfOK cfg.states s.conf = true)
    (h : (ten sub sc cfg x ev cfg.root s.conf [] false s).state? = some s') :
    Trip cfg s s' (Start cfg s.conf) (fun _ => True) := by
  obtain ⟨k, v, hkv⟩ := Forest.len_one hl
  rw [hkv, ten_global_only cfg sub sc x ev hno k v (hkv ▸ hc) s] at h
  cases hal : alookup ev cfg.events with
  | none =>
    rw [hal] at h
    simp only [Res.state?, Option.some.injEq] at h; subst h
    exact Trip.nil rfl (fun _ _ => trivial)
  | some ts =>
    rw [hal] at h
    simp only [] at h
    rcases bind_state h with ⟨e, he⟩ | ⟨a, s1, he, h1⟩
    · exact triggerNested_trip sub sc hwf hno hkeys hR hC x ev hal s s' hc (by rw [he]; rfl)
    · simp only [Res.state?, Option.some.injEq] at h1; subst h1
      exact triggerNested_trip sub sc hwf hno hkeys hR hC x ev hal s s1 hc (by rw [he]; rfl)

theorem triggerEventBody_trip (s s' : NSt) (hl : s.conf.len = 1) (hc : ConfOK cfg.states s.conf = true)
    (h : (triggerEventBody sub sc cfg x ev s).state? = some s') :
    Trip cfg s s' (Start cfg s.conf) (fun _ => True) := by
  unfold triggerEventBody at h
  rcases bind_state h with ⟨e, he⟩ | ⟨r, s1, he, h1⟩
  · exact ten_trip sub sc hwf hno hkeys hR hC x ev s s' hl hc (by rw [he]; rfl)
  · have hs1 := ten_trip sub sc hwf hno hkeys hR hC x ev s s1 hl hc (by rw [he]; rfl)
    rcases bind_state h1 with ⟨e, he2⟩ | ⟨b, s2, he2, h2⟩
    · have := checkEventResult_state cfg _ ev s1 s' (by rw [he2]; rfl)
      subst this; exact hs1
    · have := checkEventResult_state cfg _ ev s1 s2 (by rw [he2]; rfl)
      subst this
      simp only [Res.state?, Option.some.injEq] at h2; subst h2
      exact hs1.trans (Trip.nil rfl (fun _ h => h))

end

end Global

theorem nonLocal_imp_nonRegion (cfg : NCfg) (hwf : cfg.states.WF = true) (sub : NSub) (sc : Script)
    (hR : NoRaise sc) (hC : NoCmds sc) (hq : cfg.queued = false) (hno : cfg.states.noEvents = true)
    (hkeys : (cfg.events.map (·.1)).Nodup)
    (qmax ev : Nat) (s s' : NSt) (g : G) (hI : GI2 cfg g s.conf) (hidle : s.queue = [])
    (hent : g.entered = []) (hexi : g.exited = [])
    (h : (napiTrigger sub sc cfg qmax ev s).state? = some s') :
    ∃ seg, s'.glog = s.glog ++ seg ∧ (nonLocalRun cfg g seg = true → nonRegionRun cfg g seg = true) := by
  have _ := hexi
  suffices hs : Global.Trip cfg s s' (Global.Start cfg s.conf) (fun _ => True) from hs.good g ⟨hI, hent⟩
  unfold napiTrigger at h
  simp only [] at h
  generalize hs1 : ((({ s with nextTag := s.nextTag + 1 } : NSt).emit (.api 0 s.nextTag 0 ev)).emitG
      (.api s.nextTag ev)) = s1 at h
  have g01 : s1.glog = s.glog ++ [.api s.nextTag ev] := by subst hs1; rfl
  have hconf : s1.conf = s.conf := by subst hs1; rfl
  have hqueue : s1.queue = [] := by subst hs1; exact hidle
  have hmp : nmachineProcess sub sc cfg qmax ev s.nextTag s1 = ntriggerEvent sub sc cfg ⟨0, s.nextTag⟩ ev s1 := by
    simp [nmachineProcess, hq, hqueue]
  rw [hmp] at h
  have t0 : Global.Trip cfg s s1 (Global.Start cfg s.conf) (Global.Start cfg s.conf) := by
    refine ⟨[.api s.nextTag ev], g01, fun g hg => Or.inr ⟨by simp [nonLocalRun], ?_⟩⟩
    show Global.Start cfg s.conf (gstep cfg g (.api s.nextTag ev))
    rw [Global.gstep_api]; exact hg
  have key : ∀ s2 s3, (ntriggerEvent sub sc cfg ⟨0, s.nextTag⟩ ev s1).state? = some s2 → Pass.Quiet s2 s3 →
      Global.Trip cfg s s3 (Global.Start cfg s.conf) (fun _ => True) := by
    intro s2 s3 h2 q23
    obtain ⟨sb, hb, qb⟩ := Pass.ntriggerEvent_body sub sc cfg hC _ ev s1 s2 h2
    have tb := Global.triggerEventBody_trip sub sc hwf hno hkeys hR hC _ ev
      { s1 with result := none, exited := [] } sb
      (by show s1.conf.len = 1; rw [hconf]; exact hI.base.root1)
      (by show ConfOK cfg.states s1.conf = true; rw [hconf]; exact hI.base.conf_ok) hb
    have t1 : Global.Trip cfg s1 ({ s1 with result := none, exited := [] } : NSt) (Global.Start cfg s.conf)
        (Global.Start cfg ({ s1 with result := none, exited := [] } : NSt).conf) :=
      Global.Trip.nil rfl (fun g hg => by show Global.Start cfg s1.conf g; rw [hconf]; exact hg)
    exact t0.trans (t1.trans (tb.trans (Global.Trip.quiet (qb.trans q23))))
  cases hn : ntriggerEvent sub sc cfg ⟨0, s.nextTag⟩ ev s1 with
  | oof => rw [hn] at h; simp [Res.state?] at h
  | ok b s2 =>
    rw [hn] at h
    simp only [Res.state?, Option.some.injEq] at h; subst h
    exact key s2 _ (by rw [hn]; rfl) ⟨[.ret s.nextTag b], rfl, rfl⟩
  | err e s2 =>
    rw [hn] at h
    simp only [Res.state?, Option.some.injEq] at h; subst h
    exact key s2 _ (by rw [hn]; rfl) ⟨[.raised s.nextTag e], rfl, rfl⟩

end TM
