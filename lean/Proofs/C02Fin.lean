/-
  Proofs/C02Fin.lean — the end-of-event checks follow from the invariant, and the initial configuration satisfies it.

  `finOk`: when the live set is duplicate-free and has exactly the nodes of an admissible configuration, every live
  state is registered, the mask of the leaves of `live` is the mask of the configuration's leaves, and every leaf
  declares no `initial`.   `NSt.init` (`_resolve_initial`) yields an admissible configuration with a single root.
-/
import Proofs.C02Tree
import Proofs.C02Base

namespace TM
open C02

/-- every entry of `forestDefs pre sf` is registered under `pre ++ n :: q` for a sibling name `n` of `sf` -/
theorem forestDefs_path {pre : SPath} {sf : SForest} {e : SPath × SDef} (h : e ∈ forestDefs pre sf) :
    ∃ n q, e.1 = pre ++ n :: q ∧ n ∈ sf.names := by
  induction sf generalizing pre with
  | nil => simp [forestDefs] at h
  | cons d kids rest ihk ihr =>
    simp only [forestDefs, List.cons_append, List.mem_cons, List.mem_append] at h
    rcases h with rfl | h | h
    · exact ⟨d.name, [], rfl, by simp [SForest.names]⟩
    · obtain ⟨n, q, e1, _⟩ := ihk h
      exact ⟨d.name, n :: q, by simp [e1], by simp [SForest.names]⟩
    · obtain ⟨n, q, e1, hn⟩ := ihr h
      exact ⟨n, q, e1, by simp [SForest.names, hn]⟩

/-- **`forestDefs` / `walk` correspondence**: a path that `walk` resolves is found in the pre-order table, with the
same definition (the first match is the walked one; no well-formedness needed) -/
theorem forestDefs_find_of_walk {sf : SForest} {pre p : SPath} {d : SDef} {kids : SForest}
    (h : sf.walk p = some (d, kids)) :
    (forestDefs pre sf).find? (fun e => e.1 = pre ++ p) = some (pre ++ p, d) := by
  induction sf generalizing pre p with
  | nil =>
    cases p with
    | nil => simp [SForest.walk] at h
    | cons k q => cases q <;> simp [SForest.walk, SForest.find] at h
  | cons d0 kids0 rest ihk ihr =>
    cases p with
    | nil => simp [SForest.walk] at h
    | cons k q =>
      by_cases hk : d0.name = k
      · subst hk
        cases q with
        | nil =>
          simp only [SForest.walk, SForest.find, if_true, Option.some.injEq, Prod.mk.injEq] at h
          obtain ⟨rfl, rfl⟩ := h
          simp [forestDefs]
        | cons y q =>
          simp only [SForest.walk, SForest.find, if_true] at h
          have := ihk (pre := pre ++ [d0.name]) h
          simp only [forestDefs, List.cons_append]
          rw [List.find?_cons_of_neg (by simp)]
          rw [List.find?_append]
          simp only [List.append_assoc, List.singleton_append] at this
          simp [this]
      · have hw : rest.walk (k :: q) = some (d, kids) := by
          cases q with
          | nil => simpa [SForest.walk, SForest.find, hk] using h
          | cons y q => simpa [SForest.walk, SForest.find, hk] using h
        have := ihr (pre := pre) hw
        simp only [forestDefs, List.cons_append]
        rw [List.find?_cons_of_neg (by simp [hk])]
        rw [List.find?_append]
        have hn : (forestDefs (pre ++ [d0.name]) kids0).find? (fun e => e.1 = pre ++ k :: q) = none := by
          rw [List.find?_eq_none]
          intro e he
          obtain ⟨n, q', e1, _⟩ := forestDefs_path he
          simp [e1, hk]
        simp [hn, this]

theorem defOf_of_walk {cfg : NCfg} {p : SPath} {d : SDef} {kids : SForest}
    (h : cfg.states.walk p = some (d, kids)) : defOf cfg p = some d := by
  have := forestDefs_find_of_walk (pre := []) h
  simp only [List.nil_append] at this
  simp [defOf, allDefs, this]

theorem ConfOK_cons {sf : SForest} {k : Nat} {s r : Forest} (h : ConfOK sf (.cons k s r) = true) :
    k ∉ r.keys ∧ ConfOK sf r = true ∧ ∃ d kids, sf.find k = some (d, kids) ∧
      (s.isEmpty = true → d.initial.isEmpty = true) ∧
      (s.isEmpty = false → (s.len ≤ 1 ∨ ∀ n ∈ kids.names, n ∈ s.keys) ∧ ConfOK kids s = true) := by
  simp only [ConfOK, Bool.and_eq_true, Bool.not_eq_true', List.contains_eq_mem, decide_eq_false_iff_not] at h
  obtain ⟨⟨h1, h2⟩, h3⟩ := h
  refine ⟨h1, h3, ?_⟩
  split at h2
  · next d kids hf =>
    refine ⟨d, kids, hf, ?_, ?_⟩
    · intro he; simpa [he] using h2
    · intro he
      simpa [he] using h2
  · simp at h2

theorem ConfOK_WF {sf : SForest} {f : Forest} (h : ConfOK sf f = true) : f.WF = true := by
  induction f generalizing sf with
  | nil => rfl
  | cons k s r ihs ihr =>
    obtain ⟨h1, h2, d, kids, _, _, h3⟩ := ConfOK_cons h
    simp only [Forest.WF, Bool.and_eq_true, Bool.not_eq_true', List.contains_eq_mem, decide_eq_false_iff_not]
    refine ⟨⟨h1, ?_⟩, ihr h2⟩
    cases hs : s.isEmpty with
    | true => cases s with
      | nil => rfl
      | cons => simp [Forest.isEmpty] at hs
    | false => exact ihs (h3 hs).2

theorem Forest.nodes_ne_nil {s : Forest} (h : s.isEmpty = false) : ∃ x, [x] ∈ s.nodes := by
  cases s with
  | nil => simp [Forest.isEmpty] at h
  | cons k s r => exact ⟨k, by simp [Forest.nodes]⟩

/-- every node of an admissible configuration is a defined state (resolved by `walk`), and a node without a proper
extension among the nodes declares no `initial` -/
theorem ConfOK_walk {sf : SForest} {f : Forest} {p : SPath} (h : ConfOK sf f = true) (hp : p ∈ f.nodes) :
    ∃ d kids, sf.walk p = some (d, kids) ∧
      ((∀ q ∈ f.nodes, properPrefix p q = false) → d.initial.isEmpty = true) := by
  induction f generalizing sf p with
  | nil => simp [Forest.nodes] at hp
  | cons k s r ihs ihr =>
    obtain ⟨h1, h2, d, kids, hf, h3, h4⟩ := ConfOK_cons h
    simp only [Forest.nodes, List.cons_append, List.mem_cons, List.mem_append, List.mem_map] at hp
    rcases hp with rfl | ⟨q, hq, rfl⟩ | hp
    · refine ⟨d, kids, by simp [SForest.walk, hf], ?_⟩
      intro hall
      cases hs : s.isEmpty with
      | true => exact h3 hs
      | false =>
        obtain ⟨x, hx⟩ := Forest.nodes_ne_nil hs
        have := hall [k, x] (by simp [Forest.nodes, hx])
        simp [properPrefix] at this
    · have hs : s.isEmpty = false := by
        cases s with
        | nil => simp [Forest.nodes] at hq
        | cons => rfl
      obtain ⟨d', kids', hw, hl⟩ := ihs (h4 hs).2 hq
      have hqne : q ≠ [] := fun e => Forest.nil_not_mem_nodes s (e ▸ hq)
      refine ⟨d', kids', ?_, ?_⟩
      · cases q with
        | nil => exact absurd rfl hqne
        | cons y q => simpa [SForest.walk, hf] using hw
      · intro hall
        apply hl
        intro q' hq'
        have := hall (k :: q') (by simp [Forest.nodes, hq'])
        rw [properPrefix_cons_cons_false] at this
        exact this rfl
    · obtain ⟨d', kids', hw, hl⟩ := ihr h2 hp
      refine ⟨d', kids', hw, ?_⟩
      intro hall
      apply hl
      intro q' hq'
      exact hall q' (by simp [Forest.nodes, hq'])

/-- `p` has a proper extension in `L` -/
def hasExt (L : List SPath) (p : SPath) : Bool := L.any fun q => properPrefix p q

theorem liveLeaves_eq (L : List SPath) : liveLeaves L = L.filter fun p => !hasExt L p := rfl

theorem hasExt_iff {L : List SPath} {p : SPath} : hasExt L p = true ↔ ∃ q ∈ L, properPrefix p q = true := by
  simp [hasExt]

theorem hasExt_congr {L M : List SPath} (h : ∀ q, q ∈ L ↔ q ∈ M) (p : SPath) : hasExt L p = hasExt M p := by
  rw [Bool.eq_iff_iff, hasExt_iff, hasExt_iff]
  constructor
  · rintro ⟨q, hq, hp⟩; exact ⟨q, (h q).1 hq, hp⟩
  · rintro ⟨q, hq, hp⟩; exact ⟨q, (h q).2 hq, hp⟩

theorem properPrefix_singleton (k : Nat) (q : SPath) : properPrefix [k] q = true ↔ ∃ y q', q = k :: y :: q' := by
  cases q with
  | nil => simp [properPrefix]
  | cons x q =>
    rw [properPrefix_cons_cons]
    cases q with
    | nil => simp [properPrefix]
    | cons y q' => simp [properPrefix, eq_comm]

theorem Forest.isEmpty_leaves {f : Forest} (h : f.isEmpty = true) : f.leaves = [] := by
  cases f with
  | nil => rfl
  | cons k s r => simp [Forest.isEmpty] at h

/-- the leaves of the node set of a well-formed tree are its leaves, in the same order -/
theorem Forest.liveLeaves_nodes {f : Forest} (hwf : f.WF = true) : liveLeaves f.nodes = f.leaves := by
  induction f with
  | nil => rfl
  | cons k s r ihs ihr =>
    simp only [Forest.WF, Bool.and_eq_true, Bool.not_eq_true', List.contains_eq_mem, decide_eq_false_iff_not] at hwf
    obtain ⟨⟨hk, hs⟩, hr⟩ := hwf
    have hnr : ∀ q, k :: q ∉ r.nodes := fun q hq => hk (Forest.cons_mem_nodes_keys hq)
    rw [liveLeaves_eq]
    -- the three parts of the node list
    have e1 : hasExt (Forest.cons k s r).nodes [k] = !s.isEmpty := by
      rw [Bool.eq_iff_iff, hasExt_iff]
      constructor
      · rintro ⟨q, hq, hp⟩
        obtain ⟨y, q', rfl⟩ := (properPrefix_singleton k q).1 hp
        rw [Forest.cons_mem_nodes_cons] at hq
        rcases hq with ⟨_, hq⟩ | hq
        · rcases hq with hq | hq
          · simp at hq
          · cases s with
            | nil => simp [Forest.nodes] at hq
            | cons => rfl
        · exact absurd hq (hnr _)
      · intro he
        cases s with
        | nil => simp [Forest.isEmpty] at he
        | cons x s' r' => exact ⟨[k, x], by simp [Forest.nodes], by simp [properPrefix]⟩
    have e2 : ∀ q, hasExt (Forest.cons k s r).nodes (k :: q) = hasExt s.nodes q := by
      intro q
      rw [Bool.eq_iff_iff, hasExt_iff, hasExt_iff]
      constructor
      · rintro ⟨q', hq', hp⟩
        cases q' with
        | nil => simp [properPrefix] at hp
        | cons y q' =>
          rw [properPrefix_cons_cons] at hp
          obtain ⟨rfl, hp⟩ := hp
          rw [Forest.cons_mem_nodes_cons] at hq'
          rcases hq' with ⟨_, rfl | hq'⟩ | hq'
          · simp [properPrefix] at hp
          · exact ⟨q', hq', hp⟩
          · exact absurd hq' (hnr _)
      · rintro ⟨q', hq', hp⟩
        exact ⟨k :: q', by simp [Forest.nodes, hq'], by rw [properPrefix_cons_cons]; exact ⟨rfl, hp⟩⟩
    have e3 : ∀ p ∈ r.nodes, hasExt (Forest.cons k s r).nodes p = hasExt r.nodes p := by
      intro p hp
      obtain ⟨x, q, rfl, hx⟩ := Forest.head_mem_keys hp
      have hxk : x ≠ k := fun e => hk (e ▸ hx)
      rw [Bool.eq_iff_iff, hasExt_iff, hasExt_iff]
      constructor
      · rintro ⟨q', hq', hpp⟩
        cases q' with
        | nil => simp [properPrefix] at hpp
        | cons y q' =>
          rw [properPrefix_cons_cons] at hpp
          obtain ⟨rfl, hpp⟩ := hpp
          rw [Forest.cons_mem_nodes_cons] at hq'
          rcases hq' with ⟨e, _⟩ | hq'
          · exact absurd e hxk
          · exact ⟨x :: q', hq', by rw [properPrefix_cons_cons]; exact ⟨rfl, hpp⟩⟩
      · rintro ⟨q', hq', hpp⟩
        exact ⟨q', by simp [Forest.nodes, hq'], hpp⟩
    obtain ⟨P, hP⟩ : ∃ P : SPath → Bool, P = fun p => !hasExt (Forest.cons k s r).nodes p := ⟨_, rfl⟩
    have p1 : P [k] = s.isEmpty := by rw [hP]; simp [e1]
    have p2 : ∀ q, P (k :: q) = !hasExt s.nodes q := by intro q; rw [hP]; simp [e2]
    have p3 : ∀ p ∈ r.nodes, P p = !hasExt r.nodes p := by intro p hp; rw [hP]; simp [e3 p hp]
    rw [← hP]
    clear hP e1 e2 e3
    have hs' : s.nodes.filter (fun q => P (k :: q)) = s.leaves := by
      rw [← ihs hs, liveLeaves_eq]
      exact List.filter_congr (fun q _ => p2 q)
    have hr' : r.nodes.filter P = r.leaves := by
      rw [← ihr hr, liveLeaves_eq]
      exact List.filter_congr p3
    simp only [Forest.nodes, Forest.leaves, List.cons_append, List.filter_cons, List.filter_append, List.filter_map,
      p1, hr', Function.comp_def, hs']
    cases he : s.isEmpty with
    | true => simp [Forest.isEmpty_leaves he]
    | false => simp

theorem liveLeaves_perm {live : List SPath} {conf : Forest} (hwf : conf.WF = true) (hnd : live.Nodup)
    (hl : ∀ p, p ∈ live ↔ p ∈ conf.nodes) : (liveLeaves live).Perm conf.leaves := by
  have hp : live.Perm conf.nodes := (List.perm_ext_iff_of_nodup hnd (Forest.nodes_nodup hwf)).2 hl
  rw [← Forest.liveLeaves_nodes hwf, liveLeaves_eq, liveLeaves_eq]
  have : (fun p => !hasExt live p) = fun p => !hasExt conf.nodes p := by
    funext p; rw [hasExt_congr hl]
  rw [this]
  exact hp.filter _

theorem mem_liveLeaves {L : List SPath} {p : SPath} :
    p ∈ liveLeaves L ↔ p ∈ L ∧ ∀ q ∈ L, properPrefix p q = false := by
  simp [liveLeaves]

theorem finOk_of_inv (cfg : NCfg) (hwf : cfg.states.WF = true) (conf : Forest) (hc : ConfOK cfg.states conf = true)
    (live : List SPath) (hnd : live.Nodup) (hl : ∀ p, p ∈ live ↔ p ∈ conf.nodes) :
    finOk cfg live (confMask cfg conf) = true := by
  have _ := hwf  -- not needed: `ConfOK` alone makes every node a `walk`-resolved state
  have hcw := ConfOK_WF hc
  simp only [finOk, Bool.and_eq_true, List.all_eq_true, beq_iff_eq]
  refine ⟨⟨?_, ?_⟩, ?_⟩
  · intro p hp
    obtain ⟨d, kids, hw, _⟩ := ConfOK_walk hc ((hl p).1 hp)
    simp [defOf_of_walk hw]
  · simp only [liveMask, confMask]
    exact ((liveLeaves_perm hcw hnd hl).map _).sum_nat
  · intro p hp
    rw [mem_liveLeaves] at hp
    obtain ⟨d, kids, hw, hi⟩ := ConfOK_walk hc ((hl p).1 hp.1)
    rw [defOf_of_walk hw]
    exact hi (fun q hq => hp.2 q ((hl q).2 hq))

/-! ### the initial configuration -/

theorem eraseDups_len_le : ∀ (n : Nat) (l : List Nat), l.length ≤ n → l.eraseDups.length ≤ l.length := by
  intro n
  induction n with
  | zero => intro l h; cases l <;> simp_all
  | succ n ih =>
    intro l h
    cases l with
    | nil => simp
    | cons a l =>
      rw [List.eraseDups_cons]
      have h1 := List.length_filter_le (fun b => !b == a) l
      have h2 := ih (l.filter fun b => !b == a) (by simp at h; omega)
      simp only [List.length_cons]
      omega

theorem nodup_of_eraseDups_len : ∀ (l : List Nat), l.eraseDups.length = l.length → l.Nodup := by
  intro l
  induction l with
  | nil => simp
  | cons a l ih =>
    intro h
    rw [List.eraseDups_cons] at h
    have h1 := List.length_filter_le (fun b => !b == a) l
    have h2 := eraseDups_len_le _ (l.filter fun b => !b == a) (Nat.le_refl _)
    simp only [List.length_cons] at h
    have h3 : (l.filter fun b => !b == a).length = l.length := by omega
    have h4 := List.length_filter_eq_length_iff.mp h3
    have h5 : l.filter (fun b => !b == a) = l := List.filter_eq_self.mpr h4
    rw [h5] at h
    refine List.nodup_cons.mpr ⟨?_, ih (by omega)⟩
    intro hm
    have := h4 a hm
    simp at this

/-- what `SForest.WF` says about a state found in a `states` dictionary -/
theorem SForest.WF_find_initial {K : SForest} {k : Nat} {d : SDef} {kids : SForest} (hwf : K.WF = true)
    (h : K.find k = some (d, kids)) :
    kids.WF = true ∧ d.initial.Nodup ∧ (d.initial.length ≤ 1 ∨ ∀ n ∈ kids.names, n ∈ d.initial) := by
  induction K with
  | nil => simp [SForest.find] at h
  | cons d' kids' rest _ ih =>
    simp only [SForest.WF, Bool.and_eq_true, Bool.or_eq_true, List.all_eq_true, beq_iff_eq,
      decide_eq_true_eq, List.contains_eq_mem] at hwf
    obtain ⟨⟨⟨⟨⟨_, h1⟩, h2⟩, h3⟩, h4⟩, h5⟩ := hwf
    simp only [SForest.find] at h
    split at h
    · simp at h
      obtain ⟨rfl, rfl⟩ := h
      exact ⟨h4, nodup_of_eraseDups_len _ h2, h3⟩
    · exact ih h5 h

/-- a one-entry dictionary `k ↦ below` is admissible when `below` has exactly the `initial` children of `k` as keys
and is admissible for the children of `k` -/
theorem ConfOK_entry {sf : SForest} {k : Nat} {d : SDef} {kids : SForest} {below : Forest} (hwf : sf.WF = true)
    (hf : sf.find k = some (d, kids)) (hk : below.keys = d.initial) (hc : ConfOK kids below = true) :
    ConfOK sf (.cons k below .nil) = true := by
  obtain ⟨_, _, h3⟩ := SForest.WF_find_initial hwf hf
  simp only [ConfOK, hf, Forest.keys, List.contains_nil, Bool.not_false, Bool.true_and, Bool.and_true]
  cases below with
  | nil =>
    simp only [Forest.isEmpty, if_true]
    simp only [Forest.keys] at hk
    simp [← hk]
  | cons x s r =>
    simp only [Forest.isEmpty, Bool.false_eq_true, if_false, hc, Bool.and_true, Bool.or_eq_true, decide_eq_true_eq,
      List.all_eq_true, List.contains_eq_mem, Forest.len_eq_keys_length, hk]
    exact h3

/-- `d[n] = v` for a new key appends an entry -/
theorem ConfOK_set_new {sf : SForest} {acc v : Forest} {n : Nat} (ha : ConfOK sf acc = true) (hn : n ∉ acc.keys)
    (hv : ConfOK sf (.cons n v .nil) = true) : ConfOK sf (acc.set n v) = true := by
  induction acc with
  | nil => simpa [Forest.set] using hv
  | cons k s r _ ihr =>
    simp only [Forest.keys, List.mem_cons, not_or] at hn
    have hkn : ¬ k = n := fun e => hn.1 e.symm
    simp only [Forest.set, hkn, if_false]
    simp only [ConfOK, Bool.and_eq_true] at ha ⊢
    obtain ⟨⟨h1, h2⟩, h3⟩ := ha
    refine ⟨⟨?_, h2⟩, ihr h3 hn.2⟩
    simp only [Bool.not_eq_true', List.contains_eq_mem, decide_eq_false_iff_not] at h1 ⊢
    rw [Forest.keys_set]
    split <;> simp [h1, hkn]

theorem ConfOK_foldl_set {sf : SForest} (sel : List (Nat × Forest)) (acc : Forest) (ha : ConfOK sf acc = true)
    (hnd : (acc.keys ++ sel.map (·.1)).Nodup) (hs : ∀ e ∈ sel, ConfOK sf (.cons e.1 e.2 .nil) = true) :
    ConfOK sf (sel.foldl (fun acc e => acc.set e.1 e.2) acc) = true ∧
      (sel.foldl (fun acc e => acc.set e.1 e.2) acc).keys = acc.keys ++ sel.map (·.1) := by
  induction sel generalizing acc with
  | nil => simp [ha]
  | cons e sel ih =>
    simp only [List.foldl_cons]
    have hn : e.1 ∉ acc.keys := by
      intro hm
      rw [List.nodup_append] at hnd
      exact hnd.2.2 _ hm _ (by simp) rfl
    have hk : (acc.set e.1 e.2).keys = acc.keys ++ [e.1] := by
      rw [Forest.keys_set]; simp [hn]
    have := ih (acc.set e.1 e.2) (ConfOK_set_new ha hn (hs e (by simp))) (by simpa [hk] using hnd)
      (fun e' he' => hs e' (by simp [he']))
    refine ⟨this.1, ?_⟩
    rw [this.2, hk]; simp

theorem initSel_spec {tk : List (Nat × Forest)} {I : List Nat} {sel : List (Nat × Forest)}
    (h : I.mapM (fun n => (alookup n tk).map fun f => (n, f)) = some sel) :
    sel.map (·.1) = I ∧ ∀ e ∈ sel, alookup e.1 tk = some e.2 := by
  induction I generalizing sel with
  | nil => simp at h; subst h; simp
  | cons n I ih =>
    rw [List.mapM_cons] at h
    cases h1 : alookup n tk with
    | none => simp [h1] at h
    | some f =>
      cases h2 : I.mapM (fun n => (alookup n tk).map fun f => (n, f)) with
      | none => simp [h1, h2] at h
      | some l =>
        simp [h1, h2] at h
        subst h
        obtain ⟨i1, i2⟩ := ih h2
        refine ⟨by simp [i1], ?_⟩
        intro e he
        simp only [List.mem_cons] at he
        rcases he with rfl | he
        · exact h1
        · exact i2 e he

/-- every entry `name ↦ below` of `initTable sf` belongs to a state of `sf`; `below` has exactly that state's `initial`
children as keys and is admissible for its children -/
theorem initTable_spec {sf : SForest} {t : List (Nat × Forest)} (hwf : sf.WF = true) (h : initTable sf = some t)
    {k : Nat} {below : Forest} (hb : alookup k t = some below) :
    ∃ d kids, sf.find k = some (d, kids) ∧ below.keys = d.initial ∧ ConfOK kids below = true := by
  induction sf generalizing t k below with
  | nil => simp [initTable] at h; subst h; simp [alookup] at hb
  | cons d kids rest ihk ihr =>
    have hwf' := hwf
    simp only [SForest.WF, Bool.and_eq_true] at hwf'
    obtain ⟨⟨_, hkw⟩, hrw⟩ := hwf'
    simp only [initTable] at h
    split at h
    · next tk tr htk htr =>
      split at h
      · next sel hsel =>
        simp only [Option.some.injEq] at h
        subst h
        simp only [alookup] at hb
        by_cases hk : d.name = k
        · simp only [hk, if_true, Option.some.injEq] at hb
          refine ⟨d, kids, by simp [SForest.find, hk], ?_⟩
          obtain ⟨s1, s2⟩ := initSel_spec hsel
          obtain ⟨_, hnd, _⟩ := SForest.WF_find_initial (k := d.name) (d := d) (kids := kids) hwf (by simp [SForest.find])
          have := ConfOK_foldl_set (sf := kids) sel .nil rfl (by simpa [Forest.keys, s1] using hnd) (by
            intro e he
            obtain ⟨d', kids', f1, f2, f3⟩ := ihk hkw htk (s2 e he)
            exact ConfOK_entry hkw f1 f2 f3)
          rw [hb] at this
          exact ⟨by simpa [Forest.keys, s1] using this.2, this.1⟩
        · simp only [hk, if_false] at hb
          simp only [SForest.find, hk, if_false]
          exact ihr hrw htr hb
      · simp at h
    · simp at h

theorem SForest.WF_find_kids {K : SForest} {k : Nat} {d : SDef} {kids : SForest} (hwf : K.WF = true)
    (h : K.find k = some (d, kids)) : kids.WF = true := (SForest.WF_find_initial hwf h).1

theorem resolveInitial_spec {sf : SForest} {p : SPath} {f : Forest} (hwf : sf.WF = true)
    (h : resolveInitial sf p = some f) : ConfOK sf f = true ∧ f.len = 1 := by
  induction p generalizing sf f with
  | nil => simp [resolveInitial] at h
  | cons k p ih =>
    cases p with
    | nil =>
      simp only [resolveInitial] at h
      split at h
      · next t ht =>
        simp only [Option.map_eq_some_iff] at h
        obtain ⟨below, hb, rfl⟩ := h
        obtain ⟨d, kids, f1, f2, f3⟩ := initTable_spec hwf ht hb
        exact ⟨ConfOK_entry hwf f1 f2 f3, rfl⟩
      · simp at h
    | cons y p =>
      simp only [resolveInitial] at h
      split at h
      · next d kids hf =>
        simp only [Option.map_eq_some_iff] at h
        obtain ⟨below, hb, rfl⟩ := h
        obtain ⟨h1, h2⟩ := ih (SForest.WF_find_kids hwf hf) hb
        refine ⟨?_, rfl⟩
        have hbe : below.isEmpty = false := by
          cases below with
          | nil => simp [Forest.len] at h2
          | cons x s r => rfl
        simp [ConfOK, hf, hbe, h1, h2, Forest.keys]
      · simp at h

theorem init_confOK (cfg : NCfg) (hwf : cfg.states.WF = true) (s : NSt) (h : NSt.init cfg = some s) :
    ConfOK cfg.states s.conf = true ∧ s.conf.len = 1 := by
  simp only [NSt.init, Option.map_eq_some_iff] at h
  obtain ⟨f, hf, rfl⟩ := h
  exact resolveInitial_spec hwf hf

end TM
