/-
  Proofs/C02Fin.lean — the end-of-event checks follow from the invariant, and the initial configuration satisfies it.

  `finOk`: when the live set is duplicate-free and has exactly the nodes of an admissible configuration, every live
  state is registered, the mask of the leaves of `live` is the mask of the configuration's leaves, and every leaf
  declares no `initial`.   `NSt.init` (`_resolve_initial`) yields an admissible configuration with a single root.
-/
import Proofs.C02Tree
import Proofs.C02Base

namespace TM
open C02

theorem finOk_of_inv (cfg : NCfg) (hwf : cfg.states.WF = true) (conf : Forest) (hc : ConfOK cfg.states conf = true)
    (live : List SPath) (hnd : live.Nodup) (hl : ∀ p, p ∈ live ↔ p ∈ conf.nodes) :
    finOk cfg live (confMask cfg conf) = true := by
  sorry

theorem init_confOK (cfg : NCfg) (hwf : cfg.states.WF = true) (s : NSt) (h : NSt.init cfg = some s) :
    ConfOK cfg.states s.conf = true ∧ s.conf.len = 1 := by
  sorry

end TM
