/-
  Proofs/C05NGen.lean — a trace-simulation skeleton for the hierarchical engine (`Model/Nested.lean`,
  `Model/NestedDispatch.lean`), generic in the acceptor.

  `Acc Z` is an abstract acceptor with states `Z`: `adv σ seg σ'` says that the trace segment `seg` moves it from
  `σ` to `σ'`.  `NPost A Pok Perr σ l r` says that whatever `r` appended to the log `l` moves the acceptor from `σ`
  to a state in which `Pok` (normal return) / `Perr` (exception) holds.  A `Block` packages what has to be known
  about single trace items (the `call` of a callback of the event in progress, `done`) and about the interpreter
  of re-entrant commands; from it every engine function from `ninvoke` up to `ntriggerEvent` is shown to advance
  the acceptor — for EVERY script (callbacks trigger events, raise), configuration, state tree and scope.

  Instances: the abstract FIFO queue of property C05 (`Proofs/C05N.lean`), and the trivial acceptor, which yields
  "the log only grows" (`NGrows`, used for the unqueued clause).
-/
import Model.NestedDispatch

namespace TM
namespace N5

/-- an abstract acceptor over trace items -/
structure Acc (Z : Type) where
  adv : Z → List Item → Z → Prop
  refl : ∀ σ, adv σ [] σ
  trans : ∀ {a b c : Z} {s1 s2 : List Item}, adv a s1 b → adv b s2 c → adv a (s1 ++ s2) c

variable {Z : Type}

/-- outcome predicate: what `r` appended to the log `l` advances the acceptor from `σ` -/
def NPost {α} (A : Acc Z) (Pok Perr : Z → NSt → Prop) (σ : Z) (l : List Item) : NR α → Prop
  | .oof => True
  | .ok _ s' => ∃ σ' seg, s'.log = l ++ seg ∧ A.adv σ seg σ' ∧ Pok σ' s'
  | .err _ s' => ∃ σ' seg, s'.log = l ++ seg ∧ A.adv σ seg σ' ∧ Perr σ' s'

theorem NPost.bind {α β} {A : Acc Z} {P Pok Perr : Z → NSt → Prop} {σ : Z} {l : List Item} {r : NR α}
    {f : α → NSt → NR β} (h : NPost A P Perr σ l r)
    (hf : ∀ a σ1 s1, P σ1 s1 → NPost A Pok Perr σ1 s1.log (f a s1)) :
    NPost A Pok Perr σ l (r.bind f) := by
  cases r with
  | oof => trivial
  | err e s1 => exact h
  | ok a s1 =>
    obtain ⟨σ1, seg1, l1, a1, p1⟩ := h
    have h2 := hf a σ1 s1 p1
    simp only [Res.bind]
    cases hr : f a s1 with
    | oof => trivial
    | ok b s2 =>
      rw [hr] at h2
      obtain ⟨σ2, seg2, l2, a2, p2⟩ := h2
      exact ⟨σ2, seg1 ++ seg2, by rw [l2, l1, List.append_assoc], A.trans a1 a2, p2⟩
    | err e s2 =>
      rw [hr] at h2
      obtain ⟨σ2, seg2, l2, a2, p2⟩ := h2
      exact ⟨σ2, seg1 ++ seg2, by rw [l2, l1, List.append_assoc], A.trans a1 a2, p2⟩

theorem NPost.weaken {α} {A : Acc Z} {Pok Perr Pok' Perr' : Z → NSt → Prop} {σ : Z} {l : List Item} {r : NR α}
    (h : NPost A Pok Perr σ l r) (h1 : ∀ a b, Pok a b → Pok' a b) (h2 : ∀ a b, Perr a b → Perr' a b) :
    NPost A Pok' Perr' σ l r := by
  cases r with
  | oof => trivial
  | ok a s1 => obtain ⟨σ1, seg, l, a, p⟩ := h; exact ⟨σ1, seg, l, a, h1 _ _ p⟩
  | err e s1 => obtain ⟨σ1, seg, l, a, p⟩ := h; exact ⟨σ1, seg, l, a, h2 _ _ p⟩

theorem NPost.map {α β} {A : Acc Z} {Pok Perr : Z → NSt → Prop} {σ : Z} {l : List Item} {r : NR α} (f : α → β)
    (h : NPost A Pok Perr σ l r) : NPost A Pok Perr σ l (r.map f) := by
  cases r <;> exact h

theorem NPost.ok {α} (A : Acc Z) {Pok Perr : Z → NSt → Prop} {σ : Z} {s : NSt} (a : α) (h : Pok σ s) :
    NPost A Pok Perr σ s.log (.ok a s : NR α) := ⟨σ, [], by simp, A.refl σ, h⟩

theorem NPost.err {α} (A : Acc Z) {Pok Perr : Z → NSt → Prop} {σ : Z} {s : NSt} (e : Exc) (h : Perr σ s) :
    NPost A Pok Perr σ s.log (.err e s : NR α) := ⟨σ, [], by simp, A.refl σ, h⟩

/-- prefix the segment `seg0` (already appended to the log, acceptor already advanced) -/
theorem NPost.pre {α} {A : Acc Z} {Pok Perr : Z → NSt → Prop} {σ σ1 : Z} {l : List Item} {seg0 : List Item}
    {r : NR α} (h0 : A.adv σ seg0 σ1) (h : NPost A Pok Perr σ1 (l ++ seg0) r) : NPost A Pok Perr σ l r := by
  cases r with
  | oof => trivial
  | ok a s1 =>
    obtain ⟨σ2, seg, l2, a2, p2⟩ := h
    exact ⟨σ2, seg0 ++ seg, by rw [l2, List.append_assoc], A.trans h0 a2, p2⟩
  | err e s1 =>
    obtain ⟨σ2, seg, l2, a2, p2⟩ := h
    exact ⟨σ2, seg0 ++ seg, by rw [l2, List.append_assoc], A.trans h0 a2, p2⟩

/-- continue after `r` on both outcomes (the shape of `try … except … finally`) -/
theorem NPost.both {α β} {A : Acc Z} {Pok Perr Pok' Perr' : Z → NSt → Prop} {σ : Z} {l : List Item} {r : NR α}
    (h : NPost A Pok Perr σ l r) {k : NR α → NR β} (hoof : k .oof = .oof)
    (ho : ∀ a σ1 s1, Pok σ1 s1 → NPost A Pok' Perr' σ1 s1.log (k (.ok a s1)))
    (he : ∀ e σ1 s1, Perr σ1 s1 → NPost A Pok' Perr' σ1 s1.log (k (.err e s1))) :
    NPost A Pok' Perr' σ l (k r) := by
  cases r with
  | oof => rw [hoof]; trivial
  | ok a s1 =>
    obtain ⟨σ1, seg1, l1, a1, p1⟩ := h
    have h2 := ho a σ1 s1 p1
    cases hr : k (.ok a s1) with
    | oof => trivial
    | ok b s2 =>
      rw [hr] at h2; obtain ⟨σ2, seg2, l2, a2, p2⟩ := h2
      exact ⟨σ2, seg1 ++ seg2, by rw [l2, l1, List.append_assoc], A.trans a1 a2, p2⟩
    | err e s2 =>
      rw [hr] at h2; obtain ⟨σ2, seg2, l2, a2, p2⟩ := h2
      exact ⟨σ2, seg1 ++ seg2, by rw [l2, l1, List.append_assoc], A.trans a1 a2, p2⟩
  | err e s1 =>
    obtain ⟨σ1, seg1, l1, a1, p1⟩ := h
    have h2 := he e σ1 s1 p1
    cases hr : k (.err e s1) with
    | oof => trivial
    | ok b s2 =>
      rw [hr] at h2; obtain ⟨σ2, seg2, l2, a2, p2⟩ := h2
      exact ⟨σ2, seg1 ++ seg2, by rw [l2, l1, List.append_assoc], A.trans a1 a2, p2⟩
    | err e s2 =>
      rw [hr] at h2; obtain ⟨σ2, seg2, l2, a2, p2⟩ := h2
      exact ⟨σ2, seg1 ++ seg2, by rw [l2, l1, List.append_assoc], A.trans a1 a2, p2⟩

/-- What has to be known about the trace items of ONE event (the event of context `x`) and about the interpreter
`sub` of re-entrant commands.  `Blk`: anywhere in the processing of the event before its finalize stage;
`Syn f`: after at least one of its callbacks has started (`f` = the finalize stage has begun).
Neither may depend on anything but the queue and the tag counter of the engine state (`…Frame`). -/
structure Block (A : Acc Z) (sub : NSub) (x : Ctx) where
  Blk : Z → NSt → Prop
  Syn : Bool → Z → NSt → Prop
  toBlk : ∀ {σ s}, Syn false σ s → Blk σ s
  blkFrame : ∀ {σ s s'}, Blk σ s → s'.queue = s.queue → s'.nextTag = s.nextTag → Blk σ s'
  synFrame : ∀ {f σ s s'}, Syn f σ s → s'.queue = s.queue → s'.nextTag = s.nextTag → Syn f σ s'
  /-- a callback of a stage before finalize starts -/
  callBlk : ∀ {σ s} (slot : Slot) (c st : Nat), slot ≠ .finalize → Blk σ s →
    ∃ σ1, A.adv σ [.call slot c x.model x.tag st] σ1 ∧ Syn false σ1 s
  done : ∀ σ c o, A.adv σ [.done c o] σ
  sub : ∀ (f : Bool) (c : Cmd) (σ : Z) (s : NSt), Syn f σ s → NPost A (Syn f) (Syn f) σ s.log (sub c s)

section Generic
variable {A : Acc Z} {sub : NSub} {x : Ctx} (B : Block A sub x) (sc : Script) (cfg : NCfg)

theorem nrunCmds_post (f : Bool) : ∀ (cmds : List Cmd) (σ : Z) (s : NSt), B.Syn f σ s →
    NPost A (B.Syn f) (B.Syn f) σ s.log (nrunCmds sub cmds s)
  | [], σ, s, hs => NPost.ok A () hs
  | c :: cs, σ, s, hs => by
    simp only [nrunCmds]
    exact NPost.bind (B.sub f c σ s hs) (fun _ σ1 s1 h1 => nrunCmds_post f cs σ1 s1 h1)

/-- one callback invocation, given how the acceptor takes its `call` item -/
theorem ninvoke_post (f : Bool) (slot : Slot) (c : Nat) (σ σ1 : Z) (s : NSt)
    (hcall : A.adv σ [.call slot c x.model x.tag (confMask cfg s.conf)] σ1) (h1 : B.Syn f σ1 s) :
    NPost A (B.Syn f) (B.Syn f) σ s.log (ninvoke sub sc cfg slot x c s) := by
  let s2 : NSt := ({ s with counts := aset c (s.count c + 1) s.counts }).emit
    (.call slot c x.model x.tag (confMask cfg s.conf))
  have hs2 : B.Syn f σ1 s2 := B.synFrame h1 rfl rfl
  have hr := nrunCmds_post B f (sc c (s.count c)).cmds σ1 s2 hs2
  have hl2 : s2.log = s.log ++ [.call slot c x.model x.tag (confMask cfg s.conf)] := rfl
  rw [hl2] at hr
  have hr' := NPost.pre hcall hr
  unfold ninvoke
  show NPost A _ _ σ s.log (match nrunCmds sub (sc c (s.count c)).cmds s2 with
    | .ok _ s3 => (match (sc c (s.count c)).out with
      | .ret b => .ok b (s3.emit (.done c (.ret b)))
      | .raise e => .err e (s3.emit (.done c (.raise e))))
    | .err e s3 => .err e (s3.emit (.done c (.raise e)))
    | .oof => .oof)
  cases hrc : nrunCmds sub (sc c (s.count c)).cmds s2 with
  | oof => trivial
  | ok u s3 =>
    rw [hrc] at hr'
    obtain ⟨σ3, seg, l3, a3, p3⟩ := hr'
    cases (sc c (s.count c)).out with
    | ret b =>
      exact ⟨σ3, seg ++ [.done c (.ret b)], by simp [NSt.emit, l3], A.trans a3 (B.done σ3 _ _), B.synFrame p3 rfl rfl⟩
    | raise e =>
      exact ⟨σ3, seg ++ [.done c (.raise e)], by simp [NSt.emit, l3], A.trans a3 (B.done σ3 _ _), B.synFrame p3 rfl rfl⟩
  | err e s3 =>
    rw [hrc] at hr'
    obtain ⟨σ3, seg, l3, a3, p3⟩ := hr'
    exact ⟨σ3, seg ++ [.done c (.raise e)], by simp [NSt.emit, l3], A.trans a3 (B.done σ3 _ _), B.synFrame p3 rfl rfl⟩

/-- callbacks of one list whose `call` items keep the acceptor in `Syn f` -/
theorem ncallbacks_syn (f : Bool) (slot : Slot) : ∀ (cbs : List Nat),
    (∀ c ∈ cbs, ∀ σ s st, B.Syn f σ s → ∃ σ1, A.adv σ [.call slot c x.model x.tag st] σ1 ∧ B.Syn f σ1 s) →
    ∀ (σ : Z) (s : NSt), B.Syn f σ s → NPost A (B.Syn f) (B.Syn f) σ s.log (ncallbacks sub sc cfg slot x cbs s)
  | [], _, σ, s, hs => NPost.ok A () hs
  | c :: cs, hall, σ, s, hs => by
    simp only [ncallbacks]
    obtain ⟨σ1, a1, h1⟩ := hall c (List.mem_cons_self ..) σ s (confMask cfg s.conf) hs
    exact NPost.bind (ninvoke_post B sc cfg f slot c σ σ1 s a1 h1)
      (fun _ σ2 s2 h2 => ncallbacks_syn f slot cs (fun c' hc' => hall c' (List.mem_cons_of_mem _ hc')) σ2 s2 h2)

/-- a callback of a stage before finalize, anywhere in the block -/
theorem ninvoke_blk (slot : Slot) (hslot : slot ≠ .finalize) (c : Nat) (σ : Z) (s : NSt) (hb : B.Blk σ s) :
    NPost A (B.Syn false) (B.Syn false) σ s.log (ninvoke sub sc cfg slot x c s) := by
  obtain ⟨σ1, a1, h1⟩ := B.callBlk slot c (confMask cfg s.conf) hslot hb
  exact ninvoke_post B sc cfg false slot c σ σ1 s a1 h1

theorem ncallbacks_blk (slot : Slot) (hslot : slot ≠ .finalize) : ∀ (cbs : List Nat) (σ : Z) (s : NSt), B.Blk σ s →
    NPost A B.Blk B.Blk σ s.log (ncallbacks sub sc cfg slot x cbs s)
  | [], σ, s, hb => NPost.ok A () hb
  | c :: cs, σ, s, hb => by
    simp only [ncallbacks]
    refine NPost.bind (P := B.Syn false) ?_ (fun _ σ1 s1 h1 => ncallbacks_blk slot hslot cs σ1 s1 (B.toBlk h1))
    exact (ninvoke_blk B sc cfg slot hslot c σ s hb).weaken (fun _ _ h => h) (fun _ _ h => B.toBlk h)

theorem nevalConds_blk : ∀ (cs : List Cond) (σ : Z) (s : NSt), B.Blk σ s →
    NPost A B.Blk B.Blk σ s.log (nevalConds sub sc cfg x cs s)
  | [], σ, s, hb => NPost.ok A true hb
  | c :: cs, σ, s, hb => by
    simp only [nevalConds]
    have hslot : (if c.target then Slot.condition else Slot.unless) ≠ Slot.finalize := by
      cases c.target <;> simp
    refine NPost.bind (P := B.Syn false) ?_ ?_
    · exact (ninvoke_blk B sc cfg _ hslot c.cb σ s hb).weaken (fun _ _ h => h) (fun _ _ h => B.toBlk h)
    · intro b σ1 s1 h1
      by_cases hbt : b = c.target
      · simp only [hbt, if_true]; exact nevalConds_blk cs σ1 s1 (B.toBlk h1)
      · simp only [hbt, if_false]; exact NPost.ok A false (B.toBlk h1)

theorem exitAll_blk : ∀ (fs : List Found) (σ : Z) (s : NSt), B.Blk σ s →
    NPost A B.Blk B.Blk σ s.log (exitAll sub sc cfg x fs s)
  | [], σ, s, hb => NPost.ok A () hb
  | f :: fs, σ, s, hb => by
    simp only [exitAll]
    have h0 : B.Blk σ (s.emitG (.exit f.path)) := B.blkFrame hb rfl rfl
    exact NPost.bind (ncallbacks_blk B sc cfg .onExit (by simp) f.d.onExit σ _ h0)
      (fun _ σ1 s1 h1 => exitAll_blk fs σ1 s1 h1)

theorem enterAll_blk : ∀ (fs : List Found) (σ : Z) (s : NSt), B.Blk σ s →
    NPost A B.Blk B.Blk σ s.log (enterAll sub sc cfg x fs s)
  | [], σ, s, hb => NPost.ok A () hb
  | f :: fs, σ, s, hb => by
    simp only [enterAll]
    have h0 : B.Blk σ (s.emitG (.enter f.path)) := B.blkFrame hb rfl rfl
    exact NPost.bind (ncallbacks_blk B sc cfg .onEnter (by simp) f.d.onEnter σ _ h0)
      (fun _ σ1 s1 h1 => enterAll_blk fs σ1 s1 h1)

theorem nchangeState_blk (scope : Scope) (dest : SPath) (σ : Z) (s : NSt) (hb : B.Blk σ s) :
    NPost A B.Blk B.Blk σ s.log (nchangeState sub sc cfg scope x dest s) := by
  unfold nchangeState
  cases resolveTransition cfg.root scope s.conf dest with
  | err e => exact NPost.err A e hb
  | oof => trivial
  | ok r =>
    have h0 : B.Blk σ { s with exited := s.exited ++ r.exitNames } := B.blkFrame hb rfl rfl
    refine NPost.bind (exitAll_blk B sc cfg r.exits σ _ h0) ?_
    intro _ σ1 s1 h1
    have h2 : B.Blk σ1 { s1 with conf := r.tree } := B.blkFrame h1 rfl rfl
    exact enterAll_blk B sc cfg r.enters σ1 _ h2

theorem nfinalStage_blk (scope : Scope) (dest : Option SPath) (conf0 : Forest) (σ : Z) (s : NSt) (hb : B.Blk σ s) :
    NPost A B.Blk B.Blk σ s.log (nfinalStage sub sc cfg scope x dest conf0 s) := by
  unfold nfinalStage
  cases dest with
  | none => exact NPost.ok A () hb
  | some d =>
    simp only []
    cases resolveTransition cfg.root scope conf0 d with
    | err e => exact NPost.ok A () hb
    | oof => exact NPost.ok A () hb
    | ok r =>
      simp only []
      cases nfinalCheckRoot cfg r.tree (r.enters.map (·.path)) with
      | ok cbs => exact ncallbacks_blk B sc cfg .onFinal (by simp) _ σ s hb
      | err e => exact NPost.err A e hb
      | oof => trivial

theorem nexecute_blk (scope : Scope) (tr : TRef) (t : NTrans) (σ : Z) (s : NSt) (hb : B.Blk σ s) :
    NPost A B.Blk B.Blk σ s.log (nexecute sub sc cfg scope x tr t s) := by
  unfold nexecute
  have h0 : B.Blk σ (s.emitG (.cand tr)) := B.blkFrame hb rfl rfl
  refine NPost.bind (ncallbacks_blk B sc cfg .prepare (by simp) _ σ _ h0) ?_
  intro _ σ1 s1 h1
  refine NPost.bind (nevalConds_blk B sc cfg _ σ1 s1 h1) ?_
  intro ok σ2 s2 h2
  cases ok with
  | false => exact NPost.ok A false h2
  | true =>
    simp only [Bool.not_true, Bool.false_eq_true, if_false]
    refine NPost.bind (ncallbacks_blk B sc cfg .beforeSC (by simp) _ σ2 s2 h2) ?_
    intro _ σ3 s3 h3
    have h3' : B.Blk σ3 (s3.emitG (.exec tr)) := B.blkFrame h3 rfl rfl
    refine NPost.bind (ncallbacks_blk B sc cfg .before (by simp) _ σ3 _ h3') ?_
    intro _ σ4 s4 h4
    refine NPost.bind (P := B.Blk) ?_ ?_
    · cases t.dest with
      | none => exact NPost.ok A () h4
      | some d => exact nchangeState_blk B sc cfg scope d σ4 s4 h4
    · intro _ σ5 s5 h5
      refine NPost.bind (nfinalStage_blk B sc cfg scope _ _ σ5 s5 h5) ?_
      intro _ σ5 s5 h5
      refine NPost.bind (ncallbacks_blk B sc cfg .after (by simp) _ σ5 s5 h5) ?_
      intro _ σ6 s6 h6
      refine NPost.bind (ncallbacks_blk B sc cfg .afterSC (by simp) _ σ6 s6 h6) ?_
      intro _ σ7 s7 h7
      exact NPost.ok A true h7

theorem ntry_blk (scope : Scope) : ∀ (cands : List (TRef × NTrans)) (σ : Z) (s : NSt), B.Blk σ s →
    NPost A B.Blk B.Blk σ s.log (ntry sub sc cfg scope x cands s)
  | [], σ, s, hb => NPost.ok A () hb
  | (tr, t) :: r, σ, s, hb => by
    unfold ntry
    refine NPost.bind (nexecute_blk B sc cfg scope tr t σ s hb) ?_
    intro b σ1 s1 h1
    have h1' : B.Blk σ1 { s1 with result := some b } := B.blkFrame h1 rfl rfl
    cases b with
    | true => exact NPost.ok A () h1'
    | false => exact ntry_blk scope r σ1 _ h1'

theorem nprocess_blk (scope : Scope) (cands : List (TRef × NTrans)) (σ : Z) (s : NSt) (hb : B.Blk σ s) :
    NPost A B.Blk B.Blk σ s.log (nprocess sub sc cfg scope x cands s) := by
  unfold nprocess
  exact NPost.bind (ncallbacks_blk B sc cfg .prepareEvent (by simp) _ σ s hb)
    (fun _ σ1 s1 h1 => ntry_blk B sc cfg scope cands σ1 s1 h1)

theorem tnLoop_blk (scope : Scope) (ev : Nat) (ts : List NTrans) : ∀ (ps done : List SPath) (σ : Z) (s : NSt),
    B.Blk σ s → NPost A B.Blk B.Blk σ s.log (tnLoop sub sc cfg scope x ev ts ps done s)
  | [], done, σ, s, hb => NPost.ok A done hb
  | p :: ps, done, σ, s, hb => by
    unfold tnLoop
    simp only []
    split
    · exact tnLoop_blk scope ev ts ps done σ s hb
    · split
      · exact NPost.err A _ hb
      · exact NPost.bind (nprocess_blk B sc cfg scope _ σ s hb)
          (fun _ σ1 s1 h1 => tnLoop_blk scope ev ts ps _ σ1 s1 h1)

theorem triggerNested_blk (scope : Scope) (ev : Nat) (ts : List NTrans) (σ : Z) (s : NSt) (hb : B.Blk σ s) :
    NPost A B.Blk B.Blk σ s.log (triggerNested sub sc cfg scope x ev ts s) := by
  unfold triggerNested
  split
  · exact NPost.err A _ hb
  · exact NPost.err A _ hb
  · split
    · trivial
    · refine NPost.bind (tnLoop_blk B sc cfg scope ev ts _ _ σ s hb) ?_
      intro done σ1 s1 h1
      split
      · exact NPost.ok A _ h1
      · exact NPost.ok A (s := { s1 with result := some true }) _ (B.blkFrame h1 rfl rfl)

theorem ten_blk (ev : Nat) : ∀ (tree : Forest) (scope : Scope) (res : List (Nat × Bool)) (offered : Bool)
    (σ : Z) (s : NSt), B.Blk σ s → NPost A B.Blk B.Blk σ s.log (ten sub sc cfg x ev scope tree res offered s) := by
  intro tree
  induction tree with
  | nil => intro scope res offered σ s hb; unfold ten; exact NPost.ok A res hb
  | cons key value rest ihv ihr =>
    intro scope res offered σ s hb
    unfold ten
    refine NPost.bind (P := B.Blk) ?_ ?_
    · split
      · exact NPost.ok A res hb
      · split
        · exact NPost.err A _ hb
        · rename_i inner he
          refine NPost.bind (ihv inner [] false σ s hb) ?_
          intro r σ1 s1 h1
          exact NPost.ok A _ h1
    · intro res1 σ1 s1 h1
      split
      · split
        · refine NPost.bind (triggerNested_blk B sc cfg scope ev _ σ1 s1 h1) ?_
          intro tmp σ2 s2 h2
          exact ihr scope _ true σ2 s2 h2
        · exact ihr scope res1 offered σ1 s1 h1
      · exact ihr scope res1 offered σ1 s1 h1

theorem checkEventResult_blk (res : Option Bool) (ev : Nat) (σ : Z) (s : NSt) (hb : B.Blk σ s) :
    NPost A B.Blk B.Blk σ s.log (checkEventResult cfg res ev s) := by
  unfold checkEventResult
  split
  · exact NPost.ok A _ hb
  · split
    · exact NPost.ok A _ hb
    · exact NPost.err A _ hb
    · trivial

theorem triggerEventBody_blk (ev : Nat) (σ : Z) (s : NSt) (hb : B.Blk σ s) :
    NPost A B.Blk B.Blk σ s.log (triggerEventBody sub sc cfg x ev s) := by
  unfold triggerEventBody
  refine NPost.bind (ten_blk B sc cfg ev s.conf cfg.root [] false σ s hb) ?_
  intro r σ1 s1 h1
  refine NPost.bind (checkEventResult_blk B cfg _ ev σ1 s1 h1) ?_
  intro b σ2 s2 h2
  exact NPost.ok A (s := { s2 with result := some b }) b (B.blkFrame h2 rfl rfl)

/-- the `try / except` part of `_trigger_event` -/
def tryExcept (sub : NSub) (sc : Script) (cfg : NCfg) (x : Ctx) (ev : Nat) (s : NSt) : NR Bool :=
  match triggerEventBody sub sc cfg x ev { s with result := none, exited := [] } with
  | .ok b s' => .ok b s'
  | .err e s' =>
    match cfg.onException with
    | [] => .err e s'
    | hs => (ncallbacks sub sc cfg .onException x hs s').bind fun _ s'' => .ok (s''.result.getD false) s''
  | .oof => .oof

theorem tryExcept_blk (ev : Nat) (σ : Z) (s : NSt) (hb : B.Blk σ s) :
    NPost A B.Blk B.Blk σ s.log (tryExcept sub sc cfg x ev s) := by
  have h0 : B.Blk σ { s with result := none, exited := [] } := B.blkFrame hb rfl rfl
  have hbody : NPost A B.Blk B.Blk σ s.log (triggerEventBody sub sc cfg x ev { s with result := none, exited := [] }) :=
    triggerEventBody_blk B sc cfg ev σ _ h0
  unfold tryExcept
  refine NPost.both (k := fun r => match r with
    | .ok b s' => .ok b s'
    | .err e s' =>
      match cfg.onException with
      | [] => .err e s'
      | hs => (ncallbacks sub sc cfg .onException x hs s').bind fun _ s'' => .ok (s''.result.getD false) s''
    | .oof => .oof) hbody rfl ?_ ?_
  · intro b σ1 s1 h1; exact NPost.ok A b h1
  · intro e σ1 s1 h1
    show NPost A B.Blk B.Blk σ1 s1.log (match cfg.onException with
      | [] => .err e s1
      | hs => (ncallbacks sub sc cfg .onException x hs s1).bind fun _ s'' => .ok (s''.result.getD false) s'')
    cases cfg.onException with
    | nil => exact NPost.err A e h1
    | cons h0 hs =>
      exact NPost.bind (ncallbacks_blk B sc cfg .onException (by simp) (h0 :: hs) σ1 s1 h1)
        (fun _ σ2 s2 h2 => NPost.ok A _ h2)

theorem ntriggerEvent_eq (ev : Nat) (s : NSt) :
    ntriggerEvent sub sc cfg x ev s =
      (match tryExcept sub sc cfg x ev s with
      | .ok b s' => (match nfinalize sub sc cfg x s' with
        | some s'' => .ok b s''
        | none => .oof)
      | .err e s' => (match nfinalize sub sc cfg x s' with
        | some s'' => .err e s''
        | none => .oof)
      | .oof => .oof) := rfl

/-- `_trigger_event`, given that the finalize callbacks take the acceptor from `Blk` to `Syn true` -/
theorem ntriggerEvent_post (ev : Nat)
    (hfin : ∀ σ s, B.Blk σ s → NPost A (B.Syn true) (B.Syn true) σ s.log
      (ncallbacks sub sc cfg .finalize x cfg.finalize s))
    (σ : Z) (s : NSt) (hb : B.Blk σ s) :
    NPost A (B.Syn true) (B.Syn true) σ s.log (ntriggerEvent sub sc cfg x ev s) := by
  rw [ntriggerEvent_eq]
  have hfz : ∀ (σ1 : Z) (s1 : NSt), B.Blk σ1 s1 →
      match nfinalize sub sc cfg x s1 with
      | none => True
      | some s2 => ∃ σ2 seg, s2.log = s1.log ++ seg ∧ A.adv σ1 seg σ2 ∧ B.Syn true σ2 s2 := by
    intro σ1 s1 h1
    have h := hfin σ1 (s1.emitG (.fin x.tag (confMask cfg s1.conf))) (B.blkFrame h1 rfl rfl)
    unfold nfinalize
    cases hr : ncallbacks sub sc cfg .finalize x cfg.finalize (s1.emitG (.fin x.tag (confMask cfg s1.conf))) with
    | oof => trivial
    | ok u s2 => rw [hr] at h; exact h
    | err e s2 => rw [hr] at h; exact h
  refine NPost.both (k := fun r => match r with
    | .ok b s' => (match nfinalize sub sc cfg x s' with | some s'' => .ok b s'' | none => .oof)
    | .err e s' => (match nfinalize sub sc cfg x s' with | some s'' => .err e s'' | none => .oof)
    | .oof => .oof) (tryExcept_blk B sc cfg ev σ s hb) rfl ?_ ?_
  · intro b σ1 s1 h1
    have := hfz σ1 s1 h1
    show NPost A _ _ σ1 s1.log (match nfinalize sub sc cfg x s1 with | some s'' => .ok b s'' | none => .oof)
    cases hr : nfinalize sub sc cfg x s1 with
    | none => trivial
    | some s2 => rw [hr] at this; exact this
  · intro e σ1 s1 h1
    have := hfz σ1 s1 h1
    show NPost A _ _ σ1 s1.log (match nfinalize sub sc cfg x s1 with | some s'' => .err e s'' | none => .oof)
    cases hr : nfinalize sub sc cfg x s1 with
    | none => trivial
    | some s2 => rw [hr] at this; exact this

end Generic

end N5
end TM
