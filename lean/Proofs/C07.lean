/-
  Proofs/C07.lean — helper lemmas for property C07: the async flat engine (`Model/Async.lean`)
  simulates the synchronous one (`Model/Core.lean`) up to the observation map `obsC07`.
-/
import Model.Spec.C07
import Proofs.C01

namespace TM
namespace C07
open Async

section
variable (cfg : Cfg) (sc : Script) (qm m0 : Nat)

/-- the simulation relation between an async engine state and a sync engine state -/
structure Sim (a b : St) : Prop where
  models : a.models = b.models
  mstate : a.mstate = b.mstate
  queue : a.queue = b.queue
  nextTag : a.nextTag = b.nextTag
  counts : ∀ c, ¬ Const sc c → a.count c = b.count c
  log : obsC07 cfg sc a.log = obsC07 cfg sc b.log
  qinv : qm = 2 → ∀ e ∈ a.queue, e.1 = m0

def RSim {α : Type} : R α → R α → Prop
  | .ok x a, .ok y b => x = y ∧ Sim cfg sc qm m0 a b
  | .err e a, .err f b => e = f ∧ Sim cfg sc qm m0 a b
  | .oof, .oof => True
  | _, _ => False

def SubSim (P : Cmd → Prop) (subA subS : Sub) : Prop :=
  ∀ c a b, P c → Sim cfg sc qm m0 a b → RSim cfg sc qm m0 (subA c a) (subS c b)

variable {cfg sc qm m0} {P : Cmd → Prop}

theorem Sim.refl (s : St) (h : qm = 2 → ∀ e ∈ s.queue, e.1 = m0) : Sim cfg sc qm m0 s s :=
  ⟨rfl, rfl, rfl, rfl, fun _ _ => rfl, rfl, h⟩

theorem obs_append (l1 l2 : List Item) : obsC07 cfg sc (l1 ++ l2) = obsC07 cfg sc l1 ++ obsC07 cfg sc l2 := by
  simp [obsC07]

theorem Sim.emit {a b : St} (h : Sim cfg sc qm m0 a b) (i : Item) : Sim cfg sc qm m0 (a.emit i) (b.emit i) :=
  ⟨h.models, h.mstate, h.queue, h.nextTag, h.counts, by simp [St.emit, obs_append, h.log], h.qinv⟩

theorem Sim.emitL {a b : St} (h : Sim cfg sc qm m0 a b) (i : Item) (hk : keep cfg sc i = false) :
    Sim cfg sc qm m0 (a.emit i) b :=
  ⟨h.models, h.mstate, h.queue, h.nextTag, h.counts, by have := h.log; simp only [obsC07] at this; simp [St.emit, obsC07, hk, this], h.qinv⟩

theorem Sim.emitR {a b : St} (h : Sim cfg sc qm m0 a b) (i : Item) (hk : keep cfg sc i = false) :
    Sim cfg sc qm m0 a (b.emit i) :=
  ⟨h.models, h.mstate, h.queue, h.nextTag, h.counts, by have := h.log; simp only [obsC07] at this; simp [St.emit, obsC07, hk, this], h.qinv⟩

theorem Sim.stateOf {a b : St} (h : Sim cfg sc qm m0 a b) (m : Nat) : a.stateOf m = b.stateOf m := by
  simp [St.stateOf, h.mstate]

theorem Sim.setState {a b : St} (h : Sim cfg sc qm m0 a b) (m st : Nat) :
    Sim cfg sc qm m0 (a.setState m st) (b.setState m st) :=
  ⟨h.models, by simp [St.setState, h.mstate], h.queue, h.nextTag, h.counts, h.log, h.qinv⟩

theorem count_bump (s : St) (c v c' : Nat) :
    ({ s with counts := aset c v s.counts } : St).count c' = if c' = c then v else s.count c' := by
  by_cases hc : c' = c
  · subst hc; simp [St.count, alookup_aset_self]
  · simp [St.count, alookup_aset_ne _ _ _ hc, hc]

theorem Sim.act {a b : St} (h : Sim cfg sc qm m0 a b) (c : Nat) : sc c (a.count c) = sc c (b.count c) := by
  by_cases hc : Const sc c
  · exact hc _ _
  · rw [h.counts c hc]

theorem Sim.bump {a b : St} (h : Sim cfg sc qm m0 a b) (c : Nat) :
    Sim cfg sc qm m0 { a with counts := aset c (a.count c + 1) a.counts }
      { b with counts := aset c (b.count c + 1) b.counts } :=
  ⟨h.models, h.mstate, h.queue, h.nextTag, by
    intro c' hc'
    rw [count_bump, count_bump]
    by_cases e : c' = c
    · subst e; simp [h.counts c' hc']
    · simp [e, h.counts c' hc'], h.log, h.qinv⟩

theorem Sim.bumpL {a b : St} (h : Sim cfg sc qm m0 a b) (c v : Nat) (hc : Const sc c) :
    Sim cfg sc qm m0 { a with counts := aset c v a.counts } b :=
  ⟨h.models, h.mstate, h.queue, h.nextTag, by
    intro c' hc'
    rw [count_bump]
    by_cases e : c' = c
    · subst e; exact absurd hc hc'
    · simp [e, h.counts c' hc'], h.log, h.qinv⟩

theorem RSim.bind {α β : Type} {ra rb : R α} {f g : α → St → R β} (h : RSim cfg sc qm m0 ra rb)
    (hf : ∀ x a b, Sim cfg sc qm m0 a b → RSim cfg sc qm m0 (f x a) (g x b)) :
    RSim cfg sc qm m0 (ra.bind f) (rb.bind g) := by
  cases ra <;> cases rb <;> simp only [RSim] at h <;> try exact h.elim
  · obtain ⟨rfl, hs⟩ := h; exact hf _ _ _ hs
  · exact h
  · trivial

theorem RSim.map {α β : Type} {ra rb : R α} (f : α → β) (h : RSim cfg sc qm m0 ra rb) :
    RSim cfg sc qm m0 (ra.map f) (rb.map f) := by
  cases ra <;> cases rb <;> simp only [RSim] at h <;> try exact h.elim
  · obtain ⟨rfl, hs⟩ := h; exact ⟨rfl, hs⟩
  · exact h
  · trivial

theorem runCmds_sim {subA subS : Sub} (hsub : SubSim cfg sc qm m0 P subA subS) :
    ∀ (cmds : List Cmd) (a b : St), (∀ c ∈ cmds, P c) → Sim cfg sc qm m0 a b →
      RSim cfg sc qm m0 (runCmds subA cmds a) (runCmds subS cmds b)
  | [], a, b, _, h => ⟨rfl, h⟩
  | c :: cs, a, b, hc, h => by
    simp only [runCmds]
    exact RSim.bind (hsub c a b (hc c (List.mem_cons_self ..)) h) fun _ a' b' h' =>
      runCmds_sim hsub cs a' b' (fun c' hc' => hc c' (List.mem_cons_of_mem _ hc')) h'


/-! ### one callable: phase 1 of the async engine against `Machine.callback` -/

theorem keep_done (c : Nat) (o : Out) : keep cfg sc (.done c o) = false := rfl

/-- `start` (async) related to `invoke` (sync) -/
def StartRel (r : Option (Entry × St)) (q : R Bool) : Prop :=
  match r, q with
  | none, .oof => True
  | some (e, a'), .ok v b' => e.out = .ret v ∧ Sim cfg sc qm m0 a' b'
  | some (e, a'), .err x b' => e.out = .raise x ∧ Sim cfg sc qm m0 a' b'
  | _, _ => False

theorem start_invoke {subA subS : Sub} (hsub : SubSim cfg sc qm m0 P subA subS) (hsc : ∀ c k, ∀ cmd ∈ (sc c k).cmds, P cmd)
    (kd : Kinds) (x : Ctx) (j : Job) (a b : St) (h : Sim cfg sc qm m0 a b) :
    StartRel (cfg := cfg) (sc := sc) (qm := qm) (m0 := m0)
      (start subA sc kd x j a) (invoke subS sc j.slot x j.cb b) := by
  have hact := h.act j.cb
  have h2 : Sim cfg sc qm m0
      (({ a with counts := aset j.cb (a.count j.cb + 1) a.counts } : St).emit
        (.call j.slot j.cb x.model x.tag (({ a with counts := aset j.cb (a.count j.cb + 1) a.counts } : St).stateOf x.model)))
      (({ b with counts := aset j.cb (b.count j.cb + 1) b.counts } : St).emit
        (.call j.slot j.cb x.model x.tag (({ b with counts := aset j.cb (b.count j.cb + 1) b.counts } : St).stateOf x.model))) := by
    have hb := h.bump j.cb
    rw [hb.stateOf x.model]
    exact hb.emit _
  have hr := runCmds_sim hsub (sc j.cb (b.count j.cb)).cmds _ _ (hsc _ _) h2
  unfold start invoke
  simp only [hact]
  revert hr
  generalize runCmds subA (sc j.cb (b.count j.cb)).cmds _ = ra
  generalize runCmds subS (sc j.cb (b.count j.cb)).cmds _ = rb
  intro hr
  cases ra <;> cases rb <;> simp only [RSim] at hr <;> try exact hr.elim
  · obtain ⟨_, hs⟩ := hr
    cases ho : (sc j.cb (b.count j.cb)).out with
    | ret v =>
      by_cases hk : 2 ≤ kd j.cb
      · simp only [hk, if_true, StartRel]; exact ⟨trivial, hs.emitR _ (keep_done _ _)⟩
      · simp only [hk, if_false, StartRel]; exact ⟨trivial, (hs.emitL _ (keep_done _ _)).emitR _ (keep_done _ _)⟩
    | raise e =>
      by_cases hk : 2 ≤ kd j.cb
      · simp only [hk, if_true, StartRel]; exact ⟨trivial, hs.emitR _ (keep_done _ _)⟩
      · simp only [hk, if_false, StartRel]; exact ⟨trivial, (hs.emitL _ (keep_done _ _)).emitR _ (keep_done _ _)⟩
  · obtain ⟨rfl, hs⟩ := hr
    simp only [StartRel]
    exact ⟨trivial, (hs.emitL _ (keep_done _ _)).emitR _ (keep_done _ _)⟩
  · trivial

theorem start_meta {sub : Sub} {kd : Kinds} {x : Ctx} {j : Job} {a a' : St} {e : Entry}
    (h : start sub sc kd x j a = some (e, a')) : e.cb = j.cb ∧ e.target = j.target := by
  unfold start at h
  simp only [] at h
  generalize runCmds sub _ _ = r at h
  cases r with
  | ok u s3 =>
    simp only [] at h
    split at h <;> (simp only [Option.some.injEq, Prod.mk.injEq] at h; obtain ⟨rfl, _⟩ := h; exact ⟨rfl, rfl⟩)
  | err ex s3 => simp only [Option.some.injEq, Prod.mk.injEq] at h; obtain ⟨rfl, _⟩ := h; exact ⟨rfl, rfl⟩
  | oof => simp at h

/-- a quiet callable finishes with the value its script says -/
theorem start_quiet {sub : Sub} {kd : Kinds} {x : Ctx} {j : Job} {a a' : St} {e : Entry}
    (hq : Quiet (sc j.cb (a.count j.cb))) (h : start sub sc kd x j a = some (e, a')) :
    e.out = (sc j.cb (a.count j.cb)).out ∧ e.exc? = none := by
  obtain ⟨hc, v, hv⟩ := hq
  unfold start at h
  simp only [hc, runCmds] at h
  split at h <;> (simp only [Option.some.injEq, Prod.mk.injEq] at h; obtain ⟨rfl, _⟩ := h; simp [Entry.exc?, hv])

theorem finishAll_sim : ∀ (es : List Entry) (a b : St), Sim cfg sc qm m0 a b → Sim cfg sc qm m0 (finishAll es a) b
  | [], _, _, h => h
  | e :: es, a, b, h => by
    simp only [finishAll]
    split
    · exact finishAll_sim es _ _ (h.emitL _ (keep_done _ _))
    · exact finishAll_sim es _ _ h

theorem firstExc_none {es : List Entry} (h : ∀ e ∈ es, e.exc? = none) : firstExc es = none := by
  have h1 : (es.filter fun e => !e.pending).findSome? Entry.exc? = none :=
    List.findSome?_eq_none_iff.mpr fun e he => h e (List.mem_filter.mp he).1
  have h2 : (es.filter fun e => e.pending && !e.late).findSome? Entry.exc? = none :=
    List.findSome?_eq_none_iff.mpr fun e he => h e (List.mem_filter.mp he).1
  have h3 : (es.filter fun e => e.pending && e.late).findSome? Entry.exc? = none :=
    List.findSome?_eq_none_iff.mpr fun e he => h e (List.mem_filter.mp he).1
  simp [firstExc, h1, h2, h3]

theorem firstExc_single (e : Entry) : firstExc [e] = e.exc? := by
  cases hp : e.pending <;> cases hl : e.late <;> cases he : e.exc? <;>
    simp [firstExc, List.filter, hp, hl, List.findSome?, he]

theorem gather_nil (sub : Sub) (kd : Kinds) (x : Ctx) (a : St) : gather sub sc kd x [] a = .ok [] a := by
  simp [gather, startAll, finishAll, firstExc]

theorem gather_single (sub : Sub) (kd : Kinds) (x : Ctx) (j : Job) (a : St) :
    gather sub sc kd x [j] a =
      match start sub sc kd x j a with
      | none => .oof
      | some (e, a1) =>
        match e.exc? with
        | some ex => .err ex (finishAll [e] a1)
        | none => .ok [e.value] (finishAll [e] a1) := by
  unfold gather
  simp only [startAll]
  cases start sub sc kd x j a with
  | none => rfl
  | some p =>
    obtain ⟨e, a1⟩ := p
    simp only [firstExc_single]
    cases e.exc? <;> rfl


/-! ### one stage -/

section stage
variable {subA subS : Sub} (hsub : SubSim cfg sc qm m0 P subA subS) (hsc : ∀ c k, ∀ cmd ∈ (sc c k).cmds, P cmd) (kd : Kinds) (x : Ctx)
include hsub hsc

/-- a singleton stage: `gather` of one callable is that callable -/
theorem single_sim (j : Job) (a b : St) (h : Sim cfg sc qm m0 a b) :
    match gather subA sc kd x [j] a, invoke subS sc j.slot x j.cb b with
    | .ok vs a', .ok v b' => vs = [match j.target with | some t => v == t | none => true] ∧ Sim cfg sc qm m0 a' b'
    | .err e a', .err f b' => e = f ∧ Sim cfg sc qm m0 a' b'
    | .oof, .oof => True
    | _, _ => False := by
  have hs := start_invoke hsub hsc kd x j a b h
  rw [gather_single]
  cases hst : start subA sc kd x j a with
  | none =>
    rw [hst] at hs
    cases hi : invoke subS sc j.slot x j.cb b <;> simp only [hi, StartRel] at hs <;> trivial
  | some p =>
    obtain ⟨e, a1⟩ := p
    rw [hst] at hs
    obtain ⟨_, htg⟩ := start_meta hst
    cases hi : invoke subS sc j.slot x j.cb b with
    | ok v b' =>
      simp only [hi, StartRel] at hs
      obtain ⟨ho, hs⟩ := hs
      simp only [Entry.exc?, ho]
      refine ⟨?_, finishAll_sim _ _ _ hs⟩
      simp only [Entry.value, ho, htg]
      cases j.target <;> rfl
    | err f b' =>
      simp only [hi, StartRel] at hs
      obtain ⟨ho, hs⟩ := hs
      simp only [Entry.exc?, ho]
      exact ⟨trivial, finishAll_sim _ _ _ hs⟩
    | oof => simp only [hi, StartRel] at hs

/-- a stage of quiet callbacks: all started in order, all finish, nothing raises -/
theorem startAll_quiet (slot : Slot) : ∀ (cs : List Nat) (a b : St), (∀ c ∈ cs, ∀ k, Quiet (sc c k)) →
    Sim cfg sc qm m0 a b →
    ∃ es a' b', startAll subA sc kd x (cs.map fun c => { slot := slot, cb := c }) a = some (es, a') ∧
      TM.callbacks subS sc slot x cs b = .ok () b' ∧ Sim cfg sc qm m0 a' b' ∧ ∀ e ∈ es, e.exc? = none
  | [], a, b, _, h => ⟨[], a, b, rfl, rfl, h, by simp⟩
  | c :: cs, a, b, hq, h => by
    have hs := start_invoke hsub hsc kd x { slot := slot, cb := c } a b h
    simp only [List.map_cons, startAll, TM.callbacks]
    cases hst : start subA sc kd x { slot := slot, cb := c } a with
    | none =>
      -- impossible: a quiet callable runs no command
      exfalso
      have ⟨hc, _⟩ := hq c (List.mem_cons_self ..) (a.count c)
      unfold start at hst
      simp only [hc, runCmds] at hst
      split at hst <;> simp at hst
    | some p =>
      obtain ⟨e, a1⟩ := p
      rw [hst] at hs
      have ⟨ho, hx⟩ := start_quiet (sc := sc) (hq c (List.mem_cons_self ..) (a.count c)) hst
      cases hi : invoke subS sc slot x c b with
      | ok v b1 =>
        simp only [hi, StartRel] at hs
        obtain ⟨es, a', b', h1, h2, h3, h4⟩ := startAll_quiet slot cs a1 b1
          (fun c' hc' => hq c' (List.mem_cons_of_mem _ hc')) hs.2
        refine ⟨e :: es, a', b', by simp [h1], by simpa [Res.bind] using h2, h3, ?_⟩
        intro e' he'
        rcases List.mem_cons.mp he' with rfl | he'
        · exact hx
        · exact h4 _ he'
      | err f b1 =>
        simp only [hi, StartRel] at hs
        simp [Entry.exc?, hs.1] at hx
      | oof => simp only [hi, StartRel] at hs

theorem callbacks_sim (slot : Slot) (cs : List Nat) (hst : StageOK sc cs) (a b : St) (h : Sim cfg sc qm m0 a b) :
    RSim cfg sc qm m0 (Async.callbacks subA sc kd slot x cs a) (TM.callbacks subS sc slot x cs b) := by
  have quiet : (∀ c ∈ cs, ∀ k, Quiet (sc c k)) →
      RSim cfg sc qm m0 (Async.callbacks subA sc kd slot x cs a) (TM.callbacks subS sc slot x cs b) := by
    intro hq
    obtain ⟨es, a', b', h1, h2, h3, h4⟩ := startAll_quiet hsub hsc kd x slot cs a b hq h
    simp only [Async.callbacks, gather, h1, firstExc_none h4, h2, Res.map, RSim]
    exact ⟨trivial, finishAll_sim _ _ _ h3⟩
  rcases hst with hl | hq
  · match cs, hl with
    | [], _ => exact quiet (by simp)
    | [c], _ =>
      have := single_sim hsub hsc kd x { slot := slot, cb := c } a b h
      simp only [Async.callbacks, List.map, TM.callbacks]
      revert this
      cases gather subA sc kd x [{ slot := slot, cb := c }] a <;> cases invoke subS sc slot x c b <;>
        simp only [Res.map, Res.bind, RSim] <;> intro this <;> first | exact this.elim | exact ⟨trivial, this.2⟩ | exact this | trivial
    | _ :: _ :: _, hl => simp at hl
  · exact quiet hq

end stage


/-! ### the conditions of one candidate -/

theorem condJob_slot (cd : Cond) : isCondSlot (condJob cd).slot = true := by
  unfold condJob; cases cd.target <;> rfl

/-- conditions that a synchronous machine would not evaluate: started and finished by `gather`,
invisible to `obsC07` -/
theorem startAll_dead (subA : Sub) (kd : Kinds) (x : Ctx) : ∀ (r : List Cond) (a b : St),
    (∀ cd ∈ r, Const sc cd.cb ∧ (∀ k, Quiet (sc cd.cb k)) ∧ dead cfg sc cd.cb = true) → Sim cfg sc qm m0 a b →
    ∃ es a', startAll subA sc kd x (r.map condJob) a = some (es, a') ∧ Sim cfg sc qm m0 a' b ∧
      ∀ e ∈ es, e.exc? = none
  | [], a, b, _, h => ⟨[], a, rfl, h, by simp⟩
  | cd :: r, a, b, hd, h => by
    obtain ⟨hconst, hq, hdead⟩ := hd cd (List.mem_cons_self ..)
    obtain ⟨hc, v, hv⟩ := hq (a.count cd.cb)
    have hkeep : ∀ m t st, keep cfg sc (.call (condJob cd).slot cd.cb m t st) = false := by
      intro m t st; simp [keep, condJob_slot, hdead]
    have hcb : (condJob cd).cb = cd.cb := rfl
    simp only [List.map_cons, startAll]
    unfold start
    simp only [hcb, hc, runCmds]
    have hS := (h.bumpL cd.cb (a.count cd.cb + 1) hconst).emitL
      (.call (condJob cd).slot cd.cb x.model x.tag
        (({ a with counts := aset cd.cb (a.count cd.cb + 1) a.counts } : St).stateOf x.model)) (hkeep _ _ _)
    by_cases hk : 2 ≤ kd cd.cb
    · simp only [hk, if_true]
      obtain ⟨es, a', h1, h2, h3⟩ := startAll_dead subA kd x r _ b
        (fun c' hc' => hd c' (List.mem_cons_of_mem _ hc')) hS
      refine ⟨_ :: es, a', by simp only [h1]; rfl, h2, ?_⟩
      intro e he
      rcases List.mem_cons.mp he with rfl | he
      · simp [Entry.exc?, hv]
      · exact h3 _ he
    · simp only [hk, if_false]
      obtain ⟨es, a', h1, h2, h3⟩ := startAll_dead subA kd x r _ b
        (fun c' hc' => hd c' (List.mem_cons_of_mem _ hc'))
        (hS.emitL (.done cd.cb (sc cd.cb (a.count cd.cb)).out) (keep_done _ _))
      refine ⟨_ :: es, a', by simp only [h1]; rfl, h2, ?_⟩
      intro e he
      rcases List.mem_cons.mp he with rfl | he
      · simp [Entry.exc?, hv]
      · exact h3 _ he

section conds
variable {subA subS : Sub} (hsub : SubSim cfg sc qm m0 P subA subS) (hsc : ∀ c k, ∀ cmd ∈ (sc c k).cmds, P cmd) (kd : Kinds) (x : Ctx)
include hsub hsc

theorem startAll_conds : ∀ (conds : List Cond) (a b : St),
    (∀ cd ∈ conds, Const sc cd.cb ∧ ∀ k, Quiet (sc cd.cb k)) →
    (∀ cd ∈ afterFail sc conds, dead cfg sc cd.cb = true) → Sim cfg sc qm m0 a b →
    ∃ es a' b' v, startAll subA sc kd x (conds.map condJob) a = some (es, a') ∧
      TM.evalConds subS sc x conds b = .ok v b' ∧ Sim cfg sc qm m0 a' b' ∧ (∀ e ∈ es, e.exc? = none) ∧
      (es.map Entry.value).all id = v
  | [], a, b, _, _, h => ⟨[], a, b, true, rfl, rfl, h, by simp, rfl⟩
  | cd :: r, a, b, hq, hd, h => by
    obtain ⟨hconst, hquiet⟩ := hq cd (List.mem_cons_self ..)
    have hs := start_invoke hsub hsc kd x (condJob cd) a b h
    have hslot : (condJob cd).slot = (if cd.target then Slot.condition else Slot.unless) := rfl
    have hcb : (condJob cd).cb = cd.cb := rfl
    rw [hslot, hcb] at hs
    simp only [List.map_cons, startAll, TM.evalConds]
    cases hst : start subA sc kd x (condJob cd) a with
    | none =>
      exfalso
      have ⟨hc, _⟩ := hquiet (a.count cd.cb)
      unfold start at hst
      simp only [hcb, hc, runCmds] at hst
      split at hst <;> simp at hst
    | some p =>
      obtain ⟨e, a1⟩ := p
      rw [hst] at hs
      have ⟨ho, hx⟩ := start_quiet (sc := sc) (j := condJob cd) (hquiet (a.count cd.cb)) hst
      have ⟨_, htg⟩ := start_meta hst
      rw [hcb, hconst (a.count cd.cb) 0] at ho
      cases hi : invoke subS sc (if cd.target then Slot.condition else Slot.unless) x cd.cb b with
      | ok w b1 =>
        simp only [hi, StartRel] at hs
        obtain ⟨how, hs1⟩ := hs
        have hval : e.value = (w == cd.target) := by simp [Entry.value, how, htg, condJob]
        simp only [Res.bind]
        by_cases hw : w = cd.target
        · have hnf : condFails sc cd = false := by
            simp [condFails, ← ho, how, hw]
          obtain ⟨es, a', b', v, h1, h2, h3, h4, h5⟩ := startAll_conds r a1 b1
            (fun c' hc' => hq c' (List.mem_cons_of_mem _ hc'))
            (by simpa [afterFail, hnf] using hd) hs1
          refine ⟨e :: es, a', b', v, by simp only [h1], by simp only [hw, if_true]; exact h2, h3, ?_, ?_⟩
          · intro e' he'
            rcases List.mem_cons.mp he' with rfl | he'
            · exact hx
            · exact h4 _ he'
          · simp only [List.map_cons, List.all_cons, hval, hw, beq_self_eq_true, id, Bool.true_and]
            exact h5
        · have hf : condFails sc cd = true := by
            simp [condFails, ← ho, how, hw]
          have hdr : ∀ c' ∈ r, dead cfg sc c'.cb = true := by simpa [afterFail, hf] using hd
          obtain ⟨es, a', h1, h2, h3⟩ := startAll_dead (cfg := cfg) (sc := sc) (qm := qm) (m0 := m0) subA kd x r a1 b1
            (fun c' hc' => ⟨(hq c' (List.mem_cons_of_mem _ hc')).1, (hq c' (List.mem_cons_of_mem _ hc')).2, hdr c' hc'⟩) hs1
          refine ⟨e :: es, a', b1, false, by simp only [h1], by simp only [hw, if_false], h2, ?_, ?_⟩
          · intro e' he'
            rcases List.mem_cons.mp he' with rfl | he'
            · exact hx
            · exact h3 _ he'
          · simp [hval, hw]
      | err f b1 =>
        simp only [hi, StartRel] at hs
        simp [Entry.exc?, hs.1] at hx
      | oof => simp only [hi, StartRel] at hs

theorem evalConds_sim (conds : List Cond) (hco : CondsOK sc conds)
    (hd : ∀ cd ∈ afterFail sc conds, dead cfg sc cd.cb = true) (a b : St) (h : Sim cfg sc qm m0 a b) :
    RSim cfg sc qm m0 (Async.evalConds subA sc kd x conds a) (TM.evalConds subS sc x conds b) := by
  have quiet : (∀ cd ∈ conds, Const sc cd.cb ∧ ∀ k, Quiet (sc cd.cb k)) →
      RSim cfg sc qm m0 (Async.evalConds subA sc kd x conds a) (TM.evalConds subS sc x conds b) := by
    intro hq
    obtain ⟨es, a', b', v, h1, h2, h3, h4, h5⟩ := startAll_conds hsub hsc kd x conds a b hq hd h
    simp only [Async.evalConds, gather, h1, firstExc_none h4, h2, Res.map, RSim]
    exact ⟨h5, finishAll_sim _ _ _ h3⟩
  rcases hco with hl | hq
  · match conds, hl with
    | [], _ => exact quiet (by simp)
    | [cd], _ =>
      have := single_sim hsub hsc kd x (condJob cd) a b h
      have hslot : (condJob cd).slot = (if cd.target then Slot.condition else Slot.unless) := rfl
      have hcb : (condJob cd).cb = cd.cb := rfl
      have htg : (condJob cd).target = some cd.target := rfl
      rw [hslot, hcb, htg] at this
      simp only [Async.evalConds, List.map, TM.evalConds]
      revert this
      cases gather subA sc kd x [condJob cd] a <;>
        cases invoke subS sc (if cd.target then Slot.condition else Slot.unless) x cd.cb b <;>
        simp only [Res.map, Res.bind, RSim] <;> intro this <;> try (first | exact this.elim | exact this | trivial)
      obtain ⟨rfl, hs⟩ := this
      rename_i w _
      by_cases hw : w = cd.target <;> simp [hw, hs]
    | _ :: _ :: _, hl => simp at hl
  · exact quiet hq

end conds


/-! ### the engine, function by function -/

/-- what `WellStaged` gives for one transition of the configuration -/
def TOK (cfg : Cfg) (sc : Script) (t : Trans) : Prop :=
  TransStaged sc t ∧ ∀ cd ∈ afterFail sc t.conds, dead cfg sc cd.cb = true

theorem alookup_mem {β : Type} {k : Nat} {v : β} : ∀ {l : List (Nat × β)}, alookup k l = some v → (k, v) ∈ l
  | [], h => by simp [alookup] at h
  | (k', v') :: r, h => by
    simp only [alookup] at h
    split at h
    · rename_i hk; cases h; subst hk; exact List.mem_cons_self ..
    · exact List.mem_cons_of_mem _ (alookup_mem h)

theorem tok_of_event (hW : WellStaged cfg sc) {ev : Nat} {ts : List Trans} (h : cfg.event? ev = some ts) :
    ∀ t ∈ ts, TOK cfg sc t := by
  intro t ht
  have hm := alookup_mem (l := cfg.events) h
  refine ⟨hW.trans _ hm t ht, ?_⟩
  intro cd hcd
  simp only [dead, List.any_eq_true]
  exact ⟨_, hm, t, ht, cd, hcd, by simp⟩

theorem tok_getD (hW : WellStaged cfg sc) (ev : Nat) : ∀ t ∈ (cfg.event? ev).getD [], TOK cfg sc t := by
  cases h : cfg.event? ev with
  | none => simp
  | some ts => simpa using tok_of_event hW h

theorem state_mem {n : Nat} {d : StateDef} (h : cfg.state? n = some d) : d ∈ cfg.states := by
  unfold Cfg.state? at h
  exact List.mem_of_find?_eq_some h

section engine
variable {subA subS : Sub} (hsub : SubSim cfg sc qm m0 P subA subS) (hsc : ∀ c k, ∀ cmd ∈ (sc c k).cmds, P cmd)
  (hW : WellStaged cfg sc) (kd : Kinds) (x : Ctx)
include hsub hsc hW

theorem changeState_sim (t : Trans) (dst : Nat) (a b : St) (h : Sim cfg sc qm m0 a b) :
    RSim cfg sc qm m0 (Async.changeState subA sc kd cfg x t dst a) (TM.changeState subS sc cfg x t dst b) := by
  unfold Async.changeState TM.changeState
  have hst : a.stateOf x.model = b.stateOf x.model := by simp [St.stateOf, h.mstate]
  rw [hst]
  cases hs : cfg.state? (b.stateOf x.model) with
  | none => exact ⟨rfl, h⟩
  | some src =>
    simp only []
    refine RSim.bind (callbacks_sim hsub hsc kd x .onExit _ (hW.states _ (state_mem hs)).2 a b h) ?_
    intro _ a1 b1 h1
    cases hd : cfg.state? dst with
    | none => exact ⟨rfl, h1⟩
    | some d =>
      simp only []
      refine RSim.bind (callbacks_sim hsub hsc kd x .onEnter _ (hW.states _ (state_mem hd)).1 _ _ (h1.setState _ _)) ?_
      intro _ a2 b2 h2
      split
      · exact callbacks_sim hsub hsc kd x .onFinal _ hW.onFinal a2 b2 h2
      · exact ⟨rfl, h2⟩

theorem execute_sim (t : Trans) (ht : TOK cfg sc t) (a b : St) (h : Sim cfg sc qm m0 a b) :
    RSim cfg sc qm m0 (Async.execute subA sc kd cfg x t a) (TM.execute subS sc cfg x t b) := by
  obtain ⟨⟨hp, hc, hb, ha⟩, hd⟩ := ht
  unfold Async.execute TM.execute
  refine RSim.bind (callbacks_sim hsub hsc kd x .prepare _ hp a b h) ?_
  intro _ a1 b1 h1
  refine RSim.bind (evalConds_sim hsub hsc kd x _ hc hd a1 b1 h1) ?_
  intro ok a2 b2 h2
  cases ok with
  | false => exact ⟨rfl, h2⟩
  | true =>
    simp only [Bool.not_true, Bool.false_eq_true, if_false]
    refine RSim.bind (callbacks_sim hsub hsc kd x .beforeSC _ hW.beforeSC a2 b2 h2) ?_
    intro _ a3 b3 h3
    refine RSim.bind (callbacks_sim hsub hsc kd x .before _ hb a3 b3 h3) ?_
    intro _ a4 b4 h4
    refine RSim.bind (ra := match t.dest with
        | some d => Async.changeState subA sc kd cfg x t d a4 | none => .ok () a4)
      (rb := match t.dest with
        | some d => TM.changeState subS sc cfg x t d b4 | none => .ok () b4) ?_ ?_
    · cases t.dest with
      | none => exact ⟨rfl, h4⟩
      | some d => exact changeState_sim hsub hsc hW kd x t d a4 b4 h4
    intro _ a5 b5 h5
    refine RSim.bind (callbacks_sim hsub hsc kd x .after _ ha a5 b5 h5) ?_
    intro _ a6 b6 h6
    refine RSim.bind (callbacks_sim hsub hsc kd x .afterSC _ hW.afterSC a6 b6 h6) ?_
    intro _ a7 b7 h7
    exact ⟨rfl, h7⟩

theorem tryTransitions_sim : ∀ (ts : List Trans), (∀ t ∈ ts, TOK cfg sc t) → ∀ (a b : St), Sim cfg sc qm m0 a b →
    RSim cfg sc qm m0 (Async.tryTransitions subA sc kd cfg x ts a) (TM.tryTransitions subS sc cfg x ts b)
  | [], _, a, b, h => ⟨rfl, h⟩
  | t :: ts, ht, a, b, h => by
    simp only [Async.tryTransitions, TM.tryTransitions]
    refine RSim.bind (execute_sim hsub hsc hW kd x t (ht t (List.mem_cons_self ..)) a b h) ?_
    intro ok a1 b1 h1
    cases ok with
    | true => exact ⟨rfl, h1⟩
    | false =>
      simp only [Bool.false_eq_true, if_false]
      exact tryTransitions_sim ts (fun t' ht' => ht t' (List.mem_cons_of_mem _ ht')) a1 b1 h1

theorem except_sim {ra rb : R Bool} (h : RSim cfg sc qm m0 ra rb) :
    RSim cfg sc qm m0 (Async.exceptClause subA sc kd cfg x ra) (TM.exceptClause subS sc cfg x rb) := by
  cases ra <;> cases rb <;> simp only [RSim] at h <;> try exact h.elim
  · exact h
  · obtain ⟨rfl, h1⟩ := h
    simp only [Async.exceptClause, TM.exceptClause]
    have hx := hW.onException
    cases hoe : cfg.onException with
    | nil => exact ⟨rfl, h1⟩
    | cons c cs =>
      simp only []
      rw [hoe] at hx
      exact RSim.bind (callbacks_sim hsub hsc kd x .onException _ hx _ _ h1) fun _ _ _ h2 => ⟨rfl, h2⟩
  · trivial

theorem finally_sim {ra rb : R Bool} (h : RSim cfg sc qm m0 ra rb) :
    RSim cfg sc qm m0 (Async.finallyClause subA sc kd cfg x ra) (TM.finallyClause subS sc cfg x rb) := by
  cases ra <;> cases rb <;> simp only [RSim] at h <;> try exact h.elim
  · obtain ⟨rfl, h1⟩ := h
    have hf := callbacks_sim hsub hsc kd x .finalize _ hW.finalize _ _ h1
    simp only [Async.finallyClause, TM.finallyClause, runFinalize]
    revert hf
    generalize Async.callbacks subA sc kd .finalize x cfg.finalize _ = fa
    generalize TM.callbacks subS sc .finalize x cfg.finalize _ = fb
    intro hf
    cases fa <;> cases fb <;> simp only [RSim] at hf <;> first | exact hf.elim | exact ⟨rfl, hf.2⟩ | trivial
  · obtain ⟨rfl, h1⟩ := h
    have hf := callbacks_sim hsub hsc kd x .finalize _ hW.finalize _ _ h1
    simp only [Async.finallyClause, TM.finallyClause, runFinalize]
    revert hf
    generalize Async.callbacks subA sc kd .finalize x cfg.finalize _ = fa
    generalize TM.callbacks subS sc .finalize x cfg.finalize _ = fb
    intro hf
    cases fa <;> cases fb <;> simp only [RSim] at hf <;> first | exact hf.elim | exact ⟨rfl, hf.2⟩ | trivial
  · trivial

theorem eventTrigger_sim (ts : List Trans) (hts : ∀ t ∈ ts, TOK cfg sc t) (a b : St) (h : Sim cfg sc qm m0 a b) :
    RSim cfg sc qm m0 (Async.eventTrigger subA sc kd cfg ts x a) (TM.eventTrigger subS sc cfg ts x b) := by
  unfold Async.eventTrigger TM.eventTrigger
  simp only [h.stateOf]
  cases hs : cfg.state? (b.stateOf x.model) with
  | none => exact ⟨rfl, h⟩
  | some d =>
    simp only [guarded]
    apply finally_sim hsub hsc hW
    apply except_sim hsub hsc hW
    unfold Async.eventBody
    cases hc : candidates ts (b.stateOf x.model) with
    | none => simp only []; split <;> exact ⟨rfl, h⟩
    | some cs =>
      simp only [Async.eventProcess, TM.eventProcess]
      refine RSim.bind (callbacks_sim hsub hsc kd x .prepareEvent _ hW.prepareEvent a b h) ?_
      intro _ a1 b1 h1
      exact tryTransitions_sim hsub hsc hW kd x cs
        (fun t ht => hts t ((candidates_spec hc) t ht).2) a1 b1 h1

end engine


/-! ### queues, API, histories -/

theorem Sim.setQueue {a b : St} (h : Sim cfg sc qm m0 a b) (q : List (Nat × Nat × Nat))
    (hq : qm = 2 → ∀ e ∈ q, e.1 = m0) : Sim cfg sc qm m0 { a with queue := q } { b with queue := q } :=
  ⟨h.models, h.mstate, rfl, h.nextTag, h.counts, h.log, hq⟩

theorem eraseFirst_all (m : Nat) : ∀ (q : List (Nat × Nat × Nat)), (∀ e ∈ q, e.1 = m) → eraseFirst m q = q.drop 1
  | [], _ => rfl
  | e :: r, h => by simp [eraseFirst, h e (List.mem_cons_self ..)]

theorem qOf_eq {a b : St} (h : Sim cfg sc qm m0 a b) (m : Nat) (hm : qm = 2 → m = m0) :
    qOf qm m a.queue = b.queue := by
  unfold qOf
  split
  · rename_i h2
    rw [← h.queue, hm h2]
    exact List.filter_eq_self.mpr fun e he => by simp [h.qinv h2 e he]
  · exact h.queue

theorem qPop_eq {a b : St} (h : Sim cfg sc qm m0 a b) (m : Nat) (hm : qm = 2 → m = m0) :
    qPop qm m a.queue = b.queue.drop 1 := by
  unfold qPop
  split
  · rename_i h2
    rw [← h.queue, hm h2]
    exact eraseFirst_all m0 _ (h.qinv h2)
  · rw [h.queue]

theorem qClear_eq {a b : St} (h : Sim cfg sc qm m0 a b) (m : Nat) (hm : qm = 2 → m = m0) :
    qClear qm m a.queue = [] := by
  unfold qClear
  split
  · rename_i h2
    rw [hm h2]
    exact List.filter_eq_nil_iff.mpr fun e he => by simp [h.qinv h2 e he]
  · rfl

section api
variable {subA subS : Sub} (hsub : SubSim cfg sc qm m0 P subA subS) (hsc : ∀ c k, ∀ cmd ∈ (sc c k).cmds, P cmd)
  (hW : WellStaged cfg sc) (kd : Kinds)
include hsub hsc hW

theorem drain_sim (m : Nat) (hm : qm = 2 → m = m0) : ∀ (n : Nat) (a b : St), Sim cfg sc qm m0 a b →
    RSim cfg sc qm m0 (Async.drain subA sc kd cfg qm m n a) (TM.drain subS sc cfg n b)
  | 0, _, _, _ => trivial
  | n + 1, a, b, h => by
    simp only [Async.drain, TM.drain, qOf_eq h m hm]
    cases hq : b.queue with
    | nil => exact ⟨rfl, h⟩
    | cons e r =>
      obtain ⟨m', ev, tag⟩ := e
      simp only []
      have ht := eventTrigger_sim hsub hsc hW kd ⟨m', tag⟩ _ (tok_getD hW ev) a b h
      revert ht
      generalize Async.eventTrigger subA sc kd cfg _ ⟨m', tag⟩ a = ra
      generalize TM.eventTrigger subS sc cfg _ ⟨m', tag⟩ b = rb
      intro ht
      cases ra <;> cases rb <;> simp only [RSim] at ht <;> try exact ht.elim
      · obtain ⟨_, h1⟩ := ht
        simp only []
        rw [qPop_eq h1 m hm]
        exact drain_sim m hm n _ _ (h1.setQueue _ fun h2 e he => h1.qinv h2 e (by
          rw [h1.queue]; exact List.mem_of_mem_drop he))
      · obtain ⟨rfl, h1⟩ := ht
        simp only []
        rw [qClear_eq h1 m hm]
        exact ⟨rfl, h1.setQueue _ (by simp)⟩
      · trivial

theorem machineProcess_sim (hq : cfg.queued = (qm != 0)) (qmax m ev tag : Nat) (hm : qm = 2 → m = m0)
    (a b : St) (h : Sim cfg sc qm m0 a b) :
    RSim cfg sc qm m0 (Async.machineProcess subA sc kd cfg qm qmax m ev tag a)
      (TM.machineProcess subS sc cfg qmax m ev tag b) := by
  unfold Async.machineProcess TM.machineProcess
  by_cases h0 : qm = 0
  · subst h0
    have hq' : cfg.queued = false := by simpa using hq
    simp only [if_true, hq', Bool.not_false]
    rw [h.queue]
    cases b.queue with
    | nil => simp only []; exact eventTrigger_sim hsub hsc hW kd ⟨m, tag⟩ _ (tok_getD hW ev) a b h
    | cons e r => simp only []; exact ⟨rfl, h⟩
  · have hne : (qm != 0) = true := by simp [h0]
    simp only [h0, if_false, hq, hne, Bool.not_true, Bool.false_eq_true]
    have h1 : Sim cfg sc qm m0 { a with queue := a.queue ++ [(m, ev, tag)] } { b with queue := b.queue ++ [(m, ev, tag)] } := by
      have := h.setQueue (a.queue ++ [(m, ev, tag)]) (by
        intro h2 e he
        rcases List.mem_append.mp he with he | he
        · exact h.qinv h2 e he
        · simp at he; subst he; exact hm h2)
      rw [h.queue] at this ⊢
      exact this
    rw [qOf_eq h1 m hm]
    split
    · exact ⟨rfl, h1⟩
    · exact RSim.bind (drain_sim hsub hsc hW kd m hm qmax _ _ h1) fun _ _ _ h2 => ⟨rfl, h2⟩

theorem apiTrigger_sim (hq : cfg.queued = (qm != 0)) (qmax m ev : Nat) (hm : qm = 2 → m = m0)
    (a b : St) (h : Sim cfg sc qm m0 a b) :
    RSim cfg sc qm m0 (Async.apiTrigger subA sc kd cfg qm qmax m ev a) (TM.apiTrigger subS sc cfg qmax m ev b) := by
  unfold Async.apiTrigger TM.apiTrigger
  simp only [h.nextTag]
  have h1 : Sim cfg sc qm m0 (({ a with nextTag := b.nextTag + 1 } : St).emit (.api 0 b.nextTag m ev))
      (({ b with nextTag := b.nextTag + 1 } : St).emit (.api 0 b.nextTag m ev)) := by
    have h0 : Sim cfg sc qm m0 ({ a with nextTag := b.nextTag + 1 } : St) ({ b with nextTag := b.nextTag + 1 } : St) :=
      ⟨h.models, h.mstate, h.queue, rfl, h.counts, h.log, h.qinv⟩
    exact h0.emit _
  have ht : RSim cfg sc qm m0
      (Async.triggerByName subA sc kd cfg qm qmax m ev b.nextTag
        (({ a with nextTag := b.nextTag + 1 } : St).emit (.api 0 b.nextTag m ev)))
      (TM.triggerByName subS sc cfg qmax m ev b.nextTag
        (({ b with nextTag := b.nextTag + 1 } : St).emit (.api 0 b.nextTag m ev))) := by
    unfold Async.triggerByName TM.triggerByName
    simp only [h1.mstate, h1.stateOf]
    split
    · exact ⟨rfl, h1⟩
    · cases cfg.event? ev with
      | some ts => exact machineProcess_sim hsub hsc hW kd hq qmax m ev _ hm _ _ h1
      | none =>
        simp only []
        generalize St.stateOf _ m = st
        cases cfg.state? st with
        | none => exact ⟨rfl, h1⟩
        | some d => simp only []; split <;> exact ⟨rfl, h1⟩
  revert ht
  generalize Async.triggerByName subA sc kd cfg qm qmax m ev b.nextTag _ = ra
  generalize TM.triggerByName subS sc cfg qmax m ev b.nextTag _ = rb
  intro ht
  cases ra <;> cases rb <;> simp only [RSim] at ht <;> try exact ht.elim
  · obtain ⟨rfl, h2⟩ := ht; exact ⟨rfl, h2.emit _⟩
  · obtain ⟨rfl, h2⟩ := ht; exact ⟨rfl, h2.emit _⟩
  · trivial

theorem mayLoop_sim (x : Ctx) : ∀ (ts : List Trans), (∀ t ∈ ts, TOK cfg sc t) → ∀ (a b : St), Sim cfg sc qm m0 a b →
    RSim cfg sc qm m0 (Async.mayLoop subA sc kd cfg x ts a) (TM.mayLoop subS sc cfg x ts b)
  | [], _, a, b, h => ⟨rfl, h⟩
  | t :: ts, ht, a, b, h => by
    have ih := mayLoop_sim x ts (fun t' ht' => ht t' (List.mem_cons_of_mem _ ht'))
    simp only [Async.mayLoop, TM.mayLoop]
    split
    · exact ih a b h
    · obtain ⟨⟨hp, hc, _, _⟩, hd⟩ := ht t (List.mem_cons_self ..)
      have hatt : RSim cfg sc qm m0
          ((Async.callbacks subA sc kd .prepareEvent x cfg.prepareEvent a).bind fun _ s1 =>
            (Async.callbacks subA sc kd .prepare x t.prepare s1).bind fun _ s2 =>
              Async.evalConds subA sc kd x t.conds s2)
          ((TM.callbacks subS sc .prepareEvent x cfg.prepareEvent b).bind fun _ s1 =>
            (TM.callbacks subS sc .prepare x t.prepare s1).bind fun _ s2 =>
              TM.evalConds subS sc x t.conds s2) :=
        RSim.bind (callbacks_sim hsub hsc kd x .prepareEvent _ hW.prepareEvent a b h) fun _ a1 b1 h1 =>
          RSim.bind (callbacks_sim hsub hsc kd x .prepare _ hp a1 b1 h1) fun _ a2 b2 h2 =>
            evalConds_sim hsub hsc kd x _ hc hd a2 b2 h2
      revert hatt
      generalize ((Async.callbacks subA sc kd .prepareEvent x cfg.prepareEvent a).bind fun _ s1 =>
            (Async.callbacks subA sc kd .prepare x t.prepare s1).bind fun _ s2 =>
              Async.evalConds subA sc kd x t.conds s2) = ra
      generalize ((TM.callbacks subS sc .prepareEvent x cfg.prepareEvent b).bind fun _ s1 =>
            (TM.callbacks subS sc .prepare x t.prepare s1).bind fun _ s2 =>
              TM.evalConds subS sc x t.conds s2) = rb
      intro hatt
      cases ra <;> cases rb <;> simp only [RSim] at hatt <;> try exact hatt.elim
      · obtain ⟨rfl, h1⟩ := hatt
        rename_i v _ _
        cases v
        · exact ih _ _ h1
        · exact ⟨rfl, h1⟩
      · obtain ⟨rfl, h1⟩ := hatt
        simp only []
        have hx := hW.onException
        cases hoe : cfg.onException with
        | nil => exact ⟨rfl, h1⟩
        | cons c cs =>
          simp only []
          rw [hoe] at hx
          exact RSim.bind (callbacks_sim hsub hsc kd x .onException _ hx _ _ h1) fun _ a2 b2 h2 => ih a2 b2 h2
      · trivial

theorem canTrigger_sim (m ev tag : Nat) (a b : St) (h : Sim cfg sc qm m0 a b) :
    RSim cfg sc qm m0 (Async.canTrigger subA sc kd cfg m ev tag a) (TM.canTrigger subS sc cfg m ev tag b) := by
  unfold Async.canTrigger TM.canTrigger
  simp only [h.mstate, h.stateOf]
  split
  · exact ⟨rfl, h⟩
  · cases cfg.state? (b.stateOf m) with
    | none => exact ⟨rfl, h⟩
    | some d =>
      simp only []
      cases hev : cfg.event? ev with
      | none => exact ⟨rfl, h⟩
      | some ts =>
        simp only []
        cases hc : candidates ts (b.stateOf m) with
        | none => exact ⟨rfl, h⟩
        | some cs =>
          exact mayLoop_sim hsub hsc hW kd ⟨m, tag⟩ cs
            (fun t ht => tok_of_event hW hev t ((candidates_spec hc) t ht).2) a b h

theorem apiMay_sim (m ev : Nat) (a b : St) (h : Sim cfg sc qm m0 a b) :
    RSim cfg sc qm m0 (Async.apiMay subA sc kd cfg m ev a) (TM.apiMay subS sc cfg m ev b) := by
  unfold Async.apiMay TM.apiMay
  simp only [h.nextTag]
  have h1 : Sim cfg sc qm m0 (({ a with nextTag := b.nextTag + 1 } : St).emit (.api 1 b.nextTag m ev))
      (({ b with nextTag := b.nextTag + 1 } : St).emit (.api 1 b.nextTag m ev)) := by
    have h0 : Sim cfg sc qm m0 ({ a with nextTag := b.nextTag + 1 } : St) ({ b with nextTag := b.nextTag + 1 } : St) :=
      ⟨h.models, h.mstate, h.queue, rfl, h.counts, h.log, h.qinv⟩
    exact h0.emit _
  have ht := canTrigger_sim hsub hsc hW kd m ev b.nextTag _ _ h1
  revert ht
  generalize Async.canTrigger subA sc kd cfg m ev b.nextTag _ = ra
  generalize TM.canTrigger subS sc cfg m ev b.nextTag _ = rb
  intro ht
  cases ra <;> cases rb <;> simp only [RSim] at ht <;> try exact ht.elim
  · obtain ⟨rfl, h2⟩ := ht; exact ⟨rfl, h2.emit _⟩
  · obtain ⟨rfl, h2⟩ := ht; exact ⟨rfl, h2.emit _⟩
  · trivial

end api

theorem runCmd_sim (hsc : ScriptOK qm m0 sc) (hW : WellStaged cfg sc) (kd : Kinds)
    (hq : cfg.queued = (qm != 0)) (qmax : Nat) :
    ∀ f : Nat, SubSim cfg sc qm m0 (CmdOK qm m0) (Async.runCmd sc kd cfg qm qmax f) (TM.runCmd sc cfg qmax f)
  | 0 => fun _ _ _ _ _ => trivial
  | f + 1 => by
    intro c a b hc h
    obtain ⟨m, ev, rfl, hm⟩ := hc
    simp only [Async.runCmd, TM.runCmd]
    exact RSim.map _ (apiTrigger_sim (runCmd_sim hsc hW kd hq qmax f) hsc hW kd hq qmax m ev hm a b h)

theorem runCmdP_sim (hsc : ScriptOKP qm m0 sc) (hW : WellStaged cfg sc) (kd : Kinds)
    (hq : cfg.queued = (qm != 0)) (qmax : Nat) :
    ∀ f : Nat, SubSim cfg sc qm m0 (CmdOKP qm m0) (Async.runCmdP sc kd cfg qm qmax f) (TM.runCmd sc cfg qmax f)
  | 0 => fun _ _ _ _ _ => trivial
  | f + 1 => by
    intro c a b hc h
    rcases hc with ⟨m, ev, rfl, hm⟩ | ⟨m, ev, rfl⟩
    · simp only [Async.runCmdP, TM.runCmd]
      exact RSim.map _ (apiTrigger_sim (runCmdP_sim hsc hW kd hq qmax f) hsc hW kd hq qmax m ev hm a b h)
    · simp only [Async.runCmdP, TM.runCmd]
      exact RSim.map _ (apiMay_sim (runCmdP_sim hsc hW kd hq qmax f) hsc hW kd m ev a b h)

/-- relation between the outcomes of two whole histories -/
def HSim (cfg : Cfg) (sc : Script) (qm m0 : Nat) : Option St → Option St → Prop
  | some a, some b => Sim cfg sc qm m0 a b
  | none, none => True
  | _, _ => False

theorem runHistory_sim (hsc : ScriptOK qm m0 sc) (hW : WellStaged cfg sc) (kd : Kinds)
    (hq : cfg.queued = (qm != 0)) (qmax fuel : Nat) :
    ∀ (h : List Cmd) (a b : St), (∀ c ∈ h, CmdOK qm m0 c) → Sim cfg sc qm m0 a b →
      HSim cfg sc qm m0 (Async.runHistory sc kd cfg qm qmax fuel h a) (TM.runHistory sc cfg qmax fuel h b)
  | [], _, _, _, hs => hs
  | c :: cs, a, b, hc, hs => by
    have h1 := runCmd_sim hsc hW kd hq qmax fuel c a b (hc c (List.mem_cons_self ..)) hs
    simp only [Async.runHistory, TM.runHistory]
    revert h1
    generalize Async.runCmd sc kd cfg qm qmax fuel c a = ra
    generalize TM.runCmd sc cfg qmax fuel c b = rb
    intro h1
    cases ra <;> cases rb <;> simp only [RSim] at h1 <;> try exact h1.elim
    · exact runHistory_sim hsc hW kd hq qmax fuel cs _ _ (fun c' hc' => hc c' (List.mem_cons_of_mem _ hc')) h1.2
    · exact runHistory_sim hsc hW kd hq qmax fuel cs _ _ (fun c' hc' => hc c' (List.mem_cons_of_mem _ hc')) h1.2
    · trivial

theorem runHistoryP_sim (hsc : ScriptOKP qm m0 sc) (hW : WellStaged cfg sc) (kd : Kinds)
    (hq : cfg.queued = (qm != 0)) (qmax fuel : Nat) :
    ∀ (h : List Cmd) (a b : St), (∀ c ∈ h, CmdOKP qm m0 c) → Sim cfg sc qm m0 a b →
      HSim cfg sc qm m0 (Async.runHistoryP sc kd cfg qm qmax fuel h a) (TM.runHistory sc cfg qmax fuel h b)
  | [], _, _, _, hs => hs
  | c :: cs, a, b, hc, hs => by
    have h1 := runCmdP_sim hsc hW kd hq qmax fuel c a b (hc c (List.mem_cons_self ..)) hs
    simp only [Async.runHistoryP, TM.runHistory]
    revert h1
    generalize Async.runCmdP sc kd cfg qm qmax fuel c a = ra
    generalize TM.runCmd sc cfg qmax fuel c b = rb
    intro h1
    cases ra <;> cases rb <;> simp only [RSim] at h1 <;> try exact h1.elim
    · exact runHistoryP_sim hsc hW kd hq qmax fuel cs _ _ (fun c' hc' => hc c' (List.mem_cons_of_mem _ hc')) h1.2
    · exact runHistoryP_sim hsc hW kd hq qmax fuel cs _ _ (fun c' hc' => hc c' (List.mem_cons_of_mem _ hc')) h1.2
    · trivial


/-! ### a decidable sufficient check for `WellStaged` (finite-support scripts) -/

/-- `noisy` lists the callbacks that may await triggers, raise, or vary between invocations -/
def stageB (noisy : List Nat) (l : List Nat) : Bool :=
  decide (l.length ≤ 1) || l.all fun c => !noisy.contains c

def checkStaged (cfg : Cfg) (noisy : List Nat) : Bool :=
  (cfg.events.all fun e => e.2.all fun t =>
    stageB noisy t.prepare && stageB noisy (t.conds.map (·.cb)) && stageB noisy t.before && stageB noisy t.after) &&
  (cfg.states.all fun d => stageB noisy d.onEnter && stageB noisy d.onExit) &&
  stageB noisy cfg.prepareEvent && stageB noisy cfg.beforeSC && stageB noisy cfg.afterSC &&
  stageB noisy cfg.finalize && stageB noisy cfg.onException && stageB noisy cfg.onFinal

theorem stageOK_of_B {noisy : List Nat} (hq : ∀ c, c ∉ noisy → ∀ k, Quiet (sc c k)) {l : List Nat}
    (h : stageB noisy l = true) : StageOK sc l := by
  simp only [stageB, Bool.or_eq_true, decide_eq_true_eq, List.all_eq_true, Bool.not_eq_true',
    List.contains_eq_mem, decide_eq_false_iff_not] at h
  rcases h with h | h
  · exact .inl h
  · exact .inr fun c hc => hq c (h c hc)

theorem condsOK_of_B {noisy : List Nat} (hq : ∀ c, c ∉ noisy → ∀ k, Quiet (sc c k))
    (hc : ∀ c, c ∉ noisy → Const sc c) {l : List Cond}
    (h : stageB noisy (l.map (·.cb)) = true) : CondsOK sc l := by
  simp only [stageB, Bool.or_eq_true, decide_eq_true_eq, List.all_eq_true, Bool.not_eq_true',
    List.contains_eq_mem, decide_eq_false_iff_not, List.length_map, List.mem_map, forall_exists_index, and_imp,
    forall_apply_eq_imp_iff₂] at h
  rcases h with h | h
  · exact .inl h
  · exact .inr fun cd hcd => ⟨hc _ (h cd hcd), hq _ (h cd hcd)⟩

theorem wellStaged_of_check (noisy : List Nat) (hq : ∀ c, c ∉ noisy → ∀ k, Quiet (sc c k))
    (hc : ∀ c, c ∉ noisy → Const sc c) (h : checkStaged cfg noisy = true) : WellStaged cfg sc := by
  simp only [checkStaged, Bool.and_eq_true, List.all_eq_true] at h
  obtain ⟨⟨⟨⟨⟨⟨⟨ht, hs⟩, h1⟩, h2⟩, h3⟩, h4⟩, h5⟩, h6⟩ := h
  exact {
    trans := fun e he t ht' => by
      obtain ⟨⟨⟨a, b⟩, c⟩, d⟩ := ht e he t ht'
      exact ⟨stageOK_of_B hq a, condsOK_of_B hq hc b, stageOK_of_B hq c, stageOK_of_B hq d⟩
    states := fun d hd => ⟨stageOK_of_B hq (hs d hd).1, stageOK_of_B hq (hs d hd).2⟩
    prepareEvent := stageOK_of_B hq h1
    beforeSC := stageOK_of_B hq h2
    afterSC := stageOK_of_B hq h3
    finalize := stageOK_of_B hq h4
    onException := stageOK_of_B hq h5
    onFinal := stageOK_of_B hq h6 }


/-! ### the stage barrier: whatever a stage started has finished when the stage returns -/

/-- `l'` extends `l` by a segment with as many `done` as `call` items -/
def BalL (l l' : List Item) : Prop := ∃ seg, l' = l ++ seg ∧ nCalls seg = nDones seg

def RBal {α : Type} (l : List Item) : R α → Prop
  | .ok _ s' => BalL l s'.log
  | .err _ s' => BalL l s'.log
  | .oof => True

def SubBal (sub : Sub) : Prop := ∀ c s, RBal s.log (sub c s)

theorem nCalls_append (a b : List Item) : nCalls (a ++ b) = nCalls a + nCalls b := by simp [nCalls]
theorem nDones_append (a b : List Item) : nDones (a ++ b) = nDones a + nDones b := by simp [nDones]

theorem BalL.refl (l : List Item) : BalL l l := ⟨[], by simp, rfl⟩
theorem BalL.trans {a b c : List Item} (h1 : BalL a b) (h2 : BalL b c) : BalL a c := by
  obtain ⟨s1, rfl, e1⟩ := h1
  obtain ⟨s2, rfl, e2⟩ := h2
  exact ⟨s1 ++ s2, by simp, by rw [nCalls_append, nDones_append, e1, e2]⟩

theorem RBal.bind {α β : Type} {l : List Item} {r : R α} {f : α → St → R β} (h : RBal l r)
    (hf : ∀ x s1, RBal s1.log (f x s1)) : RBal l (r.bind f) := by
  cases r with
  | ok x s1 =>
    have := hf x s1
    simp only [Res.bind]
    cases hr : f x s1 <;> simp only [hr, RBal] at this ⊢ <;> first | exact BalL.trans h this | trivial
  | err e s1 => exact h
  | oof => trivial

theorem RBal.map {α β : Type} {l : List Item} {r : R α} (f : α → β) (h : RBal l r) : RBal l (r.map f) := by
  cases r <;> exact h

theorem runCmds_bal {sub : Sub} (hsub : SubBal sub) : ∀ (cmds : List Cmd) (s : St), RBal s.log (runCmds sub cmds s)
  | [], s => BalL.refl _
  | c :: cs, s => RBal.bind (hsub c s) fun _ s1 => runCmds_bal hsub cs s1

def pend (es : List Entry) : Nat := (es.filter fun e => e.pending).length

section bal
variable {sub : Sub} (hsub : SubBal sub) (kd : Kinds) (x : Ctx)
include hsub

theorem start_bal {j : Job} {s s' : St} {e : Entry} (h : start sub sc kd x j s = some (e, s')) :
    ∃ seg, s'.log = s.log ++ seg ∧ nCalls seg = nDones seg + (if e.pending then 1 else 0) := by
  unfold start at h
  simp only [] at h
  have hr := runCmds_bal hsub (sc j.cb (s.count j.cb)).cmds
    (({ s with counts := aset j.cb (s.count j.cb + 1) s.counts } : St).emit
      (.call j.slot j.cb x.model x.tag (({ s with counts := aset j.cb (s.count j.cb + 1) s.counts } : St).stateOf x.model)))
  revert hr h
  generalize runCmds sub _ _ = r
  intro h hr
  have key : ∀ (s3 : St) (seg : List Item), s3.log = (({ s with counts := aset j.cb (s.count j.cb + 1) s.counts } : St).emit
        (.call j.slot j.cb x.model x.tag (({ s with counts := aset j.cb (s.count j.cb + 1) s.counts } : St).stateOf x.model))).log ++ seg →
      nCalls seg = nDones seg →
      (∃ seg', s3.log = s.log ++ seg' ∧ nCalls seg' = nDones seg' + 1) ∧
      ∀ o, ∃ seg', (s3.emit (.done j.cb o)).log = s.log ++ seg' ∧ nCalls seg' = nDones seg' + 0 := by
    intro s3 seg hseg hb
    simp only [St.emit] at hseg
    generalize hci : Item.call j.slot j.cb x.model x.tag _ = ci at hseg
    have hc1 : nCalls [ci] = 1 := by subst hci; rfl
    have hc2 : nDones [ci] = 0 := by subst hci; rfl
    constructor
    · refine ⟨[ci] ++ seg, by simp [hseg], ?_⟩
      rw [nCalls_append, nDones_append, hc1, hc2, hb]; omega
    · intro o
      refine ⟨[ci] ++ seg ++ [.done j.cb o], by simp [hseg, St.emit], ?_⟩
      have hd1 : nCalls [Item.done j.cb o] = 0 := rfl
      have hd2 : nDones [Item.done j.cb o] = 1 := rfl
      rw [nCalls_append, nDones_append, nCalls_append, nDones_append, hc1, hc2, hd1, hd2, hb]; omega
  cases r with
  | ok u s3 =>
    obtain ⟨seg, hseg, hb⟩ := hr
    obtain ⟨k1, k2⟩ := key s3 seg hseg hb
    simp only [] at h
    split at h <;> simp only [Option.some.injEq, Prod.mk.injEq] at h <;> obtain ⟨rfl, rfl⟩ := h
    · simpa using k1
    · simpa using k2 _
  | err ex s3 =>
    obtain ⟨seg, hseg, hb⟩ := hr
    obtain ⟨_, k2⟩ := key s3 seg hseg hb
    simp only [Option.some.injEq, Prod.mk.injEq] at h
    obtain ⟨rfl, rfl⟩ := h
    simpa using k2 _
  | oof => simp at h

theorem startAll_bal : ∀ (js : List Job) (s s' : St) (es : List Entry),
    startAll sub sc kd x js s = some (es, s') →
    ∃ seg, s'.log = s.log ++ seg ∧ nCalls seg = nDones seg + pend es
  | [], s, s', es, h => by
    simp only [startAll, Option.some.injEq, Prod.mk.injEq] at h
    obtain ⟨rfl, rfl⟩ := h
    exact ⟨[], by simp, rfl⟩
  | j :: js, s, s', es, h => by
    simp only [startAll] at h
    cases hs : start sub sc kd x j s with
    | none => simp [hs] at h
    | some p =>
      obtain ⟨e, s1⟩ := p
      simp only [hs] at h
      cases hr : startAll sub sc kd x js s1 with
      | none => simp [hr] at h
      | some q =>
        obtain ⟨es1, s2⟩ := q
        simp only [hr, Option.some.injEq, Prod.mk.injEq] at h
        obtain ⟨rfl, rfl⟩ := h
        obtain ⟨seg1, h1, b1⟩ := start_bal hsub kd x hs
        obtain ⟨seg2, h2, b2⟩ := startAll_bal js s1 _ es1 hr
        refine ⟨seg1 ++ seg2, by simp [h2, h1], ?_⟩
        rw [nCalls_append, nDones_append, b1, b2]
        simp only [pend, List.filter_cons]
        split <;> simp <;> omega

omit hsub in
theorem finishAll_bal : ∀ (es : List Entry) (s : St),
    ∃ seg, (finishAll es s).log = s.log ++ seg ∧ nCalls seg = 0 ∧ nDones seg = pend es
  | [], s => ⟨[], by simp [finishAll], rfl, rfl⟩
  | e :: es, s => by
    simp only [finishAll]
    split
    · rename_i hp
      obtain ⟨seg, h1, h2, h3⟩ := finishAll_bal es (s.emit (.done e.cb e.out))
      refine ⟨[Item.done e.cb e.out] ++ seg, by rw [h1]; simp [St.emit], ?_, ?_⟩
      · rw [nCalls_append, h2]; rfl
      · rw [nDones_append, h3]
        have : nDones [Item.done e.cb e.out] = 1 := rfl
        simp [pend, hp, this]; omega
    · rename_i hp
      obtain ⟨seg, h1, h2, h3⟩ := finishAll_bal es s
      exact ⟨seg, h1, h2, by simpa [pend, hp] using h3⟩

theorem gather_bal (js : List Job) (s : St) : RBal s.log (gather sub sc kd x js s) := by
  unfold gather
  cases hs : startAll sub sc kd x js s with
  | none => trivial
  | some p =>
    obtain ⟨es, s1⟩ := p
    obtain ⟨seg1, h1, b1⟩ := startAll_bal hsub kd x js s s1 es hs
    obtain ⟨seg2, h2, c2, d2⟩ := finishAll_bal es s1
    have : BalL s.log (finishAll es s1).log :=
      ⟨seg1 ++ seg2, by simp [h2, h1], by rw [nCalls_append, nDones_append, b1, c2, d2]; omega⟩
    simp only []
    split <;> exact this

theorem callbacks_bal (slot : Slot) (cs : List Nat) (s : St) : RBal s.log (Async.callbacks sub sc kd slot x cs s) :=
  RBal.map _ (gather_bal hsub kd x _ s)

theorem evalConds_bal (conds : List Cond) (s : St) : RBal s.log (Async.evalConds sub sc kd x conds s) :=
  RBal.map _ (gather_bal hsub kd x _ s)

theorem changeState_bal (t : Trans) (dst : Nat) (s : St) : RBal s.log (Async.changeState sub sc kd cfg x t dst s) := by
  unfold Async.changeState
  split
  · exact BalL.refl _
  · refine RBal.bind (callbacks_bal hsub kd x _ _ s) fun _ s1 => ?_
    split
    · exact BalL.refl _
    · refine RBal.bind (l := s1.log) (callbacks_bal hsub kd x _ _ (s1.setState x.model dst)) fun _ s2 => ?_
      split
      · exact callbacks_bal hsub kd x _ _ s2
      · exact BalL.refl _

theorem execute_bal (t : Trans) (s : St) : RBal s.log (Async.execute sub sc kd cfg x t s) := by
  unfold Async.execute
  refine RBal.bind (callbacks_bal hsub kd x _ _ s) fun _ s1 => ?_
  refine RBal.bind (evalConds_bal hsub kd x _ s1) fun ok s2 => ?_
  split
  · exact BalL.refl _
  refine RBal.bind (callbacks_bal hsub kd x _ _ s2) fun _ s3 => ?_
  refine RBal.bind (callbacks_bal hsub kd x _ _ s3) fun _ s4 => ?_
  refine RBal.bind (r := match t.dest with
      | some d => Async.changeState sub sc kd cfg x t d s4 | none => .ok () s4) ?_ fun _ s5 => ?_
  · cases t.dest with
    | none => exact BalL.refl _
    | some d => exact changeState_bal hsub kd x t d s4
  refine RBal.bind (callbacks_bal hsub kd x _ _ s5) fun _ s6 => ?_
  refine RBal.bind (callbacks_bal hsub kd x _ _ s6) fun _ s7 => ?_
  exact BalL.refl _

theorem tryTransitions_bal : ∀ (ts : List Trans) (s : St), RBal s.log (Async.tryTransitions sub sc kd cfg x ts s)
  | [], s => BalL.refl _
  | t :: ts, s => by
    simp only [Async.tryTransitions]
    refine RBal.bind (execute_bal hsub kd x t s) fun ok s1 => ?_
    split
    · exact BalL.refl _
    · exact tryTransitions_bal ts s1

omit hsub in
theorem RBal.of_trans {α : Type} {l l1 : List Item} {r : R α} (h : BalL l l1) (hr : RBal l1 r) : RBal l r := by
  cases r <;> simp only [RBal] at hr ⊢ <;> first | exact BalL.trans h hr | trivial

theorem except_bal (s0 : List Item) (rb : R Bool) (h : RBal s0 rb) : RBal s0 (Async.exceptClause sub sc kd cfg x rb) := by
  cases rb with
  | ok v s1 => exact h
  | err e s1 =>
    simp only [Async.exceptClause]
    split
    · exact h
    · exact RBal.of_trans h (RBal.bind (callbacks_bal hsub kd x _ _ s1) fun _ s2 => BalL.refl _)
  | oof => trivial

theorem finally_bal (s0 : List Item) (rb : R Bool) (h : RBal s0 rb) : RBal s0 (Async.finallyClause sub sc kd cfg x rb) := by
  cases rb with
  | ok v s1 =>
    simp only [Async.finallyClause]
    apply RBal.of_trans h
    have := callbacks_bal (sc := sc) hsub kd x .finalize cfg.finalize s1
    revert this
    generalize Async.callbacks sub sc kd .finalize x cfg.finalize s1 = rf
    intro this
    cases rf <;> first | exact this | trivial
  | err e s1 =>
    simp only [Async.finallyClause]
    apply RBal.of_trans h
    have := callbacks_bal (sc := sc) hsub kd x .finalize cfg.finalize s1
    revert this
    generalize Async.callbacks sub sc kd .finalize x cfg.finalize s1 = rf
    intro this
    cases rf <;> first | exact this | trivial
  | oof => trivial

theorem eventTrigger_bal (ts : List Trans) (s : St) : RBal s.log (Async.eventTrigger sub sc kd cfg ts x s) := by
  unfold Async.eventTrigger
  simp only []
  split
  · exact BalL.refl _
  apply finally_bal hsub
  apply except_bal hsub
  unfold Async.eventBody
  split
  · split <;> exact BalL.refl _
  · exact RBal.bind (callbacks_bal hsub kd x _ _ s) fun _ s1 => tryTransitions_bal hsub kd x _ s1

theorem drain_bal (m : Nat) : ∀ (n : Nat) (s : St), RBal s.log (Async.drain sub sc kd cfg qm m n s)
  | 0, _ => trivial
  | n + 1, s => by
    simp only [Async.drain]
    split
    · exact BalL.refl _
    · rename_i m' ev tag _ _
      have := eventTrigger_bal (cfg := cfg) (sc := sc) hsub kd ⟨m', tag⟩ ((cfg.event? ev).getD []) s
      revert this
      generalize Async.eventTrigger sub sc kd cfg _ ⟨m', tag⟩ s = r
      intro this
      cases r with
      | ok v s1 =>
        simp only []
        have h2 := drain_bal m n { s1 with queue := qPop qm m s1.queue }
        revert h2
        generalize Async.drain sub sc kd cfg qm m n _ = r2
        intro h2
        cases r2 <;> simp only [RBal] at h2 this ⊢ <;> first | exact BalL.trans this h2 | trivial
      | err e s1 => exact this
      | oof => trivial

theorem machineProcess_bal (qmax m ev tag : Nat) (s : St) :
    RBal s.log (Async.machineProcess sub sc kd cfg qm qmax m ev tag s) := by
  unfold Async.machineProcess
  simp only []
  by_cases h0 : qm = 0
  · rw [if_pos h0]
    cases s.queue with
    | nil => exact eventTrigger_bal hsub kd _ _ s
    | cons _ _ => exact BalL.refl _
  · rw [if_neg h0]
    split
    · exact BalL.refl _
    · exact RBal.bind (drain_bal hsub kd m qmax _) fun _ s2 => BalL.refl _

theorem triggerByName_bal (qmax m ev tag : Nat) (s : St) :
    RBal s.log (Async.triggerByName sub sc kd cfg qm qmax m ev tag s) := by
  unfold Async.triggerByName
  split
  · exact BalL.refl _
  · cases cfg.event? ev with
    | some ts => exact machineProcess_bal hsub kd qmax m ev tag s
    | none =>
      simp only []
      cases cfg.state? (s.stateOf m) with
      | none => exact BalL.refl _
      | some d => simp only []; split <;> exact BalL.refl _

theorem apiTrigger_bal (qmax m ev : Nat) (s : St) : RBal s.log (Async.apiTrigger sub sc kd cfg qm qmax m ev s) := by
  unfold Async.apiTrigger
  simp only []
  have hextra : ∀ (l l' : List Item) (i i' : Item), nCalls [i] = 0 → nDones [i] = 0 → nCalls [i'] = 0 → nDones [i'] = 0 →
      BalL (l ++ [i]) l' → BalL l (l' ++ [i']) := by
    intro l l' i i' a1 a2 a3 a4 ⟨seg, h1, h2⟩
    refine ⟨[i] ++ seg ++ [i'], by simp [h1], ?_⟩
    rw [nCalls_append, nDones_append, nCalls_append, nDones_append, a1, a2, a3, a4, h2]
  have ht := triggerByName_bal (cfg := cfg) (sc := sc) (qm := qm) hsub kd qmax m ev s.nextTag
    (({ s with nextTag := s.nextTag + 1 } : St).emit (.api 0 s.nextTag m ev))
  revert ht
  generalize Async.triggerByName sub sc kd cfg qm qmax m ev s.nextTag _ = r
  intro ht
  cases r with
  | ok v s1 => exact hextra _ _ _ _ rfl rfl rfl rfl ht
  | err e s1 => exact hextra _ _ _ _ rfl rfl rfl rfl ht
  | oof => trivial

theorem mayLoop_bal : ∀ (ts : List Trans) (s : St), RBal s.log (Async.mayLoop sub sc kd cfg x ts s)
  | [], s => BalL.refl _
  | t :: ts, s => by
    have ih := mayLoop_bal ts
    simp only [Async.mayLoop]
    split
    · exact ih s
    · have hatt : RBal s.log
          ((Async.callbacks sub sc kd .prepareEvent x cfg.prepareEvent s).bind fun _ s1 =>
            (Async.callbacks sub sc kd .prepare x t.prepare s1).bind fun _ s2 =>
              Async.evalConds sub sc kd x t.conds s2) :=
        RBal.bind (callbacks_bal hsub kd x _ _ s) fun _ s1 =>
          RBal.bind (callbacks_bal hsub kd x _ _ s1) fun _ s2 => evalConds_bal hsub kd x _ s2
      revert hatt
      generalize ((Async.callbacks sub sc kd .prepareEvent x cfg.prepareEvent s).bind fun _ s1 =>
            (Async.callbacks sub sc kd .prepare x t.prepare s1).bind fun _ s2 =>
              Async.evalConds sub sc kd x t.conds s2) = ra
      intro hatt
      cases ra with
      | ok v s1 =>
        cases v
        · exact RBal.of_trans hatt (ih s1)
        · exact hatt
      | err e s1 =>
        simp only []
        apply RBal.of_trans hatt
        split
        · exact BalL.refl _
        · exact RBal.bind (callbacks_bal hsub kd x _ _ s1) fun _ s2 => ih s2
      | oof => trivial

theorem apiMay_bal (m ev : Nat) (s : St) : RBal s.log (Async.apiMay sub sc kd cfg m ev s) := by
  unfold Async.apiMay
  simp only []
  have hextra : ∀ (l l' : List Item) (i i' : Item), nCalls [i] = 0 → nDones [i] = 0 → nCalls [i'] = 0 → nDones [i'] = 0 →
      BalL (l ++ [i]) l' → BalL l (l' ++ [i']) := by
    intro l l' i i' a1 a2 a3 a4 ⟨seg, h1, h2⟩
    refine ⟨[i] ++ seg ++ [i'], by simp [h1], ?_⟩
    rw [nCalls_append, nDones_append, nCalls_append, nDones_append, a1, a2, a3, a4, h2]
  have ht : RBal (s.log ++ [.api 1 s.nextTag m ev])
      (Async.canTrigger sub sc kd cfg m ev s.nextTag (({ s with nextTag := s.nextTag + 1 } : St).emit (.api 1 s.nextTag m ev))) := by
    unfold Async.canTrigger
    split
    · exact BalL.refl _
    · simp only []
      split
      · exact BalL.refl _
      · split
        · exact BalL.refl _
        · split
          · exact BalL.refl _
          · exact mayLoop_bal hsub kd _ _ _
  revert ht
  generalize Async.canTrigger sub sc kd cfg m ev s.nextTag _ = r
  intro ht
  cases r with
  | ok v s1 => exact hextra _ _ _ _ rfl rfl rfl rfl ht
  | err e s1 => exact hextra _ _ _ _ rfl rfl rfl rfl ht
  | oof => trivial

end bal

theorem runCmd_bal (kd : Kinds) (qmax : Nat) : ∀ f : Nat, SubBal (Async.runCmd sc kd cfg qm qmax f)
  | 0 => fun _ _ => trivial
  | f + 1 => by
    intro c s
    simp only [Async.runCmd]
    split
    · exact RBal.map _ (apiTrigger_bal (runCmd_bal kd qmax f) kd qmax _ _ s)
    · trivial

theorem runHistory_bal (kd : Kinds) (qmax fuel : Nat) : ∀ (h : List Cmd) (s s' : St),
    Async.runHistory sc kd cfg qm qmax fuel h s = some s' → BalL s.log s'.log
  | [], s, s', h => by simp only [Async.runHistory, Option.some.injEq] at h; subst h; exact BalL.refl _
  | c :: cs, s, s', h => by
    simp only [Async.runHistory] at h
    have h1 := runCmd_bal (cfg := cfg) (sc := sc) (qm := qm) kd qmax fuel c s
    revert h h1
    generalize Async.runCmd sc kd cfg qm qmax fuel c s = r
    intro h h1
    cases r with
    | ok u s1 => exact BalL.trans h1 (runHistory_bal kd qmax fuel cs s1 s' h)
    | err e s1 => exact BalL.trans h1 (runHistory_bal kd qmax fuel cs s1 s' h)
    | oof => simp at h


theorem runCmdP_bal (kd : Kinds) (qmax : Nat) : ∀ f : Nat, SubBal (Async.runCmdP sc kd cfg qm qmax f)
  | 0 => fun _ _ => trivial
  | f + 1 => by
    intro c s
    simp only [Async.runCmdP]
    split
    · exact RBal.map _ (apiTrigger_bal (runCmdP_bal kd qmax f) kd qmax _ _ s)
    · exact RBal.map _ (apiMay_bal (runCmdP_bal kd qmax f) kd _ _ s)
    · trivial

theorem runHistoryP_bal (kd : Kinds) (qmax fuel : Nat) : ∀ (h : List Cmd) (s s' : St),
    Async.runHistoryP sc kd cfg qm qmax fuel h s = some s' → BalL s.log s'.log
  | [], s, s', h => by simp only [Async.runHistoryP, Option.some.injEq] at h; subst h; exact BalL.refl _
  | c :: cs, s, s', h => by
    simp only [Async.runHistoryP] at h
    have h1 := runCmdP_bal (cfg := cfg) (sc := sc) (qm := qm) kd qmax fuel c s
    revert h h1
    generalize Async.runCmdP sc kd cfg qm qmax fuel c s = r
    intro h h1
    cases r with
    | ok u s1 => exact BalL.trans h1 (runHistoryP_bal kd qmax fuel cs s1 s' h)
    | err e s1 => exact BalL.trans h1 (runHistoryP_bal kd qmax fuel cs s1 s' h)
    | oof => simp at h


/-! ### callbacks of one stage are started in registration order -/

theorem callsOf_append (a b : List Item) : callsOf (a ++ b) = callsOf a ++ callsOf b := by simp [callsOf]

theorem start_calls {sub : Sub} {kd : Kinds} {x : Ctx} {j : Job} {s s' : St} {e : Entry}
    (hc : (sc j.cb (s.count j.cb)).cmds = []) (h : start sub sc kd x j s = some (e, s')) :
    ∃ seg, s'.log = s.log ++ seg ∧ callsOf seg = [(j.slot, j.cb)] := by
  unfold start at h
  simp only [hc, runCmds] at h
  split at h <;> simp only [Option.some.injEq, Prod.mk.injEq] at h <;> obtain ⟨_, rfl⟩ := h
  · exact ⟨[Item.call j.slot j.cb x.model x.tag _], by simp only [St.emit]; rfl, rfl⟩
  · exact ⟨[Item.call j.slot j.cb x.model x.tag _, Item.done j.cb _], by simp only [St.emit, List.append_assoc]; rfl, rfl⟩

theorem startAll_calls {sub : Sub} {kd : Kinds} {x : Ctx} : ∀ (js : List Job) (s s' : St) (es : List Entry),
    (∀ j ∈ js, ∀ k, (sc j.cb k).cmds = []) → startAll sub sc kd x js s = some (es, s') →
    ∃ seg, s'.log = s.log ++ seg ∧ callsOf seg = js.map fun j => (j.slot, j.cb)
  | [], s, s', es, _, h => by
    simp only [startAll, Option.some.injEq, Prod.mk.injEq] at h
    obtain ⟨_, rfl⟩ := h
    exact ⟨[], by simp, rfl⟩
  | j :: js, s, s', es, hq, h => by
    simp only [startAll] at h
    cases hs : start sub sc kd x j s with
    | none => simp [hs] at h
    | some p =>
      obtain ⟨e, s1⟩ := p
      simp only [hs] at h
      cases hr : startAll sub sc kd x js s1 with
      | none => simp [hr] at h
      | some q =>
        obtain ⟨es1, s2⟩ := q
        simp only [hr, Option.some.injEq, Prod.mk.injEq] at h
        obtain ⟨_, rfl⟩ := h
        obtain ⟨seg1, h1, c1⟩ := start_calls (hq j (List.mem_cons_self ..) _) hs
        obtain ⟨seg2, h2, c2⟩ := startAll_calls js s1 _ es1 (fun j' hj' => hq j' (List.mem_cons_of_mem _ hj')) hr
        exact ⟨seg1 ++ seg2, by simp [h2, h1], by rw [callsOf_append, c1, c2]; rfl⟩

theorem finishAll_calls : ∀ (es : List Entry) (s : St), ∃ seg, (finishAll es s).log = s.log ++ seg ∧ callsOf seg = []
  | [], s => ⟨[], by simp [finishAll], rfl⟩
  | e :: es, s => by
    simp only [finishAll]
    split
    · obtain ⟨seg, h1, h2⟩ := finishAll_calls es (s.emit (.done e.cb e.out))
      exact ⟨[Item.done e.cb e.out] ++ seg, by rw [h1]; simp [St.emit], by rw [callsOf_append, h2]; rfl⟩
    · exact finishAll_calls es s

theorem gather_calls {sub : Sub} {kd : Kinds} {x : Ctx} (js : List Job) (s s' : St)
    (hq : ∀ j ∈ js, ∀ k, (sc j.cb k).cmds = [])
    (h : (gather sub sc kd x js s).state? = some s') :
    ∃ seg, s'.log = s.log ++ seg ∧ callsOf seg = js.map fun j => (j.slot, j.cb) := by
  unfold gather at h
  cases hs : startAll sub sc kd x js s with
  | none => simp [hs, Res.state?] at h
  | some p =>
    obtain ⟨es, s1⟩ := p
    obtain ⟨seg1, h1, c1⟩ := startAll_calls js s s1 es hq hs
    obtain ⟨seg2, h2, c2⟩ := finishAll_calls es s1
    have : s' = finishAll es s1 := by
      simp only [hs] at h
      split at h <;> simp only [Res.state?, Option.some.injEq] at h <;> exact h.symm
    subst this
    exact ⟨seg1 ++ seg2, by simp [h2, h1], by rw [callsOf_append, c1, c2]; simp⟩


/-! ### the async `may_` probe leaves the engine state untouched (scripts without awaited commands) -/

/-- models, model states, queue and tag counter are unchanged -/
def Fr (s s' : St) : Prop :=
  s'.models = s.models ∧ s'.mstate = s.mstate ∧ s'.queue = s.queue ∧ s'.nextTag = s.nextTag

def RFr {α : Type} (s : St) : R α → Prop
  | .ok _ s' => Fr s s'
  | .err _ s' => Fr s s'
  | .oof => True

theorem Fr.refl (s : St) : Fr s s := ⟨rfl, rfl, rfl, rfl⟩
theorem Fr.trans {a b c : St} (h1 : Fr a b) (h2 : Fr b c) : Fr a c :=
  ⟨h2.1.trans h1.1, h2.2.1.trans h1.2.1, h2.2.2.1.trans h1.2.2.1, h2.2.2.2.trans h1.2.2.2⟩

theorem RFr.bind {α β : Type} {s : St} {r : R α} {f : α → St → R β} (h : RFr s r)
    (hf : ∀ x s1, RFr s1 (f x s1)) : RFr s (r.bind f) := by
  cases r with
  | ok x s1 =>
    have := hf x s1
    simp only [Res.bind]
    cases hr : f x s1 <;> simp only [hr, RFr] at this ⊢ <;> first | exact Fr.trans h this | trivial
  | err e s1 => exact h
  | oof => trivial

theorem RFr.of_trans {α : Type} {s s1 : St} {r : R α} (h : Fr s s1) (hr : RFr s1 r) : RFr s r := by
  cases r <;> simp only [RFr] at hr ⊢ <;> first | exact Fr.trans h hr | trivial

section frame
variable (hC : ∀ c k, (sc c k).cmds = []) (sub : Sub) (kd : Kinds) (x : Ctx)
include hC

theorem start_fr {j : Job} {s s' : St} {e : Entry} (h : start sub sc kd x j s = some (e, s')) : Fr s s' := by
  unfold start at h
  simp only [hC, runCmds] at h
  split at h <;> simp only [Option.some.injEq, Prod.mk.injEq] at h <;> obtain ⟨_, rfl⟩ := h <;> exact ⟨rfl, rfl, rfl, rfl⟩

theorem startAll_fr : ∀ (js : List Job) (s s' : St) (es : List Entry),
    startAll sub sc kd x js s = some (es, s') → Fr s s'
  | [], s, s', es, h => by
    simp only [startAll, Option.some.injEq, Prod.mk.injEq] at h
    obtain ⟨_, rfl⟩ := h
    exact Fr.refl _
  | j :: js, s, s', es, h => by
    simp only [startAll] at h
    cases hs : start sub sc kd x j s with
    | none => simp [hs] at h
    | some p =>
      obtain ⟨e, s1⟩ := p
      simp only [hs] at h
      cases hr : startAll sub sc kd x js s1 with
      | none => simp [hr] at h
      | some q =>
        obtain ⟨es1, s2⟩ := q
        simp only [hr, Option.some.injEq, Prod.mk.injEq] at h
        obtain ⟨_, rfl⟩ := h
        exact Fr.trans (start_fr hC sub kd x hs) (startAll_fr js s1 _ es1 hr)

omit hC in
theorem finishAll_fr : ∀ (es : List Entry) (s : St), Fr s (finishAll es s)
  | [], s => Fr.refl _
  | e :: es, s => by
    simp only [finishAll]
    split
    · exact Fr.trans ⟨rfl, rfl, rfl, rfl⟩ (finishAll_fr es (s.emit (.done e.cb e.out)))
    · exact finishAll_fr es s

theorem gather_fr (js : List Job) (s : St) : RFr s (gather sub sc kd x js s) := by
  unfold gather
  cases hs : startAll sub sc kd x js s with
  | none => trivial
  | some p =>
    obtain ⟨es, s1⟩ := p
    have := Fr.trans (startAll_fr hC sub kd x js s s1 es hs) (finishAll_fr es s1)
    simp only []
    split <;> exact this

theorem mayLoop_fr : ∀ (ts : List Trans) (s : St), RFr s (Async.mayLoop sub sc kd cfg x ts s)
  | [], s => Fr.refl _
  | t :: ts, s => by
    have ih := mayLoop_fr ts
    have cb : ∀ slot cs s1, RFr s1 (Async.callbacks sub sc kd slot x cs s1) := fun slot cs s1 => by
      have := gather_fr hC sub kd x (cs.map fun c => { slot := slot, cb := c }) s1
      unfold Async.callbacks
      revert this
      generalize gather sub sc kd x _ s1 = r
      intro this
      cases r <;> exact this
    simp only [Async.mayLoop]
    split
    · exact ih s
    · have hatt : RFr s
          ((Async.callbacks sub sc kd .prepareEvent x cfg.prepareEvent s).bind fun _ s1 =>
            (Async.callbacks sub sc kd .prepare x t.prepare s1).bind fun _ s2 =>
              Async.evalConds sub sc kd x t.conds s2) :=
        RFr.bind (cb _ _ s) fun _ s1 => RFr.bind (cb _ _ s1) fun _ s2 => by
          have := gather_fr hC sub kd x (t.conds.map condJob) s2
          unfold Async.evalConds
          revert this
          generalize gather sub sc kd x _ s2 = r
          intro this
          cases r <;> exact this
      revert hatt
      generalize ((Async.callbacks sub sc kd .prepareEvent x cfg.prepareEvent s).bind fun _ s1 =>
            (Async.callbacks sub sc kd .prepare x t.prepare s1).bind fun _ s2 =>
              Async.evalConds sub sc kd x t.conds s2) = ra
      intro hatt
      cases ra with
      | ok v s1 =>
        cases v
        · exact RFr.of_trans hatt (ih s1)
        · exact hatt
      | err e s1 =>
        simp only []
        apply RFr.of_trans hatt
        split
        · exact Fr.refl _
        · exact RFr.bind (cb _ _ s1) fun _ s2 => ih s2
      | oof => trivial

theorem canTrigger_fr (m ev tag : Nat) (s : St) : RFr s (Async.canTrigger sub sc kd cfg m ev tag s) := by
  unfold Async.canTrigger
  split
  · exact Fr.refl _
  · simp only []
    split
    · exact Fr.refl _
    · split
      · exact Fr.refl _
      · split
        · exact Fr.refl _
        · exact mayLoop_fr hC sub kd _ _ _

end frame

end
end C07
end TM
