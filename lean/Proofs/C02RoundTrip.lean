/-
  Proofs/C02RoundTrip.lean — the model keeps the configuration as a tree; the code keeps `_build_state_list(tree)` in
  the model's state attribute and rebuilds the tree with `build_state_tree` on every use.  The two are inverse to each
  other on configuration trees with distinct sibling keys, so nothing is lost.
-/
import Proofs.C02Tree

namespace TM
open C02

/-- the names in the state value are exactly the leaves of the tree, in order -/
def SVal.names : SVal → List SPath
  | .name p => [p]
  | .nil => []
  | .cons h t => h.names ++ t.names

namespace RoundTrip

/-- `build_state_tree` over a flat list of names -/
def insertAll (ps : List SPath) (t : Forest) : Forest := ps.foldl (fun t p => t.insertPath p) t

/-- the entries of `a` followed by the entries of `b` -/
def append : Forest → Forest → Forest
  | .nil, b => b
  | .cons k s r, b => .cons k s (append r b)

theorem insertAll_nil (t : Forest) : insertAll [] t = t := rfl

theorem insertAll_cons (p : SPath) (ps : List SPath) (t : Forest) :
    insertAll (p :: ps) t = insertAll ps (t.insertPath p) := rfl

theorem insertAll_append (ps qs : List SPath) (t : Forest) :
    insertAll (ps ++ qs) t = insertAll qs (insertAll ps t) := by
  simp [insertAll, List.foldl_append]

theorem collapse_names (v : SVal) : v.collapse.names = v.names := by
  unfold SVal.collapse
  split <;> simp [SVal.names]

theorem buildStateItems_names (f : Forest) : ∀ pre : SPath,
    (buildStateItems pre f).names = f.leaves.map (pre ++ ·) := by
  induction f with
  | nil => intro pre; simp [buildStateItems, SVal.names, Forest.leaves]
  | cons k s r ihs ihr =>
    intro pre
    simp only [buildStateItems, SVal.names, Forest.leaves, List.map_append, ihr]
    congr 1
    by_cases hs : s.isEmpty = true
    · simp [hs, SVal.names]
    · simp [hs, collapse_names, ihs, List.map_map, Function.comp_def]

/-- `build_state_tree` only looks at the sequence of names -/
theorem buildStateTree_eq_insertAll (v : SVal) : ∀ t : Forest, buildStateTree v t = insertAll v.names t := by
  induction v with
  | name p => intro t; simp [buildStateTree, SVal.names, insertAll]
  | nil => intro t; simp [buildStateTree, SVal.names, insertAll]
  | cons h r ihh ihr => intro t; simp [buildStateTree, SVal.names, insertAll_append, ihh, ihr]

theorem append_nil (a : Forest) : append a .nil = a := by
  induction a with
  | nil => rfl
  | cons k s r _ ihr => simp [append, ihr]

theorem append_assoc (a b c : Forest) : append (append a b) c = append a (append b c) := by
  induction a with
  | nil => rfl
  | cons k s r _ ihr => simp [append, ihr]

theorem keys_append (a b : Forest) : (append a b).keys = a.keys ++ b.keys := by
  induction a with
  | nil => rfl
  | cons k s r _ ihr => simp [append, Forest.keys, ihr]

/-- two `setdefault(k)` descents in a row are one -/
theorem upsert_upsert (k : Nat) (g g' : Forest → Forest) (t : Forest) :
    (t.upsert k g).upsert k g' = t.upsert k (fun x => g' (g x)) := by
  induction t with
  | nil => simp [Forest.upsert]
  | cons k' s r _ ihr =>
    by_cases h : k' = k
    · simp [Forest.upsert, h]
    · simp [Forest.upsert, h, ihr]

/-- `setdefault` of a new key appends the entry -/
theorem upsert_fresh (k : Nat) (g : Forest → Forest) (t : Forest) (h : k ∉ t.keys) :
    t.upsert k g = append t (.cons k (g .nil) .nil) := by
  induction t with
  | nil => simp [Forest.upsert, append]
  | cons k' s r _ ihr =>
    simp only [Forest.keys, List.mem_cons, not_or] at h
    have h1 : ¬ k' = k := fun e => h.1 e.symm
    simp [Forest.upsert, h1, append, ihr h.2]

/-- paths below the same first key are inserted below that key -/
theorem insertAll_map_cons (k : Nat) (ps : List SPath) : ∀ (g : Forest → Forest) (t : Forest),
    insertAll (ps.map (k :: ·)) (t.upsert k g) = t.upsert k (fun x => insertAll ps (g x)) := by
  induction ps with
  | nil => intro g t; simp [insertAll]
  | cons p ps ih =>
    intro g t
    simp only [List.map_cons, insertAll_cons, Forest.insertPath, upsert_upsert, ih]

theorem leaves_ne_nil {f : Forest} (h : f.isEmpty = false) : f.leaves ≠ [] := by
  induction f with
  | nil => simp [Forest.isEmpty] at h
  | cons k s r ihs _ =>
    simp only [Forest.leaves]
    by_cases hs : s.isEmpty = true
    · simp [hs]
    · have := ihs (by simpa using hs)
      simp [hs, this]

/-- inserting the leaves of one entry `k ↦ s` is one descent below `k` -/
theorem insertAll_entry (k : Nat) (s t : Forest) :
    insertAll (if s.isEmpty then [[k]] else s.leaves.map (k :: ·)) t = t.upsert k (insertAll s.leaves) := by
  cases s with
  | nil =>
    simp only [Forest.isEmpty, if_true, insertAll_cons, insertAll_nil, Forest.insertPath, Forest.leaves]
    congr
  | cons k' s' r' =>
    have hne := leaves_ne_nil (f := .cons k' s' r') rfl
    simp only [Forest.isEmpty, Bool.false_eq_true, if_false]
    cases hl : (Forest.cons k' s' r').leaves with
    | nil => exact absurd hl hne
    | cons p ps =>
      simp only [List.map_cons, insertAll_cons, Forest.insertPath]
      rw [insertAll_map_cons]
      rfl

/-- inserting the leaves of a tree with distinct sibling keys into a dictionary with other keys appends the tree -/
theorem insertAll_leaves (f : Forest) : f.WF = true → ∀ acc : Forest, (∀ x ∈ f.keys, x ∉ acc.keys) →
    insertAll f.leaves acc = append acc f := by
  induction f with
  | nil => intro _ acc _; simp [Forest.leaves, insertAll_nil, append_nil]
  | cons k s r ihs ihr =>
    intro hwf acc hd
    simp only [Forest.WF, Bool.and_eq_true, Bool.not_eq_true', List.contains_eq_mem,
      decide_eq_false_iff_not] at hwf
    obtain ⟨⟨hk, hs⟩, hr⟩ := hwf
    have hka : k ∉ acc.keys := hd k (by simp [Forest.keys])
    simp only [Forest.leaves, insertAll_append, insertAll_entry]
    rw [upsert_fresh k _ acc hka, ihs hs .nil (by simp [Forest.keys]), ihr hr]
    · simp [append_assoc, append]
    · intro x hx
      simp only [keys_append, Forest.keys, List.mem_append, List.mem_cons, List.not_mem_nil, or_false, not_or]
      exact ⟨hd x (by simp [Forest.keys, hx]), fun e => hk (e ▸ hx)⟩

end RoundTrip

open RoundTrip in
theorem buildStateList_names (f : Forest) : (buildStateList [] f).names = f.leaves := by
  simp [buildStateList, collapse_names, buildStateItems_names]

open RoundTrip in
/-- `build_state_tree(_build_state_list(tree))` is the tree again (non-empty tree, distinct sibling keys) -/
theorem buildStateTree_buildStateList (f : Forest) (hwf : f.WF = true) (hne : f ≠ .nil) :
    buildStateTree (buildStateList [] f) .nil = f := by
  have _ := hne
  rw [buildStateTree_eq_insertAll, buildStateList_names, insertAll_leaves f hwf .nil (by simp [Forest.keys])]
  rfl

end TM
