/-
  Proofs/C18Reentrant.lean — C18 for flat machines with re-entrant events (callbacks that trigger further
  events, unqueued or queued), for EVERY script.

  Part 1 (`Foreign`): whatever the interpreter of re-entrant commands does below a callback of the event with
  tag `tag`, it never starts a callback under that tag: tags are allocated from `nextTag`, which only grows,
  and a queued machine drains only entries it received itself.  (Same skeleton as `Proofs/LogMono.lean`.)
  Part 2 (`own_*`): the callbacks started under the event's own tag by `callbacks` / `changeState` / `execute`.
-/
import Model.Spec.C18

namespace TM
namespace C18

theorem ownView_append (tag : Nat) (a b : List Item) : ownView tag (a ++ b) = ownView tag a ++ ownView tag b := by
  induction a with
  | nil => rfl
  | cons i a ih =>
    cases i <;> simp only [List.cons_append, ownView, ih]
    split <;> simp

/-- no queue entry belongs to the call `tag` -/
def QF (tag : Nat) (s : St) : Prop := ∀ e ∈ s.queue, e.2.2 ≠ tag

/-- `s'` continues `s` without starting a callback under `tag` -/
structure Rel (tag : Nat) (s s' : St) : Prop where
  tagMono : s.nextTag ≤ s'.nextTag
  log : ∃ seg, s'.log = s.log ++ seg ∧ ownView tag seg = []
  queue : QF tag s → QF tag s'

theorem Rel.refl (tag : Nat) (s : St) : Rel tag s s := ⟨Nat.le_refl _, ⟨[], by simp, rfl⟩, id⟩

theorem Rel.trans {tag : Nat} {a b c : St} (h1 : Rel tag a b) (h2 : Rel tag b c) : Rel tag a c := by
  obtain ⟨g1, l1, v1⟩ := h1.log
  obtain ⟨g2, l2, v2⟩ := h2.log
  exact ⟨Nat.le_trans h1.tagMono h2.tagMono, ⟨g1 ++ g2, by rw [l2, l1, List.append_assoc], by simp [ownView_append, v1, v2]⟩,
    fun q => h2.queue (h1.queue q)⟩

/-- a step that appends one item foreign to `tag` and changes neither `nextTag` nor the queue -/
theorem Rel.emit {tag : Nat} (s s' : St) (i : Item) (hl : s'.log = s.log ++ [i]) (hi : ownView tag [i] = [])
    (hn : s'.nextTag = s.nextTag) (hq : s'.queue = s.queue) : Rel tag s s' :=
  ⟨by omega, ⟨[i], hl, hi⟩, fun q => by unfold QF at *; rw [hq]; exact q⟩

/-- every completed run of `r` from `s` (normal or exceptional) is foreign to `tag` -/
def Foreign {α} (tag : Nat) (r : R α) (s : St) : Prop :=
  tag < s.nextTag → ∀ s', r.state? = some s' → Rel tag s s'

theorem Foreign.ok {α} (tag : Nat) (a : α) (s : St) : Foreign tag (.ok a s : R α) s := by
  intro _ s' h; simp [Res.state?] at h; subst h; exact Rel.refl _ _
theorem Foreign.err {α} (tag : Nat) (e : Exc) (s : St) : Foreign tag (.err e s : R α) s := by
  intro _ s' h; simp [Res.state?] at h; subst h; exact Rel.refl _ _
theorem Foreign.oof {α} (tag : Nat) (s : St) : Foreign tag (.oof : R α) s := by
  intro _ s' h; simp [Res.state?] at h

theorem Foreign.from {α} {tag : Nat} {r : R α} {s0 s : St} (h0 : Rel tag s0 s) (h : Foreign tag r s) : Foreign tag r s0 := by
  intro hn s' hs
  exact h0.trans (h (Nat.lt_of_lt_of_le hn h0.tagMono) s' hs)

theorem Foreign.bind {α β} {tag : Nat} {r : R α} {f : α → St → R β} {s : St}
    (h1 : Foreign tag r s) (h2 : ∀ a s1, Foreign tag (f a s1) s1) : Foreign tag (r.bind f) s := by
  intro hn s' h
  cases r with
  | ok a s1 => exact Foreign.from (h1 hn s1 rfl) (h2 a s1) hn s' h
  | err e s1 => simp [Res.bind, Res.state?] at h; subst h; exact h1 hn s1 rfl
  | oof => simp [Res.bind, Res.state?] at h

theorem Foreign.map {α β} {tag : Nat} {r : R α} {s : St} (h : Foreign tag r s) (f : α → β) : Foreign tag (r.map f) s := by
  intro hn s' hs
  cases r <;> simp [Res.map, Res.state?] at hs ⊢
  · exact h hn _ (by simp [Res.state?, hs])
  · exact h hn _ (by simp [Res.state?, hs])

/-- the interpreter of re-entrant commands is foreign to `tag` -/
def SubForeign (tag : Nat) (sub : Sub) : Prop := ∀ c s, Foreign tag (sub c s) s

section engine
variable {tag : Nat} {sub : Sub} (hsub : SubForeign tag sub) (sc : Script) (cfg : Cfg)
include hsub

theorem runCmds_foreign : ∀ (cs : List Cmd) (s : St), Foreign tag (runCmds sub cs s) s
  | [], s => Foreign.ok _ _ _
  | c :: cs, s => by
    unfold runCmds
    exact Foreign.bind (hsub c s) (fun _ s1 => runCmds_foreign cs s1)

theorem invoke_foreign (slot : Slot) (x : Ctx) (hx : x.tag ≠ tag) (c : Nat) (s : St) :
    Foreign tag (invoke sub sc slot x c s) s := by
  unfold invoke
  simp only []
  refine Foreign.from (s := ({ s with counts := aset c (s.count c + 1) s.counts } : St).emit
      (.call slot c x.model x.tag (({ s with counts := aset c (s.count c + 1) s.counts } : St).stateOf x.model)))
    (Rel.emit _ _ _ rfl (by simp [ownView, hx]) rfl rfl) ?_
  intro hn s' h
  have hc := runCmds_foreign hsub (sc c (s.count c)).cmds (({ s with counts := aset c (s.count c + 1) s.counts } : St).emit
      (.call slot c x.model x.tag (({ s with counts := aset c (s.count c + 1) s.counts } : St).stateOf x.model))) hn
  cases hr : runCmds sub (sc c (s.count c)).cmds (({ s with counts := aset c (s.count c + 1) s.counts } : St).emit
      (.call slot c x.model x.tag (({ s with counts := aset c (s.count c + 1) s.counts } : St).stateOf x.model))) with
  | oof => rw [hr] at h; simp [Res.state?] at h
  | err e s3 =>
    rw [hr] at h; simp [Res.state?] at h; subst h
    exact (hc s3 (by simp [hr, Res.state?])).trans (Rel.emit _ _ _ rfl (by simp [ownView]) rfl rfl)
  | ok u s3 =>
    rw [hr] at h
    have h3 := hc s3 (by simp [hr, Res.state?])
    cases ho : (sc c (s.count c)).out with
    | ret b => simp [ho, Res.state?] at h; subst h; exact h3.trans (Rel.emit _ _ _ rfl (by simp [ownView]) rfl rfl)
    | raise e => simp [ho, Res.state?] at h; subst h; exact h3.trans (Rel.emit _ _ _ rfl (by simp [ownView]) rfl rfl)

theorem callbacks_foreign (slot : Slot) (x : Ctx) (hx : x.tag ≠ tag) :
    ∀ (cbs : List Nat) (s : St), Foreign tag (callbacks sub sc slot x cbs s) s
  | [], s => Foreign.ok _ _ _
  | c :: cs, s => by
    unfold callbacks
    exact Foreign.bind (invoke_foreign hsub sc slot x hx c s) (fun _ s1 => callbacks_foreign slot x hx cs s1)

theorem evalConds_foreign (x : Ctx) (hx : x.tag ≠ tag) :
    ∀ (cs : List Cond) (s : St), Foreign tag (evalConds sub sc x cs s) s
  | [], s => Foreign.ok _ _ _
  | c :: cs, s => by
    unfold evalConds
    refine Foreign.bind (invoke_foreign hsub sc _ x hx c.cb s) ?_
    intro b s1
    split
    · exact evalConds_foreign x hx cs s1
    · exact Foreign.ok _ _ _

theorem changeState_foreign (x : Ctx) (hx : x.tag ≠ tag) (t : Trans) (d : Nat) (s : St) :
    Foreign tag (changeState sub sc cfg x t d s) s := by
  unfold changeState
  cases cfg.state? (s.stateOf x.model) with
  | none => exact Foreign.err _ _ _
  | some src =>
    refine Foreign.bind (callbacks_foreign hsub sc _ x hx _ s) ?_
    intro _ s1
    cases cfg.state? d with
    | none => exact Foreign.err _ _ _
    | some dd =>
      refine Foreign.from (s := s1.setState x.model d)
        ⟨Nat.le_refl _, ⟨[], by simp [St.setState], rfl⟩, fun q => q⟩
        (Foreign.bind (callbacks_foreign hsub sc _ x hx _ _) ?_)
      intro _ s3
      by_cases hf : dd.final
      · simp only [hf, if_true]; exact callbacks_foreign hsub sc _ x hx _ s3
      · simp only [hf]; exact Foreign.ok _ _ _

theorem execute_foreign (x : Ctx) (hx : x.tag ≠ tag) (t : Trans) (s : St) :
    Foreign tag (execute sub sc cfg x t s) s := by
  unfold execute
  refine Foreign.bind (callbacks_foreign hsub sc _ x hx _ s) fun _ s1 => ?_
  refine Foreign.bind (evalConds_foreign hsub sc x hx _ s1) fun ok s2 => ?_
  cases ok with
  | false => exact Foreign.ok _ _ _
  | true =>
    simp only [Bool.not_true, Bool.false_eq_true, if_false]
    refine Foreign.bind (callbacks_foreign hsub sc _ x hx _ s2) fun _ s3 => ?_
    refine Foreign.bind (callbacks_foreign hsub sc _ x hx _ s3) fun _ s4 => ?_
    have hcs : Foreign tag (match t.dest with
        | some d => changeState sub sc cfg x t d s4
        | none => (.ok () s4 : R Unit)) s4 := by
      cases t.dest with
      | none => exact Foreign.ok _ _ _
      | some d => exact changeState_foreign hsub sc cfg x hx t d s4
    refine Foreign.bind hcs fun _ s5 => ?_
    refine Foreign.bind (callbacks_foreign hsub sc _ x hx _ s5) fun _ s6 => ?_
    refine Foreign.bind (callbacks_foreign hsub sc _ x hx _ s6) fun _ s7 => ?_
    exact Foreign.ok _ _ _

theorem tryTransitions_foreign (x : Ctx) (hx : x.tag ≠ tag) :
    ∀ (ts : List Trans) (s : St), Foreign tag (tryTransitions sub sc cfg x ts s) s
  | [], s => Foreign.ok _ _ _
  | t :: ts, s => by
    unfold tryTransitions
    refine Foreign.bind (execute_foreign hsub sc cfg x hx t s) fun ok s1 => ?_
    cases ok with
    | true => exact Foreign.ok _ _ _
    | false => exact tryTransitions_foreign x hx ts s1

theorem guarded_foreign (x : Ctx) (hx : x.tag ≠ tag) (body : R Bool) (s : St) (hb : Foreign tag body s) :
    Foreign tag (guarded sub sc cfg x body) s := by
  intro hn
  have hfin : ∀ sa sb, tag < sa.nextTag → runFinalize sub sc cfg x sa = some sb → Rel tag sa sb := by
    intro sa sb hna h
    unfold runFinalize at h
    have := callbacks_foreign hsub sc .finalize x hx cfg.finalize sa hna
    cases hc : callbacks sub sc .finalize x cfg.finalize sa with
    | ok u s1 => simp [hc] at h; subst h; exact this s1 (by simp [hc, Res.state?])
    | err e s1 => simp [hc] at h; subst h; exact this s1 (by simp [hc, Res.state?])
    | oof => simp [hc] at h
  have hex : Foreign tag (exceptClause sub sc cfg x body) s := by
    cases body with
    | ok b s1 => exact hb
    | oof => exact Foreign.oof _ _
    | err e s1 =>
      unfold exceptClause
      cases cfg.onException with
      | nil => exact hb
      | cons h0 hs =>
        intro hn' s' hs'
        exact Foreign.from (hb hn' s1 rfl) (Foreign.bind (callbacks_foreign hsub sc _ x hx _ s1) fun _ s2 => Foreign.ok _ _ _) hn' s' hs'
  intro s' h
  unfold guarded finallyClause at h
  cases he : exceptClause sub sc cfg x body with
  | ok b s1 =>
    simp only [he] at h
    cases hf : runFinalize sub sc cfg x s1 with
    | none => simp [hf, Res.state?] at h
    | some sb =>
      simp [hf, Res.state?] at h; subst h
      have h1 := hex hn s1 (by simp [he, Res.state?])
      exact h1.trans (hfin s1 sb (Nat.lt_of_lt_of_le hn h1.tagMono) hf)
  | err e s1 =>
    simp only [he] at h
    cases hf : runFinalize sub sc cfg x s1 with
    | none => simp [hf, Res.state?] at h
    | some sb =>
      simp [hf, Res.state?] at h; subst h
      have h1 := hex hn s1 (by simp [he, Res.state?])
      exact h1.trans (hfin s1 sb (Nat.lt_of_lt_of_le hn h1.tagMono) hf)
  | oof => simp [he, Res.state?] at h

theorem eventTrigger_foreign (ts : List Trans) (x : Ctx) (hx : x.tag ≠ tag) (s : St) :
    Foreign tag (eventTrigger sub sc cfg ts x s) s := by
  simp only [eventTrigger]
  cases hsd : cfg.state? (s.stateOf x.model) with
  | none => exact Foreign.err _ _ _
  | some sd =>
    simp only []
    apply guarded_foreign hsub sc cfg x hx
    cases candidates ts (s.stateOf x.model) with
    | none =>
      simp only []
      split
      · exact Foreign.ok _ _ _
      · exact Foreign.err _ _ _
    | some cs =>
      simp only [eventProcess]
      exact Foreign.bind (callbacks_foreign hsub sc _ x hx _ s) fun _ s1 => tryTransitions_foreign hsub sc cfg x hx cs s1

theorem drain_foreign : ∀ (n : Nat) (s : St), QF tag s → Foreign tag (drain sub sc cfg n s) s
  | 0, s, _ => Foreign.oof _ _
  | n + 1, s, hq0 => by
    unfold drain
    cases hq : s.queue with
    | nil => exact Foreign.ok _ _ _
    | cons h rest =>
      obtain ⟨m, ev, t⟩ := h
      simp only []
      have ht : t ≠ tag := hq0 (m, ev, t) (by simp [hq])
      intro hn s' hs'
      have he := eventTrigger_foreign hsub sc cfg ((cfg.event? ev).getD []) ⟨m, t⟩ ht s hn
      cases hr : eventTrigger sub sc cfg ((cfg.event? ev).getD []) ⟨m, t⟩ s with
      | oof => rw [hr] at hs'; simp [Res.state?] at hs'
      | err e s1 =>
        rw [hr] at hs'; simp [Res.state?] at hs'; subst hs'
        have h1 := he s1 (by simp [hr, Res.state?])
        exact h1.trans ⟨Nat.le_refl _, ⟨[], by simp, rfl⟩, fun _ => by intro e he; simp at he⟩
      | ok b s1 =>
        rw [hr] at hs'
        have h1 := he s1 (by simp [hr, Res.state?])
        have hq1 : QF tag s1 := h1.queue hq0
        have hq2 : QF tag { s1 with queue := s1.queue.drop 1 } := by
          intro e he
          exact hq1 e (List.mem_of_mem_drop he)
        have h2 : Rel tag s1 { s1 with queue := s1.queue.drop 1 } :=
          ⟨Nat.le_refl _, ⟨[], by simp, rfl⟩, fun _ => hq2⟩
        exact Foreign.from (h1.trans h2) (drain_foreign n _ hq2) hn s' hs'

theorem machineProcess_foreign (qmax m ev t : Nat) (ht : t ≠ tag) (s : St) :
    Foreign tag (machineProcess sub sc cfg qmax m ev t s) s := by
  unfold machineProcess
  by_cases hq : cfg.queued
  · simp only [hq, Bool.not_true, Bool.false_eq_true, if_false]
    have hrel : Rel tag s { s with queue := s.queue ++ [(m, ev, t)] } :=
      ⟨Nat.le_refl _, ⟨[], by simp, rfl⟩, fun q => by
        intro e he
        simp only [List.mem_append, List.mem_singleton] at he
        rcases he with he | rfl
        · exact q e he
        · exact ht⟩
    split
    · intro _ s' h
      simp [Res.state?] at h; subst h; exact hrel
    · rename_i hlen
      have hqf : QF tag { s with queue := s.queue ++ [(m, ev, t)] } := by
        have : s.queue = [] := by
          cases hs : s.queue with
          | nil => rfl
          | cons a r => simp [hs] at hlen
        intro e he
        simp [this] at he
        subst he; exact ht
      exact Foreign.from hrel (Foreign.bind (drain_foreign hsub sc cfg qmax _ hqf) fun _ s1 => Foreign.ok _ _ _)
  · simp only [hq, Bool.not_false, if_true]
    cases s.queue with
    | nil => exact eventTrigger_foreign hsub sc cfg _ _ ht s
    | cons _ _ => exact Foreign.err _ _ _

theorem triggerByName_foreign (qmax m ev t : Nat) (ht : t ≠ tag) (s : St) :
    Foreign tag (triggerByName sub sc cfg qmax m ev t s) s := by
  unfold triggerByName
  split
  · exact Foreign.err _ _ _
  · cases cfg.event? ev with
    | some ts => exact machineProcess_foreign hsub sc cfg qmax m ev t ht s
    | none =>
      simp only []
      cases cfg.state? (s.stateOf m) with
      | none => exact Foreign.err _ _ _
      | some _ =>
        simp only []
        split
        · exact Foreign.ok _ _ _
        · exact Foreign.err _ _ _

theorem mayLoop_foreign (x : Ctx) (hx : x.tag ≠ tag) :
    ∀ (ts : List Trans) (s : St), Foreign tag (mayLoop sub sc cfg x ts s) s
  | [], s => Foreign.ok _ _ _
  | t :: ts, s => by
    unfold mayLoop
    cases destOk cfg t with
    | false => simp; exact mayLoop_foreign x hx ts s
    | true =>
      simp only [Bool.not_true, Bool.false_eq_true, if_false]
      have hatt : Foreign tag ((callbacks sub sc .prepareEvent x cfg.prepareEvent s).bind fun _ s1 =>
          (callbacks sub sc .prepare x t.prepare s1).bind fun _ s2 => evalConds sub sc x t.conds s2) s :=
        Foreign.bind (callbacks_foreign hsub sc _ x hx _ s) fun _ s1 =>
          Foreign.bind (callbacks_foreign hsub sc _ x hx _ s1) fun _ s2 => evalConds_foreign hsub sc x hx _ s2
      intro hn s' hs'
      generalize ((callbacks sub sc .prepareEvent x cfg.prepareEvent s).bind fun _ s1 =>
          (callbacks sub sc .prepare x t.prepare s1).bind fun _ s2 => evalConds sub sc x t.conds s2) = att at hatt hs'
      cases att with
      | oof => simp [Res.state?] at hs'
      | ok b sa =>
        cases b with
        | true => simp [Res.state?] at hs'; subst hs'; exact hatt hn sa rfl
        | false => exact Foreign.from (hatt hn sa rfl) (mayLoop_foreign x hx ts sa) hn s' hs'
      | err e sa =>
        have hrest : Foreign tag ((match cfg.onException with
            | [] => (.err e sa : R Unit)
            | hs => callbacks sub sc .onException x hs sa).bind fun _ s'' => mayLoop sub sc cfg x ts s'') sa := by
          refine Foreign.bind ?_ (fun _ s2 => mayLoop_foreign x hx ts s2)
          cases cfg.onException with
          | nil => exact Foreign.err _ _ _
          | cons h0 hs => exact callbacks_foreign hsub sc _ x hx _ sa
        exact Foreign.from (hatt hn sa rfl) hrest hn s' hs'

theorem canTrigger_foreign (m ev t : Nat) (ht : t ≠ tag) (s : St) : Foreign tag (canTrigger sub sc cfg m ev t s) s := by
  unfold canTrigger
  split
  · exact Foreign.err _ _ _
  · simp only []
    cases cfg.state? (s.stateOf m) with
    | none => exact Foreign.err _ _ _
    | some _ =>
      simp only []
      cases cfg.event? ev with
      | none => exact Foreign.ok _ _ _
      | some ts =>
        simp only []
        cases candidates ts (s.stateOf m) with
        | none => exact Foreign.ok _ _ _
        | some cs => exact mayLoop_foreign hsub sc cfg ⟨m, t⟩ ht cs s

theorem dispatchLoop_foreign (qmax ev t : Nat) (ht : t ≠ tag) : ∀ (n i : Nat) (acc : Bool) (s : St),
    Foreign tag (dispatchLoop sub sc cfg qmax ev t n i acc s) s
  | 0, _, _, s => Foreign.oof _ _
  | n + 1, i, acc, s => by
    unfold dispatchLoop
    cases s.models[i]? with
    | none => exact Foreign.ok _ _ _
    | some m =>
      exact Foreign.bind (triggerByName_foreign hsub sc cfg qmax m ev t ht s) fun b s1 =>
        dispatchLoop_foreign qmax ev t ht n (i + 1) (acc && b) s1

end engine

/-- an API call allocates the tag `s.nextTag` (≠ `tag` because `tag < s.nextTag`), logs `api`, runs from the state
after that, logs the outcome -/
theorem wrap_rel {tag : Nat} (s s2 : St) (kind m ev : Nat) (out : Item) (ho : ownView tag [out] = [])
    (h2 : Rel tag (({ s with nextTag := s.nextTag + 1 } : St).emit (.api kind s.nextTag m ev)) s2) :
    Rel tag s (s2.emit out) := by
  have h0 : Rel tag s (({ s with nextTag := s.nextTag + 1 } : St).emit (.api kind s.nextTag m ev)) :=
    ⟨by simp [St.emit], ⟨[.api kind s.nextTag m ev], by simp [St.emit], by simp [ownView]⟩, fun q => q⟩
  exact (h0.trans h2).trans (Rel.emit _ _ _ rfl ho rfl rfl)

theorem api_next {tag : Nat} (s : St) (kind m ev : Nat) (hn : tag < s.nextTag) :
    tag < (({ s with nextTag := s.nextTag + 1 } : St).emit (.api kind s.nextTag m ev)).nextTag := by
  simp [St.emit]; omega

section api
variable {tag : Nat} {sub : Sub} (hsub : SubForeign tag sub) (sc : Script) (cfg : Cfg)
include hsub

theorem apiTrigger_foreign (qmax m ev : Nat) (s : St) : Foreign tag (apiTrigger sub sc cfg qmax m ev s) s := by
  intro hn s' h
  dsimp only [apiTrigger] at h
  have hg := triggerByName_foreign hsub sc cfg qmax m ev s.nextTag (by omega)
    (({ s with nextTag := s.nextTag + 1 } : St).emit (.api 0 s.nextTag m ev)) (api_next s 0 m ev hn)
  cases hr : triggerByName sub sc cfg qmax m ev s.nextTag (({ s with nextTag := s.nextTag + 1 } : St).emit (.api 0 s.nextTag m ev)) with
  | oof => rw [hr] at h; simp [Res.state?] at h
  | ok a s2 =>
    rw [hr] at h; simp [Res.state?] at h; subst h
    exact wrap_rel s s2 0 m ev _ (by simp [ownView]) (hg s2 (by simp [hr, Res.state?]))
  | err e s2 =>
    rw [hr] at h; simp [Res.state?] at h; subst h
    exact wrap_rel s s2 0 m ev _ (by simp [ownView]) (hg s2 (by simp [hr, Res.state?]))

theorem apiMay_foreign (m ev : Nat) (s : St) : Foreign tag (apiMay sub sc cfg m ev s) s := by
  intro hn s' h
  dsimp only [apiMay] at h
  have hg := canTrigger_foreign hsub sc cfg m ev s.nextTag (by omega)
    (({ s with nextTag := s.nextTag + 1 } : St).emit (.api 1 s.nextTag m ev)) (api_next s 1 m ev hn)
  cases hr : canTrigger sub sc cfg m ev s.nextTag (({ s with nextTag := s.nextTag + 1 } : St).emit (.api 1 s.nextTag m ev)) with
  | oof => rw [hr] at h; simp [Res.state?] at h
  | ok a s2 =>
    rw [hr] at h; simp [Res.state?] at h; subst h
    exact wrap_rel s s2 1 m ev _ (by simp [ownView]) (hg s2 (by simp [hr, Res.state?]))
  | err e s2 =>
    rw [hr] at h; simp [Res.state?] at h; subst h
    exact wrap_rel s s2 1 m ev _ (by simp [ownView]) (hg s2 (by simp [hr, Res.state?]))

theorem apiDispatch_foreign (qmax ev : Nat) (s : St) : Foreign tag (apiDispatch sub sc cfg qmax ev s) s := by
  intro hn s' h
  dsimp only [apiDispatch] at h
  have hg := dispatchLoop_foreign hsub sc cfg qmax ev s.nextTag (by omega)
    (qmax + (({ s with nextTag := s.nextTag + 1 } : St).emit (.api 2 s.nextTag 0 ev)).models.length + 1) 0 true
    (({ s with nextTag := s.nextTag + 1 } : St).emit (.api 2 s.nextTag 0 ev)) (api_next s 2 0 ev hn)
  cases hr : dispatchLoop sub sc cfg qmax ev s.nextTag
      (qmax + (({ s with nextTag := s.nextTag + 1 } : St).emit (.api 2 s.nextTag 0 ev)).models.length + 1) 0 true
      (({ s with nextTag := s.nextTag + 1 } : St).emit (.api 2 s.nextTag 0 ev)) with
  | oof => rw [hr] at h; simp [Res.state?] at h
  | ok a s2 =>
    rw [hr] at h; simp [Res.state?] at h; subst h
    exact wrap_rel s s2 2 0 ev _ (by simp [ownView]) (hg s2 (by simp [hr, Res.state?]))
  | err e s2 =>
    rw [hr] at h; simp [Res.state?] at h; subst h
    exact wrap_rel s s2 2 0 ev _ (by simp [ownView]) (hg s2 (by simp [hr, Res.state?]))

end api

theorem removeModel_foreign (tag m : Nat) (s : St) : Foreign tag (removeModel m s) s := by
  intro _ s' h
  unfold removeModel at h
  by_cases hm : m ∈ s.models
  · simp only [hm, if_true] at h
    cases hq : s.queue with
    | nil =>
      simp [hq, Res.state?] at h; subst h
      exact ⟨Nat.le_refl _, ⟨[], by simp, rfl⟩, fun q => by unfold QF at *; simp [hq]⟩
    | cons hd rest =>
      simp [hq, Res.state?] at h; subst h
      refine ⟨Nat.le_refl _, ⟨[], by simp, rfl⟩, fun q => ?_⟩
      intro e he
      simp only [List.mem_cons, List.mem_filter] at he
      rcases he with rfl | he
      · exact q _ (by simp [hq])
      · exact q e (by simp [hq, he.1])
  · simp only [hm, if_false, Res.state?] at h
    cases h; exact Rel.refl _ _

theorem addModel_foreign (tag : Nat) (cfg : Cfg) (m : Nat) (s : St) : Foreign tag (addModel cfg m s) s := by
  intro _ s' h
  unfold addModel at h
  by_cases hm : m ∈ s.models
  · simp only [hm, if_true, Res.state?] at h; cases h; exact Rel.refl _ _
  · simp only [hm, if_false] at h
    cases hi : cfg.state? cfg.initial with
    | none => simp [hi, Res.state?] at h; subst h; exact Rel.refl _ _
    | some _ =>
      simp [hi, Res.state?] at h; subst h
      exact ⟨Nat.le_refl _, ⟨[], by simp [St.setState], rfl⟩, fun q => q⟩

theorem apiRemove_foreign (tag m : Nat) (s : St) : Foreign tag (apiRemove m s) s := by
  intro hn s' h
  dsimp only [apiRemove] at h
  have hg := removeModel_foreign tag m (({ s with nextTag := s.nextTag + 1 } : St).emit (.api 3 s.nextTag m 0)) (api_next s 3 m 0 hn)
  cases hr : removeModel m (({ s with nextTag := s.nextTag + 1 } : St).emit (.api 3 s.nextTag m 0)) with
  | oof => rw [hr] at h; simp [Res.state?] at h
  | ok a s2 =>
    rw [hr] at h; simp [Res.state?] at h; subst h
    exact wrap_rel s s2 3 m 0 _ (by simp [ownView]) (hg s2 (by simp [hr, Res.state?]))
  | err e s2 =>
    rw [hr] at h; simp [Res.state?] at h; subst h
    exact wrap_rel s s2 3 m 0 _ (by simp [ownView]) (hg s2 (by simp [hr, Res.state?]))

theorem apiAdd_foreign (tag : Nat) (cfg : Cfg) (m : Nat) (s : St) : Foreign tag (apiAdd cfg m s) s := by
  intro hn s' h
  dsimp only [apiAdd] at h
  have hg := addModel_foreign tag cfg m (({ s with nextTag := s.nextTag + 1 } : St).emit (.api 4 s.nextTag m 0)) (api_next s 4 m 0 hn)
  cases hr : addModel cfg m (({ s with nextTag := s.nextTag + 1 } : St).emit (.api 4 s.nextTag m 0)) with
  | oof => rw [hr] at h; simp [Res.state?] at h
  | ok a s2 =>
    rw [hr] at h; simp [Res.state?] at h; subst h
    exact wrap_rel s s2 4 m 0 _ (by simp [ownView]) (hg s2 (by simp [hr, Res.state?]))
  | err e s2 =>
    rw [hr] at h; simp [Res.state?] at h; subst h
    exact wrap_rel s s2 4 m 0 _ (by simp [ownView]) (hg s2 (by simp [hr, Res.state?]))

/-- **tags are fresh**: at every fuel the interpreter of commands never starts a callback under a tag that was
allocated before it was called -/
theorem runCmd_foreign (tag : Nat) (sc : Script) (cfg : Cfg) (qmax : Nat) : ∀ f, SubForeign tag (runCmd sc cfg qmax f)
  | 0 => fun _ s => Foreign.oof _ s
  | f + 1 => by
    have ih := runCmd_foreign tag sc cfg qmax f
    intro c s
    cases c with
    | trigger m ev =>
      show Foreign tag ((apiTrigger (runCmd sc cfg qmax f) sc cfg qmax m ev s).map fun _ => ()) s
      exact Foreign.map (apiTrigger_foreign ih sc cfg qmax m ev s) _
    | may m ev =>
      show Foreign tag ((apiMay (runCmd sc cfg qmax f) sc cfg m ev s).map fun _ => ()) s
      exact Foreign.map (apiMay_foreign ih sc cfg m ev s) _
    | dispatch ev =>
      show Foreign tag ((apiDispatch (runCmd sc cfg qmax f) sc cfg qmax ev s).map fun _ => ()) s
      exact Foreign.map (apiDispatch_foreign ih sc cfg qmax ev s) _
    | removeModel m => exact apiRemove_foreign tag m s
    | addModel m => exact apiAdd_foreign tag cfg m s

/-! ### part 2: what an event starts under its OWN tag -/

/-- `s'` continues `s`, and the callbacks started under `tag` in between are `v` -/
def Own (tag : Nat) (s s' : St) (v : List (Slot × Nat)) : Prop :=
  s.nextTag ≤ s'.nextTag ∧ ∃ seg, s'.log = s.log ++ seg ∧ ownView tag seg = v

theorem Own.nil (tag : Nat) (s : St) : Own tag s s [] := ⟨Nat.le_refl _, [], by simp, rfl⟩

theorem Own.of_rel {tag : Nat} {s s' : St} (h : Rel tag s s') : Own tag s s' [] := ⟨h.tagMono, h.log⟩

theorem Own.trans {tag : Nat} {a b c : St} {v w : List (Slot × Nat)} (h1 : Own tag a b v) (h2 : Own tag b c w) :
    Own tag a c (v ++ w) := by
  obtain ⟨n1, g1, l1, v1⟩ := h1
  obtain ⟨n2, g2, l2, v2⟩ := h2
  exact ⟨Nat.le_trans n1 n2, g1 ++ g2, by rw [l2, l1, List.append_assoc], by simp [ownView_append, v1, v2]⟩

section own
variable {tag : Nat} {sub : Sub} (hsub : SubForeign tag sub) (sc : Script) (cfg : Cfg)
include hsub

theorem invoke_own (slot : Slot) (x : Ctx) (hx : x.tag = tag) (c : Nat) (s : St) (hn : tag < s.nextTag)
    (b : Bool) (s' : St) (h : invoke sub sc slot x c s = .ok b s') : Own tag s s' (stage slot [c]) := by
  unfold invoke at h
  simp only [] at h
  have h0 : Own tag s (({ s with counts := aset c (s.count c + 1) s.counts } : St).emit
      (.call slot c x.model x.tag (({ s with counts := aset c (s.count c + 1) s.counts } : St).stateOf x.model)))
      (stage slot [c]) :=
    ⟨Nat.le_refl _, [_], rfl, by cases hw : watched slot <;> simp [ownView, hx, stage, hw]⟩
  have hc := runCmds_foreign hsub (sc c (s.count c)).cmds (({ s with counts := aset c (s.count c + 1) s.counts } : St).emit
      (.call slot c x.model x.tag (({ s with counts := aset c (s.count c + 1) s.counts } : St).stateOf x.model))) hn
  cases hr : runCmds sub (sc c (s.count c)).cmds (({ s with counts := aset c (s.count c + 1) s.counts } : St).emit
      (.call slot c x.model x.tag (({ s with counts := aset c (s.count c + 1) s.counts } : St).stateOf x.model))) with
  | oof => rw [hr] at h; simp at h
  | err e s3 => rw [hr] at h; simp at h
  | ok u s3 =>
    rw [hr] at h
    have h3 := hc s3 (by simp [hr, Res.state?])
    cases ho : (sc c (s.count c)).out with
    | raise e => simp [ho] at h
    | ret b' =>
      simp only [ho, Res.ok.injEq] at h
      obtain ⟨_, rfl⟩ := h
      have h4 : Own tag s3 (s3.emit (.done c (.ret b'))) [] := ⟨Nat.le_refl _, [_], rfl, by simp [ownView]⟩
      simpa using (h0.trans (Own.of_rel h3)).trans h4

theorem callbacks_own (slot : Slot) (x : Ctx) (hx : x.tag = tag) :
    ∀ (cbs : List Nat) (s : St), tag < s.nextTag → ∀ s', callbacks sub sc slot x cbs s = .ok () s' →
      Own tag s s' (stage slot cbs)
  | [], s, _, s', h => by
    simp only [callbacks, Res.ok.injEq, true_and] at h; subst h
    simpa [stage] using Own.nil tag s
  | c :: cs, s, hn, s', h => by
    unfold callbacks at h
    cases hi : invoke sub sc slot x c s with
    | oof => simp [hi, Res.bind] at h
    | err e s1 => simp [hi, Res.bind] at h
    | ok b s1 =>
      simp only [hi, Res.bind] at h
      have h1 := invoke_own hsub sc slot x hx c s hn b s1 hi
      have h2 := callbacks_own slot x hx cs s1 (Nat.lt_of_lt_of_le hn h1.1) s' h
      have := h1.trans h2
      cases hw : watched slot <;> simpa [stage, hw] using this

theorem evalConds_own (x : Ctx) (hx : x.tag = tag) :
    ∀ (cs : List Cond) (s : St), tag < s.nextTag → ∀ b s', evalConds sub sc x cs s = .ok b s' → Own tag s s' []
  | [], s, _, b, s', h => by
    simp only [evalConds, Res.ok.injEq] at h; obtain ⟨_, rfl⟩ := h; exact Own.nil tag s
  | c :: cs, s, hn, b, s', h => by
    unfold evalConds at h
    cases hi : invoke sub sc (if c.target then Slot.condition else Slot.unless) x c.cb s with
    | oof => simp [hi, Res.bind] at h
    | err e s1 => simp [hi, Res.bind] at h
    | ok b1 s1 =>
      simp only [hi, Res.bind] at h
      have h1 := invoke_own hsub sc _ x hx c.cb s hn b1 s1 hi
      have h1' : Own tag s s1 [] := by
        cases ht : c.target <;> simpa [stage, watched, ht] using h1
      split at h
      · simpa using h1'.trans (evalConds_own x hx cs s1 (Nat.lt_of_lt_of_le hn h1.1) b s' h)
      · simp only [Res.ok.injEq] at h; obtain ⟨_, rfl⟩ := h; exact h1'

/-- `_change_state`, for every script: the destination's on_enter callbacks, then the machine's on_final
callbacks iff THE DESTINATION is final — whatever the callbacks did to the model in between -/
theorem changeState_own (x : Ctx) (hx : x.tag = tag) (t : Trans) (d : Nat) (s : St) (hn : tag < s.nextTag)
    (s' : St) (h : changeState sub sc cfg x t d s = .ok () s') :
    ∃ dd, cfg.state? d = some dd ∧
      Own tag s s' (stage .onEnter dd.onEnter ++ (if dd.final then stage .onFinal cfg.onFinal else [])) := by
  unfold changeState at h
  cases hs : cfg.state? (s.stateOf x.model) with
  | none => simp [hs] at h
  | some src =>
    simp only [hs] at h
    cases h1 : callbacks sub sc .onExit x src.onExit s with
    | oof => simp [h1, Res.bind] at h
    | err e s1 => simp [h1, Res.bind] at h
    | ok u s1 =>
      simp only [h1, Res.bind] at h
      have o1 := callbacks_own hsub sc .onExit x hx _ s hn s1 h1
      cases hd : cfg.state? d with
      | none => simp [hd] at h
      | some dd =>
        simp only [hd] at h
        refine ⟨dd, rfl, ?_⟩
        have hn2 : tag < (s1.setState x.model d).nextTag := Nat.lt_of_lt_of_le hn o1.1
        have o12 : Own tag s1 (s1.setState x.model d) [] := ⟨Nat.le_refl _, [], by simp [St.setState], rfl⟩
        cases h2 : callbacks sub sc .onEnter x dd.onEnter (s1.setState x.model d) with
        | oof => simp [h2, Res.bind] at h
        | err e s3 => simp [h2, Res.bind] at h
        | ok u3 s3 =>
          simp only [h2, Res.bind] at h
          have o2 := callbacks_own hsub sc .onEnter x hx _ _ hn2 s3 h2
          have o : Own tag s s3 (stage .onEnter dd.onEnter) := by
            simpa [stage, watched] using (o1.trans o12).trans o2
          cases hf : dd.final with
          | false =>
            simp only [hf, Bool.false_eq_true, if_false, Res.ok.injEq, true_and] at h
            subst h
            simpa using o
          | true =>
            simp only [hf, if_true] at h
            have o3 := callbacks_own hsub sc .onFinal x hx _ s3 (Nat.lt_of_lt_of_le hn o.1) s' h
            simpa using o.trans o3

/-- `Transition.execute`, for every script: an executed transition starts, under its own tag, exactly
`transView cfg t`; a blocked candidate starts none of the watched callbacks -/
theorem execute_own (x : Ctx) (hx : x.tag = tag) (t : Trans) (s : St) (hn : tag < s.nextTag)
    (b : Bool) (s' : St) (h : execute sub sc cfg x t s = .ok b s') :
    Own tag s s' (if b then transView cfg t else []) := by
  unfold execute at h
  cases h1 : callbacks sub sc .prepare x t.prepare s with
  | oof => simp [h1, Res.bind] at h
  | err e s1 => simp [h1, Res.bind] at h
  | ok u1 s1 =>
    simp only [h1, Res.bind] at h
    have o1 := callbacks_own hsub sc .prepare x hx _ s hn s1 h1
    have n1 := Nat.lt_of_lt_of_le hn o1.1
    cases h2 : evalConds sub sc x t.conds s1 with
    | oof => simp [h2] at h
    | err e s2 => simp [h2] at h
    | ok ok s2 =>
      simp only [h2] at h
      have o2 := evalConds_own hsub sc x hx _ s1 n1 ok s2 h2
      have o12 : Own tag s s2 [] := by simpa [stage, watched] using o1.trans o2
      have n2 := Nat.lt_of_lt_of_le hn o12.1
      cases ok with
      | false =>
        simp only [Bool.not_false, if_true, Res.ok.injEq] at h
        obtain ⟨rfl, rfl⟩ := h
        simpa using o12
      | true =>
        simp only [Bool.not_true, Bool.false_eq_true, if_false] at h
        cases h3 : callbacks sub sc .beforeSC x cfg.beforeSC s2 with
        | oof => simp [h3, Res.bind] at h
        | err e s3 => simp [h3, Res.bind] at h
        | ok u3 s3 =>
          simp only [h3, Res.bind] at h
          have o3 := callbacks_own hsub sc .beforeSC x hx _ s2 n2 s3 h3
          have n3 := Nat.lt_of_lt_of_le n2 o3.1
          cases h4 : callbacks sub sc .before x t.before s3 with
          | oof => simp [h4, Res.bind] at h
          | err e s4 => simp [h4, Res.bind] at h
          | ok u4 s4 =>
            simp only [h4, Res.bind] at h
            have o4 := callbacks_own hsub sc .before x hx _ s3 n3 s4 h4
            have n4 := Nat.lt_of_lt_of_le n3 o4.1
            have o14 : Own tag s s4 [] := by simpa [stage, watched] using (o12.trans o3).trans o4
            -- the rest, given what the state change started
            have rest : ∀ (s5 : St) (v : List (Slot × Nat)), Own tag s4 s5 v → v ++ stage .after t.after = transView cfg t →
                ((callbacks sub sc .after x t.after s5).bind fun _ s6 =>
                  (callbacks sub sc .afterSC x cfg.afterSC s6).bind fun _ s7 => (.ok true s7 : R Bool)) = .ok b s' →
                Own tag s s' (if b then transView cfg t else []) := by
              intro s5 v o5 hv h
              have n5 := Nat.lt_of_lt_of_le n4 o5.1
              cases h6 : callbacks sub sc .after x t.after s5 with
              | oof => simp [h6, Res.bind] at h
              | err e s6 => simp [h6, Res.bind] at h
              | ok u6 s6 =>
                simp only [h6, Res.bind] at h
                have o6 := callbacks_own hsub sc .after x hx _ s5 n5 s6 h6
                have n6 := Nat.lt_of_lt_of_le n5 o6.1
                cases h7 : callbacks sub sc .afterSC x cfg.afterSC s6 with
                | oof => simp [h7] at h
                | err e s7 => simp [h7] at h
                | ok u7 s7 =>
                  simp only [h7, Res.ok.injEq] at h
                  obtain ⟨rfl, rfl⟩ := h
                  have o7 := callbacks_own hsub sc .afterSC x hx _ s6 n6 s7 h7
                  have := ((o14.trans o5).trans o6).trans o7
                  rw [← hv]
                  simpa [stage, watched, List.append_assoc] using this
            cases hd : t.dest with
            | none =>
              simp only [hd, Res.bind] at h
              exact rest s4 [] (Own.nil _ _) (by simp [transView, hd]) h
            | some d =>
              simp only [hd] at h
              cases h5 : changeState sub sc cfg x t d s4 with
              | oof => simp [h5, Res.bind] at h
              | err e s5 => simp [h5, Res.bind] at h
              | ok u5 s5 =>
                simp only [h5, Res.bind] at h
                obtain ⟨dd, hdd, o5⟩ := changeState_own hsub sc cfg x hx t d s4 n4 s5 h5
                exact rest s5 _ o5 (by simp [transView, hd, hdd]) h

/-- the candidate loop of one event, for every script: some `w` explains what the event starts under its tag -/
theorem tryTransitions_own (x : Ctx) (hx : x.tag = tag) :
    ∀ (ts : List Trans) (s : St), tag < s.nextTag → ∀ b s', tryTransitions sub sc cfg x ts s = .ok b s' →
      ∃ w : Option Trans, Own tag s s' (eventView cfg w) ∧ w.isSome = b ∧ ∀ t, w = some t → t ∈ ts
  | [], s, _, b, s', h => by
    simp only [tryTransitions, Res.ok.injEq] at h; obtain ⟨rfl, rfl⟩ := h
    exact ⟨none, by simpa [eventView] using Own.nil tag s, rfl, by simp⟩
  | t :: ts, s, hn, b, s', h => by
    unfold tryTransitions at h
    cases he : execute sub sc cfg x t s with
    | oof => simp [he, Res.bind] at h
    | err e s1 => simp [he, Res.bind] at h
    | ok ok s1 =>
      simp only [he, Res.bind] at h
      have o1 := execute_own hsub sc cfg x hx t s hn ok s1 he
      cases ok with
      | true =>
        simp only [if_true, Res.ok.injEq] at h; obtain ⟨rfl, rfl⟩ := h
        exact ⟨some t, by simpa [eventView] using o1, rfl, by simp⟩
      | false =>
        simp only [Bool.false_eq_true, if_false] at h
        obtain ⟨w, o2, hw, hin⟩ := tryTransitions_own x hx ts s1 (Nat.lt_of_lt_of_le hn o1.1) b s' h
        refine ⟨w, by simpa using o1.trans o2, hw, fun t' ht' => by simp [hin t' ht']⟩

end own
end C18
end TM
