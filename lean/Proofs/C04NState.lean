/-
  Proofs/C04NState.lean — where the configuration is after a failed transition / event of the hierarchical engine
  (scripts without re-entrant commands; any callback may raise):

    * `nexecute_failure_state`: the trace of a failed `Transition.execute` is `pre ++ post` where `pre` holds only
      callbacks of the stages before `_update_model` (prepare, conditions, unless, before_state_change, before,
      the exit chain) and `post` only callbacks of the stages after it (the enter chain, on_final, after,
      after_state_change); the configuration is unchanged when `post = []` (or the transition is internal) and is
      the resolved destination configuration otherwise — nothing else, no rollback;
    * `ConfReach`: configurations reachable by resolved state changes; every trigger call / history moves the
      configuration along `ConfReach` whatever fails (`napiTrigger_confReach`), handlers and finalize callbacks do not
      move it.
-/
import Proofs.C02Frame

namespace TM
open C02

/-- every callback invocation recorded in the segment is in a slot satisfying `P` -/
def OnlySlots (P : Slot → Bool) (seg : List Item) : Prop :=
  ∀ sl c m t st, Item.call sl c m t st ∈ seg → P sl = true

theorem OnlySlots.nil (P : Slot → Bool) : OnlySlots P [] := by intro sl c m t st h; cases h

theorem OnlySlots.append {P : Slot → Bool} {a b : List Item} (h1 : OnlySlots P a) (h2 : OnlySlots P b) :
    OnlySlots P (a ++ b) := by
  intro sl c m t st h
  rcases List.mem_append.1 h with h | h
  · exact h1 sl c m t st h
  · exact h2 sl c m t st h

theorem OnlySlots.mono {P Q : Slot → Bool} {a : List Item} (h : OnlySlots P a) (hpq : ∀ sl, P sl = true → Q sl = true) :
    OnlySlots Q a := fun sl c m t st hm => hpq sl (h sl c m t st hm)

/-- the stages of a transition before `_update_model` -/
def Slot.beforeUpdate : Slot → Bool
  | .prepare | .condition | .unless | .beforeSC | .before | .onExit => true
  | _ => false

/-- the stages of a transition after `_update_model` -/
def Slot.afterUpdate : Slot → Bool
  | .onEnter | .onFinal | .after | .afterSC => true
  | _ => false

/-- what a stage (a list of callbacks run with `ncallbacks`, a condition list, a chain) does when no callback
issues commands: it appends calls of its own slots and leaves the configuration alone -/
structure Stage (P : Slot → Bool) (s s' : NSt) : Prop where
  seg : ∃ g, s'.log = s.log ++ g ∧ OnlySlots P g
  conf : s'.conf = s.conf

theorem Stage.refl (P : Slot → Bool) (s : NSt) : Stage P s s := ⟨⟨[], by simp, OnlySlots.nil P⟩, rfl⟩

theorem Stage.trans {P : Slot → Bool} {a b c : NSt} (h1 : Stage P a b) (h2 : Stage P b c) : Stage P a c := by
  obtain ⟨⟨g1, l1, o1⟩, c1⟩ := h1
  obtain ⟨⟨g2, l2, o2⟩, c2⟩ := h2
  exact ⟨⟨g1 ++ g2, by rw [l2, l1, List.append_assoc], o1.append o2⟩, c2.trans c1⟩

theorem Stage.mono {P Q : Slot → Bool} {a b : NSt} (h : Stage P a b) (hpq : ∀ sl, P sl = true → Q sl = true) : Stage Q a b := by
  obtain ⟨⟨g, l, o⟩, c⟩ := h
  exact ⟨⟨g, l, o.mono hpq⟩, c⟩

/-- start from a state with the same log and configuration -/
theorem Stage.from {P : Slot → Bool} {a a0 b : NSt} (h : Stage P a0 b) (hl : a0.log = a.log) (hc : a0.conf = a.conf) :
    Stage P a b := by
  obtain ⟨⟨g, l, o⟩, c⟩ := h
  exact ⟨⟨g, by rw [← hl]; exact l, o⟩, c.trans hc⟩

section
variable (sub : NSub) (sc : Script) (cfg : NCfg)

theorem ninvoke_stage (hC : NoCmds sc) (slot : Slot) (x : Ctx) (c : Nat) (s s' : NSt)
    (h : (ninvoke sub sc cfg slot x c s).state? = some s') : Stage (fun sl => sl == slot) s s' := by
  simp only [ninvoke, hC c, nrunCmds] at h
  have hseg : ∀ o : Out, OnlySlots (fun sl => sl == slot) [.call slot c x.model x.tag (confMask cfg s.conf), .done c o] := by
    intro o sl c' m t st hm
    simp only [List.mem_cons, Item.call.injEq, List.mem_nil_iff, or_false, reduceCtorEq] at hm
    simp [hm.1]
  cases ho : (sc c (s.count c)).out with
  | ret b =>
    simp only [ho, Res.state?, Option.some.injEq] at h; subst h
    exact ⟨⟨_, by simp [NSt.emit], hseg (.ret b)⟩, rfl⟩
  | raise e =>
    simp only [ho, Res.state?, Option.some.injEq] at h; subst h
    exact ⟨⟨_, by simp [NSt.emit], hseg (.raise e)⟩, rfl⟩

theorem ncallbacks_stage (hC : NoCmds sc) (slot : Slot) (x : Ctx) : ∀ (cbs : List Nat) (s s' : NSt),
    (ncallbacks sub sc cfg slot x cbs s).state? = some s' → Stage (fun sl => sl == slot) s s'
  | [], s, s', h => by simp only [ncallbacks, Res.state?, Option.some.injEq] at h; subst h; exact Stage.refl _ _
  | c :: cs, s, s', h => by
    unfold ncallbacks at h
    cases hi : ninvoke sub sc cfg slot x c s with
    | oof => simp [hi, Res.bind, Res.state?] at h
    | err e s1 =>
      simp only [hi, Res.bind, Res.state?, Option.some.injEq] at h; subst h
      exact ninvoke_stage sub sc cfg hC slot x c s s1 (by rw [hi]; rfl)
    | ok b s1 =>
      simp only [hi, Res.bind] at h
      exact (ninvoke_stage sub sc cfg hC slot x c s s1 (by rw [hi]; rfl)).trans (ncallbacks_stage hC slot x cs s1 s' h)

theorem nevalConds_stage (hC : NoCmds sc) (x : Ctx) : ∀ (cs : List Cond) (s s' : NSt),
    (nevalConds sub sc cfg x cs s).state? = some s' → Stage (fun sl => sl == .condition || sl == .unless) s s'
  | [], s, s', h => by simp only [nevalConds, Res.state?, Option.some.injEq] at h; subst h; exact Stage.refl _ _
  | c :: cs, s, s', h => by
    unfold nevalConds at h
    have hm : ∀ s1, (ninvoke sub sc cfg (if c.target then .condition else .unless) x c.cb s).state? = some s1 →
        Stage (fun sl => sl == .condition || sl == .unless) s s1 := fun s1 h1 =>
      (ninvoke_stage sub sc cfg hC _ x c.cb s s1 h1).mono (by
        intro sl hsl; cases c.target <;> simp_all)
    cases hi : ninvoke sub sc cfg (if c.target then .condition else .unless) x c.cb s with
    | oof => simp [hi, Res.bind, Res.state?] at h
    | err e s1 =>
      simp only [hi, Res.bind, Res.state?, Option.some.injEq] at h; subst h
      exact hm s1 (by rw [hi]; rfl)
    | ok b s1 =>
      simp only [hi, Res.bind] at h
      split at h
      · exact (hm s1 (by rw [hi]; rfl)).trans (nevalConds_stage hC x cs s1 s' h)
      · simp only [Res.state?, Option.some.injEq] at h; subst h; exact hm s1 (by rw [hi]; rfl)

theorem exitAll_stage (hC : NoCmds sc) (x : Ctx) : ∀ (fs : List Found) (s s' : NSt),
    (exitAll sub sc cfg x fs s).state? = some s' → Stage (fun sl => sl == .onExit) s s'
  | [], s, s', h => by simp only [exitAll, Res.state?, Option.some.injEq] at h; subst h; exact Stage.refl _ _
  | f :: fs, s, s', h => by
    unfold exitAll at h
    cases hi : ncallbacks sub sc cfg .onExit x f.d.onExit (s.emitG (.exit f.path)) with
    | oof => simp [hi, Res.bind, Res.state?] at h
    | err e s1 =>
      simp only [hi, Res.bind, Res.state?, Option.some.injEq] at h; subst h
      exact Stage.from (a0 := s.emitG (.exit f.path))
        (ncallbacks_stage sub sc cfg hC _ x _ _ s1 (by rw [hi]; rfl)) rfl rfl
    | ok b s1 =>
      simp only [hi, Res.bind] at h
      exact (Stage.from (a := s) (a0 := s.emitG (.exit f.path))
        (ncallbacks_stage sub sc cfg hC _ x _ _ s1 (by rw [hi]; rfl)) rfl rfl).trans
        (exitAll_stage hC x fs s1 s' h)

theorem enterAll_stage (hC : NoCmds sc) (x : Ctx) : ∀ (fs : List Found) (s s' : NSt),
    (enterAll sub sc cfg x fs s).state? = some s' → Stage (fun sl => sl == .onEnter) s s'
  | [], s, s', h => by simp only [enterAll, Res.state?, Option.some.injEq] at h; subst h; exact Stage.refl _ _
  | f :: fs, s, s', h => by
    unfold enterAll at h
    cases hi : ncallbacks sub sc cfg .onEnter x f.d.onEnter (s.emitG (.enter f.path)) with
    | oof => simp [hi, Res.bind, Res.state?] at h
    | err e s1 =>
      simp only [hi, Res.bind, Res.state?, Option.some.injEq] at h; subst h
      exact Stage.from (a0 := s.emitG (.enter f.path))
        (ncallbacks_stage sub sc cfg hC _ x _ _ s1 (by rw [hi]; rfl)) rfl rfl
    | ok b s1 =>
      simp only [hi, Res.bind] at h
      exact (Stage.from (a := s) (a0 := s.emitG (.enter f.path))
        (ncallbacks_stage sub sc cfg hC _ x _ _ s1 (by rw [hi]; rfl)) rfl rfl).trans
        (enterAll_stage hC x fs s1 s' h)

theorem nfinalStage_stage (hC : NoCmds sc) (scope : Scope) (x : Ctx) (dest : Option SPath) (conf0 : Forest) (s s' : NSt)
    (h : (nfinalStage sub sc cfg scope x dest conf0 s).state? = some s') : Stage (fun sl => sl == .onFinal) s s' := by
  rcases nfinalStage_cases sub sc cfg scope x dest conf0 s with h1 | ⟨cbs, h1⟩ | ⟨e, _, h1⟩ | h1 <;> rw [h1] at h
  · simp only [Res.state?, Option.some.injEq] at h; subst h; exact Stage.refl _ _
  · exact ncallbacks_stage sub sc cfg hC _ x cbs s s' h
  · simp only [Res.state?, Option.some.injEq] at h; subst h; exact Stage.refl _ _
  · simp [Res.state?] at h

theorem bind_err_cases {α β : Type} {r : NR α} {f : α → NSt → NR β} {e : Exc} {s' : NSt}
    (h : r.bind f = .err e s') : r = .err e s' ∨ ∃ v s1, r = .ok v s1 ∧ f v s1 = .err e s' := by
  cases r with
  | ok v s1 => exact Or.inr ⟨v, s1, rfl, h⟩
  | err e1 s1 => simp only [Res.bind, Res.err.injEq] at h; obtain ⟨rfl, rfl⟩ := h; exact Or.inl rfl
  | oof => simp [Res.bind] at h

theorem bind_ok_cases {α β : Type} {r : NR α} {f : α → NSt → NR β} {b : β} {s' : NSt}
    (h : r.bind f = .ok b s') : ∃ v s1, r = .ok v s1 ∧ f v s1 = .ok b s' := by
  cases r with
  | ok v s1 => exact ⟨v, s1, rfl, h⟩
  | err e1 s1 => simp [Res.bind] at h
  | oof => simp [Res.bind] at h

/-- `_change_state` up to the enter chain: exits with the configuration as it was, `_update_model`, enters with the
destination configuration.  Completed: the configuration is the destination.  Failed: unchanged iff the failure was
the resolution or inside the exit chain. -/
theorem nchangeState_split (hC : NoCmds sc) (scope : Scope) (x : Ctx) (d : SPath) (s s' : NSt)
    (h : (nchangeState sub sc cfg scope x d s).state? = some s') :
    ∃ pre post, s'.log = s.log ++ pre ++ post ∧ OnlySlots (fun sl => sl == .onExit) pre ∧
      OnlySlots (fun sl => sl == .onEnter) post ∧
      ((post = [] ∧ s'.conf = s.conf ∧ ∃ e, nchangeState sub sc cfg scope x d s = .err e s') ∨
       (∃ r, resolveTransition cfg.root scope s.conf d = .ok r ∧ s'.conf = r.tree)) := by
  unfold nchangeState at h ⊢
  cases hr : resolveTransition cfg.root scope s.conf d with
  | oof => simp [hr, Res.state?] at h
  | err e =>
    simp only [hr, Res.state?, Option.some.injEq] at h; subst h
    exact ⟨[], [], by simp, OnlySlots.nil _, OnlySlots.nil _, Or.inl ⟨rfl, rfl, e, rfl⟩⟩
  | ok r =>
    simp only [hr] at h ⊢
    cases hx : exitAll sub sc cfg x r.exits { s with exited := s.exited ++ r.exitNames } with
    | oof => simp [hx, Res.bind, Res.state?] at h
    | err e s1 =>
      simp only [hx, Res.bind, Res.state?, Option.some.injEq] at h; subst h
      obtain ⟨⟨g, l, o⟩, c⟩ := exitAll_stage sub sc cfg hC x r.exits _ s1 (by rw [hx]; rfl)
      exact ⟨g, [], by simpa using l, o, OnlySlots.nil _, Or.inl ⟨rfl, c, e, rfl⟩⟩
    | ok u s1 =>
      simp only [hx, Res.bind] at h
      obtain ⟨⟨g, l, o⟩, c⟩ := exitAll_stage sub sc cfg hC x r.exits _ s1 (by rw [hx]; rfl)
      obtain ⟨⟨g2, l2, o2⟩, c2⟩ := enterAll_stage sub sc cfg hC x r.enters _ s' h
      refine ⟨g, g2, ?_, o, o2, Or.inr ⟨r, rfl, c2⟩⟩
      rw [l2]; show s1.log ++ g2 = _; rw [l]

/-- where the configuration is after a failed `Transition.execute`; `pre` / `post` = the callbacks it ran before /
after `_update_model` -/
theorem nexecute_failure_state (hC : NoCmds sc) (scope : Scope) (x : Ctx) (tr : TRef) (t : NTrans) (s s' : NSt) (e : Exc)
    (h : nexecute sub sc cfg scope x tr t s = .err e s') :
    ∃ pre post, s'.log = s.log ++ pre ++ post ∧ OnlySlots Slot.beforeUpdate pre ∧ OnlySlots Slot.afterUpdate post ∧
      (((post = [] ∨ t.dest = none) ∧ s'.conf = s.conf) ∨
       (∃ d r, t.dest = some d ∧ resolveTransition cfg.root scope s.conf d = .ok r ∧ s'.conf = r.tree)) := by
  have st : ∀ (slot : Slot) (cbs : List Nat) (a b : NSt), slot.beforeUpdate = true →
      (ncallbacks sub sc cfg slot x cbs a).state? = some b → Stage Slot.beforeUpdate a b := fun slot cbs a b hs hab =>
    (ncallbacks_stage sub sc cfg hC slot x cbs a b hab).mono (by intro sl h1; simp at h1; subst h1; exact hs)
  have sa : ∀ (slot : Slot) (cbs : List Nat) (a b : NSt), slot.afterUpdate = true →
      (ncallbacks sub sc cfg slot x cbs a).state? = some b → Stage Slot.afterUpdate a b := fun slot cbs a b hs hab =>
    (ncallbacks_stage sub sc cfg hC slot x cbs a b hab).mono (by intro sl h1; simp at h1; subst h1; exact hs)
  -- a failure in a pre-update stage
  have early : ∀ b : NSt, Stage Slot.beforeUpdate s b → b = s' →
      ∃ pre post, s'.log = s.log ++ pre ++ post ∧ OnlySlots Slot.beforeUpdate pre ∧ OnlySlots Slot.afterUpdate post ∧
      (((post = [] ∨ t.dest = none) ∧ s'.conf = s.conf) ∨
       (∃ d r, t.dest = some d ∧ resolveTransition cfg.root scope s.conf d = .ok r ∧ s'.conf = r.tree)) := by
    intro b hb hbe; subst hbe
    obtain ⟨⟨g, l, o⟩, c⟩ := hb
    exact ⟨g, [], by simpa using l, o, OnlySlots.nil _, Or.inl ⟨Or.inl rfl, c⟩⟩
  unfold nexecute at h
  rcases bind_err_cases h with h1 | ⟨_, s1, h1, h⟩
  · exact early s' (Stage.from (a0 := s.emitG (.cand tr)) (st _ _ _ _ rfl (by rw [h1]; rfl)) rfl rfl) rfl
  have q1 : Stage Slot.beforeUpdate s s1 := Stage.from (a0 := s.emitG (.cand tr)) (st _ _ _ _ rfl (by rw [h1]; rfl)) rfl rfl
  rcases bind_err_cases h with h2 | ⟨ok, s2, h2, h⟩
  · exact early s' (q1.trans ((nevalConds_stage sub sc cfg hC x _ s1 s' (by rw [h2]; rfl)).mono (by
      intro sl hs; simp at hs; rcases hs with rfl | rfl <;> rfl))) rfl
  have q2 : Stage Slot.beforeUpdate s s2 := q1.trans ((nevalConds_stage sub sc cfg hC x _ s1 s2 (by rw [h2]; rfl)).mono (by
      intro sl hs; simp at hs; rcases hs with rfl | rfl <;> rfl))
  cases ok with
  | false => simp at h
  | true =>
  simp only [Bool.not_true, Bool.false_eq_true, if_false] at h
  rcases bind_err_cases h with h3 | ⟨_, s3, h3, h⟩
  · exact early s' (q2.trans (st _ _ _ _ rfl (by rw [h3]; rfl))) rfl
  have q3 : Stage Slot.beforeUpdate s s3 := q2.trans (st _ _ _ _ rfl (by rw [h3]; rfl))
  rcases bind_err_cases h with h4 | ⟨_, s4, h4, h⟩
  · exact early s' (q3.trans (Stage.from (a0 := s3.emitG (.exec tr)) (st _ _ _ _ rfl (by rw [h4]; rfl)) rfl rfl)) rfl
  have q4 : Stage Slot.beforeUpdate s s4 :=
    q3.trans (Stage.from (a0 := s3.emitG (.exec tr)) (st _ _ _ _ rfl (by rw [h4]; rfl)) rfl rfl)
  obtain ⟨⟨g4, l4, o4⟩, c4⟩ := q4
  -- the state change: `s5` with the trace split in `pre5 ++ post5` and the configuration `c5`
  have key : ∀ (s5 : NSt) (pre5 post5 : List Item), s5.log = s.log ++ pre5 ++ post5 →
      OnlySlots Slot.beforeUpdate pre5 → OnlySlots Slot.afterUpdate post5 →
      ((t.dest = none ∧ s5.conf = s.conf) ∨
        (∃ d r, t.dest = some d ∧ resolveTransition cfg.root scope s.conf d = .ok r ∧ s5.conf = r.tree)) →
      ∀ b : NSt, Stage Slot.afterUpdate s5 b → b = s' →
      ∃ pre post, s'.log = s.log ++ pre ++ post ∧ OnlySlots Slot.beforeUpdate pre ∧ OnlySlots Slot.afterUpdate post ∧
      (((post = [] ∨ t.dest = none) ∧ s'.conf = s.conf) ∨
       (∃ d r, t.dest = some d ∧ resolveTransition cfg.root scope s.conf d = .ok r ∧ s'.conf = r.tree)) := by
    intro s5 pre5 post5 l5 op5 oq5 hc5 b hb hbe; subst hbe
    obtain ⟨⟨g, l, o⟩, c⟩ := hb
    refine ⟨pre5, post5 ++ g, by rw [l, l5]; simp, op5, oq5.append o, ?_⟩
    rcases hc5 with ⟨hd, hc⟩ | ⟨d, r, hd, hr, hc⟩
    · exact Or.inl ⟨Or.inr hd, c.trans hc⟩
    · exact Or.inr ⟨d, r, hd, hr, c.trans hc⟩
  rcases bind_err_cases h with h5 | ⟨_, s5, h5, h⟩
  · -- the failure is in the state change
    cases hd : t.dest with
    | none => simp [hd] at h5
    | some d =>
      simp only [hd] at h5
      obtain ⟨pre, post, l, op, oq, hcase⟩ := nchangeState_split sub sc cfg hC scope x d s4 s' (by rw [h5]; rfl)
      refine ⟨g4 ++ pre, post, by rw [l, l4]; simp, o4.append (op.mono (by intro sl hs; simp at hs; subst hs; rfl)),
        oq.mono (by intro sl hs; simp at hs; subst hs; rfl), ?_⟩
      rcases hcase with ⟨hp, hc, _⟩ | ⟨r, hr, hc⟩
      · exact Or.inl ⟨Or.inl hp, hc.trans c4⟩
      · exact Or.inr ⟨d, r, rfl, by rw [← c4]; exact hr, hc⟩
  -- the state change completed
  obtain ⟨pre5, post5, l5, op5, oq5, hc5⟩ : ∃ pre5 post5, s5.log = s.log ++ pre5 ++ post5 ∧
      OnlySlots Slot.beforeUpdate pre5 ∧ OnlySlots Slot.afterUpdate post5 ∧
      ((t.dest = none ∧ s5.conf = s.conf) ∨
        (∃ d r, t.dest = some d ∧ resolveTransition cfg.root scope s.conf d = .ok r ∧ s5.conf = r.tree)) := by
    cases hd : t.dest with
    | none =>
      simp only [hd, Res.ok.injEq, true_and] at h5; subst h5
      exact ⟨g4, [], by simpa using l4, o4, OnlySlots.nil _, Or.inl ⟨rfl, c4⟩⟩
    | some d =>
      simp only [hd] at h5
      obtain ⟨pre, post, l, op, oq, hcase⟩ := nchangeState_split sub sc cfg hC scope x d s4 s5 (by rw [h5]; rfl)
      refine ⟨g4 ++ pre, post, by rw [l, l4]; simp, o4.append (op.mono (by intro sl hs; simp at hs; subst hs; rfl)),
        oq.mono (by intro sl hs; simp at hs; subst hs; rfl), ?_⟩
      rcases hcase with ⟨_, _, e', he'⟩ | ⟨r, hr, hc⟩
      · rw [h5] at he'; cases he'
      · exact Or.inr ⟨d, r, rfl, by rw [← c4]; exact hr, hc⟩
  have fin : ∀ a b : NSt, (nfinalStage sub sc cfg scope x t.dest s4.conf a).state? = some b → Stage Slot.afterUpdate a b :=
    fun a b hab => (nfinalStage_stage sub sc cfg hC scope x _ _ a b hab).mono (by intro sl hs; simp at hs; subst hs; rfl)
  rcases bind_err_cases h with h6 | ⟨_, s6, h6, h⟩
  · exact key s5 pre5 post5 l5 op5 oq5 hc5 s' (fin _ _ (by rw [h6]; rfl)) rfl
  have r6 : Stage Slot.afterUpdate s5 s6 := fin _ _ (by rw [h6]; rfl)
  rcases bind_err_cases h with h7 | ⟨_, s7, h7, h⟩
  · exact key s5 pre5 post5 l5 op5 oq5 hc5 s' (r6.trans (sa _ _ _ _ rfl (by rw [h7]; rfl))) rfl
  have r7 : Stage Slot.afterUpdate s5 s7 := r6.trans (sa _ _ _ _ rfl (by rw [h7]; rfl))
  rcases bind_err_cases h with h8 | ⟨_, s8, h8, h⟩
  · exact key s5 pre5 post5 l5 op5 oq5 hc5 s' (r7.trans (sa _ _ _ _ rfl (by rw [h8]; rfl))) rfl
  · cases h

/-- a completed `Transition.execute`: blocked → configuration unchanged; executed → the destination configuration
(unchanged for an internal transition) -/
theorem nexecute_success_state (hC : NoCmds sc) (scope : Scope) (x : Ctx) (tr : TRef) (t : NTrans) (s s' : NSt) (b : Bool)
    (h : nexecute sub sc cfg scope x tr t s = .ok b s') :
    (b = false → s'.conf = s.conf) ∧
    (b = true → match t.dest with
      | none => s'.conf = s.conf
      | some d => ∃ r, resolveTransition cfg.root scope s.conf d = .ok r ∧ s'.conf = r.tree) := by
  have cb : ∀ (slot : Slot) (cbs : List Nat) (a b : NSt),
      ncallbacks sub sc cfg slot x cbs a = .ok () b → b.conf = a.conf := fun slot cbs a b hab =>
    congrArg View.conf (ncallbacks_view sub sc cfg hC slot x cbs a b (by rw [hab]; rfl))
  unfold nexecute at h
  obtain ⟨_, s1, h1, h⟩ := bind_ok_cases h
  obtain ⟨ok, s2, h2, h⟩ := bind_ok_cases h
  have c1 : s1.conf = s.conf := cb _ _ (s.emitG (.cand tr)) _ h1
  have c2 : s2.conf = s.conf :=
    (congrArg View.conf (nevalConds_view sub sc cfg hC x _ s1 s2 (by rw [h2]; rfl))).trans c1
  cases ok with
  | false =>
    simp only [Bool.not_false, if_true, Res.ok.injEq] at h
    obtain ⟨rfl, rfl⟩ := h
    exact ⟨fun _ => c2, fun hb => (by cases hb)⟩
  | true =>
    simp only [Bool.not_true, Bool.false_eq_true, if_false] at h
    obtain ⟨_, s3, h3, h⟩ := bind_ok_cases h
    obtain ⟨_, s4, h4, h⟩ := bind_ok_cases h
    obtain ⟨_, s5, h5, h⟩ := bind_ok_cases h
    obtain ⟨_, s6, h6, h⟩ := bind_ok_cases h
    obtain ⟨_, s7, h7, h⟩ := bind_ok_cases h
    obtain ⟨_, s8, h8, h⟩ := bind_ok_cases h
    cases h
    have c4 : s4.conf = s.conf := (cb _ _ (s3.emitG (.exec tr)) _ h4).trans ((cb _ _ _ _ h3).trans c2)
    have c58 : s'.conf = s5.conf :=
      (cb _ _ _ _ h8).trans ((cb _ _ _ _ h7).trans
        (congrArg View.conf (nfinalStage_view sub sc cfg hC scope x _ _ s5 s6 (by rw [h6]; rfl))))
    refine ⟨fun hb => (by cases hb), fun _ => ?_⟩
    cases hd : t.dest with
    | none =>
      simp only [hd, Res.ok.injEq, true_and] at h5; subst h5
      exact c58.trans c4
    | some d =>
      simp only [hd] at h5
      obtain ⟨pre, post, _, _, _, hcase⟩ := nchangeState_split sub sc cfg hC scope x d s4 s5 (by rw [h5]; rfl)
      rcases hcase with ⟨_, _, e', he'⟩ | ⟨r, hr, hc⟩
      · rw [h5] at he'; cases he'
      · exact ⟨r, by rw [← c4]; exact hr, c58.trans hc⟩

end

/-- configurations reachable by resolved state changes of declared scopes -/
inductive ConfReach (cfg : NCfg) : Forest → Forest → Prop
  | refl (c : Forest) : ConfReach cfg c c
  | step {c c' : Forest} (scope : Scope) (d : SPath) (r : Resolved) :
      cfg.root.walkTo scope.pre = some scope → resolveTransition cfg.root scope c d = .ok r →
      ConfReach cfg r.tree c' → ConfReach cfg c c'

theorem ConfReach.trans {cfg : NCfg} {a b c : Forest} (h1 : ConfReach cfg a b) (h2 : ConfReach cfg b c) :
    ConfReach cfg a c := by
  induction h1 with
  | refl _ => exact h2
  | step scope d r hw hr _ ih => exact .step scope d r hw hr (ih h2)

/-- the relation is closed in the sense of the frame theorem of `Proofs/C02Frame.lean`: whatever the dispatch code
does, whatever fails, the configuration only moves by resolved state changes — a failed one moves it either not at
all or all the way -/
theorem confReach_closed (cfg : NCfg) (sub : NSub) (sc : Script) (hC : NoCmds sc) :
    Closed cfg sub sc (fun v w => ConfReach cfg v.conf w.conf) where
  refl := fun v => .refl _
  trans := fun h1 h2 => h1.trans h2
  mark := fun v e _ _ => .refl _
  execChange := by
    intro scope x dest tr s s' hw h
    obtain ⟨_, _, _, _, _, hcase⟩ := nchangeState_split sub sc cfg hC scope x dest _ s' h
    rcases hcase with ⟨_, hc, _⟩ | ⟨r, hr, hc⟩
    · show ConfReach cfg s.conf s'.conf
      rw [hc]; exact .refl _
    · show ConfReach cfg s.conf s'.conf
      rw [hc]; exact .step scope dest r hw hr (.refl _)

/-- one trigger call, failed or not: the configuration afterwards is reachable by resolved state changes -/
theorem napiTrigger_confReach (cfg : NCfg) (sub : NSub) (sc : Script) (hC : NoCmds sc) (qmax ev : Nat) (s s' : NSt)
    (h : (napiTrigger sub sc cfg qmax ev s).state? = some s') : ConfReach cfg s.conf s'.conf :=
  frame_apiTrigger cfg sub sc _ hC (confReach_closed cfg sub sc hC) qmax ev s s' h

theorem nrunHistory_confReach (cfg : NCfg) (sc : Script) (hC : NoCmds sc) (qmax fuel : Nat) (evs : List Nat) (s s' : NSt)
    (h : nrunHistory sc cfg qmax fuel evs s = some s') : ConfReach cfg s.conf s'.conf :=
  frame_history cfg sc _ hC (fun sub => confReach_closed cfg sub sc hC) qmax fuel evs s s' h

/-- the on_exception handlers and the finalize callbacks do not move the configuration: after the event it is what
the `try:` part left -/
theorem ntriggerEvent_conf_frozen (cfg : NCfg) (sub : NSub) (sc : Script) (hC : NoCmds sc) (x : Ctx) (ev : Nat) (s s' : NSt)
    (h : (ntriggerEvent sub sc cfg x ev s).state? = some s') :
    ∃ s1, (triggerEventBody sub sc cfg x ev { s with result := none, exited := [] }).state? = some s1 ∧
      s'.conf = s1.conf := by
  have fin : ∀ a b : NSt, nfinalize sub sc cfg x a = some b → b.conf = a.conf := by
    intro a b hab
    unfold nfinalize at hab
    cases hc : ncallbacks sub sc cfg .finalize x cfg.finalize (a.emitG (.fin x.tag (confMask cfg a.conf))) with
    | oof => simp [hc] at hab
    | ok u s2 =>
      simp only [hc, Option.some.injEq] at hab; subst hab
      exact congrArg View.conf (ncallbacks_view sub sc cfg hC _ x _ (a.emitG (.fin x.tag (confMask cfg a.conf))) s2
        (by rw [hc]; rfl))
    | err e s2 =>
      simp only [hc, Option.some.injEq] at hab; subst hab
      exact congrArg View.conf (ncallbacks_view sub sc cfg hC _ x _ (a.emitG (.fin x.tag (confMask cfg a.conf))) s2
        (by rw [hc]; rfl))
  unfold ntriggerEvent at h
  simp only [] at h
  cases hb : triggerEventBody sub sc cfg x ev { s with result := none, exited := [] } with
  | oof => simp [hb, Res.state?] at h
  | ok b s1 =>
    simp only [hb] at h
    refine ⟨s1, rfl, ?_⟩
    cases hf : nfinalize sub sc cfg x s1 with
    | none => simp [hf, Res.state?] at h
    | some s2 =>
      simp only [hf, Res.state?, Option.some.injEq] at h; subst h
      exact fin _ _ hf
  | err e s1 =>
    simp only [hb] at h
    refine ⟨s1, rfl, ?_⟩
    cases hex : cfg.onException with
    | nil =>
      simp only [hex] at h
      cases hf : nfinalize sub sc cfg x s1 with
      | none => simp [hf, Res.state?] at h
      | some s2 =>
        simp only [hf, Res.state?, Option.some.injEq] at h; subst h
        exact fin _ _ hf
    | cons h0 hs =>
      simp only [hex] at h
      cases hcb : ncallbacks sub sc cfg .onException x (h0 :: hs) s1 with
      | oof => simp [hcb, Res.bind, Res.state?] at h
      | ok u s2 =>
        have c2 : s2.conf = s1.conf :=
          congrArg View.conf (ncallbacks_view sub sc cfg hC _ x _ s1 s2 (by rw [hcb]; rfl))
        simp only [hcb, Res.bind] at h
        cases hf : nfinalize sub sc cfg x s2 with
        | none => simp [hf, Res.state?] at h
        | some s3 =>
          simp only [hf, Res.state?, Option.some.injEq] at h; subst h
          exact (fin _ _ hf).trans c2
      | err e2 s2 =>
        have c2 : s2.conf = s1.conf :=
          congrArg View.conf (ncallbacks_view sub sc cfg hC _ x _ s1 s2 (by rw [hcb]; rfl))
        simp only [hcb, Res.bind] at h
        cases hf : nfinalize sub sc cfg x s2 with
        | none => simp [hf, Res.state?] at h
        | some s3 =>
          simp only [hf, Res.state?, Option.some.injEq] at h; subst h
          exact (fin _ _ hf).trans c2

end TM
