/-
  Proofs/C19.lean — helper lemmas for property C19 (state feature mixins).
-/
import Model.Features

namespace TM
namespace Feat

@[simp] theorem set2_same {α} (f : Nat → Nat → α) (a b : Nat) (v : α) : set2 f a b v a b = v := by
  simp [set2]

theorem set2_other {α} (f : Nat → Nat → α) (a b : Nat) (v : α) (x y : Nat) (h : x ≠ a ∨ y ≠ b) :
    set2 f a b v x y = f x y := by
  unfold set2
  split
  · next h' => rcases h with h | h <;> simp_all
  · rfl

@[simp] theorem resetIf_hooks (s m src : Nat) (st : FS) : (resetIf s m src st).hooks = st.hooks := by
  unfold resetIf; split <;> rfl
@[simp] theorem resetIf_fresh (s m src : Nat) (st : FS) : (resetIf s m src st).fresh = st.fresh := by
  unfold resetIf; split <;> rfl
@[simp] theorem resetIf_log (s m src : Nat) (st : FS) : (resetIf s m src st).log = st.log := by
  unfold resetIf; split <;> rfl
theorem resetIf_self (s m : Nat) (st : FS) : resetIf s m s st = st := by
  simp [resetIf]
theorem resetIf_counts_other (s m src x y : Nat) (st : FS) (h : x ≠ s ∨ y ≠ m) :
    (resetIf s m src st).counts x y = st.counts x y := by
  unfold resetIf; split
  · exact set2_other _ _ _ _ _ _ h
  · rfl
theorem resetIf_counts_foreign (s m src : Nat) (st : FS) (h : src ≠ s) :
    (resetIf s m src st).counts s m = 0 := by
  simp [resetIf, h]

/-! ### Tags -/

theorem isTag_iff (c : Cfg) (s t : Nat) :
    isTag c s t = true ↔ (t ∈ (c.args s).tags ∨ (t = 0 ∧ (c.args s).accepted = true)) := by
  unfold isTag effTags
  split <;> simp_all

/-! ### Error -/

theorem enterChain_raised_iff (c : Cfg) (s m src : Nat) (hwf : src = s → c.hasOut s = true) :
    ∀ (l : List Mixin) (st : FS),
      (enterChain c s m src l st).2 = .raised ↔
        (.error ∈ l ∧ c.hasOut s = false ∧ isAccepted c s = false) := by
  intro l
  induction l with
  | nil => intro st; simp [enterChain]
  | cons x r ih =>
    intro st
    cases x with
    | tags => simp [enterChain, ih]
    | volatile => simp [enterChain, ih]
    | error =>
      unfold enterChain
      split
      · next h => simp_all
      · next h =>
        rw [ih]
        simp_all
    | retry =>
      by_cases hs : src = s
      · have ho := hwf hs
        simp only [enterChain]
        split
        · simp [ho]
        · rw [ih]; simp [ho]
      · simp only [enterChain]
        split
        · next h => simp [resetIf, hs] at h
        · rw [ih]; simp

/-! ### Volatile -/

/-- without Volatile in the (remaining) chain nothing touches hooks or the object counter -/
theorem enterChain_no_volatile (c : Cfg) (s m src : Nat) :
    ∀ (l : List Mixin) (st : FS), .volatile ∉ l →
      (enterChain c s m src l st).1.hooks = st.hooks ∧ (enterChain c s m src l st).1.fresh = st.fresh := by
  intro l
  induction l with
  | nil => intro st _; simp [enterChain, FS.push]
  | cons x r ih =>
    intro st hx
    have hr : .volatile ∉ r := fun h => hx (List.mem_cons_of_mem _ h)
    cases x with
    | tags => simpa [enterChain] using ih st hr
    | volatile => simp at hx
    | error =>
      simp only [enterChain]
      split
      · simp [FS.push]
      · exact ih st hr
    | retry =>
      simp only [enterChain]
      split
      · simp [FS.push]
      · have := ih { resetIf s m src st with
            counts := set2 (resetIf s m src st).counts s m ((resetIf s m src st).counts s m + 1) } hr
        simpa using this

theorem enterChain_volatile_fresh (c : Cfg) (s m src : Nat) :
    ∀ (l : List Mixin) (st : FS), .volatile ∈ l → l.Nodup →
      (enterChain c s m src l st).2 = .entered →
      (enterChain c s m src l st).1.hooks m (c.args s).hook = some st.fresh ∧
      (enterChain c s m src l st).1.fresh = st.fresh + 1 := by
  intro l
  induction l with
  | nil => intro st h; simp at h
  | cons x r ih =>
    intro st hx hnd ho
    have hndr : r.Nodup := (List.nodup_cons.mp hnd).2
    have hxr : x ∉ r := (List.nodup_cons.mp hnd).1
    cases x with
    | volatile =>
      simp only [enterChain] at ho ⊢
      have := enterChain_no_volatile c s m src r
        { st with hooks := set2 st.hooks m (c.args s).hook (some st.fresh), fresh := st.fresh + 1,
                  log := st.log ++ [.created st.fresh] } hxr
      rw [this.1, this.2]
      simp
    | tags =>
      have hr : .volatile ∈ r := by simpa using hx
      simp only [enterChain] at ho ⊢
      exact ih st hr hndr ho
    | error =>
      have hr : .volatile ∈ r := by simpa using hx
      simp only [enterChain] at ho ⊢
      split at ho
      · simp at ho
      · next h => simp only [h]; exact ih st hr hndr ho
    | retry =>
      have hr : .volatile ∈ r := by simpa using hx
      simp only [enterChain] at ho ⊢
      split at ho
      · simp at ho
      · next h =>
        simp only [h]
        have := ih { resetIf s m src st with
            counts := set2 (resetIf s m src st).counts s m ((resetIf s m src st).counts s m + 1) } hr hndr ho
        simpa using this

theorem exitOp_removed (c : Cfg) (hV : .volatile ∈ c.feats) (s m : Nat) (st : FS) :
    (exitOp c s m st).hooks m (c.args s).hook = none := by
  simp [exitOp, hV]

theorem createdIds_append (a b : List Obs) : createdIds (a ++ b) = createdIds a ++ createdIds b := by
  simp [createdIds, List.filterMap_append]

theorem FreshInv_push (st : FS) (o : Obs) (ho : ∀ i, o ≠ .created i) (h : FreshInv st) : FreshInv (st.push o) := by
  refine ⟨?_, h.2⟩
  have : createdIds [o] = [] := by
    cases o <;> simp [createdIds] at ho ⊢
  simp [FS.push, createdIds_append, this, h.1]

theorem enterChain_FreshInv (c : Cfg) (s m src : Nat) :
    ∀ (l : List Mixin) (st : FS), FreshInv st → FreshInv (enterChain c s m src l st).1 := by
  intro l
  induction l with
  | nil => intro st h; exact FreshInv_push _ _ (by simp) h
  | cons x r ih =>
    intro st h
    cases x with
    | tags => exact ih st h
    | error =>
      simp only [enterChain]
      split
      · exact FreshInv_push _ _ (by simp) h
      · exact ih st h
    | volatile =>
      simp only [enterChain]
      apply ih
      refine ⟨?_, ?_⟩
      · show createdIds (st.log ++ [.created st.fresh]) = List.range (st.fresh + 1)
        rw [createdIds_append, h.1, List.range_succ]
        simp [createdIds]
      · intro m' h' id hid
        show id < st.fresh + 1
        simp only [set2] at hid
        split at hid
        · simp at hid; omega
        · have := h.2 m' h' id hid; omega
    | retry =>
      simp only [enterChain]
      have h1 : FreshInv (resetIf s m src st) := ⟨by simpa using h.1, by simpa using h.2⟩
      split
      · exact FreshInv_push _ _ (by simp) h1
      · apply ih
        exact ⟨h1.1, h1.2⟩

theorem exitOp_FreshInv (c : Cfg) (s m : Nat) (st : FS) (h : FreshInv st) : FreshInv (exitOp c s m st) := by
  have h1 := FreshInv_push st (.exitCbs s m (snap c m st)) (by simp) h
  unfold exitOp
  simp only []
  split
  · refine ⟨h1.1, ?_⟩
    intro m' h' id hid
    simp only [set2] at hid
    split at hid
    · simp at hid
    · exact h1.2 m' h' id hid
  · exact h1

/-- a raising enter callback changes nothing but the log and the outcome -/
theorem enterFailOp_fields (c : Cfg) (s m src : Nat) (st : FS) :
    (enterFailOp c s m src st).1.counts = (enterOp c s m src st).1.counts ∧
    (enterFailOp c s m src st).1.hooks = (enterOp c s m src st).1.hooks ∧
    (enterFailOp c s m src st).1.fresh = (enterOp c s m src st).1.fresh := by
  unfold enterFailOp
  simp only []
  split <;> simp [FS.push]

theorem enterFailOp_log (c : Cfg) (s m src : Nat) (st : FS) :
    plainLog (enterFailOp c s m src st).1.log =
      plainLog (enterOp c s m src st).1.log ++
        (if (enterOp c s m src st).2 = .entered then [ObsE.enterAbort s m] else []) := by
  unfold enterFailOp
  simp only []
  split <;> simp [FS.push, plainLog, Obs.plain]

theorem step_FreshInv (c : Cfg) (o : Op) (st : FS) (h : FreshInv st) : FreshInv (step c o st).1 := by
  cases o with
  | enter s m src => exact enterChain_FreshInv c s m src _ st h
  | enterFail s m src =>
    have h1 := enterChain_FreshInv c s m src c.feats st h
    simp only [step, enterFailOp]
    split
    · exact FreshInv_push _ _ (by simp) h1
    · exact h1
  | exit s m => exact exitOp_FreshInv c s m st h
  | exitFail s m => exact FreshInv_push _ _ (by simp) h

theorem runOps_FreshInv (c : Cfg) : ∀ (ops : List Op) (st : FS), FreshInv st → FreshInv (runOps c ops st) := by
  intro ops
  induction ops with
  | nil => intro st h; exact h
  | cons o r ih => intro st h; exact ih _ (step_FreshInv c o st h)

theorem FreshInv_init : FreshInv FS.init := by
  simp [FreshInv, FS.init, createdIds]

/-! ### Retry -/

theorem enterChain_no_retry_counts (c : Cfg) (s m src : Nat) :
    ∀ (l : List Mixin) (st : FS), .retry ∉ l → (enterChain c s m src l st).1.counts = st.counts := by
  intro l
  induction l with
  | nil => intro st _; simp [enterChain, FS.push]
  | cons x r ih =>
    intro st hx
    have hr : .retry ∉ r := fun h => hx (List.mem_cons_of_mem _ h)
    cases x with
    | tags => simpa [enterChain] using ih st hr
    | retry => simp at hx
    | error =>
      simp only [enterChain]
      split
      · simp [FS.push]
      · exact ih st hr
    | volatile =>
      simp only [enterChain]
      rw [ih _ hr]

/-- the chain cannot raise: the state has an outgoing transition, or is accepted, or no Error ahead -/
def NoRaise (c : Cfg) (s : Nat) (l : List Mixin) : Prop :=
  c.hasOut s = true ∨ isAccepted c s = true ∨ .error ∉ l

theorem NoRaise_tail (c : Cfg) (s : Nat) (x : Mixin) (r : List Mixin) (h : NoRaise c s (x :: r)) :
    NoRaise c s r := by
  rcases h with h | h | h
  · exact .inl h
  · exact .inr (.inl h)
  · exact .inr (.inr (fun hm => h (List.mem_cons_of_mem _ hm)))

theorem NoRaise_error (c : Cfg) (s : Nat) (r : List Mixin) (h : NoRaise c s (.error :: r)) :
    (!c.hasOut s && !isAccepted c s) = false := by
  rcases h with h | h | h
  · simp [h]
  · simp [h]
  · simp at h

theorem enterChain_no_retry_entered (c : Cfg) (s m src : Nat) :
    ∀ (l : List Mixin) (st : FS), .retry ∉ l → NoRaise c s l → (enterChain c s m src l st).2 = .entered := by
  intro l
  induction l with
  | nil => intro st _ _; simp [enterChain]
  | cons x r ih =>
    intro st hx hn
    have hr : .retry ∉ r := fun h => hx (List.mem_cons_of_mem _ h)
    have hn' := NoRaise_tail c s x r hn
    cases x with
    | tags => simpa [enterChain] using ih st hr hn'
    | retry => simp at hx
    | error =>
      simp only [enterChain, NoRaise_error c s r hn]
      exact ih st hr hn'
    | volatile =>
      simp only [enterChain]
      exact ih _ hr hn'

/-- what `Retry.enter` decides and leaves in the counter, whatever else is in the chain -/
theorem enterChain_retry (c : Cfg) (s m src : Nat) :
    ∀ (l : List Mixin) (st : FS), .retry ∈ l → l.Nodup → NoRaise c s l →
      let n0 := (resetIf s m src st).counts s m
      let rt := (c.args s).retries
      (n0 > rt ∧ rt > 0 →
        (enterChain c s m src l st).2 = .failed ∧ (enterChain c s m src l st).1.counts s m = n0) ∧
      (¬(n0 > rt ∧ rt > 0) →
        (enterChain c s m src l st).2 = .entered ∧ (enterChain c s m src l st).1.counts s m = n0 + 1) := by
  intro l
  induction l with
  | nil => intro st h; simp at h
  | cons x r ih =>
    intro st hx hnd hn
    have hndr : r.Nodup := (List.nodup_cons.mp hnd).2
    have hxr : x ∉ r := (List.nodup_cons.mp hnd).1
    have hn' := NoRaise_tail c s x r hn
    cases x with
    | retry =>
      simp only [enterChain]
      constructor
      · intro h
        simp [h, FS.push]
      · intro h
        simp only [h, if_false]
        rw [enterChain_no_retry_entered c s m src r _ hxr hn', enterChain_no_retry_counts c s m src r _ hxr]
        simp
    | tags =>
      have hr : .retry ∈ r := by simpa using hx
      simpa [enterChain] using ih st hr hndr hn'
    | error =>
      have hr : .retry ∈ r := by simpa using hx
      simp only [enterChain, NoRaise_error c s r hn]
      exact ih st hr hndr hn'
    | volatile =>
      have hr : .retry ∈ r := by simpa using hx
      simp only [enterChain]
      have := ih { st with hooks := set2 st.hooks m (c.args s).hook (some st.fresh), fresh := st.fresh + 1,
                           log := st.log ++ [.created st.fresh] } hr hndr hn'
      by_cases hs : src = s <;> simpa [resetIf, hs] using this

/-- entering another state, or the same state with another model, leaves this counter alone -/
theorem enterChain_counts_frame (c : Cfg) (s' m' src s m : Nat) (hne : s ≠ s' ∨ m ≠ m') :
    ∀ (l : List Mixin) (st : FS), (enterChain c s' m' src l st).1.counts s m = st.counts s m := by
  intro l
  induction l with
  | nil => intro st; simp [enterChain, FS.push]
  | cons x r ih =>
    intro st
    cases x with
    | tags => simpa [enterChain] using ih st
    | error =>
      simp only [enterChain]
      split
      · simp [FS.push]
      · exact ih st
    | volatile =>
      simp only [enterChain]
      rw [ih]
    | retry =>
      simp only [enterChain]
      split
      · simp [FS.push, resetIf_counts_other _ _ _ _ _ _ hne]
      · rw [ih]
        simp [set2_other _ _ _ _ _ _ hne, resetIf_counts_other _ _ _ _ _ _ hne]

theorem exitOp_counts (c : Cfg) (s m : Nat) (st : FS) : (exitOp c s m st).counts = st.counts := by
  unfold exitOp
  simp only []
  split <;> simp [FS.push]

theorem step_counts_other (c : Cfg) (s m : Nat) (o : Op) (st : FS)
    (h1 : isSelf s m o = false) (h2 : isForeign s m o = false) :
    (step c o st).1.counts s m = st.counts s m := by
  cases o with
  | exit s' m' => simp [step, exitOp_counts]
  | exitFail s' m' => simp [step, exitFailOp, FS.push]
  | enter s' m' src =>
    have hne : s ≠ s' ∨ m ≠ m' := by
      simp only [isSelf, isForeign, decide_eq_false_iff_not] at h1 h2
      by_cases hs : s' = s
      · by_cases hm : m' = m
        · by_cases hsrc : src = s
          · exact absurd ⟨hs, hm, hsrc⟩ h1
          · exact absurd ⟨hs, hm, hsrc⟩ h2
        · exact .inr (fun h => hm h.symm)
      · exact .inl (fun h => hs h.symm)
    exact enterChain_counts_frame c s' m' src s m hne _ st
  | enterFail s' m' src =>
    have hne : s ≠ s' ∨ m ≠ m' := by
      simp only [isSelf, isForeign, decide_eq_false_iff_not] at h1 h2
      by_cases hs : s' = s
      · by_cases hm : m' = m
        · by_cases hsrc : src = s
          · exact absurd ⟨hs, hm, hsrc⟩ h1
          · exact absurd ⟨hs, hm, hsrc⟩ h2
        · exact .inr (fun h => hm h.symm)
      · exact .inl (fun h => hs h.symm)
    simp only [step]
    rw [(enterFailOp_fields c s' m' src st).1]
    exact enterChain_counts_frame c s' m' src s m hne _ st

theorem step_counts_self (c : Cfg) (s m : Nat) (hR : .retry ∈ c.feats) (hnd : c.feats.Nodup)
    (hOk : NoRaise c s c.feats) (o : Op) (h : isSelf s m o = true) (st : FS) :
    (step c o st).1.counts s m =
      if st.counts s m > (c.args s).retries ∧ (c.args s).retries > 0 then st.counts s m
      else st.counts s m + 1 := by
  cases o with
  | exit s' m' => simp [isSelf] at h
  | exitFail s' m' => simp [isSelf] at h
  | enter s' m' src =>
    simp only [isSelf, decide_eq_true_eq] at h
    rw [h.1, h.2.1, h.2.2]
    have := enterChain_retry c s m s c.feats st hR hnd hOk
    simp only [resetIf_self] at this
    simp only [step, enterOp]
    split
    · next hc => exact (this.1 hc).2
    · next hc => exact (this.2 hc).2
  | enterFail s' m' src =>
    simp only [isSelf, decide_eq_true_eq] at h
    rw [h.1, h.2.1, h.2.2]
    have := enterChain_retry c s m s c.feats st hR hnd hOk
    simp only [resetIf_self] at this
    simp only [step]
    rw [(enterFailOp_fields c s m s st).1]
    simp only [enterOp]
    split
    · next hc => exact (this.1 hc).2
    · next hc => exact (this.2 hc).2

theorem runOps_counts (c : Cfg) (s m : Nat) (hR : .retry ∈ c.feats) (hnd : c.feats.Nodup)
    (hOk : NoRaise c s c.feats) (hr : 0 < (c.args s).retries) :
    ∀ (mid : List Op) (st : FS), (∀ o ∈ mid, isForeign s m o = false) →
      st.counts s m ≤ (c.args s).retries + 1 →
      (runOps c mid st).counts s m =
        min (st.counts s m + (mid.filter (isSelf s m)).length) ((c.args s).retries + 1) := by
  intro mid
  induction mid with
  | nil => intro st _ hle; simp [runOps]; omega
  | cons o r ih =>
    intro st hmid hle
    have hr' : ∀ o ∈ r, isForeign s m o = false := fun o ho => hmid o (List.mem_cons_of_mem _ ho)
    have ho := hmid o (List.mem_cons_self ..)
    simp only [runOps]
    by_cases hs : isSelf s m o = true
    · have e := step_counts_self c s m hR hnd hOk o hs st
      have hle' : (step c o st).1.counts s m ≤ (c.args s).retries + 1 := by
        rw [e]; split <;> omega
      rw [ih _ hr' hle', e, List.filter_cons_of_pos hs]
      simp only [List.length_cons]
      split <;> omega
    · have hs' : isSelf s m o = false := by simpa using hs
      have e := step_counts_other c s m o st hs' ho
      rw [ih _ hr' (by rw [e]; exact hle), e, List.filter_cons_of_neg hs]

/-! ### per-model frame -/

theorem plainLog_append (a b : List Obs) : plainLog (a ++ b) = plainLog a ++ plainLog b := by
  simp [plainLog, List.filterMap_append]

/-- an entry by model `m'` does not touch model `m`'s hooks, counters or recorder log -/
theorem enterChain_frame (c : Cfg) (s' m' src m : Nat) (hne : m ≠ m') :
    ∀ (l : List Mixin) (st : FS),
      (∀ s, (enterChain c s' m' src l st).1.counts s m = st.counts s m) ∧
      (∀ h, (enterChain c s' m' src l st).1.hooks m h = st.hooks m h) ∧
      (plainLog (enterChain c s' m' src l st).1.log).filter (fun e => e.model = m) =
        (plainLog st.log).filter (fun e => e.model = m) := by
  intro l
  induction l with
  | nil =>
    intro st
    simp [enterChain, FS.push, plainLog, Obs.plain, ObsE.model, Ne.symm hne]
  | cons x r ih =>
    intro st
    cases x with
    | tags => simpa [enterChain] using ih st
    | error =>
      simp only [enterChain]
      split
      · simp [FS.push, plainLog, Obs.plain, ObsE.model, Ne.symm hne]
      · exact ih st
    | volatile =>
      simp only [enterChain]
      have := ih { st with hooks := set2 st.hooks m' (c.args s').hook (some st.fresh), fresh := st.fresh + 1,
                           log := st.log ++ [.created st.fresh] }
      refine ⟨this.1, ?_, ?_⟩
      · intro h; rw [this.2.1 h]; exact set2_other _ _ _ _ _ _ (.inl hne)
      · rw [this.2.2]; simp [plainLog, Obs.plain]
    | retry =>
      simp only [enterChain]
      split
      · refine ⟨?_, ?_, ?_⟩
        · intro s; simp [FS.push, resetIf_counts_other _ _ _ _ _ _ (.inr hne)]
        · intro h; simp [FS.push]
        · simp [FS.push, plainLog, Obs.plain, ObsE.model, Ne.symm hne]
      · have := ih { resetIf s' m' src st with
            counts := set2 (resetIf s' m' src st).counts s' m' ((resetIf s' m' src st).counts s' m' + 1) }
        refine ⟨?_, ?_, ?_⟩
        · intro s; rw [this.1 s]
          simp [set2_other _ _ _ _ _ _ (.inr hne), resetIf_counts_other _ _ _ _ _ _ (.inr hne)]
        · intro h; rw [this.2.1 h]; simp
        · rw [this.2.2]; simp

theorem exitOp_frame (c : Cfg) (s' m' m : Nat) (hne : m ≠ m') (st : FS) :
    (∀ s, (exitOp c s' m' st).counts s m = st.counts s m) ∧
    (∀ h, (exitOp c s' m' st).hooks m h = st.hooks m h) ∧
    (plainLog (exitOp c s' m' st).log).filter (fun e => e.model = m) =
      (plainLog st.log).filter (fun e => e.model = m) := by
  refine ⟨?_, ?_, ?_⟩
  · intro s; rw [exitOp_counts]
  · intro h
    unfold exitOp
    simp only []
    split
    · simp [FS.push, set2_other _ _ _ _ _ _ (.inl hne)]
    · simp [FS.push]
  · unfold exitOp
    simp only []
    split <;>
      simp [FS.push, plainLog, Obs.plain, ObsE.model, Ne.symm hne]

theorem step_frame (c : Cfg) (o : Op) (m : Nat) (hne : o.model ≠ m) (st : FS) :
    (∀ s, (step c o st).1.counts s m = st.counts s m) ∧
    (∀ h, (step c o st).1.hooks m h = st.hooks m h) ∧
    (plainLog (step c o st).1.log).filter (fun e => e.model = m) =
      (plainLog st.log).filter (fun e => e.model = m) := by
  cases o with
  | enter s' m' src => exact enterChain_frame c s' m' src m (fun h => hne (by simp [Op.model, h])) _ st
  | enterFail s' m' src =>
    have hne' : m' ≠ m := fun h => hne (by simp [Op.model, h])
    have hf := enterChain_frame c s' m' src m (fun h => hne' h.symm) c.feats st
    have hx := enterFailOp_fields c s' m' src st
    refine ⟨?_, ?_, ?_⟩
    · intro s; simp only [step]; rw [hx.1]; exact hf.1 s
    · intro h; simp only [step]; rw [hx.2.1]; exact hf.2.1 h
    · simp only [step]
      have hf3 := hf.2.2
      rw [enterFailOp_log, List.filter_append]
      show List.filter _ (plainLog (enterChain c s' m' src c.feats st).1.log) ++ _ = _
      rw [hf3]
      split <;> simp [ObsE.model, hne']
  | exit s' m' => exact exitOp_frame c s' m' m (fun h => hne (by simp [Op.model, h])) st
  | exitFail s' m' =>
    have hne' : m' ≠ m := fun h => hne (by simp [Op.model, h])
    simp [step, exitFailOp, FS.push, plainLog, Obs.plain, ObsE.model, hne']

/-! ### per-model projection -/

theorem ViewEq.refl (m : Nat) (a : FS) : ViewEq m a a := ⟨fun _ => rfl, fun _ => rfl, rfl⟩

theorem ViewEq.trans {m : Nat} {a b d : FS} (h1 : ViewEq m a b) (h2 : ViewEq m b d) : ViewEq m a d :=
  ⟨fun s => (h1.1 s).trans (h2.1 s), fun h => (h1.2.1 h).trans (h2.2.1 h), h1.2.2.trans h2.2.2⟩

theorem ViewEq_push {m : Nat} {a b : FS} (o o' : Obs) (hp : o.plain = o'.plain) (h : ViewEq m a b) :
    ViewEq m (a.push o) (b.push o') := by
  refine ⟨h.1, h.2.1, ?_⟩
  simp only [FS.push, plainLog_append, List.filter_append, h.2.2]
  simp [plainLog, List.filterMap_cons, hp]

theorem ViewEq_resetIf {m : Nat} {a b : FS} (s src : Nat) (h : ViewEq m a b) :
    ViewEq m (resetIf s m src a) (resetIf s m src b) := by
  unfold resetIf
  split
  · refine ⟨?_, h.2.1, h.2.2⟩
    intro x
    simp only [set2]
    split
    · rfl
    · exact h.1 x
  · exact h

theorem enterChain_view (c : Cfg) (s m src : Nat) :
    ∀ (l : List Mixin) (a b : FS), ViewEq m a b →
      ViewEq m (enterChain c s m src l a).1 (enterChain c s m src l b).1 ∧
      (enterChain c s m src l a).2 = (enterChain c s m src l b).2 := by
  intro l
  induction l with
  | nil =>
    intro a b h
    exact ⟨ViewEq_push _ _ (by simp [Obs.plain]) h, rfl⟩
  | cons x r ih =>
    intro a b h
    cases x with
    | tags => exact ih a b h
    | error =>
      simp only [enterChain]
      split
      · exact ⟨ViewEq_push _ _ rfl h, rfl⟩
      · exact ih a b h
    | volatile =>
      simp only [enterChain]
      apply ih
      refine ⟨h.1, ?_, ?_⟩
      · intro k
        simp only [set2]
        split
        · rfl
        · exact h.2.1 k
      · simp only [plainLog_append, List.filter_append, h.2.2]
        simp [plainLog, List.filterMap_cons, Obs.plain]
    | retry =>
      have h1 := ViewEq_resetIf s src h
      simp only [enterChain]
      rw [h1.1 s]
      split
      · exact ⟨ViewEq_push _ _ (by simp [Obs.plain]) h1, rfl⟩
      · apply ih
        refine ⟨?_, h1.2.1, h1.2.2⟩
        intro x
        simp only [set2]
        split
        · rfl
        · exact h1.1 x

theorem exitOp_view (c : Cfg) (s m : Nat) (a b : FS) (h : ViewEq m a b) :
    ViewEq m (exitOp c s m a) (exitOp c s m b) := by
  have h1 : ViewEq m (a.push (.exitCbs s m (snap c m a))) (b.push (.exitCbs s m (snap c m b))) :=
    ViewEq_push _ _ (by simp [Obs.plain]) h
  unfold exitOp
  simp only []
  split
  · refine ⟨h1.1, ?_, h1.2.2⟩
    intro k
    simp only [set2]
    split
    · rfl
    · exact h1.2.1 k
  · exact h1

theorem step_view (c : Cfg) (o : Op) (m : Nat) (hm : o.model = m) (a b : FS) (h : ViewEq m a b) :
    ViewEq m (step c o a).1 (step c o b).1 ∧ (step c o a).2 = (step c o b).2 := by
  cases o with
  | enter s m' src =>
    simp only [Op.model] at hm
    subst hm
    exact enterChain_view c s m' src _ a b h
  | enterFail s m' src =>
    simp only [Op.model] at hm
    subst hm
    have hv := enterChain_view c s m' src c.feats a b h
    simp only [step, enterFailOp, enterOp]
    by_cases ho : (enterChain c s m' src c.feats a).2 = .entered
    · have ho' : (enterChain c s m' src c.feats b).2 = .entered := by rw [← hv.2]; exact ho
      simp only [ho, ho', if_true]
      exact ⟨ViewEq_push _ _ (by simp [Obs.plain]) hv.1, trivial⟩
    · have ho' : ¬ (enterChain c s m' src c.feats b).2 = .entered := by rw [← hv.2]; exact ho
      simp only [ho, ho', if_false]
      exact hv
  | exit s m' =>
    simp only [Op.model] at hm
    subst hm
    exact ⟨exitOp_view c s m' a b h, rfl⟩
  | exitFail s m' =>
    simp only [Op.model] at hm
    subst hm
    exact ⟨ViewEq_push _ _ (by simp [Obs.plain]) h, rfl⟩

theorem runOps_view (c : Cfg) (m : Nat) :
    ∀ (ops : List Op) (a b : FS), ViewEq m a b →
      ViewEq m (runOps c ops a) (runOps c (ops.filter (fun o => o.model = m)) b) := by
  intro ops
  induction ops with
  | nil => intro a b h; exact h
  | cons o r ih =>
    intro a b h
    by_cases hm : o.model = m
    · rw [List.filter_cons_of_pos (by simpa using hm)]
      simp only [runOps]
      exact ih _ _ (step_view c o m hm a b h).1
    · rw [List.filter_cons_of_neg (by simpa using hm)]
      simp only [runOps]
      have hf := step_frame c o m hm a
      exact ih _ _ (ViewEq.trans ⟨hf.1, fun k => by rw [hf.2.1 k], hf.2.2⟩ h)

/-! ### feature-free states -/

def Op.obs : Op → List ObsE
  | .enter s m _ => [.enterCbs s m]
  | .enterFail s m _ => [.enterCbs s m, .enterAbort s m]
  | .exit s m => [.exitCbs s m]
  | .exitFail s m => [.exitAbort s m]

theorem enterChain_feature_free (c : Cfg) (s m src : Nat) (hr : (c.args s).retries = 0) :
    ∀ (l : List Mixin) (st : FS), NoRaise c s l →
      (enterChain c s m src l st).2 = .entered ∧
      plainLog (enterChain c s m src l st).1.log = plainLog st.log ++ [.enterCbs s m] := by
  intro l
  induction l with
  | nil => intro st _; simp [enterChain, FS.push, plainLog, Obs.plain]
  | cons x r ih =>
    intro st hn
    have hn' := NoRaise_tail c s x r hn
    cases x with
    | tags => exact ih st hn'
    | error =>
      simp only [enterChain, NoRaise_error c s r hn]
      exact ih st hn'
    | volatile =>
      simp only [enterChain]
      have := ih { st with hooks := set2 st.hooks m (c.args s).hook (some st.fresh), fresh := st.fresh + 1,
                           log := st.log ++ [.created st.fresh] } hn'
      refine ⟨this.1, ?_⟩
      rw [this.2]
      simp [plainLog, Obs.plain]
    | retry =>
      simp only [enterChain, hr]
      have := ih { resetIf s m src st with
            counts := set2 (resetIf s m src st).counts s m ((resetIf s m src st).counts s m + 1) } hn'
      simpa using this

theorem exitOp_plain (c : Cfg) (s m : Nat) (st : FS) :
    plainLog (exitOp c s m st).log = plainLog st.log ++ [.exitCbs s m] := by
  unfold exitOp
  simp only []
  split <;> simp [FS.push, plainLog, Obs.plain]

theorem FeatureFree.noRaise {c : Cfg} {s : Nat} (h : FeatureFree c s) : NoRaise c s c.feats := by
  by_cases he : .error ∈ c.feats
  · rcases h.2 he with h' | h'
    · exact .inl h'
    · exact .inr (.inl h')
  · exact .inr (.inr he)

theorem step_feature_free (c : Cfg) (o : Op) (st : FS) (h : FeatureFree c o.state) :
    plainLog (step c o st).1.log = plainLog st.log ++ o.obs := by
  cases o with
  | enter s m src => exact (enterChain_feature_free c s m src h.1 _ st h.noRaise).2
  | enterFail s m src =>
    have hf := enterChain_feature_free c s m src h.1 c.feats st h.noRaise
    simp only [step]
    rw [enterFailOp_log]
    simp only [enterOp, hf.1, hf.2, if_true, Op.obs]
    simp
  | exit s m => exact exitOp_plain c s m st
  | exitFail s m => simp [step, exitFailOp, FS.push, plainLog, Obs.plain, Op.obs]

theorem step_plain (c : Cfg) (o : Op) (st : FS) :
    plainLog (step c.plain o st).1.log = plainLog st.log ++ o.obs := by
  cases o with
  | enter s m src => simp [step, enterOp, Cfg.plain, enterChain, FS.push, plainLog, Obs.plain, Op.obs]
  | enterFail s m src =>
    simp [step, enterFailOp, enterOp, Cfg.plain, enterChain, FS.push, plainLog, Obs.plain, Op.obs]
  | exit s m => exact exitOp_plain _ s m st
  | exitFail s m => simp [step, exitFailOp, FS.push, plainLog, Obs.plain, Op.obs]

theorem runOps_feature_free (c : Cfg) :
    ∀ (ops : List Op) (a b : FS), plainLog a.log = plainLog b.log → (∀ o ∈ ops, FeatureFree c o.state) →
      plainLog (runOps c ops a).log = plainLog (runOps c.plain ops b).log := by
  intro ops
  induction ops with
  | nil => intro a b h _; exact h
  | cons o r ih =>
    intro a b h hff
    simp only [runOps]
    apply ih
    · rw [step_feature_free c o a (hff o (List.mem_cons_self ..)), step_plain c o b, h]
    · exact fun o' ho' => hff o' (List.mem_cons_of_mem _ ho')

/-! ### flat layer -/

theorem trigger_ops (F : Flat) (m ev : Nat) (ms : MS) (t : Trans) (d : Nat)
    (hf : F.trans.find? (fun t => t.ev = ev ∧ t.src = ms.cur m) = some t) (hd : t.dest = some d) :
    (trigger F m ev ms).1.fs = (runGroup F.cfg [.exit t.src m, .enter d m t.src] ms.fs).1 ∧
    ((trigger F m ev ms).2 = .errorState ↔ (runGroup F.cfg [.exit t.src m, .enter d m t.src] ms.fs).2 = true) ∧
    (trigger F m ev ms).1.cur m = d := by
  simp only [trigger, hf, hd, runGroup, step]
  generalize enterOp F.cfg d m t.src (exitOp F.cfg t.src m ms.fs) = r
  obtain ⟨fs, o⟩ := r
  cases o <;> simp

/-! ### construction (shared `tags=` list objects) -/

theorem initHeap_eq : ∀ (defs : List SDef) (heap : Nat → List Nat), initHeap defs heap = heap := by
  intro defs
  induction defs with
  | nil => intro heap; rfl
  | cons d r ih => intro heap; simp [initHeap, ih]

theorem tagsExact (defs : List SDef) (heap : Nat → List Nat) : TagsExact defs heap := by
  intro d _ t
  unfold builtTags
  rw [initHeap_eq]
  by_cases ha : d.accepted = true <;> simp [ha]

/-! ### aborted exits, tag edits, scoped sources -/

theorem trigger_veto (F : Flat) (m ev : Nat) (ms : MS) (t : Trans) (d : Nat)
    (hf : F.trans.find? (fun t => t.ev = ev ∧ t.src = ms.cur m) = some t) (hd : t.dest = some d) :
    (trigger F m ev ms true).2 = .vetoed ∧ (trigger F m ev ms true).1.cur = ms.cur ∧
    (trigger F m ev ms true).1.fs = exitFailOp F.cfg t.src m ms.fs := by
  simp only [trigger, hf, hd, if_true]
  simp

theorem isTag_setTags (c : Cfg) (s : Nat) (l : List Nat) (t : Nat) :
    isTag (c.setTags s l) s t = true ↔ t ∈ l := by
  simp [isTag, Cfg.setTags, effTags]

theorem isTag_setTags_other (c : Cfg) (s s' : Nat) (l : List Nat) (t : Nat) (h : s' ≠ s) :
    isTag (c.setTags s l) s' t = isTag c s' t := by
  simp [isTag, Cfg.setTags, h]

theorem map_self_noForeign (s m : Nat) (seen : List Nat) (h : ∀ x ∈ seen, x = s) :
    (∀ o ∈ seen.map (fun x => Op.enter s m x), isForeign s m o = false) ∧
    ((seen.map (fun x => Op.enter s m x)).filter (isSelf s m)).length = seen.length := by
  induction seen with
  | nil => simp
  | cons x r ih =>
    have hx : x = s := h x (List.mem_cons_self ..)
    have ih' := ih (fun y hy => h y (List.mem_cons_of_mem _ hy))
    constructor
    · intro o ho
      simp only [List.map_cons, List.mem_cons] at ho
      rcases ho with rfl | ho
      · simp [isForeign, hx]
      · exact ih'.1 o ho
    · simp [isSelf, hx, ih'.2]

/-! ### polls, dynamic methods -/

theorem runFlat_polls (F : Flat) : ∀ (h : List FStep) (ms : MS),
    runFlat F h ms = runFlat F (h.filter (fun x => !x.isPoll)) ms := by
  intro h
  induction h with
  | nil => intro ms; rfl
  | cons x r ih =>
    intro ms
    cases x with
    | trig m ev veto => simp [runFlat, FStep.isPoll, ih]
    | poll m ev => simp [runFlat, FStep.isPoll, ih]

theorem mem_customMethods (feats : List Mixin) (base : List Nat) (x : Nat) :
    x ∈ customMethods feats base ↔ (x ∈ base ∨ x = 0 ∨ x = 1) := by
  unfold customMethods
  rw [List.mem_eraseDups]
  simp only [List.mem_append, List.mem_flatten, List.mem_map]
  constructor
  · rintro ((⟨l, ⟨f, _, rfl⟩, hx⟩ | hx) | hx)
    · cases f <;> simp [Mixin.methods] at hx <;> omega
    · exact .inl hx
    · simp at hx; exact .inr hx
  · rintro (hx | hx)
    · exact .inl (.inr hx)
    · exact .inr (by simpa using hx)

end Feat
end TM
