/-
  Proofs/C02Regions.lean — "entered and afterwards exited within one event" can only happen when a transition that is
  NOT local at the moment it executes runs: the invariant extended by "every live extension of a state entered in the
  current event was itself entered in it" is carried by every trigger call, and a local transition exits nothing that
  was entered during the current event (`local_exits_fresh` + P4 for machine-level transitions).
-/
import Proofs.C02RegionsDefs
import Proofs.C02Frame2

namespace TM
open C02 C03

/-- the invariant of C02 plus: a live state below a state entered in the current event was entered in it too -/
structure GI2 (cfg : NCfg) (g : G) (conf : Forest) : Prop where
  base : GI cfg g conf
  down : ∀ p ∈ g.entered, ∀ q ∈ g.live, isPrefix p q = true → q ∈ g.entered

def Carries2 (cfg : NCfg) (a : Forest) (seg : List GEv) (b : Forest) : Prop :=
  ∀ g, GI2 cfg g a →
    GI2 cfg (grun cfg g seg) b ∧ (grun cfg g seg).core = g.core ∧
    ((grun cfg g seg).enteredThenExited = true → g.enteredThenExited = true ∨ nonLocalRun cfg g seg = true)

def RInv2 (cfg : NCfg) (a b : View) : Prop := ∃ seg, b.glog = a.glog ++ seg ∧ Carries2 cfg a.conf seg b.conf

theorem nonLocalRun_append (cfg : NCfg) : ∀ (a b : List GEv) (g : G),
    nonLocalRun cfg g (a ++ b) = (nonLocalRun cfg g a || nonLocalRun cfg (grun cfg g a) b)
  | [], b, g => by simp [nonLocalRun, grun]
  | e :: a, b, g => by
    have : grun cfg g (e :: a) = grun cfg (gstep cfg g e) a := rfl
    simp only [List.cons_append, nonLocalRun, this, nonLocalRun_append cfg a b (gstep cfg g e), Bool.or_assoc]

theorem Carries2.refl (cfg : NCfg) (a : Forest) : Carries2 cfg a [] a := by
  intro g hg
  exact ⟨hg, rfl, fun h => Or.inl h⟩

theorem Carries2.trans {cfg : NCfg} {a b c : Forest} {s1 s2 : List GEv}
    (h1 : Carries2 cfg a s1 b) (h2 : Carries2 cfg b s2 c) : Carries2 cfg a (s1 ++ s2) c := by
  intro g hg
  obtain ⟨g1, c1, e1⟩ := h1 g hg
  obtain ⟨g2, c2, e2⟩ := h2 _ g1
  rw [grun_append, nonLocalRun_append]
  refine ⟨g2, c2.trans c1, ?_⟩
  intro h
  rcases e2 h with h' | h'
  · rcases e1 h' with h'' | h''
    · exact Or.inl h''
    · exact Or.inr (by simp [h''])
  · exact Or.inr (by simp [h'])

theorem RInv2.refl (cfg : NCfg) (v : View) : RInv2 cfg v v := ⟨[], by simp, Carries2.refl cfg _⟩

theorem RInv2.trans {cfg : NCfg} {a b c : View} (h1 : RInv2 cfg a b) (h2 : RInv2 cfg b c) : RInv2 cfg a c := by
  obtain ⟨s1, l1, c1⟩ := h1
  obtain ⟨s2, l2, c2⟩ := h2
  exact ⟨s1 ++ s2, by rw [l2, l1, List.append_assoc], c1.trans c2⟩

/-- what a mark does to the fields the extension looks at -/
theorem gstep_mark_fields (cfg : NCfg) (g : G) (e : GEv) (hm : e.isMark = true) :
    (gstep cfg g e).live = g.live ∧ ((gstep cfg g e).entered = g.entered ∨ (gstep cfg g e).entered = []) ∧
    (gstep cfg g e).enteredThenExited = g.enteredThenExited := by
  by_cases hh : g.halted = true
  · have : gstep cfg g e = g := by simp [gstep, hh]
    rw [this]; exact ⟨rfl, Or.inl rfl, rfl⟩
  · have hh' : g.halted = false := by simpa using hh
    cases e with
    | enter p => simp [GEv.isMark] at hm
    | exit p => simp [GEv.isMark] at hm
    | api t ev => simp [gstep, hh']
    | cand t => simp [gstep, hh']
    | ret t b => simp [gstep, hh']
    | exec r => simp [gstep, hh']
    | fin t m => simp [gstep, hh']
    | raised t x => cases x <;> simp [gstep, hh']

theorem Carries2.mark (cfg : NCfg) (hwf : cfg.states.WF = true) (conf : Forest) (e : GEv) (hm : e.isMark = true)
    (hfin : ∀ t m, e = .fin t m → m = confMask cfg conf)
    (hne : ∀ t x, e = .raised t x → x.isEngine = true)
    (_hx : ∀ tr, e ≠ .exec tr) :
    Carries2 cfg conf [e] conf := by
  intro g hg
  obtain ⟨b1, c1, _, _⟩ := Carries.mark cfg hwf conf e hm hfin hne g hg.base
  rw [grun_single] at b1 c1 ⊢
  obtain ⟨l1, l2, l3⟩ := gstep_mark_fields cfg g e hm
  refine ⟨⟨b1, ?_⟩, c1, fun h => Or.inl (l3 ▸ h)⟩
  intro p hp q hq hpq
  rw [l1] at hq
  rcases l2 with l2 | l2
  · rw [l2] at hp ⊢; exact hg.down p hp q hq hpq
  · rw [l2] at hp; cases hp

/-- the `exec` mark on its own (an internal transition): counts as non-local iff the reference is not local now -/
theorem Carries2.execMark (cfg : NCfg) (hwf : cfg.states.WF = true) (conf : Forest) (tr : TRef) :
    Carries2 cfg conf [.exec tr] conf := by
  intro g hg
  obtain ⟨b1, c1, _, _⟩ := Carries.mark cfg hwf conf (.exec tr) rfl (fun t m h => by cases h) (fun t x h => by cases h) g hg.base
  rw [grun_single] at b1 c1 ⊢
  obtain ⟨l1, l2, l3⟩ := gstep_mark_fields cfg g (.exec tr) rfl
  refine ⟨⟨b1, ?_⟩, c1, fun h => Or.inl (l3 ▸ h)⟩
  intro p hp q hq hpq
  rw [l1] at hq
  rcases l2 with l2 | l2
  · rw [l2] at hp ⊢; exact hg.down p hp q hq hpq
  · rw [l2] at hp; cases hp

/-- a segment of exits and enters contains no `exec` -/
theorem nonLocalRun_change (cfg : NCfg) (X N : List SPath) : ∀ (g : G),
    nonLocalRun cfg g (X.map GEv.exit ++ N.map GEv.enter) = false := by
  induction X with
  | nil =>
    induction N with
    | nil => intro g; rfl
    | cons p N ih => intro g; simp only [List.map_nil, List.nil_append, List.map_cons, nonLocalRun, Bool.false_or] at ih ⊢; exact ih _
  | cons p X ih => intro g; simp only [List.map_cons, List.cons_append, nonLocalRun, Bool.false_or]; exact ih _

theorem sameSet_mem {a b : List SPath} (h : sameSet a b = true) : ∀ p, p ∈ a → p ∈ b := by
  simp only [sameSet, Bool.and_eq_true, List.all_eq_true, List.contains_iff_mem] at h
  exact fun p hp => h.1.1 p hp

theorem nodes_prefixClosed {f : Forest} (hwf : f.WF = true) : PrefixClosed f.nodes := by
  intro p hp k hk0 hkl
  obtain ⟨_, hs⟩ := (Forest.mem_nodes_iff hwf).1 hp
  refine Forest.mem_nodes_of_sub? ?_ ?_
  · intro h0
    have : (p.take k).length = 0 := by rw [h0]; rfl
    rw [List.length_take] at this
    omega
  · have hsplit : p = p.take k ++ p.drop k := (List.take_append_drop k p).symm
    rw [hsplit, Forest.sub?_append] at hs
    cases h : f.sub? (p.take k) with
    | none => rw [h] at hs; simp at hs
    | some s => rfl

theorem prefixClosed_of_mem {l m : List SPath} (h : ∀ p, p ∈ l ↔ p ∈ m) (hm : PrefixClosed m) : PrefixClosed l :=
  fun p hp k h0 hl => (h _).2 (hm p ((h p).1 hp) k h0 hl)

variable (sub : NSub) (sc : Script) (cfg : NCfg)

/-- the `exec` mark followed by a resolved state change, with what is known about the executing transition -/
theorem Carries2.change (hwf : cfg.states.WF = true) (scope : Scope) (hsc : cfg.root.walkTo scope.pre = some scope)
    (conf : Forest) (dest : SPath) (r : Resolved) (tr : TRef) (t : NTrans)
    (hmem : (tr, t) ∈ allTrans cfg) (hscope : tr.scope = scope.pre) (hdest : t.dest = some dest)
    (hr : resolveTransition cfg.root scope conf dest = .ok r) :
    Carries2 cfg conf (GEv.exec tr :: ((pathsOf r.exits).map GEv.exit ++ (pathsOf r.enters).map GEv.enter)) r.tree := by
  intro g hg
  have hgb := hg.base
  obtain ⟨A, hA, xnd, xin, xord, xcl, nnd, nnew, npf, tok, tlen, tmem⟩ :=
    resolveTransition_spec enterSpec_holds enterRootEq_holds cfg hwf scope hsc conf hgb.conf_ok hgb.root1 dest r hr
  -- the GI part and the core flags come from the basic lemma
  obtain ⟨b2, c2, _, _⟩ := Carries.change cfg hwf scope hsc conf dest r tr hr g hgb
  have hm := Carries.mark cfg hwf conf (.exec tr) rfl (fun t m h => by cases h) (fun t x h => by cases h) g hgb
  rw [grun_single] at hm
  obtain ⟨g1ok, _, _, _⟩ := hm
  have hsplit : grun cfg g (GEv.exec tr :: ((pathsOf r.exits).map GEv.exit ++ (pathsOf r.enters).map GEv.enter))
      = grun cfg (gstep cfg g (.exec tr)) ((pathsOf r.exits).map GEv.exit ++ (pathsOf r.enters).map GEv.enter) := rfl
  have hh := hgb.running
  have e1 : (gstep cfg g (.exec tr)).entered = g.entered := by simp [gstep, hh]
  have e3 : (gstep cfg g (.exec tr)).enteredThenExited = g.enteredThenExited := by simp [gstep, hh]
  have e4 : (gstep cfg g (.exec tr)).live = g.live := by simp [gstep, hh]
  have hAl : A = [] ∨ (A ∈ (gstep cfg g (.exec tr)).live ∧ A ∉ pathsOf r.exits) := by
    rcases hA with h | h
    · exact Or.inl h
    · refine Or.inr ⟨by rw [e4]; exact (hgb.live_eq A).2 h, ?_⟩
      intro hx
      have := (xin A hx).2
      rw [properPrefix_self] at this
      cases this
  obtain ⟨_, lmem, _, _, _, _, _, _, lent, _, _, _, _, lete⟩ :=
    grun_change cfg (gstep cfg g (.exec tr)) A (pathsOf r.exits) (pathsOf r.enters) g1ok.running g1ok.nodup hAl
      xnd (fun p hp => (g1ok.live_eq p).2 (xin p hp).1) xord
      (fun p hp q hq hpq => xcl p hp q ((g1ok.live_eq q).1 hq) hpq)
      nnd (fun p hp hl => nnew p hp ((g1ok.live_eq p).1 hl)) npf
  rw [hsplit] at b2 c2 ⊢
  have hwfc : conf.WF = true := ConfOK_WF hgb.conf_ok
  have hpc : PrefixClosed g.live := prefixClosed_of_mem hgb.live_eq (nodes_prefixClosed hwfc)
  refine ⟨⟨b2, ?_⟩, c2, ?_⟩
  · -- the extension: live states below states entered in this event were entered in it
    intro p hp q hq hpq
    rw [lent, e1] at hp ⊢
    rw [lmem, e4] at hq
    rcases hq with ⟨hql, hqx⟩ | hqn
    · -- `q` stays live across the change
      rcases List.mem_append.1 hp with hpe | hpn
      · exact List.mem_append_left _ (hg.down p hpe q hql hpq)
      · exfalso
        -- `p` is newly entered and a prefix of the old live `q`: then `p` was live, hence exited, hence `q` exited too
        have hpq' : p = q ∨ properPrefix p q = true := by
          have htk : q.take p.length = p := by simpa [isPrefix] using hpq
          by_cases hlen : p.length < q.length
          · right; simp [properPrefix, hlen, htk]
          · left
            have : q.take p.length = q := List.take_of_length_le (by omega)
            rw [this] at htk; exact htk.symm
        rcases hpq' with rfl | hpp
        · exact hqx (nnew p hpn ((hgb.live_eq p).1 hql))
        · have hplive : p ∈ g.live := by
            have hlen : p.length < q.length := by
              simp only [properPrefix, Bool.and_eq_true, decide_eq_true_eq] at hpp; exact hpp.1
            have hpne : 0 < p.length := by
              cases p with
              | nil =>
                exfalso
                exact Forest.nil_not_mem_nodes r.tree ((tmem []).2 (Or.inr hpn))
              | cons a l => simp
            have htk : q.take p.length = p := by
              simp only [properPrefix, Bool.and_eq_true, beq_iff_eq] at hpp; exact hpp.2
            have := hpc q hql p.length hpne hlen
            rwa [htk] at this
          have hpx : p ∈ pathsOf r.exits := nnew p hpn ((hgb.live_eq p).1 hplive)
          exact hqx (xcl p hpx q ((hgb.live_eq q).1 hql) hpp)
    · exact List.mem_append_right _ hqn
  · -- entered-then-exited only if the transition is not local now
    intro h
    rw [lete, e3, e1, Bool.or_eq_true] at h
    rcases h with h | h
    · exact Or.inl h
    · right
      simp only [nonLocalRun, Bool.or_eq_true, Bool.not_eq_true']
      by_cases hloc : localRef cfg g tr = true
      · exfalso
        simp only [localRef, List.all_eq_true, Bool.or_eq_true, bne_iff_ne, ne_eq] at hloc
        have hl := hloc (tr, t) hmem
        simp only [not_true_eq_false, false_or, hdest] at hl
        rw [hscope] at hl
        have hdne : dest ≠ [] := by
          intro h0
          rw [h0] at hr
          simp [resolveTransition, Change.getState_nil] at hr
        have hdne' : scope.pre ++ dest ≠ [] := by
          intro h0; exact hdne (List.append_eq_nil_iff.1 h0).2
        have hfresh := local_exits_fresh g (scope.pre ++ t.source) (scope.pre ++ dest) hdne' hgb.nodup hpc hg.down hl
        have hset := sameSet_mem (C03_exits_scoped cfg hwf scope hsc conf hgb.conf_ok hgb.root1 dest r hr g.live hgb.nodup hgb.live_eq)
        rw [List.any_eq_true] at h
        obtain ⟨p, hpX, hpe⟩ := h
        exact hfresh p (hset p hpX) (by simpa using hpe)
      · left; simpa using hloc

/-- the relation is closed under everything hierarchical dispatch does (refined frame) -/
theorem rinv2_closed (hwf : cfg.states.WF = true) (hR : NoRaise sc) (hC : NoCmds sc) :
    Closed2 cfg sub sc (RInv2 cfg) where
  refl := RInv2.refl cfg
  trans := RInv2.trans
  mark := by
    intro v e hm hfin hne
    by_cases hx : ∃ tr, e = .exec tr
    · obtain ⟨tr, rfl⟩ := hx
      exact ⟨[.exec tr], rfl, Carries2.execMark cfg hwf v.conf tr⟩
    · exact ⟨[e], rfl, Carries2.mark cfg hwf v.conf e hm hfin hne (fun tr h => hx ⟨tr, h⟩)⟩
  execChange := by
    intro scope x dest tr t s s' hsc hmem hscope hdest _hnx h
    simp only [nchangeState] at h
    cases hr : resolveTransition cfg.root scope s.conf dest with
    | err e =>
      simp only [hr, Res.state?, Option.some.injEq] at h
      subst h
      exact ⟨[.exec tr], rfl, Carries2.execMark cfg hwf s.conf tr⟩
    | oof => simp [hr, Res.state?] at h
    | ok r =>
      simp only [hr] at h
      obtain ⟨s1, h1, c1, g1⟩ := exitAll_ok sub sc cfg hR hC x r.exits
        { s with glog := s.glog ++ [.exec tr], exited := s.exited ++ r.exitNames }
      obtain ⟨s2, h2, c2, g2⟩ := enterAll_ok sub sc cfg hR hC x r.enters { s1 with conf := r.tree }
      simp only [h1, Res.bind, h2, Res.state?, Option.some.injEq] at h
      subst h
      refine ⟨GEv.exec tr :: ((pathsOf r.exits).map GEv.exit ++ (pathsOf r.enters).map GEv.enter), ?_, ?_⟩
      · show s2.glog = s.glog ++ _
        rw [g2]; show s1.glog ++ _ = _; rw [g1]; simp
      · show Carries2 cfg s.conf _ s2.conf
        rw [c2]
        exact Carries2.change cfg hwf scope hsc s.conf dest r tr t hmem hscope hdest hr

end TM
