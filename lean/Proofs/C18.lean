/-
  Proofs/C18.lean — lemmas for property C18 (on_final).

  Nested part: the code-shaped `_final_check` (Model/Final.lean) against the declarative `fires` spec
  (Model/Spec/C18.lean), by mutual structural induction over the configuration tree.
  Flat part: what the documented-order acceptor `C01.expectEvent` says about on_final calls.
-/
import Model.Spec.C18
import Proofs.C01

namespace TM
namespace Final

/-! ### facts about the spec alone -/

theorem firing_ne_of_fires (D : Defs) (E : List Nat) (t : Tree) (h : fires D E t = true) :
    firing D E t ≠ [] := by
  cases t with
  | node s kids => simp [firing, h]

theorem firingL_ne_of_firesAny (D : Defs) (E : List Nat) :
    ∀ ts, firesAny D E ts = true → firingL D E ts ≠ []
  | [], h => by simp [firesAny] at h
  | t :: ts, h => by
    simp only [firesAny, Bool.or_eq_true] at h
    simp only [firingL, ne_eq, List.append_eq_nil_iff, not_and]
    intro h1
    rcases h with h | h
    · exact absurd h1 (firing_ne_of_fires D E t h)
    · exact firingL_ne_of_firesAny D E ts h

mutual
/-- a state that counts as final and below which something fires, fires itself -/
theorem fires_of_fin_firing (D : Defs) (E : List Nat) :
    ∀ t, fin D t = true → firing D E t ≠ [] → fires D E t = true
  | .node s kids, hf, hn => by
    by_cases hfi : fires D E (.node s kids) = true
    · exact hfi
    · simp only [firing, hfi] at hn
      cases kids with
      | nil => simp [firingL] at hn
      | cons k ks =>
        have hfa : finAll D (k :: ks) = true := by simpa [fin] using hf
        have := firesAny_of_finAll_firingL D E (k :: ks) hfa (by simpa using hn)
        simp [fires, hfa, this]
theorem firesAny_of_finAll_firingL (D : Defs) (E : List Nat) :
    ∀ ts, finAll D ts = true → firingL D E ts ≠ [] → firesAny D E ts = true
  | [], _, hn => by simp [firingL] at hn
  | t :: ts, hf, hn => by
    simp only [finAll, Bool.and_eq_true] at hf
    simp only [firingL, ne_eq, List.append_eq_nil_iff, not_and] at hn
    simp only [firesAny, Bool.or_eq_true]
    by_cases h1 : firing D E t = []
    · exact Or.inr (firesAny_of_finAll_firingL D E ts hf.2 (hn h1))
    · exact Or.inl (fires_of_fin_firing D E t hf.1 h1)
end

/-- a state that counts as final and has just been entered (with everything below it) fires -/
theorem fires_of_entered (D : Defs) (E : List Nat) :
    ∀ t, downClosed E t = true → fin D t = true → inE E t.id = true → fires D E t = true
  | .node s kids, hd, hf, he => by
    simp only [Tree.id] at he
    cases kids with
    | nil => simpa [fires, he, fin] using hf
    | cons k ks =>
      simp only [downClosed, he, Bool.not_true, Bool.false_or, Bool.and_eq_true, allIn, downClosedL] at hd
      have hfa : finAll D (k :: ks) = true := by simpa [fin] using hf
      have hk : fires D E k = true :=
        fires_of_entered D E k hd.2.1 (by simp only [finAll, Bool.and_eq_true] at hfa; exact hfa.1) hd.1.1
      simp [fires, hfa, firesAny, hk]

mutual
theorem firing_ne_of_entered_below (D : Defs) (E : List Nat) :
    ∀ t, downClosed E t = true → fin D t = true → (∃ e, inE E e = true ∧ e ∈ ids t) → firing D E t ≠ []
  | .node s kids, hd, hf, ⟨e, he, hm⟩ => by
    simp only [ids, List.mem_cons] at hm
    rcases hm with rfl | hm
    · exact firing_ne_of_fires D E _ (fires_of_entered D E _ hd hf he)
    · cases kids with
      | nil => simp [idsL] at hm
      | cons k ks =>
        have hfa : finAll D (k :: ks) = true := by simpa [fin] using hf
        simp only [downClosed, Bool.and_eq_true] at hd
        have := firingL_ne_of_entered_below D E (k :: ks) hd.2 hfa ⟨e, he, hm⟩
        simp only [firing, ne_eq, List.append_eq_nil_iff, not_and]
        intro h1; exact absurd h1 this
theorem firingL_ne_of_entered_below (D : Defs) (E : List Nat) :
    ∀ ts, downClosedL E ts = true → finAll D ts = true → (∃ e, inE E e = true ∧ e ∈ idsL ts) → firingL D E ts ≠ []
  | [], _, _, ⟨e, _, hm⟩ => by simp [idsL] at hm
  | t :: ts, hd, hf, ⟨e, he, hm⟩ => by
    simp only [downClosedL, Bool.and_eq_true] at hd
    simp only [finAll, Bool.and_eq_true] at hf
    simp only [idsL, List.mem_append] at hm
    simp only [firingL, ne_eq, List.append_eq_nil_iff, not_and]
    rcases hm with hm | hm
    · intro h1; exact absurd h1 (firing_ne_of_entered_below D E t hd.1 hf.1 ⟨e, he, hm⟩)
    · intro _; exact firingL_ne_of_entered_below D E ts hd.2 hf.2 ⟨e, he, hm⟩
end

/-! ### the code against the spec -/

mutual
/-- `_final_check` on a subtree = (states that fire, children first; counts as final) -/
theorem finalCheck_spec (D : Defs) (E : List Nat) :
    ∀ t, downClosed E t = true → finalCheck D E t = (firing D E t, fin D t)
  | .node s kids, hD => by
    have hDk : downClosedL E kids = true := by
      simp only [downClosed, Bool.and_eq_true] at hD; exact hD.2
    have hs : entered E s = inE E s := rfl
    have hloop := finalLoop_spec D E kids hDk [] true
    simp only [finalCheck, hloop, List.nil_append, Bool.true_and, hs]
    cases kids with
    | nil =>
      cases hfin : D.final s <;> cases hE : inE E s <;> simp [firing, firingL, fires, fin, hfin, hE, firesAny]
    | cons k ks =>
      simp only [List.isEmpty_cons, Bool.false_eq_true, if_false]
      cases hfa : finAll D (k :: ks)
      · -- not all children count as final
        simp only [Bool.false_eq_true, if_false]
        have hfin : fin D (.node s (k :: ks)) = false := by simp [fin, hfa]
        have hfires : fires D E (.node s (k :: ks)) = (D.final s && inE E s) := by
          simp [fires, hfa]
        rw [hfin]
        simp only [firing, hfires]
        cases D.final s && inE E s <;> simp
      · -- all children count as final
        simp only [if_true]
        have hfin : fin D (.node s (k :: ks)) = true := by simp [fin, hfa]
        have hiff : (!(firingL D E (k :: ks)).isEmpty || inE E s) = fires D E (.node s (k :: ks)) := by
          cases hfi : fires D E (.node s (k :: ks))
          · -- nothing may fire below, and s was not entered
            have h1 : firesAny D E (k :: ks) = false := by
              cases hx : firesAny D E (k :: ks)
              · rfl
              · simp [fires, hfa, hx] at hfi
            have h2 : firingL D E (k :: ks) = [] := by
              by_cases hne : firingL D E (k :: ks) = []
              · exact hne
              · have := firesAny_of_finAll_firingL D E (k :: ks) hfa hne
                simp [h1] at this
            have h3 : inE E s = false := by
              cases hx : inE E s
              · rfl
              · have := fires_of_entered D E (.node s (k :: ks)) hD hfin (by simpa [Tree.id] using hx)
                simp [hfi] at this
            simp [h2, h3]
          · simp only [fires, hfa, Bool.and_true, List.isEmpty_cons, Bool.not_false, Bool.true_and,
              Bool.or_eq_true, Bool.and_eq_true] at hfi
            rcases hfi with h | h
            · simp [h.2]
            · have := firingL_ne_of_firesAny D E (k :: ks) h
              have : (firingL D E (k :: ks)).isEmpty = false := by
                cases hx : firingL D E (k :: ks) with
                | nil => exact absurd hx this
                | cons _ _ => rfl
              simp [this]
        rw [hiff, hfin]
        simp only [firing]
        cases fires D E (.node s (k :: ks)) <;> simp
theorem finalLoop_spec (D : Defs) (E : List Nat) :
    ∀ ts, downClosedL E ts = true → ∀ cbs all,
      finalLoop D E ts cbs all = (cbs ++ firingL D E ts, all && finAll D ts)
  | [], _, cbs, all => by simp [finalLoop, firingL, finAll]
  | t :: ts, hD, cbs, all => by
    simp only [downClosedL, Bool.and_eq_true] at hD
    simp only [finalLoop, finalCheck_spec D E t hD.1, finalLoop_spec D E ts hD.2, firingL, finAll,
      List.append_assoc, Bool.and_assoc]
end

/-- the root call: never the AttributeError, and exactly the expected owners -/
theorem finalCheckRoot_spec (D : Defs) (E : List Nat) (roots : List Tree)
    (hW : enteredWF E roots = true) :
    finalCheckRoot D E roots = .ok (expected D E roots) := by
  simp only [enteredWF, Bool.and_eq_true] at hW
  have hloop := finalLoop_spec D E roots hW.1 [] true
  simp only [finalCheckRoot, hloop, List.nil_append, Bool.true_and, expected, machineFires]
  cases roots with
  | nil => simp [firingL]
  | cons r rs =>
    simp only [List.isEmpty_cons, Bool.false_eq_true, if_false, Bool.not_false, Bool.true_and]
    cases hfa : finAll D (r :: rs)
    · simp
    · simp only [if_true, Bool.true_and]
      cases hx : firingL D E (r :: rs) with
      | cons o os =>
        have : firesAny D E (r :: rs) = true :=
          firesAny_of_finAll_firingL D E (r :: rs) hfa (by simp [hx])
        simp [this]
      | nil =>
        have hany : firesAny D E (r :: rs) = false := by
          cases hy : firesAny D E (r :: rs)
          · rfl
          · exact absurd hx (firingL_ne_of_firesAny D E _ hy)
        simp only [List.isEmpty_nil, Bool.not_true, Bool.false_eq_true, if_false, hany, List.append_nil]
        by_cases hE : E.isEmpty = true
        · simp [hE]
        · exfalso
          obtain ⟨e, he⟩ : ∃ e, e ∈ E := by
            cases E with
            | nil => simp at hE
            | cons e _ => exact ⟨e, by simp⟩
          have hsub := hW.2
          rw [List.all_eq_true] at hsub
          have hin := hsub e he
          exact firingL_ne_of_entered_below D E (r :: rs) hW.1 hfa
            ⟨e, by simp [inE, he], by simpa using hin⟩ hx

end Final
end TM

/-! ### exactly the firing states, each once -/

namespace TM
namespace Final

mutual
def subtrees : Tree → List Tree
  | .node s kids => .node s kids :: subtreesL kids
def subtreesL : List Tree → List Tree
  | [] => []
  | t :: ts => subtrees t ++ subtreesL ts
end

mutual
theorem mem_firing_iff (D : Defs) (E : List Nat) (o : Owner) :
    ∀ t, o ∈ firing D E t ↔ ∃ x ∈ subtrees t, o = .state x.id ∧ fires D E x = true
  | .node s kids => by
    simp only [firing, List.mem_append, mem_firingL_iff D E o kids, subtrees, List.mem_cons]
    constructor
    · rintro (⟨x, hx, h⟩ | h)
      · exact ⟨x, Or.inr hx, h⟩
      · split at h
        · rename_i hf
          simp only [List.mem_cons, List.not_mem_nil, or_false] at h
          exact ⟨_, Or.inl rfl, h, hf⟩
        · simp at h
    · rintro ⟨x, rfl | hx, h1, h2⟩
      · right; simp [h2, h1, Tree.id]
      · exact Or.inl ⟨x, hx, h1, h2⟩
theorem mem_firingL_iff (D : Defs) (E : List Nat) (o : Owner) :
    ∀ ts, o ∈ firingL D E ts ↔ ∃ x ∈ subtreesL ts, o = .state x.id ∧ fires D E x = true
  | [] => by simp [firingL, subtreesL]
  | t :: ts => by
    simp only [firingL, List.mem_append, mem_firing_iff D E o t, mem_firingL_iff D E o ts, subtreesL]
    constructor
    · rintro (⟨x, hx, h⟩ | ⟨x, hx, h⟩)
      · exact ⟨x, Or.inl hx, h⟩
      · exact ⟨x, Or.inr hx, h⟩
    · rintro ⟨x, hx | hx, h⟩
      · exact Or.inl ⟨x, hx, h⟩
      · exact Or.inr ⟨x, hx, h⟩
end

mutual
theorem firing_sub_ids (D : Defs) (E : List Nat) (o : Owner) :
    ∀ t, o ∈ firing D E t → ∃ i ∈ ids t, o = .state i
  | .node s kids, h => by
    simp only [firing, List.mem_append] at h
    rcases h with h | h
    · obtain ⟨i, hi, e⟩ := firingL_sub_ids D E o kids h
      exact ⟨i, by simp [ids, hi], e⟩
    · split at h
      · simp only [List.mem_cons, List.not_mem_nil, or_false] at h
        exact ⟨s, by simp [ids], h⟩
      · simp at h
theorem firingL_sub_ids (D : Defs) (E : List Nat) (o : Owner) :
    ∀ ts, o ∈ firingL D E ts → ∃ i ∈ idsL ts, o = .state i
  | [], h => by simp [firingL] at h
  | t :: ts, h => by
    simp only [firingL, List.mem_append] at h
    rcases h with h | h
    · obtain ⟨i, hi, e⟩ := firing_sub_ids D E o t h
      exact ⟨i, by simp [idsL, hi], e⟩
    · obtain ⟨i, hi, e⟩ := firingL_sub_ids D E o ts h
      exact ⟨i, by simp [idsL, hi], e⟩
end

mutual
theorem firing_nodup (D : Defs) (E : List Nat) : ∀ t, (ids t).Nodup → (firing D E t).Nodup
  | .node s kids, h => by
    simp only [ids, List.nodup_cons] at h
    simp only [firing]
    rw [List.nodup_append]
    refine ⟨firingL_nodup D E kids h.2, by split <;> simp, ?_⟩
    intro a ha b hb hab
    subst hab
    obtain ⟨i, hi, e⟩ := firingL_sub_ids D E a kids ha
    split at hb
    · simp only [List.mem_cons, List.not_mem_nil, or_false] at hb
      rw [hb] at e
      cases e
      exact h.1 hi
    · simp at hb
theorem firingL_nodup (D : Defs) (E : List Nat) : ∀ ts, (idsL ts).Nodup → (firingL D E ts).Nodup
  | [], _ => by simp [firingL]
  | t :: ts, h => by
    simp only [idsL] at h
    rw [List.nodup_append] at h
    simp only [firingL]
    rw [List.nodup_append]
    refine ⟨firing_nodup D E t h.1, firingL_nodup D E ts h.2.1, ?_⟩
    intro a ha b hb hab
    subst hab
    obtain ⟨i, hi, e⟩ := firing_sub_ids D E a t ha
    obtain ⟨j, hj, e'⟩ := firingL_sub_ids D E a ts hb
    rw [e] at e'
    cases e'
    exact h.2.2 i hi i hj rfl
end

theorem expected_nodup (D : Defs) (E : List Nat) (roots : List Tree) (h : (idsL roots).Nodup) :
    (expected D E roots).Nodup := by
  simp only [expected]
  rw [List.nodup_append]
  refine ⟨firingL_nodup D E roots h, by split <;> simp, ?_⟩
  intro a ha b hb hab
  subst hab
  obtain ⟨i, _, e⟩ := firingL_sub_ids D E a roots ha
  split at hb
  · simp only [List.mem_cons, List.not_mem_nil, or_false] at hb
    rw [hb] at e
    cases e
  · simp at hb

end Final
end TM

/-! ### flat part: on_final in segments accepted by the documented-order acceptor -/

namespace TM
namespace C18
open C01

theorem view_append (a b : List Item) : view (a ++ b) = view a ++ view b := by
  induction a with
  | nil => rfl
  | cons i a ih =>
    cases i <;> simp only [List.cons_append, view, ih]
    split <;> simp

theorem view_expectCbs (slot : Slot) (m tag st : Nat) (cbs : List Nat) (l l' : List Item)
    (h : expectCbs slot m tag st cbs l = some ((), l')) :
    ∃ seg, l = seg ++ l' ∧ view seg = stage slot cbs := by
  fun_induction expectCbs slot m tag st cbs l with
  | case1 l =>
    simp only [Option.some.injEq, Prod.mk.injEq, true_and] at h
    exact ⟨[], by simp [h], by simp [view, stage]⟩
  | case2 c cs sl c' m' t' st' c'' b l0 hc ih =>
    obtain ⟨seg, e, v⟩ := ih h
    refine ⟨.call sl c' m' t' st' :: .done c'' (.ret b) :: seg, by simp [e], ?_⟩
    obtain ⟨rfl, rfl, _⟩ := hc
    simp only [view, v, stage]
    split <;> simp
  | case3 => cases h
  | case4 => cases h

theorem view_expectConds (m tag st : Nat) (cs : List Cond) (l l' : List Item) (ok : Bool)
    (h : expectConds m tag st cs l = some (ok, l')) :
    ∃ seg, l = seg ++ l' ∧ view seg = [] := by
  fun_induction expectConds m tag st cs l with
  | case1 l =>
    simp only [Option.some.injEq, Prod.mk.injEq] at h
    exact ⟨[], by simp [h.2], rfl⟩
  | case2 c cs sl c' m' t' st' c'' l0 hc ih =>
    obtain ⟨seg, e, v⟩ := ih h
    refine ⟨.call sl c' m' t' st' :: .done c'' (.ret c.target) :: seg, by simp [e], ?_⟩
    obtain ⟨rfl, _⟩ := hc
    simp only [view, v]
    split <;> simp [watched]
  | case3 c cs sl c' m' t' st' c'' b l0 hc hb =>
    simp only [Option.some.injEq, Prod.mk.injEq] at h
    refine ⟨[.call sl c' m' t' st', .done c'' (.ret b)], by simp [h.2], ?_⟩
    obtain ⟨rfl, _⟩ := hc
    simp only [view]
    split <;> simp [watched]
  | case4 => cases h
  | case5 => cases h

theorem andThen_cbs {β} (slot : Slot) (m tag st : Nat) (cbs : List Nat) (q : Unit → Acc β)
    (l l' : List Item) (b : β) (h : andThen (expectCbs slot m tag st cbs) q l = some (b, l')) :
    ∃ s1 l1, l = s1 ++ l1 ∧ view s1 = stage slot cbs ∧ q () l1 = some (b, l') := by
  simp only [andThen] at h
  split at h
  · rename_i a l1 hp
    obtain ⟨s1, e, v⟩ := view_expectCbs slot m tag st cbs l l1 hp
    exact ⟨s1, l1, e, v, h⟩
  · cases h

def candView (cfg : Cfg) (t : Trans) : Option Nat → List (Slot × Nat)
  | none => []
  | some _ => transView cfg t

theorem view_expectCand (cfg : Cfg) (m tag src : Nat) (t : Trans) (l l' : List Item) (r : Option Nat)
    (h : expectCand cfg m tag src t l = some (r, l')) :
    ∃ seg, l = seg ++ l' ∧ view seg = candView cfg t r ∧ (∀ st', r = some st' → st' = t.dest.getD src) := by
  unfold expectCand at h
  obtain ⟨s1, l1, e1, v1, h⟩ := andThen_cbs _ _ _ _ _ _ _ _ _ h
  simp only [andThen] at h
  split at h
  case h_2 => cases h
  rename_i ok l2 hcond
  obtain ⟨s2, e2, v2⟩ := view_expectConds _ _ _ _ _ _ _ hcond
  cases ok with
  | false =>
    simp only [Bool.not_false, if_true, Option.some.injEq, Prod.mk.injEq] at h
    obtain ⟨rfl, rfl⟩ := h
    refine ⟨s1 ++ s2, by simp [e1, e2], by simp [view_append, v1, v2, stage, watched, candView], by simp⟩
  | true =>
    simp only [Bool.not_true, Bool.false_eq_true, if_false] at h
    obtain ⟨s3, l3, e3, v3, h⟩ := andThen_cbs _ _ _ _ _ _ _ _ _ h
    obtain ⟨s4, l4, e4, v4, h⟩ := andThen_cbs _ _ _ _ _ _ _ _ _ h
    cases hd : t.dest with
    | none =>
      simp only [hd] at h
      obtain ⟨s5, l5, e5, v5, h⟩ := andThen_cbs _ _ _ _ _ _ _ _ _ h
      obtain ⟨s6, l6, e6, v6, h⟩ := andThen_cbs _ _ _ _ _ _ _ _ _ h
      simp only [Option.some.injEq, Prod.mk.injEq] at h
      obtain ⟨rfl, rfl⟩ := h
      refine ⟨s1 ++ s2 ++ s3 ++ s4 ++ s5 ++ s6, by simp [e1, e2, e3, e4, e5, e6], ?_, by simp⟩
      simp [view_append, v1, v2, v3, v4, v5, v6, stage, watched, candView, transView, hd]
    | some d =>
      simp only [hd] at h
      cases hs : cfg.state? src with
      | none => simp [hs] at h
      | some sdef =>
      cases hdd : cfg.state? d with
      | none => simp [hs, hdd] at h
      | some ddef =>
      simp only [hs, hdd] at h
      obtain ⟨s5, l5, e5, v5, h⟩ := andThen_cbs _ _ _ _ _ _ _ _ _ h
      obtain ⟨s6, l6, e6, v6, h⟩ := andThen_cbs _ _ _ _ _ _ _ _ _ h
      simp only [andThen] at h
      split at h
      case h_2 => cases h
      rename_i u l7 hfin
      obtain ⟨s8, l8, e8, v8, h⟩ := andThen_cbs _ _ _ _ _ _ _ _ _ h
      obtain ⟨s9, l9, e9, v9, h⟩ := andThen_cbs _ _ _ _ _ _ _ _ _ h
      simp only [Option.some.injEq, Prod.mk.injEq] at h
      obtain ⟨rfl, rfl⟩ := h
      have hf : ∃ s7, l6 = s7 ++ l7 ∧ view s7 = (if ddef.final then stage .onFinal cfg.onFinal else []) := by
        cases hfl : ddef.final with
        | false =>
          simp only [hfl, Bool.false_eq_true, if_false, Option.some.injEq, Prod.mk.injEq, true_and] at hfin
          exact ⟨[], by simp [hfin], by simp [view]⟩
        | true =>
          simp only [hfl, if_true] at hfin
          obtain ⟨s7, e7, v7⟩ := view_expectCbs _ _ _ _ _ _ _ hfin
          exact ⟨s7, e7, by simp [v7]⟩
      obtain ⟨s7, e7, v7⟩ := hf
      refine ⟨s1 ++ s2 ++ s3 ++ s4 ++ s5 ++ s6 ++ s7 ++ s8 ++ s9,
        by simp [e1, e2, e3, e4, e5, e6, e7, e8, e9], ?_, by simp⟩
      simp [view_append, v1, v2, v3, v4, v5, v6, v7, v8, v9, stage, watched, candView, transView, hd, hdd]

theorem view_expectCands (cfg : Cfg) (m tag src : Nat) :
    ∀ (ts : List Trans) (l l' : List Item) (r : Option Nat),
      expectCands cfg m tag src ts l = some (r, l') →
      ∃ seg w, l = seg ++ l' ∧ view seg = eventView cfg w ∧ w.isSome = r.isSome ∧
        ∀ t, w = some t → t ∈ ts ∧ r = some (t.dest.getD src)
  | [], l, l', r, h => by
    simp only [expectCands, Option.some.injEq, Prod.mk.injEq] at h
    obtain ⟨rfl, rfl⟩ := h
    exact ⟨[], none, by simp, rfl, rfl, by simp⟩
  | t :: ts, l, l', r, h => by
    simp only [expectCands] at h
    split at h
    · rename_i st' l1 hc
      simp only [Option.some.injEq, Prod.mk.injEq] at h
      obtain ⟨rfl, rfl⟩ := h
      obtain ⟨seg, e, v, hst⟩ := view_expectCand cfg m tag src t l l1 (some st') hc
      refine ⟨seg, some t, e, by simpa [eventView, candView] using v, rfl, ?_⟩
      intro t' ht'
      cases ht'
      exact ⟨by simp, by rw [hst st' rfl]⟩
    · rename_i l1 hc
      obtain ⟨s1, e1, v1, _⟩ := view_expectCand cfg m tag src t l l1 none hc
      obtain ⟨s2, w, e2, v2, hw, hin⟩ := view_expectCands cfg m tag src ts l1 l' r h
      refine ⟨s1 ++ s2, w, by simp [e1, e2], by simp [view_append, v1, v2, candView], hw, ?_⟩
      intro t' ht'
      obtain ⟨h1, h2⟩ := hin t' ht'
      exact ⟨by simp [h1], h2⟩
    · cases h

theorem view_expectEvent (cfg : Cfg) (m tag src ev : Nat) (l l' : List Item) (st' : Nat)
    (h : expectEvent cfg m tag src ev l = some (st', l')) :
    ∃ seg w, l = seg ++ l' ∧ view seg = eventView cfg w ∧
      (∀ t, w = some t → (∃ ts, cfg.event? ev = some ts ∧ t ∈ ts) ∧ t.source = src ∧
        st' = t.dest.getD src ∧ endsWith seg (.ret tag true)) ∧
      (w = none → st' = src ∧ (endsWith seg (.ret tag false) ∨ endsWith seg (.raised tag .machineError))) := by
  unfold expectEvent at h
  cases hev : cfg.event? ev with
  | none => simp [hev] at h
  | some ts =>
  simp only [hev] at h
  cases hc : candidates ts src with
  | none =>
    simp only [hc] at h
    split at h
    · obtain ⟨s1, l1, e1, v1, h⟩ := andThen_cbs _ _ _ _ _ _ _ _ _ h
      split at h
      case h_2 => cases h
      rename_i t l0
      split at h
      case isFalse => cases h
      rename_i ht
      simp only [Option.some.injEq, Prod.mk.injEq] at h
      obtain ⟨rfl, rfl⟩ := h
      subst ht
      exact ⟨s1 ++ [.ret t false], none, by simp [e1],
        by simp [view_append, v1, stage, watched, view, eventView], by simp,
        fun _ => ⟨rfl, Or.inl ⟨s1, rfl⟩⟩⟩
    · split at h
      · obtain ⟨s1, l1, e1, v1, h⟩ := andThen_cbs _ _ _ _ _ _ _ _ _ h
        split at h
        case h_2 => cases h
        rename_i t l0
        split at h
        case isFalse => cases h
        rename_i ht
        simp only [Option.some.injEq, Prod.mk.injEq] at h
        obtain ⟨rfl, rfl⟩ := h
        subst ht
        exact ⟨s1 ++ [.raised t .machineError], none, by simp [e1],
          by simp [view_append, v1, stage, watched, view, eventView], by simp,
          fun _ => ⟨rfl, Or.inr ⟨s1, rfl⟩⟩⟩
      · obtain ⟨s1, l1, e1, v1, h⟩ := andThen_cbs _ _ _ _ _ _ _ _ _ h
        obtain ⟨s2, l2, e2, v2, h⟩ := andThen_cbs _ _ _ _ _ _ _ _ _ h
        split at h
        case h_2 => cases h
        rename_i t l0
        split at h
        case isFalse => cases h
        rename_i ht
        simp only [Option.some.injEq, Prod.mk.injEq] at h
        obtain ⟨rfl, rfl⟩ := h
        subst ht
        exact ⟨s1 ++ s2 ++ [.ret t false], none, by simp [e1, e2],
          by simp [view_append, v1, v2, stage, watched, view, eventView], by simp,
          fun _ => ⟨rfl, Or.inl ⟨s1 ++ s2, rfl⟩⟩⟩
  | some cs =>
    simp only [hc] at h
    obtain ⟨s1, l1, e1, v1, h⟩ := andThen_cbs _ _ _ _ _ _ _ _ _ h
    simp only [andThen] at h
    split at h
    case h_2 => cases h
    rename_i r l2 hcs
    obtain ⟨s2, w, e2, v2, hw, hin⟩ := view_expectCands cfg m tag src cs l1 l2 r hcs
    obtain ⟨s3, l3, e3, v3, h⟩ := andThen_cbs _ _ _ _ _ _ _ _ _ h
    split at h
    case h_2 => cases h
    rename_i t b l4
    split at h
    case isFalse => cases h
    rename_i hc2
    simp only [Option.some.injEq, Prod.mk.injEq] at h
    obtain ⟨rfl, rfl⟩ := h
    obtain ⟨rfl, rfl⟩ := hc2
    refine ⟨s1 ++ s2 ++ s3 ++ [.ret t r.isSome], w, by simp [e1, e2, e3], ?_, ?_, ?_⟩
    · simp [view_append, v1, v2, v3, stage, watched, view]
    · intro t' ht'
      obtain ⟨h1, h2⟩ := hin t' ht'
      obtain ⟨h3, h4⟩ := candidates_spec hc t' h1
      refine ⟨⟨ts, rfl, h4⟩, h3, by simp [h2], ⟨s1 ++ s2 ++ s3, ?_⟩⟩
      simp [h2]
    · intro hn
      subst hn
      have : r = none := by cases r <;> simp_all
      subst this
      exact ⟨rfl, Or.inl ⟨s1 ++ s2 ++ s3, by simp⟩⟩

/-- acceptance of one event by the documented-order acceptor implies C18 for that event -/
theorem flatFinalEvent_of_expectEvent (cfg : Cfg) (m tag src ev : Nat) (l l' : List Item) (st' : Nat)
    (h : expectEvent cfg m tag src ev l = some (st', l')) :
    ∃ seg, l = seg ++ l' ∧ FlatFinalEvent cfg tag src ev seg st' := by
  obtain ⟨seg, w, e, v, h1, h2⟩ := view_expectEvent cfg m tag src ev l l' st' h
  exact ⟨seg, e, w, v, h1, h2⟩

/-- acceptance of a whole trace implies C18 for the whole trace -/
theorem flatFinalTrace_of_checkTrace (cfg : Cfg) :
    ∀ (n : Nat) (ms : List (Nat × Nat)) (tr : List Item), checkTrace cfg n ms tr = true → FlatFinalTrace cfg ms tr := by
  intro n
  induction n with
  | zero =>
    intro ms tr h
    cases tr with
    | nil => exact .nil ms
    | cons i tr => simp [checkTrace] at h
  | succ n ih =>
    intro ms tr h
    cases tr with
    | nil => exact .nil ms
    | cons i tr =>
      cases i with
      | api k tag m ev =>
        cases k with
        | zero =>
          simp only [checkTrace] at h
          cases hm : alookup m ms with
          | none => simp [hm] at h
          | some src =>
            simp only [hm] at h
            cases he : expectEvent cfg m tag src ev tr with
            | none => simp [he] at h
            | some r =>
              obtain ⟨st', rest⟩ := r
              simp only [he] at h
              obtain ⟨seg, e, hf⟩ := flatFinalEvent_of_expectEvent cfg m tag src ev tr rest st' he
              subst e
              exact .event ms tag m ev src st' seg rest hm hf (ih _ _ h)
        | succ k => simp [checkTrace] at h
      | call _ _ _ _ _ => simp [checkTrace] at h
      | done _ _ => simp [checkTrace] at h
      | ret _ _ => simp [checkTrace] at h
      | raised _ _ => simp [checkTrace] at h

end C18
end TM
