/-
  Proofs/C04NQueue.lean — after a trigger call issued on an idle machine nothing is left in the event queue.

  Whatever the script does (callbacks and conditions may raise anywhere, callbacks may issue re-entrant `trigger`
  commands, to any depth), a `model.trigger(ev)` issued by the caller while no event is being processed
  (`s.queue = []`) ends — with a truth value or with an exception — in a state whose `_transition_queue` is empty
  again (`napiTrigger_idle`), hence so does a whole history of such calls (`nrunHistory_idle`).

    Part A  machines with `cfg.queued = false`: the queue is never touched.  `KeepsQ r s` says that the run `r`
            started in `s` leaves the queue as it found it; it is proved function by function for the whole
            engine, for every `cfg`, under the only hypothesis that the interpreter of re-entrant commands `sub` keeps
            the queue (`SubKeepsQ sub`): only `sub` could touch it.  With `cfg.queued = false` the two functions that
            do touch the queue (`nmachineProcess`, `napiTrigger`) keep it too, and the fuelled knot `nrunCmd` closes
            the loop (`nrunCmd_subKeepsQ`).  No hypothesis on the script.
    Part B  machines with `cfg.queued = true`: the drain loop `ndrain` returns only with an empty queue (it returns
            normally when the queue is empty, and clears it when an event raises), whatever `sub` is.
    Part C  the two statements above.
-/
import Model

namespace TM

/-! ### Part A: the queue is left alone -/

/-- the run leaves the event queue as it found it -/
def KeepsQ {α : Type} (r : NR α) (s : NSt) : Prop := ∀ s', r.state? = some s' → s'.queue = s.queue
def SubKeepsQ (sub : NSub) : Prop := ∀ c s, KeepsQ (sub c s) s

namespace KeepsQ
variable {α β : Type}

/-- a normal end in a state with the same queue -/
theorem ok' {v : α} {s0 s : NSt} (h : s0.queue = s.queue) : KeepsQ (.ok v s0 : NR α) s := by
  intro s' e
  simp only [Res.state?, Option.some.injEq] at e
  subst e; exact h

/-- an exceptional end in a state with the same queue -/
theorem err' {e : Exc} {s0 s : NSt} (h : s0.queue = s.queue) : KeepsQ (.err e s0 : NR α) s := by
  intro s' e'
  simp only [Res.state?, Option.some.injEq] at e'
  subst e'; exact h

theorem ok (v : α) (s : NSt) : KeepsQ (.ok v s : NR α) s := ok' rfl
theorem err (e : Exc) (s : NSt) : KeepsQ (.err e s : NR α) s := err' rfl

theorem oof {s : NSt} : KeepsQ (.oof : NR α) s := by
  intro s' e
  simp only [Res.state?] at e
  cases e

theorem ok_eq {r : NR α} {s : NSt} (h : KeepsQ r s) {v : α} {s' : NSt} (e : r = .ok v s') : s'.queue = s.queue :=
  h s' (by rw [e]; rfl)

theorem err_eq {r : NR α} {s : NSt} (h : KeepsQ r s) {x : Exc} {s' : NSt} (e : r = .err x s') : s'.queue = s.queue :=
  h s' (by rw [e]; rfl)

/-- the state the run starts from may differ in the other fields (`s.emitG g`, `{ s with exited := … }`,
`{ s with conf := … }`, `{ s with result := … }` all have the queue of `s`) -/
theorem congr {r : NR α} {s s0 : NSt} (h : KeepsQ r s) (hq : s.queue = s0.queue) : KeepsQ r s0 :=
  fun s' e => (h s' e).trans hq

theorem bind {r : NR α} {f : α → NSt → NR β} {s : NSt}
    (h1 : KeepsQ r s) (h2 : ∀ v s1, r = .ok v s1 → KeepsQ (f v s1) s1) : KeepsQ (r.bind f) s := by
  cases r with
  | oof => exact oof
  | err e s1 => exact h1
  | ok v s1 =>
    intro s' e
    have q2 : s'.queue = s1.queue := h2 v s1 rfl s' e
    exact q2.trans (h1 s1 rfl)

theorem map {r : NR α} {s : NSt} (g : α → β) (h : KeepsQ r s) : KeepsQ (r.map g) s := by
  cases r with
  | oof => exact oof
  | err e s1 => exact h
  | ok v s1 => exact h

end KeepsQ

section Engine
variable {sub : NSub} (hsub : SubKeepsQ sub) (sc : Script) (cfg : NCfg)
include hsub

theorem nrunCmds_keepsQ : ∀ (cmds : List Cmd) (s : NSt), KeepsQ (nrunCmds sub cmds s) s
  | [], s => KeepsQ.ok () s
  | c :: cs, s => by
    unfold nrunCmds
    exact KeepsQ.bind (hsub c s) (fun _ s1 _ => nrunCmds_keepsQ cs s1)

/-- one callback invocation: whatever the script makes it do -/
theorem ninvoke_keepsQ (slot : Slot) (x : Ctx) (c : Nat) (s : NSt) : KeepsQ (ninvoke sub sc cfg slot x c s) s := by
  intro s' h
  unfold ninvoke at h
  simp only [] at h
  split at h
  · rename_i u s3 heq
    have q3 := (nrunCmds_keepsQ hsub _ _).ok_eq heq
    split at h
    · simp only [Res.state?, Option.some.injEq] at h
      subst h; exact q3
    · simp only [Res.state?, Option.some.injEq] at h
      subst h; exact q3
  · rename_i e s3 heq
    have q3 := (nrunCmds_keepsQ hsub _ _).err_eq heq
    simp only [Res.state?, Option.some.injEq] at h
    subst h; exact q3
  · simp only [Res.state?] at h
    cases h

theorem ncallbacks_keepsQ (slot : Slot) (x : Ctx) : ∀ (cbs : List Nat) (s : NSt),
    KeepsQ (ncallbacks sub sc cfg slot x cbs s) s
  | [], s => KeepsQ.ok () s
  | c :: cs, s => by
    unfold ncallbacks
    exact KeepsQ.bind (ninvoke_keepsQ hsub sc cfg slot x c s) (fun _ s1 _ => ncallbacks_keepsQ slot x cs s1)

theorem nevalConds_keepsQ (x : Ctx) : ∀ (cs : List Cond) (s : NSt), KeepsQ (nevalConds sub sc cfg x cs s) s
  | [], s => KeepsQ.ok true s
  | c :: cs, s => by
    unfold nevalConds
    refine KeepsQ.bind (ninvoke_keepsQ hsub sc cfg _ x c.cb s) ?_
    intro b s1 _
    split
    · exact nevalConds_keepsQ x cs s1
    · exact KeepsQ.ok false s1

theorem exitAll_keepsQ (x : Ctx) : ∀ (fs : List Found) (s : NSt), KeepsQ (exitAll sub sc cfg x fs s) s
  | [], s => KeepsQ.ok () s
  | f :: fs, s => by
    unfold exitAll
    exact KeepsQ.bind ((ncallbacks_keepsQ hsub sc cfg .onExit x f.d.onExit (s.emitG (.exit f.path))).congr rfl)
      (fun _ s1 _ => exitAll_keepsQ x fs s1)

theorem enterAll_keepsQ (x : Ctx) : ∀ (fs : List Found) (s : NSt), KeepsQ (enterAll sub sc cfg x fs s) s
  | [], s => KeepsQ.ok () s
  | f :: fs, s => by
    unfold enterAll
    exact KeepsQ.bind ((ncallbacks_keepsQ hsub sc cfg .onEnter x f.d.onEnter (s.emitG (.enter f.path))).congr rfl)
      (fun _ s1 _ => enterAll_keepsQ x fs s1)

theorem nchangeState_keepsQ (scope : Scope) (x : Ctx) (dest : SPath) (s : NSt) :
    KeepsQ (nchangeState sub sc cfg scope x dest s) s := by
  unfold nchangeState
  cases hr : resolveTransition cfg.root scope s.conf dest with
  | err e => exact KeepsQ.err e s
  | oof => exact KeepsQ.oof
  | ok r =>
    simp only []
    refine KeepsQ.bind ((exitAll_keepsQ hsub sc cfg x r.exits { s with exited := s.exited ++ r.exitNames }).congr rfl) ?_
    intro _ s1 _
    exact (enterAll_keepsQ hsub sc cfg x r.enters { s1 with conf := r.tree }).congr rfl

theorem nfinalStage_keepsQ (scope : Scope) (x : Ctx) (dest : Option SPath) (conf0 : Forest) (s : NSt) :
    KeepsQ (nfinalStage sub sc cfg scope x dest conf0 s) s := by
  unfold nfinalStage
  cases dest with
  | none => exact KeepsQ.ok () s
  | some d =>
    simp only []
    cases hr : resolveTransition cfg.root scope conf0 d with
    | err e => exact KeepsQ.ok () s
    | oof => exact KeepsQ.ok () s
    | ok r =>
      simp only []
      cases hf : nfinalCheckRoot cfg r.tree (r.enters.map (·.path)) with
      | err e => exact KeepsQ.err e s
      | oof => exact KeepsQ.oof
      | ok cbs => exact ncallbacks_keepsQ hsub sc cfg .onFinal x cbs.flatten s

theorem nexecute_keepsQ (scope : Scope) (x : Ctx) (tr : TRef) (t : NTrans) (s : NSt) :
    KeepsQ (nexecute sub sc cfg scope x tr t s) s := by
  unfold nexecute
  refine KeepsQ.bind ((ncallbacks_keepsQ hsub sc cfg .prepare x t.prepare (s.emitG (.cand tr))).congr rfl) ?_
  intro _ s1 _
  refine KeepsQ.bind (nevalConds_keepsQ hsub sc cfg x t.conds s1) ?_
  intro ok s2 _
  cases ok with
  | false => exact KeepsQ.ok false s2
  | true =>
    simp only [Bool.not_true, Bool.false_eq_true, if_false]
    refine KeepsQ.bind (ncallbacks_keepsQ hsub sc cfg .beforeSC x cfg.beforeSC s2) ?_
    intro _ s3 _
    refine KeepsQ.bind ((ncallbacks_keepsQ hsub sc cfg .before x t.before (s3.emitG (.exec tr))).congr rfl) ?_
    intro _ s4 _
    refine KeepsQ.bind ?_ ?_
    · cases t.dest with
      | none => exact KeepsQ.ok () s4
      | some d => exact nchangeState_keepsQ hsub sc cfg scope x d s4
    intro _ s5 _
    refine KeepsQ.bind (nfinalStage_keepsQ hsub sc cfg scope x t.dest s4.conf s5) ?_
    intro _ s5' _
    refine KeepsQ.bind (ncallbacks_keepsQ hsub sc cfg .after x t.after s5') ?_
    intro _ s6 _
    refine KeepsQ.bind (ncallbacks_keepsQ hsub sc cfg .afterSC x cfg.afterSC s6) ?_
    intro _ s7 _
    exact KeepsQ.ok true s7

theorem ntry_keepsQ (scope : Scope) (x : Ctx) : ∀ (cands : List (TRef × NTrans)) (s : NSt),
    KeepsQ (ntry sub sc cfg scope x cands s) s
  | [], s => KeepsQ.ok () s
  | (tr, t) :: r, s => by
    unfold ntry
    refine KeepsQ.bind (nexecute_keepsQ hsub sc cfg scope x tr t s) ?_
    intro b s1 _
    cases b with
    | true => exact KeepsQ.ok' rfl
    | false =>
      simp only [Bool.false_eq_true, if_false]
      exact (ntry_keepsQ scope x r { s1 with result := some false }).congr rfl

theorem nprocess_keepsQ (scope : Scope) (x : Ctx) (cands : List (TRef × NTrans)) (s : NSt) :
    KeepsQ (nprocess sub sc cfg scope x cands s) s := by
  unfold nprocess
  exact KeepsQ.bind (ncallbacks_keepsQ hsub sc cfg .prepareEvent x cfg.prepareEvent s)
    (fun _ s1 _ => ntry_keepsQ hsub sc cfg scope x cands s1)

theorem tnLoop_keepsQ (scope : Scope) (x : Ctx) (ev : Nat) (ts : List NTrans) : ∀ (ps done : List SPath) (s : NSt),
    KeepsQ (tnLoop sub sc cfg scope x ev ts ps done s) s
  | [], done, s => KeepsQ.ok done s
  | p :: ps, done, s => by
    unfold tnLoop
    simp only []
    split
    · exact tnLoop_keepsQ scope x ev ts ps done s
    · cases hg : getState cfg.root scope p with
      | none => exact KeepsQ.err .valueError s
      | some fd =>
        simp only []
        exact KeepsQ.bind (nprocess_keepsQ hsub sc cfg scope x (ncandidates scope.pre ev ts p) s)
          (fun _ s1 _ => tnLoop_keepsQ scope x ev ts ps _ s1)

theorem triggerNested_keepsQ (scope : Scope) (x : Ctx) (ev : Nat) (ts : List NTrans) (s : NSt) :
    KeepsQ (triggerNested sub sc cfg scope x ev ts s) s := by
  unfold triggerNested
  cases hr : s.conf.reduceGet scope.pre with
  | error e => exact KeepsQ.err e s
  | ok o =>
    cases o with
    | none => exact KeepsQ.err .attributeError s
    | some sub' =>
      simp only []
      cases ho : resolveOrder sub' with
      | none => exact KeepsQ.oof
      | some order =>
        simp only []
        refine KeepsQ.bind (tnLoop_keepsQ hsub sc cfg scope x ev ts order [] s) ?_
        intro done s1 _
        split
        · exact KeepsQ.ok _ s1
        · exact KeepsQ.ok' rfl

theorem ten_keepsQ (x : Ctx) (ev : Nat) : ∀ (tree : Forest) (scope : Scope) (res : List (Nat × Bool)) (offered : Bool)
    (s : NSt), KeepsQ (ten sub sc cfg x ev scope tree res offered s) s := by
  intro tree
  induction tree with
  | nil => intro scope res offered s; unfold ten; exact KeepsQ.ok res s
  | cons key value rest ih1 ih2 =>
    intro scope res offered s
    unfold ten
    refine KeepsQ.bind ?_ ?_
    · split
      · exact KeepsQ.ok res s
      · cases he : scope.enter key with
        | none => exact KeepsQ.err .other s
        | some innerScope =>
          simp only []
          exact KeepsQ.bind (ih1 innerScope [] false s) (fun r s1 _ => KeepsQ.ok _ s1)
    · intro res1 s1 _
      split
      · cases alookup ev scope.events with
        | none => exact ih2 scope res1 offered s1
        | some ts =>
          simp only []
          exact KeepsQ.bind (triggerNested_keepsQ hsub sc cfg scope x ev ts s1) (fun tmp s2 _ => ih2 scope _ true s2)
      · exact ih2 scope res1 offered s1

omit hsub in
theorem checkEventResult_keepsQ (res : Option Bool) (ev : Nat) (s : NSt) : KeepsQ (checkEventResult cfg res ev s) s := by
  unfold checkEventResult
  cases res with
  | some b => exact KeepsQ.ok b s
  | none =>
    simp only []
    cases hc : cerLoop cfg ev (buildStateList [] s.conf).flat with
    | ok b => exact KeepsQ.ok b s
    | err e => exact KeepsQ.err e s
    | oof => exact KeepsQ.oof

theorem triggerEventBody_keepsQ (x : Ctx) (ev : Nat) (s : NSt) : KeepsQ (triggerEventBody sub sc cfg x ev s) s := by
  unfold triggerEventBody
  refine KeepsQ.bind (ten_keepsQ hsub sc cfg x ev s.conf cfg.root [] false s) ?_
  intro r s1 _
  refine KeepsQ.bind (checkEventResult_keepsQ cfg (summarize r) ev s1) ?_
  intro b s2 _
  exact KeepsQ.ok' rfl

/-- the `finally:` block -/
theorem nfinalize_keepsQ (x : Ctx) (s s' : NSt) (h : nfinalize sub sc cfg x s = some s') : s'.queue = s.queue := by
  unfold nfinalize at h
  have hc := (ncallbacks_keepsQ hsub sc cfg .finalize x cfg.finalize (s.emitG (.fin x.tag (confMask cfg s.conf)))).congr
    (s0 := s) rfl
  split at h
  · rename_i u s1 heq
    simp only [Option.some.injEq] at h
    subst h; exact hc.ok_eq heq
  · rename_i e s1 heq
    simp only [Option.some.injEq] at h
    subst h; exact hc.err_eq heq
  · cases h

/-- the `finally:` block around an outcome -/
theorem nfinalize_wrap_keepsQ (x : Ctx) (r1 : NR Bool) (s : NSt) (h1 : KeepsQ r1 s) :
    KeepsQ (match r1 with
      | .ok b s' => match nfinalize sub sc cfg x s' with
        | some s'' => .ok b s''
        | none => .oof
      | .err e s' => match nfinalize sub sc cfg x s' with
        | some s'' => .err e s''
        | none => .oof
      | .oof => (.oof : NR Bool)) s := by
  cases r1 with
  | oof => exact KeepsQ.oof
  | ok b s1 =>
    simp only []
    cases hfin : nfinalize sub sc cfg x s1 with
    | none => exact KeepsQ.oof
    | some s2 => exact KeepsQ.ok' ((nfinalize_keepsQ hsub sc cfg x s1 s2 hfin).trans (h1 s1 rfl))
  | err e s1 =>
    simp only []
    cases hfin : nfinalize sub sc cfg x s1 with
    | none => exact KeepsQ.oof
    | some s2 => exact KeepsQ.err' ((nfinalize_keepsQ hsub sc cfg x s1 s2 hfin).trans (h1 s1 rfl))

theorem ntriggerEvent_keepsQ (x : Ctx) (ev : Nat) (s : NSt) : KeepsQ (ntriggerEvent sub sc cfg x ev s) s := by
  unfold ntriggerEvent
  refine nfinalize_wrap_keepsQ hsub sc cfg x _ s ?_
  have hb := (triggerEventBody_keepsQ hsub sc cfg x ev { s with result := none, exited := [] }).congr (s0 := s) rfl
  cases hbody : triggerEventBody sub sc cfg x ev { s with result := none, exited := [] } with
  | oof => exact KeepsQ.oof
  | ok b s1 => exact KeepsQ.ok' (hb.ok_eq hbody)
  | err e s1 =>
    have q1 := hb.err_eq hbody
    simp only []
    cases hex : cfg.onException with
    | nil => exact KeepsQ.err' q1
    | cons h0 hs =>
      simp only []
      refine KeepsQ.congr (KeepsQ.bind (ncallbacks_keepsQ hsub sc cfg .onException x (h0 :: hs) s1) ?_) q1
      intro _ s2 _
      exact KeepsQ.ok _ s2

/-! the two functions that touch the queue, on a machine that is not queued -/

theorem nmachineProcess_keepsQ (hq : cfg.queued = false) (qmax ev tag : Nat) (s : NSt) :
    KeepsQ (nmachineProcess sub sc cfg qmax ev tag s) s := by
  unfold nmachineProcess
  simp only [hq, Bool.not_false, if_true]
  cases hs : s.queue with
  | nil => exact ntriggerEvent_keepsQ hsub sc cfg ⟨0, tag⟩ ev s
  | cons hd tl => exact KeepsQ.err .machineError s

theorem napiTrigger_keepsQ (hq : cfg.queued = false) (qmax ev : Nat) (s : NSt) :
    KeepsQ (napiTrigger sub sc cfg qmax ev s) s := by
  intro s' h
  unfold napiTrigger at h
  simp only [] at h
  split at h
  · rename_i b s1 heq
    have q1 := (nmachineProcess_keepsQ hsub sc cfg hq qmax ev _ _).ok_eq heq
    simp only [Res.state?, Option.some.injEq] at h
    subst h; exact q1
  · rename_i e s1 heq
    have q1 := (nmachineProcess_keepsQ hsub sc cfg hq qmax ev _ _).err_eq heq
    simp only [Res.state?, Option.some.injEq] at h
    subst h; exact q1
  · simp only [Res.state?] at h
    cases h

end Engine

/-- the fuelled knot: on a machine that is not queued the interpreter of re-entrant commands keeps the queue at
every fuel level — no hypothesis on the script -/
theorem nrunCmd_subKeepsQ (sc : Script) (cfg : NCfg) (qmax : Nat) (hq : cfg.queued = false) :
    ∀ f, SubKeepsQ (nrunCmd sc cfg qmax f)
  | 0 => fun c s => by simp only [nrunCmd]; exact KeepsQ.oof
  | f + 1 => by
    intro c s
    cases c with
    | trigger m ev =>
      simp only [nrunCmd]
      exact KeepsQ.map _ (napiTrigger_keepsQ (nrunCmd_subKeepsQ sc cfg qmax hq f) sc cfg hq qmax ev s)
    | removeModel m => simp only [nrunCmd]; exact KeepsQ.err .other s
    | addModel m => simp only [nrunCmd]; exact KeepsQ.err .other s
    | dispatch ev => simp only [nrunCmd]; exact KeepsQ.err .other s
    | may m ev => simp only [nrunCmd]; exact KeepsQ.err .other s

/-! ### Part B: the drain loop returns with an empty queue -/

/-- `Machine._process`, queued mode: the loop ends normally only when the queue is empty, and an exception clears
the queue; whatever the interpreter of commands `sub` does -/
theorem ndrain_empties (sub : NSub) (sc : Script) (cfg : NCfg) : ∀ (n : Nat) (s s' : NSt),
    (ndrain sub sc cfg n s).state? = some s' → s'.queue = []
  | 0, s, s', h => by
    simp only [ndrain, Res.state?] at h
    cases h
  | n + 1, s, s', h => by
    unfold ndrain at h
    split at h
    · rename_i hs
      simp only [Res.state?, Option.some.injEq] at h
      subst h; exact hs
    · split at h
      · exact ndrain_empties sub sc cfg n _ s' h
      · simp only [Res.state?, Option.some.injEq] at h
        subst h; rfl
      · simp only [Res.state?] at h
        cases h

/-- a trigger call on an idle queued machine: the event is appended and the queue drained -/
theorem nmachineProcess_idle_empties (sub : NSub) (sc : Script) (cfg : NCfg) (hq : cfg.queued = true)
    (qmax ev tag : Nat) (s s' : NSt) (h : (nmachineProcess sub sc cfg qmax ev tag s).state? = some s')
    (hidle : s.queue = []) : s'.queue = [] := by
  simp only [nmachineProcess, hq, Bool.not_true, Bool.false_eq_true, if_false, hidle, List.nil_append,
    List.length_singleton, Nat.lt_irrefl] at h
  cases hd : ndrain sub sc cfg qmax { s with queue := [(ev, tag)] } with
  | oof => rw [hd] at h; simp only [Res.bind, Res.state?] at h; cases h
  | err e s1 =>
    rw [hd] at h
    simp only [Res.bind, Res.state?, Option.some.injEq] at h
    subst h
    exact ndrain_empties sub sc cfg qmax _ s1 (by rw [hd]; rfl)
  | ok u s1 =>
    rw [hd] at h
    simp only [Res.bind, Res.state?, Option.some.injEq] at h
    subst h
    exact ndrain_empties sub sc cfg qmax _ s1 (by rw [hd]; rfl)

/-- `model.trigger(ev)` on an idle queued machine, whatever `sub` is -/
theorem napiTrigger_idle_queued (sub : NSub) (sc : Script) (cfg : NCfg) (hq : cfg.queued = true)
    (qmax ev : Nat) (s s' : NSt) (hidle : s.queue = [])
    (h : (napiTrigger sub sc cfg qmax ev s).state? = some s') : s'.queue = [] := by
  unfold napiTrigger at h
  simp only [] at h
  split at h
  · rename_i b s1 heq
    have q1 := nmachineProcess_idle_empties sub sc cfg hq qmax ev _ _ s1 (congrArg Res.state? heq) hidle
    simp only [Res.state?, Option.some.injEq] at h
    subst h; exact q1
  · rename_i e s1 heq
    have q1 := nmachineProcess_idle_empties sub sc cfg hq qmax ev _ _ s1 (congrArg Res.state? heq) hidle
    simp only [Res.state?, Option.some.injEq] at h
    subst h; exact q1
  · simp only [Res.state?] at h
    cases h

/-! ### Part C -/

/-- after a trigger call issued by the caller on an idle machine the queue is empty again: whatever the outcome -/
theorem napiTrigger_idle (sc : Script) (cfg : NCfg) (qmax f ev : Nat) (s s' : NSt) (hidle : s.queue = [])
    (h : (napiTrigger (nrunCmd sc cfg qmax f) sc cfg qmax ev s).state? = some s') : s'.queue = [] := by
  cases hq : cfg.queued with
  | false =>
    have q1 := napiTrigger_keepsQ (nrunCmd_subKeepsQ sc cfg qmax hq f) sc cfg hq qmax ev s s' h
    exact q1.trans hidle
  | true => exact napiTrigger_idle_queued _ sc cfg hq qmax ev s s' hidle h

/-- a history of trigger calls issued by the caller, one after the other, on a machine that starts idle: it is
idle again after every call -/
theorem nrunHistory_idle (sc : Script) (cfg : NCfg) (qmax fuel : Nat) : ∀ (h : List Nat) (s s' : NSt),
    s.queue = [] → nrunHistory sc cfg qmax fuel h s = some s' → s'.queue = []
  | [], s, s', hidle, h => by
    simp only [nrunHistory, Option.some.injEq] at h
    subst h; exact hidle
  | ev :: evs, s, s', hidle, h => by
    cases fuel with
    | zero => simp only [nrunHistory, nrunCmd] at h; cases h
    | succ f =>
      simp only [nrunHistory, nrunCmd] at h
      cases hc : napiTrigger (nrunCmd sc cfg qmax f) sc cfg qmax ev s with
      | oof => simp only [hc, Res.map] at h; cases h
      | ok b s1 =>
        simp only [hc, Res.map] at h
        exact nrunHistory_idle sc cfg qmax (f + 1) evs s1 s'
          (napiTrigger_idle sc cfg qmax f ev s s1 hidle (by rw [hc]; rfl)) h
      | err e s1 =>
        simp only [hc, Res.map] at h
        exact nrunHistory_idle sc cfg qmax (f + 1) evs s1 s'
          (napiTrigger_idle sc cfg qmax f ev s s1 hidle (by rw [hc]; rfl)) h

end TM
