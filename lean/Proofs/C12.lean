/-
  Proofs/C12.lean — `may_<event>` (`Machine._can_trigger`) against the trigger, flat engine.
-/
import Proofs.Frame

namespace TM

/-- conditions are deterministic: the outcome of a callback does not depend on how often it ran -/
def Deterministic (sc : Script) : Prop := ∀ c j k, (sc c j).out = (sc c k).out

/-- the value a (deterministic, non-raising) condition callback returns -/
def condVal (sc : Script) (c : Nat) : Bool :=
  match (sc c 0).out with
  | .ret b => b
  | .raise _ => false

def condsPass (sc : Script) (cs : List Cond) : Bool := cs.all fun c => condVal sc c.cb == c.target

/-- all conditions / unless checks of the transition hold -/
def passes (sc : Script) (t : Trans) : Bool := condsPass sc t.conds

variable (sub : Sub) (sc : Script) (cfg : Cfg)

theorem invoke_det (hR : NoRaise sc) (hC : NoCmds sc) (hD : Deterministic sc) (slot : Slot) (x : Ctx) (c : Nat) (s : St) :
    ∃ s', invoke sub sc slot x c s = .ok (condVal sc c) s' ∧ Frame s s' := by
  obtain ⟨b, hb⟩ := hR c (s.count c)
  have hv : condVal sc c = b := by
    unfold condVal; rw [hD c 0 (s.count c), hb]
  refine ⟨(({ s with counts := aset c (s.count c + 1) s.counts }).emit
      (.call slot c x.model x.tag (s.stateOf x.model))).emit (.done c (.ret b)), ?_, ⟨rfl, rfl, rfl, rfl⟩⟩
  simp only [invoke, hC c (s.count c), runCmds, hb, hv]
  rfl

theorem evalConds_det (hR : NoRaise sc) (hC : NoCmds sc) (hD : Deterministic sc) (x : Ctx) :
    ∀ (cs : List Cond) (s : St), ∃ s', evalConds sub sc x cs s = .ok (condsPass sc cs) s' ∧ Frame s s'
  | [], s => ⟨s, rfl, Frame.refl s⟩
  | c :: cs, s => by
    obtain ⟨s1, h1, f1⟩ := invoke_det sub sc hR hC hD (if c.target then .condition else .unless) x c.cb s
    by_cases hb : condVal sc c.cb = c.target
    · obtain ⟨s2, h2, f2⟩ := evalConds_det hR hC hD x cs s1
      exact ⟨s2, by simp [evalConds, h1, Res.bind, hb, h2, condsPass], f1.trans f2⟩
    · exact ⟨s1, by simp [evalConds, h1, Res.bind, hb, condsPass], f1⟩

theorem callbacks_frame (hR : NoRaise sc) (hC : NoCmds sc) (slot : Slot) (x : Ctx) (cbs : List Nat) (s : St) :
    ∃ s', callbacks sub sc slot x cbs s = .ok () s' ∧ Frame s s' := by
  obtain ⟨s', _, h, f, _, _⟩ := callbacks_ok sub sc hR hC slot x cbs s
  exact ⟨s', h, f⟩

theorem changeState_okk (hR : NoRaise sc) (hC : NoCmds sc) (x : Ctx) (t : Trans) (d : Nat) (s : St)
    (hs : (cfg.state? (s.stateOf x.model)).isSome) (hd : (cfg.state? d).isSome) :
    ∃ s', changeState sub sc cfg x t d s = .ok () s' := by
  obtain ⟨sdef, hs⟩ := Option.isSome_iff_exists.mp hs
  obtain ⟨ddef, hd⟩ := Option.isSome_iff_exists.mp hd
  obtain ⟨s1, e1, _⟩ := callbacks_frame sub sc hR hC .onExit x sdef.onExit s
  obtain ⟨s2, e2, _⟩ := callbacks_frame sub sc hR hC .onEnter x ddef.onEnter (s1.setState x.model d)
  by_cases hf : ddef.final
  · obtain ⟨s3, e3, _⟩ := callbacks_frame sub sc hR hC .onFinal x cfg.onFinal s2
    exact ⟨s3, by simp [changeState, hs, e1, Res.bind, hd, e2, hf, e3]⟩
  · exact ⟨s2, by simp [changeState, hs, e1, Res.bind, hd, e2, hf]⟩

/-- `Transition.execute` of a well-formed transition under the hypotheses: returns whether it passed -/
theorem execute_det (hR : NoRaise sc) (hC : NoCmds sc) (hD : Deterministic sc) (x : Ctx) (t : Trans) (s : St)
    (hok : cfg.TransOK t) (hcur : (cfg.state? (s.stateOf x.model)).isSome) :
    ∃ s', execute sub sc cfg x t s = .ok (passes sc t) s' ∧ (passes sc t = false → Frame s s') := by
  obtain ⟨s1, e1, f1⟩ := callbacks_frame sub sc hR hC .prepare x t.prepare s
  obtain ⟨s2, e2, f2⟩ := evalConds_det sub sc hR hC hD x t.conds s1
  cases hp : passes sc t with
  | false =>
    have hp' : condsPass sc t.conds = false := hp
    exact ⟨s2, by simp [execute, e1, Res.bind, e2, hp'], fun _ => f1.trans f2⟩
  | true =>
    have hp' : condsPass sc t.conds = true := hp
    obtain ⟨s3, e3, f3⟩ := callbacks_frame sub sc hR hC .beforeSC x cfg.beforeSC s2
    obtain ⟨s4, e4, f4⟩ := callbacks_frame sub sc hR hC .before x t.before s3
    have hcur4 : (cfg.state? (s4.stateOf x.model)).isSome := by
      rw [(((f1.trans f2).trans f3).trans f4).stateOf]; exact hcur
    cases hd : t.dest with
    | none =>
      obtain ⟨s6, e6, _⟩ := callbacks_frame sub sc hR hC .after x t.after s4
      obtain ⟨s7, e7, _⟩ := callbacks_frame sub sc hR hC .afterSC x cfg.afterSC s6
      exact ⟨s7, by simp [execute, e1, Res.bind, e2, hp', e3, e4, hd, e6, e7], fun h => by cases h⟩
    | some d =>
      obtain ⟨s5, e5⟩ := changeState_okk sub sc cfg hR hC x t d s4 hcur4 (hok.2 d hd)
      obtain ⟨s6, e6, _⟩ := callbacks_frame sub sc hR hC .after x t.after s5
      obtain ⟨s7, e7, _⟩ := callbacks_frame sub sc hR hC .afterSC x cfg.afterSC s6
      exact ⟨s7, by simp [execute, e1, Res.bind, e2, hp', e3, e4, hd, e5, e6, e7], fun h => by cases h⟩

theorem tryTransitions_det (hR : NoRaise sc) (hC : NoCmds sc) (hD : Deterministic sc) (x : Ctx) :
    ∀ (ts : List Trans) (s : St),
    (∀ t ∈ ts, cfg.TransOK t) → (cfg.state? (s.stateOf x.model)).isSome →
    ∃ s', tryTransitions sub sc cfg x ts s = .ok (ts.any (passes sc)) s'
  | [], s, _, _ => ⟨s, rfl⟩
  | t :: ts, s, hts, hcur => by
    have hok := hts t (List.mem_cons_self ..)
    obtain ⟨s1, e1, f1⟩ := execute_det sub sc cfg hR hC hD x t s hok hcur
    cases hp : passes sc t with
    | true => exact ⟨s1, by simp [tryTransitions, e1, Res.bind, hp]⟩
    | false =>
      obtain ⟨s2, e2⟩ := tryTransitions_det hR hC hD x ts s1 (fun t' ht' => hts t' (List.mem_cons_of_mem _ ht'))
        (by rw [(f1 hp).stateOf]; exact hcur)
      exact ⟨s2, by simp [tryTransitions, e1, Res.bind, hp, e2]⟩

/-- the `may_` loop: True iff some candidate (with a registered destination) passes; engine state
untouched apart from log and invocation counters -/
theorem mayLoop_det (hR : NoRaise sc) (hC : NoCmds sc) (hD : Deterministic sc) (x : Ctx) :
    ∀ (ts : List Trans) (s : St), (∀ t ∈ ts, cfg.TransOK t) →
    ∃ s', mayLoop sub sc cfg x ts s = .ok (ts.any (passes sc)) s' ∧ Frame s s'
  | [], s, _ => ⟨s, rfl, Frame.refl s⟩
  | t :: ts, s, hts => by
    have hok := hts t (List.mem_cons_self ..)
    have hdest : destOk cfg t = true := by
      unfold destOk
      cases hd : t.dest with
      | none => rfl
      | some d => exact hok.2 d hd
    obtain ⟨s1, e1, f1⟩ := callbacks_frame sub sc hR hC .prepareEvent x cfg.prepareEvent s
    obtain ⟨s2, e2, f2⟩ := callbacks_frame sub sc hR hC .prepare x t.prepare s1
    obtain ⟨s3, e3, f3⟩ := evalConds_det sub sc hR hC hD x t.conds s2
    have f13 := (f1.trans f2).trans f3
    cases hp : passes sc t with
    | true =>
      refine ⟨s3, ?_, f13⟩
      have hp' : condsPass sc t.conds = true := hp
      simp [mayLoop, hdest, e1, Res.bind, e2, e3, hp', hp]
    | false =>
      obtain ⟨s4, e4, f4⟩ := mayLoop_det hR hC hD x ts s3 (fun t' ht' => hts t' (List.mem_cons_of_mem _ ht'))
      refine ⟨s4, ?_, f13.trans f4⟩
      have hp' : condsPass sc t.conds = false := hp
      simp [mayLoop, hdest, e1, Res.bind, e2, e3, hp', hp, e4]

/-! ### purity: which callbacks a `may_` evaluation can run (any script without re-entrant commands) -/

/-- every `call` item of the segment is in one of the prepare-stage / condition slots (or an
on_exception handler), on behalf of model `m`, with the arguments of call `tag` -/
def MaySeg (m tag : Nat) (seg : List Item) : Prop :=
  ∀ it ∈ seg, ∀ sl c m' t st, it = Item.call sl c m' t st →
    (sl = .prepareEvent ∨ sl = .prepare ∨ sl = .condition ∨ sl = .unless ∨ sl = .onException) ∧ m' = m ∧ t = tag

/-- a completed `may_` computation: engine state untouched (`Frame`: model list, every model's
state, queue, tag counter), log grew by a `MaySeg` -/
def MayPres {α} (x : Ctx) (r : R α) (s : St) : Prop :=
  ∀ s', r.state? = some s' → Frame s s' ∧ ∃ seg, s'.log = s.log ++ seg ∧ MaySeg x.model x.tag seg

theorem MayPres.ret {α} (x : Ctx) (r : R α) (s : St) (h : r.state? = some s) : MayPres x r s := by
  intro s' h'; rw [h] at h'; cases h'
  exact ⟨Frame.refl s, [], by simp, by intro it hit; cases hit⟩

theorem MayPres.bind {α β} {x : Ctx} {r : R α} {f : α → St → R β} {s : St}
    (h1 : MayPres x r s) (h2 : ∀ a s1, MayPres x (f a s1) s1) : MayPres x (r.bind f) s := by
  intro s' h
  cases r with
  | ok a s1 =>
    obtain ⟨f1, g1, l1, o1⟩ := h1 s1 rfl
    obtain ⟨f2, g2, l2, o2⟩ := h2 a s1 s' h
    refine ⟨f1.trans f2, g1 ++ g2, by rw [l2, l1, List.append_assoc], ?_⟩
    intro it hit
    rcases List.mem_append.mp hit with h | h
    · exact o1 it h
    · exact o2 it h
  | err e s1 => simp [Res.bind, Res.state?] at h; subst h; exact h1 s1 rfl
  | oof => simp [Res.bind, Res.state?] at h

theorem invoke_may (hC : NoCmds sc) (slot : Slot) (x : Ctx) (c : Nat) (s : St)
    (hs : slot = .prepareEvent ∨ slot = .prepare ∨ slot = .condition ∨ slot = .unless ∨ slot = .onException) :
    MayPres x (invoke sub sc slot x c s) s := by
  obtain ⟨o, s1, f, l, h⟩ := invoke_any sub sc hC slot x c s
  intro s' hs'
  rw [h] at hs'
  have : s' = s1 := by cases o <;> (simp [Res.state?] at hs'; exact hs'.symm)
  subst this
  refine ⟨f, _, l, ?_⟩
  intro it hit sl c' m' t st heq
  simp at hit
  rcases hit with h1 | h1
  · rw [h1] at heq; cases heq; exact ⟨hs, rfl, rfl⟩
  · rw [h1] at heq; cases heq

theorem callbacks_may (hC : NoCmds sc) (slot : Slot) (x : Ctx)
    (hs : slot = .prepareEvent ∨ slot = .prepare ∨ slot = .condition ∨ slot = .unless ∨ slot = .onException) :
    ∀ (cbs : List Nat) (s : St), MayPres x (callbacks sub sc slot x cbs s) s
  | [], s => MayPres.ret x _ s rfl
  | c :: cs, s => by
    unfold callbacks
    exact MayPres.bind (invoke_may sub sc hC slot x c s hs) (fun _ s1 => callbacks_may hC slot x hs cs s1)

theorem evalConds_may (hC : NoCmds sc) (x : Ctx) : ∀ (cs : List Cond) (s : St), MayPres x (evalConds sub sc x cs s) s
  | [], s => MayPres.ret x _ s rfl
  | c :: cs, s => by
    unfold evalConds
    refine MayPres.bind (invoke_may sub sc hC _ x c.cb s (by cases c.target <;> simp)) ?_
    intro b s1
    split
    · exact evalConds_may hC x cs s1
    · exact MayPres.ret x _ s1 rfl

theorem mayLoop_may (hC : NoCmds sc) (x : Ctx) : ∀ (ts : List Trans) (s : St), MayPres x (mayLoop sub sc cfg x ts s) s
  | [], s => MayPres.ret x _ s rfl
  | t :: ts, s => by
    unfold mayLoop
    cases hdo : destOk cfg t with
    | false => simpa using mayLoop_may hC x ts s
    | true =>
      simp only [Bool.not_true, Bool.false_eq_true, if_false]
      have hatt : MayPres x ((callbacks sub sc .prepareEvent x cfg.prepareEvent s).bind fun _ s1 =>
          (callbacks sub sc .prepare x t.prepare s1).bind fun _ s2 => evalConds sub sc x t.conds s2) s :=
        MayPres.bind (callbacks_may sub sc hC _ x (by simp) _ s) fun _ s1 =>
          MayPres.bind (callbacks_may sub sc hC _ x (by simp) _ s1) fun _ s2 => evalConds_may sub sc hC x _ s2
      intro s' hs'
      generalize ((callbacks sub sc .prepareEvent x cfg.prepareEvent s).bind fun _ s1 =>
          (callbacks sub sc .prepare x t.prepare s1).bind fun _ s2 => evalConds sub sc x t.conds s2) = att at hatt hs'
      cases att with
      | oof => simp [Res.state?] at hs'
      | ok b sa =>
        obtain ⟨fa, ga, la, oa⟩ := hatt sa rfl
        cases b with
        | true =>
          simp [Res.state?] at hs'; subst hs'
          exact ⟨fa, ga, la, oa⟩
        | false =>
          obtain ⟨fb, gb, lb, ob⟩ := mayLoop_may hC x ts sa s' hs'
          refine ⟨fa.trans fb, ga ++ gb, by rw [lb, la, List.append_assoc], ?_⟩
          intro it hit
          rcases List.mem_append.mp hit with h | h
          · exact oa it h
          · exact ob it h
      | err e sa =>
        obtain ⟨fa, ga, la, oa⟩ := hatt sa rfl
        have hrest : MayPres x ((match cfg.onException with
            | [] => (.err e sa : R Unit)
            | hs => callbacks sub sc .onException x hs sa).bind fun _ s'' => mayLoop sub sc cfg x ts s'') sa := by
          refine MayPres.bind ?_ (fun _ s2 => mayLoop_may hC x ts s2)
          cases cfg.onException with
          | nil => exact MayPres.ret x _ sa rfl
          | cons h0 hs => exact callbacks_may sub sc hC _ x (by simp) _ sa
        obtain ⟨fb, gb, lb, ob⟩ := hrest s' hs'
        refine ⟨fa.trans fb, ga ++ gb, by rw [lb, la, List.append_assoc], ?_⟩
        intro it hit
        rcases List.mem_append.mp hit with h | h
        · exact oa it h
        · exact ob it h

end TM
