/-
  Proofs/C12N.lean — `may_<event>` on the hierarchical engine (`Model/NestedMay.lean`): the evaluation side.

    * `NFrame`: what a `may_` evaluation leaves alone (configuration, queue, tag counter, `event_data` bookkeeping, ghost log);
    * determinism lemmas (`ninvoke_det`, `nevalConds_det`, `nmayLoop_det`, `nmayWalk_det`, `ncanTriggerNested_det`,
      `nmayAny_det`, `ncanTrigger_det`): with a deterministic, non-raising script without re-entrant commands, on an admissible
      configuration, `ncanTrigger` returns `(mayPairs conf).any mayP` — the list of (scope, source) pairs it visits, in
      its order, and the pure verdict on one pair;
    * purity (`NMayPres`): for ANY script without re-entrant commands.
-/
import Proofs.C12
import Proofs.C02

namespace TM
open C02

/-! ### the pure side: which (scope, source) pairs are looked at, and the verdict on one pair -/

/-- all conditions / unless checks of the transition hold -/
def npasses (sc : Script) (t : NTrans) : Bool := condsPass sc t.conds

/-- the event `ev`, as declared in `scope`, has a candidate with source `src` (scope-relative) whose destination
resolves and whose conditions pass: what `may_` looks for -/
def mayAt (sc : Script) (cfg : NCfg) (ev : Nat) (scope : Scope) (src : SPath) : Bool :=
  match alookup ev scope.events with
  | some ts => (nmayCands ts src).any fun t => ndestOk cfg scope t && npasses sc t
  | none => false

/-- … whose conditions pass (destination resolvable or not): what the trigger executes -/
def passAt (sc : Script) (ev : Nat) (scope : Scope) (src : SPath) : Bool :=
  match alookup ev scope.events with
  | some ts => (nmayCands ts src).any (npasses sc)
  | none => false

/-- the verdicts on a pair (global path of the declaring scope, `[]` = the machine; scope-relative source) -/
def mayP (sc : Script) (cfg : NCfg) (ev : Nat) (pr : SPath × SPath) : Bool :=
  match cfg.root.walkTo pr.1 with
  | some scope => mayAt sc cfg ev scope pr.2
  | none => false

def trigP (sc : Script) (cfg : NCfg) (ev : Nat) (pr : SPath × SPath) : Bool :=
  match cfg.root.walkTo pr.1 with
  | some scope => passAt sc ev scope pr.2
  | none => false

/-- the sources the `while source_path:` loop looks at, for `len(source_path) = n` down to 1 -/
def walkSources (path : SPath) : Nat → List SPath
  | 0 => []
  | n + 1 => path.take (n + 1) :: walkSources path n

/-- the (scope, source) pairs `_can_trigger_nested(path)` looks at, called in the scope with prefix `a`, in its order -/
def mayPairsNested : SPath → SPath → List (SPath × SPath)
  | _, [] => []
  | a, k :: rest =>
    (walkSources (k :: rest) (rest.length + 1)).map (fun b => (a, b)) ++ mayPairsNested (a ++ [k]) rest

/-- the (scope, source) pairs `_can_trigger` looks at for the configuration `conf`, in its order -/
def mayPairs (conf : Forest) : List (SPath × SPath) :=
  ((resolveOrder conf).getD []).flatMap (mayPairsNested [])

/-! ### what `may_` leaves alone -/

/-- everything but the log and the invocation counters -/
structure NFrame (s s' : NSt) : Prop where
  conf : s'.conf = s.conf
  queue : s'.queue = s.queue
  nextTag : s'.nextTag = s.nextTag
  result : s'.result = s.result
  exited : s'.exited = s.exited
  glog : s'.glog = s.glog

theorem NFrame.refl (s : NSt) : NFrame s s := ⟨rfl, rfl, rfl, rfl, rfl, rfl⟩
theorem NFrame.trans {a b c : NSt} (h1 : NFrame a b) (h2 : NFrame b c) : NFrame a c :=
  ⟨h2.conf.trans h1.conf, h2.queue.trans h1.queue, h2.nextTag.trans h1.nextTag, h2.result.trans h1.result,
   h2.exited.trans h1.exited, h2.glog.trans h1.glog⟩

section Det
variable (sub : NSub) (sc : Script) (cfg : NCfg)

theorem ninvoke_det (hR : NoRaise sc) (hC : NoCmds sc) (hD : Deterministic sc) (slot : Slot) (x : Ctx) (c : Nat)
    (s : NSt) : ∃ s', ninvoke sub sc cfg slot x c s = .ok (condVal sc c) s' ∧ NFrame s s' := by
  obtain ⟨b, hb⟩ := hR c (s.count c)
  have hv : condVal sc c = b := by
    unfold condVal; rw [hD c 0 (s.count c), hb]
  refine ⟨(({ s with counts := aset c (s.count c + 1) s.counts }).emit
      (.call slot c x.model x.tag (confMask cfg s.conf))).emit (.done c (.ret b)), ?_, ⟨rfl, rfl, rfl, rfl, rfl, rfl⟩⟩
  simp only [ninvoke, hC c (s.count c), nrunCmds, hb, hv]

theorem ninvoke_fr (hR : NoRaise sc) (hC : NoCmds sc) (slot : Slot) (x : Ctx) (c : Nat) (s : NSt) :
    ∃ b s', ninvoke sub sc cfg slot x c s = .ok b s' ∧ NFrame s s' := by
  obtain ⟨b, hb⟩ := hR c (s.count c)
  refine ⟨b, (({ s with counts := aset c (s.count c + 1) s.counts }).emit
      (.call slot c x.model x.tag (confMask cfg s.conf))).emit (.done c (.ret b)), ?_, ⟨rfl, rfl, rfl, rfl, rfl, rfl⟩⟩
  simp only [ninvoke, hC c (s.count c), nrunCmds, hb]

theorem ncallbacks_fr (hR : NoRaise sc) (hC : NoCmds sc) (slot : Slot) (x : Ctx) :
    ∀ (cbs : List Nat) (s : NSt), ∃ s', ncallbacks sub sc cfg slot x cbs s = .ok () s' ∧ NFrame s s'
  | [], s => ⟨s, rfl, NFrame.refl s⟩
  | c :: cs, s => by
    obtain ⟨b, s1, h1, f1⟩ := ninvoke_fr sub sc cfg hR hC slot x c s
    obtain ⟨s2, h2, f2⟩ := ncallbacks_fr hR hC slot x cs s1
    exact ⟨s2, by simp only [ncallbacks, h1, Res.bind, h2], f1.trans f2⟩

theorem nevalConds_det (hR : NoRaise sc) (hC : NoCmds sc) (hD : Deterministic sc) (x : Ctx) :
    ∀ (cs : List Cond) (s : NSt), ∃ s', nevalConds sub sc cfg x cs s = .ok (condsPass sc cs) s' ∧ NFrame s s'
  | [], s => ⟨s, rfl, NFrame.refl s⟩
  | c :: cs, s => by
    obtain ⟨s1, h1, f1⟩ := ninvoke_det sub sc cfg hR hC hD (if c.target then .condition else .unless) x c.cb s
    by_cases hb : condVal sc c.cb = c.target
    · obtain ⟨s2, h2, f2⟩ := nevalConds_det hR hC hD x cs s1
      exact ⟨s2, by simp [nevalConds, h1, Res.bind, hb, h2, condsPass], f1.trans f2⟩
    · exact ⟨s1, by simp [nevalConds, h1, Res.bind, hb, condsPass], f1⟩

/-- the candidate loop of one source: True iff some candidate with a resolvable destination passes -/
theorem nmayLoop_det (hR : NoRaise sc) (hC : NoCmds sc) (hD : Deterministic sc) (scope : Scope) (x : Ctx) :
    ∀ (ts : List NTrans) (s : NSt), ∃ s', nmayLoop sub sc cfg scope x ts s =
      .ok (ts.any fun t => ndestOk cfg scope t && npasses sc t) s' ∧ NFrame s s'
  | [], s => ⟨s, rfl, NFrame.refl s⟩
  | t :: ts, s => by
    cases hd : ndestOk cfg scope t with
    | false =>
      obtain ⟨s', h', f'⟩ := nmayLoop_det hR hC hD scope x ts s
      exact ⟨s', by simp [nmayLoop, hd, h'], f'⟩
    | true =>
      obtain ⟨s1, e1, f1⟩ := ncallbacks_fr sub sc cfg hR hC .prepareEvent x cfg.prepareEvent s
      obtain ⟨s2, e2, f2⟩ := ncallbacks_fr sub sc cfg hR hC .prepare x t.prepare s1
      obtain ⟨s3, e3, f3⟩ := nevalConds_det sub sc cfg hR hC hD x t.conds s2
      have f13 := (f1.trans f2).trans f3
      cases hp : npasses sc t with
      | true =>
        have hp' : condsPass sc t.conds = true := hp
        exact ⟨s3, by simp [nmayLoop, hd, e1, Res.bind, e2, e3, hp', hp], f13⟩
      | false =>
        have hp' : condsPass sc t.conds = false := hp
        obtain ⟨s4, e4, f4⟩ := nmayLoop_det hR hC hD scope x ts s3
        exact ⟨s4, by simp [nmayLoop, hd, e1, Res.bind, e2, e3, hp', hp, e4], f13.trans f4⟩

/-- the walk over a path and its ancestors inside one scope, every source registered -/
theorem nmayWalk_det (hR : NoRaise sc) (hC : NoCmds sc) (hD : Deterministic sc) (scope : Scope) (x : Ctx)
    (ts : List NTrans) (path : SPath) :
    ∀ (n : Nat) (s : NSt), (∀ m, m < n → (getState cfg.root scope (path.take (m + 1))).isSome = true) →
    ∃ s', nmayWalk sub sc cfg scope x ts path n s =
      .ok ((walkSources path n).any fun src => (nmayCands ts src).any fun t => ndestOk cfg scope t && npasses sc t) s' ∧
      NFrame s s'
  | 0, s, _ => ⟨s, rfl, NFrame.refl s⟩
  | n + 1, s, hreg => by
    obtain ⟨fd, hfd⟩ := Option.isSome_iff_exists.mp (hreg n (Nat.lt_succ_self n))
    obtain ⟨s1, e1, f1⟩ := nmayLoop_det sub sc cfg hR hC hD scope x (nmayCands ts (path.take (n + 1))) s
    cases hb : (nmayCands ts (path.take (n + 1))).any fun t => ndestOk cfg scope t && npasses sc t with
    | true =>
      refine ⟨s1, ?_, f1⟩
      rw [hb] at e1
      simp [nmayWalk, hfd, e1, Res.bind, walkSources, hb]
    | false =>
      obtain ⟨s2, e2, f2⟩ := nmayWalk_det hR hC hD scope x ts path n s1 (fun m hm => hreg m (Nat.lt_succ_of_lt hm))
      refine ⟨s2, ?_, f1.trans f2⟩
      rw [hb] at e1
      simp [nmayWalk, hfd, e1, Res.bind, walkSources, hb, e2]

theorem mayP_scope {scope : Scope} (ev : Nat) (hw : cfg.root.walkTo scope.pre = some scope) (b : SPath) :
    mayP sc cfg ev (scope.pre, b) = mayAt sc cfg ev scope b := by
  simp [mayP, hw]

theorem trigP_scope {scope : Scope} (ev : Nat) (hw : cfg.root.walkTo scope.pre = some scope) (b : SPath) :
    trigP sc cfg ev (scope.pre, b) = passAt sc ev scope b := by
  simp [trigP, hw]

theorem Forest.sub?_take {F : Forest} {path : SPath} (n : Nat) (h : (F.sub? path).isSome = true) :
    (F.sub? (path.take n)).isSome = true := by
  have hp : path = path.take n ++ path.drop n := (List.take_append_drop n path).symm
  rw [hp, Forest.sub?_append] at h
  cases hs : F.sub? (path.take n) with
  | none => rw [hs] at h; simp at h
  | some _ => rfl

theorem getState_of_walk {root scope : Scope} {p : SPath} (h : (scope.states.walk p).isSome = true) :
    (getState root scope p).isSome = true := by
  obtain ⟨⟨d, kids⟩, hw⟩ := Option.isSome_iff_exists.mp h
  simp [getState, hw]

/-- every source the walk looks at is a registered state when the path is active in an admissible tree -/
theorem walk_registered {scope : Scope} {F : Forest} {path : SPath} (hc : ConfOK scope.states F = true)
    (hs : (F.sub? path).isSome = true) (m : Nat) (hm : m < path.length) :
    (getState cfg.root scope (path.take (m + 1))).isSome = true := by
  apply getState_of_walk
  refine Change.ConfOK_walk hc ?_ (Forest.sub?_take (m + 1) hs)
  intro h
  have h2 : (path.take (m + 1)).length = min (m + 1) path.length := List.length_take ..
  rw [h] at h2
  simp only [List.length_nil] at h2
  omega

/-- `if trigger in self.events:` the walk in the scope the machine is in -/
theorem nmayHere_det (hR : NoRaise sc) (hC : NoCmds sc) (hD : Deterministic sc) (x : Ctx) (ev : Nat) (scope : Scope)
    (path : SPath) (s : NSt)
    (hreg : ∀ m, m < path.length → (getState cfg.root scope (path.take (m + 1))).isSome = true) :
    ∃ s', nmayHere sub sc cfg x ev scope path s =
      .ok ((walkSources path path.length).any (mayAt sc cfg ev scope)) s' ∧ NFrame s s' := by
  cases hev : alookup ev scope.events with
  | none =>
    refine ⟨s, ?_, NFrame.refl s⟩
    have : (walkSources path path.length).any (mayAt sc cfg ev scope) = false := by
      rw [List.any_eq_false]
      intro b _
      simp [mayAt, hev]
    simp [nmayHere, hev, this]
  | some ts =>
    obtain ⟨s', e', f'⟩ := nmayWalk_det sub sc cfg hR hC hD scope x ts path path.length s hreg
    refine ⟨s', ?_, f'⟩
    have : (walkSources path path.length).any (mayAt sc cfg ev scope) =
        (walkSources path path.length).any fun src => (nmayCands ts src).any fun t => ndestOk cfg scope t && npasses sc t := by
      congr 1
      funext b
      simp [mayAt, hev]
    simp only [nmayHere, hev, e', this]

/-- `_can_trigger_nested(path)` in `scope`: True iff one of the pairs it looks at has a passing candidate with a
resolvable destination -/
theorem ncanTriggerNested_det (hR : NoRaise sc) (hC : NoCmds sc) (hD : Deterministic sc) (x : Ctx) (ev : Nat) :
    ∀ (path : SPath) (scope : Scope) (F : Forest) (s : NSt),
    cfg.root.walkTo scope.pre = some scope → ConfOK scope.states F = true → (F.sub? path).isSome = true →
    ∃ s', ncanTriggerNested sub sc cfg x ev scope path s =
      .ok ((mayPairsNested scope.pre path).any (mayP sc cfg ev)) s' ∧ NFrame s s'
  | [], scope, F, s, _, _, _ => by
    obtain ⟨s1, e1, f1⟩ := nmayHere_det sub sc cfg hR hC hD x ev scope [] s (fun m hm => by simp at hm)
    refine ⟨s1, ?_, f1⟩
    simp [ncanTriggerNested, e1, Res.bind, walkSources, mayPairsNested]
  | k :: rest, scope, F, s, hw, hc, hs => by
    obtain ⟨s1, e1, f1⟩ := nmayHere_det sub sc cfg hR hC hD x ev scope (k :: rest) s
      (fun m hm => walk_registered cfg hc hs m hm)
    have hsplit : (mayPairsNested scope.pre (k :: rest)).any (mayP sc cfg ev) =
        ((walkSources (k :: rest) (k :: rest).length).any (mayAt sc cfg ev scope) ||
          (mayPairsNested (scope.pre ++ [k]) rest).any (mayP sc cfg ev)) := by
      simp only [mayPairsNested, List.any_append, List.any_map, List.length_cons]
      congr 1
      congr 1
      funext b
      exact mayP_scope sc cfg ev hw b
    cases hb : (walkSources (k :: rest) (k :: rest).length).any (mayAt sc cfg ev scope) with
    | true =>
      refine ⟨s1, ?_, f1⟩
      rw [hb] at e1
      rw [hsplit, hb, Bool.true_or]
      simp [ncanTriggerNested, e1, Res.bind]
    | false =>
      rw [hb] at e1
      simp only [Forest.sub?] at hs
      cases hg : F.get? k with
      | none => rw [hg] at hs; simp at hs
      | some sF =>
        rw [hg] at hs
        obtain ⟨d, kids, hf, hrest⟩ := Change.ConfOK_get hc hg
        have hen : scope.enter k = some { owner := some d, states := kids, events := d.events, pre := scope.pre ++ [k] } := by
          simp [Scope.enter, hf]
        have hck : ConfOK kids sF = true := by
          cases sF with
          | nil => rfl
          | cons a b c => simpa [Forest.isEmpty] using hrest.2
        obtain ⟨s2, e2, f2⟩ := ncanTriggerNested_det hR hC hD x ev rest
          { owner := some d, states := kids, events := d.events, pre := scope.pre ++ [k] } sF s1
          (Scope.walkTo_enter hw hen) hck hs
        refine ⟨s2, ?_, f1.trans f2⟩
        rw [hsplit, hb, Bool.false_or]
        simp only [ncanTriggerNested, e1, Res.bind, hen, e2, Bool.false_eq_true, if_false]

/-- `any(… for state_path in ordered_states)` from the machine's scope -/
theorem nmayAny_det (hR : NoRaise sc) (hC : NoCmds sc) (hD : Deterministic sc) (x : Ctx) (ev : Nat) (conf : Forest)
    (hc : ConfOK cfg.states conf = true) :
    ∀ (ps : List SPath) (s : NSt), (∀ p ∈ ps, (conf.sub? p).isSome = true) →
    ∃ s', nmayAny sub sc cfg x ev ps s = .ok ((ps.flatMap (mayPairsNested [])).any (mayP sc cfg ev)) s' ∧ NFrame s s'
  | [], s, _ => ⟨s, rfl, NFrame.refl s⟩
  | p :: ps, s, hps => by
    obtain ⟨s1, e1, f1⟩ := ncanTriggerNested_det sub sc cfg hR hC hD x ev p cfg.root conf s (NCfg.walkTo_root cfg) hc
      (hps p (List.mem_cons_self ..))
    have hpre : cfg.root.pre = [] := rfl
    rw [hpre] at e1
    cases hb : (mayPairsNested [] p).any (mayP sc cfg ev) with
    | true =>
      refine ⟨s1, ?_, f1⟩
      rw [hb] at e1
      simp [nmayAny, e1, Res.bind, List.flatMap_cons, List.any_append, hb]
    | false =>
      rw [hb] at e1
      obtain ⟨s2, e2, f2⟩ := nmayAny_det hR hC hD x ev conf hc ps s1 (fun q hq => hps q (List.mem_cons_of_mem _ hq))
      refine ⟨s2, ?_, f1.trans f2⟩
      simp [nmayAny, e1, Res.bind, List.flatMap_cons, List.any_append, hb, e2]

/-- **`may_` on an admissible configuration**: a Boolean, True iff one of the pairs `mayPairs` lists has a passing
candidate with a resolvable destination; nothing but the log and the invocation counters changes -/
theorem ncanTrigger_det (hR : NoRaise sc) (hC : NoCmds sc) (hD : Deterministic sc) (x : Ctx) (ev : Nat) (s : NSt)
    (hc : ConfOK cfg.states s.conf = true) :
    ∃ s', ncanTrigger sub sc cfg x ev s = .ok ((mayPairs s.conf).any (mayP sc cfg ev)) s' ∧ NFrame s s' := by
  obtain ⟨order, ho⟩ := resolveOrder_total s.conf
  have hwf : s.conf.WF = true := Change.ConfOK_WF hc
  have hmem : ∀ p ∈ order, (s.conf.sub? p).isSome = true := by
    intro p hp
    exact ((Forest.mem_nodes_iff hwf).mp ((resolveOrder_perm ho).mem_iff.mp hp)).2
  obtain ⟨s', e', f'⟩ := nmayAny_det sub sc cfg hR hC hD x ev s.conf hc order s hmem
  exact ⟨s', by simp [ncanTrigger, ho, e', mayPairs], f'⟩

end Det

/-! ### purity: which callbacks a `may_` evaluation can run, and what it leaves alone — any script without
re-entrant commands, raising or not, any configuration -/

/-- a completed `may_` computation: engine state untouched (`NFrame`: configuration, queue, tag counter, the event
bookkeeping, ghost log), the log grew by a `MaySeg` -/
def NMayPres {α} (x : Ctx) (r : NR α) (s : NSt) : Prop :=
  ∀ s', r.state? = some s' → NFrame s s' ∧ ∃ seg, s'.log = s.log ++ seg ∧ MaySeg x.model x.tag seg

theorem NMayPres.ret {α} (x : Ctx) (r : NR α) (s : NSt) (h : r.state? = some s) : NMayPres x r s := by
  intro s' h'; rw [h] at h'; cases h'
  exact ⟨NFrame.refl s, [], by simp, by intro it hit; cases hit⟩

theorem NMayPres.oof {α} (x : Ctx) (s : NSt) : NMayPres x (.oof : NR α) s := by
  intro s' h; simp [Res.state?] at h

theorem NMayPres.bind {α β} {x : Ctx} {r : NR α} {f : α → NSt → NR β} {s : NSt}
    (h1 : NMayPres x r s) (h2 : ∀ a s1, NMayPres x (f a s1) s1) : NMayPres x (r.bind f) s := by
  intro s' h
  cases r with
  | ok a s1 =>
    obtain ⟨f1, g1, l1, o1⟩ := h1 s1 rfl
    obtain ⟨f2, g2, l2, o2⟩ := h2 a s1 s' h
    refine ⟨f1.trans f2, g1 ++ g2, by rw [l2, l1, List.append_assoc], ?_⟩
    intro it hit
    rcases List.mem_append.mp hit with h | h
    · exact o1 it h
    · exact o2 it h
  | err e s1 => simp [Res.bind, Res.state?] at h; subst h; exact h1 s1 rfl
  | oof => simp [Res.bind, Res.state?] at h

section Pure
variable (sub : NSub) (sc : Script) (cfg : NCfg)

theorem ninvoke_nmay (hC : NoCmds sc) (slot : Slot) (x : Ctx) (c : Nat) (s : NSt)
    (hs : slot = .prepareEvent ∨ slot = .prepare ∨ slot = .condition ∨ slot = .unless ∨ slot = .onException) :
    NMayPres x (ninvoke sub sc cfg slot x c s) s := by
  intro s' h
  simp only [ninvoke, hC c (s.count c), nrunCmds] at h
  have hfin : ∀ o, s' = (({ s with counts := aset c (s.count c + 1) s.counts }).emit
      (.call slot c x.model x.tag (confMask cfg s.conf))).emit (.done c o) →
      NFrame s s' ∧ ∃ seg, s'.log = s.log ++ seg ∧ MaySeg x.model x.tag seg := by
    intro o e
    subst e
    refine ⟨⟨rfl, rfl, rfl, rfl, rfl, rfl⟩, [.call slot c x.model x.tag (confMask cfg s.conf), .done c o],
      by simp [NSt.emit], ?_⟩
    intro it hit sl c' m' t st heq
    simp at hit
    rcases hit with h1 | h1
    · rw [h1] at heq; cases heq; exact ⟨hs, rfl, rfl⟩
    · rw [h1] at heq; cases heq
  cases ho : (sc c (s.count c)).out with
  | ret b => simp only [ho, Res.state?, Option.some.injEq] at h; exact hfin _ h.symm
  | raise e => simp only [ho, Res.state?, Option.some.injEq] at h; exact hfin _ h.symm

theorem ncallbacks_nmay (hC : NoCmds sc) (slot : Slot) (x : Ctx)
    (hs : slot = .prepareEvent ∨ slot = .prepare ∨ slot = .condition ∨ slot = .unless ∨ slot = .onException) :
    ∀ (cbs : List Nat) (s : NSt), NMayPres x (ncallbacks sub sc cfg slot x cbs s) s
  | [], s => NMayPres.ret x _ s rfl
  | c :: cs, s => by
    unfold ncallbacks
    exact NMayPres.bind (ninvoke_nmay sub sc cfg hC slot x c s hs) (fun _ s1 => ncallbacks_nmay hC slot x hs cs s1)

theorem nevalConds_nmay (hC : NoCmds sc) (x : Ctx) :
    ∀ (cs : List Cond) (s : NSt), NMayPres x (nevalConds sub sc cfg x cs s) s
  | [], s => NMayPres.ret x _ s rfl
  | c :: cs, s => by
    unfold nevalConds
    refine NMayPres.bind (ninvoke_nmay sub sc cfg hC _ x c.cb s (by cases c.target <;> simp)) ?_
    intro b s1
    split
    · exact nevalConds_nmay hC x cs s1
    · exact NMayPres.ret x _ s1 rfl

theorem nmayLoop_nmay (hC : NoCmds sc) (scope : Scope) (x : Ctx) :
    ∀ (ts : List NTrans) (s : NSt), NMayPres x (nmayLoop sub sc cfg scope x ts s) s
  | [], s => NMayPres.ret x _ s rfl
  | t :: ts, s => by
    unfold nmayLoop
    cases hdo : ndestOk cfg scope t with
    | false => simpa using nmayLoop_nmay hC scope x ts s
    | true =>
      simp only [Bool.not_true, Bool.false_eq_true, if_false]
      have hatt : NMayPres x ((ncallbacks sub sc cfg .prepareEvent x cfg.prepareEvent s).bind fun _ s1 =>
          (ncallbacks sub sc cfg .prepare x t.prepare s1).bind fun _ s2 => nevalConds sub sc cfg x t.conds s2) s :=
        NMayPres.bind (ncallbacks_nmay sub sc cfg hC _ x (by simp) _ s) fun _ s1 =>
          NMayPres.bind (ncallbacks_nmay sub sc cfg hC _ x (by simp) _ s1) fun _ s2 => nevalConds_nmay sub sc cfg hC x _ s2
      intro s' hs'
      generalize ((ncallbacks sub sc cfg .prepareEvent x cfg.prepareEvent s).bind fun _ s1 =>
          (ncallbacks sub sc cfg .prepare x t.prepare s1).bind fun _ s2 => nevalConds sub sc cfg x t.conds s2) = att
        at hatt hs'
      cases att with
      | oof => simp [Res.state?] at hs'
      | ok b sa =>
        obtain ⟨fa, ga, la, oa⟩ := hatt sa rfl
        cases b with
        | true =>
          simp [Res.state?] at hs'; subst hs'
          exact ⟨fa, ga, la, oa⟩
        | false =>
          obtain ⟨fb, gb, lb, ob⟩ := nmayLoop_nmay hC scope x ts sa s' hs'
          refine ⟨fa.trans fb, ga ++ gb, by rw [lb, la, List.append_assoc], ?_⟩
          intro it hit
          rcases List.mem_append.mp hit with h | h
          · exact oa it h
          · exact ob it h
      | err e sa =>
        obtain ⟨fa, ga, la, oa⟩ := hatt sa rfl
        have hrest : NMayPres x ((match cfg.onException with
            | [] => (.err e sa : NR Unit)
            | hs => ncallbacks sub sc cfg .onException x hs sa).bind fun _ s'' => nmayLoop sub sc cfg scope x ts s'') sa := by
          refine NMayPres.bind ?_ (fun _ s2 => nmayLoop_nmay hC scope x ts s2)
          cases cfg.onException with
          | nil => exact NMayPres.ret x _ sa rfl
          | cons h0 hs => exact ncallbacks_nmay sub sc cfg hC _ x (by simp) _ sa
        obtain ⟨fb, gb, lb, ob⟩ := hrest s' hs'
        refine ⟨fa.trans fb, ga ++ gb, by rw [lb, la, List.append_assoc], ?_⟩
        intro it hit
        rcases List.mem_append.mp hit with h | h
        · exact oa it h
        · exact ob it h

theorem nmayWalk_nmay (hC : NoCmds sc) (scope : Scope) (x : Ctx) (ts : List NTrans) (path : SPath) :
    ∀ (n : Nat) (s : NSt), NMayPres x (nmayWalk sub sc cfg scope x ts path n s) s
  | 0, s => NMayPres.ret x _ s rfl
  | n + 1, s => by
    unfold nmayWalk
    simp only []
    split
    · exact NMayPres.ret x _ s rfl
    · refine NMayPres.bind (nmayLoop_nmay sub sc cfg hC scope x _ s) ?_
      intro b s1
      split
      · exact NMayPres.ret x _ s1 rfl
      · exact nmayWalk_nmay hC scope x ts path n s1

theorem nmayHere_nmay (hC : NoCmds sc) (x : Ctx) (ev : Nat) (scope : Scope) (path : SPath) (s : NSt) :
    NMayPres x (nmayHere sub sc cfg x ev scope path s) s := by
  unfold nmayHere
  split
  · exact nmayWalk_nmay sub sc cfg hC scope x _ path _ s
  · exact NMayPres.ret x _ s rfl

theorem ncanTriggerNested_nmay (hC : NoCmds sc) (x : Ctx) (ev : Nat) :
    ∀ (path : SPath) (scope : Scope) (s : NSt), NMayPres x (ncanTriggerNested sub sc cfg x ev scope path s) s
  | [], scope, s => by
    unfold ncanTriggerNested
    refine NMayPres.bind (nmayHere_nmay sub sc cfg hC x ev scope [] s) ?_
    intro b s1
    split <;> exact NMayPres.ret x _ s1 rfl
  | k :: rest, scope, s => by
    unfold ncanTriggerNested
    refine NMayPres.bind (nmayHere_nmay sub sc cfg hC x ev scope (k :: rest) s) ?_
    intro b s1
    split
    · exact NMayPres.ret x _ s1 rfl
    · split
      · exact NMayPres.ret x _ s1 rfl
      · exact ncanTriggerNested_nmay hC x ev rest _ s1

theorem nmayAny_nmay (hC : NoCmds sc) (x : Ctx) (ev : Nat) :
    ∀ (ps : List SPath) (s : NSt), NMayPres x (nmayAny sub sc cfg x ev ps s) s
  | [], s => NMayPres.ret x _ s rfl
  | p :: ps, s => by
    unfold nmayAny
    refine NMayPres.bind (ncanTriggerNested_nmay sub sc cfg hC x ev p cfg.root s) ?_
    intro b s1
    split
    · exact NMayPres.ret x _ s1 rfl
    · exact nmayAny_nmay hC x ev ps s1

theorem ncanTrigger_nmay (hC : NoCmds sc) (x : Ctx) (ev : Nat) (s : NSt) :
    NMayPres x (ncanTrigger sub sc cfg x ev s) s := by
  unfold ncanTrigger
  split
  · exact NMayPres.oof x s
  · exact nmayAny_nmay sub sc cfg hC x ev _ s

end Pure

end TM
