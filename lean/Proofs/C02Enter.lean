/-
  Proofs/C02Enter.lean — `_enter_nested`: what a transition enters.

  For well-formed state definitions the enter list of `enterDest` / `enterRoot` (remaining destination path, then
  the breadth-first initial descent, the queue loop of the code) consists of distinct registered states, each after
  its parent (the first one directly below the scope it starts from), names exactly the nodes of the new
  sub-configuration, and that sub-configuration is admissible (`ConfOK`): it ends in states without `initial`,
  every state entered through `initial` has one child or all children.  The loop never runs out of the fuel it is
  given (`enterDest_no_oof`; for an EMPTY destination this needs the scope's own `initial` to be repetition-free,
  which holds for the machine's scope and every scope reached from it by `with self(k)` — `ScopeOK_root`,
  `Scope.walk_OK`, `enterRoot_no_oof`).

  Proof: helper lemmas in namespace `TM.Enter`; the queue loop `initLoop` is handled by the invariant `LInv`
  (`LInv_step`, `initLoop_inv`) and the fuel measure `queueCost` (`initLoop_ok`).
-/
import Model.Spec.C02

namespace TM
open C02

/-- `with self(k)` repeatedly -/
def Scope.walk (sc : Scope) : SPath → Option Scope
  | [] => some sc
  | k :: p => match sc.enter k with
    | some sc' => sc'.walk p
    | none => none

theorem Scope.enter_eq {sc sc' : Scope} {k : Nat} (h : sc.enter k = some sc') :
    ∃ d kids, sc.states.find k = some (d, kids) ∧
      sc' = { owner := some d, states := kids, events := d.events, pre := sc.pre ++ [k] } := by
  unfold Scope.enter at h
  split at h
  · next d kids hf => exact ⟨d, kids, hf, by simpa using h.symm⟩
  · simp at h

theorem Scope.walk_pre {sc sc' : Scope} {p : SPath} (h : sc.walk p = some sc') : sc'.pre = sc.pre ++ p := by
  induction p generalizing sc with
  | nil => simp [Scope.walk] at h; subst h; simp
  | cons k p ih =>
    simp only [Scope.walk] at h
    split at h
    · next sc1 he =>
      obtain ⟨d, kids, _, rfl⟩ := Scope.enter_eq he
      simpa using ih h
    · simp at h

theorem enterRoot_eq (sc : Scope) (rt dst : SPath) :
    enterRoot sc rt dst = (match sc.walk rt with
      | some sc' => enterDest sc' dst
      | none => .err .other) := by
  induction rt generalizing sc with
  | nil => simp [enterRoot, Scope.walk]
  | cons k r ih =>
    simp only [enterRoot, Scope.walk]
    cases h : sc.enter k with
    | none => simp
    | some sc' => simp [ih]

/-! ### helper lemmas (namespace `TM.Enter`) -/

namespace Enter

theorem eraseDups_length_le : ∀ (n : Nat) (l : List Nat), l.length ≤ n → l.eraseDups.length ≤ l.length := by
  intro n
  induction n with
  | zero => intro l h; cases l <;> simp_all
  | succ n ih =>
    intro l h
    cases l with
    | nil => simp
    | cons a l =>
      rw [List.eraseDups_cons]
      have h1 := List.length_filter_le (fun b => !b == a) l
      have h2 := ih (l.filter fun b => !b == a) (by simp at h; omega)
      simp only [List.length_cons]
      omega

theorem nodup_of_eraseDups_length : ∀ (l : List Nat), l.eraseDups.length = l.length → l.Nodup := by
  intro l
  induction l with
  | nil => simp
  | cons a l ih =>
    intro h
    rw [List.eraseDups_cons] at h
    have h1 := List.length_filter_le (fun b => !b == a) l
    have h2 := eraseDups_length_le _ (l.filter fun b => !b == a) (Nat.le_refl _)
    simp only [List.length_cons] at h
    have h3 : (l.filter fun b => !b == a).length = l.length := by omega
    have h4 := List.length_filter_eq_length_iff.mp h3
    have h5 : l.filter (fun b => !b == a) = l := List.filter_eq_self.mpr h4
    rw [h5] at h
    refine List.nodup_cons.mpr ⟨?_, ih (by omega)⟩
    intro hm
    have := h4 a hm
    simp at this

theorem nodup_map_inj {α β} {f : α → β} (hf : ∀ a b, f a = f b → a = b) {l : List α} (h : l.Nodup) : (l.map f).Nodup :=
  List.Pairwise.map f (fun a b hab e => hab (hf a b e)) h

structure DefOK (I : List Nat) (K : SForest) : Prop where
  wf : K.WF = true
  sub : ∀ n ∈ I, n ∈ K.names
  nodup : I.Nodup
  oneAll : I.length ≤ 1 ∨ ∀ n ∈ K.names, n ∈ I

theorem SForest.find_name {K : SForest} {k : Nat} {d : SDef} {kids : SForest}
    (h : K.find k = some (d, kids)) : d.name = k := by
  induction K with
  | nil => simp [SForest.find] at h
  | cons d' kids' rest _ ih =>
    simp only [SForest.find] at h
    split at h
    · next hk => simp at h; rw [← h.1]; exact hk
    · exact ih h

theorem SForest.find_isSome_of_mem {K : SForest} {k : Nat} (h : k ∈ K.names) : ∃ e, K.find k = some e := by
  induction K with
  | nil => simp [SForest.names] at h
  | cons d' kids' rest _ ih =>
    simp only [SForest.find]
    split
    · exact ⟨_, rfl⟩
    · next hk =>
      simp only [SForest.names, List.mem_cons] at h
      rcases h with h | h
      · exact absurd h.symm hk
      · exact ih h

theorem SForest.mem_names_of_find {K : SForest} {k : Nat} {e : SDef × SForest} (h : K.find k = some e) : k ∈ K.names := by
  induction K with
  | nil => simp [SForest.find] at h
  | cons d' kids' rest _ ih =>
    simp only [SForest.find] at h
    simp only [SForest.names, List.mem_cons]
    split at h
    · next hk => exact Or.inl hk.symm
    · exact Or.inr (ih h)

theorem SForest.WF_find {K : SForest} {k : Nat} {d : SDef} {kids : SForest} (hwf : K.WF = true)
    (h : K.find k = some (d, kids)) : DefOK d.initial kids := by
  induction K with
  | nil => simp [SForest.find] at h
  | cons d' kids' rest _ ih =>
    simp only [SForest.WF, Bool.and_eq_true, Bool.or_eq_true, List.all_eq_true, beq_iff_eq,
      decide_eq_true_eq, List.contains_eq_mem] at hwf
    obtain ⟨⟨⟨⟨⟨_, h1⟩, h2⟩, h3⟩, h4⟩, h5⟩ := hwf
    simp only [SForest.find] at h
    split at h
    · simp at h
      obtain ⟨rfl, rfl⟩ := h
      exact ⟨h4, h1, nodup_of_eraseDups_length _ h2, h3⟩
    · exact ih h5 h

theorem lookupAll_nil (K : SForest) : lookupAll K [] = some [] := by
  simp [lookupAll]

theorem lookupAll_cons (K : SForest) (n : Nat) (I : List Nat) :
    lookupAll K (n :: I) = match K.find n with
      | some e => (match lookupAll K I with | some l => some (e :: l) | none => none)
      | none => none := by
  simp only [lookupAll, List.mapM_cons]
  cases K.find n <;> simp
  cases List.mapM K.find I <;> simp

theorem lookupAll_some {K : SForest} {I : List Nat} {sts : List (SDef × SForest)} (h : lookupAll K I = some sts) :
    sts.map (·.1.name) = I ∧ ∀ e ∈ sts, K.find e.1.name = some e := by
  induction I generalizing sts with
  | nil => simp [lookupAll_nil] at h; subst h; simp
  | cons n I ih =>
    rw [lookupAll_cons] at h
    split at h
    · next e he =>
      split at h
      · next l hl =>
        simp at h; subst h
        obtain ⟨h1, h2⟩ := ih hl
        have hn : e.1.name = n := SForest.find_name (d := e.1) (kids := e.2) he
        refine ⟨by simp [h1, hn], ?_⟩
        intro e' he'
        simp only [List.mem_cons] at he'
        rcases he' with rfl | he'
        · rw [hn]; exact he
        · exact h2 _ he'
      · simp at h
    · simp at h

theorem lookupAll_of_sub {K : SForest} {I : List Nat} (h : ∀ n ∈ I, n ∈ K.names) : ∃ sts, lookupAll K I = some sts := by
  induction I with
  | nil => exact ⟨[], lookupAll_nil K⟩
  | cons n I ih =>
    obtain ⟨e, he⟩ := SForest.find_isSome_of_mem (h n (by simp))
    obtain ⟨l, hl⟩ := ih (fun m hm => h m (by simp [hm]))
    exact ⟨e :: l, by rw [lookupAll_cons, he, hl]⟩

theorem DefOK_of_lookupAll {K : SForest} {I : List Nat} {sts : List (SDef × SForest)} (hwf : K.WF = true)
    (h : lookupAll K I = some sts) : ∀ e ∈ sts, DefOK e.1.initial e.2 := by
  intro e he
  exact SForest.WF_find hwf ((lookupAll_some h).2 e he)

theorem initJobs_nil (pos pre : SPath) : initJobs pos pre [] = some [] := by
  simp [initJobs]

theorem initJobs_cons (pos pre : SPath) (e : SDef × SForest) (sts : List (SDef × SForest)) :
    initJobs pos pre (e :: sts) =
      if e.1.initial = [] then initJobs pos pre sts else
      match lookupAll e.2 e.1.initial with
      | some l => (match initJobs pos pre sts with
          | some more => some ((pos ++ [e.1.name], pre ++ [e.1.name], l) :: more)
          | none => none)
      | none => none := by
  simp only [initJobs, List.filter_cons]
  by_cases h : e.1.initial = []
  · simp [h]
  · simp [h]
    cases lookupAll e.2 e.1.initial <;> simp
    generalize List.mapM (m := Option) _ (List.filter _ sts) = x
    cases x <;> simp

theorem initJobs_spec {pos pre : SPath} {sts : List (SDef × SForest)} {more : List InitJob}
    (h : initJobs pos pre sts = some more) :
    more.map (·.1) = ((sts.filter fun e => decide (e.1.initial ≠ [])).map (·.1.name)).map (pos ++ [·]) ∧
    ∀ j ∈ more, ∃ e ∈ sts, e.1.initial ≠ [] ∧ j.1 = pos ++ [e.1.name] ∧ j.2.1 = pre ++ [e.1.name] ∧
      lookupAll e.2 e.1.initial = some j.2.2 := by
  induction sts generalizing more with
  | nil => simp [initJobs_nil] at h; subst h; simp
  | cons e sts ih =>
    rw [initJobs_cons] at h
    by_cases hi : e.1.initial = []
    · simp only [hi, if_true] at h
      obtain ⟨h1, h2⟩ := ih h
      refine ⟨by simp [hi, h1], ?_⟩
      intro j hj
      obtain ⟨e', he', h3⟩ := h2 j hj
      exact ⟨e', by simp [he'], h3⟩
    · simp only [hi, if_false] at h
      split at h
      · next l hl =>
        split at h
        · next more' hm =>
          simp at h; subst h
          obtain ⟨h1, h2⟩ := ih hm
          refine ⟨by simp [hi, h1], ?_⟩
          intro j hj
          simp only [List.mem_cons] at hj
          rcases hj with rfl | hj
          · exact ⟨e, by simp, hi, rfl, rfl, hl⟩
          · obtain ⟨e', he', h3⟩ := h2 j hj
            exact ⟨e', by simp [he'], h3⟩
        · simp at h
      · simp at h

def stsWeight (sts : List (SDef × SForest)) : Nat := (sts.map fun e => e.2.size + 1).sum

def findWeight (K : SForest) (n : Nat) : Nat := match K.find n with
  | some e => e.2.size + 1
  | none => 0

theorem stsWeight_lookupAll {K : SForest} {I : List Nat} {sts : List (SDef × SForest)} (h : lookupAll K I = some sts) :
    stsWeight sts = (I.map (findWeight K)).sum := by
  induction I generalizing sts with
  | nil => simp [lookupAll_nil] at h; subst h; simp [stsWeight]
  | cons n I ih =>
    rw [lookupAll_cons] at h
    split at h
    · next e he =>
      split at h
      · next l hl =>
        simp at h; subst h
        have := ih hl
        simp only [stsWeight] at this
        simp [stsWeight, findWeight, he, this]
      · simp at h
    · simp at h

theorem findWeight_sum_le (K : SForest) : ∀ (I : List Nat), I.Nodup → (I.map (findWeight K)).sum ≤ K.size := by
  induction K with
  | nil => intro I _; induction I <;> simp_all [findWeight, SForest.find, SForest.size]
  | cons d kids rest _ ih =>
    intro I hI
    have key : ∀ (I : List Nat), I.Nodup → (I.map (findWeight (.cons d kids rest))).sum
        ≤ (if d.name ∈ I then kids.size + 1 else 0) + (I.map (findWeight rest)).sum := by
      intro I
      induction I with
      | nil => simp
      | cons n I ih2 =>
        intro hnd
        rw [List.nodup_cons] at hnd
        have := ih2 hnd.2
        by_cases hn : d.name = n
        · subst hn
          simp only [hnd.1, if_false] at this
          simp [findWeight, SForest.find] at this ⊢
          omega
        · have hn' : ¬ n = d.name := fun h => hn h.symm
          simp only [List.mem_cons, hn, false_or, List.map_cons, List.sum_cons]
          have : findWeight (.cons d kids rest) n = findWeight rest n := by
            simp [findWeight, SForest.find, hn]
          omega
    have h1 := key I hI
    have h2 := ih I hI
    simp only [SForest.size]
    split at h1 <;> omega

theorem stsWeight_le {K : SForest} {I : List Nat} {sts : List (SDef × SForest)} (h : lookupAll K I = some sts)
    (hI : I.Nodup) : stsWeight sts ≤ K.size := by
  rw [stsWeight_lookupAll h]; exact findWeight_sum_le K I hI

def jobCost (j : InitJob) : Nat := 1 + (j.2.2.map (·.2.size)).sum

def queueCost (q : List InitJob) : Nat := (q.map jobCost).sum

theorem stsWeight_pos_le {sts : List (SDef × SForest)} (h : sts ≠ []) :
    1 + (sts.map (·.2.size)).sum ≤ stsWeight sts := by
  cases sts with
  | nil => exact absurd rfl h
  | cons e l =>
    have : ∀ l : List (SDef × SForest), (l.map (·.2.size)).sum ≤ stsWeight l := by
      intro l; induction l with
      | nil => simp [stsWeight]
      | cons a l ih => simp [stsWeight] at ih ⊢; omega
    have := this l
    simp [stsWeight] at this ⊢; omega

theorem initJobs_ok (pos pre : SPath) (sts : List (SDef × SForest)) (h : ∀ e ∈ sts, DefOK e.1.initial e.2) :
    ∃ more, initJobs pos pre sts = some more ∧ (∀ j ∈ more, ∀ e ∈ j.2.2, DefOK e.1.initial e.2) ∧
      queueCost more ≤ (sts.map (·.2.size)).sum := by
  induction sts with
  | nil => exact ⟨[], initJobs_nil pos pre, by simp, by simp [queueCost]⟩
  | cons e sts ih =>
    obtain ⟨more, hm, hok, hc⟩ := ih (fun e' he' => h e' (by simp [he']))
    rw [initJobs_cons]
    by_cases hi : e.1.initial = []
    · refine ⟨more, by simp [hi, hm], hok, ?_⟩
      simp; omega
    · have hd := h e (by simp)
      obtain ⟨l, hl⟩ := lookupAll_of_sub hd.sub
      refine ⟨(pos ++ [e.1.name], pre ++ [e.1.name], l) :: more, by simp [hi, hl, hm], ?_, ?_⟩
      · intro j hj
        simp only [List.mem_cons] at hj
        rcases hj with rfl | hj
        · exact DefOK_of_lookupAll hd.wf hl
        · exact hok j hj
      · have h1 := stsWeight_le hl hd.nodup
        have hne : l ≠ [] := by
          intro h0; subst h0
          have := (lookupAll_some hl).1
          simp at this; exact hi this
        have h2 := stsWeight_pos_le hne
        simp [queueCost, jobCost] at hc ⊢
        omega

theorem initLoop_ok : ∀ (n : Nat) (queue : List InitJob) (tree : Forest) (ents : List Found),
    (∀ j ∈ queue, ∀ e ∈ j.2.2, DefOK e.1.initial e.2) → queueCost queue ≤ n →
    ∃ r, initLoop n queue tree ents = .ok r := by
  intro n
  induction n with
  | zero =>
    intro queue tree ents _ hc
    cases queue with
    | nil => exact ⟨(tree, ents), by simp [initLoop]⟩
    | cons j q => simp [queueCost, jobCost] at hc
  | succ n ih =>
    intro queue tree ents hq hc
    cases queue with
    | nil => exact ⟨(tree, ents), by simp [initLoop]⟩
    | cons j q =>
      obtain ⟨pos, pre, sts⟩ := j
      obtain ⟨more, hm, hok, hcm⟩ := initJobs_ok pos pre sts (hq (pos, pre, sts) (by simp))
      simp only [initLoop, hm]
      apply ih
      · intro j hj
        simp only [List.mem_append] at hj
        rcases hj with hj | hj
        · exact hq j (by simp [hj])
        · exact hok j hj
      · simp [queueCost, jobCost] at hc hcm ⊢
        omega

theorem sub?_nil (p : SPath) : Forest.nil.sub? p = if p = [] then some .nil else none := by
  cases p <;> simp [Forest.sub?, Forest.get?]

theorem sub?_cons (k : Nat) (s r : Forest) (x : Nat) (p : SPath) :
    (Forest.cons k s r).sub? (x :: p) = if k = x then s.sub? p else r.sub? (x :: p) := by
  simp only [Forest.sub?, Forest.get?]
  by_cases hk : k = x <;> simp [hk]

theorem sub?_cons_eq (k : Nat) (s r : Forest) (p : SPath) : (Forest.cons k s r).sub? (k :: p) = s.sub? p := by
  rw [sub?_cons, if_pos rfl]

theorem sub?_cons_ne {k x : Nat} (h : k ≠ x) (s r : Forest) (p : SPath) :
    (Forest.cons k s r).sub? (x :: p) = r.sub? (x :: p) := by
  rw [sub?_cons, if_neg h]

theorem sub?_append (t : Forest) (p q : SPath) :
    t.sub? (p ++ q) = match t.sub? p with | some s => s.sub? q | none => none := by
  induction p generalizing t with
  | nil => simp [Forest.sub?]
  | cons x p ih =>
    simp only [List.cons_append, Forest.sub?]
    cases t.get? x with
    | none => simp
    | some s => simp [ih]

theorem modifyAt_cons_eq (k : Nat) (s r : Forest) (p : SPath) (g : Forest → Forest) :
    (Forest.cons k s r).modifyAt (k :: p) g = .cons k (s.modifyAt p g) r := by
  simp [Forest.modifyAt]

theorem modifyAt_cons_ne {k x : Nat} (h : k ≠ x) (s r : Forest) (p : SPath) (g : Forest → Forest) :
    (Forest.cons k s r).modifyAt (x :: p) g = .cons k s (r.modifyAt (x :: p) g) := by
  simp [Forest.modifyAt, h]

theorem keys_modifyAt (t : Forest) (x : Nat) (p : SPath) (g : Forest → Forest) :
    (t.modifyAt (x :: p) g).keys = t.keys := by
  induction t with
  | nil => simp [Forest.modifyAt]
  | cons k s r _ ih =>
    simp only [Forest.modifyAt]
    split <;> simp [Forest.keys, ih]

theorem modifyAt_id (t : Forest) (p : SPath) : t.modifyAt p (fun s => s) = t := by
  induction t generalizing p with
  | nil => cases p <;> simp [Forest.modifyAt]
  | cons k s r ihs ihr =>
    cases p with
    | nil => simp [Forest.modifyAt]
    | cons x p =>
      simp only [Forest.modifyAt]
      split <;> simp [ihs, ihr]

theorem modifyAt_modifyAt (t : Forest) (p : SPath) (g h : Forest → Forest) :
    (t.modifyAt p g).modifyAt p h = t.modifyAt p (fun s => h (g s)) := by
  induction t generalizing p with
  | nil => cases p <;> simp [Forest.modifyAt]
  | cons k s r ihs ihr =>
    cases p with
    | nil => simp [Forest.modifyAt]
    | cons x p =>
      simp only [Forest.modifyAt]
      split
      · next hk => simp [Forest.modifyAt, hk, ihs]
      · next hk => simp [Forest.modifyAt, hk, ihr]

theorem modifyAt_congr (t : Forest) (p : SPath) (g h : Forest → Forest) (s0 : Forest)
    (hs : t.sub? p = some s0) (hg : g s0 = h s0) : t.modifyAt p g = t.modifyAt p h := by
  induction t generalizing p with
  | nil =>
    cases p with
    | nil => simp [Forest.sub?] at hs; subst hs; simp [Forest.modifyAt, hg]
    | cons x p => simp [Forest.modifyAt]
  | cons k s r ihs ihr =>
    cases p with
    | nil => simp [Forest.sub?] at hs; subst hs; simp [Forest.modifyAt, hg]
    | cons x p =>
      rw [sub?_cons] at hs
      simp only [Forest.modifyAt]
      split at hs
      · next hk => simp [hk, ihs p hs]
      · next hk => simp [hk, ihr (x :: p) hs]

theorem sub?_modifyAt_ext (t : Forest) (p r : SPath) (g : Forest → Forest) (s0 : Forest)
    (hs : t.sub? p = some s0) : (t.modifyAt p g).sub? (p ++ r) = (g s0).sub? r := by
  induction t generalizing p with
  | nil =>
    cases p with
    | nil => simp [Forest.sub?] at hs; subst hs; simp [Forest.modifyAt]
    | cons x p => simp [Forest.sub?, Forest.get?] at hs
  | cons k s r' ihs ihr =>
    cases p with
    | nil => simp [Forest.sub?] at hs; subst hs; simp [Forest.modifyAt]
    | cons x p =>
      rw [sub?_cons] at hs
      simp only [Forest.modifyAt, List.cons_append]
      split at hs
      · next hk => simp [hk, sub?_cons, ihs p hs]
      · next hk => simp [hk, sub?_cons]; exact ihr (x :: p) hs

theorem sub?_modifyAt_other (t : Forest) (p q : SPath) (g : Forest → Forest)
    (hp : t.sub? p = some .nil) (hq : t.sub? q = some .nil) (hne : p ≠ q) :
    (t.modifyAt p g).sub? q = some .nil := by
  induction t generalizing p q with
  | nil =>
    rw [sub?_nil] at hp hq
    split at hp <;> split at hq <;> simp_all
  | cons k s r ihs ihr =>
    cases p with
    | nil => simp [Forest.sub?] at hp
    | cons x p =>
      cases q with
      | nil => simp [Forest.sub?] at hq
      | cons y q =>
        by_cases hkx : k = x
        · subst hkx
          rw [modifyAt_cons_eq]
          rw [sub?_cons_eq] at hp
          by_cases hky : k = y
          · subst hky
            rw [sub?_cons_eq] at hq ⊢
            exact ihs p q hp hq (by intro h; exact hne (by rw [h]))
          · rw [sub?_cons_ne hky] at hq ⊢; exact hq
        · rw [modifyAt_cons_ne hkx]
          rw [sub?_cons_ne hkx] at hp
          by_cases hky : k = y
          · subst hky
            rw [sub?_cons_eq] at hq ⊢; exact hq
          · rw [sub?_cons_ne hky] at hq ⊢
            exact ihr (x :: p) (y :: q) hp hq hne

theorem sub?_modifyAt_nil_inv (t : Forest) (p q : SPath) (L : Forest)
    (hp : t.sub? p = some .nil) (hq : (t.modifyAt p (fun _ => L)).sub? q = some .nil) :
    (t.sub? q = some .nil ∧ q ≠ p) ∨ (∃ r, q = p ++ r ∧ L.sub? r = some .nil) := by
  induction t generalizing p q with
  | nil =>
    rw [sub?_nil] at hp
    split at hp
    · next h => subst h; right; exact ⟨q, by simp, by simpa [Forest.modifyAt] using hq⟩
    · simp at hp
  | cons k s r ihs ihr =>
    cases p with
    | nil => simp [Forest.sub?] at hp
    | cons x p =>
      cases q with
      | nil =>
        simp only [Forest.modifyAt] at hq
        split at hq <;> simp [Forest.sub?] at hq
      | cons y q =>
        by_cases hkx : k = x
        · subst hkx
          rw [modifyAt_cons_eq] at hq
          rw [sub?_cons_eq] at hp
          by_cases hky : k = y
          · subst hky
            rw [sub?_cons_eq] at hq ⊢
            rcases ihs p q hp hq with ⟨h1, h2⟩ | ⟨r', h1, h2⟩
            · left; exact ⟨h1, by intro h; apply h2; injection h⟩
            · right; exact ⟨r', by simp [h1], h2⟩
          · rw [sub?_cons_ne hky] at hq ⊢
            left; exact ⟨hq, by intro h; injection h with h1 _; exact hky h1.symm⟩
        · rw [modifyAt_cons_ne hkx] at hq
          rw [sub?_cons_ne hkx] at hp
          by_cases hky : k = y
          · subst hky
            rw [sub?_cons_eq] at hq ⊢
            left; exact ⟨hq, by intro h; injection h with h1 _; exact hkx h1⟩
          · rw [sub?_cons_ne hky] at hq ⊢
            rcases ihr (x :: p) (y :: q) hp hq with ⟨h1, h2⟩ | ⟨r', h1, h2⟩
            · left; exact ⟨h1, h2⟩
            · right; exact ⟨r', h1, h2⟩

theorem sub?_head_mem_keys {t : Forest} {x : Nat} {p : SPath} {s : Forest} (h : t.sub? (x :: p) = some s) : x ∈ t.keys := by
  induction t with
  | nil => simp [sub?_nil] at h
  | cons k s' r _ ihr =>
    by_cases hk : k = x
    · simp [Forest.keys, hk]
    · rw [sub?_cons_ne hk] at h
      simp [Forest.keys, ihr h]

theorem head_mem_keys_of_mem_nodes {t : Forest} {x : Nat} {p : SPath} (h : x :: p ∈ t.nodes) : x ∈ t.keys := by
  induction t with
  | nil => simp [Forest.nodes] at h
  | cons k s r _ ihr =>
    simp only [Forest.nodes, List.cons_append, List.mem_cons, List.mem_append, List.mem_map] at h
    simp only [Forest.keys, List.mem_cons]
    rcases h with h | ⟨q', _, h⟩ | h
    · injection h with h1 _; exact Or.inl h1
    · injection h with h1 _; exact Or.inl h1.symm
    · exact Or.inr (ihr h)

theorem WF_cons {k : Nat} {s r : Forest} : (Forest.cons k s r).WF = true ↔ k ∉ r.keys ∧ s.WF = true ∧ r.WF = true := by
  simp [Forest.WF, and_assoc]

theorem mem_nodes_sub {t : Forest} {q : SPath} (hwf : t.WF = true) (h : q ∈ t.nodes) : (t.sub? q).isSome = true := by
  induction t generalizing q with
  | nil => simp [Forest.nodes] at h
  | cons k s r ihs ihr =>
    obtain ⟨hk, hs, hr⟩ := WF_cons.mp hwf
    simp only [Forest.nodes, List.cons_append, List.mem_cons, List.mem_append, List.mem_map] at h
    rcases h with rfl | ⟨q', hq', rfl⟩ | h
    · simp [Forest.sub?, Forest.get?]
    · rw [sub?_cons_eq]; exact ihs hs hq'
    · have := ihr hr h
      cases q with
      | nil => rfl
      | cons y q =>
        by_cases hky : k = y
        · subst hky
          exact absurd (head_mem_keys_of_mem_nodes h) hk
        · rw [sub?_cons_ne hky]; exact this

theorem WF_modifyAt (t : Forest) (p : SPath) (L : Forest) (hwf : t.WF = true) (hL : L.WF = true) :
    (t.modifyAt p (fun _ => L)).WF = true := by
  induction t generalizing p with
  | nil => cases p <;> simp [Forest.modifyAt, hL, Forest.WF]
  | cons k s r ihs ihr =>
    obtain ⟨hk, hs, hr⟩ := WF_cons.mp hwf
    cases p with
    | nil => simpa [Forest.modifyAt] using hL
    | cons x p =>
      by_cases hkx : k = x
      · subst hkx
        rw [modifyAt_cons_eq]
        exact WF_cons.mpr ⟨hk, ihs p hs, hr⟩
      · rw [modifyAt_cons_ne hkx]
        exact WF_cons.mpr ⟨by rw [keys_modifyAt]; exact hk, hs, ihr (x :: p) hr⟩

theorem mem_nodes_modifyAt (t : Forest) (p q : SPath) (L : Forest) (hp : t.sub? p = some .nil) :
    q ∈ (t.modifyAt p (fun _ => L)).nodes ↔ q ∈ t.nodes ∨ ∃ r ∈ L.nodes, q = p ++ r := by
  induction t generalizing p q with
  | nil =>
    rw [sub?_nil] at hp
    split at hp
    · next h => subst h; simp [Forest.modifyAt, Forest.nodes]
    · simp at hp
  | cons k s r ihs ihr =>
    cases p with
    | nil => simp [Forest.sub?] at hp
    | cons x p =>
      by_cases hkx : k = x
      · subst hkx
        rw [modifyAt_cons_eq]
        rw [sub?_cons_eq] at hp
        simp only [Forest.nodes, List.cons_append, List.mem_cons, List.mem_append, List.mem_map, ihs p _ hp]
        constructor
        · rintro (h | ⟨a, (h | ⟨r', hr', rfl⟩), rfl⟩ | h)
          · exact Or.inl (Or.inl h)
          · exact Or.inl (Or.inr (Or.inl ⟨a, h, rfl⟩))
          · exact Or.inr ⟨r', hr', rfl⟩
          · exact Or.inl (Or.inr (Or.inr h))
        · rintro ((h | ⟨a, h, rfl⟩ | h) | ⟨r', hr', rfl⟩)
          · exact Or.inl h
          · exact Or.inr (Or.inl ⟨a, Or.inl h, rfl⟩)
          · exact Or.inr (Or.inr h)
          · exact Or.inr (Or.inl ⟨p ++ r', Or.inr ⟨r', hr', rfl⟩, rfl⟩)
      · rw [modifyAt_cons_ne hkx]
        rw [sub?_cons_ne hkx] at hp
        simp only [Forest.nodes, List.cons_append, List.mem_cons, List.mem_append, List.mem_map, ihr (x :: p) _ hp]
        constructor
        · rintro (h | h | h | h)
          · exact Or.inl (Or.inl h)
          · exact Or.inl (Or.inr (Or.inl h))
          · exact Or.inl (Or.inr (Or.inr h))
          · exact Or.inr h
        · rintro ((h | h | h) | h)
          · exact Or.inl h
          · exact Or.inr (Or.inl h)
          · exact Or.inr (Or.inr (Or.inl h))
          · exact Or.inr (Or.inr (Or.inr h))

def ofKeys : List Nat → Forest
  | [] => .nil
  | n :: ns => .cons n .nil (ofKeys ns)

theorem keys_ofKeys (l : List Nat) : (ofKeys l).keys = l := by
  induction l <;> simp_all [ofKeys, Forest.keys]

theorem nodes_ofKeys (l : List Nat) : (ofKeys l).nodes = l.map ([·]) := by
  induction l <;> simp_all [ofKeys, Forest.nodes]

theorem WF_ofKeys {l : List Nat} (h : l.Nodup) : (ofKeys l).WF = true := by
  induction l with
  | nil => rfl
  | cons n l ih =>
    rw [List.nodup_cons] at h
    simp [ofKeys, Forest.WF, keys_ofKeys, h.1, ih h.2]

theorem ofKeys_eq_nil {l : List Nat} : ofKeys l = .nil ↔ l = [] := by
  cases l <;> simp [ofKeys]

theorem sub?_ofKeys_nil {l : List Nat} {r : SPath} (h : (ofKeys l).sub? r = some .nil) :
    (r = [] ∧ l = []) ∨ ∃ k ∈ l, r = [k] := by
  induction l with
  | nil =>
    simp only [ofKeys, sub?_nil] at h
    split at h
    · next h' => exact Or.inl ⟨h', rfl⟩
    · simp at h
  | cons n l ih =>
    cases r with
    | nil => simp [ofKeys, Forest.sub?] at h
    | cons y r =>
      simp only [ofKeys, sub?_cons] at h
      split at h
      · next hy =>
        rw [sub?_nil] at h
        split at h
        · next hr => right; exact ⟨n, by simp, by rw [hr, hy]⟩
        · simp at h
      · rcases ih h with ⟨h1, _⟩ | ⟨k, hk, h1⟩
        · simp at h1
        · right; exact ⟨k, by simp [hk], h1⟩

theorem sub?_ofKeys_single {l : List Nat} {k : Nat} (h : k ∈ l) : (ofKeys l).sub? [k] = some .nil := by
  induction l with
  | nil => simp at h
  | cons n l ih =>
    simp only [ofKeys, sub?_cons]
    split
    · rfl
    · next hn =>
      simp only [List.mem_cons] at h
      rcases h with h | h
      · exact absurd h.symm hn
      · exact ih h

theorem set_ofKeys {l : List Nat} {n : Nat} (h : n ∉ l) : (ofKeys l).set n .nil = ofKeys (l ++ [n]) := by
  induction l with
  | nil => simp [ofKeys, Forest.set]
  | cons m l ih =>
    simp only [List.mem_cons, not_or] at h
    have hm : ¬ m = n := fun e => h.1 e.symm
    simp [ofKeys, Forest.set, hm, ih h.2]

theorem foldl_set_ofKeys (names : List Nat) : ∀ (A : List Nat), (∀ n ∈ names, n ∉ A) → names.Nodup →
    names.foldl (fun s n => s.set n .nil) (ofKeys A) = ofKeys (A ++ names) := by
  induction names with
  | nil => intro A _ _; simp
  | cons n names ih =>
    intro A hA hnd
    rw [List.nodup_cons] at hnd
    simp only [List.foldl_cons]
    rw [set_ofKeys (hA n (by simp)), ih (A ++ [n]) _ hnd.2]
    · simp
    · intro m hm hmA
      simp only [List.mem_append, List.mem_singleton] at hmA
      rcases hmA with hmA | rfl
      · exact hA m (by simp [hm]) hmA
      · exact hnd.1 hm

theorem foldl_modifyAt (sts : List (SDef × SForest)) (pos : SPath) (tree : Forest)
    (hp : tree.sub? pos = some .nil) (hnd : (sts.map (·.1.name)).Nodup) :
    sts.foldl (fun t e => t.modifyAt pos (·.set e.1.name .nil)) tree
      = tree.modifyAt pos (fun _ => ofKeys (sts.map (·.1.name))) := by
  have h1 : ∀ (sts : List (SDef × SForest)) (tree : Forest),
      sts.foldl (fun t e => t.modifyAt pos (·.set e.1.name .nil)) tree
        = tree.modifyAt pos (fun s => sts.foldl (fun s e => s.set e.1.name .nil) s) := by
    intro sts
    induction sts with
    | nil => intro tree; simp [modifyAt_id]
    | cons e sts ih => intro tree; simp only [List.foldl_cons]; rw [ih, modifyAt_modifyAt]
  rw [h1]
  apply modifyAt_congr _ _ _ _ _ hp
  have := foldl_set_ofKeys (sts.map (·.1.name)) [] (by simp) hnd
  simp only [List.foldl_map, ofKeys, List.nil_append] at this
  exact this

def defAt (I : List Nat) (S : SForest) : SPath → Option (List Nat × SForest)
  | [] => some (I, S)
  | k :: p => match S.find k with
    | some (d, kids) => defAt d.initial kids p
    | none => none

theorem walk_cons_cons (S : SForest) (k x : Nat) (p : SPath) :
    S.walk (k :: x :: p) = match S.find k with | some (_, kids) => kids.walk (x :: p) | none => none := by
  cases h : S.find k with
  | none => simp [SForest.walk, h]
  | some e => obtain ⟨d, kids⟩ := e; simp [SForest.walk, h]

theorem walk_snoc (I : List Nat) (S : SForest) (p : SPath) (k : Nat) :
    S.walk (p ++ [k]) = match defAt I S p with | some (_, K) => K.find k | none => none := by
  induction p generalizing I S with
  | nil => simp [SForest.walk, defAt]
  | cons x p ih =>
    cases p with
    | nil =>
      simp only [List.cons_append, List.nil_append, walk_cons_cons, defAt]
      cases S.find x with
      | none => simp
      | some e => simp [SForest.walk]
    | cons y p =>
      simp only [List.cons_append, walk_cons_cons]
      simp only [defAt]
      cases S.find x with
      | none => simp
      | some e =>
        have := ih e.1.initial e.2
        simp only [List.cons_append] at this
        simp only [this, defAt]

theorem defAt_snoc (I : List Nat) (S : SForest) (p : SPath) (k : Nat) :
    defAt I S (p ++ [k]) = match defAt I S p with
      | some (_, K) => (match K.find k with | some (d, kids) => some (d.initial, kids) | none => none)
      | none => none := by
  induction p generalizing I S with
  | nil => simp only [List.nil_append, defAt]
  | cons x p ih =>
    simp only [List.cons_append, defAt]
    cases S.find x with
    | none => simp
    | some e => simp [ih]

theorem defAt_DefOK {I : List Nat} {S : SForest} {p : SPath} {I' : List Nat} {K' : SForest}
    (h0 : DefOK I S) (h : defAt I S p = some (I', K')) : DefOK I' K' := by
  induction p generalizing I S with
  | nil => simp [defAt] at h; obtain ⟨rfl, rfl⟩ := h; exact h0
  | cons x p ih =>
    simp only [defAt] at h
    split at h
    · next d kids hf => exact ih (SForest.WF_find h0.wf hf) h
    · simp at h

def PEnts : SForest → Forest → Prop
  | _, .nil => True
  | K, .cons k s r =>
    (∃ d kids, K.find k = some (d, kids) ∧ (s = .nil ∨ (s.keys = d.initial ∧ PEnts kids s))) ∧ PEnts K r

def PNode (I : List Nat) (K : SForest) (t : Forest) : Prop := t = .nil ∨ (t.keys = I ∧ PEnts K t)

theorem PEnts_ofKeys {K : SForest} {l : List Nat} (h : ∀ k ∈ l, ∃ e, K.find k = some e) : PEnts K (ofKeys l) := by
  induction l with
  | nil => simp [ofKeys, PEnts]
  | cons n l ih =>
    obtain ⟨⟨d, kids⟩, he⟩ := h n (by simp)
    exact ⟨⟨d, kids, he, Or.inl rfl⟩, ih (fun k hk => h k (by simp [hk]))⟩

theorem PEnts_step {I' : List Nat} {K' : SForest} {L : Forest} (hL : L.keys = I') (hLe : PEnts K' L) :
    ∀ (t : Forest) (S : SForest) (I : List Nat) (x : Nat) (p : SPath), PEnts S t → t.sub? (x :: p) = some .nil →
      defAt I S (x :: p) = some (I', K') → PEnts S (t.modifyAt (x :: p) fun _ => L) := by
  intro t
  induction t with
  | nil => intro S I x p _ hs; simp [sub?_nil] at hs
  | cons k s r ihs ihr =>
    intro S I x p hP hs hd
    obtain ⟨⟨d, kids, hf, hsd⟩, hr⟩ := hP
    by_cases hkx : k = x
    · subst hkx
      rw [modifyAt_cons_eq]
      rw [sub?_cons_eq] at hs
      simp only [defAt, hf] at hd
      refine ⟨⟨d, kids, hf, ?_⟩, hr⟩
      cases p with
      | nil =>
        simp only [defAt, Option.some.injEq, Prod.mk.injEq] at hd
        obtain ⟨rfl, rfl⟩ := hd
        right
        simpa [Forest.modifyAt] using ⟨hL, hLe⟩
      | cons y p =>
        rcases hsd with rfl | ⟨hk, hP'⟩
        · simp [sub?_nil] at hs
        · right
          exact ⟨by rw [keys_modifyAt]; exact hk, ihs kids d.initial y p hP' hs hd⟩
    · rw [modifyAt_cons_ne hkx]
      rw [sub?_cons_ne hkx] at hs
      exact ⟨⟨d, kids, hf, hsd⟩, ihr S I x p hr hs hd⟩

theorem PNode_step {I' : List Nat} {K' : SForest} {L : Forest} (hL : L.keys = I') (hLe : PEnts K' L)
    {t : Forest} {S : SForest} {I : List Nat} {p : SPath} (hP : PNode I S t) (hs : t.sub? p = some .nil)
    (hd : defAt I S p = some (I', K')) : PNode I S (t.modifyAt p fun _ => L) := by
  cases p with
  | nil =>
    simp only [defAt, Option.some.injEq, Prod.mk.injEq] at hd
    obtain ⟨rfl, rfl⟩ := hd
    right; simpa [Forest.modifyAt] using ⟨hL, hLe⟩
  | cons x p =>
    rcases hP with rfl | ⟨hk, hP⟩
    · simp [sub?_nil] at hs
    · right
      exact ⟨by rw [keys_modifyAt]; exact hk, PEnts_step hL hLe t S I x p hP hs hd⟩

theorem keys_eq_nil {t : Forest} : t.keys = [] ↔ t = .nil := by
  cases t <;> simp [Forest.keys]

theorem len_eq_keys_length (t : Forest) : t.len = t.keys.length := by
  induction t <;> simp_all [Forest.len, Forest.keys]

theorem isEmpty_iff {t : Forest} : t.isEmpty = true ↔ t = .nil := by
  cases t <;> simp [Forest.isEmpty]

theorem ConfOK_of_PEnts : ∀ (t : Forest) (S : SForest) (I : List Nat), S.WF = true → PEnts S t → t.keys.Nodup →
    (∀ x q I' K', defAt I S (x :: q) = some (I', K') → t.sub? (x :: q) = some .nil → I' = []) →
    ConfOK S t = true := by
  intro t
  induction t with
  | nil => intro S I _ _ _ _; rfl
  | cons k s r ihs ihr =>
    intro S I hwf hP hnd hfin
    obtain ⟨⟨d, kids, hf, hsd⟩, hr⟩ := hP
    simp only [Forest.keys, List.nodup_cons] at hnd
    have hdk := SForest.WF_find hwf hf
    have h3 : ConfOK S r = true := by
      apply ihr S I hwf hr hnd.2
      intro x q I' K' hd hs
      have hx : k ≠ x := by
        intro e; subst e; exact hnd.1 (sub?_head_mem_keys hs)
      exact hfin x q I' K' hd (by rw [sub?_cons_ne hx]; exact hs)
    simp only [ConfOK, hf, h3, Bool.and_true, Bool.and_eq_true, Bool.not_eq_true', List.contains_eq_mem,
      decide_eq_false_iff_not]
    refine ⟨hnd.1, ?_⟩
    by_cases hse : s = .nil
    · subst hse
      have := hfin k [] d.initial kids (by simp [defAt, hf]) (by rw [sub?_cons_eq]; rfl)
      simp [Forest.isEmpty, this]
    · rcases hsd with hsd | ⟨hk, hP'⟩
      · exact absurd hsd hse
      · have hemp : s.isEmpty = false := by
          cases s with
          | nil => exact absurd rfl hse
          | cons => rfl
        simp only [hemp, Bool.false_eq_true, if_false, Bool.and_eq_true, Bool.or_eq_true, decide_eq_true_eq,
          List.all_eq_true, List.contains_eq_mem]
        refine ⟨?_, ?_⟩
        · rw [len_eq_keys_length, hk]; exact hdk.oneAll
        · apply ihs kids d.initial hdk.wf hP' (hk ▸ hdk.nodup)
          intro x q I' K' hd hs
          exact hfin k (x :: q) I' K' (by simpa [defAt, hf] using hd) (by rw [sub?_cons_eq]; exact hs)

/-! ### `parentsFirst` -/

theorem parentsFirst_append (b : SPath) (seen l1 l2 : List SPath) :
    parentsFirst b seen (l1 ++ l2) = (parentsFirst b seen l1 && parentsFirst b (seen ++ l1) l2) := by
  induction l1 generalizing seen with
  | nil => simp [parentsFirst]
  | cons p l1 ih => simp [parentsFirst, ih, Bool.and_assoc]

theorem parentsFirst_of_forall {b : SPath} {seen l : List SPath}
    (h : ∀ p ∈ l, p.dropLast = b ∨ p.dropLast ∈ seen) : parentsFirst b seen l = true := by
  induction l generalizing seen with
  | nil => rfl
  | cons p l ih =>
    simp only [parentsFirst, Bool.and_eq_true, Bool.or_eq_true, beq_iff_eq, List.contains_eq_mem, decide_eq_true_eq]
    refine ⟨h p (by simp), ih ?_⟩
    intro q hq
    rcases h q (by simp [hq]) with h1 | h1
    · exact Or.inl h1
    · exact Or.inr (by simp [h1])

theorem parentsFirst_mono {b b' : SPath} {seen seen2 l : List SPath} (h : parentsFirst b' seen l = true)
    (hb : b' = b ∨ b' ∈ seen2) (hs : ∀ x ∈ seen, x ∈ seen2) : parentsFirst b seen2 l = true := by
  induction l generalizing seen seen2 with
  | nil => rfl
  | cons p l ih =>
    simp only [parentsFirst, Bool.and_eq_true, Bool.or_eq_true, beq_iff_eq, List.contains_eq_mem,
      decide_eq_true_eq] at h ⊢
    refine ⟨?_, ih h.2 ?_ ?_⟩
    · rcases h.1 with h1 | h1
      · rw [h1]; exact hb
      · exact Or.inr (hs _ h1)
    · rcases hb with hb | hb
      · exact Or.inl hb
      · exact Or.inr (by simp [hb])
    · intro x hx
      simp only [List.mem_append, List.mem_singleton] at hx ⊢
      rcases hx with hx | hx
      · exact Or.inl (hs x hx)
      · exact Or.inr hx

/-! ### the loop invariant of `initLoop` -/

/-- invariant of the queue loop: `base` = global prefix of the scope whose `initial` (`I0`, children `S`) is
descended; every queued position is an empty dictionary of the tree, and the only empty positions whose state has
an `initial` are the queued ones -/
structure LInv (base : SPath) (I0 : List Nat) (S : SForest) (queue : List InitJob) (tree : Forest)
    (ents : List Found) : Prop where
  wf : tree.WF = true
  pnode : PNode I0 S tree
  posNodup : (queue.map (·.1)).Nodup
  posNil : ∀ j ∈ queue, tree.sub? j.1 = some .nil
  pend : ∀ q I K, defAt I0 S q = some (I, K) → tree.sub? q = some .nil → I = [] ∨ q ∈ queue.map (·.1)
  job : ∀ j ∈ queue, j.2.1 = base ++ j.1 ∧
    ∃ I K, defAt I0 S j.1 = some (I, K) ∧ I ≠ [] ∧ lookupAll K I = some j.2.2
  jobPre : ∀ j ∈ queue, j.2.1 = base ∨ j.2.1 ∈ ents.map (·.path)
  nodup : (ents.map (·.path)).Nodup
  mem : ∀ p, p ∈ ents.map (·.path) ↔ ∃ q ∈ tree.nodes, p = base ++ q
  pf : parentsFirst base [] (ents.map (·.path)) = true
  reg : ∀ e ∈ ents, ∃ rel, e.path = base ++ rel ∧ S.walk rel = some (e.d, e.kids)

theorem LInv_step {base : SPath} {I0 : List Nat} {S : SForest} (h0 : DefOK I0 S) {pos pre : SPath}
    {sts : List (SDef × SForest)} {q more : List InitJob} {tree : Forest} {ents : List Found}
    (h : LInv base I0 S ((pos, pre, sts) :: q) tree ents) (hm : initJobs pos pre sts = some more) :
    LInv base I0 S (q ++ more) (sts.foldl (fun t e => t.modifyAt pos (·.set e.1.name .nil)) tree)
      (ents ++ sts.map fun e => (⟨e.1, e.2, pre ++ [e.1.name]⟩ : Found)) := by
  obtain ⟨hpre, I, K, hdef, hIne, hlook⟩ := h.job (pos, pre, sts) (by simp)
  have hpre : pre = base ++ pos := hpre
  have hnil : tree.sub? pos = some .nil := h.posNil (pos, pre, sts) (by simp)
  have hIK := defAt_DefOK h0 hdef
  obtain ⟨hnames, hfind⟩ := lookupAll_some hlook
  have hnd : (sts.map (·.1.name)).Nodup := hnames ▸ hIK.nodup
  rw [foldl_modifyAt sts pos tree hnil hnd, hnames]
  obtain ⟨m1, m2⟩ := initJobs_spec hm
  have hpaths : (ents ++ sts.map fun e => (⟨e.1, e.2, pre ++ [e.1.name]⟩ : Found)).map (·.path)
      = ents.map (·.path) ++ I.map (fun k => pre ++ [k]) := by
    simp [← hnames, Function.comp_def]
  have hsubnone : ∀ k, tree.sub? (pos ++ [k]) = none := by
    intro k; rw [sub?_append, hnil]; simp [sub?_nil]
  have hstsI : ∀ k ∈ I, ∃ e ∈ sts, e.1.name = k := by
    intro k hk
    rw [← hnames] at hk
    simpa using hk
  have hposq : pos ∉ q.map (·.1) := by
    have := h.posNodup
    simp only [List.map_cons, List.nodup_cons] at this
    exact this.1
  have hqnd : (q.map (·.1)).Nodup := by
    have := h.posNodup
    simp only [List.map_cons, List.nodup_cons] at this
    exact this.2
  have hfresh : ∀ k, base ++ (pos ++ [k]) ∉ ents.map (·.path) := by
    intro k hk
    obtain ⟨q0, hq0, he⟩ := (h.mem _).mp hk
    have : q0 = pos ++ [k] := (List.append_cancel_left he).symm
    subst this
    have := mem_nodes_sub h.wf hq0
    rw [hsubnone] at this
    simp at this
  refine
    { wf := WF_modifyAt _ _ _ h.wf (WF_ofKeys hIK.nodup)
      pnode := PNode_step (keys_ofKeys I)
        (PEnts_ofKeys fun k hk => SForest.find_isSome_of_mem (hIK.sub k hk)) h.pnode hnil hdef
      posNodup := ?_, posNil := ?_, pend := ?_, job := ?_, jobPre := ?_, nodup := ?_, mem := ?_, pf := ?_,
      reg := ?_ }
  · -- posNodup
    rw [List.map_append, List.nodup_append]
    refine ⟨hqnd, ?_, ?_⟩
    · rw [m1]
      apply nodup_map_inj (fun a b e => by simpa using e)
      exact List.Nodup.sublist (List.Sublist.map _ List.filter_sublist) hnd
    · intro a ha b hb e
      subst e
      simp only [List.mem_map] at ha
      obtain ⟨j, hj, rfl⟩ := ha
      have h1 := h.posNil j (by simp [hj])
      rw [m1] at hb
      simp only [List.mem_map] at hb
      obtain ⟨k, _, hk⟩ := hb
      rw [← hk, hsubnone] at h1
      simp at h1
  · -- posNil
    intro j hj
    simp only [List.mem_append] at hj
    rcases hj with hj | hj
    · apply sub?_modifyAt_other _ _ _ _ hnil (h.posNil j (by simp [hj]))
      intro e
      exact hposq (by rw [e]; exact List.mem_map_of_mem hj)
    · obtain ⟨e, he, _, hj1, _, _⟩ := m2 j hj
      rw [hj1, sub?_modifyAt_ext _ _ _ _ _ hnil]
      apply sub?_ofKeys_single
      rw [← hnames]; exact List.mem_map_of_mem he
  · -- pend
    intro q' I' K' hd' hs'
    rcases sub?_modifyAt_nil_inv _ _ _ _ hnil hs' with ⟨h1, h2⟩ | ⟨r, h1, h2⟩
    · rcases h.pend q' I' K' hd' h1 with h3 | h3
      · exact Or.inl h3
      · right
        simp only [List.map_cons, List.mem_cons] at h3
        rcases h3 with h3 | h3
        · exact absurd h3 h2
        · simp [h3]
    · rcases sub?_ofKeys_nil h2 with ⟨_, h3⟩ | ⟨k, hk, rfl⟩
      · exact absurd h3 hIne
      · subst h1
        obtain ⟨e, he, hek⟩ := hstsI k hk
        have hf := hfind e he
        rw [hek] at hf
        rw [defAt_snoc, hdef] at hd'
        simp only [hf, Option.some.injEq, Prod.mk.injEq] at hd'
        by_cases hi : e.1.initial = []
        · exact Or.inl (hd'.1 ▸ hi)
        · right
          rw [List.map_append, List.mem_append]
          right
          rw [m1]
          simp only [List.mem_map, List.mem_filter, decide_eq_true_eq]
          exact ⟨k, ⟨e, ⟨he, hi⟩, hek⟩, rfl⟩
  · -- job
    intro j hj
    simp only [List.mem_append] at hj
    rcases hj with hj | hj
    · exact h.job j (by simp [hj])
    · obtain ⟨e, he, hi, hj1, hj2, hj3⟩ := m2 j hj
      refine ⟨by rw [hj1, hj2, hpre, List.append_assoc], e.1.initial, e.2, ?_, hi, hj3⟩
      rw [hj1, defAt_snoc, hdef]
      simp only [hfind e he]
  · -- jobPre
    intro j hj
    rw [hpaths]
    simp only [List.mem_append] at hj
    rcases hj with hj | hj
    · rcases h.jobPre j (by simp [hj]) with h1 | h1
      · exact Or.inl h1
      · exact Or.inr (by simp [h1])
    · obtain ⟨e, he, _, _, hj2, _⟩ := m2 j hj
      right
      rw [hj2, List.mem_append]
      right
      rw [← hnames]
      simp only [List.map_map, List.mem_map, Function.comp_def]
      exact ⟨e, he, rfl⟩
  · -- nodup
    rw [hpaths, List.nodup_append]
    refine ⟨h.nodup, nodup_map_inj (fun a b e => by simpa using e) hIK.nodup, ?_⟩
    intro a ha b hb e
    subst e
    simp only [List.mem_map] at hb
    obtain ⟨k, _, rfl⟩ := hb
    rw [hpre, List.append_assoc] at ha
    exact hfresh k ha
  · -- mem
    intro p
    rw [hpaths, List.mem_append, h.mem]
    simp only [mem_nodes_modifyAt _ _ _ _ hnil, nodes_ofKeys, List.mem_map]
    constructor
    · rintro (⟨q0, hq0, rfl⟩ | ⟨k, hk, rfl⟩)
      · exact ⟨q0, Or.inl hq0, rfl⟩
      · exact ⟨pos ++ [k], Or.inr ⟨[k], ⟨k, hk, rfl⟩, rfl⟩, by rw [hpre, List.append_assoc]⟩
    · rintro ⟨q0, (hq0 | ⟨r, ⟨k, hk, rfl⟩, rfl⟩), rfl⟩
      · exact Or.inl ⟨q0, hq0, rfl⟩
      · exact Or.inr ⟨k, hk, by rw [hpre, List.append_assoc]⟩
  · -- pf
    rw [hpaths, parentsFirst_append, h.pf, Bool.true_and]
    apply parentsFirst_of_forall
    intro p hp
    simp only [List.mem_map] at hp
    obtain ⟨k, _, rfl⟩ := hp
    simp only [List.dropLast_concat, List.nil_append]
    exact h.jobPre (pos, pre, sts) (by simp)
  · -- reg
    intro e he
    simp only [List.mem_append, List.mem_map] at he
    rcases he with he | ⟨e', he', rfl⟩
    · exact h.reg e he
    · refine ⟨pos ++ [e'.1.name], by simp [hpre], ?_⟩
      rw [walk_snoc I0, hdef]
      exact hfind e' he'

theorem initLoop_inv {base : SPath} {I0 : List Nat} {S : SForest} (h0 : DefOK I0 S) :
    ∀ (n : Nat) (queue : List InitJob) (tree : Forest) (ents : List Found) (T : Forest) (E : List Found),
      LInv base I0 S queue tree ents → initLoop n queue tree ents = .ok (T, E) → LInv base I0 S [] T E := by
  intro n
  induction n with
  | zero =>
    intro queue tree ents T E h hr
    cases queue with
    | nil => simp [initLoop] at hr; obtain ⟨rfl, rfl⟩ := hr; exact h
    | cons j q => simp [initLoop] at hr
  | succ n ih =>
    intro queue tree ents T E h hr
    cases queue with
    | nil => simp [initLoop] at hr; obtain ⟨rfl, rfl⟩ := hr; exact h
    | cons j q =>
      obtain ⟨pos, pre, sts⟩ := j
      simp only [initLoop] at hr
      split at hr
      · simp at hr
      · next more hm => exact ih _ _ _ T E (LInv_step h0 h hm) hr

theorem nodes_ne_nil {t : Forest} {q : SPath} (h : q ∈ t.nodes) : q ≠ [] := by
  induction t with
  | nil => simp [Forest.nodes] at h
  | cons k s r _ ihr =>
    simp only [Forest.nodes, List.cons_append, List.mem_cons, List.mem_append, List.mem_map] at h
    rcases h with rfl | ⟨q', _, rfl⟩ | h
    · simp
    · simp
    · exact ihr h

/-- what is established about the result `(T, ents)` of entering below the scope `sc` -/
structure EnterOK (sc : Scope) (T : Forest) (ents : List Found) : Prop where
  conf : ConfOK sc.states T = true
  nodup : (ents.map (·.path)).Nodup
  mem : ∀ p, p ∈ ents.map (·.path) ↔ ∃ q ∈ T.nodes, p = sc.pre ++ q
  pf : parentsFirst sc.pre [] (ents.map (·.path)) = true
  reg : ∀ e ∈ ents, ∃ rel, e.path = sc.pre ++ rel ∧ sc.states.walk rel = some (e.d, e.kids)

/-- the scope's own `initial` fits its `states` (true of every scope reached by `with self(k)` from well-formed
definitions, and of the machine's scope, whose `initial` is empty) -/
def ScopeOK (sc : Scope) : Prop := DefOK sc.initial sc.states

theorem ScopeOK_enter {sc sc' : Scope} {k : Nat} (hwf : sc.states.WF = true) (h : sc.enter k = some sc') :
    ScopeOK sc' := by
  obtain ⟨d, kids, hf, rfl⟩ := Scope.enter_eq h
  exact SForest.WF_find hwf hf

theorem enterInitial_ok (sc : Scope) (hwf : sc.states.WF = true) (hnd : sc.initial.Nodup) :
    enterInitial sc ≠ .oof := by
  unfold enterInitial
  split
  · simp
  · next hne =>
    split
    · simp
    · next sts hl =>
      have hne' : sts ≠ [] := by
        intro e; subst e
        have := (lookupAll_some hl).1
        simp at this
        exact hne this
      obtain ⟨r, hr⟩ := initLoop_ok (sc.states.size + 1) [([], sc.pre, sts)] .nil []
        (by intro j hj; simp only [List.mem_singleton] at hj; subst hj; exact DefOK_of_lookupAll hwf hl)
        (by
          have h1 := stsWeight_le hl hnd
          have h2 := stsWeight_pos_le hne'
          simp [queueCost, jobCost] at h2 ⊢
          omega)
      rw [hr]; simp

theorem enterInitial_spec (sc : Scope) (hsc : ScopeOK sc) (T : Forest) (ents : List Found)
    (h : enterInitial sc = .ok (T, ents)) : T.keys = sc.initial ∧ EnterOK sc T ents := by
  unfold enterInitial at h
  split at h
  · next hI =>
    simp at h
    obtain ⟨rfl, rfl⟩ := h
    exact ⟨by simp [Forest.keys, hI], ⟨rfl, by simp, by simp [Forest.nodes], rfl, by simp⟩⟩
  · next hne =>
    split at h
    · simp at h
    · next sts hl =>
      have hinit : LInv sc.pre sc.initial sc.states [([], sc.pre, sts)] .nil [] :=
        { wf := rfl
          pnode := Or.inl rfl
          posNodup := by simp
          posNil := by intro j hj; simp only [List.mem_singleton] at hj; subst hj; rfl
          pend := by
            intro q I K _ hs
            rw [sub?_nil] at hs
            split at hs
            · next hq => right; simp [hq]
            · simp at hs
          job := by
            intro j hj; simp only [List.mem_singleton] at hj; subst hj
            exact ⟨by simp, sc.initial, sc.states, rfl, hne, hl⟩
          jobPre := by intro j hj; simp only [List.mem_singleton] at hj; subst hj; exact Or.inl rfl
          nodup := by simp
          mem := by simp [Forest.nodes]
          pf := rfl
          reg := by simp }
      have hfin := initLoop_inv hsc _ _ _ _ T ents hinit h
      have hpend : ∀ q I K, defAt sc.initial sc.states q = some (I, K) → T.sub? q = some .nil → I = [] := by
        intro q I K hd hs
        rcases hfin.pend q I K hd hs with h1 | h1
        · exact h1
        · simp at h1
      rcases hfin.pnode with hT | ⟨hk, hP⟩
      · subst hT
        exact absurd (hpend [] sc.initial sc.states rfl rfl) hne
      · refine ⟨hk, ⟨?_, hfin.nodup, hfin.mem, hfin.pf, hfin.reg⟩⟩
        exact ConfOK_of_PEnts T sc.states sc.initial hsc.wf hP (hk ▸ hsc.nodup)
          (fun x q I' K' hd hs => hpend (x :: q) I' K' hd hs)

/-- shape of the tree returned by `enterDest sc dst` -/
def shapeOK (sc : Scope) (T : Forest) : SPath → Prop
  | [] => T.keys = sc.initial
  | k :: _ => ∃ v, T = .cons k v .nil

theorem enterDest_cons_step {sc sc' : Scope} {k : Nat} {d : SPath} {T' : Forest} {ents' : List Found}
    (hwf : sc.states.WF = true) (he : sc.enter k = some sc') (hs : shapeOK sc' T' d) (h : EnterOK sc' T' ents') :
    EnterOK sc (.cons k T' .nil) ((⟨sc'.owner.getD default, sc'.states, sc'.pre⟩ : Found) :: ents') := by
  obtain ⟨dk, kids, hf, rfl⟩ := Scope.enter_eq he
  have hdk := SForest.WF_find hwf hf
  simp only [Option.getD_some] at *
  refine ⟨?_, ?_, ?_, ?_, ?_⟩
  · -- ConfOK
    simp only [ConfOK, hf, Forest.keys, List.contains_nil, Bool.not_false, Bool.true_and, Bool.and_true]
    have hc := h.conf
    simp only at hc
    by_cases hemp : T' = .nil
    · subst hemp
      cases d with
      | nil =>
        have : dk.initial = [] := by simpa [shapeOK, Scope.initial, Forest.keys] using hs.symm
        simp [Forest.isEmpty, this]
      | cons k' d => obtain ⟨v, hv⟩ := hs; simp at hv
    · have : T'.isEmpty = false := by
        cases T' with
        | nil => exact absurd rfl hemp
        | cons => rfl
      simp only [this, Bool.false_eq_true, if_false, hc, Bool.and_true, Bool.or_eq_true, decide_eq_true_eq,
        List.all_eq_true, List.contains_eq_mem]
      cases d with
      | nil =>
        have hk : T'.keys = dk.initial := by simpa [shapeOK, Scope.initial] using hs
        rw [len_eq_keys_length, hk]
        exact hdk.oneAll
      | cons k' d =>
        obtain ⟨v, rfl⟩ := hs
        left; simp [Forest.len]
  · -- Nodup
    simp only [List.map_cons, List.nodup_cons]
    refine ⟨?_, h.nodup⟩
    intro hm
    obtain ⟨q, hq, he⟩ := (h.mem _).mp hm
    simp only at he
    have : q = [] := List.self_eq_append_right.mp he
    exact nodes_ne_nil hq this
  · -- membership
    intro p
    simp only [List.map_cons, List.mem_cons, h.mem, Forest.nodes, List.append_nil, List.mem_map]
    constructor
    · rintro (rfl | ⟨q, hq, rfl⟩)
      · exact ⟨[k], Or.inl rfl, rfl⟩
      · exact ⟨k :: q, Or.inr ⟨q, hq, rfl⟩, by simp⟩
    · rintro ⟨q, (rfl | ⟨q', hq', rfl⟩), rfl⟩
      · exact Or.inl rfl
      · exact Or.inr ⟨q', hq', by simp⟩
  · -- parentsFirst
    simp only [List.map_cons, parentsFirst, List.dropLast_concat, beq_self_eq_true, Bool.true_or, Bool.true_and,
      List.nil_append]
    exact parentsFirst_mono h.pf (Or.inr (by simp)) (by simp)
  · -- registered
    intro e he
    simp only [List.mem_cons] at he
    rcases he with rfl | he
    · exact ⟨[k], rfl, by simpa [SForest.walk] using hf⟩
    · obtain ⟨rel, h1, h2⟩ := h.reg e he
      simp only at h1 h2
      cases rel with
      | nil => simp [SForest.walk] at h2
      | cons x rel =>
        refine ⟨k :: x :: rel, by simp [h1], ?_⟩
        rw [walk_cons_cons, hf]
        exact h2

theorem enterDest_bind_ok {sc sc' : Scope} {k : Nat} {d : SPath} {T : Forest} {ents : List Found}
    (he : sc.enter k = some sc') (h : enterDest sc (k :: d) = .ok (T, ents)) :
    ∃ T' ents', enterDest sc' d = .ok (T', ents') ∧ T = .cons k T' .nil ∧
      ents = (⟨sc'.owner.getD default, sc'.states, sc'.pre⟩ : Found) :: ents' := by
  simp only [enterDest, he] at h
  cases hr : enterDest sc' d with
  | ok r =>
    rw [hr] at h
    simp only [PR.bind, PR.ok.injEq, Prod.mk.injEq] at h
    exact ⟨r.1, r.2, rfl, h.1.symm, h.2.symm⟩
  | err e => rw [hr] at h; simp [PR.bind] at h
  | oof => rw [hr] at h; simp [PR.bind] at h

theorem enterDest_spec_aux : ∀ (dst : SPath) (sc : Scope), ScopeOK sc → ∀ (T : Forest) (ents : List Found),
    enterDest sc dst = .ok (T, ents) → shapeOK sc T dst ∧ EnterOK sc T ents := by
  intro dst
  induction dst with
  | nil =>
    intro sc hsc T ents h
    simp only [enterDest] at h
    exact enterInitial_spec sc hsc T ents h
  | cons k d ih =>
    intro sc hsc T ents h
    cases he : sc.enter k with
    | none => simp [enterDest, he] at h
    | some sc' =>
      obtain ⟨T', ents', h1, rfl, rfl⟩ := enterDest_bind_ok he h
      obtain ⟨hs, hok⟩ := ih sc' (ScopeOK_enter hsc.wf he) T' ents' h1
      exact ⟨⟨T', rfl⟩, enterDest_cons_step hsc.wf he hs hok⟩

theorem enterDest_no_oof_aux : ∀ (dst : SPath) (sc : Scope), sc.states.WF = true → (dst = [] → sc.initial.Nodup) →
    enterDest sc dst ≠ .oof := by
  intro dst
  induction dst with
  | nil => intro sc hwf hnd; simp only [enterDest]; exact enterInitial_ok sc hwf (hnd rfl)
  | cons k d ih =>
    intro sc hwf _
    simp only [enterDest]
    cases he : sc.enter k with
    | none => simp
    | some sc' =>
      have hsc' := ScopeOK_enter hwf he
      have := ih sc' hsc'.wf (fun _ => hsc'.nodup)
      simp only
      cases hr : enterDest sc' d with
      | ok r => simp [PR.bind]
      | err e => simp [PR.bind]
      | oof => exact absurd hr this

end Enter
open Enter

/-- the `states` dictionary of a scope reached by `walk` is well-formed if the starting one is -/
theorem Scope.walk_WF {sc sc' : Scope} {p : SPath} (h : sc.walk p = some sc') (hwf : sc.states.WF = true) :
    sc'.states.WF = true := by
  induction p generalizing sc with
  | nil => simp [Scope.walk] at h; subst h; exact hwf
  | cons k p ih =>
    simp only [Scope.walk] at h
    split at h
    · next sc1 he => exact ih h (ScopeOK_enter hwf he).wf
    · simp at h

/-- a scope reached by `walk` from a scope with well-formed `states` and a fitting `initial` has a fitting `initial` -/
theorem Scope.walk_OK {sc sc' : Scope} {p : SPath} (h : sc.walk p = some sc') (hsc : ScopeOK sc) : ScopeOK sc' := by
  induction p generalizing sc with
  | nil => simp [Scope.walk] at h; subst h; exact hsc
  | cons k p ih =>
    simp only [Scope.walk] at h
    split at h
    · next sc1 he => exact ih h (ScopeOK_enter hsc.wf he)
    · simp at h

/-- NOTE: the hypothesis `hi` was added.  Without it the statement is false for `dst = []` and a scope whose own
`initial` repeats a name (`initial = [1, 1, 1]` over the chain `1 → 2 → 3` runs out of the fuel `size + 1 = 4`). -/
theorem enterDest_no_oof (sc : Scope) (hwf : sc.states.WF = true) (dst : SPath)
    (hi : dst = [] → sc.initial.Nodup) : enterDest sc dst ≠ .oof :=
  enterDest_no_oof_aux dst sc hwf hi

/-- **what `_enter_nested` enters** (destination `d0 :: dr` relative to the scope `sc`) -/
theorem enterDest_spec (sc : Scope) (hwf : sc.states.WF = true) (d0 : Nat) (dr : SPath) (T : Forest) (ents : List Found)
    (h : enterDest sc (d0 :: dr) = .ok (T, ents)) :
    ∃ v, T = .cons d0 v .nil ∧ ConfOK sc.states T = true ∧
      (ents.map (·.path)).Nodup ∧
      (∀ p, p ∈ ents.map (·.path) ↔ ∃ q ∈ T.nodes, p = sc.pre ++ q) ∧
      parentsFirst sc.pre [] (ents.map (·.path)) = true ∧
      (∀ e ∈ ents, ∃ rel, e.path = sc.pre ++ rel ∧ sc.states.walk rel = some (e.d, e.kids)) := by
  cases he : sc.enter d0 with
  | none => simp [enterDest, he] at h
  | some sc' =>
    obtain ⟨T', ents', h1, rfl, rfl⟩ := enterDest_bind_ok he h
    obtain ⟨hs, hok⟩ := enterDest_spec_aux dr sc' (ScopeOK_enter hwf he) T' ents' h1
    have := enterDest_cons_step hwf he hs hok
    exact ⟨T', rfl, this.conf, this.nodup, this.mem, this.pf, this.reg⟩

/-- the machine's own scope (no owner, so no `initial`) fits -/
theorem ScopeOK_root (cfg : NCfg) (hwf : cfg.states.WF = true) : ScopeOK cfg.root :=
  ⟨hwf, by simp [Scope.initial, NCfg.root], by simp [Scope.initial, NCfg.root],
    Or.inl (by simp [Scope.initial, NCfg.root])⟩

/-- `enterRoot` never runs out of fuel from a fitting scope -/
theorem enterRoot_no_oof (sc : Scope) (hsc : ScopeOK sc) (rt dst : SPath) : enterRoot sc rt dst ≠ .oof := by
  rw [enterRoot_eq]
  cases h : sc.walk rt with
  | none => simp
  | some sc' =>
    have := Scope.walk_OK h hsc
    exact enterDest_no_oof sc' this.wf dst (fun _ => this.nodup)

end TM
