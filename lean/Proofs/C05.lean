/-
  Proofs/C05.lean — simulation between the engine model in queued mode and the abstract queue
  acceptor `C05.busy`.
-/
import Model.Spec.C05

namespace TM
open C05

/-- `(tag, model)` of a queue entry `(model, event, tag)` -/
def key (e : Nat × Nat × Nat) : Nat × Nat := (e.2.2, e.1)

/-- re-entrant commands the theorem covers: trigger and remove_model (any model, any event name) -/
def CmdOK : Cmd → Prop
  | .trigger _ _ => True
  | .removeModel _ => True
  | _ => False

def CmdsOK (sc : Script) : Prop := ∀ c k, ∀ cmd ∈ (sc c k).cmds, CmdOK cmd

/-- tags in the queue are pairwise distinct and already allocated -/
structure TagsOK (s : St) : Prop where
  nodup : (s.queue.map (·.2.2)).Nodup
  lt : ∀ e ∈ s.queue, e.2.2 < s.nextTag

/-- `seg` moves the acceptor from `σ` to `σ'` -/
def Adv (fin0 : Nat) (σ : Q) (seg : List Item) (σ' : Q) : Prop :=
  ∀ rest, busy fin0 σ (seg ++ rest) = busy fin0 σ' rest

theorem Adv.refl (fin0 : Nat) (σ : Q) : Adv fin0 σ [] σ := fun _ => rfl
theorem Adv.trans {fin0 : Nat} {a b c : Q} {s1 s2 : List Item} (h1 : Adv fin0 a s1 b) (h2 : Adv fin0 b s2 c) :
    Adv fin0 a (s1 ++ s2) c := by
  intro rest; rw [List.append_assoc, h1, h2]

/-- outcome predicate for engine functions: whatever they append advances the acceptor -/
def Post {α} (fin0 : Nat) (Pok Perr : Q → St → Prop) (σ : Q) (s : St) : R α → Prop
  | .oof => True
  | .ok _ s' => ∃ σ' seg, s'.log = s.log ++ seg ∧ Adv fin0 σ seg σ' ∧ σ'.owner = σ.owner ∧ Pok σ' s'
  | .err _ s' => ∃ σ' seg, s'.log = s.log ++ seg ∧ Adv fin0 σ seg σ' ∧ σ'.owner = σ.owner ∧ Perr σ' s'

theorem Post.bind {α β} {fin0 : Nat} {P Pok Perr : Q → St → Prop} {σ : Q} {s : St} {r : R α} {f : α → St → R β}
    (h : Post fin0 P Perr σ s r)
    (hf : ∀ a σ1 s1, P σ1 s1 → Post fin0 Pok Perr σ1 s1 (f a s1)) :
    Post fin0 Pok Perr σ s (r.bind f) := by
  cases r with
  | oof => trivial
  | err e s1 => exact h
  | ok a s1 =>
    obtain ⟨σ1, seg1, l1, a1, o1, p1⟩ := h
    have h2 := hf a σ1 s1 p1
    simp only [Res.bind]
    cases hr : f a s1 with
    | oof => trivial
    | ok b s2 =>
      rw [hr] at h2
      obtain ⟨σ2, seg2, l2, a2, o2, p2⟩ := h2
      exact ⟨σ2, seg1 ++ seg2, by rw [l2, l1, List.append_assoc], a1.trans a2, o2.trans o1, p2⟩
    | err e s2 =>
      rw [hr] at h2
      obtain ⟨σ2, seg2, l2, a2, o2, p2⟩ := h2
      exact ⟨σ2, seg1 ++ seg2, by rw [l2, l1, List.append_assoc], a1.trans a2, o2.trans o1, p2⟩

theorem Post.weaken {α} {fin0 : Nat} {Pok Perr Pok' Perr' : Q → St → Prop} {σ : Q} {s : St} {r : R α}
    (h : Post fin0 Pok Perr σ s r) (h1 : ∀ a b, Pok a b → Pok' a b) (h2 : ∀ a b, Perr a b → Perr' a b) :
    Post fin0 Pok' Perr' σ s r := by
  cases r with
  | oof => trivial
  | ok a s1 => obtain ⟨σ1, seg, l, a, o, p⟩ := h; exact ⟨σ1, seg, l, a, o, h1 _ _ p⟩
  | err e s1 => obtain ⟨σ1, seg, l, a, o, p⟩ := h; exact ⟨σ1, seg, l, a, o, h2 _ _ p⟩

/-- inside the block of the event `x` (the model's queue head), before its first finalize callback:
the acceptor either is in step, or still shows the completed previous head (it pops lazily, at the
first callback of the next event) -/
structure Blk (x : Ctx) (σ : Q) (s : St) : Prop where
  head : (s.queue.map key).head? = some (x.tag, x.model)
  tags : TagsOK s
  rel : (s.queue.map key = σ.q ∧ σ.fin = false) ∨
        (σ.fin = true ∧ ∃ h, h.1 ≠ x.tag ∧ σ.q = h :: s.queue.map key)

/-- in step, inside the block of `x` (after at least one of its callbacks has started) -/
structure Syn (x : Ctx) (fin : Bool) (σ : Q) (s : St) : Prop where
  head : (s.queue.map key).head? = some (x.tag, x.model)
  tags : TagsOK s
  rel : s.queue.map key = σ.q
  fin : σ.fin = fin

theorem Syn.toBlk {x : Ctx} {σ : Q} {s : St} (h : Syn x false σ s) : Blk x σ s :=
  ⟨h.head, h.tags, Or.inl ⟨h.rel, h.fin⟩⟩

/-! ### single-item advances of the acceptor -/

theorem adv_call_sync (fin0 : Nat) (σ : Q) (sl : Slot) (c m t st : Nat) (rest : List (Nat × Nat))
    (hq : σ.q = (t, m) :: rest) (hf : σ.fin = false) :
    Adv fin0 σ [.call sl c m t st] { σ with fin := decide (sl = .finalize ∧ c = fin0) } := by
  intro l
  simp [busy, hq, hf]

theorem adv_call_lag (fin0 : Nat) (σ : Q) (sl : Slot) (c m t st : Nat) (h : Nat × Nat) (rest : List (Nat × Nat))
    (hq : σ.q = h :: (t, m) :: rest) (hf : σ.fin = true) (hne : h.1 ≠ t) :
    Adv fin0 σ [.call sl c m t st] { σ with q := (t, m) :: rest, fin := decide (sl = .finalize ∧ c = fin0) } := by
  intro l
  obtain ⟨h1, h2⟩ := h
  simp at hne
  simp [busy, hq, hf, hne]

theorem adv_call_fin (fin0 : Nat) (σ : Q) (c m t st : Nat) (rest : List (Nat × Nat))
    (hq : σ.q = (t, m) :: rest) (hf : σ.fin = true) (hc : c ≠ fin0) :
    Adv fin0 σ [.call .finalize c m t st] σ := by
  intro l
  simp [busy, hq, hf, hc]

theorem adv_done (fin0 : Nat) (σ : Q) (c : Nat) (o : Out) : Adv fin0 σ [.done c o] σ := by
  intro l; simp [busy]

theorem adv_deferred (fin0 : Nat) (σ : Q) (t m ev : Nat) :
    Adv fin0 σ [.api 0 t m ev, .ret t true] { σ with q := σ.q ++ [(t, m)] } := by
  intro l; simp [busy]

theorem adv_refused (fin0 : Nat) (σ : Q) (t m ev : Nat) : Adv fin0 σ [.api 0 t m ev, .ret t false] σ := by
  intro l; simp [busy]

theorem adv_refused_exc (fin0 : Nat) (σ : Q) (t m ev : Nat) (e : Exc) :
    Adv fin0 σ [.api 0 t m ev, .raised t e] σ := by
  intro l; simp [busy]

theorem adv_remove (fin0 : Nat) (σ : Q) (r m : Nat) (b : Bool) (h : Nat × Nat) (rest : List (Nat × Nat))
    (hq : σ.q = h :: rest) :
    Adv fin0 σ [.api 3 r m 0, .ret r b] { σ with q := h :: rest.filter (fun e => e.2 != m) } := by
  intro l; simp [busy, hq]

theorem adv_remove_exc (fin0 : Nat) (σ : Q) (r m : Nat) (e : Exc) : Adv fin0 σ [.api 3 r m 0, .raised r e] σ := by
  intro l; simp [busy]

theorem Post.map {α β} {fin0 : Nat} {Pok Perr : Q → St → Prop} {σ : Q} {s : St} {r : R α} (f : α → β)
    (h : Post fin0 Pok Perr σ s r) : Post fin0 Pok Perr σ s (r.map f) := by
  cases r <;> exact h

/-- what re-entrant commands must guarantee while the machine is busy with the event `x` -/
def SubOK (fin0 : Nat) (sub : Sub) : Prop :=
  ∀ (x : Ctx) (f : Bool) (c : Cmd) (σ : Q) (s : St), CmdOK c → Syn x f σ s →
    Post fin0 (Syn x f) (Syn x f) σ s (sub c s)

theorem TagsOK.bump {s : St} (h : TagsOK s) (s' : St) (hq : s'.queue = s.queue) (hn : s'.nextTag = s.nextTag + 1) :
    TagsOK s' :=
  ⟨by rw [hq]; exact h.nodup, by rw [hq, hn]; intro e he; exact Nat.lt_succ_of_lt (h.lt e he)⟩

theorem Syn.emit {x : Ctx} {f : Bool} {σ : Q} {s : St} (h : Syn x f σ s) (i : Item) : Syn x f σ (s.emit i) :=
  ⟨h.head, ⟨h.tags.nodup, h.tags.lt⟩, h.rel, h.fin⟩

theorem head?_append_of_ne {α} {l : List α} (l' : List α) (h : l ≠ []) : (l ++ l').head? = l.head? := by
  cases l with
  | nil => exact absurd rfl h
  | cons a r => rfl

/-- In queued mode a trigger or remove_model issued while an event is in progress runs no callback:
it only edits the queue, exactly as the acceptor's queue is edited. Holds at every fuel level. -/
theorem subOK_runCmd (fin0 : Nat) (sc : Script) (cfg : Cfg) (qmax : Nat) (hq : cfg.queued = true) :
    ∀ n, SubOK fin0 (runCmd sc cfg qmax n) := by
  intro n x f c σ s hc hs
  cases n with
  | zero => trivial
  | succ n =>
    have hne : s.queue ≠ [] := by
      intro h0; have := hs.head; simp [h0] at this
    cases c with
    | trigger m ev =>
      show Post fin0 _ _ σ s ((apiTrigger (runCmd sc cfg qmax n) sc cfg qmax m ev s).map fun _ => ())
      apply Post.map
      -- the state after tag allocation and the `api` item
      let s1 : St := ({ s with nextTag := s.nextTag + 1 }).emit (.api 0 s.nextTag m ev)
      have hs1 : Syn x f σ s1 := ⟨hs.head, hs.tags.bump s1 rfl rfl, hs.rel, hs.fin⟩
      have refuse_exc : ∀ e, Post fin0 (Syn x f) (Syn x f) σ s
          (.err e (s1.emit (.raised s.nextTag e)) : R Bool) := fun e =>
        ⟨σ, [.api 0 s.nextTag m ev, .raised s.nextTag e], by simp [St.emit, s1], adv_refused_exc fin0 σ _ _ _ _, rfl,
          hs1.emit _⟩
      have refuse : Post fin0 (Syn x f) (Syn x f) σ s
          (.ok false (s1.emit (.ret s.nextTag false)) : R Bool) :=
        ⟨σ, [.api 0 s.nextTag m ev, .ret s.nextTag false], by simp [St.emit, s1], adv_refused fin0 σ _ _ _, rfl,
          hs1.emit _⟩
      unfold apiTrigger
      show Post fin0 _ _ σ s (match triggerByName _ sc cfg qmax m ev s.nextTag s1 with
        | .ok b s' => .ok b (s'.emit (.ret s.nextTag b))
        | .err e s' => .err e (s'.emit (.raised s.nextTag e))
        | .oof => .oof)
      unfold triggerByName
      by_cases hmod : (alookup m s1.mstate).isNone = true
      · simp only [hmod, if_true]; exact refuse_exc _
      · simp only [hmod]
        cases hev : cfg.event? ev with
        | none =>
          simp only [Bool.false_eq_true, if_false]
          cases cfg.state? (s1.stateOf m) with
          | none => exact refuse_exc _
          | some _ =>
            by_cases hig : ignoreInvalid cfg (s1.stateOf m) = true
            · simp only [hig, if_true]; exact refuse
            · simp only [hig]; exact refuse_exc _
        | some ts =>
          have hlen : (s1.queue ++ [(m, ev, s.nextTag)]).length > 1 := by
            have : s1.queue = s.queue := rfl
            rw [this]
            cases hqq : s.queue with
            | nil => exact absurd hqq hne
            | cons a r => simp
          simp only [Bool.false_eq_true, if_false, machineProcess, hq, Bool.not_true, hlen, if_true]
          refine ⟨{ σ with q := σ.q ++ [(s.nextTag, m)] }, [.api 0 s.nextTag m ev, .ret s.nextTag true],
            by simp [St.emit, s1], adv_deferred fin0 σ _ _ _, rfl, ?_⟩
          refine ⟨?_, ⟨?_, ?_⟩, ?_, hs.fin⟩
          · show ((s.queue ++ [(m, ev, s.nextTag)]).map key).head? = _
            rw [List.map_append, head?_append_of_ne _ (by simpa using hne)]
            exact hs.head
          · show ((s.queue ++ [(m, ev, s.nextTag)]).map (·.2.2)).Nodup
            rw [List.map_append, List.nodup_append]
            refine ⟨hs.tags.nodup, by simp, ?_⟩
            intro a ha b hb
            simp at hb
            subst hb
            obtain ⟨e, he, rfl⟩ := List.mem_map.mp ha
            exact Nat.ne_of_lt (hs.tags.lt e he)
          · intro e he
            show e.2.2 < s.nextTag + 1
            rcases List.mem_append.mp he with h1 | h1
            · exact Nat.lt_succ_of_lt (hs.tags.lt e h1)
            · simp at h1; subst h1; exact Nat.lt_succ_self _
          · show (s.queue ++ [(m, ev, s.nextTag)]).map key = σ.q ++ [(s.nextTag, m)]
            rw [List.map_append, hs.rel]; rfl
    | removeModel m =>
      show Post fin0 _ _ σ s (apiRemove m s)
      let s1 : St := ({ s with nextTag := s.nextTag + 1 }).emit (.api 3 s.nextTag m 0)
      have hs1 : Syn x f σ s1 := ⟨hs.head, hs.tags.bump s1 rfl rfl, hs.rel, hs.fin⟩
      unfold apiRemove
      show Post fin0 _ _ σ s (match removeModel m s1 with
        | .ok _ s' => .ok () (s'.emit (.ret s.nextTag true))
        | .err e s' => .err e (s'.emit (.raised s.nextTag e))
        | .oof => .oof)
      unfold removeModel
      by_cases hmem : m ∈ s1.models
      · simp only [hmem, if_true]
        cases hqq : s.queue with
        | nil => exact absurd hqq hne
        | cons h rest =>
          have : s1.queue = h :: rest := hqq
          simp only [this]
          have hσ : σ.q = key h :: rest.map key := by rw [← hs.rel, hqq]; rfl
          refine ⟨{ σ with q := key h :: (rest.map key).filter (fun e => e.2 != m) },
            [.api 3 s.nextTag m 0, .ret s.nextTag true], by simp [St.emit, s1],
            adv_remove fin0 σ _ m true (key h) (rest.map key) hσ, rfl, ?_⟩
          have hsub : (rest.filter (fun e => e.1 != m)).Sublist rest := List.filter_sublist
          refine ⟨?_, ⟨?_, ?_⟩, ?_, hs.fin⟩
          · have := hs.head; rw [hqq] at this
            show ((h :: rest.filter (fun e => e.1 != m)).map key).head? = _
            simpa using this
          · have := hs.tags.nodup; rw [hqq] at this
            show ((h :: rest.filter (fun e => e.1 != m)).map (·.2.2)).Nodup
            exact this.sublist ((List.Sublist.cons_cons h hsub).map _)
          · intro e he
            show e.2.2 < s.nextTag + 1
            have : e ∈ s.queue := by
              rw [hqq]
              rcases List.mem_cons.mp he with h1 | h1
              · subst h1; exact List.mem_cons_self ..
              · exact List.mem_cons_of_mem _ (hsub.subset h1)
            exact Nat.lt_succ_of_lt (hs.tags.lt e this)
          · show (h :: rest.filter (fun e => e.1 != m)).map key = key h :: (rest.map key).filter (fun e => e.2 != m)
            simp [List.filter_map, key, Function.comp_def]
      · simp only [hmem, if_false]
        exact ⟨σ, [.api 3 s.nextTag m 0, .raised s.nextTag .valueError], by simp [St.emit, s1],
          adv_remove_exc fin0 σ _ _ _, rfl, hs1.emit _⟩
    | addModel _ => exact absurd hc (by simp [CmdOK])
    | dispatch _ => exact absurd hc (by simp [CmdOK])
    | may _ _ => exact absurd hc (by simp [CmdOK])

theorem Blk.setState {x : Ctx} {σ : Q} {s : St} (h : Blk x σ s) (m st : Nat) : Blk x σ (s.setState m st) :=
  ⟨h.head, ⟨h.tags.nodup, h.tags.lt⟩, h.rel⟩

theorem post_here {α} (fin0 : Nat) (x : Ctx) (σ : Q) (s : St) (hb : Blk x σ s) (a : α) :
    Post fin0 (Blk x) (Blk x) σ s (.ok a s : R α) := ⟨σ, [], by simp, Adv.refl fin0 σ, rfl, hb⟩

theorem post_err {α} (fin0 : Nat) (x : Ctx) (σ : Q) (s : St) (hb : Blk x σ s) (e : Exc) :
    Post fin0 (Blk x) (Blk x) σ s (.err e s : R α) := ⟨σ, [], by simp, Adv.refl fin0 σ, rfl, hb⟩

section Block
variable (fin0 : Nat) (sub : Sub) (sc : Script) (hsub : SubOK fin0 sub) (hcmds : CmdsOK sc)
include hsub hcmds

theorem runCmds_post (x : Ctx) (f : Bool) :
    ∀ (cmds : List Cmd), (∀ c ∈ cmds, CmdOK c) → ∀ (σ : Q) (s : St), Syn x f σ s →
      Post fin0 (Syn x f) (Syn x f) σ s (runCmds sub cmds s) := by
  intro cmds
  induction cmds with
  | nil => intro _ σ s hs; exact ⟨σ, [], by simp, Adv.refl fin0 σ, rfl, hs⟩
  | cons c cs ih =>
    intro hc σ s hs
    simp only [runCmds]
    exact Post.bind (hsub x f c σ s (hc c (List.mem_cons_self ..)) hs)
      (fun _ σ1 s1 h1 => ih (fun c' h' => hc c' (List.mem_cons_of_mem _ h')) σ1 s1 h1)

/-- one callback invocation, given how the acceptor takes its `call` item -/
theorem invoke_post (x : Ctx) (f : Bool) (slot : Slot) (c : Nat) (σ σ1 : Q) (s : St)
    (hcall : Adv fin0 σ [.call slot c x.model x.tag (s.stateOf x.model)] σ1) (ho : σ1.owner = σ.owner)
    (h1 : ∀ s' : St, s'.queue = s.queue → s'.nextTag = s.nextTag → Syn x f σ1 s') :
    Post fin0 (Syn x f) (Syn x f) σ s (invoke sub sc slot x c s) := by
  let s2 : St := ({ s with counts := aset c (s.count c + 1) s.counts }).emit
    (.call slot c x.model x.tag (s.stateOf x.model))
  have hs2 : Syn x f σ1 s2 := h1 s2 rfl rfl
  have hr := runCmds_post fin0 sub sc hsub hcmds x f (sc c (s.count c)).cmds (hcmds c (s.count c)) σ1 s2 hs2
  unfold invoke
  show Post fin0 _ _ σ s (match runCmds sub (sc c (s.count c)).cmds s2 with
    | .ok _ s3 => (match (sc c (s.count c)).out with
      | .ret b => .ok b (s3.emit (.done c (.ret b)))
      | .raise e => .err e (s3.emit (.done c (.raise e))))
    | .err e s3 => .err e (s3.emit (.done c (.raise e)))
    | .oof => .oof)
  cases hrc : runCmds sub (sc c (s.count c)).cmds s2 with
  | oof => trivial
  | ok u s3 =>
    rw [hrc] at hr
    obtain ⟨σ3, seg, l3, a3, o3, p3⟩ := hr
    have hl : s3.log = s.log ++ ([.call slot c x.model x.tag (s.stateOf x.model)] ++ seg) := by
      rw [l3]; simp [s2, St.emit]
    cases (sc c (s.count c)).out with
    | ret b =>
      exact ⟨σ3, ([.call slot c x.model x.tag (s.stateOf x.model)] ++ seg) ++ [.done c (.ret b)],
        by simp [St.emit, hl], (hcall.trans a3).trans (adv_done fin0 σ3 _ _), o3.trans ho, p3.emit _⟩
    | raise e =>
      exact ⟨σ3, ([.call slot c x.model x.tag (s.stateOf x.model)] ++ seg) ++ [.done c (.raise e)],
        by simp [St.emit, hl], (hcall.trans a3).trans (adv_done fin0 σ3 _ _), o3.trans ho, p3.emit _⟩
  | err e s3 =>
    rw [hrc] at hr
    obtain ⟨σ3, seg, l3, a3, o3, p3⟩ := hr
    have hl : s3.log = s.log ++ ([.call slot c x.model x.tag (s.stateOf x.model)] ++ seg) := by
      rw [l3]; simp [s2, St.emit]
    exact ⟨σ3, ([.call slot c x.model x.tag (s.stateOf x.model)] ++ seg) ++ [.done c (.raise e)],
      by simp [St.emit, hl], (hcall.trans a3).trans (adv_done fin0 σ3 _ _), o3.trans ho, p3.emit _⟩

/-- a callback of a stage before finalize, anywhere in the block -/
theorem invoke_blk (x : Ctx) (slot : Slot) (hslot : slot ≠ .finalize) (c : Nat) (σ : Q) (s : St) (hb : Blk x σ s) :
    Post fin0 (Syn x false) (Syn x false) σ s (invoke sub sc slot x c s) := by
  have hd : decide (slot = Slot.finalize ∧ c = fin0) = false := by simp [hslot]
  cases hq : s.queue.map key with
  | nil => have := hb.head; simp [hq] at this
  | cons k rest =>
    have hk : k = (x.tag, x.model) := by have := hb.head; simpa [hq] using this
    subst hk
    rcases hb.rel with ⟨hr, hf⟩ | ⟨hf, h, hne, hr⟩
    · refine invoke_post fin0 sub sc hsub hcmds x false slot c σ { σ with fin := false } s ?_ rfl ?_
      · have := adv_call_sync fin0 σ slot c x.model x.tag (s.stateOf x.model) rest (by rw [← hr, hq]) hf
        rwa [hd] at this
      · intro s' h1 h2
        exact ⟨by rw [h1]; exact hb.head, ⟨by rw [h1]; exact hb.tags.nodup, by rw [h1, h2]; exact hb.tags.lt⟩,
          by rw [h1]; exact hr, rfl⟩
    · refine invoke_post fin0 sub sc hsub hcmds x false slot c σ
        { σ with q := (x.tag, x.model) :: rest, fin := false } s ?_ rfl ?_
      · have := adv_call_lag fin0 σ slot c x.model x.tag (s.stateOf x.model) h rest (by rw [hr, hq]) hf hne
        rwa [hd] at this
      · intro s' h1 h2
        exact ⟨by rw [h1]; exact hb.head, ⟨by rw [h1]; exact hb.tags.nodup, by rw [h1, h2]; exact hb.tags.lt⟩,
          by rw [h1]; exact hq, rfl⟩

/-- the first finalize callback -/
theorem invoke_fin0 (x : Ctx) (σ : Q) (s : St) (hb : Blk x σ s) :
    Post fin0 (Syn x true) (Syn x true) σ s (invoke sub sc .finalize x fin0 s) := by
  have hd : decide (Slot.finalize = Slot.finalize ∧ fin0 = fin0) = true := by simp
  cases hq : s.queue.map key with
  | nil => have := hb.head; simp [hq] at this
  | cons k rest =>
    have hk : k = (x.tag, x.model) := by have := hb.head; simpa [hq] using this
    subst hk
    rcases hb.rel with ⟨hr, hf⟩ | ⟨hf, h, hne, hr⟩
    · refine invoke_post fin0 sub sc hsub hcmds x true .finalize fin0 σ { σ with fin := true } s ?_ rfl ?_
      · have := adv_call_sync fin0 σ .finalize fin0 x.model x.tag (s.stateOf x.model) rest (by rw [← hr, hq]) hf
        rwa [hd] at this
      · intro s' h1 h2
        exact ⟨by rw [h1]; exact hb.head, ⟨by rw [h1]; exact hb.tags.nodup, by rw [h1, h2]; exact hb.tags.lt⟩,
          by rw [h1]; exact hr, rfl⟩
    · refine invoke_post fin0 sub sc hsub hcmds x true .finalize fin0 σ
        { σ with q := (x.tag, x.model) :: rest, fin := true } s ?_ rfl ?_
      · have := adv_call_lag fin0 σ .finalize fin0 x.model x.tag (s.stateOf x.model) h rest (by rw [hr, hq]) hf hne
        rwa [hd] at this
      · intro s' h1 h2
        exact ⟨by rw [h1]; exact hb.head, ⟨by rw [h1]; exact hb.tags.nodup, by rw [h1, h2]; exact hb.tags.lt⟩,
          by rw [h1]; exact hq, rfl⟩

/-- a later finalize callback -/
theorem invoke_finRest (x : Ctx) (c : Nat) (hc : c ≠ fin0) (σ : Q) (s : St) (hs : Syn x true σ s) :
    Post fin0 (Syn x true) (Syn x true) σ s (invoke sub sc .finalize x c s) := by
  cases hq : s.queue.map key with
  | nil => have := hs.head; simp [hq] at this
  | cons k rest =>
    have hk : k = (x.tag, x.model) := by have := hs.head; simpa [hq] using this
    subst hk
    refine invoke_post fin0 sub sc hsub hcmds x true .finalize c σ σ s ?_ rfl ?_
    · exact adv_call_fin fin0 σ c x.model x.tag (s.stateOf x.model) rest (by rw [← hs.rel, hq]) hs.fin hc
    · intro s' h1 h2
      exact ⟨by rw [h1]; exact hs.head, ⟨by rw [h1]; exact hs.tags.nodup, by rw [h1, h2]; exact hs.tags.lt⟩,
        by rw [h1]; exact hs.rel, hs.fin⟩

theorem callbacks_blk (x : Ctx) (slot : Slot) (hslot : slot ≠ .finalize) :
    ∀ (cbs : List Nat) (σ : Q) (s : St), Blk x σ s →
      Post fin0 (Blk x) (Blk x) σ s (callbacks sub sc slot x cbs s) := by
  intro cbs
  induction cbs with
  | nil => intro σ s hb; exact ⟨σ, [], by simp, Adv.refl fin0 σ, rfl, hb⟩
  | cons c cs ih =>
    intro σ s hb
    simp only [callbacks]
    refine Post.bind (P := Syn x false) ?_ (fun _ σ1 s1 h1 => ih σ1 s1 h1.toBlk)
    exact (invoke_blk fin0 sub sc hsub hcmds x slot hslot c σ s hb).weaken (fun _ _ h => h) (fun _ _ h => h.toBlk)

theorem evalConds_blk (x : Ctx) :
    ∀ (cs : List Cond) (σ : Q) (s : St), Blk x σ s →
      Post fin0 (Blk x) (Blk x) σ s (evalConds sub sc x cs s) := by
  intro cs
  induction cs with
  | nil => intro σ s hb; exact ⟨σ, [], by simp, Adv.refl fin0 σ, rfl, hb⟩
  | cons c cs ih =>
    intro σ s hb
    simp only [evalConds]
    have hslot : (if c.target then Slot.condition else Slot.unless) ≠ Slot.finalize := by
      cases c.target <;> simp
    refine Post.bind (P := Syn x false) ?_ ?_
    · exact (invoke_blk fin0 sub sc hsub hcmds x _ hslot c.cb σ s hb).weaken (fun _ _ h => h) (fun _ _ h => h.toBlk)
    · intro b σ1 s1 h1
      by_cases hbt : b = c.target
      · simp only [hbt, if_true]; exact ih σ1 s1 h1.toBlk
      · simp only [hbt, if_false]; exact ⟨σ1, [], by simp, Adv.refl fin0 σ1, rfl, h1.toBlk⟩

theorem changeState_blk (cfg : Cfg) (x : Ctx) (t : Trans) (dst : Nat) (σ : Q) (s : St) (hb : Blk x σ s) :
    Post fin0 (Blk x) (Blk x) σ s (changeState sub sc cfg x t dst s) := by
  unfold changeState
  cases cfg.state? (s.stateOf x.model) with
  | none => exact post_err fin0 x σ s hb _
  | some src =>
    refine Post.bind (callbacks_blk fin0 sub sc hsub hcmds x .onExit (by simp) _ σ s hb) ?_
    intro _ σ1 s1 h1
    cases cfg.state? dst with
    | none => exact post_err fin0 x σ1 s1 h1 _
    | some d =>
      refine Post.bind (callbacks_blk fin0 sub sc hsub hcmds x .onEnter (by simp) _ σ1 _ (h1.setState _ _)) ?_
      intro _ σ2 s2 h2
      by_cases hf : d.final = true
      · simp only [hf, if_true]; exact callbacks_blk fin0 sub sc hsub hcmds x .onFinal (by simp) _ σ2 s2 h2
      · simp only [hf]; exact post_here fin0 x σ2 s2 h2 ()

theorem execute_blk (cfg : Cfg) (x : Ctx) (t : Trans) (σ : Q) (s : St) (hb : Blk x σ s) :
    Post fin0 (Blk x) (Blk x) σ s (execute sub sc cfg x t s) := by
  unfold execute
  refine Post.bind (callbacks_blk fin0 sub sc hsub hcmds x .prepare (by simp) _ σ s hb) ?_
  intro _ σ1 s1 h1
  refine Post.bind (evalConds_blk fin0 sub sc hsub hcmds x _ σ1 s1 h1) ?_
  intro ok σ2 s2 h2
  cases ok with
  | false => exact post_here fin0 x σ2 s2 h2 false
  | true =>
    simp only [Bool.not_true, Bool.false_eq_true, if_false]
    refine Post.bind (callbacks_blk fin0 sub sc hsub hcmds x .beforeSC (by simp) _ σ2 s2 h2) ?_
    intro _ σ3 s3 h3
    refine Post.bind (callbacks_blk fin0 sub sc hsub hcmds x .before (by simp) _ σ3 s3 h3) ?_
    intro _ σ4 s4 h4
    refine Post.bind (P := Blk x) ?_ ?_
    · cases t.dest with
      | none => exact post_here fin0 x σ4 s4 h4 ()
      | some d => exact changeState_blk fin0 sub sc hsub hcmds cfg x t d σ4 s4 h4
    · intro _ σ5 s5 h5
      refine Post.bind (callbacks_blk fin0 sub sc hsub hcmds x .after (by simp) _ σ5 s5 h5) ?_
      intro _ σ6 s6 h6
      refine Post.bind (callbacks_blk fin0 sub sc hsub hcmds x .afterSC (by simp) _ σ6 s6 h6) ?_
      intro _ σ7 s7 h7
      exact post_here fin0 x σ7 s7 h7 true

theorem tryTransitions_blk (cfg : Cfg) (x : Ctx) :
    ∀ (ts : List Trans) (σ : Q) (s : St), Blk x σ s →
      Post fin0 (Blk x) (Blk x) σ s (tryTransitions sub sc cfg x ts s) := by
  intro ts
  induction ts with
  | nil => intro σ s hb; exact post_here fin0 x σ s hb false
  | cons t ts ih =>
    intro σ s hb
    simp only [tryTransitions]
    refine Post.bind (execute_blk fin0 sub sc hsub hcmds cfg x t σ s hb) ?_
    intro ok σ1 s1 h1
    cases ok with
    | true => exact post_here fin0 x σ1 s1 h1 true
    | false => exact ih σ1 s1 h1

theorem finRest_post (x : Ctx) :
    ∀ (cbs : List Nat), fin0 ∉ cbs → ∀ (σ : Q) (s : St), Syn x true σ s →
      Post fin0 (Syn x true) (Syn x true) σ s (callbacks sub sc .finalize x cbs s) := by
  intro cbs
  induction cbs with
  | nil => intro _ σ s hs; exact ⟨σ, [], by simp, Adv.refl fin0 σ, rfl, hs⟩
  | cons c cs ih =>
    intro hn σ s hs
    simp only [callbacks]
    have hc : c ≠ fin0 := fun h => hn (h ▸ List.mem_cons_self ..)
    exact Post.bind (invoke_finRest fin0 sub sc hsub hcmds x c hc σ s hs)
      (fun _ σ1 s1 h1 => ih (fun h => hn (List.mem_cons_of_mem _ h)) σ1 s1 h1)

/-- the `finally:` block: afterwards the acceptor knows the event has reached its finalize stage -/
theorem runFinalize_post (cfg : Cfg) (rest : List Nat) (hfin : cfg.finalize = fin0 :: rest) (hnot : fin0 ∉ rest)
    (x : Ctx) (σ : Q) (s : St) (hb : Blk x σ s) :
    match runFinalize sub sc cfg x s with
    | none => True
    | some s' => ∃ σ' seg, s'.log = s.log ++ seg ∧ Adv fin0 σ seg σ' ∧ σ'.owner = σ.owner ∧ Syn x true σ' s' := by
  have h : Post fin0 (Syn x true) (Syn x true) σ s (callbacks sub sc .finalize x cfg.finalize s) := by
    rw [hfin]
    simp only [callbacks]
    exact Post.bind (invoke_fin0 fin0 sub sc hsub hcmds x σ s hb)
      (fun _ σ1 s1 h1 => finRest_post fin0 sub sc hsub hcmds x rest hnot σ1 s1 h1)
  unfold runFinalize
  cases hr : callbacks sub sc .finalize x cfg.finalize s with
  | oof => trivial
  | ok u s' => rw [hr] at h; exact h
  | err e s' => rw [hr] at h; exact h

theorem guarded_post (cfg : Cfg) (rest : List Nat) (hfin : cfg.finalize = fin0 :: rest) (hnot : fin0 ∉ rest)
    (x : Ctx) (σ : Q) (s : St) (body : R Bool) (hbody : Post fin0 (Blk x) (Blk x) σ s body) :
    Post fin0 (Syn x true) (Syn x true) σ s (guarded sub sc cfg x body) := by
  have hafter : Post fin0 (Blk x) (Blk x) σ s (exceptClause sub sc cfg x body) := by
    cases body with
    | oof => trivial
    | ok b s1 => exact hbody
    | err e s1 =>
      unfold exceptClause
      cases hex : cfg.onException with
      | nil => exact hbody
      | cons h0 hs =>
        obtain ⟨σ1, seg1, l1, a1, o1, p1⟩ := hbody
        have h2 := callbacks_blk fin0 sub sc hsub hcmds x .onException (by simp) (h0 :: hs) σ1 s1 p1
        have h3 : Post fin0 (Blk x) (Blk x) σ1 s1
            ((callbacks sub sc .onException x (h0 :: hs) s1).bind fun _ s' => (.ok false s' : R Bool)) :=
          Post.bind h2 (fun _ σ2 s2 h => post_here fin0 x σ2 s2 h false)
        show Post fin0 (Blk x) (Blk x) σ s
          ((callbacks sub sc .onException x (h0 :: hs) s1).bind fun _ s' => (.ok false s' : R Bool))
        cases hr : (callbacks sub sc .onException x (h0 :: hs) s1).bind fun _ s' => (.ok false s' : R Bool) with
        | oof => trivial
        | ok b s2 =>
          rw [hr] at h3
          obtain ⟨σ2, seg2, l2, a2, o2, p2⟩ := h3
          exact ⟨σ2, seg1 ++ seg2, by rw [l2, l1, List.append_assoc], a1.trans a2, o2.trans o1, p2⟩
        | err e2 s2 =>
          rw [hr] at h3
          obtain ⟨σ2, seg2, l2, a2, o2, p2⟩ := h3
          exact ⟨σ2, seg1 ++ seg2, by rw [l2, l1, List.append_assoc], a1.trans a2, o2.trans o1, p2⟩
  unfold guarded
  generalize exceptClause sub sc cfg x body = ab at hafter
  cases ab with
  | oof => trivial
  | ok b s1 =>
    obtain ⟨σ1, seg1, l1, a1, o1, p1⟩ := hafter
    have hf := runFinalize_post fin0 sub sc hsub hcmds cfg rest hfin hnot x σ1 s1 p1
    show Post fin0 _ _ σ s (match runFinalize sub sc cfg x s1 with
      | some s' => .ok b s'
      | none => .oof)
    cases hr : runFinalize sub sc cfg x s1 with
    | none => trivial
    | some s2 =>
      rw [hr] at hf
      obtain ⟨σ2, seg2, l2, a2, o2, p2⟩ := hf
      exact ⟨σ2, seg1 ++ seg2, by rw [l2, l1, List.append_assoc], a1.trans a2, o2.trans o1, p2⟩
  | err e s1 =>
    obtain ⟨σ1, seg1, l1, a1, o1, p1⟩ := hafter
    have hf := runFinalize_post fin0 sub sc hsub hcmds cfg rest hfin hnot x σ1 s1 p1
    show Post fin0 _ _ σ s (match runFinalize sub sc cfg x s1 with
      | some s' => .err e s'
      | none => .oof)
    cases hr : runFinalize sub sc cfg x s1 with
    | none => trivial
    | some s2 =>
      rw [hr] at hf
      obtain ⟨σ2, seg2, l2, a2, o2, p2⟩ := hf
      exact ⟨σ2, seg1 ++ seg2, by rw [l2, l1, List.append_assoc], a1.trans a2, o2.trans o1, p2⟩

/-- `Event._trigger` for the queue head: if it returns, the event has been finalized; if it raises,
whatever state the acceptor is in, the owner is unchanged (the queue is about to be cleared). -/
theorem eventTrigger_post (cfg : Cfg) (rest : List Nat) (hfin : cfg.finalize = fin0 :: rest) (hnot : fin0 ∉ rest)
    (ts : List Trans) (x : Ctx) (σ : Q) (s : St) (hb : Blk x σ s) :
    Post fin0 (Syn x true) (fun _ _ => True) σ s (eventTrigger sub sc cfg ts x s) := by
  cases hst : cfg.state? (s.stateOf x.model) with
  | none =>
    simp only [eventTrigger, hst]
    exact ⟨σ, [], by simp, Adv.refl fin0 σ, rfl, trivial⟩
  | some sd =>
    simp only [eventTrigger, hst]
    refine (guarded_post fin0 sub sc hsub hcmds cfg rest hfin hnot x σ s _ ?_).weaken (fun _ _ h => h) (fun _ _ _ => trivial)
    cases candidates ts (s.stateOf x.model) with
    | none =>
      by_cases hig : ignoreInvalid cfg (s.stateOf x.model) = true
      · simp only [hig, if_true]; exact post_here fin0 x σ s hb false
      · simp only [hig]; exact post_err fin0 x σ s hb _
    | some cs =>
      unfold eventProcess
      exact Post.bind (callbacks_blk fin0 sub sc hsub hcmds x .prepareEvent (by simp) _ σ s hb)
        (fun _ σ1 s1 h1 => tryTransitions_blk fin0 sub sc hsub hcmds cfg x cs σ1 s1 h1)

end Block

/-- precondition of the drain loop: the acceptor is in step with a fresh head, or still shows the
finalized previous head -/
def DrainPre (σ : Q) (s : St) : Prop :=
  TagsOK s ∧ ((s.queue.map key = σ.q ∧ σ.fin = false ∧ s.queue ≠ []) ∨
              (σ.fin = true ∧ ∃ h, σ.q = h :: s.queue.map key ∧ ∀ e ∈ s.queue, e.2.2 ≠ h.1))

theorem drain_post (fin0 : Nat) (sc : Script) (cfg : Cfg) (sub : Sub) (hsub : SubOK fin0 sub) (hcmds : CmdsOK sc)
    (rest : List Nat) (hfin : cfg.finalize = fin0 :: rest) (hnot : fin0 ∉ rest) :
    ∀ (n : Nat) (σ : Q) (s : St), DrainPre σ s →
      Post fin0 (fun σ' s' => s'.queue = [] ∧ σ'.fin = true ∧ σ'.q.length = 1) (fun _ s' => s'.queue = [])
        σ s (drain sub sc cfg n s) := by
  intro n
  induction n with
  | zero => intro σ s _; trivial
  | succ n ih =>
    intro σ s ⟨htags, hrel⟩
    cases hq : s.queue with
    | nil =>
      simp only [drain, hq]
      rcases hrel with ⟨_, _, hne⟩ | ⟨hf, h, hσ, _⟩
      · exact absurd hq hne
      · exact ⟨σ, [], by simp, Adv.refl fin0 σ, rfl, hq, hf, by rw [hσ, hq]; rfl⟩
    | cons e0 r0 =>
      obtain ⟨m, ev, tag⟩ := e0
      simp only [drain, hq]
      have hb : Blk ⟨m, tag⟩ σ s := by
        refine ⟨by rw [hq]; rfl, htags, ?_⟩
        rcases hrel with ⟨h1, h2, _⟩ | ⟨hf, h, hσ, hne⟩
        · exact Or.inl ⟨h1, h2⟩
        · exact Or.inr ⟨hf, h, (hne (m, ev, tag) (by rw [hq]; exact List.mem_cons_self ..)).symm, hσ⟩
      have hp := eventTrigger_post fin0 sub sc hsub hcmds cfg rest hfin hnot ((cfg.event? ev).getD []) ⟨m, tag⟩ σ s hb
      cases hr : eventTrigger sub sc cfg ((cfg.event? ev).getD []) ⟨m, tag⟩ s with
      | oof => trivial
      | err e s1 =>
        rw [hr] at hp
        obtain ⟨σ1, seg1, l1, a1, o1, _⟩ := hp
        exact ⟨σ1, seg1, l1, a1, o1, rfl⟩
      | ok b s1 =>
        rw [hr] at hp
        obtain ⟨σ1, seg1, l1, a1, o1, p1⟩ := hp
        -- popleft
        have hpre : DrainPre σ1 { s1 with queue := s1.queue.drop 1 } := by
          cases hq1 : s1.queue with
          | nil => have := p1.head; simp [hq1] at this
          | cons e1 r1 =>
            have hnd := p1.tags.nodup
            rw [hq1] at hnd
            simp only [List.map_cons, List.nodup_cons] at hnd
            refine ⟨⟨by simpa using hnd.2, ?_⟩, Or.inr ⟨p1.fin, key e1, ?_, ?_⟩⟩
            · intro e he
              exact p1.tags.lt e (by rw [hq1]; exact List.mem_cons_of_mem _ (by simpa using he))
            · rw [← p1.rel, hq1]; rfl
            · intro e he h
              have he' : e ∈ r1 := by simpa using he
              exact hnd.1 (List.mem_map.mpr ⟨e, he', h⟩)
        have h2 := ih σ1 { s1 with queue := s1.queue.drop 1 } hpre
        show Post fin0 _ _ σ s (drain sub sc cfg n { s1 with queue := s1.queue.drop 1 })
        cases hr2 : drain sub sc cfg n { s1 with queue := s1.queue.drop 1 } with
        | oof => trivial
        | ok u s2 =>
          rw [hr2] at h2
          obtain ⟨σ2, seg2, l2, a2, o2, p2⟩ := h2
          exact ⟨σ2, seg1 ++ seg2, by rw [l2]; show s1.log ++ seg2 = _; rw [l1, List.append_assoc],
            a1.trans a2, o2.trans o1, p2⟩
        | err e2 s2 =>
          rw [hr2] at h2
          obtain ⟨σ2, seg2, l2, a2, o2, p2⟩ := h2
          exact ⟨σ2, seg1 ++ seg2, by rw [l2]; show s1.log ++ seg2 = _; rw [l1, List.append_assoc],
            a1.trans a2, o2.trans o1, p2⟩

end TM
