/-
  Proofs/C05N.lean — property C05 on the hierarchical engine: the simulation between `ndrain` / `ntriggerEvent`
  (queued mode) and the abstract queue acceptor `C05.busy` (instance of the skeleton `Proofs/C05NGen.lean`), and
  "the log only grows" for every function of the hierarchical engine (trivial instance of the same skeleton).
-/
import Proofs.C05NGen
import Proofs.C05
import Proofs.C02Queued

namespace TM
open C05
namespace N5

/-! ### the abstract queue as an acceptor instance -/

def accQ (fin0 : Nat) : Acc Q := ⟨Adv fin0, Adv.refl fin0, Adv.trans⟩

/-- `(tag, model)` of a queue entry `(event, tag)` of the hierarchical engine (its single model is `0`) -/
def nkey (e : Nat × Nat) : Nat × Nat := (e.2, 0)

/-- tags in the queue are pairwise distinct and already allocated -/
structure NTagsOK (s : NSt) : Prop where
  nodup : (s.queue.map (·.2)).Nodup
  lt : ∀ e ∈ s.queue, e.2 < s.nextTag

/-- inside the block of the event `x` (the queue head), before its first finalize callback: the acceptor (owner
`d`) either is in step, or still shows the completed previous head (it pops lazily) -/
structure NBlk (d : Nat) (x : Ctx) (σ : Q) (s : NSt) : Prop where
  head : (s.queue.map nkey).head? = some (x.tag, x.model)
  tags : NTagsOK s
  rel : (s.queue.map nkey = σ.q ∧ σ.fin = false) ∨
        (σ.fin = true ∧ ∃ h, h.1 ≠ x.tag ∧ σ.q = h :: s.queue.map nkey)
  own : σ.owner = d

/-- in step, inside the block of `x` -/
structure NSyn (d : Nat) (x : Ctx) (fin : Bool) (σ : Q) (s : NSt) : Prop where
  head : (s.queue.map nkey).head? = some (x.tag, x.model)
  tags : NTagsOK s
  rel : s.queue.map nkey = σ.q
  fin : σ.fin = fin
  own : σ.owner = d

theorem NSyn.toBlk {d : Nat} {x : Ctx} {σ : Q} {s : NSt} (h : NSyn d x false σ s) : NBlk d x σ s :=
  ⟨h.head, h.tags, Or.inl ⟨h.rel, h.fin⟩, h.own⟩

theorem NBlk.frame {d : Nat} {x : Ctx} {σ : Q} {s s' : NSt} (h : NBlk d x σ s) (hq : s'.queue = s.queue)
    (hn : s'.nextTag = s.nextTag) : NBlk d x σ s' :=
  ⟨by rw [hq]; exact h.head, ⟨by rw [hq]; exact h.tags.nodup, by rw [hq, hn]; exact h.tags.lt⟩,
    by rw [hq]; exact h.rel, h.own⟩

theorem NSyn.frame {d : Nat} {x : Ctx} {f : Bool} {σ : Q} {s s' : NSt} (h : NSyn d x f σ s) (hq : s'.queue = s.queue)
    (hn : s'.nextTag = s.nextTag) : NSyn d x f σ s' :=
  ⟨by rw [hq]; exact h.head, ⟨by rw [hq]; exact h.tags.nodup, by rw [hq, hn]; exact h.tags.lt⟩,
    by rw [hq]; exact h.rel, h.fin, h.own⟩

/-- what re-entrant commands must guarantee while the machine is busy with the event `x` -/
def NSubOK (fin0 d : Nat) (sub : NSub) : Prop :=
  ∀ (x : Ctx) (f : Bool) (c : Cmd) (σ : Q) (s : NSt), NSyn d x f σ s →
    NPost (accQ fin0) (NSyn d x f) (NSyn d x f) σ s.log (sub c s)

/-- the `call` item of a callback of the event in progress, whatever the acceptor's lag: afterwards in step -/
theorem call_step (fin0 d : Nat) (x : Ctx) (slot : Slot) (c st : Nat) (σ : Q) (s : NSt) (hb : NBlk d x σ s) :
    ∃ σ1, Adv fin0 σ [.call slot c x.model x.tag st] σ1 ∧
      NSyn d x (decide (slot = Slot.finalize ∧ c = fin0)) σ1 s := by
  cases hq : s.queue.map nkey with
  | nil => have := hb.head; simp [hq] at this
  | cons k rest =>
    have hk : k = (x.tag, x.model) := by have := hb.head; simpa [hq] using this
    subst hk
    rcases hb.rel with ⟨hr, hf⟩ | ⟨hf, h, hne, hr⟩
    · exact ⟨{ σ with fin := decide (slot = Slot.finalize ∧ c = fin0) },
        adv_call_sync fin0 σ slot c x.model x.tag st rest (by rw [← hr, hq]) hf,
        ⟨hb.head, hb.tags, hr, rfl, hb.own⟩⟩
    · exact ⟨{ σ with q := (x.tag, x.model) :: rest, fin := decide (slot = Slot.finalize ∧ c = fin0) },
        adv_call_lag fin0 σ slot c x.model x.tag st h rest (by rw [hr, hq]) hf hne,
        ⟨hb.head, hb.tags, hq, rfl, hb.own⟩⟩

/-- the skeleton's interface, for the abstract queue -/
def blockQ (fin0 d : Nat) (sub : NSub) (hsub : NSubOK fin0 d sub) (x : Ctx) : Block (accQ fin0) sub x where
  Blk := NBlk d x
  Syn := NSyn d x
  toBlk := NSyn.toBlk
  blkFrame := NBlk.frame
  synFrame := NSyn.frame
  callBlk := by
    intro σ s slot c st hslot hb
    obtain ⟨σ1, a1, h1⟩ := call_step fin0 d x slot c st σ s hb
    have hd : decide (slot = Slot.finalize ∧ c = fin0) = false := by simp [hslot]
    rw [hd] at h1
    exact ⟨σ1, a1, h1⟩
  done := fun σ c o => adv_done fin0 σ c o
  sub := fun f c σ s h => hsub x f c σ s h

/-- the finalize callbacks: the first one (`fin0`, the visibility marker) tells the acceptor that the event has
reached its finalize stage, the others keep it there -/
theorem finalize_post (fin0 d : Nat) (sub : NSub) (hsub : NSubOK fin0 d sub) (sc : Script) (cfg : NCfg)
    (rest : List Nat) (hfin : cfg.finalize = fin0 :: rest) (hnot : fin0 ∉ rest) (x : Ctx) (σ : Q) (s : NSt)
    (hb : NBlk d x σ s) :
    NPost (accQ fin0) (NSyn d x true) (NSyn d x true) σ s.log (ncallbacks sub sc cfg .finalize x cfg.finalize s) := by
  rw [hfin]
  simp only [ncallbacks]
  obtain ⟨σ1, a1, h1⟩ := call_step fin0 d x .finalize fin0 (confMask cfg s.conf) σ s hb
  have hd : decide (Slot.finalize = Slot.finalize ∧ fin0 = fin0) = true := by simp
  rw [hd] at h1
  refine NPost.bind (ninvoke_post (blockQ fin0 d sub hsub x) sc cfg true .finalize fin0 σ σ1 s a1 h1) ?_
  intro _ σ2 s2 h2
  refine ncallbacks_syn (blockQ fin0 d sub hsub x) sc cfg true .finalize rest ?_ σ2 s2 h2
  intro c hc σ3 s3 st h3
  have hcne : c ≠ fin0 := fun h => hnot (h ▸ hc)
  cases hq : s3.queue.map nkey with
  | nil => have := h3.head; simp [hq] at this
  | cons k r =>
    have hk : k = (x.tag, x.model) := by have := h3.head; simpa [hq] using this
    subst hk
    exact ⟨σ3, adv_call_fin fin0 σ3 c x.model x.tag st r (by rw [← h3.rel, hq]) h3.fin hcne, h3⟩

/-- `_trigger_event` for the queue head: when it is over — normally or with an exception — the acceptor knows that
the event has been finalized -/
theorem ntriggerEvent_postQ (fin0 d : Nat) (sub : NSub) (hsub : NSubOK fin0 d sub) (sc : Script) (cfg : NCfg)
    (rest : List Nat) (hfin : cfg.finalize = fin0 :: rest) (hnot : fin0 ∉ rest) (x : Ctx) (ev : Nat) (σ : Q) (s : NSt)
    (hb : NBlk d x σ s) :
    NPost (accQ fin0) (NSyn d x true) (NSyn d x true) σ s.log (ntriggerEvent sub sc cfg x ev s) :=
  ntriggerEvent_post (blockQ fin0 d sub hsub x) sc cfg ev
    (fun σ1 s1 h1 => finalize_post fin0 d sub hsub sc cfg rest hfin hnot x σ1 s1 h1) σ s hb

/-- In queued mode a trigger issued while an event is in progress runs no callback: it only appends to the queue,
exactly as the acceptor's queue is extended, and returns True.  Any other command is refused without a trace.
Holds at every fuel level. -/
theorem nsubOK_nrunCmd (fin0 d : Nat) (sc : Script) (cfg : NCfg) (qmax : Nat) (hq : cfg.queued = true) :
    ∀ n, NSubOK fin0 d (nrunCmd sc cfg qmax n) := by
  intro n x f c σ s hs
  cases n with
  | zero => trivial
  | succ n =>
    have hne : s.queue ≠ [] := by
      intro h0; have := hs.head; simp [h0] at this
    cases c with
    | trigger m ev =>
      show NPost _ _ _ σ s.log ((napiTrigger (nrunCmd sc cfg qmax n) sc cfg qmax ev s).map fun _ => ())
      rw [napiTrigger_busy cfg _ sc qmax ev s hq hne]
      refine ⟨{ σ with q := σ.q ++ [(s.nextTag, 0)] }, [.api 0 s.nextTag 0 ev, .ret s.nextTag true], rfl,
        adv_deferred fin0 σ _ _ _, ?_⟩
      refine ⟨?_, ⟨?_, ?_⟩, ?_, hs.fin, hs.own⟩
      · show ((s.queue ++ [(ev, s.nextTag)]).map nkey).head? = _
        rw [List.map_append, head?_append_of_ne _ (by simpa using hne)]
        exact hs.head
      · show ((s.queue ++ [(ev, s.nextTag)]).map (·.2)).Nodup
        rw [List.map_append, List.nodup_append]
        refine ⟨hs.tags.nodup, by simp, ?_⟩
        intro a ha b hb
        simp at hb
        subst hb
        obtain ⟨e, he, rfl⟩ := List.mem_map.mp ha
        exact Nat.ne_of_lt (hs.tags.lt e he)
      · intro e he
        show e.2 < s.nextTag + 1
        rcases List.mem_append.mp he with h1 | h1
        · exact Nat.lt_succ_of_lt (hs.tags.lt e h1)
        · simp at h1; subst h1; exact Nat.lt_succ_self _
      · show (s.queue ++ [(ev, s.nextTag)]).map nkey = σ.q ++ [(s.nextTag, 0)]
        rw [List.map_append, hs.rel]; rfl
    | removeModel _ => exact NPost.err (accQ fin0) _ hs
    | addModel _ => exact NPost.err (accQ fin0) _ hs
    | dispatch _ => exact NPost.err (accQ fin0) _ hs
    | may _ _ => exact NPost.err (accQ fin0) _ hs

/-- precondition of the drain loop: the acceptor is in step with a fresh head, or still shows the finalized
previous head -/
def NDrainPre (σ : Q) (s : NSt) : Prop :=
  NTagsOK s ∧ ((s.queue.map nkey = σ.q ∧ σ.fin = false ∧ s.queue ≠ []) ∨
               (σ.fin = true ∧ ∃ h, σ.q = h :: s.queue.map nkey ∧ ∀ e ∈ s.queue, e.2 ≠ h.1))

theorem ndrain_post (fin0 : Nat) (sc : Script) (cfg : NCfg) (sub : NSub) (rest : List Nat)
    (hfin : cfg.finalize = fin0 :: rest) (hnot : fin0 ∉ rest) :
    ∀ (n : Nat) (σ : Q) (s : NSt), NSubOK fin0 σ.owner sub → NDrainPre σ s →
      NPost (accQ fin0) (fun σ' s' => s'.queue = [] ∧ σ'.fin = true ∧ σ'.q.length = 1 ∧ σ'.owner = σ.owner)
        (fun σ' s' => s'.queue = [] ∧ σ'.owner = σ.owner) σ s.log (ndrain sub sc cfg n s) := by
  intro n
  induction n with
  | zero => intro σ s _ _; trivial
  | succ n ih =>
    intro σ s hsub ⟨htags, hrel⟩
    cases hq : s.queue with
    | nil =>
      simp only [ndrain, hq]
      rcases hrel with ⟨_, _, hne⟩ | ⟨hf, h, hσ, _⟩
      · exact absurd hq hne
      · exact ⟨σ, [], by simp, Adv.refl fin0 σ, hq, hf, by rw [hσ, hq]; rfl, rfl⟩
    | cons e0 r0 =>
      obtain ⟨ev, tag⟩ := e0
      simp only [ndrain, hq]
      have hb : NBlk σ.owner ⟨0, tag⟩ σ s := by
        refine ⟨by rw [hq]; rfl, htags, ?_, rfl⟩
        rcases hrel with ⟨h1, h2, _⟩ | ⟨hf, h, hσ, hne⟩
        · exact Or.inl ⟨h1, h2⟩
        · exact Or.inr ⟨hf, h, (hne (ev, tag) (by rw [hq]; exact List.mem_cons_self ..)).symm, hσ⟩
      have hp := ntriggerEvent_postQ fin0 σ.owner sub hsub sc cfg rest hfin hnot ⟨0, tag⟩ ev σ s hb
      cases hr : ntriggerEvent sub sc cfg ⟨0, tag⟩ ev s with
      | oof => trivial
      | err e s1 =>
        rw [hr] at hp
        obtain ⟨σ1, seg1, l1, a1, p1⟩ := hp
        exact ⟨σ1, seg1, l1, a1, rfl, p1.own⟩
      | ok b s1 =>
        rw [hr] at hp
        obtain ⟨σ1, seg1, l1, a1, p1⟩ := hp
        -- popleft
        have hpre : NDrainPre σ1 { s1 with queue := s1.queue.drop 1 } := by
          cases hq1 : s1.queue with
          | nil => have := p1.head; simp [hq1] at this
          | cons e1 r1 =>
            have hnd := p1.tags.nodup
            rw [hq1] at hnd
            simp only [List.map_cons, List.nodup_cons] at hnd
            refine ⟨⟨by simpa using hnd.2, ?_⟩, Or.inr ⟨p1.fin, nkey e1, ?_, ?_⟩⟩
            · intro e he
              exact p1.tags.lt e (by rw [hq1]; exact List.mem_cons_of_mem _ (by simpa using he))
            · rw [← p1.rel, hq1]; rfl
            · intro e he h
              have he' : e ∈ r1 := by simpa using he
              exact hnd.1 (List.mem_map.mpr ⟨e, he', h⟩)
        have h2 := ih σ1 { s1 with queue := s1.queue.drop 1 } (by rw [p1.own]; exact hsub) hpre
        show NPost (accQ fin0) _ _ σ s.log (ndrain sub sc cfg n { s1 with queue := s1.queue.drop 1 })
        cases hr2 : ndrain sub sc cfg n { s1 with queue := s1.queue.drop 1 } with
        | oof => trivial
        | ok u s2 =>
          rw [hr2] at h2
          obtain ⟨σ2, seg2, l2, a2, p2⟩ := h2
          exact ⟨σ2, seg1 ++ seg2, by rw [l2]; show s1.log ++ seg2 = _; rw [l1, List.append_assoc],
            a1.trans a2, p2.1, p2.2.1, p2.2.2.1, p2.2.2.2.trans p1.own⟩
        | err e2 s2 =>
          rw [hr2] at h2
          obtain ⟨σ2, seg2, l2, a2, p2⟩ := h2
          exact ⟨σ2, seg1 ++ seg2, by rw [l2]; show s1.log ++ seg2 = _; rw [l1, List.append_assoc],
            a1.trans a2, p2.1, p2.2.trans p1.own⟩

/-! ### the log only grows (trivial acceptor) -/

def accT : Acc Unit := ⟨fun _ _ _ => True, fun _ => trivial, fun _ _ => trivial⟩

/-- every completed run of `r` (normal or exceptional) extends the log `l` -/
def NGrows {α} (r : NR α) (l : List Item) : Prop := ∀ s', r.state? = some s' → ∃ seg, s'.log = l ++ seg

theorem NGrows.of_post {α} {P P' : Unit → NSt → Prop} {r : NR α} {l : List Item} (h : NPost accT P P' () l r) :
    NGrows r l := by
  intro s' hs
  cases r with
  | oof => simp [Res.state?] at hs
  | ok a s1 =>
    simp only [Res.state?, Option.some.injEq] at hs; subst hs
    obtain ⟨_, seg, l1, _, _⟩ := h; exact ⟨seg, l1⟩
  | err e s1 =>
    simp only [Res.state?, Option.some.injEq] at hs; subst hs
    obtain ⟨_, seg, l1, _, _⟩ := h; exact ⟨seg, l1⟩

theorem NGrows.to_post {α} {r : NR α} {l : List Item} (h : NGrows r l) :
    NPost accT (fun _ _ => True) (fun _ _ => True) () l r := by
  cases r with
  | oof => trivial
  | ok a s1 => obtain ⟨seg, l1⟩ := h s1 rfl; exact ⟨(), seg, l1, trivial, trivial⟩
  | err e s1 => obtain ⟨seg, l1⟩ := h s1 rfl; exact ⟨(), seg, l1, trivial, trivial⟩

/-- the interpreter of re-entrant commands only appends -/
def NSubGrows (sub : NSub) : Prop := ∀ c s, NGrows (sub c s) s.log

def blockT (sub : NSub) (hsub : NSubGrows sub) (x : Ctx) : Block accT sub x where
  Blk := fun _ _ => True
  Syn := fun _ _ _ => True
  toBlk := fun _ => trivial
  blkFrame := fun _ _ _ => trivial
  synFrame := fun _ _ _ => trivial
  callBlk := fun _ _ _ _ _ => ⟨(), trivial, trivial⟩
  done := fun _ _ _ => trivial
  sub := fun _ c _ s _ => (hsub c s).to_post

theorem ntriggerEvent_grows (sub : NSub) (hsub : NSubGrows sub) (sc : Script) (cfg : NCfg) (x : Ctx) (ev : Nat)
    (s : NSt) : NGrows (ntriggerEvent sub sc cfg x ev s) s.log := by
  refine NGrows.of_post (ntriggerEvent_post (blockT sub hsub x) sc cfg ev ?_ () s trivial)
  intro _ s1 _
  exact ncallbacks_syn (blockT sub hsub x) sc cfg true .finalize cfg.finalize
    (fun _ _ _ _ _ _ => ⟨(), trivial, trivial⟩) () s1 trivial

theorem ndrain_grows (sub : NSub) (hsub : NSubGrows sub) (sc : Script) (cfg : NCfg) :
    ∀ (n : Nat) (s : NSt), NGrows (ndrain sub sc cfg n s) s.log
  | 0, s => by intro s' h; simp [ndrain, Res.state?] at h
  | n + 1, s => by
    intro s' h
    unfold ndrain at h
    cases hq : s.queue with
    | nil => simp only [hq, Res.state?, Option.some.injEq] at h; subst h; exact ⟨[], by simp⟩
    | cons e0 r0 =>
      obtain ⟨ev, tag⟩ := e0
      simp only [hq] at h
      have hg := ntriggerEvent_grows sub hsub sc cfg ⟨0, tag⟩ ev s
      cases hr : ntriggerEvent sub sc cfg ⟨0, tag⟩ ev s with
      | oof => simp [hr, Res.state?] at h
      | err e s1 =>
        simp only [hr, Res.state?, Option.some.injEq] at h; subst h
        exact hg s1 (by simp [hr, Res.state?])
      | ok b s1 =>
        simp only [hr] at h
        obtain ⟨g1, hg1⟩ := hg s1 (by simp [hr, Res.state?])
        obtain ⟨g2, hg2⟩ := ndrain_grows sub hsub sc cfg n { s1 with queue := s1.queue.drop 1 } s' h
        exact ⟨g1 ++ g2, by rw [hg2]; show s1.log ++ g2 = _; rw [hg1, List.append_assoc]⟩

theorem nmachineProcess_grows (sub : NSub) (hsub : NSubGrows sub) (sc : Script) (cfg : NCfg) (qmax ev tag : Nat)
    (s : NSt) : NGrows (nmachineProcess sub sc cfg qmax ev tag s) s.log := by
  intro s' h
  unfold nmachineProcess at h
  by_cases hq : cfg.queued = true
  · simp only [hq, Bool.not_true, Bool.false_eq_true, if_false] at h
    by_cases hl : (s.queue ++ [(ev, tag)]).length > 1
    · simp only [hl, if_true, Res.state?, Option.some.injEq] at h; subst h; exact ⟨[], by simp⟩
    · simp only [hl, if_false] at h
      have hg := ndrain_grows sub hsub sc cfg qmax { s with queue := s.queue ++ [(ev, tag)] }
      cases hr : ndrain sub sc cfg qmax { s with queue := s.queue ++ [(ev, tag)] } with
      | oof => simp [hr, Res.bind, Res.state?] at h
      | err e s1 =>
        simp only [hr, Res.bind, Res.state?, Option.some.injEq] at h; subst h
        exact hg s1 (by simp [hr, Res.state?])
      | ok u s1 =>
        simp only [hr, Res.bind, Res.state?, Option.some.injEq] at h; subst h
        exact hg s1 (by simp [hr, Res.state?])
  · simp only [hq, Bool.not_false, if_true] at h
    cases hqq : s.queue with
    | nil => simp only [hqq] at h; exact ntriggerEvent_grows sub hsub sc cfg ⟨0, tag⟩ ev s s' h
    | cons a r => simp only [hqq, Res.state?, Option.some.injEq] at h; subst h; exact ⟨[], by simp⟩

/-- the trace of one trigger call: its `api` item first, its own outcome item last -/
theorem napiTrigger_shape (sub : NSub) (hsub : NSubGrows sub) (sc : Script) (cfg : NCfg) (qmax ev : Nat) (s : NSt) :
    ∀ s', (napiTrigger sub sc cfg qmax ev s).state? = some s' →
      ∃ (mid : List Item) (out : Item), s'.log = s.log ++ (.api 0 s.nextTag 0 ev :: mid ++ [out]) ∧
        ((∃ b, out = .ret s.nextTag b) ∨ ∃ e, out = .raised s.nextTag e) := by
  intro s' h
  unfold napiTrigger at h
  simp only [] at h
  have hg := nmachineProcess_grows sub hsub sc cfg qmax ev s.nextTag
    ((({ s with nextTag := s.nextTag + 1 } : NSt).emit (.api 0 s.nextTag 0 ev)).emitG (.api s.nextTag ev))
  cases hr : nmachineProcess sub sc cfg qmax ev s.nextTag
      ((({ s with nextTag := s.nextTag + 1 } : NSt).emit (.api 0 s.nextTag 0 ev)).emitG (.api s.nextTag ev)) with
  | oof => simp [hr, Res.state?] at h
  | ok b s1 =>
    simp only [hr, Res.state?, Option.some.injEq] at h; subst h
    obtain ⟨g, hg1⟩ := hg s1 (by simp [hr, Res.state?])
    exact ⟨g, .ret s.nextTag b, by simp [NSt.emit, NSt.emitG, hg1], Or.inl ⟨b, rfl⟩⟩
  | err e s1 =>
    simp only [hr, Res.state?, Option.some.injEq] at h; subst h
    obtain ⟨g, hg1⟩ := hg s1 (by simp [hr, Res.state?])
    exact ⟨g, .raised s.nextTag e, by simp [NSt.emit, NSt.emitG, hg1], Or.inr ⟨e, rfl⟩⟩

theorem nrunCmd_grows (sc : Script) (cfg : NCfg) (qmax : Nat) : ∀ f, NSubGrows (nrunCmd sc cfg qmax f)
  | 0 => by intro c s s' h; simp [nrunCmd, Res.state?] at h
  | f + 1 => by
    intro c s s' h
    cases c with
    | trigger m ev =>
      have h' : (napiTrigger (nrunCmd sc cfg qmax f) sc cfg qmax ev s).state? = some s' := by
        have : nrunCmd sc cfg qmax (f + 1) (.trigger m ev) s =
          (napiTrigger (nrunCmd sc cfg qmax f) sc cfg qmax ev s).map fun _ => () := rfl
        rw [this] at h
        cases hr : napiTrigger (nrunCmd sc cfg qmax f) sc cfg qmax ev s <;>
          simp [hr, Res.map, Res.state?] at h ⊢ <;> exact h
      obtain ⟨mid, out, hl, _⟩ := napiTrigger_shape _ (nrunCmd_grows sc cfg qmax f) sc cfg qmax ev s s' h'
      exact ⟨_, hl⟩
    | removeModel _ => simp only [nrunCmd, Res.state?, Option.some.injEq] at h; subst h; exact ⟨[], by simp⟩
    | addModel _ => simp only [nrunCmd, Res.state?, Option.some.injEq] at h; subst h; exact ⟨[], by simp⟩
    | dispatch _ => simp only [nrunCmd, Res.state?, Option.some.injEq] at h; subst h; exact ⟨[], by simp⟩
    | may _ _ => simp only [nrunCmd, Res.state?, Option.some.injEq] at h; subst h; exact ⟨[], by simp⟩

end N5
end TM

namespace TM
namespace N5

/-! ### the finalize marker lies inside the trace of its event (used for the unqueued clause) -/

theorem ncallbacks_grows (sub : NSub) (hsub : NSubGrows sub) (sc : Script) (cfg : NCfg) (slot : Slot) (x : Ctx)
    (cbs : List Nat) (s : NSt) : NGrows (ncallbacks sub sc cfg slot x cbs s) s.log :=
  NGrows.of_post (ncallbacks_syn (blockT sub hsub x) sc cfg true slot cbs
    (fun _ _ _ _ _ _ => ⟨(), trivial, trivial⟩) () s trivial)

theorem tryExcept_grows (sub : NSub) (hsub : NSubGrows sub) (sc : Script) (cfg : NCfg) (x : Ctx) (ev : Nat) (s : NSt) :
    NGrows (tryExcept sub sc cfg x ev s) s.log :=
  NGrows.of_post (tryExcept_blk (blockT sub hsub x) sc cfg ev () s trivial)

/-- the first item a callback invocation appends is its `call` item -/
theorem ninvoke_first (sub : NSub) (hsub : NSubGrows sub) (sc : Script) (cfg : NCfg) (slot : Slot) (x : Ctx) (c : Nat)
    (s : NSt) : ∀ s', (ninvoke sub sc cfg slot x c s).state? = some s' →
      ∃ g, s'.log = s.log ++ .call slot c x.model x.tag (confMask cfg s.conf) :: g := by
  intro s' h
  have hg := NGrows.of_post (nrunCmds_post (blockT sub hsub x) true (sc c (s.count c)).cmds ()
    (({ s with counts := aset c (s.count c + 1) s.counts } : NSt).emit
      (.call slot c x.model x.tag (confMask cfg s.conf))) trivial)
  unfold ninvoke at h
  simp only [] at h
  cases hr : nrunCmds sub (sc c (s.count c)).cmds (({ s with counts := aset c (s.count c + 1) s.counts } : NSt).emit
      (.call slot c x.model x.tag (confMask cfg ({ s with counts := aset c (s.count c + 1) s.counts } : NSt).conf))) with
  | oof => rw [hr] at h; simp [Res.state?] at h
  | err e s3 =>
    rw [hr] at h; simp only [Res.state?, Option.some.injEq] at h; subst h
    obtain ⟨g, hg1⟩ := hg s3 (by rw [show confMask cfg s.conf = confMask cfg
      ({ s with counts := aset c (s.count c + 1) s.counts } : NSt).conf from rfl, hr]; rfl)
    exact ⟨g ++ [.done c (.raise e)], by simp [NSt.emit, hg1]⟩
  | ok u s3 =>
    rw [hr] at h
    obtain ⟨g, hg1⟩ := hg s3 (by rw [show confMask cfg s.conf = confMask cfg
      ({ s with counts := aset c (s.count c + 1) s.counts } : NSt).conf from rfl, hr]; rfl)
    cases ho : (sc c (s.count c)).out with
    | ret b =>
      simp only [ho, Res.state?, Option.some.injEq] at h; subst h
      exact ⟨g ++ [.done c (.ret b)], by simp [NSt.emit, hg1]⟩
    | raise e =>
      simp only [ho, Res.state?, Option.some.injEq] at h; subst h
      exact ⟨g ++ [.done c (.raise e)], by simp [NSt.emit, hg1]⟩

/-- the `finally:` block starts with the `call` item of the first finalize callback -/
theorem nfinalize_first (sub : NSub) (hsub : NSubGrows sub) (sc : Script) (cfg : NCfg) (fin0 : Nat) (rest : List Nat)
    (hfin : cfg.finalize = fin0 :: rest) (x : Ctx) (s : NSt) :
    ∀ s', nfinalize sub sc cfg x s = some s' →
      ∃ g, s'.log = s.log ++ .call .finalize fin0 x.model x.tag (confMask cfg s.conf) :: g := by
  intro s' h
  unfold nfinalize at h
  rw [hfin] at h
  simp only [ncallbacks] at h
  have hfirst := ninvoke_first sub hsub sc cfg .finalize x fin0 (s.emitG (.fin x.tag (confMask cfg s.conf)))
  cases hr : ninvoke sub sc cfg .finalize x fin0 (s.emitG (.fin x.tag (confMask cfg s.conf))) with
  | oof => simp [hr, Res.bind] at h
  | err e s1 =>
    simp only [hr, Res.bind, Option.some.injEq] at h; subst h
    obtain ⟨g, hg⟩ := hfirst s1 (by simp [hr, Res.state?])
    exact ⟨g, hg⟩
  | ok b s1 =>
    obtain ⟨g, hg⟩ := hfirst s1 (by simp [hr, Res.state?])
    simp only [hr, Res.bind] at h
    have hrest := ncallbacks_grows sub hsub sc cfg .finalize x rest s1
    cases hr2 : ncallbacks sub sc cfg .finalize x rest s1 with
    | oof => simp [hr2] at h
    | ok u s2 =>
      simp only [hr2, Option.some.injEq] at h; subst h
      obtain ⟨g2, hg2⟩ := hrest s2 (by simp [hr2, Res.state?])
      exact ⟨g ++ g2, by rw [hg2, hg]; simp [NSt.emitG]⟩
    | err e s2 =>
      simp only [hr2, Option.some.injEq] at h; subst h
      obtain ⟨g2, hg2⟩ := hrest s2 (by simp [hr2, Res.state?])
      exact ⟨g ++ g2, by rw [hg2, hg]; simp [NSt.emitG]⟩

/-- every completed run of `_trigger_event` contains the start of the first finalize callback of ITS event -/
theorem ntriggerEvent_complete (sub : NSub) (hsub : NSubGrows sub) (sc : Script) (cfg : NCfg) (fin0 : Nat)
    (rest : List Nat) (hfin : cfg.finalize = fin0 :: rest) (x : Ctx) (ev : Nat) (s : NSt) :
    ∀ s', (ntriggerEvent sub sc cfg x ev s).state? = some s' →
      ∃ pre mask post, s'.log = s.log ++ pre ++ .call .finalize fin0 x.model x.tag mask :: post := by
  intro s' h
  rw [ntriggerEvent_eq] at h
  have hg := tryExcept_grows sub hsub sc cfg x ev s
  cases hr : tryExcept sub sc cfg x ev s with
  | oof => simp [hr, Res.state?] at h
  | ok b s1 =>
    obtain ⟨pre, hpre⟩ := hg s1 (by simp [hr, Res.state?])
    simp only [hr] at h
    cases hf : nfinalize sub sc cfg x s1 with
    | none => simp [hf, Res.state?] at h
    | some s2 =>
      simp only [hf, Res.state?, Option.some.injEq] at h; subst h
      obtain ⟨g, hg2⟩ := nfinalize_first sub hsub sc cfg fin0 rest hfin x s1 s2 hf
      exact ⟨pre, _, g, by rw [hg2, hpre]⟩
  | err e s1 =>
    obtain ⟨pre, hpre⟩ := hg s1 (by simp [hr, Res.state?])
    simp only [hr] at h
    cases hf : nfinalize sub sc cfg x s1 with
    | none => simp [hf, Res.state?] at h
    | some s2 =>
      simp only [hf, Res.state?, Option.some.injEq] at h; subst h
      obtain ⟨g, hg2⟩ := nfinalize_first sub hsub sc cfg fin0 rest hfin x s1 s2 hf
      exact ⟨pre, _, g, by rw [hg2, hpre]⟩

end N5
end TM
