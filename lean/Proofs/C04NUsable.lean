/-
  Proofs/C04NUsable.lean — "afterwards the machine is fully usable": what the hierarchical engine does on a trigger
  call depends on its state only through the configuration, the queue, the script position (invocation counters) and
  the tag counter.  The two logs are never read (`Proofs/C04NShift.lean`); `result` / `exited` of the caller's
  `event_data` are reset when an event starts and restored when the call returns.  Hence two engine states that agree
  on those four fields (`SameMachine`) answer every history of trigger calls with the same outcomes and the same
  traces — in particular the state a failed event leaves behind and a fresh machine placed in the same
  configuration (`Proofs/C04NQueue.lean`: the queue is empty again).
-/
import Proofs.C04NShift
import Proofs.C04NQueue

namespace TM

/-- the same machine as far as any future behaviour is concerned -/
structure SameMachine (s1 s2 : NSt) : Prop where
  conf : s1.conf = s2.conf
  queue : s1.queue = s2.queue
  counts : s1.counts = s2.counts
  nextTag : s1.nextTag = s2.nextTag

/-- a fresh machine placed in the configuration of `s` (idle, nothing logged; the script position is kept) -/
def NSt.placed (s : NSt) : NSt := { conf := s.conf, counts := s.counts, nextTag := s.nextTag }

/-- the caller's `event_data` fields set to `r` / `x` -/
def NSt.withEd (r : Option Bool) (x : List SPath) (s : NSt) : NSt := { s with result := r, exited := x }

def Res.mapSt {α : Type} (g : NSt → NSt) : NR α → NR α
  | .ok v s => .ok v (g s)
  | .err e s => .err e (g s)
  | .oof => .oof

/-- normal form: `event_data` fields and logs cleared -/
def NSt.norm (s : NSt) : NSt := { s with result := none, exited := [], log := [], glog := [] }

/-- how a state reached from `s0.norm` looks when it is reached from `s0` -/
def NSt.img (s0 t : NSt) : NSt := (t.shift s0.log s0.glog).withEd s0.result s0.exited

theorem NSt.eq_img_norm (s : NSt) : s = s.img s.norm := by
  cases s; simp [NSt.img, NSt.norm, NSt.shift, NSt.withEd]

theorem NSt.norm_img (s t : NSt) : (s.img t).norm = t.norm := rfl

theorem NSt.img_img (s t u : NSt) : (s.img t).img u = s.img (t.img u) := by
  cases s; cases t; cases u; simp [NSt.img, NSt.shift, NSt.withEd, List.append_assoc]

section
variable {sub : NSub} {sc : Script} {cfg : NCfg}

/-- `_trigger_event` starts from a fresh `event_data` -/
theorem ntriggerEvent_withEd (x : Ctx) (ev : Nat) (r : Option Bool) (xs : List SPath) (s : NSt) :
    ntriggerEvent sub sc cfg x ev (s.withEd r xs) = ntriggerEvent sub sc cfg x ev s := rfl

/-- equal up to the caller's `event_data` fields of the resulting state -/
def EdEq {α : Type} (r1 r2 : NR α) : Prop :=
  Res.mapSt (NSt.withEd none []) r1 = Res.mapSt (NSt.withEd none []) r2

theorem EdEq.rfl' {α : Type} {r : NR α} : EdEq r r := rfl

theorem EdEq.state {α : Type} {v : α} {t1 t2 : NSt} (h : t1.withEd none [] = t2.withEd none []) :
    EdEq (.ok v t1 : NR α) (.ok v t2) := by
  simp only [EdEq, Res.mapSt, h]

theorem EdEq.stateErr {α : Type} {e : Exc} {t1 t2 : NSt} (h : t1.withEd none [] = t2.withEd none []) :
    EdEq (.err e t1 : NR α) (.err e t2) := by
  simp only [EdEq, Res.mapSt, h]

/-- `Machine._process` reads nothing of the caller's `event_data` -/
theorem nmachineProcess_withEd (qmax ev tag : Nat) (r : Option Bool) (xs : List SPath) (s : NSt) :
    EdEq (nmachineProcess sub sc cfg qmax ev tag (s.withEd r xs)) (nmachineProcess sub sc cfg qmax ev tag s) := by
  obtain ⟨conf, queue, counts, nextTag, result, exited, log, glog⟩ := s
  unfold nmachineProcess
  simp only [NSt.withEd]
  cases cfg.queued with
  | false =>
    simp only [Bool.not_false, if_true]
    cases queue with
    | nil => exact EdEq.rfl'
    | cons hd tl => exact EdEq.stateErr rfl
  | true =>
    simp only [Bool.not_true, Bool.false_eq_true, if_false]
    cases queue with
    | cons hd tl =>
      have hlen : ((hd :: tl) ++ [(ev, tag)]).length > 1 := by simp
      simp only [hlen, if_true]
      exact EdEq.state rfl
    | nil =>
      simp only [List.nil_append, List.length_singleton, gt_iff_lt, Nat.lt_irrefl, if_false]
      cases qmax with
      | zero => exact EdEq.rfl'
      | succ n => exact EdEq.rfl'

/-- a trigger call leaves the caller's `event_data` as it found it and reads nothing of it -/
theorem napiTrigger_withEd (qmax ev : Nat) (r : Option Bool) (xs : List SPath) (s : NSt) :
    napiTrigger sub sc cfg qmax ev (s.withEd r xs) = Res.mapSt (NSt.withEd r xs) (napiTrigger sub sc cfg qmax ev s) := by
  have h := nmachineProcess_withEd (sub := sub) (sc := sc) (cfg := cfg) qmax ev s.nextTag r xs
    ((({ s with nextTag := s.nextTag + 1 } : NSt).emit (.api 0 s.nextTag 0 ev)).emitG (.api s.nextTag ev))
  unfold napiTrigger
  simp only []
  have e1 : (((({ (s.withEd r xs) with nextTag := (s.withEd r xs).nextTag + 1 } : NSt).emit
      (.api 0 (s.withEd r xs).nextTag 0 ev)).emitG (.api (s.withEd r xs).nextTag ev))) =
      ((({ s with nextTag := s.nextTag + 1 } : NSt).emit (.api 0 s.nextTag 0 ev)).emitG (.api s.nextTag ev)).withEd r xs := rfl
  have e2 : (s.withEd r xs).nextTag = s.nextTag := rfl
  have e3 : (s.withEd r xs).result = r := rfl
  have e4 : (s.withEd r xs).exited = xs := rfl
  rw [e1, e2, e3, e4]
  generalize nmachineProcess sub sc cfg qmax ev s.nextTag
    (((({ s with nextTag := s.nextTag + 1 } : NSt).emit (.api 0 s.nextTag 0 ev)).emitG (.api s.nextTag ev)).withEd r xs) = r1 at h
  generalize nmachineProcess sub sc cfg qmax ev s.nextTag
    ((({ s with nextTag := s.nextTag + 1 } : NSt).emit (.api 0 s.nextTag 0 ev)).emitG (.api s.nextTag ev)) = r2 at h
  cases r1 with
  | oof => cases r2 <;> simp [EdEq, Res.mapSt] at h ⊢
  | ok b1 t1 =>
    cases r2 with
    | ok b2 t2 =>
      simp only [EdEq, Res.mapSt, Res.ok.injEq] at h
      obtain ⟨rfl, ht⟩ := h
      obtain ⟨c1, q1, k1, n1, _, _, l1, g1⟩ := t1
      obtain ⟨c2, q2, k2, n2, _, _, l2, g2⟩ := t2
      simp only [NSt.withEd, NSt.mk.injEq, true_and] at ht
      obtain ⟨rfl, rfl, rfl, rfl, rfl, rfl⟩ := ht
      rfl
    | err e2 t2 => simp [EdEq, Res.mapSt] at h
    | oof => simp [EdEq, Res.mapSt] at h
  | err e1 t1 =>
    cases r2 with
    | err e2 t2 =>
      simp only [EdEq, Res.mapSt, Res.err.injEq] at h
      obtain ⟨rfl, ht⟩ := h
      obtain ⟨c1, q1, k1, n1, _, _, l1, g1⟩ := t1
      obtain ⟨c2, q2, k2, n2, _, _, l2, g2⟩ := t2
      simp only [NSt.withEd, NSt.mk.injEq, true_and] at ht
      obtain ⟨rfl, rfl, rfl, rfl, rfl, rfl⟩ := ht
      rfl
    | ok b2 t2 => simp [EdEq, Res.mapSt] at h
    | oof => simp [EdEq, Res.mapSt] at h

theorem napiTrigger_norm (hsub : SubShifts sub) (qmax ev : Nat) (s : NSt) :
    napiTrigger sub sc cfg qmax ev s = Res.mapSt s.img (napiTrigger sub sc cfg qmax ev s.norm) := by
  conv => lhs; rw [s.eq_img_norm]
  unfold NSt.img
  rw [napiTrigger_withEd, napiTrigger_shifts hsub qmax ev s.log s.glog s.norm]
  cases napiTrigger sub sc cfg qmax ev s.norm <;> rfl

end

theorem nrunCmd_norm (sc : Script) (cfg : NCfg) (qmax fuel ev : Nat) (s : NSt) :
    nrunCmd sc cfg qmax fuel (.trigger 0 ev) s = Res.mapSt s.img (nrunCmd sc cfg qmax fuel (.trigger 0 ev) s.norm) := by
  cases fuel with
  | zero => rfl
  | succ f =>
    simp only [nrunCmd]
    rw [napiTrigger_norm (nrunCmd_subShifts sc cfg qmax f) qmax ev s]
    cases napiTrigger (nrunCmd sc cfg qmax f) sc cfg qmax ev s.norm <;> rfl

/-- a whole history from `s` is the image of the history from the normal form of `s` -/
theorem nrunHistory_norm (sc : Script) (cfg : NCfg) (qmax fuel : Nat) : ∀ (h : List Nat) (s : NSt),
    nrunHistory sc cfg qmax fuel h s = (nrunHistory sc cfg qmax fuel h s.norm).map s.img
  | [], s => by simp only [nrunHistory, Option.map_some]; exact congrArg some s.eq_img_norm
  | ev :: evs, s => by
    simp only [nrunHistory]
    rw [nrunCmd_norm sc cfg qmax fuel ev s]
    cases nrunCmd sc cfg qmax fuel (.trigger 0 ev) s.norm with
    | oof => rfl
    | ok u t =>
      simp only [Res.mapSt]
      rw [nrunHistory_norm sc cfg qmax fuel evs (s.img t), nrunHistory_norm sc cfg qmax fuel evs t, NSt.norm_img,
        Option.map_map]
      congr 1
      funext w
      exact NSt.img_img s t w
    | err e t =>
      simp only [Res.mapSt]
      rw [nrunHistory_norm sc cfg qmax fuel evs (s.img t), nrunHistory_norm sc cfg qmax fuel evs t, NSt.norm_img,
        Option.map_map]
      congr 1
      funext w
      exact NSt.img_img s t w

theorem SameMachine.norm_eq {s1 s2 : NSt} (h : SameMachine s1 s2) : s1.norm = s2.norm := by
  obtain ⟨h1, h2, h3, h4⟩ := h
  cases s1; cases s2
  simp only at h1 h2 h3 h4
  subst h1 h2 h3 h4
  rfl

theorem SameMachine.img (s1 s2 t : NSt) : SameMachine (s1.img t) (s2.img t) := ⟨rfl, rfl, rfl, rfl⟩

/-- `SameMachine` is preserved by every trigger call, with the same outcome and the same appended trace -/
theorem sameMachine_step (sc : Script) (cfg : NCfg) (qmax f ev : Nat) (s1 s2 : NSt) (hR : SameMachine s1 s2) :
    match napiTrigger (nrunCmd sc cfg qmax f) sc cfg qmax ev s1, napiTrigger (nrunCmd sc cfg qmax f) sc cfg qmax ev s2 with
    | .ok b1 t1, .ok b2 t2 => b1 = b2 ∧ SameMachine t1 t2 ∧ ∃ seg, t1.log = s1.log ++ seg ∧ t2.log = s2.log ++ seg
    | .err e1 t1, .err e2 t2 => e1 = e2 ∧ SameMachine t1 t2 ∧ ∃ seg, t1.log = s1.log ++ seg ∧ t2.log = s2.log ++ seg
    | .oof, .oof => True
    | _, _ => False := by
  rw [napiTrigger_norm (nrunCmd_subShifts sc cfg qmax f) qmax ev s1,
    napiTrigger_norm (nrunCmd_subShifts sc cfg qmax f) qmax ev s2, hR.norm_eq]
  cases napiTrigger (nrunCmd sc cfg qmax f) sc cfg qmax ev s2.norm with
  | oof => trivial
  | ok b t => exact ⟨rfl, SameMachine.img s1 s2 t, t.log, rfl, rfl⟩
  | err e t => exact ⟨rfl, SameMachine.img s1 s2 t, t.log, rfl, rfl⟩

/-- after a trigger call on an idle machine, whatever its outcome: the queue is empty, the state is the same machine
as a fresh one placed in its configuration, and every further history runs on it exactly as on the fresh one -/
theorem usable_afterwards (sc : Script) (cfg : NCfg) (qmax f ev : Nat) (s s' : NSt) (hidle : s.queue = [])
    (h : (napiTrigger (nrunCmd sc cfg qmax f) sc cfg qmax ev s).state? = some s') :
    s'.queue = [] ∧ SameMachine s' s'.placed ∧
    ∀ (fuel : Nat) (hist : List Nat),
      (nrunHistory sc cfg qmax fuel hist s').map (fun t => (t.log.drop s'.log.length, t.conf, t.queue, t.counts, t.nextTag)) =
      (nrunHistory sc cfg qmax fuel hist s'.placed).map (fun t => (t.log, t.conf, t.queue, t.counts, t.nextTag)) := by
  have hq : s'.queue = [] := napiTrigger_idle sc cfg qmax f ev s s' hidle h
  have hn : s'.norm = s'.placed := by
    cases s'; simp only at hq; subst hq; rfl
  refine ⟨hq, ⟨rfl, hq, rfl, rfl⟩, fun fuel hist => ?_⟩
  rw [nrunHistory_norm sc cfg qmax fuel hist s', hn, Option.map_map]
  cases nrunHistory sc cfg qmax fuel hist s'.placed with
  | none => rfl
  | some t =>
    simp only [Option.map_some, Function.comp, NSt.img, NSt.shift, NSt.withEd, List.drop_left]

end TM
