/-
  Proofs/C08.lean — invariants of the protocol model `Model/AsyncSched.lean` (property C08).
-/
import Model.AsyncSched
import Model.Spec.C08

namespace TM
namespace AS

@[simp] theorem upd_same {α : Type} (f : Nat → α) (k : Nat) (v : α) : upd f k v k = v := by simp [upd]
theorem upd_ne {α : Type} (f : Nat → α) (k x : Nat) (v : α) (h : x ≠ k) : upd f k v x = f x := by simp [upd, h]

/-! ### cancellation only touches `phase` and `flag` -/

/-- `s'` differs from `s` at most in `phase` and `flag` -/
structure Frame (s s' : St) : Prop where
  res : s'.res = s.res
  emodel : s'.emodel = s.emodel
  call : s'.call = s.call
  chain : s'.chain = s.chain
  host : s'.host = s.host
  cur : s'.cur = s.cur
  deferred : s'.deferred = s.deferred
  outc : s'.outc = s.outc
  stack : s'.stack = s.stack
  reg : s'.reg = s.reg
  queue : s'.queue = s.queue
  drainer : s'.drainer = s.drainer
  mstate : s'.mstate = s.mstate

theorem Frame.rfl' (s : St) : Frame s s := ⟨rfl, rfl, rfl, rfl, rfl, rfl, rfl, rfl, rfl, rfl, rfl, rfl, rfl⟩

theorem Frame.trans {a b c : St} (h1 : Frame a b) (h2 : Frame b c) : Frame a c :=
  ⟨h2.res.trans h1.res, h2.emodel.trans h1.emodel, h2.call.trans h1.call, h2.chain.trans h1.chain,
   h2.host.trans h1.host, h2.cur.trans h1.cur, h2.deferred.trans h1.deferred, h2.outc.trans h1.outc,
   h2.stack.trans h1.stack, h2.reg.trans h1.reg, h2.queue.trans h1.queue, h2.drainer.trans h1.drainer,
   h2.mstate.trans h1.mstate⟩

theorem deliver_frame (c : Cfg) (s : St) (e : Nat) : Frame s (deliver c s e) := by
  unfold deliver
  split <;> (try split) <;> exact ⟨rfl, rfl, rfl, rfl, rfl, rfl, rfl, rfl, rfl, rfl, rfl, rfl, rfl⟩

theorem deliverCall_frame (c : Cfg) (s : St) (h : Nat) : Frame s (deliverCall c s h) := by
  unfold deliverCall
  split
  · exact deliver_frame c s _
  · exact Frame.rfl' s

theorem foldl_frame {f : St → Nat → St} (hf : ∀ s x, Frame s (f s x)) :
    ∀ (l : List Nat) (s : St), Frame s (l.foldl f s)
  | [], s => Frame.rfl' s
  | x :: l, s => (hf s x).trans (foldl_frame hf l (f s x))

theorem cancelChain_frame (c : Cfg) (s : St) (r : Nat) : Frame s (cancelChain c s r) :=
  foldl_frame (deliverCall_frame c) _ s

theorem cancelAll_frame (c : Cfg) (s : St) (rs : List Nat) : Frame s (cancelAll c s rs) :=
  foldl_frame (cancelChain_frame c) rs s

/-! ### the registry `async_tasks` is exactly the set of in-flight root tasks -/

structure RegInv (s : St) : Prop where
  exact : ∀ m r, (m, r) ∈ s.reg ↔ (s.call r = .active ∧ s.chain r = r ∧ s.emodel r = m)
  nodup : s.reg.Nodup

theorem RegInv.of_eq {s s' : St} (h : RegInv s) (hr : s'.reg = s.reg) (hc : s'.call = s.call)
    (hch : s'.chain = s.chain) (hm : s'.emodel = s.emodel) : RegInv s' :=
  ⟨by intro m r; rw [hr, hc, hch, hm]; exact h.exact m r, by rw [hr]; exact h.nodup⟩

theorem regInv_init (c : Cfg) : RegInv (St.init c) :=
  ⟨by intro m r; simp [St.init], by simp [St.init]⟩

theorem regInv_endCall {s : St} (h : RegInv s) (t : Nat) (ha : s.call t = .active) : RegInv (endCall s t) := by
  constructor
  · intro m r
    by_cases hrt : r = t
    · subst hrt
      simp only [endCall, upd_same]
      constructor
      · intro hm
        exfalso
        by_cases hc : s.chain r = r
        · simp only [hc, if_true] at hm
          have := (h.nodup.mem_erase_iff).1 hm
          have h2 := (h.exact m r).1 this.2
          exact this.1 (by rw [h2.2.2])
        · simp only [hc, if_false] at hm
          exact hc ((h.exact m r).1 hm).2.1
      · intro hh; cases hh.1
    · simp only [endCall, upd_ne _ _ _ _ hrt]
      have hmem : (m, r) ∈ (if s.chain t = t then s.reg.erase (s.emodel t, t) else s.reg) ↔ (m, r) ∈ s.reg := by
        split
        · rw [h.nodup.mem_erase_iff]
          constructor
          · exact fun x => x.2
          · intro x; exact ⟨by intro e; exact hrt (by cases e; rfl), x⟩
        · exact Iff.rfl
      rw [hmem]; exact h.exact m r
  · simp only [endCall]
    split
    · exact h.nodup.erase _
    · exact h.nodup

/-- the four fields the registry invariant talks about -/
structure SameReg (s s' : St) : Prop where
  reg : s'.reg = s.reg
  call : s'.call = s.call
  chain : s'.chain = s.chain
  emodel : s'.emodel = s.emodel

theorem Frame.sameReg {s s' : St} (h : Frame s s') : SameReg s s' := ⟨h.reg, h.call, h.chain, h.emodel⟩

/-- split the guards of a `step…` equation `h : … = some s'` completely, drop the `none` branches -/
macro "step_split" h:ident : tactic =>
  `(tactic| ((repeat' split at $h:ident) <;> (try (cases $h:ident))))

theorem sameReg_evstart {c : Cfg} {s s' : St} {t m : Nat} (h : stepEvstart c s t m = some s') : SameReg s s' := by
  unfold stepEvstart at h
  step_split h <;> exact ⟨rfl, rfl, rfl, rfl⟩

theorem sameReg_cb {s s' : St} {t k : Nat} (h : stepCb s t k = some s') : SameReg s s' := by
  unfold stepCb at h
  step_split h <;> exact ⟨rfl, rfl, rfl, rfl⟩

theorem sameReg_decide {c : Cfg} {s s' : St} {t : Nat} {cs : List Nat} (h : stepDecide c s t cs = some s') :
    SameReg s s' := by
  unfold stepDecide at h
  split at h
  · cases h
    have := (cancelAll_frame c { s with phase := upd s.phase t .mid } cs).sameReg
    exact ⟨this.reg, this.call, this.chain, this.emodel⟩
  · cases h

theorem sameReg_set {c : Cfg} {s s' : St} {t v : Nat} (h : stepSet c s t v = some s') : SameReg s s' := by
  unfold stepSet at h
  step_split h <;> exact ⟨rfl, rfl, rfl, rfl⟩

theorem sameReg_fail {c : Cfg} {s s' : St} {t : Nat} (h : stepFail c s t = some s') : SameReg s s' := by
  unfold stepFail at h
  step_split h <;> exact ⟨rfl, rfl, rfl, rfl⟩

theorem sameReg_remove {c : Cfg} {s s' : St} {m : Nat} (h : stepRemove c s m = some s') : SameReg s s' := by
  unfold stepRemove at h
  step_split h <;> exact ⟨rfl, rfl, rfl, rfl⟩

theorem sameReg_evend {c : Cfg} {s s' : St} {t m o : Nat} (h : stepEvend c s t m o = some s') : SameReg s s' := by
  have hf : SameReg s (finished s t) := by unfold finished; simp only; split <;> exact ⟨rfl, rfl, rfl, rfl⟩
  unfold stepEvend at h
  step_split h <;> exact ⟨hf.reg, hf.call, hf.chain, hf.emodel⟩

theorem regInv_begin {c : Cfg} {s s' : St} {t r m : Nat} (hi : RegInv s) (h : stepBegin c s t r m = some s') :
    RegInv s' := by
  unfold stepBegin at h
  by_cases hg : s.call t = .none ∧ s.phase t = .none ∧
      (if r = t then s.stack t = [] else (s.stack r ≠ [] ∧ s.call r = .active ∧ s.chain r = r))
  · rw [if_pos hg] at h
    obtain ⟨hcall, _, hroot⟩ := hg
    have hnot : ∀ m', (m', t) ∉ s.reg := by
      intro m' hm
      have := ((hi.exact m' t).1 hm).1
      rw [hcall] at this; cases this
    -- the four fields after the step, whatever the queue branch
    have key : s'.reg = (if r = t then s.reg ++ [(m, t)] else s.reg) ∧ s'.call = upd s.call t .active ∧
        s'.chain = upd s.chain t r ∧ s'.emodel = upd s.emodel t m := by
      simp only at h
      step_split h <;> refine ⟨?_, rfl, rfl, rfl⟩ <;>
        first | (rw [if_pos (by assumption)]) | (rw [if_neg (by assumption)])
    obtain ⟨k1, k2, k3, k4⟩ := key
    constructor
    · intro m' r'
      rw [k1, k2, k3, k4]
      by_cases hrt : r' = t
      · subst hrt
        simp only [upd_same]
        by_cases hr : r = r'
        · subst hr
          simp only [if_true, List.mem_append, List.mem_singleton, Prod.mk.injEq, and_true, true_and]
          constructor
          · rintro (hm | hm)
            · exact absurd hm (hnot m')
            · exact hm.symm
          · intro hm; exact Or.inr hm.symm
        · simp only [hr, if_false]
          constructor
          · intro hm; exact absurd hm (hnot m')
          · intro hh; exact hh.2.1.elim
      · simp only [upd_ne _ _ _ _ hrt]
        have : (m', r') ∈ (if r = t then s.reg ++ [(m, t)] else s.reg) ↔ (m', r') ∈ s.reg := by
          split
          · simp only [List.mem_append, List.mem_singleton, Prod.mk.injEq]
            constructor
            · rintro (hm | hm)
              · exact hm
              · exact absurd hm.2 hrt
            · exact Or.inl
          · exact Iff.rfl
        rw [this]; exact hi.exact m' r'
    · rw [k1]
      split
      · refine List.nodup_append.2 ⟨hi.nodup, by simp, ?_⟩
        intro a ha b hb
        simp only [List.mem_singleton] at hb
        subst hb
        intro e; subst e; exact hnot m ha
      · exact hi.nodup
  · rw [if_neg hg] at h; cases h

theorem regInv_ret {s s' : St} {t : Nat} {b : Bool} (hi : RegInv s) (h : stepRet s t b = some s') : RegInv s' := by
  unfold stepRet at h
  split at h
  next hg => cases h; exact regInv_endCall hi t hg.1
  · cases h

theorem regInv_raised {s s' : St} {t : Nat} {b : Bool} (hi : RegInv s) (h : stepRaised s t b = some s') :
    RegInv s' := by
  unfold stepRaised at h
  split at h
  next hg => cases h; exact regInv_endCall hi t hg.1
  · cases h

theorem regInv_step {c : Cfg} {s s' : St} {l : Label} (hi : RegInv s) (h : step c s l = some s') : RegInv s' := by
  have same : SameReg s s' → RegInv s' := fun x => hi.of_eq x.reg x.call x.chain x.emodel
  cases l with
  | begin t r m => exact regInv_begin hi h
  | evstart t m => exact same (sameReg_evstart h)
  | evend t m o => exact same (sameReg_evend h)
  | cb t k => exact same (sameReg_cb h)
  | decide t cs => exact same (sameReg_decide h)
  | set t v => exact same (sameReg_set h)
  | fail t => exact same (sameReg_fail h)
  | ret t b => exact regInv_ret hi h
  | raised t b => exact regInv_raised hi h
  | remove m => exact same (sameReg_remove h)

/-- an invariant of `step` holds along every schedule -/
theorem run_invariant {c : Cfg} (P : St → Prop) (hstep : ∀ s s' l, P s → step c s l = some s' → P s') :
    ∀ (ls : List Label) (s s' : St), P s → run c s ls = some s' → P s'
  | [], s, s', hp, h => by simp only [run, Option.some.injEq] at h; exact h ▸ hp
  | l :: ls, s, s', hp, h => by
    simp only [run] at h
    split at h
    next s1 h1 => exact run_invariant P hstep ls s1 s' (hstep s s1 l hp h1) h
    · cases h

theorem regInv_run {c : Cfg} {ls : List Label} {s : St} (h : run c (St.init c) ls = some s) : RegInv s :=
  run_invariant RegInv (fun _ _ _ hp hs => regInv_step hp hs) ls _ _ (regInv_init c) h

/-! ### the model state of every model is a registered state -/

theorem mstate_step {c : Cfg} {s s' : St} {l : Label} (hi : ∀ m, s.mstate m ∈ c.states)
    (h : step c s l = some s') : ∀ m, s'.mstate m ∈ c.states := by
  cases l with
  | set t v =>
    simp only [step] at h
    unfold stepSet at h
    split at h
    next hg =>
      cases h
      intro m
      by_cases hm : m = s.emodel t
      · subst hm; simp only [upd_same]; exact hg.2.2
      · simp only [upd_ne _ _ _ _ hm]; exact hi m
    · cases h
  | decide t cs =>
    simp only [step] at h
    unfold stepDecide at h
    split at h
    · cases h
      have := (cancelAll_frame c { s with phase := upd s.phase t .mid } cs).mstate
      intro m; rw [this]; exact hi m
    · cases h
  | begin t r m =>
    simp only [step] at h
    unfold stepBegin at h
    by_cases hg : s.call t = .none ∧ s.phase t = .none ∧
        (if r = t then s.stack t = [] else (s.stack r ≠ [] ∧ s.call r = .active ∧ s.chain r = r))
    · rw [if_pos hg] at h
      simp only at h
      step_split h <;> exact hi
    · rw [if_neg hg] at h; cases h
  | evstart t m => simp only [step] at h; unfold stepEvstart at h; step_split h <;> exact hi
  | evend t m o =>
    have hf : (finished s t).mstate = s.mstate := by unfold finished; simp only; split <;> rfl
    simp only [step] at h; unfold stepEvend at h; step_split h <;> (intro m; show (finished s t).mstate m ∈ _; rw [hf]; exact hi m)
  | cb t k => simp only [step] at h; unfold stepCb at h; step_split h <;> exact hi
  | fail t => simp only [step] at h; unfold stepFail at h; step_split h <;> exact hi
  | ret t b => simp only [step] at h; unfold stepRet at h; step_split h <;> exact hi
  | raised t b => simp only [step] at h; unfold stepRaised at h; step_split h <;> exact hi
  | remove m => simp only [step] at h; unfold stepRemove at h; step_split h <;> exact hi

/-! ### queue discipline -/

def started (p : Phase) : Prop := 2 ≤ p.rank

/-- a step that leaves every queue and every event's model alone, keeps waiting events waiting and
started events started -/
structure Quiet (s s' : St) : Prop where
  queue : s'.queue = s.queue
  emodel : s'.emodel = s.emodel
  idle : ∀ x, s.phase x = .idle → s'.phase x = .idle
  started : ∀ x, started (s.phase x) → started (s'.phase x)

theorem Quiet.rfl' (s : St) : Quiet s s := ⟨rfl, rfl, fun _ h => h, fun _ h => h⟩

theorem Quiet.trans {a b c : St} (h1 : Quiet a b) (h2 : Quiet b c) : Quiet a c :=
  ⟨h2.queue.trans h1.queue, h2.emodel.trans h1.emodel, fun x h => h2.idle x (h1.idle x h),
   fun x h => h2.started x (h1.started x h)⟩

/-- writing a started phase into the slot of an event that is not waiting -/
theorem quiet_setPhase (s : St) (t : Nat) (p : Phase) (fl : Nat → Flag) (rs : Nat → Bool) (ms : Nat → Nat)
    (cu : Nat → Option Nat) (oc : Nat → Option Out)
    (hp : started p) (ht : s.phase t ≠ .idle) :
    Quiet s { s with phase := upd s.phase t p, flag := fl, res := rs, mstate := ms, cur := cu, outc := oc } := by
  refine ⟨rfl, rfl, ?_, ?_⟩ <;> intro x hx <;> by_cases hxe : x = t
  · subst hxe; exact absurd hx ht
  · simpa [upd, hxe] using hx
  · subst hxe; simpa [upd] using hp
  · simpa [upd, hxe] using hx

theorem deliver_quiet (c : Cfg) (s : St) (e : Nat) : Quiet s (deliver c s e) := by
  unfold deliver
  split <;> (try split) <;>
    first
    | exact Quiet.rfl' s
    | exact quiet_setPhase s e _ _ _ _ _ _ (by simp [started, Phase.rank]) (by simp [*])

theorem ne_none_cases (p : Phase) (h : p ≠ .none) : p = .idle ∨ started p := by
  cases p <;> simp_all [started, Phase.rank]

theorem started_ne_none {p : Phase} (h : started p) : p ≠ .none := by
  cases p <;> simp_all [started, Phase.rank]

theorem started_ne_idle {p : Phase} (h : started p) : p ≠ .idle := by
  cases p <;> simp_all [started, Phase.rank]

theorem Quiet.ne_none {s s' : St} (hq : Quiet s s') (x : Nat) (h : s.phase x ≠ .none) : s'.phase x ≠ .none := by
  rcases ne_none_cases _ h with h1 | h1
  · rw [hq.idle x h1]; simp
  · exact started_ne_none (hq.started x h1)

theorem deliverCall_quiet (c : Cfg) (s : St) (h : Nat) : Quiet s (deliverCall c s h) := by
  unfold deliverCall
  split
  · exact deliver_quiet c s _
  · exact Quiet.rfl' s

theorem foldl_quiet {f : St → Nat → St} (hf : ∀ s x, Quiet s (f s x)) :
    ∀ (l : List Nat) (s : St), Quiet s (l.foldl f s)
  | [], s => Quiet.rfl' s
  | x :: l, s => (hf s x).trans (foldl_quiet hf l (f s x))

theorem cancelAll_quiet (c : Cfg) (s : St) (rs : List Nat) : Quiet s (cancelAll c s rs) :=
  foldl_quiet (fun s r => foldl_quiet (deliverCall_quiet c) _ s) rs s


theorem quiet_cb {s s' : St} {t k : Nat} (h : stepCb s t k = some s') : Quiet s s' := by
  unfold stepCb at h
  step_split h <;>
    first
    | exact Quiet.rfl' _
    | exact quiet_setPhase s t _ _ _ _ _ _ (by simp [started, Phase.rank]) (by simp [*])

theorem quiet_set {c : Cfg} {s s' : St} {t v : Nat} (h : stepSet c s t v = some s') : Quiet s s' := by
  unfold stepSet at h
  split at h
  next hg => cases h; exact quiet_setPhase s t _ _ _ _ _ _ (by simp [started, Phase.rank]) (by simp [hg.2.1])
  · cases h

theorem quiet_fail {c : Cfg} {s s' : St} {t : Nat} (h : stepFail c s t = some s') : Quiet s s' := by
  unfold stepFail at h
  step_split h <;>
    first
    | exact Quiet.rfl' _
    | exact quiet_setPhase s t _ _ _ _ _ _ (by simp [started, Phase.rank]) (by simp [*])

theorem quiet_decide {c : Cfg} {s s' : St} {t : Nat} {cs : List Nat} (h : stepDecide c s t cs = some s') :
    Quiet s s' := by
  unfold stepDecide at h
  split at h
  next hg =>
    cases h
    exact (quiet_setPhase s t .mid _ _ _ _ _ (by simp [started, Phase.rank]) (by simp [hg.2.1])).trans
      (cancelAll_quiet c _ cs)
  · cases h

theorem quiet_endCall (s : St) (t : Nat) : Quiet s (endCall s t) := ⟨rfl, rfl, fun _ h => h, fun _ h => h⟩

theorem quiet_ret {s s' : St} {t : Nat} {b : Bool} (h : stepRet s t b = some s') : Quiet s s' := by
  unfold stepRet at h
  split at h
  · cases h; exact quiet_endCall s t
  · cases h

theorem quiet_raised {s s' : St} {t : Nat} {b : Bool} (h : stepRaised s t b = some s') : Quiet s s' := by
  unfold stepRaised at h
  split at h
  · cases h; exact quiet_endCall s t
  · cases h

/-- The queue invariant for key `k`: `S` = events of the key started so far, `A` = arrived so far,
`o` = the event being processed.  Everything started or still pending occurs in arrival order. -/
structure QInv (c : Cfg) (k : Nat) (s : St) (S A : List Nat) (o : Option Nat) : Prop where
  keys : ∀ x ∈ s.queue k, c.key (s.emodel x) = k
  nodupA : A.Nodup
  seen : ∀ x ∈ A, s.phase x ≠ .none
  shape : match o with
    | none => (S ++ s.queue k).Sublist A ∧ ∀ x ∈ s.queue k, s.phase x = .idle
    | some t => ∃ rest, s.queue k = t :: rest ∧ (S ++ rest).Sublist A ∧ (∀ x ∈ rest, s.phase x = .idle) ∧
        started (s.phase t) ∧ t ∈ S

theorem qinv_quiet {c : Cfg} {k : Nat} {s s' : St} {S A : List Nat} {o : Option Nat}
    (hi : QInv c k s S A o) (hq : Quiet s s') : QInv c k s' S A o := by
  constructor
  · intro x hx; rw [hq.queue] at hx; rw [hq.emodel]; exact hi.keys x hx
  · exact hi.nodupA
  · intro x hx
    exact hq.ne_none x (hi.seen x hx)
  · have := hi.shape
    cases o with
    | none =>
      simp only at this ⊢
      rw [hq.queue]
      exact ⟨this.1, fun x hx => hq.idle x (this.2 x hx)⟩
    | some t =>
      simp only at this ⊢
      obtain ⟨rest, h1, h2, h3, h4, h5⟩ := this
      exact ⟨rest, by rw [hq.queue]; exact h1, h2, fun x hx => hq.idle x (h3 x hx), hq.started t h4, h5⟩

theorem begin_char {c : Cfg} {s s' : St} {t r m : Nat} (hq : c.queued ≠ 0) (h : stepBegin c s t r m = some s') :
    s.phase t = .none ∧ s'.phase = upd s.phase t .idle ∧ s'.emodel = upd s.emodel t m ∧
    s'.queue = upd s.queue (c.key m) (s.queue (c.key m) ++ [t]) := by
  unfold stepBegin at h
  by_cases hg : s.call t = .none ∧ s.phase t = .none ∧
      (if r = t then s.stack t = [] else (s.stack r ≠ [] ∧ s.call r = .active ∧ s.chain r = r))
  · rw [if_pos hg] at h
    simp only at h
    try rw [if_neg hq] at h
    by_cases he : s.queue (c.key m) = []
    · rw [if_pos he] at h; cases h
      exact ⟨hg.2.1, rfl, rfl, by simp [he]⟩
    · rw [if_neg he] at h; cases h
      exact ⟨hg.2.1, rfl, rfl, rfl⟩
  · rw [if_neg hg] at h; cases h

theorem evstart_char {c : Cfg} {s s' : St} {t m : Nat} (hq : c.queued ≠ 0) (h : stepEvstart c s t m = some s') :
    s.phase t = .idle ∧ s.emodel t = m ∧ (s.queue (c.key m)).head? = some t ∧
    s'.phase = upd s.phase t .pre ∧ s'.emodel = s.emodel ∧ s'.queue = s.queue := by
  unfold stepEvstart at h
  split at h
  next hg =>
    try rw [if_neg hq] at h
    split at h
    · split at h
      next hg2 => cases h; exact ⟨hg.1, hg.2, hg2.1, rfl, rfl, rfl⟩
      · cases h
    · cases h
  · cases h

theorem finished_fields (s : St) (t : Nat) :
    (finished s t).emodel = s.emodel ∧ (finished s t).queue = s.queue ∧
    (∀ y, y ≠ t → (finished s t).phase y = s.phase y) ∧ (finished s t).phase t = .over := by
  unfold finished
  simp only
  split
  · exact ⟨rfl, rfl, fun y hy => by simp [upd, hy], by simp⟩
  · exact ⟨rfl, rfl, fun y hy => by simp [advFin, upd, hy], by simp⟩

theorem evend_char {c : Cfg} {s s' : St} {t m o : Nat} (hq : c.queued ≠ 0) (h : stepEvend c s t m o = some s') :
    s.emodel t = m ∧ endable (s.phase t) = true ∧ s'.emodel = s.emodel ∧
    (∀ x, x ≠ t → s'.phase x = s.phase x) ∧ s'.phase t = .over ∧
    ∃ rest, s.queue (c.key m) = t :: rest ∧
      (s'.queue = upd s.queue (c.key m) rest ∨ s'.queue = upd s.queue (c.key m) []) := by
  obtain ⟨f1, _, f3, f4⟩ := finished_fields s t
  unfold stepEvend at h
  split at h
  next hg =>
    try rw [if_neg hq] at h
    cases hqq : s.queue (c.key m) with
    | nil => simp only [hqq] at h; cases h
    | cons t' rest =>
      simp only [hqq] at h
      split at h
      next htt =>
        subst htt
        refine ⟨hg.2.1, hg.2.2.1, ?_⟩
        step_split h
        · exact ⟨f1, f3, f4, rest, rfl, Or.inr rfl⟩
        · exact ⟨f1, f3, f4, rest, rfl, Or.inl rfl⟩
        · exact ⟨f1, f3, f4, rest, rfl, Or.inr rfl⟩
      · cases h
  · cases h

theorem remove_char {c : Cfg} {s s' : St} {m : Nat} (hq : c.queued ≠ 0) (h : stepRemove c s m = some s') :
    s'.phase = s.phase ∧ s'.emodel = s.emodel ∧
    (s'.queue = s.queue ∨ ∃ hd rest, s.queue 0 = hd :: rest ∧
      s'.queue = upd s.queue 0 (hd :: rest.filter fun e => s.emodel e != m)) := by
  unfold stepRemove at h
  rw [if_neg hq] at h
  split at h
  · split at h
    · cases h; exact ⟨rfl, rfl, Or.inl rfl⟩
    next hd rest hqq => cases h; exact ⟨rfl, rfl, Or.inr ⟨hd, rest, hqq, rfl⟩⟩
  · cases h

/-- one step of the `alternates` scan -/
def scan1 (c : Cfg) (k : Nat) (o : Option Nat) : Label → Option (Option Nat)
  | .evstart t m => if c.key m = k then (if o = none then some (some t) else none) else some o
  | .evend t m _ => if c.key m = k then (if o = some t then some none else none) else some o
  | _ => some o

theorem alternates_cons (c : Cfg) (k : Nat) (o : Option Nat) (l : Label) (ls : List Label) :
    alternates c k o (l :: ls) = match scan1 c k o l with
      | some o' => alternates c k o' ls
      | none => false := by
  cases l with
  | evstart t m =>
    simp only [alternates, scan1]
    split
    · cases o <;> simp
    · rfl
  | evend t m x =>
    simp only [alternates, scan1]
    split
    · by_cases h : o = some t
      · subst h; simp
      · have : (o == some t) = false := by simpa using h
        simp [h, this]
    · rfl
  | _ => simp only [alternates, scan1]

theorem starts_cons (c : Cfg) (k : Nat) (l : Label) (ls : List Label) :
    starts c k (l :: ls) = starts c k [l] ++ starts c k ls := by
  cases l <;> simp only [starts, List.nil_append]
  split <;> simp

theorem arrivals_cons (c : Cfg) (k : Nat) (l : Label) (ls : List Label) :
    arrivals c k (l :: ls) = arrivals c k [l] ++ arrivals c k ls := by
  cases l <;> simp only [arrivals, List.nil_append]
  split <;> simp

theorem QInv.queue_ne_none {c : Cfg} {k : Nat} {s : St} {S A : List Nat} {o : Option Nat}
    (hi : QInv c k s S A o) : ∀ x ∈ s.queue k, s.phase x ≠ .none := by
  intro x hx
  have := hi.shape
  cases o with
  | none => simp only at this; rw [this.2 x hx]; simp
  | some t =>
    simp only at this
    obtain ⟨rest, h1, _, h3, h4, _⟩ := this
    rw [h1] at hx
    rcases List.mem_cons.1 hx with hx | hx
    · subst hx; exact started_ne_none h4
    · rw [h3 x hx]; simp

theorem qinv_begin {c : Cfg} {k : Nat} {s s' : St} {S A : List Nat} {o : Option Nat} {t r m : Nat}
    (hq : c.queued ≠ 0) (hi : QInv c k s S A o) (h : stepBegin c s t r m = some s') :
    QInv c k s' S (A ++ arrivals c k [.begin t r m]) o := by
  obtain ⟨hnone, hph, hem, hqu⟩ := begin_char hq h
  have hfresh : ∀ x, s.phase x ≠ .none → x ≠ t := fun x hx e => hx (e ▸ hnone)
  have hphx : ∀ x, x ≠ t → s'.phase x = s.phase x := fun x hx => by rw [hph, upd_ne _ _ _ _ hx]
  have hemx : ∀ x, x ≠ t → s'.emodel x = s.emodel x := fun x hx => by rw [hem, upd_ne _ _ _ _ hx]
  have hqn := hi.queue_ne_none
  by_cases hk : c.key m = k
  · -- arrives in this queue
    have hq' : s'.queue k = s.queue k ++ [t] := by rw [hqu, hk, upd_same]
    have hA : arrivals c k [Label.begin t r m] = [t] := by simp [arrivals, hk]
    rw [hA]
    have htA : t ∉ A := fun ht => hi.seen t ht hnone
    constructor
    · intro x hx
      rw [hq'] at hx
      rcases List.mem_append.1 hx with hx | hx
      · rw [hemx x (hfresh x (hqn x hx))]; exact hi.keys x hx
      · simp only [List.mem_singleton] at hx; subst hx; rw [hem, upd_same]; exact hk
    · refine List.nodup_append.2 ⟨hi.nodupA, by simp, ?_⟩
      intro a ha b hb; simp only [List.mem_singleton] at hb; subst hb; intro e; subst e; exact htA ha
    · intro x hx
      rcases List.mem_append.1 hx with hx | hx
      · rw [hphx x (hfresh x (hi.seen x hx))]; exact hi.seen x hx
      · simp only [List.mem_singleton] at hx; subst hx; rw [hph, upd_same]; simp
    · have := hi.shape
      cases o with
      | none =>
        simp only at this ⊢
        rw [hq']
        refine ⟨by rw [← List.append_assoc]; exact this.1.append (List.Sublist.refl _), ?_⟩
        intro x hx
        rcases List.mem_append.1 hx with hx | hx
        · rw [hphx x (hfresh x (hqn x hx))]; exact this.2 x hx
        · simp only [List.mem_singleton] at hx; subst hx; rw [hph, upd_same]
      | some t0 =>
        simp only at this ⊢
        obtain ⟨rest, h1, h2, h3, h4, h5⟩ := this
        have ht0 : t0 ≠ t := hfresh t0 (started_ne_none h4)
        refine ⟨rest ++ [t], by rw [hq', h1]; rfl, by rw [← List.append_assoc]; exact h2.append (List.Sublist.refl _),
          ?_, by rw [hphx t0 ht0]; exact h4, h5⟩
        intro x hx
        rcases List.mem_append.1 hx with hx | hx
        · have : x ∈ s.queue k := by rw [h1]; exact List.mem_cons_of_mem _ hx
          rw [hphx x (hfresh x (hqn x this))]; exact h3 x hx
        · simp only [List.mem_singleton] at hx; subst hx; rw [hph, upd_same]
  · -- another queue
    have hq' : s'.queue k = s.queue k := by rw [hqu, upd_ne _ _ _ _ (Ne.symm hk)]
    have hA : arrivals c k [Label.begin t r m] = [] := by simp [arrivals, hk]
    rw [hA, List.append_nil]
    constructor
    · intro x hx
      rw [hq'] at hx
      rw [hemx x (hfresh x (hqn x hx))]; exact hi.keys x hx
    · exact hi.nodupA
    · intro x hx
      rw [hphx x (hfresh x (hi.seen x hx))]; exact hi.seen x hx
    · have := hi.shape
      cases o with
      | none =>
        simp only at this ⊢
        rw [hq']
        exact ⟨this.1, fun x hx => by rw [hphx x (hfresh x (hqn x hx))]; exact this.2 x hx⟩
      | some t0 =>
        simp only at this ⊢
        obtain ⟨rest, h1, h2, h3, h4, h5⟩ := this
        have ht0 : t0 ≠ t := hfresh t0 (started_ne_none h4)
        refine ⟨rest, by rw [hq', h1], h2, ?_, by rw [hphx t0 ht0]; exact h4, h5⟩
        intro x hx
        have : x ∈ s.queue k := by rw [h1]; exact List.mem_cons_of_mem _ hx
        rw [hphx x (hfresh x (hqn x this))]; exact h3 x hx

theorem sublist_nodup_notin {S rest A : List Nat} {t : Nat} (hs : (S ++ rest).Sublist A) (hA : A.Nodup)
    (ht : t ∈ S) : t ∉ rest := by
  have hn : (S ++ rest).Nodup := hs.nodup hA
  intro hr
  exact (List.nodup_append.1 hn).2.2 t ht t hr rfl

theorem qinv_evstart {c : Cfg} {k : Nat} {s s' : St} {S A : List Nat} {o : Option Nat} {t m : Nat}
    (hq : c.queued ≠ 0) (hi : QInv c k s S A o) (h : stepEvstart c s t m = some s') :
    ∃ o', scan1 c k o (.evstart t m) = some o' ∧ QInv c k s' (S ++ starts c k [.evstart t m]) A o' := by
  obtain ⟨hidle, hem, hhead, hph, hem', hqu⟩ := evstart_char hq h
  have hphx : ∀ x, x ≠ t → s'.phase x = s.phase x := fun x hx => by rw [hph, upd_ne _ _ _ _ hx]
  have hseen : ∀ x ∈ A, s'.phase x ≠ .none := by
    intro x hx
    by_cases hxt : x = t
    · subst hxt; rw [hph, upd_same]; simp
    · rw [hphx x hxt]; exact hi.seen x hx
  by_cases hk : c.key m = k
  · have hS : starts c k [Label.evstart t m] = [t] := by simp [starts, hk]
    rw [hS]
    have hsh := hi.shape
    cases o with
    | some t0 =>
      exfalso
      simp only at hsh
      obtain ⟨rest, h1, _, _, h4, _⟩ := hsh
      rw [hk, h1] at hhead
      simp only [List.head?_cons, Option.some.injEq] at hhead
      subst hhead
      exact started_ne_idle h4 hidle
    | none =>
      simp only at hsh
      refine ⟨some t, by simp [scan1, hk], ?_⟩
      cases hqq : s.queue k with
      | nil => rw [hk, hqq] at hhead; simp at hhead
      | cons t1 rest =>
        rw [hk, hqq] at hhead
        simp only [List.head?_cons, Option.some.injEq] at hhead
        subst hhead
        rw [hqq] at hsh
        have hsub : (S ++ [t1] ++ rest).Sublist A := by simpa using hsh.1
        have hnot : t1 ∉ rest := sublist_nodup_notin hsub hi.nodupA (by simp)
        constructor
        · intro x hx; rw [hqu] at hx; rw [hem']; exact hi.keys x hx
        · exact hi.nodupA
        · exact hseen
        · simp only
          refine ⟨rest, by rw [hqu, hqq], hsub, ?_, by rw [hph, upd_same]; simp [started, Phase.rank], by simp⟩
          intro x hx
          have hxt : x ≠ t1 := fun e => hnot (e ▸ hx)
          rw [hphx x hxt]; exact hsh.2 x (List.mem_cons_of_mem _ hx)
  · have hS : starts c k [Label.evstart t m] = [] := by simp [starts, hk]
    rw [hS, List.append_nil]
    refine ⟨o, by simp [scan1, hk], ?_⟩
    have hnotq : ∀ x ∈ s.queue k, x ≠ t := by
      intro x hx e; subst e
      have := hi.keys x hx
      rw [hem] at this; exact hk this
    constructor
    · intro x hx; rw [hqu] at hx; rw [hem']; exact hi.keys x hx
    · exact hi.nodupA
    · exact hseen
    · have hsh := hi.shape
      cases o with
      | none =>
        simp only at hsh ⊢
        rw [hqu]
        exact ⟨hsh.1, fun x hx => by rw [hphx x (hnotq x hx)]; exact hsh.2 x hx⟩
      | some t0 =>
        simp only at hsh ⊢
        obtain ⟨rest, h1, h2, h3, h4, h5⟩ := hsh
        have ht0 : t0 ≠ t := hnotq t0 (by rw [h1]; exact List.mem_cons_self ..)
        refine ⟨rest, by rw [hqu, h1], h2, ?_, by rw [hphx t0 ht0]; exact h4, h5⟩
        intro x hx
        rw [hphx x (hnotq x (by rw [h1]; exact List.mem_cons_of_mem _ hx))]; exact h3 x hx

theorem endable_ne_idle {p : Phase} (h : endable p = true) : p ≠ .idle := by
  cases p <;> simp_all [endable]

theorem qinv_evend {c : Cfg} {k : Nat} {s s' : St} {S A : List Nat} {o : Option Nat} {t m x : Nat}
    (hq : c.queued ≠ 0) (hi : QInv c k s S A o) (h : stepEvend c s t m x = some s') :
    ∃ o', scan1 c k o (.evend t m x) = some o' ∧ QInv c k s' S A o' := by
  obtain ⟨hem, hend, hem', hphx, hover, rest, hqq, hqu⟩ := evend_char hq h
  have hseen : ∀ y ∈ A, s'.phase y ≠ .none := by
    intro y hy
    by_cases hyt : y = t
    · subst hyt; rw [hover]; simp
    · rw [hphx y hyt]; exact hi.seen y hy
  by_cases hk : c.key m = k
  · rw [hk] at hqq hqu
    have hsh := hi.shape
    cases o with
    | none =>
      exfalso
      simp only at hsh
      have := hsh.2 t (by rw [hqq]; exact List.mem_cons_self ..)
      exact endable_ne_idle hend this
    | some t0 =>
      simp only at hsh
      obtain ⟨rest0, h1, h2, h3, _, h5⟩ := hsh
      rw [hqq] at h1
      simp only [List.cons.injEq] at h1
      obtain ⟨e1, e2⟩ := h1
      subst e1; subst e2
      refine ⟨none, by simp [scan1, hk], ?_⟩
      have hnot : t ∉ rest := sublist_nodup_notin h2 hi.nodupA h5
      have hkeys : ∀ y ∈ rest, c.key (s'.emodel y) = k := by
        intro y hy; rw [hem']; exact hi.keys y (by rw [hqq]; exact List.mem_cons_of_mem _ hy)
      have hidle : ∀ y ∈ rest, s'.phase y = .idle := by
        intro y hy
        rw [hphx y (fun e => hnot (e ▸ hy))]; exact h3 y hy
      rcases hqu with hqu | hqu
      · have hq' : s'.queue k = rest := by rw [hqu, upd_same]
        exact ⟨by rw [hq']; exact hkeys, hi.nodupA, hseen, by simp only; rw [hq']; exact ⟨h2, hidle⟩⟩
      · have hq' : s'.queue k = [] := by rw [hqu, upd_same]
        refine ⟨by rw [hq']; simp, hi.nodupA, hseen, ?_⟩
        simp only; rw [hq']
        exact ⟨by simpa using (List.sublist_append_left S rest).trans h2, by simp⟩
  · refine ⟨o, by simp [scan1, hk], ?_⟩
    have hq' : s'.queue k = s.queue k := by
      rcases hqu with hqu | hqu <;> rw [hqu, upd_ne _ _ _ _ (Ne.symm hk)]
    have hnotq : ∀ y ∈ s.queue k, y ≠ t := by
      intro y hy e; subst e
      have := hi.keys y hy
      rw [hem] at this; exact hk this
    constructor
    · intro y hy; rw [hq'] at hy; rw [hem']; exact hi.keys y hy
    · exact hi.nodupA
    · exact hseen
    · have hsh := hi.shape
      cases o with
      | none =>
        simp only at hsh ⊢
        rw [hq']
        exact ⟨hsh.1, fun y hy => by rw [hphx y (hnotq y hy)]; exact hsh.2 y hy⟩
      | some t0 =>
        simp only at hsh ⊢
        obtain ⟨rest0, h1, h2, h3, h4, h5⟩ := hsh
        have ht0 : t0 ≠ t := hnotq t0 (by rw [h1]; exact List.mem_cons_self ..)
        refine ⟨rest0, by rw [hq', h1], h2, ?_, by rw [hphx t0 ht0]; exact h4, h5⟩
        intro y hy
        rw [hphx y (hnotq y (by rw [h1]; exact List.mem_cons_of_mem _ hy))]; exact h3 y hy

theorem qinv_remove {c : Cfg} {k : Nat} {s s' : St} {S A : List Nat} {o : Option Nat} {m : Nat}
    (hq : c.queued ≠ 0) (hi : QInv c k s S A o) (h : stepRemove c s m = some s') : QInv c k s' S A o := by
  obtain ⟨hph, hem, hqu⟩ := remove_char hq h
  rcases hqu with hqu | ⟨hd, rest, hqq, hqu⟩
  · exact qinv_quiet hi ⟨hqu, hem, fun x hx => by rw [hph]; exact hx, fun x hx => by rw [hph]; exact hx⟩
  · by_cases hk : k = 0
    · subst hk
      have hq' : s'.queue 0 = hd :: rest.filter fun e => s.emodel e != m := by rw [hqu, upd_same]
      have hsubq : (rest.filter fun e => s.emodel e != m).Sublist rest := List.filter_sublist
      constructor
      · intro x hx
        rw [hq'] at hx; rw [hem]
        apply hi.keys x
        rw [hqq]
        rcases List.mem_cons.1 hx with hx | hx
        · subst hx; exact List.mem_cons_self ..
        · exact List.mem_cons_of_mem _ (hsubq.subset hx)
      · exact hi.nodupA
      · intro x hx; rw [hph]; exact hi.seen x hx
      · have hsh := hi.shape
        cases o with
        | none =>
          simp only at hsh ⊢
          rw [hq', hph]
          rw [hqq] at hsh
          refine ⟨(List.Sublist.append (List.Sublist.refl S) (hsubq.cons₂ hd)).trans hsh.1, ?_⟩
          intro x hx
          apply hsh.2 x
          rcases List.mem_cons.1 hx with hx | hx
          · subst hx; exact List.mem_cons_self ..
          · exact List.mem_cons_of_mem _ (hsubq.subset hx)
        | some t0 =>
          simp only at hsh ⊢
          obtain ⟨rest0, h1, h2, h3, h4, h5⟩ := hsh
          rw [hqq] at h1
          simp only [List.cons.injEq] at h1
          obtain ⟨e1, e2⟩ := h1
          subst e1; subst e2
          refine ⟨_, hq', (List.Sublist.append (List.Sublist.refl S) hsubq).trans h2, ?_, by rw [hph]; exact h4, h5⟩
          intro x hx
          rw [hph]; exact h3 x (hsubq.subset hx)
    · have hq' : s'.queue k = s.queue k := by rw [hqu, upd_ne _ _ _ _ hk]
      constructor
      · intro x hx; rw [hq'] at hx; rw [hem]; exact hi.keys x hx
      · exact hi.nodupA
      · intro x hx; rw [hph]; exact hi.seen x hx
      · have hsh := hi.shape
        cases o with
        | none => simp only at hsh ⊢; rw [hq', hph]; exact hsh
        | some t0 => simp only at hsh ⊢; rw [hq', hph]; exact hsh

theorem qinv_step {c : Cfg} {k : Nat} {s s' : St} {S A : List Nat} {o : Option Nat} {l : Label}
    (hq : c.queued ≠ 0) (hi : QInv c k s S A o) (h : step c s l = some s') :
    ∃ o', scan1 c k o l = some o' ∧ QInv c k s' (S ++ starts c k [l]) (A ++ arrivals c k [l]) o' := by
  cases l with
  | begin t r m =>
    exact ⟨o, rfl, by simpa [starts] using qinv_begin hq hi h⟩
  | evstart t m =>
    obtain ⟨o', h1, h2⟩ := qinv_evstart hq hi h
    exact ⟨o', h1, by simpa [arrivals] using h2⟩
  | evend t m x =>
    obtain ⟨o', h1, h2⟩ := qinv_evend hq hi h
    exact ⟨o', h1, by simpa [arrivals, starts] using h2⟩
  | cb t k' => exact ⟨o, rfl, by simpa [arrivals, starts] using qinv_quiet hi (quiet_cb h)⟩
  | decide t cs => exact ⟨o, rfl, by simpa [arrivals, starts] using qinv_quiet hi (quiet_decide h)⟩
  | set t v => exact ⟨o, rfl, by simpa [arrivals, starts] using qinv_quiet hi (quiet_set h)⟩
  | fail t => exact ⟨o, rfl, by simpa [arrivals, starts] using qinv_quiet hi (quiet_fail h)⟩
  | ret t b => exact ⟨o, rfl, by simpa [arrivals, starts] using qinv_quiet hi (quiet_ret h)⟩
  | raised t b => exact ⟨o, rfl, by simpa [arrivals, starts] using qinv_quiet hi (quiet_raised h)⟩
  | remove m => exact ⟨o, rfl, by simpa [arrivals, starts] using qinv_remove hq hi h⟩

theorem qinv_run {c : Cfg} {k : Nat} (hq : c.queued ≠ 0) :
    ∀ (ls : List Label) (s s' : St) (S A : List Nat) (o : Option Nat),
      QInv c k s S A o → run c s ls = some s' →
      alternates c k o ls = true ∧ ∃ o', QInv c k s' (S ++ starts c k ls) (A ++ arrivals c k ls) o'
  | [], s, s', S, A, o, hi, h => by
    simp only [run, Option.some.injEq] at h
    subst h
    exact ⟨rfl, o, by simpa [starts, arrivals] using hi⟩
  | l :: ls, s, s', S, A, o, hi, h => by
    simp only [run] at h
    split at h
    next s1 h1 =>
      obtain ⟨o1, hs, hi1⟩ := qinv_step hq hi h1
      obtain ⟨ha, o2, hi2⟩ := qinv_run hq ls s1 s' _ _ o1 hi1 h
      refine ⟨by rw [alternates_cons, hs]; exact ha, o2, ?_⟩
      rw [starts_cons c k l ls, arrivals_cons c k l ls, ← List.append_assoc, ← List.append_assoc]
      exact hi2
    · cases h

theorem qinv_init (c : Cfg) (k : Nat) : QInv c k (St.init c) [] [] none :=
  ⟨by simp [St.init], by simp, by simp, by simp [St.init]⟩

theorem QInv.fifo {c : Cfg} {k : Nat} {s : St} {S A : List Nat} {o : Option Nat} (hi : QInv c k s S A o) :
    S.Sublist A := by
  have := hi.shape
  cases o with
  | none => simp only at this; exact (List.sublist_append_left S _).trans this.1
  | some t =>
    simp only at this
    obtain ⟨rest, _, h2, _⟩ := this
    exact (List.sublist_append_left S _).trans h2

/-! ### cancellation: phases only move forward, a cancelled event is past its transition stages -/

def PhaseLe (s s' : St) : Prop := ∀ e, (s.phase e).rank ≤ (s'.phase e).rank

theorem PhaseLe.rfl' (s : St) : PhaseLe s s := fun _ => Nat.le_refl _
theorem PhaseLe.trans {a b c : St} (h1 : PhaseLe a b) (h2 : PhaseLe b c) : PhaseLe a c :=
  fun e => Nat.le_trans (h1 e) (h2 e)

theorem phaseLe_of_upd {s s' : St} {t : Nat} {p : Phase} (hp : s'.phase = upd s.phase t p)
    (h : (s.phase t).rank ≤ p.rank) : PhaseLe s s' := by
  intro e
  rw [hp]
  by_cases he : e = t
  · subst he; simpa using h
  · rw [upd_ne _ _ _ _ he]; exact Nat.le_refl _

theorem deliver_phaseLe (c : Cfg) (s : St) (e : Nat) : PhaseLe s (deliver c s e) := by
  unfold deliver
  split <;> (try split) <;>
    first
    | exact PhaseLe.rfl' s
    | exact phaseLe_of_upd (t := e) rfl (by simp [*, Phase.rank])

theorem deliverCall_phaseLe (c : Cfg) (s : St) (h : Nat) : PhaseLe s (deliverCall c s h) := by
  unfold deliverCall
  split
  · exact deliver_phaseLe c s _
  · exact PhaseLe.rfl' s

theorem foldl_phaseLe {f : St → Nat → St} (hf : ∀ s x, PhaseLe s (f s x)) :
    ∀ (l : List Nat) (s : St), PhaseLe s (l.foldl f s)
  | [], s => PhaseLe.rfl' s
  | x :: l, s => (hf s x).trans (foldl_phaseLe hf l (f s x))

theorem cancelChain_phaseLe (c : Cfg) (s : St) (r : Nat) : PhaseLe s (cancelChain c s r) :=
  foldl_phaseLe (deliverCall_phaseLe c) _ s

theorem cancelAll_phaseLe (c : Cfg) (s : St) (rs : List Nat) : PhaseLe s (cancelAll c s rs) :=
  foldl_phaseLe (cancelChain_phaseLe c) rs s

theorem finished_phaseLe (s : St) (t : Nat) : PhaseLe s (finished s t) := by
  intro e
  obtain ⟨_, _, f3, f4⟩ := finished_fields s t
  by_cases he : e = t
  · subst he; rw [f4]; cases s.phase e <;> simp [Phase.rank]
  · rw [f3 e he]; exact Nat.le_refl _

theorem step_phaseLe {c : Cfg} {s s' : St} {l : Label} (h : step c s l = some s') : PhaseLe s s' := by
  cases l with
  | begin t r m =>
    simp only [step] at h
    unfold stepBegin at h
    by_cases hg : s.call t = .none ∧ s.phase t = .none ∧
        (if r = t then s.stack t = [] else (s.stack r ≠ [] ∧ s.call r = .active ∧ s.chain r = r))
    · rw [if_pos hg] at h
      simp only at h
      step_split h <;> exact phaseLe_of_upd (t := t) rfl (by simp [hg.2.1, Phase.rank])
    · rw [if_neg hg] at h; cases h
  | evstart t m =>
    simp only [step] at h; unfold stepEvstart at h
    split at h
    next hg => step_split h <;> exact phaseLe_of_upd (t := t) rfl (by simp [hg.1, Phase.rank])
    · cases h
  | evend t m o =>
    simp only [step] at h; unfold stepEvend at h
    step_split h <;> exact finished_phaseLe s t
  | cb t k =>
    simp only [step] at h; unfold stepCb at h
    step_split h <;>
      first
      | exact PhaseLe.rfl' _
      | exact phaseLe_of_upd (t := t) rfl (by simp [*, Phase.rank])
  | decide t cs =>
    simp only [step] at h; unfold stepDecide at h
    split at h
    next hg =>
      cases h
      exact (phaseLe_of_upd (s' := { s with phase := upd s.phase t .mid }) (t := t) rfl
        (by simp [hg.2.1, Phase.rank])).trans (cancelAll_phaseLe c _ cs)
    · cases h
  | set t v =>
    simp only [step] at h; unfold stepSet at h
    split at h
    next hg => cases h; exact phaseLe_of_upd (t := t) rfl (by simp [hg.2.1, Phase.rank])
    · cases h
  | fail t =>
    simp only [step] at h; unfold stepFail at h
    step_split h <;>
      first
      | exact PhaseLe.rfl' _
      | exact phaseLe_of_upd (t := t) rfl (by simp [*, Phase.rank])
  | ret t b => simp only [step] at h; unfold stepRet at h; step_split h; exact PhaseLe.rfl' _
  | raised t b => simp only [step] at h; unfold stepRaised at h; step_split h; exact PhaseLe.rfl' _
  | remove m => simp only [step] at h; unfold stepRemove at h; step_split h <;> exact PhaseLe.rfl' _

theorem run_phaseLe {c : Cfg} : ∀ (ls : List Label) (s s' : St), run c s ls = some s' → PhaseLe s s'
  | [], s, s', h => by simp only [run, Option.some.injEq] at h; subst h; exact PhaseLe.rfl' s
  | l :: ls, s, s', h => by
    simp only [run] at h
    split at h
    next s1 h1 => exact (step_phaseLe h1).trans (run_phaseLe ls s1 s' h)
    · cases h

theorem deliver_doom (c : Cfg) (s : St) (e : Nat) (h : started (s.phase e)) :
    5 ≤ ((deliver c s e).phase e).rank := by
  unfold deliver
  split <;> (try split) <;> simp_all [started, Phase.rank, upd]
  next h1 h2 h3 h4 => cases hp : s.phase e <;> simp_all [Phase.rank]

theorem foldl_pres {f : St → Nat → St} {P : St → Prop} (hP : ∀ s y, P s → P (f s y)) :
    ∀ (l : List Nat) (s : St), P s → P (l.foldl f s)
  | [], _, h => h
  | y :: l, s, h => foldl_pres hP l (f s y) (hP s y h)

theorem foldl_mem {f : St → Nat → St} {P Q : St → Prop} {x : Nat} (hP : ∀ s y, P s → P (f s y))
    (hQ : ∀ s y, Q s → Q (f s y)) (hx : ∀ s, Q s → P (f s x)) :
    ∀ (l : List Nat) (s : St), x ∈ l → Q s → P (l.foldl f s)
  | [], _, hm, _ => by cases hm
  | y :: l, s, hm, hq => by
    simp only [List.foldl]
    by_cases hxy : x = y
    · subst hxy; exact foldl_pres hP l _ (hx s hq)
    · have : x ∈ l := by
        rcases List.mem_cons.1 hm with h | h
        · exact absurd h hxy
        · exact h
      exact foldl_mem hP hQ hx l _ this (hQ s y hq)

theorem cancelChain_doom (c : Cfg) (s : St) (r h e : Nat) (hh : h ∈ s.stack r) (hc : s.cur h = some e)
    (hs : started (s.phase e)) : 5 ≤ ((cancelChain c s r).phase e).rank := by
  unfold cancelChain
  refine foldl_mem (P := fun x => 5 ≤ (x.phase e).rank) (Q := fun x => x.cur h = some e ∧ started (x.phase e))
    (fun x y hp => Nat.le_trans hp (deliverCall_phaseLe c x y e))
    (fun x y hq => ⟨by rw [(deliverCall_frame c x y).cur]; exact hq.1, (deliverCall_quiet c x y).started e hq.2⟩)
    (fun x hq => ?_) _ s hh ⟨hc, hs⟩
  unfold deliverCall
  rw [hq.1]
  exact deliver_doom c x e hq.2

theorem cancelAll_doom (c : Cfg) (s : St) (rs : List Nat) (r h e : Nat) (hr : r ∈ rs) (hh : h ∈ s.stack r)
    (hc : s.cur h = some e) (hs : started (s.phase e)) : 5 ≤ ((cancelAll c s rs).phase e).rank := by
  unfold cancelAll
  refine foldl_mem (P := fun x => 5 ≤ (x.phase e).rank)
    (Q := fun x => h ∈ x.stack r ∧ x.cur h = some e ∧ started (x.phase e))
    (fun x y hp => Nat.le_trans hp (cancelChain_phaseLe c x y e))
    (fun x y hq => ⟨by rw [(cancelChain_frame c x y).stack]; exact hq.1,
      by rw [(cancelChain_frame c x y).cur]; exact hq.2.1,
      (foldl_quiet (deliverCall_quiet c) _ x).started e hq.2.2⟩)
    (fun x hq => cancelChain_doom c x r h e hq.1 hq.2.1 hq.2.2) rs s hr ⟨hh, hc, hs⟩

/-- labels that belong to the transition stages of event `e` -/
def isTransitional (e : Nat) : Label → Bool
  | .cb t k => t == e && (k == 0 || k == 1 || k == 2)
  | .decide t _ => t == e
  | .set t _ => t == e
  | _ => false

theorem transitional_needs {c : Cfg} {s s' : St} {l : Label} {e : Nat} (h : step c s l = some s')
    (ht : isTransitional e l = true) : (s.phase e).rank ≤ 4 := by
  cases l with
  | cb t k =>
    simp only [isTransitional, Bool.and_eq_true, beq_iff_eq, Bool.or_eq_true] at ht
    obtain ⟨rfl, hk⟩ := ht
    simp only [step] at h; unfold stepCb at h
    step_split h <;> simp_all [Phase.rank]
  | decide t cs =>
    simp only [isTransitional, beq_iff_eq] at ht; subst ht
    simp only [step] at h; unfold stepDecide at h
    split at h
    next hg => simp [hg.2.1, Phase.rank]
    · cases h
  | set t v =>
    simp only [isTransitional, beq_iff_eq] at ht; subst ht
    simp only [step] at h; unfold stepSet at h
    split at h
    next hg => simp [hg.2.1, Phase.rank]
    · cases h
  | _ => simp [isTransitional] at ht

theorem run_no_transitional {c : Cfg} {e : Nat} : ∀ (ls : List Label) (s s' : St),
    5 ≤ (s.phase e).rank → run c s ls = some s' → ∀ l ∈ ls, isTransitional e l = false
  | [], _, _, _, _ => by simp
  | l :: ls, s, s', hd, h => by
    simp only [run] at h
    split at h
    next s1 h1 =>
      intro l' hl'
      rcases List.mem_cons.1 hl' with hl' | hl'
      · subst hl'
        cases hb : isTransitional e l' with
        | false => rfl
        | true => have := transitional_needs h1 hb; omega
      · exact run_no_transitional ls s1 s' (Nat.le_trans hd (step_phaseLe h1 e)) h l' hl'
    · cases h

theorem decide_doom {c : Cfg} {s s' : St} {t : Nat} {cs : List Nat} (h : stepDecide c s t cs = some s')
    {r hc e : Nat} (hr : r ∈ cs) (hh : hc ∈ s.stack r) (hcur : s.cur hc = some e) (hs : started (s.phase e)) :
    5 ≤ (s'.phase e).rank := by
  unfold stepDecide at h
  split at h
  next hg =>
    cases h
    refine cancelAll_doom c { s with phase := upd s.phase t .mid } cs r hc e hr hh hcur ?_
    show started (upd s.phase t .mid e)
    by_cases he : e = t
    · subst he; simp [started, Phase.rank]
    · rw [upd_ne _ _ _ _ he]; exact hs
  · cases h

end AS
end TM
