/-
  Proofs/C13.lean — helper lemmas for property C13 (construction scripts, Model/Build.lean).
-/
import Model.Build
import Model.Spec.C13

namespace TM
namespace Build

/-! ### `addTo`: the event table under `add_transition` -/

theorem addTo_append (ev : Nat) (x y : List Trans) (evs : List (Nat × List Trans)) :
    addTo ev (x ++ y) evs = addTo ev y (addTo ev x evs) := by
  induction evs with
  | nil => simp [addTo]
  | cons e r ih =>
    obtain ⟨k, l⟩ := e
    by_cases h : k = ev
    · simp [addTo, h, List.append_assoc]
    · simp [addTo, h, ih]

theorem alookup_addTo (e ev : Nat) (ts : List Trans) (evs : List (Nat × List Trans)) :
    alookup e (addTo ev ts evs) =
      if e = ev then some ((alookup ev evs).getD [] ++ ts) else alookup e evs := by
  induction evs with
  | nil =>
    by_cases h : e = ev
    · simp [addTo, alookup, h]
    · have h' : ¬ ev = e := fun x => h x.symm
      simp [addTo, alookup, h, h']
  | cons x r ih =>
    obtain ⟨k, l⟩ := x
    by_cases hk : k = ev
    · by_cases h : e = ev
      · simp [addTo, alookup, hk, h]
      · have h' : ¬ ev = e := fun x => h x.symm
        simp [addTo, alookup, hk, h, h']
    · by_cases h : e = ev
      · subst h
        simp [addTo, alookup, hk, ih]
      · by_cases hke : k = e
        · simp [addTo, alookup, hk, h, hke]
        · simp [addTo, alookup, hk, h, hke, ih]

theorem alookup_delKey (e ev : Nat) (evs : List (Nat × List Trans)) :
    alookup e (delKey ev evs) = if e = ev then none else alookup e evs := by
  induction evs with
  | nil => simp [delKey, alookup]
  | cons x r ih =>
    obtain ⟨k, l⟩ := x
    simp only [delKey] at ih ⊢
    by_cases hk : k = ev
    · by_cases h : e = ev
      · simp [List.filter_cons, hk, h] at ih ⊢; exact ih
      · have h' : ¬ ev = e := fun x => h x.symm
        simp [List.filter_cons, alookup, hk, h, h'] at ih ⊢; exact ih
    · by_cases h : e = ev
      · subst h
        simp [List.filter_cons, alookup, hk] at ih ⊢; exact ih
      · by_cases hke : k = e
        · subst hke
          simp [List.filter_cons, alookup, h]
        · simp [List.filter_cons, alookup, hk, h, hke] at ih ⊢; exact ih

theorem alookup_setKey (e ev : Nat) (l : List Trans) (evs : List (Nat × List Trans)) :
    alookup e (setKey ev l evs) = if e = ev then (alookup ev evs).map (fun _ => l) else alookup e evs := by
  induction evs with
  | nil => simp [setKey, alookup]
  | cons x r ih =>
    obtain ⟨k, l0⟩ := x
    unfold setKey at ih ⊢
    by_cases hk : k = ev
    · by_cases h : e = ev
      · simp [alookup, hk, h]
      · have h' : ¬ ev = e := fun x => h x.symm
        simp [alookup, hk, h, h'] at ih ⊢; exact ih
    · by_cases h : e = ev
      · subst h
        simp [alookup, hk] at ih ⊢; exact ih
      · by_cases hke : k = e
        · simp [alookup, hk, h, hke]
        · simp [alookup, hk, h, hke] at ih ⊢; exact ih

/-! ### batching of sources -/

theorem addTrans_append (F : Filter) (b : B) (ev : Nat) (x y : List Trans) :
    b.addTrans F ev (x ++ y) = (b.addTrans F ev x).addTrans F ev y := by
  simp [B.addTrans, List.filter_append, addTo_append]

/-- one `add_transition` per source, destination possibly depending on the source -/
def singles (ev : Nat) (l : List Nat) (d : Nat → Dst) (cb : CbSpec) : List Op :=
  l.map fun s => .addTransition ev (.one s) (d s) cb

theorem applyOpsF_cons_some (F : Filter) {b b' : B} {op : Op} (r : List Op) (h : applyOpF F b op = some b') :
    applyOpsF F b (op :: r) = applyOpsF F b' r := by
  simp [applyOpsF, h]

theorem applyOps_singles_cons (F : Filter) (ev : Nat) (d : Nat → Dst) (cb : CbSpec) :
    ∀ (r : List Nat) (s : Nat) (b : B),
      applyOpsF F b (singles ev (s :: r) d cb) =
        some (b.addTrans F ev ((s :: r).map fun s => mkTrans cb (d s) s)) := by
  intro r
  induction r with
  | nil => intro s b; simp [singles, applyOpsF, applyOpF, B.addTransition, B.sources]
  | cons s' r ih =>
    intro s b
    have h := ih s' (b.addTransition F ev (.one s) (d s) cb)
    have e1 : singles ev (s :: s' :: r) d cb =
        Op.addTransition ev (.one s) (d s) cb :: singles ev (s' :: r) d cb := rfl
    rw [e1, applyOpsF_cons_some F _ (b' := b.addTransition F ev (.one s) (d s) cb) rfl, h]
    have : ((s :: s' :: r).map fun s => mkTrans cb (d s) s) =
        [mkTrans cb (d s) s] ++ ((s' :: r).map fun s => mkTrans cb (d s) s) := rfl
    rw [this, addTrans_append]
    rfl

theorem mkTrans_same (cb : CbSpec) (s : Nat) : mkTrans cb .same s = mkTrans cb (.to s) s := rfl

/-! ### the ordered helper -/

def ringOps (ev : Nat) (es : List ((Nat × Nat) × CbSpec)) : List Op :=
  es.map fun e => .addTransition ev (.one e.1.1) (.to e.1.2) e.2

theorem applyOps_ringOps (F : Filter) (ev : Nat) :
    ∀ (es : List ((Nat × Nat) × CbSpec)) (b : B), applyOpsF F b (ringOps ev es) = some (b.addEdges F ev es) := by
  intro es
  induction es with
  | nil => intro b; rfl
  | cons e r ih =>
    intro b
    simp only [ringOps, List.map_cons, applyOpsF, applyOpF, B.addEdges, List.foldl_cons] at ih ⊢
    exact ih _

/-! ### splitting a script -/

theorem applyOpsF_append (F : Filter) : ∀ (o1 o2 : List Op) (b : B),
    applyOpsF F b (o1 ++ o2) = (applyOpsF F b o1).bind fun b' => applyOpsF F b' o2 := by
  intro o1
  induction o1 with
  | nil => intro o2 b; rfl
  | cons op r ih =>
    intro o2 b
    simp only [List.cons_append, applyOpsF]
    cases applyOpF F b op with
    | none => rfl
    | some b' => exact ih o2 b'

theorem addStates_append (F : Filter) (b : B) (l1 l2 : List SSpec) (ci : Option Bool) :
    b.addStates F (l1 ++ l2) ci = (b.addStates F l1 ci).addStates F l2 ci := by
  simp [B.addStates, List.foldl_append]

/-! ### "as if never added": the same construction with a filter on the transitions it creates -/

def B.withEvents (b : B) (evs : List (Nat × List Trans)) : B := { b with cfg := { b.cfg with events := evs } }

/-- `bs` is `b` built with filter `F`: same machine except that every event holds only the transitions
`F` lets through -/
def Rel (F : Filter) (b bs : B) : Prop :=
  ∃ evs, bs = b.withEvents evs ∧
    ∀ e, alookup e evs = (alookup e b.cfg.events).map (fun l => l.filter (F e))

def RelO (F : Filter) : Option B → Option B → Prop
  | some x, some y => Rel F x y
  | none, none => True
  | _, _ => False

theorem addTrans_rel {F : Filter} {b bs : B} (h : Rel F b bs) (ev : Nat) (ts : List Trans) :
    Rel F (b.addTrans allT ev ts) (bs.addTrans F ev ts) := by
  obtain ⟨evs, rfl, he⟩ := h
  refine ⟨addTo ev (ts.filter (F ev)) evs, rfl, ?_⟩
  intro e
  have hT : ts.filter (allT ev) = ts := by simp [List.filter_eq_self, allT]
  simp only [B.addTrans, hT]
  rw [alookup_addTo, alookup_addTo]
  by_cases hh : e = ev
  · rw [hh]
    simp only [if_true, he, Option.map_some, List.filter_append]
    cases alookup ev b.cfg.events <;> simp
  · simp [hh, he]

theorem foldl_rel {α : Type} {F : Filter} (g gs : B → α → B)
    (hstep : ∀ b bs x, Rel F b bs → Rel F (g b x) (gs bs x)) :
    ∀ (l : List α) (b bs : B), Rel F b bs → Rel F (l.foldl g b) (l.foldl gs bs) := by
  intro l
  induction l with
  | nil => intro b bs h; exact h
  | cons x r ih => intro b bs h; exact ih _ _ (hstep b bs x h)

theorem Rel.stateNames {F : Filter} {b bs : B} (h : Rel F b bs) : bs.stateNames = b.stateNames := by
  obtain ⟨evs, rfl, _⟩ := h; rfl

theorem addTransition_rel {F : Filter} {b bs : B} (h : Rel F b bs) (ev : Nat) (src : Src) (dst : Dst) (cb : CbSpec) :
    Rel F (b.addTransition allT ev src dst cb) (bs.addTransition F ev src dst cb) := by
  have hs : bs.sources src = b.sources src := by
    cases src with
    | one s => rfl
    | many l => rfl
    | all => exact h.stateNames
  unfold B.addTransition
  rw [hs]
  exact addTrans_rel h _ _

theorem autoTransitions_rel {F : Filter} {b bs : B} (h : Rel F b bs) (name : Nat) :
    Rel F (b.autoTransitions allT name) (bs.autoTransitions F name) := by
  unfold B.autoTransitions
  rw [h.stateNames]
  refine foldl_rel _ _ ?_ _ _ _ h
  intro b bs a h
  by_cases hh : a = name
  · simp only [hh, if_true]; exact addTransition_rel h _ _ _ _
  · simp only [hh, if_false]; exact addTransition_rel h _ _ _ _

theorem putState_rel {F : Filter} {b bs : B} (h : Rel F b bs) (st : StateDef) :
    Rel F (b.putState st) (bs.putState st) := by
  obtain ⟨evs, rfl, he⟩ := h
  exact ⟨evs, rfl, he⟩

theorem addState_rel {F : Filter} {b bs : B} (h : Rel F b bs) (ci : Option Bool) (s : SSpec) :
    Rel F (b.addState allT ci s) (bs.addState F ci s) := by
  have ha : bs.auto = b.auto := by obtain ⟨evs, rfl, _⟩ := h; rfl
  have hm : bs.mign = b.mign := by obtain ⟨evs, rfl, _⟩ := h; rfl
  unfold B.addState
  rw [ha, hm]
  split
  · exact autoTransitions_rel (putState_rel h _) _
  · exact putState_rel h _

theorem addStates_rel {F : Filter} {b bs : B} (h : Rel F b bs) (l : List SSpec) (ci : Option Bool) :
    Rel F (b.addStates allT l ci) (bs.addStates F l ci) :=
  foldl_rel (fun acc s => acc.addState allT ci s) (fun acc s => acc.addState F ci s)
    (fun _ _ s h => addState_rel h ci s) l b bs h

theorem setInitial_rel {F : Filter} {b bs : B} (h : Rel F b bs) (s : Nat) :
    Rel F (b.setInitial allT s) (bs.setInitial F s) := by
  simp only [B.setInitial]
  rw [h.stateNames]
  have h1 : Rel F (if b.stateNames.contains s then b else b.addStates allT [{ name := s }] none)
      (if b.stateNames.contains s then bs else bs.addStates F [{ name := s }] none) := by
    cases b.stateNames.contains s with
    | true => exact h
    | false => exact addStates_rel h _ _
  obtain ⟨evs, h2, he⟩ := h1
  rw [h2]
  exact ⟨evs, rfl, he⟩

theorem addEdges_rel {F : Filter} {b bs : B} (h : Rel F b bs) (ev : Nat) (es : List ((Nat × Nat) × CbSpec)) :
    Rel F (b.addEdges allT ev es) (bs.addEdges F ev es) := by
  unfold B.addEdges
  exact foldl_rel (fun (acc : B) (e : (Nat × Nat) × CbSpec) => acc.addTransition allT ev (.one e.1.1) (.to e.1.2) e.2)
    (fun (acc : B) (e : (Nat × Nat) × CbSpec) => acc.addTransition F ev (.one e.1.1) (.to e.1.2) e.2)
    (fun _ _ _ h => addTransition_rel h _ _ _ _) es b bs h

theorem addOrdered_rel {F : Filter} {b bs : B} (h : Rel F b bs) (ev : Nat) (sts : Option (List Nat))
    (loop incl : Bool) (c u bf af pr : OArg) :
    RelO F (b.addOrdered allT ev sts loop incl c u bf af pr) (bs.addOrdered F ev sts loop incl c u bf af pr) := by
  have hi : bs.init = b.init := by obtain ⟨evs, rfl, _⟩ := h; rfl
  simp only [B.addOrdered]
  rw [h.stateNames, hi]
  split
  · trivial
  · split
    · trivial
    · exact addEdges_rel h _ _

theorem remove_rel {F : Filter} {b bs : B} (h : Rel F b bs) (ev : Nat) (S D : Option (List Sel))
    (hF : ∀ t, F ev t = true) : RelO F (b.remove ev S D) (bs.remove ev S D) := by
  obtain ⟨evs, rfl, he⟩ := h
  have hid : ∀ l : List Trans, l.filter (F ev) = l := fun l => by
    simp [List.filter_eq_self, hF]
  have h0 : alookup ev evs = alookup ev b.cfg.events := by
    rw [he ev]; cases alookup ev b.cfg.events <;> simp [hid]
  simp only [B.remove]
  have hb : (b.withEvents evs).cfg.events = evs := rfl
  rw [hb, h0]
  cases hl : alookup ev b.cfg.events with
  | none => trivial
  | some l =>
    simp only [RelO]
    by_cases hem : (l.filter (keepT S D)).isEmpty = true
    · simp only [hem, if_true]
      refine ⟨delKey ev evs, rfl, ?_⟩
      intro e
      show alookup e (delKey ev evs) = (alookup e (delKey ev b.cfg.events)).map _
      rw [alookup_delKey, alookup_delKey]
      by_cases hh : e = ev
      · simp [hh]
      · simp [hh, he]
    · simp only [hem]
      refine ⟨setKey ev (l.filter (keepT S D)) evs, rfl, ?_⟩
      intro e
      show alookup e (setKey ev _ evs) = (alookup e (setKey ev _ b.cfg.events)).map _
      rw [alookup_setKey, alookup_setKey]
      by_cases hh : e = ev
      · subst hh
        simp [h0, hl, hid]
      · simp [hh, he]

def Op.removesEvent : Op → Option Nat
  | .remove ev _ _ => some ev
  | _ => none

theorem applyOp_rel {F : Filter} {b bs : B} (h : Rel F b bs) (op : Op)
    (hF : ∀ ev, op.removesEvent = some ev → ∀ t, F ev t = true) :
    RelO F (applyOpF allT b op) (applyOpF F bs op) := by
  cases op with
  | addStates l ci => exact addStates_rel h l ci
  | addTransition ev src dst cb => exact addTransition_rel h ev src dst cb
  | addOrdered ev sts loop incl c u bf af pr => exact addOrdered_rel h ev sts loop incl c u bf af pr
  | remove ev S D => exact remove_rel h ev S D (hF ev rfl)
  | setInitial s => exact setInitial_rel h s

theorem applyOps_rel {F : Filter} : ∀ (ops : List Op) (b bs : B), Rel F b bs →
    (∀ op ∈ ops, ∀ ev, op.removesEvent = some ev → ∀ t, F ev t = true) →
    RelO F (applyOpsF allT b ops) (applyOpsF F bs ops) := by
  intro ops
  induction ops with
  | nil => intro b bs h _; exact h
  | cons op r ih =>
    intro b bs h hF
    have h1 := applyOp_rel h op (hF op (List.mem_cons_self ..))
    simp only [applyOpsF]
    cases h2 : applyOpF allT b op with
    | none =>
      cases h3 : applyOpF F bs op with
      | none => trivial
      | some y => rw [h2, h3] at h1; exact h1.elim
    | some x =>
      cases h3 : applyOpF F bs op with
      | none => rw [h2, h3] at h1; exact h1.elim
      | some y =>
        rw [h2, h3] at h1
        exact ih x y h1 (fun op' hm => hF op' (List.mem_cons_of_mem _ hm))

/-- the transitions `remove_transition(ev, S, D)` deletes are never created -/
def suppress (ev : Nat) (S D : Option (List Sel)) : Filter := fun e t => e != ev || keepT S D t

/-- an event without transitions does not exist (what `remove_transition` does when nothing is left) -/
def B.dropEmptyEvent (b : B) (ev : Nat) : B :=
  match alookup ev b.cfg.events with
  | some [] => b.withEvents (delKey ev b.cfg.events)
  | _ => b

theorem start_rel (F : Filter) (o : Opts) : Rel F (start o) (start o) :=
  ⟨[], rfl, fun _ => rfl⟩

theorem equiv_of_lookup (x : B) (evs : List (Nat × List Trans))
    (h : ∀ e, alookup e evs = alookup e x.cfg.events) : x.cfg ≈ (x.withEvents evs).cfg where
  ignore := rfl
  states := rfl
  known := fun ev => by simp [Cfg.event?, B.withEvents, h]
  cands := fun ev src => by simp [Cfg.event?, B.withEvents, h]
  prepareEvent := rfl
  beforeSC := rfl
  afterSC := rfl
  finalize := rfl
  onException := rfl
  onFinal := rfl
  queued := rfl
  initial := rfl

theorem remove_core (o : Opts) (ops : List Op) (ev : Nat) (S D : Option (List Sel))
    (hno : ∀ op ∈ ops, op.removesEvent ≠ some ev) (b : B) (hb : build o ops = some b) :
    ∃ bs, buildF (suppress ev S D) o ops = some bs ∧
      match b.remove ev S D with
      | none => b.cfg.event? ev = none
      | some b' => b'.cfg ≈ (bs.dropEmptyEvent ev).cfg ∧ b'.init = (bs.dropEmptyEvent ev).init ∧
          b'.auto = (bs.dropEmptyEvent ev).auto ∧ b'.mign = (bs.dropEmptyEvent ev).mign := by
  have hF : ∀ op ∈ ops, ∀ e, op.removesEvent = some e → ∀ t, suppress ev S D e t = true := by
    intro op hm e he t
    have : e ≠ ev := fun x => hno op hm (x ▸ he)
    simp [suppress, this]
  have h := applyOps_rel ops _ _ (start_rel (suppress ev S D) o) hF
  have hb' : applyOpsF allT (start o) ops = some b := hb
  rw [hb'] at h
  cases h3 : applyOpsF (suppress ev S D) (start o) ops with
  | none => rw [h3] at h; exact h.elim
  | some bs =>
    rw [h3] at h
    refine ⟨bs, h3, ?_⟩
    obtain ⟨evs, rfl, he⟩ := h
    have hself : ∀ t, suppress ev S D ev t = keepT S D t := fun t => by simp [suppress]
    have hother : ∀ e, e ≠ ev → ∀ l : List Trans, l.filter (suppress ev S D e) = l := by
      intro e hne l
      simp [List.filter_eq_self, suppress, hne]
    simp only [B.remove]
    cases hl : alookup ev b.cfg.events with
    | none => simp [Cfg.event?, hl]
    | some l =>
      have hevs : alookup ev evs = some (l.filter (keepT S D)) := by
        rw [he ev, hl]
        simp only [Option.map_some]
        congr 1
        exact List.filter_congr (fun t _ => hself t)
      simp only []
      by_cases hem : (l.filter (keepT S D)).isEmpty = true
      · have hnil : l.filter (keepT S D) = [] := List.isEmpty_iff.mp hem
        have hd : (b.withEvents evs).dropEmptyEvent ev = b.withEvents (delKey ev evs) := by
          simp only [B.dropEmptyEvent]
          have : (b.withEvents evs).cfg.events = evs := rfl
          rw [this, hevs, hnil]
          rfl
        rw [hd]
        simp only [hem, if_true]
        refine ⟨?_, rfl, rfl, rfl⟩
        have := equiv_of_lookup (b.withEvents (delKey ev b.cfg.events)) (delKey ev evs) (by
          intro e
          show alookup e (delKey ev evs) = alookup e (delKey ev b.cfg.events)
          rw [alookup_delKey, alookup_delKey]
          by_cases hh : e = ev
          · simp [hh]
          · simp only [hh, if_false, he e]
            cases alookup e b.cfg.events <;> simp [hother e hh])
        exact this
      · have hd : (b.withEvents evs).dropEmptyEvent ev = b.withEvents evs := by
          simp only [B.dropEmptyEvent]
          have : (b.withEvents evs).cfg.events = evs := rfl
          rw [this, hevs]
          cases hx : l.filter (keepT S D) with
          | nil => simp [hx] at hem
          | cons _ _ => rfl
        rw [hd]
        simp only [hem]
        refine ⟨?_, rfl, rfl, rfl⟩
        have := equiv_of_lookup (b.withEvents (setKey ev (l.filter (keepT S D)) b.cfg.events)) evs (by
          intro e
          show alookup e evs = alookup e (setKey ev _ b.cfg.events)
          rw [alookup_setKey]
          by_cases hh : e = ev
          · subst hh; simp [hevs, hl]
          · simp only [hh, if_false, he e]
            cases alookup e b.cfg.events <;> simp [hother e hh])
        exact this

end Build
end TM
