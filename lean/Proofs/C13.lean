/-
  Proofs/C13.lean — helper lemmas for property C13 (construction scripts, Model/Build.lean).
-/
import Model.Build
import Model.Spec.C13

namespace TM
namespace Build

/-! ### `addTo`: the event table under `add_transition` -/

theorem addTo_append (ev : Nat) (x y : List Trans) (evs : List (Nat × List Trans)) :
    addTo ev (x ++ y) evs = addTo ev y (addTo ev x evs) := by
  induction evs with
  | nil => simp [addTo]
  | cons e r ih =>
    obtain ⟨k, l⟩ := e
    by_cases h : k = ev
    · simp [addTo, h, List.append_assoc]
    · simp [addTo, h, ih]

theorem alookup_addTo (e ev : Nat) (ts : List Trans) (evs : List (Nat × List Trans)) :
    alookup e (addTo ev ts evs) =
      if e = ev then some ((alookup ev evs).getD [] ++ ts) else alookup e evs := by
  induction evs with
  | nil =>
    by_cases h : e = ev
    · simp [addTo, alookup, h]
    · have h' : ¬ ev = e := fun x => h x.symm
      simp [addTo, alookup, h, h']
  | cons x r ih =>
    obtain ⟨k, l⟩ := x
    by_cases hk : k = ev
    · by_cases h : e = ev
      · simp [addTo, alookup, hk, h]
      · have h' : ¬ ev = e := fun x => h x.symm
        simp [addTo, alookup, hk, h, h']
    · by_cases h : e = ev
      · subst h
        simp [addTo, alookup, hk, ih]
      · by_cases hke : k = e
        · simp [addTo, alookup, hk, h, hke]
        · simp [addTo, alookup, hk, h, hke, ih]

theorem alookup_delKey (e ev : Nat) (evs : List (Nat × List Trans)) :
    alookup e (delKey ev evs) = if e = ev then none else alookup e evs := by
  induction evs with
  | nil => simp [delKey, alookup]
  | cons x r ih =>
    obtain ⟨k, l⟩ := x
    simp only [delKey] at ih ⊢
    by_cases hk : k = ev
    · by_cases h : e = ev
      · simp [List.filter_cons, hk, h] at ih ⊢; exact ih
      · have h' : ¬ ev = e := fun x => h x.symm
        simp [List.filter_cons, alookup, hk, h, h'] at ih ⊢; exact ih
    · by_cases h : e = ev
      · subst h
        simp [List.filter_cons, alookup, hk] at ih ⊢; exact ih
      · by_cases hke : k = e
        · subst hke
          simp [List.filter_cons, alookup, h]
        · simp [List.filter_cons, alookup, hk, h, hke] at ih ⊢; exact ih

theorem alookup_setKey (e ev : Nat) (l : List Trans) (evs : List (Nat × List Trans)) :
    alookup e (setKey ev l evs) = if e = ev then (alookup ev evs).map (fun _ => l) else alookup e evs := by
  induction evs with
  | nil => simp [setKey, alookup]
  | cons x r ih =>
    obtain ⟨k, l0⟩ := x
    unfold setKey at ih ⊢
    by_cases hk : k = ev
    · by_cases h : e = ev
      · simp [alookup, hk, h]
      · have h' : ¬ ev = e := fun x => h x.symm
        simp [alookup, hk, h, h'] at ih ⊢; exact ih
    · by_cases h : e = ev
      · subst h
        simp [alookup, hk] at ih ⊢; exact ih
      · by_cases hke : k = e
        · simp [alookup, hk, h, hke]
        · simp [alookup, hk, h, hke] at ih ⊢; exact ih

/-! ### batching of sources -/

theorem addTrans_append (F : Filter) (b : B) (ev : Nat) (x y : List Trans) :
    b.addTrans F ev (x ++ y) = (b.addTrans F ev x).addTrans F ev y := by
  simp [B.addTrans, List.filter_append, addTo_append]

/-- one `add_transition` per source, destination possibly depending on the source -/
def singles (ev : Nat) (l : List Nat) (d : Nat → Dst) (cb : CbSpec) : List Op :=
  l.map fun s => .addTransition ev (.one s) (d s) cb

theorem applyOpsF_cons_some (F : Filter) {b b' : B} {op : Op} (r : List Op) (h : applyOpF F b op = some b') :
    applyOpsF F b (op :: r) = applyOpsF F b' r := by
  simp [applyOpsF, h]

theorem applyOps_singles_cons (F : Filter) (ev : Nat) (d : Nat → Dst) (cb : CbSpec) :
    ∀ (r : List Nat) (s : Nat) (b : B),
      applyOpsF F b (singles ev (s :: r) d cb) =
        some (b.addTrans F ev ((s :: r).map fun s => mkTrans cb (d s) s)) := by
  intro r
  induction r with
  | nil => intro s b; simp [singles, applyOpsF, applyOpF, B.addTransition, B.sources]
  | cons s' r ih =>
    intro s b
    have h := ih s' (b.addTransition F ev (.one s) (d s) cb)
    have e1 : singles ev (s :: s' :: r) d cb =
        Op.addTransition ev (.one s) (d s) cb :: singles ev (s' :: r) d cb := rfl
    rw [e1, applyOpsF_cons_some F _ (b' := b.addTransition F ev (.one s) (d s) cb) rfl, h]
    have : ((s :: s' :: r).map fun s => mkTrans cb (d s) s) =
        [mkTrans cb (d s) s] ++ ((s' :: r).map fun s => mkTrans cb (d s) s) := rfl
    rw [this, addTrans_append]
    rfl

theorem mkTrans_same (cb : CbSpec) (s : Nat) : mkTrans cb .same s = mkTrans cb (.to s) s := rfl

/-! ### the ordered helper -/

def ringOps (ev : Nat) (es : List ((Nat × Nat) × CbSpec)) : List Op :=
  es.map fun e => .addTransition ev (.one e.1.1) (.to e.1.2) e.2

theorem applyOps_ringOps (F : Filter) (ev : Nat) :
    ∀ (es : List ((Nat × Nat) × CbSpec)) (b : B), applyOpsF F b (ringOps ev es) = some (b.addEdges F ev es) := by
  intro es
  induction es with
  | nil => intro b; rfl
  | cons e r ih =>
    intro b
    simp only [ringOps, List.map_cons, applyOpsF, applyOpF, B.addEdges, List.foldl_cons] at ih ⊢
    exact ih _

/-! ### splitting a script -/

theorem applyOpsF_append (F : Filter) : ∀ (o1 o2 : List Op) (b : B),
    applyOpsF F b (o1 ++ o2) = (applyOpsF F b o1).bind fun b' => applyOpsF F b' o2 := by
  intro o1
  induction o1 with
  | nil => intro o2 b; rfl
  | cons op r ih =>
    intro o2 b
    simp only [List.cons_append, applyOpsF]
    cases applyOpF F b op with
    | none => rfl
    | some b' => exact ih o2 b'

theorem addStates_append (F : Filter) (b : B) (l1 l2 : List SSpec) (ci : Option Bool) :
    b.addStates F (l1 ++ l2) ci = (b.addStates F l1 ci).addStates F l2 ci := by
  simp [B.addStates, List.foldl_append]

/-! ### "as if never added": the same construction with a filter on the transitions it creates -/

def B.withEvents (b : B) (evs : List (Nat × List Trans)) : B := { b with cfg := { b.cfg with events := evs } }

/-- never create the transitions of event `ev` that `k` rejects -/
def suppressK (ev : Nat) (k : Trans → Bool) : Filter := fun e t => e != ev || k t

/-- event tables of the real construction (`E`) and of the one in which the transitions of `ev` rejected by
`k` are never created (`Es`): other events identical; `ev` holds the kept transitions; and `ev` may be
missing in `Es` while `E` still has it (an earlier removal emptied it there), never the other way round -/
def EvRel (ev : Nat) (k : Trans → Bool) (E Es : List (Nat × List Trans)) : Prop :=
  (∀ e, e ≠ ev → alookup e Es = alookup e E) ∧
  (alookup ev Es).getD [] = ((alookup ev E).getD []).filter k ∧
  (alookup ev E = none → alookup ev Es = none)

def Rel (ev : Nat) (k : Trans → Bool) (b bs : B) : Prop :=
  ∃ evs, bs = b.withEvents evs ∧ EvRel ev k b.cfg.events evs

/-- results of one call on both sides; the suppressed side alone may raise only where `allowed` -/
def RelO (ev : Nat) (k : Trans → Bool) (allowed : Prop) : Option B → Option B → Prop
  | some x, some y => Rel ev k x y
  | none, none => True
  | some _, none => allowed
  | none, some _ => False

section
variable {ev : Nat} {k : Trans → Bool}

theorem addTrans_rel {b bs : B} (h : Rel ev k b bs) (e' : Nat) (ts : List Trans) :
    Rel ev k (b.addTrans allT e' ts) (bs.addTrans (suppressK ev k) e' ts) := by
  obtain ⟨evs, rfl, h1, h2, h3⟩ := h
  refine ⟨addTo e' (ts.filter (suppressK ev k e')) evs, rfl, ?_, ?_, ?_⟩
  all_goals
    have hT : ts.filter (allT e') = ts := by simp [List.filter_eq_self, allT]
    simp only [B.addTrans, hT]
  · intro e hne
    rw [alookup_addTo, alookup_addTo]
    by_cases hh : e = e'
    · have hne' : e' ≠ ev := hh ▸ hne
      have hF : ts.filter (suppressK ev k e') = ts := by simp [List.filter_eq_self, suppressK, hne']
      simp only [hh, if_true, hF, h1 e' hne']
    · simp only [hh, if_false, h1 e hne]
  · rw [alookup_addTo, alookup_addTo]
    by_cases hh : ev = e'
    · subst hh
      have hF : ts.filter (suppressK ev k ev) = ts.filter k := by
        apply List.filter_congr; intro t _; simp [suppressK]
      simp only [if_true, Option.getD_some, hF, h2, List.filter_append]
    · simp only [hh, if_false, h2]
  · rw [alookup_addTo, alookup_addTo]
    by_cases hh : ev = e'
    · simp [hh]
    · simp only [hh, if_false]; exact h3

theorem foldl_rel {α : Type} (g gs : B → α → B)
    (hstep : ∀ b bs x, Rel ev k b bs → Rel ev k (g b x) (gs bs x)) :
    ∀ (l : List α) (b bs : B), Rel ev k b bs → Rel ev k (l.foldl g b) (l.foldl gs bs) := by
  intro l
  induction l with
  | nil => intro b bs h; exact h
  | cons x r ih => intro b bs h; exact ih _ _ (hstep b bs x h)

theorem Rel.stateNames {b bs : B} (h : Rel ev k b bs) : bs.stateNames = b.stateNames := by
  obtain ⟨evs, rfl, _⟩ := h; rfl

theorem addTransition_rel {b bs : B} (h : Rel ev k b bs) (e' : Nat) (src : Src) (dst : Dst) (cb : CbSpec) :
    Rel ev k (b.addTransition allT e' src dst cb) (bs.addTransition (suppressK ev k) e' src dst cb) := by
  have hs : bs.sources src = b.sources src := by
    cases src with
    | one s => rfl
    | many l => rfl
    | all => exact h.stateNames
  unfold B.addTransition
  rw [hs]
  exact addTrans_rel h _ _

theorem autoTransitions_rel {b bs : B} (h : Rel ev k b bs) (name : Nat) :
    Rel ev k (b.autoTransitions allT name) (bs.autoTransitions (suppressK ev k) name) := by
  unfold B.autoTransitions
  rw [h.stateNames]
  refine foldl_rel _ _ ?_ _ _ _ h
  intro b bs a h
  by_cases hh : a = name
  · simp only [hh, if_true]; exact addTransition_rel h _ _ _ _
  · simp only [hh, if_false]; exact addTransition_rel h _ _ _ _

theorem putState_rel {b bs : B} (h : Rel ev k b bs) (st : StateDef) :
    Rel ev k (b.putState st) (bs.putState st) := by
  obtain ⟨evs, rfl, he⟩ := h
  exact ⟨evs, rfl, he⟩

theorem addState_rel {b bs : B} (h : Rel ev k b bs) (ci : Option Bool) (s : SSpec) :
    Rel ev k (b.addState allT ci s) (bs.addState (suppressK ev k) ci s) := by
  have ha : bs.auto = b.auto := by obtain ⟨evs, rfl, _⟩ := h; rfl
  have hm : bs.mign = b.mign := by obtain ⟨evs, rfl, _⟩ := h; rfl
  unfold B.addState
  rw [ha, hm]
  split
  · exact autoTransitions_rel (putState_rel h _) _
  · exact putState_rel h _

theorem addStates_rel {b bs : B} (h : Rel ev k b bs) (l : List SSpec) (ci : Option Bool) :
    Rel ev k (b.addStates allT l ci) (bs.addStates (suppressK ev k) l ci) :=
  foldl_rel (fun acc s => acc.addState allT ci s) (fun acc s => acc.addState (suppressK ev k) ci s)
    (fun _ _ s h => addState_rel h ci s) l b bs h

theorem setInitial_rel {b bs : B} (h : Rel ev k b bs) (s : Nat) :
    Rel ev k (b.setInitial allT s) (bs.setInitial (suppressK ev k) s) := by
  simp only [B.setInitial]
  rw [h.stateNames]
  have h1 : Rel ev k (if b.stateNames.contains s then b else b.addStates allT [{ name := s }] none)
      (if b.stateNames.contains s then bs else bs.addStates (suppressK ev k) [{ name := s }] none) := by
    cases b.stateNames.contains s with
    | true => exact h
    | false => exact addStates_rel h _ _
  obtain ⟨evs, h2, he⟩ := h1
  rw [h2]
  exact ⟨evs, rfl, he⟩

theorem addEdges_rel {b bs : B} (h : Rel ev k b bs) (e' : Nat) (es : List ((Nat × Nat) × CbSpec)) :
    Rel ev k (b.addEdges allT e' es) (bs.addEdges (suppressK ev k) e' es) := by
  unfold B.addEdges
  exact foldl_rel (fun (acc : B) (e : (Nat × Nat) × CbSpec) => acc.addTransition allT e' (.one e.1.1) (.to e.1.2) e.2)
    (fun (acc : B) (e : (Nat × Nat) × CbSpec) => acc.addTransition (suppressK ev k) e' (.one e.1.1) (.to e.1.2) e.2)
    (fun _ _ _ h => addTransition_rel h _ _ _ _) es b bs h

theorem addOrdered_rel {b bs : B} (h : Rel ev k b bs) (e' : Nat) (sts : Option (List Nat))
    (loop incl : Bool) (c u bf af pr : OArg) :
    RelO ev k False (b.addOrdered allT e' sts loop incl c u bf af pr)
      (bs.addOrdered (suppressK ev k) e' sts loop incl c u bf af pr) := by
  have hi : bs.init = b.init := by obtain ⟨evs, rfl, _⟩ := h; rfl
  simp only [B.addOrdered]
  rw [h.stateNames, hi]
  split
  · trivial
  · split
    · trivial
    · exact addEdges_rel h _ _

/-- the event table after `remove_transition` left `l'` for the (known) event `e` -/
def afterRemove (e : Nat) (l' : List Trans) (X : List (Nat × List Trans)) : List (Nat × List Trans) :=
  if l'.isEmpty then delKey e X else setKey e l' X

theorem alookup_afterRemove_ne (e e' : Nat) (l' : List Trans) (X : List (Nat × List Trans)) (h : e ≠ e') :
    alookup e (afterRemove e' l' X) = alookup e X := by
  unfold afterRemove
  split
  · rw [alookup_delKey]; simp [h]
  · rw [alookup_setKey]; simp [h]

theorem alookup_afterRemove_self (e : Nat) (l' l0 : List Trans) (X : List (Nat × List Trans))
    (h : alookup e X = some l0) :
    alookup e (afterRemove e l' X) = if l'.isEmpty then none else some l' := by
  unfold afterRemove
  split
  · rw [alookup_delKey]; simp
  · rw [alookup_setKey]; simp [h]

theorem getD_ite_empty (l' : List Trans) : (if l'.isEmpty then none else some l').getD [] = l' := by
  cases l' <;> simp

theorem remove_eq (b : B) (e : Nat) (S D : Option (List Nat)) (l : List Trans) (h : alookup e b.cfg.events = some l) :
    b.remove e S D = some (b.withEvents (afterRemove e (l.filter (keepT S D)) b.cfg.events)) := by
  simp only [B.remove, h, afterRemove, B.withEvents]

theorem remove_none (b : B) (e : Nat) (S D : Option (List Nat)) (h : alookup e b.cfg.events = none) :
    b.remove e S D = none := by
  simp only [B.remove, h]

theorem remove_rel {b bs : B} (h : Rel ev k b bs) (e' : Nat) (S D : Option (List Nat)) :
    RelO ev k (e' = ev) (b.remove e' S D) (bs.remove e' S D) := by
  obtain ⟨evs, rfl, h1, h2, h3⟩ := h
  have hb : (b.withEvents evs).cfg.events = evs := rfl
  by_cases hne : e' = ev
  · subst hne
    cases hl : alookup e' b.cfg.events with
    | none =>
      rw [remove_none _ _ _ _ hl, remove_none _ _ _ _ (by rw [hb]; exact h3 hl)]
      trivial
    | some l =>
      rw [remove_eq _ _ _ _ _ hl]
      cases hls : alookup e' evs with
      | none => rw [remove_none _ _ _ _ (by rw [hb]; exact hls)]; exact rfl
      | some ls =>
        rw [remove_eq _ _ S D ls (by rw [hb]; exact hls), hb]
        have hls2 : ls = l.filter k := by simpa [hl, hls] using h2
        have hcomm : ls.filter (keepT S D) = (l.filter (keepT S D)).filter k := by
          rw [hls2, List.filter_filter, List.filter_filter]
          apply List.filter_congr; intro t _; exact Bool.and_comm _ _
        refine ⟨afterRemove e' (ls.filter (keepT S D)) evs, rfl, ?_, ?_, ?_⟩
        · intro e hne
          show alookup e (afterRemove _ _ evs) = alookup e (afterRemove _ _ b.cfg.events)
          rw [alookup_afterRemove_ne _ _ _ _ hne, alookup_afterRemove_ne _ _ _ _ hne]
          exact h1 e hne
        · show (alookup e' (afterRemove _ _ evs)).getD [] = ((alookup e' (afterRemove _ _ b.cfg.events)).getD []).filter k
          rw [alookup_afterRemove_self _ _ _ _ hls, alookup_afterRemove_self _ _ _ _ hl, hcomm,
            getD_ite_empty, getD_ite_empty]
        · show alookup e' (afterRemove _ _ b.cfg.events) = none → alookup e' (afterRemove _ _ evs) = none
          rw [alookup_afterRemove_self _ _ _ _ hls, alookup_afterRemove_self _ _ _ _ hl, hcomm]
          cases hx : l.filter (keepT S D) with
          | nil => simp
          | cons x r => simp
  · have h0 : alookup e' evs = alookup e' b.cfg.events := h1 e' hne
    cases hl : alookup e' b.cfg.events with
    | none =>
      rw [remove_none _ _ _ _ hl, remove_none _ _ _ _ (by rw [hb, h0]; exact hl)]
      trivial
    | some l =>
      rw [remove_eq _ _ _ _ _ hl, remove_eq _ _ S D l (by rw [hb, h0]; exact hl), hb]
      have hne' : ev ≠ e' := fun x => hne x.symm
      refine ⟨afterRemove e' (l.filter (keepT S D)) evs, rfl, ?_, ?_, ?_⟩
      · intro e hne2
        show alookup e (afterRemove _ _ evs) = alookup e (afterRemove _ _ b.cfg.events)
        by_cases hh : e = e'
        · subst hh
          rw [alookup_afterRemove_self _ _ _ _ (h0.trans hl), alookup_afterRemove_self _ _ _ _ hl]
        · rw [alookup_afterRemove_ne _ _ _ _ hh, alookup_afterRemove_ne _ _ _ _ hh]
          exact h1 e hne2
      · show (alookup ev (afterRemove _ _ evs)).getD [] = ((alookup ev (afterRemove _ _ b.cfg.events)).getD []).filter k
        rw [alookup_afterRemove_ne _ _ _ _ hne', alookup_afterRemove_ne _ _ _ _ hne']
        exact h2
      · show alookup ev (afterRemove _ _ b.cfg.events) = none → alookup ev (afterRemove _ _ evs) = none
        rw [alookup_afterRemove_ne _ _ _ _ hne', alookup_afterRemove_ne _ _ _ _ hne']
        exact h3

end

def Op.removesEvent : Op → Option Nat
  | .remove ev _ _ => some ev
  | _ => none

theorem RelO.weaken {ev : Nat} {k : Trans → Bool} {p q : Prop} (hpq : p → q) {x y : Option B}
    (h : RelO ev k p x y) : RelO ev k q x y := by
  cases x <;> cases y <;> first | exact h | exact hpq h

theorem applyOp_rel {ev : Nat} {k : Trans → Bool} {b bs : B} (h : Rel ev k b bs) (op : Op) :
    RelO ev k (op.removesEvent = some ev) (applyOpF allT b op) (applyOpF (suppressK ev k) bs op) := by
  cases op with
  | addStates l ci => exact addStates_rel h l ci
  | addTransition e' src dst cb => exact addTransition_rel h e' src dst cb
  | addOrdered e' sts loop incl c u bf af pr =>
    exact (addOrdered_rel h e' sts loop incl c u bf af pr).weaken False.elim
  | remove e' S D => exact (remove_rel h e' S D).weaken (fun x => by simp [Op.removesEvent, x])
  | setInitial s => exact setInitial_rel h s

/-- along a script that the real construction completes: whenever the suppressed construction completes
too the results are related, and it does complete when the script never removes from `ev` -/
theorem applyOps_rel {ev : Nat} {k : Trans → Bool} : ∀ (ops : List Op) (b bs b' : B), Rel ev k b bs →
    applyOpsF allT b ops = some b' →
    (∀ bs', applyOpsF (suppressK ev k) bs ops = some bs' → Rel ev k b' bs') ∧
    ((∀ op ∈ ops, op.removesEvent ≠ some ev) → ∃ bs', applyOpsF (suppressK ev k) bs ops = some bs') := by
  intro ops
  induction ops with
  | nil =>
    intro b bs b' h hb
    simp only [applyOpsF, Option.some.injEq] at hb
    subst hb
    exact ⟨fun bs' hs => by simp only [applyOpsF, Option.some.injEq] at hs; exact hs ▸ h, fun _ => ⟨bs, rfl⟩⟩
  | cons op r ih =>
    intro b bs b' h hb
    have h1 := applyOp_rel h op
    simp only [applyOpsF] at hb ⊢
    cases h2 : applyOpF allT b op with
    | none => simp [h2] at hb
    | some x =>
      rw [h2] at hb h1
      simp only at hb
      cases h3 : applyOpF (suppressK ev k) bs op with
      | none =>
        rw [h3] at h1
        refine ⟨fun bs' hs => by simp at hs, fun hno => ?_⟩
        exact absurd h1 (hno op (List.mem_cons_self ..))
      | some y =>
        rw [h3] at h1
        obtain ⟨ih1, ih2⟩ := ih x y b' h1 hb
        exact ⟨fun bs' hs => ih1 bs' hs, fun hno => ih2 (fun op' hm => hno op' (List.mem_cons_of_mem _ hm))⟩

/-- the transitions `remove_transition(ev, S, D)` deletes are never created -/
def suppress (ev : Nat) (S D : Option (List Nat)) : Filter := suppressK ev (keepT S D)

/-- an event without transitions does not exist (what `remove_transition` does when nothing is left) -/
def B.dropEmptyEvent (b : B) (ev : Nat) : B :=
  match alookup ev b.cfg.events with
  | some [] => b.withEvents (delKey ev b.cfg.events)
  | _ => b

theorem start_rel (ev : Nat) (k : Trans → Bool) (o : Opts) : Rel ev k (start o) (start o) :=
  ⟨[], rfl, fun _ _ => rfl, rfl, fun _ => rfl⟩

theorem equiv_of_lookup (x : B) (evs : List (Nat × List Trans))
    (h : ∀ e, alookup e evs = alookup e x.cfg.events) : x.cfg ≈ (x.withEvents evs).cfg where
  ignore := rfl
  states := rfl
  known := fun ev => by simp [Cfg.event?, B.withEvents, h]
  cands := fun ev src => by simp [Cfg.event?, B.withEvents, h]
  prepareEvent := rfl
  beforeSC := rfl
  afterSC := rfl
  finalize := rfl
  onException := rfl
  onFinal := rfl
  queued := rfl
  initial := rfl

/-- what the final `remove_transition(ev, S, D)` gives, against the suppressed machine `bs` -/
def RemoveResult (b bs : B) (ev : Nat) (S D : Option (List Nat)) : Prop :=
  match b.remove ev S D with
  | none => b.cfg.event? ev = none
  | some b' => b'.cfg ≈ (bs.dropEmptyEvent ev).cfg ∧ b'.init = (bs.dropEmptyEvent ev).init ∧
      b'.auto = (bs.dropEmptyEvent ev).auto ∧ b'.mign = (bs.dropEmptyEvent ev).mign

theorem removeResult_of_rel (b bs : B) (ev : Nat) (S D : Option (List Nat)) (h : Rel ev (keepT S D) b bs) :
    RemoveResult b bs ev S D := by
  obtain ⟨evs, rfl, h1, h2, h3⟩ := h
  unfold RemoveResult
  have hb : (b.withEvents evs).cfg.events = evs := rfl
  cases hl : alookup ev b.cfg.events with
  | none => rw [remove_none _ _ _ _ hl]; exact hl
  | some l =>
    rw [remove_eq _ _ _ _ _ hl]
    simp only [hl, Option.getD_some] at h2
    have key : ∃ evs', (b.withEvents evs).dropEmptyEvent ev = b.withEvents evs' ∧
        ∀ e, alookup e evs' = alookup e (afterRemove ev (l.filter (keepT S D)) b.cfg.events) := by
      cases hls : alookup ev evs with
      | none =>
        refine ⟨evs, by simp only [B.dropEmptyEvent, hb, hls], ?_⟩
        intro e
        by_cases hh : e = ev
        · subst hh
          rw [alookup_afterRemove_self _ _ _ _ hl, hls]
          simp only [hls, Option.getD_none] at h2
          simp [← h2]
        · rw [alookup_afterRemove_ne _ _ _ _ hh]; exact h1 e hh
      | some ls =>
        simp only [hls, Option.getD_some] at h2
        cases ls with
        | nil =>
          refine ⟨delKey ev evs, by simp only [B.dropEmptyEvent, hb, hls]; rfl, ?_⟩
          intro e
          rw [alookup_delKey]
          by_cases hh : e = ev
          · subst hh
            rw [alookup_afterRemove_self _ _ _ _ hl]
            simp [← h2]
          · rw [alookup_afterRemove_ne _ _ _ _ hh]; simp only [hh, if_false]; exact h1 e hh
        | cons x r =>
          refine ⟨evs, by simp only [B.dropEmptyEvent, hb, hls], ?_⟩
          intro e
          by_cases hh : e = ev
          · subst hh
            rw [alookup_afterRemove_self _ _ _ _ hl, hls, ← h2]
            simp
          · rw [alookup_afterRemove_ne _ _ _ _ hh]; exact h1 e hh
    obtain ⟨evs', hd, hlook⟩ := key
    rw [hd]
    exact ⟨equiv_of_lookup (b.withEvents (afterRemove ev (l.filter (keepT S D)) b.cfg.events)) evs' hlook,
      rfl, rfl, rfl⟩

theorem remove_core (o : Opts) (ops : List Op) (ev : Nat) (S D : Option (List Nat)) (b : B)
    (hb : build o ops = some b) :
    (∀ bs, buildF (suppress ev S D) o ops = some bs → RemoveResult b bs ev S D) ∧
    ((∀ op ∈ ops, op.removesEvent ≠ some ev) → ∃ bs, buildF (suppress ev S D) o ops = some bs) := by
  obtain ⟨h1, h2⟩ := applyOps_rel ops (start o) (start o) b (start_rel ev (keepT S D) o) hb
  exact ⟨fun bs hs => removeResult_of_rel b bs ev S D (h1 bs hs), h2⟩

end Build
end TM
