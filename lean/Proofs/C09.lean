/-
  Proofs/C09.lean — helper lemmas for property C09.

  Part 1: erasure.  Every function of the instrumented engine `Model/Side.lean`, with the side table
  projected away, is the corresponding function of `Model/Core.lean` — for all hooks, by structural
  simulation (the same recursion as the definitions).
-/
import Model.Side

namespace TM
namespace Side
namespace C09P

variable {γ : Type}

/-- forget the side table -/
def eraseR {α : Type} : RS γ α → R α
  | .ok a s => .ok a s.base
  | .err e s => .err e s.base
  | .oof => .oof

@[simp] theorem eraseR_ok {α : Type} (a : α) (s : SSt γ) : eraseR (.ok a s : RS γ α) = .ok a s.base := rfl
@[simp] theorem eraseR_err {α : Type} (e : Exc) (s : SSt γ) : eraseR (.err e s : RS γ α) = .err e s.base := rfl
@[simp] theorem eraseR_oof {α : Type} : eraseR (.oof : RS γ α) = .oof := rfl
@[simp] theorem mapBase_base (s : SSt γ) (f : St → St) : (s.mapBase f).base = f s.base := rfl
@[simp] theorem mapBase_side (s : SSt γ) (f : St → St) : (s.mapBase f).side = s.side := rfl

theorem eraseR_liftR {α : Type} (r : R α) (g : γ) : eraseR (liftR r g) = r := by
  cases r <;> rfl

/-- the interpreter of re-entrant commands of the instrumented engine refines the plain one -/
def SubSim (sub' : SSub γ) (sub : Sub) : Prop := ∀ c s, eraseR (sub' c s) = sub c s.base

theorem bind_sim {α β : Type} {r' : RS γ α} {r : R α} {f : α → SSt γ → RS γ β} {g : α → St → R β}
    (hr : eraseR r' = r) (h : ∀ a s, eraseR (f a s) = g a s.base) :
    eraseR (r'.bind f) = r.bind g := by
  subst hr
  cases r' <;> first | rfl | exact h _ _

theorem bind_post_erase (r' : RS γ Unit) (k : SSt γ → γ) :
    eraseR (r'.bind fun _ s' => .ok () ⟨s'.base, k s'⟩) = eraseR r' := by
  cases r' <;> rfl

theorem map_sim {α β : Type} {r' : RS γ α} {r : R α} (f : α → β) (hr : eraseR r' = r) :
    eraseR (r'.map f) = r.map f := by
  subst hr
  cases r' <;> rfl

theorem runCmds_erase {sub' : SSub γ} {sub : Sub} (hs : SubSim sub' sub) (cs : List Cmd) (s : SSt γ) :
    eraseR (runCmds sub' cs s) = TM.runCmds sub cs s.base := by
  induction cs generalizing s with
  | nil => rfl
  | cons c cs ih => exact bind_sim (hs c s) (fun _ s' => ih s')

theorem invoke_erase {sub' : SSub γ} {sub : Sub} (hs : SubSim sub' sub) (sc : Script) (slot : Slot) (x : Ctx)
    (c : Nat) (s : SSt γ) :
    eraseR (invoke sub' sc slot x c s) = TM.invoke sub sc slot x c s.base := by
  unfold invoke TM.invoke
  simp only []
  have h := runCmds_erase hs (sc c (s.base.count c)).cmds
    ⟨({ s.base with counts := aset c (s.base.count c + 1) s.base.counts } : St).emit
        (.call slot c x.model x.tag
          (({ s.base with counts := aset c (s.base.count c + 1) s.base.counts } : St).stateOf x.model)), s.side⟩
  simp only [] at h
  rw [← h]
  cases runCmds sub' (sc c (s.base.count c)).cmds _ with
  | ok u s3 => cases (sc c (s.base.count c)).out <;> rfl
  | err e s3 => rfl
  | oof => rfl

theorem callbacks_erase {sub' : SSub γ} {sub : Sub} (hs : SubSim sub' sub) (sc : Script) (slot : Slot) (x : Ctx)
    (cs : List Nat) (s : SSt γ) :
    eraseR (callbacks sub' sc slot x cs s) = TM.callbacks sub sc slot x cs s.base := by
  induction cs generalizing s with
  | nil => rfl
  | cons c cs ih => exact bind_sim (invoke_erase hs sc slot x c s) (fun _ s' => ih s')

theorem evalConds_erase {sub' : SSub γ} {sub : Sub} (hs : SubSim sub' sub) (sc : Script) (x : Ctx)
    (cs : List Cond) (s : SSt γ) :
    eraseR (evalConds sub' sc x cs s) = TM.evalConds sub sc x cs s.base := by
  induction cs generalizing s with
  | nil => rfl
  | cons c cs ih =>
    refine bind_sim (invoke_erase hs sc _ x c.cb s) (fun b s' => ?_)
    by_cases hb : b = c.target
    · simp only [hb, if_true]; exact ih s'
    · simp only [hb, if_false]; rfl

theorem changeStateBase_erase {sub' : SSub γ} {sub : Sub} (hs : SubSim sub' sub) (sc : Script) (cfg : Cfg)
    (x : Ctx) (t : Trans) (dst : Nat) (s : SSt γ) :
    eraseR (changeStateBase sub' sc cfg x t dst s) = TM.changeState sub sc cfg x t dst s.base := by
  unfold changeStateBase TM.changeState
  cases cfg.state? (s.base.stateOf x.model) with
  | none => rfl
  | some src =>
    refine bind_sim (callbacks_erase hs sc _ x _ s) (fun _ s1 => ?_)
    cases cfg.state? dst with
    | none => rfl
    | some d =>
      refine bind_sim (callbacks_erase hs sc _ x _ _) (fun _ s3 => ?_)
      by_cases hf : d.final
      · simp only [hf, if_true]; exact callbacks_erase hs sc _ x _ s3
      · simp only [hf]; rfl

/-- the two styling hooks around `super()._change_state` are invisible -/
theorem changeState_erase (H : Hooks γ) {sub' : SSub γ} {sub : Sub} (hs : SubSim sub' sub) (sc : Script)
    (cfg : Cfg) (x : Ctx) (t : Trans) (dst : Nat) (s : SSt γ) :
    eraseR (changeState H sub' sc cfg x t dst s) = TM.changeState sub sc cfg x t dst s.base := by
  have h := changeStateBase_erase hs sc cfg x t dst ⟨s.base, H.pre s.side x.model t.source dst⟩
  rw [← h]
  exact bind_post_erase _ _

theorem execute_erase (H : Hooks γ) {sub' : SSub γ} {sub : Sub} (hs : SubSim sub' sub) (sc : Script) (cfg : Cfg)
    (x : Ctx) (t : Trans) (s : SSt γ) :
    eraseR (execute H sub' sc cfg x t s) = TM.execute sub sc cfg x t s.base := by
  unfold execute TM.execute
  refine bind_sim (callbacks_erase hs sc _ x _ s) (fun _ s1 => ?_)
  refine bind_sim (evalConds_erase hs sc x _ s1) (fun ok s2 => ?_)
  cases ok with
  | false => rfl
  | true =>
    simp only [Bool.not_true, Bool.false_eq_true, if_false]
    refine bind_sim (callbacks_erase hs sc _ x _ s2) (fun _ s3 => ?_)
    refine bind_sim (callbacks_erase hs sc _ x _ s3) (fun _ s4 => ?_)
    refine bind_sim ?_ (fun _ s5 => ?_)
    · cases t.dest with
      | none => rfl
      | some d => exact changeState_erase H hs sc cfg x t d s4
    · refine bind_sim (callbacks_erase hs sc _ x _ s5) (fun _ s6 => ?_)
      exact bind_sim (callbacks_erase hs sc _ x _ s6) (fun _ _ => rfl)

theorem tryTransitions_erase (H : Hooks γ) {sub' : SSub γ} {sub : Sub} (hs : SubSim sub' sub) (sc : Script)
    (cfg : Cfg) (x : Ctx) (ts : List Trans) (s : SSt γ) :
    eraseR (tryTransitions H sub' sc cfg x ts s) = TM.tryTransitions sub sc cfg x ts s.base := by
  induction ts generalizing s with
  | nil => rfl
  | cons t ts ih =>
    refine bind_sim (execute_erase H hs sc cfg x t s) (fun ok s' => ?_)
    cases ok with
    | true => rfl
    | false => simpa using ih s'

theorem eventProcess_erase (H : Hooks γ) {sub' : SSub γ} {sub : Sub} (hs : SubSim sub' sub) (sc : Script)
    (cfg : Cfg) (x : Ctx) (ts : List Trans) (s : SSt γ) :
    eraseR (eventProcess H sub' sc cfg x ts s) = TM.eventProcess sub sc cfg x ts s.base :=
  bind_sim (callbacks_erase hs sc _ x _ s) (fun _ s1 => tryTransitions_erase H hs sc cfg x ts s1)

theorem runFinalize_erase {sub' : SSub γ} {sub : Sub} (hs : SubSim sub' sub) (sc : Script) (cfg : Cfg)
    (x : Ctx) (s : SSt γ) :
    (runFinalize sub' sc cfg x s).map (·.base) = TM.runFinalize sub sc cfg x s.base := by
  unfold runFinalize TM.runFinalize
  rw [← callbacks_erase hs sc .finalize x cfg.finalize s]
  cases callbacks sub' sc .finalize x cfg.finalize s <;> rfl

theorem exceptClause_erase {sub' : SSub γ} {sub : Sub} (hs : SubSim sub' sub) (sc : Script) (cfg : Cfg)
    (x : Ctx) (r : RS γ Bool) :
    eraseR (exceptClause sub' sc cfg x r) = TM.exceptClause sub sc cfg x (eraseR r) := by
  cases r with
  | ok b s => rfl
  | oof => rfl
  | err e s =>
    unfold exceptClause TM.exceptClause
    simp only [eraseR_err]
    cases hh : cfg.onException with
    | nil => rfl
    | cons h hs' => exact bind_sim (callbacks_erase hs sc _ x _ s) (fun _ _ => rfl)

theorem finallyClause_erase {sub' : SSub γ} {sub : Sub} (hs : SubSim sub' sub) (sc : Script) (cfg : Cfg)
    (x : Ctx) (r : RS γ Bool) :
    eraseR (finallyClause sub' sc cfg x r) = TM.finallyClause sub sc cfg x (eraseR r) := by
  cases r with
  | oof => rfl
  | ok b s =>
    unfold finallyClause TM.finallyClause
    simp only [eraseR_ok]
    rw [← runFinalize_erase hs sc cfg x s]
    cases runFinalize sub' sc cfg x s <;> rfl
  | err e s =>
    unfold finallyClause TM.finallyClause
    simp only [eraseR_err]
    rw [← runFinalize_erase hs sc cfg x s]
    cases runFinalize sub' sc cfg x s <;> rfl

theorem guarded_erase {sub' : SSub γ} {sub : Sub} (hs : SubSim sub' sub) (sc : Script) (cfg : Cfg)
    (x : Ctx) (r' : RS γ Bool) (r : R Bool) (hr : eraseR r' = r) :
    eraseR (guarded sub' sc cfg x r') = TM.guarded sub sc cfg x r := by
  unfold guarded TM.guarded
  rw [finallyClause_erase hs, exceptClause_erase hs, hr]

theorem eventTrigger_erase (H : Hooks γ) {sub' : SSub γ} {sub : Sub} (hs : SubSim sub' sub) (sc : Script)
    (cfg : Cfg) (ts : List Trans) (x : Ctx) (s : SSt γ) :
    eraseR (eventTrigger H sub' sc cfg ts x s) = TM.eventTrigger sub sc cfg ts x s.base := by
  unfold eventTrigger TM.eventTrigger
  simp only []
  cases cfg.state? (s.base.stateOf x.model) with
  | none => rfl
  | some d =>
    simp only []
    apply guarded_erase hs
    cases candidates ts (s.base.stateOf x.model) with
    | none =>
      simp only []
      cases ignoreInvalid cfg (s.base.stateOf x.model) <;> rfl
    | some cs => exact eventProcess_erase H hs sc cfg x cs s

theorem drain_erase (H : Hooks γ) {sub' : SSub γ} {sub : Sub} (hs : SubSim sub' sub) (sc : Script) (cfg : Cfg)
    (n : Nat) (s : SSt γ) :
    eraseR (drain H sub' sc cfg n s) = TM.drain sub sc cfg n s.base := by
  induction n generalizing s with
  | zero => rfl
  | succ n ih =>
    unfold drain TM.drain
    cases hq : s.base.queue with
    | nil => rfl
    | cons e rest =>
      obtain ⟨m, ev, tag⟩ := e
      simp only []
      rw [← eventTrigger_erase H hs sc cfg ((cfg.event? ev).getD []) ⟨m, tag⟩ s]
      cases eventTrigger H sub' sc cfg ((cfg.event? ev).getD []) ⟨m, tag⟩ s with
      | ok b s' => simpa using ih (s'.mapBase fun b => { b with queue := b.queue.drop 1 })
      | err e s' => rfl
      | oof => rfl

theorem machineProcess_erase (H : Hooks γ) {sub' : SSub γ} {sub : Sub} (hs : SubSim sub' sub) (sc : Script)
    (cfg : Cfg) (fuelQ m ev tag : Nat) (s : SSt γ) :
    eraseR (machineProcess H sub' sc cfg fuelQ m ev tag s) = TM.machineProcess sub sc cfg fuelQ m ev tag s.base := by
  unfold machineProcess TM.machineProcess
  simp only []
  by_cases hq : cfg.queued
  · simp only [hq, Bool.not_true, Bool.false_eq_true, if_false, mapBase_base]
    by_cases hl : (s.base.queue ++ [(m, ev, tag)]).length > 1
    · simp only [hl, if_true]; rfl
    · simp only [hl, if_false]
      exact bind_sim (drain_erase H hs sc cfg fuelQ _) (fun _ _ => rfl)
  · simp only [hq, Bool.not_false, if_true]
    cases hqq : s.base.queue with
    | nil => exact eventTrigger_erase H hs sc cfg _ _ s
    | cons e r => rfl

theorem triggerByName_erase (H : Hooks γ) {sub' : SSub γ} {sub : Sub} (hs : SubSim sub' sub) (sc : Script)
    (cfg : Cfg) (fuelQ m ev tag : Nat) (s : SSt γ) :
    eraseR (triggerByName H sub' sc cfg fuelQ m ev tag s) = TM.triggerByName sub sc cfg fuelQ m ev tag s.base := by
  unfold triggerByName TM.triggerByName
  split
  · rfl
  · cases cfg.event? ev with
    | some ts => exact machineProcess_erase H hs sc cfg fuelQ m ev tag s
    | none =>
      simp only []
      cases cfg.state? (s.base.stateOf m) with
      | none => rfl
      | some d =>
        simp only []
        cases ignoreInvalid cfg (s.base.stateOf m) <;> rfl

theorem removeModel_erase (m : Nat) (s : SSt γ) : eraseR (removeModel m s) = TM.removeModel m s.base :=
  eraseR_liftR _ _

theorem addModel_erase (H : Hooks γ) (cfg : Cfg) (m : Nat) (s : SSt γ) :
    eraseR (addModel H cfg m s) = TM.addModel cfg m s.base := by
  unfold addModel
  split
  · exact eraseR_liftR _ _
  · cases TM.addModel cfg m s.base <;> rfl

theorem mayLoop_erase {sub' : SSub γ} {sub : Sub} (hs : SubSim sub' sub) (sc : Script) (cfg : Cfg) (x : Ctx)
    (ts : List Trans) (s : SSt γ) :
    eraseR (mayLoop sub' sc cfg x ts s) = TM.mayLoop sub sc cfg x ts s.base := by
  induction ts generalizing s with
  | nil => rfl
  | cons t ts ih =>
    unfold mayLoop TM.mayLoop
    by_cases hd : destOk cfg t
    · simp only [hd, Bool.not_true, Bool.false_eq_true, if_false]
      have hatt : eraseR ((callbacks sub' sc .prepareEvent x cfg.prepareEvent s).bind fun _ s1 =>
            (callbacks sub' sc .prepare x t.prepare s1).bind fun _ s2 => evalConds sub' sc x t.conds s2) =
          ((TM.callbacks sub sc .prepareEvent x cfg.prepareEvent s.base).bind fun _ s1 =>
            (TM.callbacks sub sc .prepare x t.prepare s1).bind fun _ s2 => TM.evalConds sub sc x t.conds s2) :=
        bind_sim (callbacks_erase hs sc _ x _ s) (fun _ s1 =>
          bind_sim (callbacks_erase hs sc _ x _ s1) (fun _ s2 => evalConds_erase hs sc x _ s2))
      rw [← hatt]
      cases ((callbacks sub' sc .prepareEvent x cfg.prepareEvent s).bind fun _ s1 =>
            (callbacks sub' sc .prepare x t.prepare s1).bind fun _ s2 => evalConds sub' sc x t.conds s2) with
      | oof => rfl
      | ok b s' =>
        cases b with
        | true => rfl
        | false => exact ih s'
      | err e s' =>
        simp only [eraseR_err]
        refine bind_sim ?_ (fun _ s'' => ih s'')
        cases cfg.onException with
        | nil => rfl
        | cons h hs' => exact callbacks_erase hs sc _ x _ s'
    · simp only [hd, Bool.not_false, if_true]
      exact ih s

theorem canTrigger_erase {sub' : SSub γ} {sub : Sub} (hs : SubSim sub' sub) (sc : Script) (cfg : Cfg)
    (m ev tag : Nat) (s : SSt γ) :
    eraseR (canTrigger sub' sc cfg m ev tag s) = TM.canTrigger sub sc cfg m ev tag s.base := by
  unfold canTrigger TM.canTrigger
  split
  · rfl
  · simp only []
    cases cfg.state? (s.base.stateOf m) with
    | none => rfl
    | some d =>
      simp only []
      cases cfg.event? ev with
      | none => rfl
      | some ts =>
        simp only []
        cases candidates ts (s.base.stateOf m) with
        | none => rfl
        | some cs => exact mayLoop_erase hs sc cfg _ cs s

theorem apiTrigger_erase (H : Hooks γ) {sub' : SSub γ} {sub : Sub} (hs : SubSim sub' sub) (sc : Script)
    (cfg : Cfg) (qmax m ev : Nat) (s : SSt γ) :
    eraseR (apiTrigger H sub' sc cfg qmax m ev s) = TM.apiTrigger sub sc cfg qmax m ev s.base := by
  unfold apiTrigger TM.apiTrigger
  simp only []
  have h := triggerByName_erase H hs sc cfg qmax m ev s.base.nextTag
    (s.mapBase fun b => ({ b with nextTag := s.base.nextTag + 1 }).emit (.api 0 s.base.nextTag m ev))
  simp only [mapBase_base] at h
  rw [← h]
  cases triggerByName H sub' sc cfg qmax m ev s.base.nextTag _ <;> rfl

theorem apiMay_erase {sub' : SSub γ} {sub : Sub} (hs : SubSim sub' sub) (sc : Script)
    (cfg : Cfg) (m ev : Nat) (s : SSt γ) :
    eraseR (apiMay sub' sc cfg m ev s) = TM.apiMay sub sc cfg m ev s.base := by
  unfold apiMay TM.apiMay
  simp only []
  have h := canTrigger_erase hs sc cfg m ev s.base.nextTag
    (s.mapBase fun b => ({ b with nextTag := s.base.nextTag + 1 }).emit (.api 1 s.base.nextTag m ev))
  simp only [mapBase_base] at h
  rw [← h]
  cases canTrigger sub' sc cfg m ev s.base.nextTag _ <;> rfl

theorem dispatchLoop_erase (H : Hooks γ) {sub' : SSub γ} {sub : Sub} (hs : SubSim sub' sub) (sc : Script)
    (cfg : Cfg) (qmax ev tag n i : Nat) (acc : Bool) (s : SSt γ) :
    eraseR (dispatchLoop H sub' sc cfg qmax ev tag n i acc s) =
      TM.dispatchLoop sub sc cfg qmax ev tag n i acc s.base := by
  induction n generalizing i acc s with
  | zero => rfl
  | succ n ih =>
    unfold dispatchLoop TM.dispatchLoop
    cases s.base.models[i]? with
    | none => rfl
    | some m => exact bind_sim (triggerByName_erase H hs sc cfg qmax m ev tag s) (fun b s' => ih _ _ s')

theorem apiDispatch_erase (H : Hooks γ) {sub' : SSub γ} {sub : Sub} (hs : SubSim sub' sub) (sc : Script)
    (cfg : Cfg) (qmax ev : Nat) (s : SSt γ) :
    eraseR (apiDispatch H sub' sc cfg qmax ev s) = TM.apiDispatch sub sc cfg qmax ev s.base := by
  unfold apiDispatch TM.apiDispatch
  simp only []
  have h := dispatchLoop_erase H hs sc cfg qmax ev s.base.nextTag (qmax + s.base.models.length + 1) 0 true
    (s.mapBase fun b => ({ b with nextTag := s.base.nextTag + 1 }).emit (.api 2 s.base.nextTag 0 ev))
  simp only [mapBase_base] at h
  show eraseR (match dispatchLoop H sub' sc cfg qmax ev s.base.nextTag (qmax + s.base.models.length + 1) 0 true _ with
    | .ok b s' => _ | .err e s' => _ | .oof => _) = _
  show _ = (match TM.dispatchLoop sub sc cfg qmax ev s.base.nextTag (qmax + s.base.models.length + 1) 0 true _ with
    | .ok b s' => _ | .err e s' => _ | .oof => _)
  rw [← h]
  cases dispatchLoop H sub' sc cfg qmax ev s.base.nextTag _ 0 true _ <;> rfl

theorem apiRemove_erase (m : Nat) (s : SSt γ) : eraseR (apiRemove m s) = TM.apiRemove m s.base := by
  unfold apiRemove TM.apiRemove
  simp only []
  have h := removeModel_erase m
    (s.mapBase fun b => ({ b with nextTag := s.base.nextTag + 1 }).emit (.api 3 s.base.nextTag m 0))
  simp only [mapBase_base] at h
  rw [← h]
  cases removeModel m _ <;> rfl

theorem apiAdd_erase (H : Hooks γ) (cfg : Cfg) (m : Nat) (s : SSt γ) :
    eraseR (apiAdd H cfg m s) = TM.apiAdd cfg m s.base := by
  unfold apiAdd TM.apiAdd
  simp only []
  have h := addModel_erase H cfg m
    (s.mapBase fun b => ({ b with nextTag := s.base.nextTag + 1 }).emit (.api 4 s.base.nextTag m 0))
  simp only [mapBase_base] at h
  rw [← h]
  cases addModel H cfg m _ <;> rfl

theorem runCmd_erase (H : Hooks γ) (sc : Script) (cfg : Cfg) (qmax fuel : Nat) :
    SubSim (runCmd H sc cfg qmax fuel) (TM.runCmd sc cfg qmax fuel) := by
  induction fuel with
  | zero => intro c s; rfl
  | succ f ih =>
    intro c s
    unfold runCmd TM.runCmd
    cases c with
    | trigger m ev => exact map_sim _ (apiTrigger_erase H ih sc cfg qmax m ev s)
    | may m ev => exact map_sim _ (apiMay_erase ih sc cfg m ev s)
    | dispatch ev => exact map_sim _ (apiDispatch_erase H ih sc cfg qmax ev s)
    | removeModel m => exact apiRemove_erase m s
    | addModel m => exact apiAdd_erase H cfg m s

theorem runHistory_erase (H : Hooks γ) (sc : Script) (cfg : Cfg) (qmax fuel : Nat) (h : List Cmd) (s : SSt γ) :
    (runHistory H sc cfg qmax fuel h s).map (·.base) = TM.runHistory sc cfg qmax fuel h s.base := by
  induction h generalizing s with
  | nil => rfl
  | cons c cs ih =>
    unfold runHistory TM.runHistory
    rw [← runCmd_erase H sc cfg qmax fuel c s]
    cases runCmd H sc cfg qmax fuel c s with
    | ok u s' => exact ih s'
    | err e s' => exact ih s'
    | oof => rfl

end C09P
end Side
end TM
