/-
  Proofs/C04N.lean — every function of the hierarchical engine model, run with ANY script (callbacks and conditions
  may raise anywhere, any exception, any number of times; re-entrant `trigger` commands allowed), appends a segment
  that the containment acceptor of `Model/Spec/C04N.lean` accepts with the matching outcome and bookkeeping.

  The only place where the script matters is one callback invocation (`InvokeSim`); it is discharged twice: for
  scripts without re-entrant commands (any `sub`, any `inner`) and for scripts with them, where the interpreter of
  commands `sub` is itself simulated by `inner` (`SubSim`), which the fuelled knot `nrunCmd` / `aRunCmd` provides.
-/
import Proofs.C01
import Model.Spec.C04N

namespace TM
open C04N

/-- what the acceptor tracks of an engine state -/
def NSt.abs (s : NSt) : ASt := ⟨s.conf, s.queue, s.result, s.exited⟩

@[simp] theorem NSt.abs_conf (s : NSt) : s.abs.conf = s.conf := rfl
@[simp] theorem NSt.abs_queue (s : NSt) : s.abs.queue = s.queue := rfl
@[simp] theorem NSt.abs_result (s : NSt) : s.abs.result = s.result := rfl
@[simp] theorem NSt.abs_exited (s : NSt) : s.abs.exited = s.exited := rfl

/-- the engine's result is what the acceptor `A` says of the segment it appended to the log, whatever follows -/
def Sim {α : Type} (r : NR α) (s : NSt) (A : Acc α) : Prop :=
  match r with
  | .ok v s' => ∃ seg, s'.log = s.log ++ seg ∧ ∀ rest, A s.abs (seg ++ rest) = some (.ok v, s'.abs, rest)
  | .err e s' => ∃ seg, s'.log = s.log ++ seg ∧ ∀ rest, A s.abs (seg ++ rest) = some (.fail e, s'.abs, rest)
  | .oof => True

namespace Sim
variable {α β : Type}

theorem pure (v : α) (s : NSt) : Sim (.ok v s : NR α) s (Acc.pure v) :=
  ⟨[], by simp, fun _ => rfl⟩

/-- the engine state the run starts from may differ in what the acceptor does not track -/
theorem congr {r : NR α} {s s0 : NSt} {A : Acc α} (h : Sim r s A) (ha : s0.abs = s.abs) (hl : s0.log = s.log) :
    Sim r s0 A := by
  cases r with
  | ok v s' => obtain ⟨seg, h1, h2⟩ := h; exact ⟨seg, by rw [hl]; exact h1, by rw [ha]; exact h2⟩
  | err e s' => obtain ⟨seg, h1, h2⟩ := h; exact ⟨seg, by rw [hl]; exact h1, by rw [ha]; exact h2⟩
  | oof => trivial

/-- only the value of the acceptor at the tracked state matters -/
theorem at' {r : NR α} {s : NSt} {A A' : Acc α} (h : Sim r s A') (hA : ∀ l, A s.abs l = A' s.abs l) : Sim r s A := by
  cases r with
  | ok v s' => obtain ⟨seg, h1, h2⟩ := h; exact ⟨seg, h1, fun rest => by rw [hA]; exact h2 rest⟩
  | err e s' => obtain ⟨seg, h1, h2⟩ := h; exact ⟨seg, h1, fun rest => by rw [hA]; exact h2 rest⟩
  | oof => trivial

/-- the engine moves to `s0` (same log) before the run, the acceptor to `s0.abs` -/
theorem shift {r : NR α} {s s0 : NSt} {A A0 : Acc α} (h : Sim r s0 A0) (hl : s0.log = s.log)
    (hA : ∀ l, A s.abs l = A0 s0.abs l) : Sim r s A := by
  cases r with
  | ok v s' => obtain ⟨seg, h1, h2⟩ := h; exact ⟨seg, by rw [← hl]; exact h1, fun rest => by rw [hA]; exact h2 rest⟩
  | err e s' => obtain ⟨seg, h1, h2⟩ := h; exact ⟨seg, by rw [← hl]; exact h1, fun rest => by rw [hA]; exact h2 rest⟩
  | oof => trivial

theorem bind {r : NR α} {f : α → NSt → NR β} {s : NSt} {A : Acc α} {B : α → Acc β}
    (h1 : Sim r s A) (h2 : ∀ v s1, r = .ok v s1 → Sim (f v s1) s1 (B v)) : Sim (r.bind f) s (A.bind B) := by
  cases r with
  | oof => trivial
  | err e s1 =>
    obtain ⟨seg, l1, a1⟩ := h1
    exact ⟨seg, l1, fun rest => by simp only [Acc.bind, a1 rest]⟩
  | ok v s1 =>
    obtain ⟨seg1, l1, a1⟩ := h1
    have hb := h2 v s1 rfl
    simp only [Res.bind]
    cases hf : f v s1 with
    | oof => trivial
    | ok w s2 =>
      rw [hf] at hb
      obtain ⟨seg2, l2, a2⟩ := hb
      exact ⟨seg1 ++ seg2, by rw [l2, l1, List.append_assoc], fun rest => by
        simp only [Acc.bind, List.append_assoc, a1 (seg2 ++ rest), a2 rest]⟩
    | err e s2 =>
      rw [hf] at hb
      obtain ⟨seg2, l2, a2⟩ := hb
      exact ⟨seg1 ++ seg2, by rw [l2, l1, List.append_assoc], fun rest => by
        simp only [Acc.bind, List.append_assoc, a1 (seg2 ++ rest), a2 rest]⟩

/-- a value-level map on both sides -/
theorem map {r : NR α} {s : NSt} {A : Acc α} (g : α → β) (h : Sim r s A) :
    Sim (r.map g) s (A.bind fun v => Acc.pure (g v)) := by
  cases r with
  | oof => trivial
  | ok v s1 => obtain ⟨seg, l1, a1⟩ := h; exact ⟨seg, l1, fun rest => by simp only [Acc.bind, a1 rest, Acc.pure]⟩
  | err e s1 => obtain ⟨seg, l1, a1⟩ := h; exact ⟨seg, l1, fun rest => by simp only [Acc.bind, a1 rest]⟩

end Sim

/-- the script enters through single invocations only -/
def InvokeSim (sub : NSub) (sc : Script) (inner : Inner) : Prop :=
  ∀ (cfg : NCfg) (slot : Slot) (x : Ctx) (c : Nat) (s : NSt),
    Sim (ninvoke sub sc cfg slot x c s) s (aInvoke inner cfg slot x c)

/-- scripts without re-entrant commands: whatever `sub` and `inner` are -/
theorem invokeSim_of_noCmds (sub : NSub) (sc : Script) (inner : Inner) (hC : NoCmds sc) : InvokeSim sub sc inner := by
  intro cfg slot x c s
  simp only [ninvoke, hC c, nrunCmds]
  cases ho : (sc c (s.count c)).out with
  | ret b =>
    refine ⟨[.call slot c x.model x.tag (confMask cfg s.conf), .done c (.ret b)], by simp [NSt.emit], fun rest => ?_⟩
    simp [aInvoke, aCmds, NSt.abs, NSt.emit]
  | raise e =>
    refine ⟨[.call slot c x.model x.tag (confMask cfg s.conf), .done c (.raise e)], by simp [NSt.emit], fun rest => ?_⟩
    simp [aInvoke, aCmds, NSt.abs, NSt.emit]

section Engine
variable {sub : NSub} {sc : Script} {inner : Inner} (H : InvokeSim sub sc inner) (cfg : NCfg)
include H

theorem ncallbacks_sim (slot : Slot) (x : Ctx) : ∀ (cbs : List Nat) (s : NSt),
    Sim (ncallbacks sub sc cfg slot x cbs s) s (aCallbacks inner cfg slot x cbs)
  | [], s => Sim.pure () s
  | c :: cs, s => by
    unfold ncallbacks aCallbacks
    exact Sim.bind (H cfg slot x c s) (fun _ s1 _ => ncallbacks_sim slot x cs s1)

theorem nevalConds_sim (x : Ctx) : ∀ (cs : List Cond) (s : NSt),
    Sim (nevalConds sub sc cfg x cs s) s (aEvalConds inner cfg x cs)
  | [], s => Sim.pure true s
  | c :: cs, s => by
    unfold nevalConds aEvalConds
    refine Sim.bind (H cfg _ x c.cb s) ?_
    intro b s1 _
    split
    · exact nevalConds_sim x cs s1
    · exact Sim.pure false s1

theorem exitAll_sim (x : Ctx) : ∀ (fs : List Found) (s : NSt),
    Sim (exitAll sub sc cfg x fs s) s (aExitAll inner cfg x fs)
  | [], s => Sim.pure () s
  | f :: fs, s => by
    unfold exitAll aExitAll
    exact Sim.bind ((ncallbacks_sim H cfg .onExit x f.d.onExit (s.emitG (.exit f.path))).congr rfl rfl)
      (fun _ s1 _ => exitAll_sim x fs s1)

theorem enterAll_sim (x : Ctx) : ∀ (fs : List Found) (s : NSt),
    Sim (enterAll sub sc cfg x fs s) s (aEnterAll inner cfg x fs)
  | [], s => Sim.pure () s
  | f :: fs, s => by
    unfold enterAll aEnterAll
    exact Sim.bind ((ncallbacks_sim H cfg .onEnter x f.d.onEnter (s.emitG (.enter f.path))).congr rfl rfl)
      (fun _ s1 _ => enterAll_sim x fs s1)

theorem nchangeState_sim (scope : Scope) (x : Ctx) (dest : SPath) (s : NSt) :
    Sim (nchangeState sub sc cfg scope x dest s) s (aChangeState inner cfg scope x dest) := by
  unfold nchangeState
  cases hr : resolveTransition cfg.root scope s.conf dest with
  | err e => exact ⟨[], by simp, fun rest => by simp [aChangeState, hr]⟩
  | oof => trivial
  | ok r =>
    simp only []
    have h1 := Sim.bind (B := fun _ a1 l1 => aEnterAll inner cfg x r.enters { a1 with conf := r.tree } l1)
      (exitAll_sim H cfg x r.exits { s with exited := s.exited ++ r.exitNames })
      (fun _ s1 _ => (enterAll_sim H cfg x r.enters { s1 with conf := r.tree }).shift rfl (fun l => rfl))
    exact h1.shift rfl (fun l => by simp only [aChangeState, NSt.abs_conf, hr]; rfl)

theorem nfinalStage_sim (scope : Scope) (x : Ctx) (dest : Option SPath) (conf0 : Forest) (s : NSt) :
    Sim (nfinalStage sub sc cfg scope x dest conf0 s) s (aFinalStage inner cfg scope x dest conf0) := by
  unfold nfinalStage
  cases dest with
  | none => exact ⟨[], by simp, fun rest => by simp [aFinalStage]⟩
  | some d =>
    simp only []
    cases hr : resolveTransition cfg.root scope conf0 d with
    | err e => exact ⟨[], by simp, fun rest => by simp [aFinalStage, hr]⟩
    | oof => exact ⟨[], by simp, fun rest => by simp [aFinalStage, hr]⟩
    | ok r =>
      simp only []
      cases hf : nfinalCheckRoot cfg r.tree (r.enters.map (·.path)) with
      | err e => exact ⟨[], by simp, fun rest => by simp [aFinalStage, hr, hf]⟩
      | oof => trivial
      | ok cbs =>
        exact (ncallbacks_sim H cfg .onFinal x cbs.flatten s).at' (fun l => by simp [aFinalStage, hr, hf])

theorem nexecute_sim (scope : Scope) (x : Ctx) (tr : TRef) (t : NTrans) (s : NSt) :
    Sim (nexecute sub sc cfg scope x tr t s) s (aExecute inner cfg scope x t) := by
  unfold nexecute aExecute
  refine Sim.bind ((ncallbacks_sim H cfg .prepare x t.prepare (s.emitG (.cand tr))).congr rfl rfl) ?_
  intro _ s1 _
  refine Sim.bind (nevalConds_sim H cfg x t.conds s1) ?_
  intro ok s2 _
  cases ok with
  | false => exact Sim.pure false s2
  | true =>
    simp only [Bool.not_true, Bool.false_eq_true, if_false]
    refine Sim.bind (ncallbacks_sim H cfg .beforeSC x cfg.beforeSC s2) ?_
    intro _ s3 _
    refine Sim.bind ((ncallbacks_sim H cfg .before x t.before (s3.emitG (.exec tr))).congr rfl rfl) ?_
    intro _ s4 _
    refine Sim.at' (A' := _) ?_ (fun l => rfl)
    refine Sim.bind (A := match t.dest with
      | some d => aChangeState inner cfg scope x d
      | none => Acc.pure ()) ?_ ?_
    · cases t.dest with
      | none => exact Sim.pure () s4
      | some d => exact nchangeState_sim H cfg scope x d s4
    intro _ s5 _
    refine Sim.bind (nfinalStage_sim H cfg scope x t.dest s4.conf s5) ?_
    intro _ s5' _
    refine Sim.bind (ncallbacks_sim H cfg .after x t.after s5') ?_
    intro _ s6 _
    refine Sim.bind (ncallbacks_sim H cfg .afterSC x cfg.afterSC s6) ?_
    intro _ s7 _
    exact Sim.pure true s7

theorem ntry_sim (scope : Scope) (x : Ctx) : ∀ (cands : List (TRef × NTrans)) (s : NSt),
    Sim (ntry sub sc cfg scope x cands s) s (aTry inner cfg scope x (cands.map (·.2)))
  | [], s => Sim.pure () s
  | (tr, t) :: r, s => by
    unfold ntry
    simp only [List.map_cons, aTry]
    refine Sim.bind (nexecute_sim H cfg scope x tr t s) ?_
    intro b s1 _
    cases b with
    | true => exact ⟨[], by simp, fun rest => by simp [NSt.abs]⟩
    | false =>
      simp only [Bool.false_eq_true, if_false]
      exact (ntry_sim scope x r { s1 with result := some false }).shift rfl (fun l => rfl)

theorem nprocess_sim (scope : Scope) (x : Ctx) (cands : List (TRef × NTrans)) (s : NSt) :
    Sim (nprocess sub sc cfg scope x cands s) s (aProcess inner cfg scope x (cands.map (·.2))) := by
  unfold nprocess aProcess
  exact Sim.bind (ncallbacks_sim H cfg .prepareEvent x cfg.prepareEvent s) (fun _ s1 _ => ntry_sim H cfg scope x cands s1)

theorem tnLoop_sim (scope : Scope) (x : Ctx) (ev : Nat) (ts : List NTrans) : ∀ (ps done : List SPath) (s : NSt),
    Sim (tnLoop sub sc cfg scope x ev ts ps done s) s (aTnLoop inner cfg scope x ev ts ps done)
  | [], done, s => Sim.pure done s
  | p :: ps, done, s => by
    unfold tnLoop
    simp only []
    split
    · rename_i hc
      exact (tnLoop_sim scope x ev ts ps done s).at' (fun l => by
        simp only [aTnLoop]; exact if_pos hc)
    · rename_i hc
      cases hg : getState cfg.root scope p with
      | none =>
        exact ⟨[], by simp, fun rest => by simp only [aTnLoop]; exact (if_neg hc).trans (by simp [hg])⟩
      | some fd =>
        simp only []
        have h1 := Sim.bind (B := fun _ a' l' =>
            aTnLoop inner cfg scope x ev ts ps (if a'.result = some true then done ++ prefixesOf p else done) a' l')
          (nprocess_sim H cfg scope x (ncandidates scope.pre ev ts p) s)
          (fun _ s1 _ => (tnLoop_sim scope x ev ts ps
            (if s1.result = some true then done ++ prefixesOf p else done) s1).at' (fun l => rfl))
        exact h1.at' (fun l => by simp only [aTnLoop]; exact (if_neg hc).trans (by simp only [hg]))

theorem triggerNested_sim (scope : Scope) (x : Ctx) (ev : Nat) (ts : List NTrans) (s : NSt) :
    Sim (triggerNested sub sc cfg scope x ev ts s) s (aTriggerNested inner cfg scope x ev ts) := by
  unfold triggerNested
  cases hr : s.conf.reduceGet scope.pre with
  | error e => exact ⟨[], by simp, fun rest => by simp [aTriggerNested, hr]⟩
  | ok o =>
    cases o with
    | none => exact ⟨[], by simp, fun rest => by simp [aTriggerNested, hr]⟩
    | some sub' =>
      simp only []
      cases ho : resolveOrder sub' with
      | none => trivial
      | some order =>
        simp only []
        refine Sim.at' (Sim.bind (B := fun done a' l' =>
            if done.isEmpty then some (.ok a'.result, a', l')
            else some (.ok (some true), { a' with result := some true }, l'))
          (tnLoop_sim H cfg scope x ev ts order [] s) ?_) (fun l => by simp only [aTriggerNested, NSt.abs_conf, hr, ho])
        intro done s1 _
        split
        · rename_i hd; exact ⟨[], by simp, fun rest => by simp [hd]⟩
        · rename_i hd; exact ⟨[], by simp, fun rest => by simp [hd, NSt.abs]⟩

theorem ten_sim (x : Ctx) (ev : Nat) : ∀ (tree : Forest) (scope : Scope) (res : List (Nat × Bool)) (offered : Bool)
    (s : NSt), Sim (ten sub sc cfg x ev scope tree res offered s) s (aTen inner cfg x ev scope tree res offered) := by
  intro tree
  induction tree with
  | nil => intro scope res offered s; unfold ten aTen; exact Sim.pure res s
  | cons key value rest ih1 ih2 =>
    intro scope res offered s
    unfold ten aTen
    refine Sim.bind ?_ ?_
    · split
      · exact Sim.pure res s
      · cases he : scope.enter key with
        | none => exact ⟨[], by simp, fun rest => rfl⟩
        | some innerScope =>
          simp only []
          exact Sim.bind (ih1 innerScope [] false s) (fun r s1 _ => Sim.pure _ s1)
    · intro res1 s1 _
      split
      · cases alookup ev scope.events with
        | none => exact ih2 scope res1 offered s1
        | some ts =>
          simp only []
          exact Sim.bind (triggerNested_sim H cfg scope x ev ts s1) (fun tmp s2 _ => ih2 scope _ true s2)
      · exact ih2 scope res1 offered s1

theorem triggerEventBody_sim (x : Ctx) (ev : Nat) (s : NSt) :
    Sim (triggerEventBody sub sc cfg x ev s) s (aBody inner cfg x ev) := by
  unfold triggerEventBody
  refine Sim.at' (Sim.bind (B := fun r a1 l1 =>
      match aBody.cerLoopOf cfg (summarize r) ev a1.conf with
      | .ok b => some (.ok b, { a1 with result := some b }, l1)
      | .err e => some (.fail e, a1, l1)
      | .oof => none)
    (ten_sim H cfg x ev s.conf cfg.root [] false s) ?_) (fun l => rfl)
  intro r s1 _
  unfold checkEventResult
  cases hs : summarize r with
  | some b => exact ⟨[], by simp, fun rest => by simp [aBody.cerLoopOf, hs, NSt.abs]⟩
  | none =>
    simp only []
    cases hc : cerLoop cfg ev (buildStateList [] s1.conf).flat with
    | ok b => exact ⟨[], by simp, fun rest => by simp [aBody.cerLoopOf, hs, hc, NSt.abs]⟩
    | err e => exact ⟨[], by simp, fun rest => by simp [aBody.cerLoopOf, hs, hc]⟩
    | oof => trivial

/-- the `finally:` block: the finalize callbacks run whatever happened and yield no outcome -/
theorem nfinalize_sim (x : Ctx) (s : NSt) :
    match nfinalize sub sc cfg x s with
    | some s' => ∃ seg, s'.log = s.log ++ seg ∧ ∀ rest, aFinalize inner cfg x s.abs (seg ++ rest) = some (s'.abs, rest)
    | none => True := by
  unfold nfinalize
  have h := (ncallbacks_sim H cfg .finalize x cfg.finalize (s.emitG (.fin x.tag (confMask cfg s.conf)))).congr
    (s0 := s) rfl rfl
  cases hc : ncallbacks sub sc cfg .finalize x cfg.finalize (s.emitG (.fin x.tag (confMask cfg s.conf))) with
  | oof => trivial
  | ok _ s' =>
    rw [hc] at h
    obtain ⟨seg, l1, a1⟩ := h
    exact ⟨seg, l1, fun rest => by simp only [aFinalize, a1 rest]⟩
  | err e s' =>
    rw [hc] at h
    obtain ⟨seg, l1, a1⟩ := h
    exact ⟨seg, l1, fun rest => by simp only [aFinalize, a1 rest]⟩

theorem ntriggerEvent_sim (x : Ctx) (ev : Nat) (s : NSt) :
    Sim (ntriggerEvent sub sc cfg x ev s) s (aTriggerEvent inner cfg x ev) := by
  unfold ntriggerEvent
  have hb := (triggerEventBody_sim H cfg x ev { s with result := none, exited := [] })
  simp only []
  cases hbody : triggerEventBody sub sc cfg x ev { s with result := none, exited := [] } with
  | oof => trivial
  | ok b s1 =>
    rw [hbody] at hb
    obtain ⟨seg1, l1, a1⟩ := hb
    simp only []
    have hf := nfinalize_sim H cfg x s1
    cases hfin : nfinalize sub sc cfg x s1 with
    | none => trivial
    | some s2 =>
      rw [hfin] at hf
      obtain ⟨seg2, l2, a2⟩ := hf
      refine ⟨seg1 ++ seg2, by rw [l2, l1]; simp, fun rest => ?_⟩
      have e1 := a1 (seg2 ++ rest)
      simp only [NSt.abs] at e1
      simp only [aTriggerEvent, aHandled, NSt.abs, List.append_assoc, e1]
      have e2 := a2 rest
      simp only [NSt.abs] at e2
      simp only [e2]
  | err e s1 =>
    rw [hbody] at hb
    obtain ⟨seg1, l1, a1⟩ := hb
    simp only []
    cases hex : cfg.onException with
    | nil =>
      simp only []
      have hf := nfinalize_sim H cfg x s1
      cases hfin : nfinalize sub sc cfg x s1 with
      | none => trivial
      | some s2 =>
        rw [hfin] at hf
        obtain ⟨seg2, l2, a2⟩ := hf
        refine ⟨seg1 ++ seg2, by rw [l2, l1]; simp, fun rest => ?_⟩
        have e1 := a1 (seg2 ++ rest)
        simp only [NSt.abs] at e1
        simp only [aTriggerEvent, aHandled, NSt.abs, List.append_assoc, e1, hex]
        have e2 := a2 rest
        simp only [NSt.abs] at e2
        simp only [e2]
    | cons h0 hs =>
      simp only []
      have hh := ncallbacks_sim H cfg .onException x (h0 :: hs) s1
      cases hcb : ncallbacks sub sc cfg .onException x (h0 :: hs) s1 with
      | oof => trivial
      | ok _ s2 =>
        rw [hcb] at hh
        obtain ⟨seg2, l2, a2⟩ := hh
        simp only [Res.bind]
        have hf := nfinalize_sim H cfg x s2
        cases hfin : nfinalize sub sc cfg x s2 with
        | none => trivial
        | some s3 =>
          rw [hfin] at hf
          obtain ⟨seg3, l3, a3⟩ := hf
          refine ⟨seg1 ++ (seg2 ++ seg3), by rw [l3, l2, l1]; simp, fun rest => ?_⟩
          have e1 := a1 (seg2 ++ seg3 ++ rest)
          simp only [NSt.abs] at e1
          have e2 := a2 (seg3 ++ rest)
          simp only [NSt.abs] at e2
          have e3 := a3 rest
          simp only [NSt.abs] at e3
          simp only [aTriggerEvent, aHandled, NSt.abs, List.append_assoc] at e1 e2 ⊢
          simp only [e1, hex, e2, e3]
      | err e2 s2 =>
        rw [hcb] at hh
        obtain ⟨seg2, l2, a2⟩ := hh
        simp only [Res.bind]
        have hf := nfinalize_sim H cfg x s2
        cases hfin : nfinalize sub sc cfg x s2 with
        | none => trivial
        | some s3 =>
          rw [hfin] at hf
          obtain ⟨seg3, l3, a3⟩ := hf
          refine ⟨seg1 ++ (seg2 ++ seg3), by rw [l3, l2, l1]; simp, fun rest => ?_⟩
          have e1 := a1 (seg2 ++ seg3 ++ rest)
          simp only [NSt.abs] at e1
          have e2' := a2 (seg3 ++ rest)
          simp only [NSt.abs] at e2'
          have e3 := a3 rest
          simp only [NSt.abs] at e3
          simp only [aTriggerEvent, aHandled, NSt.abs, List.append_assoc] at e1 e2' ⊢
          simp only [e1, hex, e2', e3]

theorem ndrain_sim : ∀ (n : Nat) (s : NSt), Sim (ndrain sub sc cfg n s) s (aDrain inner cfg n)
  | 0, s => trivial
  | n + 1, s => by
    unfold ndrain
    cases hq : s.queue with
    | nil => exact ⟨[], by simp, fun rest => by simp [aDrain, hq]⟩
    | cons hd tl =>
      obtain ⟨ev, tag⟩ := hd
      simp only []
      have hq' : s.abs.queue = (ev, tag) :: tl := hq
      have ht := ntriggerEvent_sim H cfg ⟨0, tag⟩ ev s
      cases hte : ntriggerEvent sub sc cfg ⟨0, tag⟩ ev s with
      | oof => trivial
      | err e s1 =>
        rw [hte] at ht
        obtain ⟨seg, l1, a1⟩ := ht
        exact ⟨seg, l1, fun rest => by simp only [aDrain, hq', a1 rest]; rfl⟩
      | ok b s1 =>
        rw [hte] at ht
        obtain ⟨seg1, l1, a1⟩ := ht
        simp only []
        have hd := ndrain_sim n { s1 with queue := s1.queue.drop 1 }
        cases hdr : ndrain sub sc cfg n { s1 with queue := s1.queue.drop 1 } with
        | oof => trivial
        | ok u s2 =>
          rw [hdr] at hd
          obtain ⟨seg2, l2, a2⟩ := hd
          refine ⟨seg1 ++ seg2, by rw [l2]; show s1.log ++ seg2 = _; rw [l1]; simp, fun rest => ?_⟩
          have e1 := a1 (seg2 ++ rest)
          simp only [aDrain, hq', List.append_assoc, e1]
          exact a2 rest
        | err e s2 =>
          rw [hdr] at hd
          obtain ⟨seg2, l2, a2⟩ := hd
          refine ⟨seg1 ++ seg2, by rw [l2]; show s1.log ++ seg2 = _; rw [l1]; simp, fun rest => ?_⟩
          have e1 := a1 (seg2 ++ rest)
          simp only [aDrain, hq', List.append_assoc, e1]
          exact a2 rest

theorem nmachineProcess_sim (qmax ev tag : Nat) (s : NSt) :
    Sim (nmachineProcess sub sc cfg qmax ev tag s) s (aMachineProcess inner cfg qmax ev tag) := by
  unfold nmachineProcess
  cases hqd : cfg.queued with
  | false =>
    simp only [Bool.not_false, if_true]
    cases hq : s.queue with
    | nil =>
      exact (ntriggerEvent_sim H cfg ⟨0, tag⟩ ev s).at' (fun l => by simp [aMachineProcess, hqd, hq])
    | cons hd tl => exact ⟨[], by simp, fun rest => by simp [aMachineProcess, hqd, hq]⟩
  | true =>
    simp only [Bool.not_true, Bool.false_eq_true, if_false]
    split
    · rename_i hlen
      exact ⟨[], by simp, fun rest => by
        simp only [aMachineProcess, hqd, Bool.not_true, Bool.false_eq_true, if_false]
        exact (if_pos hlen).trans rfl⟩
    · rename_i hlen
      have hd := Sim.bind (B := fun _ => Acc.pure true) (f := fun _ s' => .ok true s')
        (ndrain_sim H cfg qmax { s with queue := s.queue ++ [(ev, tag)] }) (fun _ s1 _ => Sim.pure true s1)
      exact hd.shift rfl (fun l => by
        simp only [aMachineProcess, hqd, Bool.not_true, Bool.false_eq_true, if_false]
        exact (if_neg hlen).trans rfl)

theorem napiTrigger_sim (qmax ev : Nat) (s : NSt) :
    Sim (napiTrigger sub sc cfg qmax ev s) s (aApi inner cfg qmax) := by
  unfold napiTrigger
  simp only []
  have hm := nmachineProcess_sim H cfg qmax ev s.nextTag
    ((({ s with nextTag := s.nextTag + 1 } : NSt).emit (.api 0 s.nextTag 0 ev)).emitG (.api s.nextTag ev))
  cases hmp : nmachineProcess sub sc cfg qmax ev s.nextTag
    ((({ s with nextTag := s.nextTag + 1 } : NSt).emit (.api 0 s.nextTag 0 ev)).emitG (.api s.nextTag ev)) with
  | oof => trivial
  | ok b s1 =>
    rw [hmp] at hm
    obtain ⟨seg, l1, a1⟩ := hm
    refine ⟨.api 0 s.nextTag 0 ev :: seg ++ [.ret s.nextTag b], ?_, fun rest => ?_⟩
    · simp only [NSt.emit, NSt.emitG]; rw [l1]; simp [NSt.emit, NSt.emitG]
    · have e1 := a1 (.ret s.nextTag b :: rest)
      have habs : NSt.abs ((({ s with nextTag := s.nextTag + 1 } : NSt).emit (.api 0 s.nextTag 0 ev)).emitG
        (.api s.nextTag ev)) = s.abs := rfl
      rw [habs] at e1
      simp only [List.cons_append, List.append_assoc, List.singleton_append, List.nil_append, aApi]
      rw [e1]
      simp [NSt.abs, NSt.emit, NSt.emitG]
  | err e s1 =>
    rw [hmp] at hm
    obtain ⟨seg, l1, a1⟩ := hm
    refine ⟨.api 0 s.nextTag 0 ev :: seg ++ [.raised s.nextTag e], ?_, fun rest => ?_⟩
    · simp only [NSt.emit, NSt.emitG]; rw [l1]; simp [NSt.emit, NSt.emitG]
    · have e1 := a1 (.raised s.nextTag e :: rest)
      have habs : NSt.abs ((({ s with nextTag := s.nextTag + 1 } : NSt).emit (.api 0 s.nextTag 0 ev)).emitG
        (.api s.nextTag ev)) = s.abs := rfl
      rw [habs] at e1
      simp only [List.cons_append, List.append_assoc, List.singleton_append, List.nil_append, aApi]
      rw [e1]
      simp [NSt.abs, NSt.emit, NSt.emitG]

end Engine
/-! ### re-entrant commands -/

def StartsApi (seg : List Item) : Prop := ∃ kd t m ev tl, seg = .api kd t m ev :: tl

/-- the interpreter of re-entrant commands `sub` is simulated by `inner`: a command that succeeds leaves a trace
`inner` accepts; one that fails either left no trace at all (and changed nothing) or a trace `inner` accepts as failed -/
def SubSim (sub : NSub) (inner : Inner) : Prop := ∀ (c : Cmd) (s : NSt),
  match sub c s with
  | .ok _ s' => ∃ seg, s'.log = s.log ++ seg ∧ StartsApi seg ∧
      ∀ rest, inner s.abs (seg ++ rest) = some (.ok (), s'.abs, rest)
  | .err e s' => s' = s ∨ ∃ seg, s'.log = s.log ++ seg ∧ StartsApi seg ∧
      ∀ rest, inner s.abs (seg ++ rest) = some (.fail e, s'.abs, rest)
  | .oof => True

theorem aCmds_done (inner : Inner) (c : Nat) (k : Nat) (a : ASt) (o : Out) (l : List Item) :
    aCmds inner c k a (.done c o :: l) = some (match o with
        | .ret b => .ok b
        | .raise e => .fail e, a, l) := by
  cases k <;> cases o <;> simp [aCmds]

theorem nrunCmds_sim {sub : NSub} {inner : Inner} (hS : SubSim sub inner) (c : Nat) : ∀ (cmds : List Cmd) (s : NSt),
    match nrunCmds sub cmds s with
    | .ok _ s3 => ∃ seg, s3.log = s.log ++ seg ∧ ∀ k, seg.length ≤ k → ∀ o rest,
        aCmds inner c k s.abs (seg ++ .done c o :: rest) = some (match o with
          | .ret b => .ok b
          | .raise e => .fail e, s3.abs, rest)
    | .err e s3 => ∃ seg, s3.log = s.log ++ seg ∧ ∀ k, seg.length ≤ k → ∀ rest,
        aCmds inner c k s.abs (seg ++ .done c (.raise e) :: rest) = some (.fail e, s3.abs, rest)
    | .oof => True
  | [], s => ⟨[], by simp, fun k _ o rest => by simp only [List.nil_append]; exact aCmds_done inner c k s.abs o rest⟩
  | cmd :: cs, s => by
    unfold nrunCmds
    have h1 := hS cmd s
    cases hc : sub cmd s with
    | oof => trivial
    | err e s1 =>
      rw [hc] at h1
      simp only [Res.bind]
      rcases h1 with rfl | ⟨seg, l1, ⟨kd, t, m, ev, tl, rfl⟩, a1⟩
      · exact ⟨[], by simp, fun k _ rest => by simp only [List.nil_append]; exact aCmds_done inner c k _ _ rest⟩
      · refine ⟨_, l1, fun k hk rest => ?_⟩
        cases k with
        | zero => simp at hk
        | succ k =>
          have e1 := a1 (.done c (.raise e) :: rest)
          simp only [List.cons_append] at e1 ⊢
          simp only [aCmds, e1]
          simp
    | ok u s1 =>
      rw [hc] at h1
      obtain ⟨seg1, l1, ⟨kd, t, m, ev, tl, rfl⟩, a1⟩ := h1
      simp only [Res.bind]
      have ih := nrunCmds_sim hS c cs s1
      cases hr : nrunCmds sub cs s1 with
      | oof => trivial
      | ok u2 s3 =>
        rw [hr] at ih
        obtain ⟨seg2, l2, a2⟩ := ih
        refine ⟨(.api kd t m ev :: tl) ++ seg2, by rw [l2, l1, List.append_assoc], fun k hk o rest => ?_⟩
        cases k with
        | zero => simp at hk
        | succ k =>
          have e1 := a1 (seg2 ++ .done c o :: rest)
          simp only [List.cons_append, List.append_assoc] at e1 ⊢
          simp only [aCmds, e1]
          exact a2 k (by simp only [List.length_append, List.length_cons] at hk; omega) o rest
      | err e s3 =>
        rw [hr] at ih
        obtain ⟨seg2, l2, a2⟩ := ih
        refine ⟨(.api kd t m ev :: tl) ++ seg2, by rw [l2, l1, List.append_assoc], fun k hk rest => ?_⟩
        cases k with
        | zero => simp at hk
        | succ k =>
          have e1 := a1 (seg2 ++ .done c (.raise e) :: rest)
          simp only [List.cons_append, List.append_assoc] at e1 ⊢
          simp only [aCmds, e1]
          exact a2 k (by simp only [List.length_append, List.length_cons] at hk; omega) rest

/-- scripts with re-entrant commands, interpreted by a simulated `sub` -/
theorem invokeSim_of_subSim (sub : NSub) (sc : Script) (inner : Inner) (hS : SubSim sub inner) : InvokeSim sub sc inner := by
  intro cfg slot x c s
  unfold ninvoke
  simp only []
  have hr := nrunCmds_sim hS c (sc c (s.count c)).cmds
    (({ s with counts := aset c (s.count c + 1) s.counts } : NSt).emit
      (.call slot c x.model x.tag (confMask cfg s.conf)))
  cases hc : nrunCmds sub (sc c (s.count c)).cmds
    (({ s with counts := aset c (s.count c + 1) s.counts } : NSt).emit
      (.call slot c x.model x.tag (confMask cfg s.conf))) with
  | oof => trivial
  | ok u s3 =>
    rw [hc] at hr
    obtain ⟨seg, l3, a3⟩ := hr
    simp only []
    cases ho : (sc c (s.count c)).out with
    | ret b =>
      refine ⟨.call slot c x.model x.tag (confMask cfg s.conf) :: seg ++ [.done c (.ret b)], ?_, fun rest => ?_⟩
      · simp only [NSt.emit] at l3 ⊢; rw [l3]; simp
      · have e3 := a3 (seg ++ .done c (.ret b) :: rest).length (by simp) (.ret b) rest
        simp only [List.cons_append, List.append_assoc, List.singleton_append, aInvoke, NSt.abs_conf, and_self, if_true]
        exact e3
    | raise e =>
      refine ⟨.call slot c x.model x.tag (confMask cfg s.conf) :: seg ++ [.done c (.raise e)], ?_, fun rest => ?_⟩
      · simp only [NSt.emit] at l3 ⊢; rw [l3]; simp
      · have e3 := a3 (seg ++ .done c (.raise e) :: rest).length (by simp) (.raise e) rest
        simp only [List.cons_append, List.append_assoc, List.singleton_append, aInvoke, NSt.abs_conf, and_self, if_true]
        exact e3
  | err e s3 =>
    rw [hc] at hr
    obtain ⟨seg, l3, a3⟩ := hr
    simp only []
    refine ⟨.call slot c x.model x.tag (confMask cfg s.conf) :: seg ++ [.done c (.raise e)], ?_, fun rest => ?_⟩
    · simp only [NSt.emit] at l3 ⊢; rw [l3]; simp
    · have e3 := a3 (seg ++ .done c (.raise e) :: rest).length (by simp) rest
      simp only [List.cons_append, List.append_assoc, List.singleton_append, aInvoke, NSt.abs_conf, and_self, if_true]
      exact e3

theorem aApi_starts {inner : Inner} {cfg : NCfg} {qmax : Nat} {a : ASt} {l : List Item} {r : Rs Bool × ASt × List Item}
    (h : aApi inner cfg qmax a l = some r) : StartsApi l := by
  unfold aApi at h
  split at h
  · exact ⟨_, _, _, _, _, rfl⟩
  · cases h

/-- the fuelled knot: the interpreter of commands at every fuel level is simulated by the acceptor at that level -/
theorem nrunCmd_subSim (sc : Script) (cfg : NCfg) (qmax : Nat) : ∀ f, SubSim (nrunCmd sc cfg qmax f) (aRunCmd cfg qmax f)
  | 0 => fun c s => by simp only [nrunCmd]
  | f + 1 => by
    intro c s
    have H := invokeSim_of_subSim _ sc _ (nrunCmd_subSim sc cfg qmax f)
    cases c with
    | trigger m ev =>
      have h1 := napiTrigger_sim H cfg qmax ev s
      simp only [nrunCmd]
      cases hc : napiTrigger (nrunCmd sc cfg qmax f) sc cfg qmax ev s with
      | oof => trivial
      | ok b s1 =>
        rw [hc] at h1
        obtain ⟨seg, l1, a1⟩ := h1
        simp only [Res.map]
        refine ⟨seg, l1, ?_, fun rest => by simp only [aRunCmd, a1 rest]⟩
        have := aApi_starts (a1 [])
        simpa using this
      | err e s1 =>
        rw [hc] at h1
        obtain ⟨seg, l1, a1⟩ := h1
        simp only [Res.map]
        refine Or.inr ⟨seg, l1, ?_, fun rest => by simp only [aRunCmd, a1 rest]⟩
        have := aApi_starts (a1 [])
        simpa using this
    | removeModel m => simp [nrunCmd]
    | addModel m => simp [nrunCmd]
    | dispatch ev => simp [nrunCmd]
    | may m ev => simp [nrunCmd]

/-- every function of the engine run by the real interpreter of commands is simulated: no hypothesis on the script -/
theorem invokeSim_nrunCmd (sc : Script) (cfg : NCfg) (qmax f : Nat) :
    InvokeSim (nrunCmd sc cfg qmax f) sc (aRunCmd cfg qmax f) :=
  invokeSim_of_subSim _ sc _ (nrunCmd_subSim sc cfg qmax f)

theorem aHistory_nil (cfg : NCfg) (qmax fuel n : Nat) (a : ASt) (k : Nat) :
    aHistory cfg qmax fuel n a [] k = (k, true, a) := by
  cases n <;> rfl

/-- a whole history of trigger calls: the trace is accepted, call by call -/
theorem nrunHistory_sim (sc : Script) (cfg : NCfg) (qmax fuel : Nat) : ∀ (h : List Nat) (s s' : NSt),
    nrunHistory sc cfg qmax fuel h s = some s' →
    ∃ tr, s'.log = s.log ++ tr ∧ h.length ≤ tr.length ∧
      ∀ n k, h.length ≤ n → aHistory cfg qmax fuel n s.abs tr k = (k + h.length, true, s'.abs)
  | [], s, s', h => by
    simp only [nrunHistory, Option.some.injEq] at h; subst h
    exact ⟨[], by simp, by simp, fun n k _ => by simp [aHistory_nil]⟩
  | ev :: evs, s, s', h => by
    cases fuel with
    | zero => simp [nrunHistory, nrunCmd] at h
    | succ f =>
      have H := invokeSim_nrunCmd sc cfg qmax f
      have h1 := napiTrigger_sim H cfg qmax ev s
      simp only [nrunHistory, nrunCmd] at h
      cases hc : napiTrigger (nrunCmd sc cfg qmax f) sc cfg qmax ev s with
      | oof => simp [hc, Res.map] at h
      | ok b s1 =>
        rw [hc] at h1
        obtain ⟨seg, l1, a1⟩ := h1
        simp only [hc, Res.map] at h
        obtain ⟨tr, l2, hlen, a2⟩ := nrunHistory_sim sc cfg qmax (f + 1) evs s1 s' h
        obtain ⟨kd, t, m, ev', tl, hseg⟩ : StartsApi seg := by
          have := aApi_starts (a1 []); simpa using this
        refine ⟨seg ++ tr, by rw [l2, l1, List.append_assoc], by subst hseg; simp; omega, fun n k hn => ?_⟩
        cases n with
        | zero => simp at hn
        | succ n =>
          have e2 := a2 n (k + 1) (by simpa using hn)
          subst hseg
          simp only [List.cons_append, aHistory, aRunCmd]
          have e1 := a1 tr
          simp only [List.cons_append] at e1
          simp only [e1, e2, List.length_cons]
          congr 1; omega
      | err e s1 =>
        rw [hc] at h1
        obtain ⟨seg, l1, a1⟩ := h1
        simp only [hc, Res.map] at h
        obtain ⟨tr, l2, hlen, a2⟩ := nrunHistory_sim sc cfg qmax (f + 1) evs s1 s' h
        obtain ⟨kd, t, m, ev', tl, hseg⟩ : StartsApi seg := by
          have := aApi_starts (a1 []); simpa using this
        refine ⟨seg ++ tr, by rw [l2, l1, List.append_assoc], by subst hseg; simp; omega, fun n k hn => ?_⟩
        cases n with
        | zero => simp at hn
        | succ n =>
          have e2 := a2 n (k + 1) (by simpa using hn)
          subst hseg
          simp only [List.cons_append, aHistory, aRunCmd]
          have e1 := a1 tr
          simp only [List.cons_append] at e1
          simp only [e1, e2, List.length_cons]
          congr 1; omega

end TM
