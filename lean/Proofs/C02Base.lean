/-
  Proofs/C02Base.lean — small definitions shared by the proof files of C02 / C03.
-/
import Model
import Proofs.C01

namespace TM
open C02

/-- `with self(k)` repeatedly, starting from scope `sc` -/
def Scope.walkTo (sc : Scope) : SPath → Option Scope
  | [] => some sc
  | k :: p => match sc.enter k with
    | some sc' => sc'.walkTo p
    | none => none

/-- what the invariants look at: the configuration and the ghost log -/
structure View where
  conf : Forest
  glog : List GEv

def NSt.view (s : NSt) : View := ⟨s.conf, s.glog⟩

/-- ghost events that are not state entries / exits -/
def GEv.isMark : GEv → Bool
  | .enter _ => false
  | .exit _ => false
  | _ => true

/-- the paths of a list of found states -/
def pathsOf (l : List Found) : List SPath := l.map (·.path)

end TM
