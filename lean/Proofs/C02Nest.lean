/-
  Proofs/C02Nest.lean — nesting of the enter / exit callback intervals in the model: with a script that issues no
  re-entrant commands every callback invocation of the (synchronous) model is a `call` item immediately followed by its
  `done` item, so no interval is open when another callback starts: the nesting monitor `C02.nestOk` accepts every
  observable trace of the model.
-/
import Proofs.C02Project

namespace TM
open C02

namespace NestP

/-! ### paired segments -/

/-- a concatenation of blocks `call c …, done c …` and of items that are neither `call` nor `done` -/
inductive Paired : List Item → Prop
  | nil : Paired []
  | block (slot : Slot) (c m t st : Nat) (o : Out) : Paired [.call slot c m t st, .done c o]
  | api (k t m e : Nat) : Paired [.api k t m e]
  | ret (t : Nat) (b : Bool) : Paired [.ret t b]
  | raised (t : Nat) (e : Exc) : Paired [.raised t e]
  | append {a b : List Item} : Paired a → Paired b → Paired (a ++ b)

theorem nestRun_append (cfg : NCfg) (n : Nest) (l m : List Item) :
    nestRun cfg n (l ++ m) = nestRun cfg (nestRun cfg n l) m := by
  simp [nestRun, List.foldl_append]

/-- a block leaves the initial monitor state as it is -/
theorem nestRun_block (cfg : NCfg) (slot : Slot) (c m t st : Nat) (o : Out) :
    nestRun cfg {} [.call slot c m t st, .done c o] = {} := by
  simp only [nestRun, List.foldl_cons, List.foldl_nil]
  cases slot <;> try rfl
  · simp only [nestStep]
    split
    · simp [List.eraseP]
    · rfl
  · simp only [nestStep]
    split
    · simp [List.eraseP]
    · rfl

theorem nestRun_paired (cfg : NCfg) {seg : List Item} (h : Paired seg) : nestRun cfg {} seg = {} := by
  induction h with
  | nil => rfl
  | block slot c m t st o => exact nestRun_block cfg slot c m t st o
  | api k t m e => rfl
  | ret t b => rfl
  | raised t e => rfl
  | append _ _ iha ihb => rw [nestRun_append, iha, ihb]

/-- the key lemma -/
theorem nestRun_idle_append (cfg : NCfg) {l seg : List Item} (h0 : nestRun cfg {} l = {}) (h : Paired seg) :
    nestRun cfg {} (l ++ seg) = {} := by
  rw [nestRun_append, h0, nestRun_paired cfg h]

/-! ### the extension relation -/

/-- a paired segment was appended to the log -/
def Ext (s s' : NSt) : Prop := ∃ seg, s'.log = s.log ++ seg ∧ Paired seg

theorem Ext.refl (s : NSt) : Ext s s := ⟨[], by simp, .nil⟩

theorem Ext.trans {a b c : NSt} (h1 : Ext a b) (h2 : Ext b c) : Ext a c := by
  obtain ⟨i1, l1, p1⟩ := h1
  obtain ⟨i2, l2, p2⟩ := h2
  exact ⟨i1 ++ i2, by rw [l2, l1, List.append_assoc], .append p1 p2⟩

/-- only the log matters -/
theorem Ext.congr {a a' b b' : NSt} (h : Ext a b) (la : a'.log = a.log) (lb : b'.log = b.log) : Ext a' b' := by
  obtain ⟨i, l, p⟩ := h
  exact ⟨i, by rw [lb, la, l], p⟩

theorem Ext.keeps {cfg : NCfg} {s s' : NSt} (h : Ext s s') (h0 : nestRun cfg {} s.log = {}) :
    nestRun cfg {} s'.log = {} := by
  obtain ⟨i, l, p⟩ := h
  rw [l]; exact nestRun_idle_append cfg h0 p

def PresE {α} (r : NR α) (s : NSt) : Prop := ∀ s', r.state? = some s' → Ext s s'

theorem PresE.ok {α} {s t : NSt} {a : α} (h : Ext s t) : PresE (.ok a t : NR α) s := by
  intro s' hs; simp only [Res.state?, Option.some.injEq] at hs; subst hs; exact h
theorem PresE.err {α} {s t : NSt} {e : Exc} (h : Ext s t) : PresE (.err e t : NR α) s := by
  intro s' hs; simp only [Res.state?, Option.some.injEq] at hs; subst hs; exact h
theorem PresE.oof {α} {s : NSt} : PresE (.oof : NR α) s := by
  intro s' hs; simp [Res.state?] at hs

theorem PresE.weaken {α} {r : NR α} {s w : NSt} (f : Ext s w) (h : PresE r w) : PresE r s :=
  fun s' hs => f.trans (h s' hs)

theorem PresE.bind {α β} {r : NR α} {f : α → NSt → NR β} {s : NSt}
    (h1 : PresE r s) (h2 : ∀ a s1, r = .ok a s1 → PresE (f a s1) s1) : PresE (r.bind f) s := by
  intro s' h
  cases r with
  | ok a s1 => exact (h1 s1 rfl).trans (h2 a s1 rfl s' h)
  | err e s1 => simp only [Res.bind, Res.state?, Option.some.injEq] at h; subst h; exact h1 s1 rfl
  | oof => simp [Res.bind, Res.state?] at h

theorem PresE.map {α β} {r : NR α} {f : α → β} {s : NSt} (h1 : PresE r s) : PresE (r.map f) s := by
  intro s' h
  cases r with
  | ok a s1 => exact h1 s' h
  | err e s1 => exact h1 s' h
  | oof => simp [Res.map, Res.state?] at h

/-! ### the engine -/

section Engine
variable {cfg : NCfg} {sub : NSub} {sc : Script}

theorem ninvoke_ext (hC : NoCmds sc) (slot : Slot) (x : Ctx) (c : Nat) (s : NSt) :
    PresE (ninvoke sub sc cfg slot x c s) s := by
  intro s' h
  obtain ⟨o, hl, _, _⟩ := Project.ninvoke_log sub sc cfg hC slot x c s s' h
  exact ⟨_, hl, .block _ _ _ _ _ _⟩

theorem ncallbacks_ext (hC : NoCmds sc) (slot : Slot) (x : Ctx) : ∀ (cbs : List Nat) (s : NSt),
    PresE (ncallbacks sub sc cfg slot x cbs s) s
  | [], s => PresE.ok (Ext.refl _)
  | c :: cs, s => by
    unfold ncallbacks
    refine PresE.bind (ninvoke_ext hC slot x c s) ?_
    intro _ s1 _
    exact ncallbacks_ext hC slot x cs s1

/-- callbacks after a ghost event -/
theorem ncallbacks_extG (hC : NoCmds sc) (slot : Slot) (x : Ctx) (g : GEv) (cbs : List Nat) (s : NSt) :
    PresE (ncallbacks sub sc cfg slot x cbs (s.emitG g)) s :=
  fun s' h => (ncallbacks_ext hC slot x cbs (s.emitG g) s' h).congr rfl rfl

theorem nevalConds_ext (hC : NoCmds sc) (x : Ctx) : ∀ (cs : List Cond) (s : NSt),
    PresE (nevalConds sub sc cfg x cs s) s
  | [], s => PresE.ok (Ext.refl _)
  | c :: cs, s => by
    unfold nevalConds
    refine PresE.bind (ninvoke_ext hC _ x c.cb s) ?_
    intro b s1 _
    split
    · exact nevalConds_ext hC x cs s1
    · exact PresE.ok (Ext.refl _)

theorem exitAll_ext (hC : NoCmds sc) (x : Ctx) : ∀ (fs : List Found) (s : NSt),
    PresE (exitAll sub sc cfg x fs s) s
  | [], s => PresE.ok (Ext.refl _)
  | f :: fs, s => by
    unfold exitAll
    refine PresE.bind (ncallbacks_extG hC .onExit x _ f.d.onExit s) ?_
    intro _ s1 _; exact exitAll_ext hC x fs s1

theorem enterAll_ext (hC : NoCmds sc) (x : Ctx) : ∀ (fs : List Found) (s : NSt),
    PresE (enterAll sub sc cfg x fs s) s
  | [], s => PresE.ok (Ext.refl _)
  | f :: fs, s => by
    unfold enterAll
    refine PresE.bind (ncallbacks_extG hC .onEnter x _ f.d.onEnter s) ?_
    intro _ s1 _; exact enterAll_ext hC x fs s1

theorem nchangeState_ext (hC : NoCmds sc) (scope : Scope) (x : Ctx) (dest : SPath) (s : NSt) :
    PresE (nchangeState sub sc cfg scope x dest s) s := by
  unfold nchangeState
  split
  · exact PresE.err (Ext.refl _)
  · exact PresE.oof
  · rename_i r hr
    refine PresE.bind (s := s) ?_ ?_
    · intro s' h
      exact (exitAll_ext hC x r.exits { s with exited := s.exited ++ r.exitNames } s' h).congr rfl rfl
    intro _ s1 _ s' h
    exact (enterAll_ext hC x r.enters _ s' h).congr rfl rfl

theorem nfinalStage_ext (hC : NoCmds sc) (scope : Scope) (x : Ctx) (dest : Option SPath) (conf0 : Forest) (s : NSt) :
    PresE (nfinalStage sub sc cfg scope x dest conf0 s) s := by
  rcases nfinalStage_cases sub sc cfg scope x dest conf0 s with h1 | ⟨cbs, h1⟩ | ⟨e, _, h1⟩ | h1 <;> rw [h1]
  · exact PresE.ok (Ext.refl _)
  · exact ncallbacks_ext hC _ x cbs s
  · exact PresE.err (Ext.refl _)
  · exact PresE.oof

theorem nexecute_ext (hC : NoCmds sc) (scope : Scope) (x : Ctx) (tr : TRef) (t : NTrans) (s : NSt) :
    PresE (nexecute sub sc cfg scope x tr t s) s := by
  unfold nexecute
  refine PresE.bind (ncallbacks_extG hC .prepare x (.cand tr) t.prepare s) ?_
  intro _ s1 _
  refine PresE.bind (nevalConds_ext hC x _ s1) ?_
  intro ok s2 _
  cases ok with
  | false => exact PresE.ok (Ext.refl _)
  | true =>
    simp only [Bool.not_true, Bool.false_eq_true, if_false]
    refine PresE.bind (ncallbacks_ext hC _ x _ s2) ?_
    intro _ s3 _
    refine PresE.bind (ncallbacks_extG hC .before x (.exec tr) t.before s3) ?_
    intro _ s4 _
    refine PresE.bind ?_ ?_
    · split
      · exact nchangeState_ext hC scope x _ s4
      · exact PresE.ok (Ext.refl _)
    intro _ s5 _
    refine PresE.bind (nfinalStage_ext hC scope x _ _ s5) ?_
    intro _ s5 _
    refine PresE.bind (ncallbacks_ext hC _ x _ s5) ?_
    intro _ s6 _
    refine PresE.bind (ncallbacks_ext hC _ x _ s6) ?_
    intro _ s7 _
    exact PresE.ok (Ext.refl _)

theorem ntry_ext (hC : NoCmds sc) (scope : Scope) (x : Ctx) : ∀ (cands : List (TRef × NTrans)) (s : NSt),
    PresE (ntry sub sc cfg scope x cands s) s
  | [], s => PresE.ok (Ext.refl _)
  | (tr, t) :: r, s => by
    unfold ntry
    refine PresE.bind (nexecute_ext hC scope x tr t s) ?_
    intro b s1 _
    cases b with
    | true => exact PresE.ok ((Ext.refl s1).congr rfl rfl)
    | false =>
      intro s' h
      exact (ntry_ext hC scope x r _ s' h).congr rfl rfl

theorem nprocess_ext (hC : NoCmds sc) (scope : Scope) (x : Ctx) (cands : List (TRef × NTrans)) (s : NSt) :
    PresE (nprocess sub sc cfg scope x cands s) s := by
  unfold nprocess
  refine PresE.bind (ncallbacks_ext hC _ x _ s) ?_
  intro _ s1 _
  exact ntry_ext hC scope x cands s1

theorem tnLoop_ext (hC : NoCmds sc) (scope : Scope) (x : Ctx) (ev : Nat) (ts : List NTrans) :
    ∀ (ps done : List SPath) (s : NSt), PresE (tnLoop sub sc cfg scope x ev ts ps done s) s
  | [], _, s => PresE.ok (Ext.refl _)
  | p :: ps, done, s => by
    unfold tnLoop
    simp only []
    split
    · exact tnLoop_ext hC scope x ev ts ps done s
    · split
      · exact PresE.err (Ext.refl _)
      · refine PresE.bind (nprocess_ext hC scope x _ s) ?_
        intro _ s1 _
        exact tnLoop_ext hC scope x ev ts ps _ s1

theorem triggerNested_ext (hC : NoCmds sc) (scope : Scope) (x : Ctx) (ev : Nat) (ts : List NTrans) (s : NSt) :
    PresE (triggerNested sub sc cfg scope x ev ts s) s := by
  unfold triggerNested
  split
  · exact PresE.err (Ext.refl _)
  · exact PresE.err (Ext.refl _)
  · split
    · exact PresE.oof
    · refine PresE.bind (tnLoop_ext hC scope x ev ts _ _ s) ?_
      intro _ s1 _
      split
      · exact PresE.ok (Ext.refl _)
      · exact PresE.ok ((Ext.refl s1).congr rfl rfl)

theorem ten_ext (hC : NoCmds sc) (x : Ctx) (ev : Nat) :
    ∀ (tree : Forest) (scope : Scope) (res : List (Nat × Bool)) (offered : Bool) (s : NSt),
    PresE (ten sub sc cfg x ev scope tree res offered s) s := by
  intro tree
  induction tree with
  | nil => intro scope res offered s; unfold ten; exact PresE.ok (Ext.refl _)
  | cons key value rest ihv ihr =>
    intro scope res offered s
    unfold ten
    refine PresE.bind ?_ ?_
    · split
      · exact PresE.ok (Ext.refl _)
      · split
        · exact PresE.err (Ext.refl _)
        · rename_i inner he
          refine PresE.bind (ihv inner [] false s) ?_
          intro _ s1 _
          exact PresE.ok (Ext.refl _)
    · intro res1 s1 _
      split
      · split
        · rename_i ts hts
          refine PresE.bind (triggerNested_ext hC scope x ev ts s1) ?_
          intro _ s2 _
          exact ihr scope _ true s2
        · exact ihr scope res1 offered s1
      · exact ihr scope res1 offered s1

theorem checkEventResult_ext (res : Option Bool) (ev : Nat) (s : NSt) :
    PresE (checkEventResult cfg res ev s) s := by
  unfold checkEventResult
  split
  · exact PresE.ok (Ext.refl _)
  · split
    · exact PresE.ok (Ext.refl _)
    · exact PresE.err (Ext.refl _)
    · exact PresE.oof

theorem triggerEventBody_ext (hC : NoCmds sc) (x : Ctx) (ev : Nat) (s : NSt) :
    PresE (triggerEventBody sub sc cfg x ev s) s := by
  unfold triggerEventBody
  refine PresE.bind (ten_ext hC x ev s.conf cfg.root [] false s) ?_
  intro r s1 _
  refine PresE.bind (checkEventResult_ext _ ev s1) ?_
  intro b s2 _
  exact PresE.ok ((Ext.refl s2).congr rfl rfl)

theorem nfinalize_ext (hC : NoCmds sc) (x : Ctx) (s s' : NSt)
    (h : nfinalize sub sc cfg x s = some s') : Ext s s' := by
  unfold nfinalize at h
  have hp : PresE (ncallbacks sub sc cfg .finalize x cfg.finalize (s.emitG (.fin x.tag (confMask cfg s.conf)))) s :=
    ncallbacks_extG hC .finalize x _ cfg.finalize s
  split at h
  · rename_i u s1 hc; cases h; exact hp _ (by rw [hc]; rfl)
  · rename_i e s1 hc; cases h; exact hp _ (by rw [hc]; rfl)
  · cases h

/-- the `except BaseException` clause of `_trigger_event` -/
theorem exceptClause_ext (hC : NoCmds sc) (x : Ctx) (body : NR Bool) (s : NSt) (hbody : PresE body s) :
    PresE (match body with
      | .ok b s' => (.ok b s' : NR Bool)
      | .err e s' =>
        match cfg.onException with
        | [] => .err e s'
        | hs => (ncallbacks sub sc cfg .onException x hs s').bind fun _ s'' => .ok (s''.result.getD false) s''
      | .oof => .oof) s := by
  cases body with
  | ok b s1 => exact hbody
  | oof => exact PresE.oof
  | err e s1 =>
    have f1 : Ext s s1 := hbody s1 rfl
    simp only []
    split
    · exact PresE.err f1
    · refine PresE.weaken f1 (PresE.bind (ncallbacks_ext hC _ x _ s1) ?_)
      intro _ s2 _
      exact PresE.ok (Ext.refl _)

/-- the `finally` clause of `_trigger_event` -/
theorem finallyClause_ext (hC : NoCmds sc) (x : Ctx) (r1 : NR Bool) (s : NSt) (h1 : PresE r1 s) :
    PresE (match r1 with
      | .ok b s' => match nfinalize sub sc cfg x s' with
        | some s'' => (.ok b s'' : NR Bool)
        | none => .oof
      | .err e s' => match nfinalize sub sc cfg x s' with
        | some s'' => .err e s''
        | none => .oof
      | .oof => .oof) s := by
  cases r1 with
  | oof => exact PresE.oof
  | ok b s1 =>
    simp only []
    cases hf : nfinalize sub sc cfg x s1 with
    | none => exact PresE.oof
    | some s2 => exact PresE.ok ((h1 s1 rfl).trans (nfinalize_ext hC x s1 s2 hf))
  | err e s1 =>
    simp only []
    cases hf : nfinalize sub sc cfg x s1 with
    | none => exact PresE.oof
    | some s2 => exact PresE.err ((h1 s1 rfl).trans (nfinalize_ext hC x s1 s2 hf))

theorem ntriggerEvent_ext (hC : NoCmds sc) (x : Ctx) (ev : Nat) (s : NSt) :
    PresE (ntriggerEvent sub sc cfg x ev s) s := by
  have hbody : PresE (triggerEventBody sub sc cfg x ev { s with result := none, exited := [] }) s :=
    fun s' h => (triggerEventBody_ext hC x ev { s with result := none, exited := [] } s' h).congr rfl rfl
  unfold ntriggerEvent
  exact finallyClause_ext hC x _ _ (exceptClause_ext hC x _ _ hbody)

theorem ndrain_ext (hC : NoCmds sc) : ∀ (n : Nat) (s : NSt), PresE (ndrain sub sc cfg n s) s
  | 0, _ => PresE.oof
  | n + 1, s => by
    unfold ndrain
    split
    · exact PresE.ok (Ext.refl _)
    · rename_i ev tag _ _
      have ht := ntriggerEvent_ext (sub := sub) (cfg := cfg) hC ⟨0, tag⟩ ev s
      split
      · rename_i b s1 hc
        have f1 : Ext s s1 := ht s1 (by rw [hc]; rfl)
        intro s' h
        exact f1.trans ((ndrain_ext hC n _ s' h).congr rfl rfl)
      · rename_i e s1 hc
        have f1 : Ext s s1 := ht s1 (by rw [hc]; rfl)
        exact PresE.err (f1.congr rfl rfl)
      · exact PresE.oof

theorem nmachineProcess_ext (hC : NoCmds sc) (qmax ev tag : Nat) (s : NSt) :
    PresE (nmachineProcess sub sc cfg qmax ev tag s) s := by
  unfold nmachineProcess
  split
  · split
    · exact ntriggerEvent_ext hC _ ev s
    · exact PresE.err (Ext.refl _)
  · simp only []
    split
    · exact PresE.ok ((Ext.refl s).congr rfl rfl)
    · refine PresE.bind (s := s) ?_ ?_
      · intro s' h
        exact (ndrain_ext hC qmax { s with queue := s.queue ++ [(ev, tag)] } s' h).congr rfl rfl
      · intro _ s1 _
        exact PresE.ok (Ext.refl _)

theorem napiTrigger_ext (hC : NoCmds sc) (qmax ev : Nat) (s : NSt) :
    PresE (napiTrigger sub sc cfg qmax ev s) s := by
  unfold napiTrigger
  simp only []
  have hapi : Ext s ((({ s with nextTag := s.nextTag + 1 } : NSt).emit (.api 0 s.nextTag 0 ev)).emitG
      (.api s.nextTag ev)) := ⟨[.api 0 s.nextTag 0 ev], rfl, .api _ _ _ _⟩
  have hp := PresE.weaken hapi (nmachineProcess_ext (sub := sub) (cfg := cfg) hC qmax ev s.nextTag
    ((({ s with nextTag := s.nextTag + 1 } : NSt).emit (.api 0 s.nextTag 0 ev)).emitG (.api s.nextTag ev)))
  split
  · rename_i b s1 hc
    have f1 : Ext s s1 := hp s1 (by rw [hc]; rfl)
    exact PresE.ok (f1.trans ⟨[.ret s.nextTag b], rfl, .ret _ _⟩)
  · rename_i e s1 hc
    have f1 : Ext s s1 := hp s1 (by rw [hc]; rfl)
    exact PresE.err (f1.trans ⟨[.raised s.nextTag e], rfl, .raised _ _⟩)
  · exact PresE.oof

end Engine

end NestP

/-- one trigger call leaves the nesting monitor in its initial state -/
theorem nest_apiTrigger (cfg : NCfg) (sub : NSub) (sc : Script) (hC : NoCmds sc) (qmax ev : Nat) (s s' : NSt)
    (h0 : nestRun cfg {} s.log = {})
    (h : (napiTrigger sub sc cfg qmax ev s).state? = some s') : nestRun cfg {} s'.log = {} :=
  (NestP.napiTrigger_ext hC qmax ev s s' h).keeps h0

theorem nest_history (cfg : NCfg) (sc : Script) (hC : NoCmds sc) (qmax fuel : Nat) :
    ∀ (evs : List Nat) (s s' : NSt), nestRun cfg {} s.log = {} →
      nrunHistory sc cfg qmax fuel evs s = some s' → nestRun cfg {} s'.log = {} := by
  have hcmd : ∀ (ev : Nat) (s : NSt), NestP.PresE (nrunCmd sc cfg qmax fuel (.trigger 0 ev) s) s := by
    intro ev s
    cases fuel with
    | zero => exact NestP.PresE.oof
    | succ f =>
      unfold nrunCmd
      exact NestP.PresE.map (NestP.napiTrigger_ext hC qmax ev s)
  intro evs
  induction evs with
  | nil => intro s s' h0 h; simp only [nrunHistory, Option.some.injEq] at h; subst h; exact h0
  | cons ev evs ih =>
    intro s s' h0 h
    unfold nrunHistory at h
    have hc := hcmd ev s
    split at h
    · rename_i u s1 he
      exact ih s1 s' ((hc s1 (by rw [he]; rfl)).keeps h0) h
    · rename_i e s1 he
      exact ih s1 s' ((hc s1 (by rw [he]; rfl)).keeps h0) h
    · cases h

/-- hence the nesting monitor accepts the trace -/
theorem nestOk_of_idle (cfg : NCfg) (items : List Item) (h : nestRun cfg {} items = {}) : nestOk cfg items = true := by
  simp [nestOk, h]

end TM
