/-
  Proofs/C04.lean — helper lemmas: every engine function, run with ANY script that issues no
  re-entrant commands (callbacks and conditions may raise anywhere, any exception), appends a segment
  that the containment acceptor of `Model/Spec/C04.lean` accepts, with the matching outcome.
-/
import Proofs.C01
import Model.Spec.C04

namespace TM
open C04

/-- engine result corresponding to an acceptor outcome -/
def toRes {α} (s' : St) : Rs α → R α
  | .ok a => .ok a s'
  | .fail e _ => .err e s'

/-- `seg` is accepted by `p` with outcome `o`, whatever follows -/
def AcceptsE {α} (p : AccE α) (seg : List Item) (o : Rs α) : Prop := ∀ rest, p (seg ++ rest) = some (o, rest)

variable (sub : Sub) (sc : Script)

theorem invoke_any (hC : NoCmds sc) (slot : Slot) (x : Ctx) (c : Nat) (s : St) :
    ∃ (o : Out) (s' : St), Frame s s' ∧
      s'.log = s.log ++ [.call slot c x.model x.tag (s.stateOf x.model), .done c o] ∧
      invoke sub sc slot x c s = (match o with | .ret b => .ok b s' | .raise e => .err e s') := by
  cases ho : (sc c (s.count c)).out with
  | ret b =>
    refine ⟨.ret b, (({ s with counts := aset c (s.count c + 1) s.counts }).emit
      (.call slot c x.model x.tag (s.stateOf x.model))).emit (.done c (.ret b)), ⟨rfl, rfl, rfl, rfl⟩, by simp [St.emit], ?_⟩
    simp only [invoke, hC c (s.count c), runCmds, ho]
    rfl
  | raise e =>
    refine ⟨.raise e, (({ s with counts := aset c (s.count c + 1) s.counts }).emit
      (.call slot c x.model x.tag (s.stateOf x.model))).emit (.done c (.raise e)), ⟨rfl, rfl, rfl, rfl⟩, by simp [St.emit], ?_⟩
    simp only [invoke, hC c (s.count c), runCmds, ho]
    rfl

theorem callbacks_any (hC : NoCmds sc) (slot : Slot) (x : Ctx) :
    ∀ (cbs : List Nat) (s : St), ∃ (o : Rs Unit) (s' : St) (seg : List Item),
      callbacks sub sc slot x cbs s = toRes s' o ∧ Frame s s' ∧ s'.log = s.log ++ seg ∧
      AcceptsE (expectCbs slot x.model x.tag (s.stateOf x.model) cbs) seg o ∧
      (∀ e st, o = .fail e st → st = s.stateOf x.model) := by
  intro cbs
  induction cbs with
  | nil => intro s; exact ⟨.ok (), s, [], rfl, Frame.refl s, by simp, fun _ => rfl, fun _ _ h => by cases h⟩
  | cons c cs ih =>
    intro s
    obtain ⟨o, s1, f1, l1, h1⟩ := invoke_any sub sc hC slot x c s
    cases o with
    | ret b =>
      obtain ⟨o2, s2, seg, h2, f2, l2, a2, w2⟩ := ih s1
      refine ⟨o2, s2, [.call slot c x.model x.tag (s.stateOf x.model), .done c (.ret b)] ++ seg, ?_, f1.trans f2, ?_, ?_, ?_⟩
      · simp only [callbacks, h1, Res.bind, h2]
      · rw [l2, l1]; simp
      · intro rest
        have := a2 rest
        rw [f1.stateOf] at this
        simp [expectCbs, this]
      · intro e st h; rw [← f1.stateOf]; exact w2 e st h
    | raise e =>
      refine ⟨.fail e (s.stateOf x.model), s1, [.call slot c x.model x.tag (s.stateOf x.model), .done c (.raise e)], ?_, f1, l1, ?_, ?_⟩
      · simp only [callbacks, h1, Res.bind, toRes]
      · intro rest
        simp [expectCbs]
      · intro e' st h; cases h; rfl

theorem evalConds_any (hC : NoCmds sc) (x : Ctx) :
    ∀ (cs : List Cond) (s : St), ∃ (o : Rs Bool) (s' : St) (seg : List Item),
      evalConds sub sc x cs s = toRes s' o ∧ Frame s s' ∧ s'.log = s.log ++ seg ∧
      AcceptsE (expectConds x.model x.tag (s.stateOf x.model) cs) seg o ∧
      (∀ e st, o = .fail e st → st = s.stateOf x.model) := by
  intro cs
  induction cs with
  | nil => intro s; exact ⟨.ok true, s, [], rfl, Frame.refl s, by simp, fun _ => rfl, fun _ _ h => by cases h⟩
  | cons c cs ih =>
    intro s
    obtain ⟨o, s1, f1, l1, h1⟩ := invoke_any sub sc hC (if c.target then .condition else .unless) x c.cb s
    cases o with
    | ret b =>
      by_cases hb : b = c.target
      · obtain ⟨o2, s2, seg, h2, f2, l2, a2, w2⟩ := ih s1
        refine ⟨o2, s2, [.call (if c.target then .condition else .unless) c.cb x.model x.tag (s.stateOf x.model), .done c.cb (.ret b)] ++ seg, ?_, f1.trans f2, ?_, ?_, ?_⟩
        · simp only [evalConds, h1, Res.bind, hb, if_true, h2]
        · rw [l2, l1]; simp
        · intro rest
          have := a2 rest
          rw [f1.stateOf] at this
          simp [expectConds, hb, this]
        · intro e st h; rw [← f1.stateOf]; exact w2 e st h
      · refine ⟨.ok false, s1, [.call (if c.target then .condition else .unless) c.cb x.model x.tag (s.stateOf x.model), .done c.cb (.ret b)], ?_, f1, l1, ?_, fun _ _ h => by cases h⟩
        · simp only [evalConds, h1, Res.bind, hb, if_false, toRes]
        · intro rest
          simp [expectConds, hb]
    | raise e =>
      refine ⟨.fail e (s.stateOf x.model), s1, [.call (if c.target then .condition else .unless) c.cb x.model x.tag (s.stateOf x.model), .done c.cb (.raise e)], ?_, f1, l1, ?_, ?_⟩
      · simp only [evalConds, h1, Res.bind, toRes]
      · intro rest
        simp [expectConds]
      · intro e' st h; cases h; rfl

/-! ### sequencing lemmas for the acceptor -/

theorem AcceptsE.andThen_ok {α β} {p : AccE α} {q : α → AccE β} {s1 s2 : List Item} {a : α} {o : Rs β}
    (h1 : AcceptsE p s1 (.ok a)) (h2 : AcceptsE (q a) s2 o) : AcceptsE (C04.andThen p q) (s1 ++ s2) o := by
  intro rest
  simp only [C04.andThen, List.append_assoc, h1 (s2 ++ rest), h2 rest]

theorem AcceptsE.andThen_fail {α β} {p : AccE α} {q : α → AccE β} {s1 : List Item} {e : Exc} {st : Nat}
    (h1 : AcceptsE p s1 (.fail e st)) : AcceptsE (C04.andThen p q) s1 (.fail e st) := by
  intro rest
  simp only [C04.andThen, h1 rest]

/-- the model's state after a stage with outcome `o` that started in `src` -/
def stAfter (src : Nat) : Rs (Option Nat) → Nat
  | .ok r => r.getD src
  | .fail _ st => st

variable (cfg : Cfg)

/-- generic step: run a callback list as one stage; either it completes, or it fails (with the
state it was run in) and whatever was to follow is cut off -/
theorem stage {β} (hC : NoCmds sc) (slot : Slot) (x : Ctx) (cbs : List Nat) (s : St) (st : Nat)
    (hst : s.stateOf x.model = st) :
    (∃ s1 g1, callbacks sub sc slot x cbs s = .ok () s1 ∧ Frame s s1 ∧ s1.log = s.log ++ g1 ∧
      AcceptsE (expectCbs slot x.model x.tag st cbs) g1 (.ok ())) ∨
    (∃ e s1 g1, callbacks sub sc slot x cbs s = .err e s1 ∧ Frame s s1 ∧ s1.log = s.log ++ g1 ∧
      AcceptsE (expectCbs slot x.model x.tag st cbs) g1 (.fail e st) ∧
      ∀ (q : Unit → AccE β), AcceptsE (C04.andThen (expectCbs slot x.model x.tag st cbs) q) g1 (.fail e st)) := by
  obtain ⟨o, s1, g1, h, f, l, a, w⟩ := callbacks_any sub sc hC slot x cbs s
  rw [hst] at a w
  cases o with
  | ok u => exact Or.inl ⟨s1, g1, h, f, l, a⟩
  | fail e st' =>
    have := w e st' rfl
    subst this
    exact Or.inr ⟨e, s1, g1, h, f, l, a, fun q => AcceptsE.andThen_fail a⟩

def toResB (s' : St) : Rs (Option Nat) → R Bool
  | .ok r => .ok r.isSome s'
  | .fail e _ => .err e s'

/-- what one candidate / one candidate loop guarantees -/
structure CandPost (m src : Nat) (s s' : St) (seg : List Item) (o : Rs (Option Nat)) : Prop where
  frame : Frame' s s'
  mstate : s'.mstate = aset m (stAfter src o) s.mstate
  log : s'.log = s.log ++ seg
  reg : (cfg.state? (stAfter src o)).isSome

theorem mstate_keep {s s' : St} {m src : Nat} (f : Frame s s') (hm : alookup m s.mstate = some src) :
    s'.mstate = aset m src s.mstate := by rw [f.mstate, aset_same _ _ _ hm]

theorem execute_any (hC : NoCmds sc) (x : Ctx) (t : Trans) (s : St) (src : Nat)
    (hst : s.stateOf x.model = src) (hsrc : t.source = src) (hm : alookup x.model s.mstate = some src)
    (hok : cfg.TransOK t) :
    ∃ (o : Rs (Option Nat)) (s' : St) (seg : List Item),
      execute sub sc cfg x t s = toResB s' o ∧ CandPost cfg x.model src s s' seg o ∧
      AcceptsE (expectCand cfg x.model x.tag src t) seg o := by
  have hregsrc : (cfg.state? src).isSome := by rw [← hsrc]; exact hok.1
  -- prepare
  rcases stage (β := Option Nat) sub sc hC .prepare x t.prepare s src hst with
    ⟨s1, g1, e1, f1, l1, a1⟩ | ⟨e, s1, g1, e1, f1, l1, _, a1⟩
  case inr =>
    exact ⟨.fail e src, s1, g1, by simp [execute, e1, Res.bind, toResB],
      ⟨f1.toFrame', mstate_keep f1 hm, l1, hregsrc⟩, by simpa [expectCand] using a1 _⟩
  have hst1 : s1.stateOf x.model = src := by rw [f1.stateOf]; exact hst
  -- conditions
  obtain ⟨oc, s2, g2, e2, f2, l2, a2, w2⟩ := evalConds_any sub sc hC x t.conds s1
  rw [hst1] at a2 w2
  have f12 := f1.trans f2
  have hst2 : s2.stateOf x.model = src := by rw [f2.stateOf]; exact hst1
  cases oc with
  | fail e st' =>
    have := (w2 e st' rfl).symm; subst this
    refine ⟨.fail e src, s2, g1 ++ g2, by simp [execute, e1, Res.bind, e2, toRes, toResB],
      ⟨f12.toFrame', mstate_keep f12 hm, by rw [l2, l1]; simp, hregsrc⟩, ?_⟩
    intro rest
    simp only [AcceptsE] at a1 a2
    simp [expectCand, C04.andThen, List.append_assoc, a1, a2]
  | ok okb =>
  cases okb with
  | false =>
    refine ⟨.ok none, s2, g1 ++ g2, by simp [execute, e1, Res.bind, e2, toRes, toResB],
      ⟨f12.toFrame', by simpa [stAfter] using mstate_keep f12 hm, by rw [l2, l1]; simp, by simpa [stAfter] using hregsrc⟩, ?_⟩
    intro rest
    simp only [AcceptsE] at a1 a2
    simp [expectCand, C04.andThen, List.append_assoc, a1, a2, pureA]
  | true =>
  -- before_state_change
  rcases stage (β := Option Nat) sub sc hC .beforeSC x cfg.beforeSC s2 src hst2 with
    ⟨s3, g3, e3, f3, l3, a3⟩ | ⟨e, s3, g3, e3, f3, l3, a3, _⟩
  case inr =>
    have f13 := f12.trans f3
    refine ⟨.fail e src, s3, g1 ++ g2 ++ g3, by simp [execute, e1, Res.bind, e2, toRes, e3, toResB],
      ⟨f13.toFrame', mstate_keep f13 hm, by rw [l3, l2, l1]; simp, hregsrc⟩, ?_⟩
    intro rest
    simp only [AcceptsE] at a1 a2 a3
    simp [expectCand, C04.andThen, List.append_assoc, a1, a2, a3]
  have f13 := f12.trans f3
  have hst3 : s3.stateOf x.model = src := by rw [f3.stateOf]; exact hst2
  -- before
  rcases stage (β := Option Nat) sub sc hC .before x t.before s3 src hst3 with
    ⟨s4, g4, e4, f4, l4, a4⟩ | ⟨e, s4, g4, e4, f4, l4, a4, _⟩
  case inr =>
    have f14 := f13.trans f4
    refine ⟨.fail e src, s4, g1 ++ g2 ++ g3 ++ g4, by simp [execute, e1, Res.bind, e2, toRes, e3, e4, toResB],
      ⟨f14.toFrame', mstate_keep f14 hm, by rw [l4, l3, l2, l1]; simp, hregsrc⟩, ?_⟩
    intro rest
    simp only [AcceptsE] at a1 a2 a3 a4
    simp [expectCand, C04.andThen, List.append_assoc, a1, a2, a3, a4]
  have f14 := f13.trans f4
  have hst4 : s4.stateOf x.model = src := by rw [f4.stateOf]; exact hst3
  have l14 : s4.log = s.log ++ (g1 ++ g2 ++ g3 ++ g4) := by rw [l4, l3, l2, l1]; simp
  cases hd : t.dest with
  | none =>
    -- internal transition: after, after_state_change in the source state
    rcases stage (β := Option Nat) sub sc hC .after x t.after s4 src hst4 with
      ⟨s5, g5, e5, f5, l5, a5⟩ | ⟨e, s5, g5, e5, f5, l5, a5, _⟩
    case inr =>
      have f15 := f14.trans f5
      refine ⟨.fail e src, s5, g1 ++ g2 ++ g3 ++ g4 ++ g5, by simp [execute, e1, Res.bind, e2, toRes, e3, e4, hd, e5, toResB],
        ⟨f15.toFrame', mstate_keep f15 hm, by rw [l5, l14]; simp, hregsrc⟩, ?_⟩
      intro rest
      simp only [AcceptsE] at a1 a2 a3 a4 a5
      simp [expectCand, C04.andThen, List.append_assoc, a1, a2, a3, a4, a5, hd]
    have f15 := f14.trans f5
    have hst5 : s5.stateOf x.model = src := by rw [f5.stateOf]; exact hst4
    rcases stage (β := Option Nat) sub sc hC .afterSC x cfg.afterSC s5 src hst5 with
      ⟨s6, g6, e6, f6, l6, a6⟩ | ⟨e, s6, g6, e6, f6, l6, a6, _⟩
    case inr =>
      have f16 := f15.trans f6
      refine ⟨.fail e src, s6, g1 ++ g2 ++ g3 ++ g4 ++ g5 ++ g6, by simp [execute, e1, Res.bind, e2, toRes, e3, e4, hd, e5, e6, toResB],
        ⟨f16.toFrame', mstate_keep f16 hm, by rw [l6, l5, l14]; simp, hregsrc⟩, ?_⟩
      intro rest
      simp only [AcceptsE] at a1 a2 a3 a4 a5 a6
      simp [expectCand, C04.andThen, List.append_assoc, a1, a2, a3, a4, a5, a6, hd]
    have f16 := f15.trans f6
    refine ⟨.ok (some src), s6, g1 ++ g2 ++ g3 ++ g4 ++ g5 ++ g6, by simp [execute, e1, Res.bind, e2, toRes, e3, e4, hd, e5, e6, toResB],
      ⟨f16.toFrame', by simpa [stAfter] using mstate_keep f16 hm, by rw [l6, l5, l14]; simp, by simpa [stAfter] using hregsrc⟩, ?_⟩
    intro rest
    simp only [AcceptsE] at a1 a2 a3 a4 a5 a6
    simp [expectCand, C04.andThen, List.append_assoc, a1, a2, a3, a4, a5, a6, hd, pureA]
  | some d =>
    obtain ⟨sdef, hs⟩ := Option.isSome_iff_exists.mp hregsrc
    have hregd := hok.2 d hd
    obtain ⟨ddef, hdd⟩ := Option.isSome_iff_exists.mp hregd
    have hsS : cfg.state? (s4.stateOf x.model) = some sdef := by rw [hst4]; exact hs
    -- on_exit, still in the source state
    rcases stage (β := Option Nat) sub sc hC .onExit x sdef.onExit s4 src hst4 with
      ⟨s5, g5, e5, f5, l5, a5⟩ | ⟨e, s5, g5, e5, f5, l5, a5, _⟩
    case inr =>
      have f15 := f14.trans f5
      refine ⟨.fail e src, s5, g1 ++ g2 ++ g3 ++ g4 ++ g5, by simp [execute, e1, Res.bind, e2, toRes, e3, e4, hd, changeState, hsS, e5, toResB],
        ⟨f15.toFrame', mstate_keep f15 hm, by rw [l5, l14]; simp, hregsrc⟩, ?_⟩
      intro rest
      simp only [AcceptsE] at a1 a2 a3 a4 a5
      simp [expectCand, C04.andThen, List.append_assoc, a1, a2, a3, a4, a5, hd, hs, hdd]
    have f15 := f14.trans f5
    -- the state changes; everything from here on sees (and leaves) the destination
    obtain ⟨s5', hs5'⟩ : ∃ s5' : St, s5' = s5.setState x.model d := ⟨_, rfl⟩
    have hst5' : s5'.stateOf x.model = d := by rw [hs5']; exact stateOf_setState_self _ _ _
    have post : ∀ s' : St, Frame s5' s' → Frame' s s' ∧ s'.mstate = aset x.model d s.mstate := by
      intro s' f
      refine ⟨⟨by rw [f.models, hs5']; exact f15.models, by rw [f.queue, hs5']; exact f15.queue, by rw [f.nextTag, hs5']; exact f15.nextTag⟩, ?_⟩
      rw [f.mstate, hs5']; simp [St.setState, f15.mstate]
    have l5' : s5'.log = s.log ++ (g1 ++ g2 ++ g3 ++ g4 ++ g5) := by
      rw [hs5']; show s5.log = _; rw [l5, l14]; simp
    rcases stage (β := Option Nat) sub sc hC .onEnter x ddef.onEnter s5' d hst5' with
      ⟨s6, g6, e6, f6, l6, a6⟩ | ⟨e, s6, g6, e6, f6, l6, a6, _⟩
    case inr =>
      refine ⟨.fail e d, s6, g1 ++ g2 ++ g3 ++ g4 ++ g5 ++ g6, by simp [execute, e1, Res.bind, e2, toRes, e3, e4, hd, changeState, hsS, e5, hdd, ← hs5', e6, toResB],
        ⟨(post s6 f6).1, (post s6 f6).2, by rw [l6, l5']; simp, hregd⟩, ?_⟩
      intro rest
      simp only [AcceptsE] at a1 a2 a3 a4 a5 a6
      simp [expectCand, C04.andThen, List.append_assoc, a1, a2, a3, a4, a5, a6, hd, hs, hdd]
    have hst6 : s6.stateOf x.model = d := by rw [f6.stateOf]; exact hst5'
    -- on_final (only for a final destination)
    have hfin : (∃ s7 g7, (if ddef.final then callbacks sub sc .onFinal x cfg.onFinal s6 else .ok () s6) = .ok () s7 ∧
          Frame s6 s7 ∧ s7.log = s6.log ++ g7 ∧
          AcceptsE (if ddef.final then expectCbs .onFinal x.model x.tag d cfg.onFinal else pureA ()) g7 (.ok ())) ∨
        (∃ e s7 g7, (if ddef.final then callbacks sub sc .onFinal x cfg.onFinal s6 else .ok () s6) = .err e s7 ∧
          Frame s6 s7 ∧ s7.log = s6.log ++ g7 ∧
          AcceptsE (if ddef.final then expectCbs .onFinal x.model x.tag d cfg.onFinal else pureA ()) g7 (.fail e d)) := by
      by_cases hf : ddef.final
      · rcases stage (β := Option Nat) sub sc hC .onFinal x cfg.onFinal s6 d hst6 with
          ⟨s7, g7, e7, f7, l7, a7⟩ | ⟨e, s7, g7, e7, f7, l7, a7, _⟩
        · exact Or.inl ⟨s7, g7, by simp [hf, e7], f7, l7, by simpa [hf] using a7⟩
        · exact Or.inr ⟨e, s7, g7, by simp [hf, e7], f7, l7, by simpa [hf] using a7⟩
      · exact Or.inl ⟨s6, [], by simp [hf], Frame.refl _, by simp, by simp only [hf]; intro rest; rfl⟩
    rcases hfin with ⟨s7, g7, e7, f7, l7, a7⟩ | ⟨e, s7, g7, e7, f7, l7, a7⟩
    case inr =>
      have f57 := f6.trans f7
      refine ⟨.fail e d, s7, g1 ++ g2 ++ g3 ++ g4 ++ g5 ++ g6 ++ g7, ?_,
        ⟨(post s7 f57).1, (post s7 f57).2, by rw [l7, l6, l5']; simp, hregd⟩, ?_⟩
      · simp only [execute, e1, Res.bind, e2, toRes, e3, e4, hd, changeState, hsS, e5, hdd, ← hs5', e6]
        simp only [Bool.not_true, Bool.false_eq_true, if_false, e7, toResB]
      · intro rest
        simp only [AcceptsE] at a1 a2 a3 a4 a5 a6 a7
        simp [expectCand, C04.andThen, List.append_assoc, a1, a2, a3, a4, a5, a6, a7, hd, hs, hdd]
    have f57 := f6.trans f7
    have hst7 : s7.stateOf x.model = d := by rw [f7.stateOf]; exact hst6
    have l7' : s7.log = s.log ++ (g1 ++ g2 ++ g3 ++ g4 ++ g5 ++ g6 ++ g7) := by rw [l7, l6, l5']; simp
    have hcs : changeState sub sc cfg x t d s4 = .ok () s7 := by
      simp only [changeState, hsS, e5, Res.bind, hdd, ← hs5', e6]
      exact e7
    -- after
    rcases stage (β := Option Nat) sub sc hC .after x t.after s7 d hst7 with
      ⟨s8, g8, e8, f8, l8, a8⟩ | ⟨e, s8, g8, e8, f8, l8, a8, _⟩
    case inr =>
      have f58 := f57.trans f8
      refine ⟨.fail e d, s8, g1 ++ g2 ++ g3 ++ g4 ++ g5 ++ g6 ++ g7 ++ g8, by simp [execute, e1, Res.bind, e2, toRes, e3, e4, hd, hcs, e8, toResB],
        ⟨(post s8 f58).1, (post s8 f58).2, by rw [l8, l7']; simp, hregd⟩, ?_⟩
      intro rest
      simp only [AcceptsE] at a1 a2 a3 a4 a5 a6 a7 a8
      simp [expectCand, C04.andThen, List.append_assoc, a1, a2, a3, a4, a5, a6, a7, a8, hd, hs, hdd]
    have f58 := f57.trans f8
    have hst8 : s8.stateOf x.model = d := by rw [f8.stateOf]; exact hst7
    rcases stage (β := Option Nat) sub sc hC .afterSC x cfg.afterSC s8 d hst8 with
      ⟨s9, g9, e9, f9, l9, a9⟩ | ⟨e, s9, g9, e9, f9, l9, a9, _⟩
    case inr =>
      have f59 := f58.trans f9
      refine ⟨.fail e d, s9, g1 ++ g2 ++ g3 ++ g4 ++ g5 ++ g6 ++ g7 ++ g8 ++ g9, by simp [execute, e1, Res.bind, e2, toRes, e3, e4, hd, hcs, e8, e9, toResB],
        ⟨(post s9 f59).1, (post s9 f59).2, by rw [l9, l8, l7']; simp, hregd⟩, ?_⟩
      intro rest
      simp only [AcceptsE] at a1 a2 a3 a4 a5 a6 a7 a8 a9
      simp [expectCand, C04.andThen, List.append_assoc, a1, a2, a3, a4, a5, a6, a7, a8, a9, hd, hs, hdd]
    have f59 := f58.trans f9
    refine ⟨.ok (some d), s9, g1 ++ g2 ++ g3 ++ g4 ++ g5 ++ g6 ++ g7 ++ g8 ++ g9, by simp [execute, e1, Res.bind, e2, toRes, e3, e4, hd, hcs, e8, e9, toResB],
      ⟨(post s9 f59).1, by simpa [stAfter] using (post s9 f59).2, by rw [l9, l8, l7']; simp, by simpa [stAfter] using hregd⟩, ?_⟩
    intro rest
    simp only [AcceptsE] at a1 a2 a3 a4 a5 a6 a7 a8 a9
    simp [expectCand, C04.andThen, List.append_assoc, a1, a2, a3, a4, a5, a6, a7, a8, a9, hd, hs, hdd, pureA]

theorem tryTransitions_any (hC : NoCmds sc) (x : Ctx) (src : Nat) :
    ∀ (ts : List Trans) (s : St), s.stateOf x.model = src → alookup x.model s.mstate = some src →
    (∀ t ∈ ts, t.source = src ∧ cfg.TransOK t) → (cfg.state? src).isSome →
    ∃ (o : Rs (Option Nat)) (s' : St) (seg : List Item),
      tryTransitions sub sc cfg x ts s = toResB s' o ∧ CandPost cfg x.model src s s' seg o ∧
      AcceptsE (expectCands cfg x.model x.tag src ts) seg o := by
  intro ts
  induction ts with
  | nil =>
    intro s _ hm _ hreg
    exact ⟨.ok none, s, [], rfl, ⟨⟨rfl, rfl, rfl⟩, by simp [stAfter, aset_same _ _ _ hm], by simp, by simpa [stAfter] using hreg⟩, fun _ => rfl⟩
  | cons t ts ih =>
    intro s hst hm hts hreg
    obtain ⟨hsrc, hok⟩ := hts t (List.mem_cons_self ..)
    obtain ⟨o, s1, g1, e1, p1, a1⟩ := execute_any sub sc cfg hC x t s src hst hsrc hm hok
    cases o with
    | fail e st =>
      refine ⟨.fail e st, s1, g1, by simp [tryTransitions, e1, toResB, Res.bind], p1, ?_⟩
      intro rest
      simp only [AcceptsE] at a1
      simp [expectCands, a1]
    | ok r =>
      cases r with
      | some st' =>
        refine ⟨.ok (some st'), s1, g1, by simp [tryTransitions, e1, toResB, Res.bind], p1, ?_⟩
        intro rest
        simp only [AcceptsE] at a1
        simp [expectCands, a1]
      | none =>
        have hm1 : s1.mstate = s.mstate := by
          have := p1.mstate; simpa [stAfter, aset_same _ _ _ hm] using this
        have hst1 : s1.stateOf x.model = src := by simp [St.stateOf, hm1]; simpa [St.stateOf] using hst
        obtain ⟨o2, s2, g2, e2, p2, a2⟩ := ih s1 hst1 (by rw [hm1]; exact hm)
          (fun t' ht' => hts t' (List.mem_cons_of_mem _ ht')) hreg
        refine ⟨o2, s2, g1 ++ g2, by simp [tryTransitions, e1, toResB, Res.bind, e2],
          ⟨p1.frame.trans p2.frame, by rw [p2.mstate, hm1], by rw [p2.log, p1.log]; simp, p2.reg⟩, ?_⟩
        intro rest
        simp only [AcceptsE] at a1 a2
        simp [expectCands, List.append_assoc, a1, a2]

/-- the item that reports the outcome of a trigger call -/
def outItemE (tag : Nat) : Except Exc Bool → Item
  | .ok b => .ret tag b
  | .error e => .raised tag e

def outResE (s' : St) : Except Exc Bool → R Bool
  | .ok b => .ok b s'
  | .error e => .err e s'

/-- finalize stage: whatever its callbacks do, the acceptor `finalize` consumes exactly its segment -/
theorem runFinalize_any (hC : NoCmds sc) (x : Ctx) (sa : St) (st : Nat) (hst : sa.stateOf x.model = st) :
    ∃ sb g, runFinalize sub sc cfg x sa = some sb ∧ Frame sa sb ∧ sb.log = sa.log ++ g ∧
      ∀ rest, C04.finalize cfg x.model x.tag st (g ++ rest) = some rest := by
  obtain ⟨o, sb, g, e, f, l, a, _⟩ := callbacks_any sub sc hC .finalize x cfg.finalize sa
  rw [hst] at a
  refine ⟨sb, g, ?_, f, l, ?_⟩
  · cases o <;> simp [runFinalize, e, toRes]
  · intro rest; simp [C04.finalize, a rest]

/-- handlers + finalize + outcome after the `try:` part ended with outcome `o` in engine state `sa` -/
theorem guarded_any (hC : NoCmds sc) (m tag src : Nat) (o : Rs (Option Nat)) (sa : St)
    (hst : sa.stateOf m = stAfter src o) :
    ∃ (out : Except Exc Bool) (sb : St) (g : List Item),
      guarded sub sc cfg ⟨m, tag⟩ (toResB sa o) = outResE sb out ∧ Frame sa sb ∧ sb.log = sa.log ++ g ∧
      ∀ rest, finish cfg m tag src o (g ++ outItemE tag out :: rest) = some (stAfter src o, rest) := by
  cases o with
  | ok r =>
    obtain ⟨sb, g, e, f, l, a⟩ := runFinalize_any sub sc cfg hC ⟨m, tag⟩ sa _ hst
    refine ⟨.ok r.isSome, sb, g, by simp [guarded, toResB, exceptClause, finallyClause, e, outResE], f, l, ?_⟩
    intro rest
    simp only [stAfter] at a ⊢
    simp [finish, a, outItemE]
  | fail e st =>
    simp only [stAfter] at hst
    cases hex : cfg.onException with
    | nil =>
      obtain ⟨sb, g, ef, f, l, a⟩ := runFinalize_any sub sc cfg hC ⟨m, tag⟩ sa _ hst
      refine ⟨.error e, sb, g, by simp [guarded, toResB, exceptClause, hex, finallyClause, ef, outResE], f, l, ?_⟩
      intro rest
      simp [finish, hex, a, outItemE, stAfter]
    | cons h0 hs =>
      obtain ⟨oh, s1, g1, e1, f1, l1, a1, _⟩ := callbacks_any sub sc hC .onException ⟨m, tag⟩ (h0 :: hs) sa
      simp only [hst] at a1
      have hst1 : s1.stateOf m = st := by rw [f1.stateOf]; exact hst
      obtain ⟨sb, g, ef, f, l, a⟩ := runFinalize_any sub sc cfg hC ⟨m, tag⟩ s1 _ hst1
      cases oh with
      | ok u =>
        refine ⟨.ok false, sb, g1 ++ g, by simp [guarded, toResB, exceptClause, hex, e1, toRes, Res.bind, finallyClause, ef, outResE],
          f1.trans f, by rw [l, l1]; simp, ?_⟩
        intro rest
        simp only [AcceptsE] at a1
        simp [finish, hex, List.append_assoc, a1, a, outItemE, stAfter]
      | fail e2 st2 =>
        refine ⟨.error e2, sb, g1 ++ g, by simp [guarded, toResB, exceptClause, hex, e1, toRes, Res.bind, finallyClause, ef, outResE],
          f1.trans f, by rw [l, l1]; simp, ?_⟩
        intro rest
        simp only [AcceptsE] at a1
        simp [finish, hex, List.append_assoc, a1, a, outItemE, stAfter]

/-- `Event._trigger` on a model whose state is registered, any raising behaviour. -/
theorem eventTrigger_any (hC : NoCmds sc) (hWF : cfg.WF)
    (m ev tag : Nat) (s : St) (src : Nat) (ts : List Trans)
    (hev : cfg.event? ev = some ts) (hm : alookup m s.mstate = some src) (hreg : (cfg.state? src).isSome) :
    ∃ (out : Except Exc Bool) (s' : St) (st' : Nat) (seg : List Item),
      eventTrigger sub sc cfg ts ⟨m, tag⟩ s = outResE s' out ∧ Frame' s s' ∧
      s'.mstate = aset m st' s.mstate ∧ s'.log = s.log ++ seg ∧ (cfg.state? st').isSome ∧
      ∀ rest, C04.expectEvent cfg m tag src ev (seg ++ outItemE tag out :: rest) = some (st', rest) := by
  obtain ⟨sdef, hsd⟩ := Option.isSome_iff_exists.mp hreg
  have hst : s.stateOf m = src := stateOf_of_lookup hm
  have hsame : aset m src s.mstate = s.mstate := aset_same _ _ _ hm
  -- the `try:` part
  have hbody : ∃ (o : Rs (Option Nat)) (sa : St) (g : List Item),
      (match candidates ts src with
        | none => if ignoreInvalid cfg src then (.ok false s : R Bool) else .err .machineError s
        | some cs => eventProcess sub sc cfg ⟨m, tag⟩ cs s) = toResB sa o ∧
      CandPost cfg m src s sa g o ∧ AcceptsE (body cfg m tag src ev) g o := by
    cases hc : candidates ts src with
    | none =>
      by_cases hig : ignoreInvalid cfg src = true
      · refine ⟨.ok none, s, [], by simp [hig, toResB], ⟨⟨rfl, rfl, rfl⟩, by simp [stAfter, hsame], by simp, by simpa [stAfter] using hreg⟩, ?_⟩
        intro rest; simp [body, hev, hc, hig, pureA]
      · refine ⟨.fail .machineError src, s, [], by simp [hig, toResB], ⟨⟨rfl, rfl, rfl⟩, by simp [stAfter, hsame], by simp, by simpa [stAfter] using hreg⟩, ?_⟩
        intro rest; simp [body, hev, hc, hig]
    | some cs =>
      have hcs := candidates_spec hc
      rcases stage (β := Option Nat) sub sc hC .prepareEvent ⟨m, tag⟩ cfg.prepareEvent s src hst with
        ⟨s1, g1, e1, f1, l1, a1⟩ | ⟨e, s1, g1, e1, f1, l1, _, a1⟩
      · have hst1 : s1.stateOf m = src := by rw [f1.stateOf]; exact hst
        obtain ⟨o, s2, g2, e2, p2, a2⟩ := tryTransitions_any sub sc cfg hC ⟨m, tag⟩ src cs s1 hst1
          (by rw [f1.mstate]; exact hm) (fun t ht => ⟨(hcs t ht).1, hWF ev ts hev t (hcs t ht).2⟩) hreg
        refine ⟨o, s2, g1 ++ g2, by simp [eventProcess, e1, Res.bind, e2],
          ⟨f1.toFrame'.trans p2.frame, by rw [p2.mstate, f1.mstate], by rw [p2.log, l1]; simp, p2.reg⟩, ?_⟩
        have := AcceptsE.andThen_ok (q := fun _ => expectCands cfg m tag src cs) a1 a2
        intro rest; simpa [body, hev, hc] using this rest
      · refine ⟨.fail e src, s1, g1, by simp [eventProcess, e1, Res.bind, toResB],
          ⟨f1.toFrame', mstate_keep f1 hm, l1, by simpa [stAfter] using hreg⟩, ?_⟩
        intro rest; simpa [body, hev, hc] using a1 (fun _ => expectCands cfg m tag src cs) rest
  obtain ⟨o, sa, g, eb, pb, ab⟩ := hbody
  have hsta : sa.stateOf m = stAfter src o := by simp [St.stateOf, pb.mstate, alookup_aset_self]
  obtain ⟨out, sb, g', eg, fg, lg, ag⟩ := guarded_any sub sc cfg hC m tag src o sa hsta
  refine ⟨out, sb, stAfter src o, g ++ g', ?_, pb.frame.trans fg.toFrame', by rw [fg.mstate, pb.mstate],
    by rw [lg, pb.log]; simp, pb.reg, ?_⟩
  · simp only [eventTrigger, hst, hsd]
    exact (congrArg (guarded sub sc cfg ⟨m, tag⟩) eb).trans eg
  · intro rest
    simp only [AcceptsE] at ab
    simp [C04.expectEvent, List.append_assoc, ab, ag]

/-- One top-level trigger call (by name) on an idle, unqueued machine, any raising behaviour. -/
theorem apiTrigger_any (hC : NoCmds sc) (hWF : cfg.WF) (hq : cfg.queued = false)
    (qmax m ev : Nat) (s : St) (src : Nat) (ts : List Trans)
    (hev : cfg.event? ev = some ts) (hm : alookup m s.mstate = some src) (hreg : (cfg.state? src).isSome)
    (hidle : s.queue = []) :
    ∃ (s' : St) (st' : Nat) (seg : List Item),
      (apiTrigger sub sc cfg qmax m ev s).state? = some s' ∧
      s'.log = s.log ++ .api 0 s.nextTag m ev :: seg ∧
      s'.mstate = aset m st' s.mstate ∧ s'.queue = [] ∧ s'.models = s.models ∧
      s'.nextTag = s.nextTag + 1 ∧ (cfg.state? st').isSome ∧
      ∀ rest, C04.expectEvent cfg m s.nextTag src ev (seg ++ rest) = some (st', rest) := by
  let s1 : St := ({ s with nextTag := s.nextTag + 1 }).emit (.api 0 s.nextTag m ev)
  obtain ⟨out, s2, st', seg, e, f, ms, l, reg, a⟩ :=
    eventTrigger_any sub sc cfg hC hWF m ev s.nextTag s1 src ts hev hm hreg
  have hstep : triggerByName sub sc cfg qmax m ev s.nextTag s1 = outResE s2 out := by
    have : (alookup m s1.mstate).isNone = false := by
      show (alookup m s.mstate).isNone = false
      simp [hm]
    simp only [triggerByName, this, hev, machineProcess, hq]
    have hq1 : s1.queue = [] := hidle
    simp [hq1, e]
  refine ⟨s2.emit (outItemE s.nextTag out), st', seg ++ [outItemE s.nextTag out], ?_, ?_, ?_, ?_, ?_, ?_, reg, ?_⟩
  · cases out <;> simp [apiTrigger, s1, outResE, outItemE, Res.state?] at hstep ⊢ <;> simp [hstep]
  · simp [St.emit, l, s1]
  · simpa [St.emit, s1] using ms
  · simpa [St.emit, s1] using f.queue.trans hidle
  · simpa [St.emit, s1] using f.models
  · simpa [St.emit, s1] using f.nextTag
  · intro rest
    simpa using a rest

end TM
