/-
  Proofs/C09Locked.lean — property C09, the locked classes with ONE thread: on top of the invariant of
  `Proofs/C06.lean` (`Inv`, `Phase`) the only user of the machine's locks never waits for them, can only
  stand still when its program is finished (or malformed), and the order of outermost calls that
  `C06_serializable` provides is the program order.
-/
import Proofs.C06

namespace TM
namespace Locked

/-- every call's context list names each lock at most once (`PicklableLock` is not re-entrant: a lock
listed twice would block its only user) -/
def LocksOnce (c : Cfg) : Prop := ∀ tgt l, (ctxsFor c tgt).count (Ctx.lock l) ≤ 1

/-- one thread (number 0) runs `prog`; no other thread ever calls the machine -/
def solo (prog : List Op) : Nat → List Op := fun t => if t = 0 then prog else []

/-- the thread stands on an engine step or a return that is outside any call (malformed program) -/
def stuckOutsideCall (th : Thread) : Prop :=
  th.frames = [] ∧ ∃ op p, th.prog = op :: p ∧ ∀ tgt tag, op ≠ .call tgt tag

namespace C09P
open C06P

theorem step_th_ne (c : Cfg) (eng : Nat → Nat → Nat) (s : LState) {t t' : Nat} (h : t' ≠ t) :
    (step c eng s t).th t' = s.th t' := by
  rcases step_cases c eng s t with h0 | ⟨x, r, f, fs, s', _, _, he, hs⟩ | ⟨tgt, tag, p, _, _, _, hs⟩ |
    ⟨tgt, tag, p, _, _, _, hs⟩ | ⟨a, p, f, fs, _, _, _, hs⟩ | ⟨r, p, fs, _, _, _, hs⟩ |
    ⟨r, p, x, f, fs, _, _, _, hs⟩
  · rw [h0]
  · rw [hs]; simp [h, (enterCtx_some he).1]
  · rw [hs]; simp [h]
  · rw [hs]; simp [h]
  · rw [hs]; simp [h]
  · rw [hs]; simp [h]
  · rw [hs]; simp [h]

theorem step_idle (c : Cfg) (eng : Nat → Nat → Nat) (s : LState) (t : Nat)
    (hp : (s.th t).prog = []) (hq : (s.th t).pend = []) : step c eng s t = s := by
  unfold step
  simp [hp, hq]

/-- the other threads never move -/
theorem others_idle (c : Cfg) (eng : Nat → Nat → Nat) (prog : List Op) (ms : Nat) (σ : List Nat) :
    ∀ t, t ≠ 0 → ((runSched c eng (init (solo prog) ms) σ).th t) = ({} : Thread) := by
  suffices h : ∀ (s : LState), (∀ t, t ≠ 0 → s.th t = ({} : Thread)) →
      ∀ t, t ≠ 0 → (runSched c eng s σ).th t = ({} : Thread) by
    apply h
    intro t ht
    simp [init, solo, ht]
  induction σ with
  | nil => intro s hs; exact hs
  | cons u σ ih =>
    intro s hs
    apply ih
    intro t ht
    by_cases hu : u = 0
    · subst hu; rw [step_th_ne c eng s ht]; exact hs t ht
    · rw [step_idle c eng s u (by rw [hs u hu]) (by rw [hs u hu])]; exact hs t ht

theorem count_ge_two {x : Ctx} {f r : List Ctx} (h : x ∈ f) : 2 ≤ (f.reverse ++ x :: r).count x := by
  have h1 : 1 ≤ f.reverse.count x := List.count_pos_iff.mpr (by simpa using h)
  rw [List.count_append, List.count_cons_self]
  omega

/-- (1) the only user of the locks is never blocked -/
theorem solo_not_blocked {c : Cfg} {L : Nat} (hwf : WF c L) (h1 : LocksOnce c) (eng : Nat → Nat → Nat)
    (prog : List Op) (ms : Nat) (σ : List Nat) :
    blocked (runSched c eng (init (solo prog) ms) σ) 0 = false := by
  have hI : Inv c (runSched c eng (init (solo prog) ms) σ) := Inv.run hwf eng σ (Inv.init c _ ms)
  have hO := others_idle c eng prog ms σ
  generalize runSched c eng (init (solo prog) ms) σ = s at hI hO
  unfold blocked
  split
  · rename_i l r hp
    cases ho : s.owner l with
    | zero => rfl
    | succ t' =>
      exfalso
      have hheld : Ctx.lock l ∈ held (s.th t') := (hI.own t' l).mpr ho
      by_cases ht : t' = 0
      · subst ht
        obtain ⟨f, tgt, hf, _, hctx⟩ := (hI.ph 0).of_pend hp
        have hin : Ctx.lock l ∈ f := by simpa [held, hf] using hheld
        have := count_ge_two (r := r) hin
        rw [hctx] at this
        have := h1 tgt l
        omega
      · rw [hO t' ht] at hheld
        simp [held] at hheld
  · rfl

theorem emit_ne (s s' : LState) (e : Ev) (h : s'.trace = s.trace) : emit s' e ≠ s := by
  intro heq
  have := congrArg (fun x => x.trace.length) heq
  simp [h] at this

/-- (2) it stands still only when its program is finished or malformed -/
theorem solo_progress {c : Cfg} {L : Nat} (hwf : WF c L) (h1 : LocksOnce c) (eng : Nat → Nat → Nat)
    (prog : List Op) (ms : Nat) (σ : List Nat) :
    let s := runSched c eng (init (solo prog) ms) σ
    step c eng s 0 = s → (s.th 0).prog = [] ∨ stuckOutsideCall (s.th 0) := by
  intro s hstep
  have hI : Inv c s := Inv.run hwf eng σ (Inv.init c _ ms)
  have hB : blocked s 0 = false := solo_not_blocked hwf h1 eng prog ms σ
  revert hstep
  unfold step
  simp only []
  split
  · -- entering contexts: not blocked, so the step appends `enter`
    rename_i x r hp
    obtain ⟨f, tgt, hf, _, _⟩ := (hI.ph 0).of_pend hp
    have hsome : ∃ s', enterCtx s 0 x = some s' := by
      cases x with
      | lock l =>
        have : s.owner l = 0 := by
          simp only [blocked, hp] at hB
          simpa using hB
        exact ⟨{ s with owner := fun i => if i = l then 0 + 1 else s.owner i }, by simp [enterCtx, this]⟩
      | ident => exact ⟨_, rfl⟩
      | user u => exact ⟨_, rfl⟩
    obtain ⟨s', he⟩ := hsome
    rw [he]
    simp only [hf]
    intro h
    exact absurd h (emit_ne _ _ _ (by simp [(enterCtx_some he).2.2]))
  · rename_i hp
    split
    · rename_i hprog; intro _; exact Or.inl hprog
    · rename_i tgt tag p hprog
      split
      · intro h; exact absurd h (emit_ne _ _ _ (by simp))
      · intro h; exact absurd h (emit_ne _ _ _ (by simp))
    · rename_i a p hprog
      split
      · rename_i hf
        intro _
        exact Or.inr ⟨hf, _, _, hprog, fun _ _ h => by cases h⟩
      · intro h; exact absurd h (emit_ne _ _ _ (by simp))
    · rename_i r p hprog
      split
      · rename_i hf
        intro _
        exact Or.inr ⟨hf, _, _, hprog, fun _ _ h => by cases h⟩
      · intro h; exact absurd h (emit_ne _ _ _ (by simp))
      · intro h; exact absurd h (emit_ne _ _ _ (by simp))

/-! ### the serial order is the program order -/

theorem seqCall_idle (eng : Nat → Nat → Nat) (q : Seq) (t : Nat) (h : q.progs t = []) : seqCall eng q t = q := by
  unfold seqCall
  simp only [h, runOps]
  cases q with
  | mk progs ms log =>
    simp only [Seq.mk.injEq, and_true]
    funext i
    by_cases hi : i = t
    · subst hi; simpa using h.symm
    · simp [hi]

theorem seqRun_solo (eng : Nat → Nat → Nat) (order : List Nat) :
    ∀ (q : Seq), (∀ t, t ≠ 0 → q.progs t = []) →
      order.foldl (seqCall eng) q = (List.replicate (order.count 0) 0).foldl (seqCall eng) q := by
  induction order with
  | nil => intro q _; rfl
  | cons u order ih =>
    intro q hq
    by_cases hu : u = 0
    · subst hu
      simp only [List.foldl_cons, List.count_cons_self, List.replicate_succ]
      apply ih
      intro t ht
      simp [seqCall, ht, hq t ht]
    · have hne : (u == 0) = false := by simpa using hu
      simp only [List.foldl_cons, List.count_cons, hne]
      rw [seqCall_idle eng q u (hq u hu)]
      simpa using ih q hq

/-- (3) what the thread computes under the locks is what the unlocked sequential semantics computes,
calls in program order -/
theorem solo_serial {c : Cfg} {L : Nat} (hwf : WF c L) (eng : Nat → Nat → Nat)
    (prog : List Op) (ms : Nat) (σ : List Nat) :
    let s := runSched c eng (init (solo prog) ms) σ
    ∃ k : Nat,
      let q := seqRun eng (solo prog) ms (List.replicate k 0)
      ((s.th 0).frames = [] → q.progs 0 = (s.th 0).prog) ∧
      ((s.th 0).frames = [] ∨ (s.th 0).pend ≠ [] ∨ (s.th 0).exiting = true →
        q.ms = s.mstate ∧ q.log = cbLog s.trace) := by
  intro s
  obtain ⟨order, hp, hm⟩ := serializable c L hwf eng (solo prog) ms σ
  have hO := others_idle c eng prog ms σ
  have heq : seqRun eng (solo prog) ms order = seqRun eng (solo prog) ms (List.replicate (order.count 0) 0) := by
    unfold seqRun
    apply seqRun_solo
    intro t ht
    simp [solo, ht]
  refine ⟨order.count 0, ?_, ?_⟩
  · intro hf
    rw [← heq]
    exact hp 0 hf
  · intro h0
    rw [← heq]
    apply hm
    intro t
    by_cases ht : t = 0
    · subst ht; exact h0
    · left
      show ((runSched c eng (init (solo prog) ms) σ).th t).frames = []
      rw [hO t ht]

/-- the default configuration (`machine_context=None` → one `PicklableLock`) with model contexts that
are not locks: every lock is listed once -/
theorem locksOnce_default (c : Cfg) (hb : c.base = []) (hx : ∀ p ∈ c.extra, ∀ l, Ctx.lock l ∉ p.2) :
    LocksOnce c := by
  intro tgt l
  have hm : c.mbase = [Ctx.lock 0] := by simp [Cfg.mbase, hb]
  have hnil : ctxsFor c tgt = c.mbase ++ Ctx.ident :: [] ∨
      ∃ m, ctxsFor c tgt = c.mbase ++ Ctx.ident :: alookupD m c.extra := by
    cases tgt with
    | zero => left; simp [ctxsFor, Cfg.mctx]
    | succ m =>
      by_cases h : c.hsm = true
      · left; simp [ctxsFor, Cfg.mctx, h]
      · right; exact ⟨m, by simp [ctxsFor, Cfg.mctx, Cfg.cmap, h]⟩
  rcases hnil with h | ⟨m, h⟩
  · rw [h, hm]
    simp only [List.cons_append, List.nil_append, List.count_cons, List.count_nil]
    simp
    split <;> omega
  · rw [h, hm]
    have h0 : (alookupD m c.extra).count (Ctx.lock l) = 0 := by
      rcases alookupD_cases m c.extra with h0 | ⟨p, hp, h0⟩
      · simp [h0]
      · rw [h0]; exact List.count_eq_zero.mpr (hx p hp l)
    simp only [List.cons_append, List.nil_append, List.count_cons, h0]
    simp
    split <;> omega

end C09P
end Locked
end TM
