/-
  Proofs/C09Locked.lean — property C09, the locked classes with ONE thread: on top of the invariant of
  `Proofs/C06.lean` (`Inv`, `Phase`; registration is dynamic: `Op.reg` / `Op.unreg`) the only user of
  the machine's locks never waits for them, can only stand still when its program is finished (or
  malformed), and the order of outermost calls that `C06_serializable` provides is the program order.
-/
import Proofs.C06

namespace TM
namespace Locked

/-- every context list a call of `prog` can enter names each lock at most once (`PicklableLock` is not
re-entrant: a lock listed twice would block its only user): the initial entries of
`model_context_map` and whatever `add_model(m, model_context=xs)` of the program stores -/
def LocksOnce (c : Cfg) (prog : List Op) : Prop :=
  (∀ m l, (c.cmap m).count (Ctx.lock l) ≤ 1) ∧
  ∀ m xs, Op.reg m xs ∈ prog → ∀ l, (c.mctx ++ xs).count (Ctx.lock l) ≤ 1

/-- one thread (number 0) runs `prog`; no other thread ever calls the machine -/
def solo (prog : List Op) : Nat → List Op := fun t => if t = 0 then prog else []

/-- the thread stands on an engine step, a return or a (un)registration that is outside any call
(malformed program) -/
def stuckOutsideCall (th : Thread) : Prop :=
  th.frames = [] ∧ ∃ op p, th.prog = op :: p ∧ ∀ tgt tag, op ≠ .call tgt tag

namespace C09P
open C06P

theorem mctx_once {c : Cfg} {prog : List Op} (h1 : LocksOnce c prog) (l : Nat) :
    c.mctx.count (Ctx.lock l) ≤ 1 := by
  have := h1.1 0 l
  unfold Cfg.cmap at this
  rw [List.count_append] at this
  omega

theorem step_idle (c : Cfg) (eng : Nat → Nat → Nat) (s : LState) (t : Nat)
    (hp : (s.th t).prog = []) (hq : (s.th t).pend = []) : step c eng s t = s := by
  unfold step
  simp [hp, hq]

/-- what is preserved next to `Inv`: the other threads never move; every entry of
`model_context_map`, every list a later `add_model` of the program will store, and the list thread 0
is entering / has entered name each lock at most once -/
structure Solo (c : Cfg) (s : LState) : Prop where
  idle : ∀ t, t ≠ 0 → s.th t = ({} : Thread)
  cm : ∀ m l, (s.cmap m).count (Ctx.lock l) ≤ 1
  pr : ∀ m xs, Op.reg m xs ∈ (s.th 0).prog → ∀ l, (c.mctx ++ xs).count (Ctx.lock l) ≤ 1
  cur : ∀ l, ((held (s.th 0)).reverse ++ (s.th 0).pend).count (Ctx.lock l) ≤ 1

theorem Solo.init {c : Cfg} {prog : List Op} (h1 : LocksOnce c prog) (ms : Nat) :
    Solo c (Locked.init c (solo prog) ms) where
  idle := fun t ht => by simp [Locked.init, solo, ht]
  cm := fun m l => by
    show (c.cmap0 m).count (Ctx.lock l) ≤ 1
    unfold Cfg.cmap0
    split
    · simp
    · exact h1.1 m l
  pr := fun m xs h => by
    have : ((Locked.init c (solo prog) ms).th 0).prog = prog := by simp [Locked.init, solo]
    rw [this] at h
    exact h1.2 m xs h
  cur := fun l => by simp [Locked.init, held]

theorem ctxsFor_once {c : Cfg} {cmap : Nat → List Ctx} (h0 : ∀ l, c.mctx.count (Ctx.lock l) ≤ 1)
    (hcm : ∀ m l, (cmap m).count (Ctx.lock l) ≤ 1) (tgt l : Nat) :
    (ctxsFor c cmap tgt).count (Ctx.lock l) ≤ 1 := by
  cases tgt with
  | zero => exact h0 l
  | succ m =>
    simp only [ctxsFor]
    split
    · split
      · exact h0 l
      · exact hcm m l
    · exact hcm m l

theorem flatten_cons_nil (fs : List (List Ctx)) : (([] : List Ctx) :: fs).flatten = fs.flatten := by simp

theorem Solo.step {c : Cfg} {L : Nat} (_hwf : WF c L) {prog : List Op} (h1 : LocksOnce c prog)
    (eng : Nat → Nat → Nat) (s : LState) (t : Nat) (hI : Inv c s) (hS : Solo c s)
    (_hu : (step c eng s t).ung = false) : Solo c (step c eng s t) := by
  by_cases ht : t = 0
  · subst ht
    rcases step_cases c eng s 0 with h | ⟨x, r, f, fs, s1, hp, hf, he, h⟩ |
        ⟨tgt, tag, p, hp, hprog, hc, h⟩ | ⟨tgt, tag, p, hp, hprog, hc, h⟩ |
        ⟨a, p, f, fs, hp, hprog, hf, h⟩ | ⟨r, p, fs, hp, hprog, hf, h⟩ |
        ⟨r, p, x, f, fs, hp, hprog, hf, h⟩ | ⟨m, xs, p, f, fs, hp, hprog, hf, h⟩ |
        ⟨m, p, f, fs, hp, hprog, hf, h⟩ | ⟨p, f, fs, hp, hprog, hf, h⟩
    · rw [h]; exact hS
    · -- enter x
      obtain ⟨e1, _, _, e4, _⟩ := enterCtx_some he
      rw [h]
      refine ⟨fun t ht => by simp [ht, e1, hS.idle t ht], fun m l => by simpa [e4] using hS.cm m l,
        fun m xs hm => by simpa [e1] using hS.pr m xs (by simpa [e1] using hm), fun l => ?_⟩
      have := hS.cur l
      simp only [held, hf, hp, List.flatten_cons] at this
      simp only [emit_th, setTh_th, if_true, held, List.flatten_cons, List.cons_append, List.reverse_cons,
        List.append_assoc, List.singleton_append]
      simpa [List.append_assoc] using this
    · -- re-entrant call
      rw [h]
      refine ⟨fun t ht => by simp [ht, hS.idle t ht], fun m l => by simpa using hS.cm m l,
        fun m xs hm => hS.pr m xs (by rw [hprog]; exact List.mem_cons_of_mem _ (by simpa using hm)),
        fun l => ?_⟩
      have := hS.cur l
      simpa [held, hp] using this
    · -- outermost call: nothing is held, the list to enter is one of the lists that name each lock once
      rw [h]
      have hheld : held (s.th 0) = [] := by
        rcases hI.ph 0 with ⟨h1', _⟩ | ⟨f, l, _, h2, _⟩ | ⟨k, f, l, h1', h2, h3, hg, h4⟩ |
          ⟨f, l, r, b, p', _, _, _, _, _, h5⟩
        · exact held_nil h1'
        · exact absurd hp h2
        · have hb : inBody (s.th 0) := ⟨by rw [h1']; simp, h2, h3⟩
          exact absurd (hI.body_current hb) hc
        · rw [hprog] at h5; cases h5
      refine ⟨fun t ht => by simp [ht, hS.idle t ht], fun m l => by simpa using hS.cm m l,
        fun m xs hm => hS.pr m xs (by rw [hprog]; exact List.mem_cons_of_mem _ (by simpa using hm)),
        fun l => ?_⟩
      have hfl : (s.th 0).frames.flatten = [] := hheld
      simp only [emit_th, setTh_th, if_true, held, flatten_cons_nil, hfl, List.reverse_nil, List.nil_append]
      exact ctxsFor_once (fun l => mctx_once h1 l) hS.cm tgt l
    · -- engine step
      rw [h]
      refine ⟨fun t ht => by simp [ht, hS.idle t ht], fun m l => by simpa using hS.cm m l,
        fun m xs hm => hS.pr m xs (by rw [hprog]; exact List.mem_cons_of_mem _ (by simpa using hm)),
        fun l => ?_⟩
      have := hS.cur l
      simpa [held, hp] using this
    · -- callEnd
      rw [h]
      refine ⟨fun t ht => by simp [ht, hS.idle t ht], fun m l => by simpa using hS.cm m l,
        fun m xs hm => hS.pr m xs (by rw [hprog]; exact List.mem_cons_of_mem _ (by simpa using hm)),
        fun l => ?_⟩
      have := hS.cur l
      simpa [held, hp, hf] using this
    · -- exit x
      rw [h]
      refine ⟨fun t ht => by simp [ht, hS.idle t ht], fun m l => by simpa using hS.cm m l,
        fun m xs hm => hS.pr m xs (by simpa using hm), fun l => ?_⟩
      have := hS.cur l
      simp only [held, hf, hp, List.flatten_cons, List.append_nil, List.cons_append, List.reverse_cons,
        List.count_append] at this
      simp only [emit_th, setTh_th, if_true, exitCtx_th, held, List.flatten_cons, hp, List.append_nil]
      omega
    · -- add_model
      rw [h]
      refine ⟨fun t ht => by simp [ht, hS.idle t ht], fun i l => ?_,
        fun m' xs' hm => hS.pr m' xs' (by rw [hprog]; exact List.mem_cons_of_mem _ (by simpa using hm)),
        fun l => ?_⟩
      · simp only [emit_cmap, setTh_cmap]
        unfold regMap
        split
        · by_cases hi : i = m
          · simp only [hi, if_true]; exact hS.pr m xs (by rw [hprog]; simp) l
          · simp only [hi, if_false]; exact hS.cm i l
        · exact hS.cm i l
      · have := hS.cur l
        simpa [held, hp] using this
    · -- remove_model
      rw [h]
      refine ⟨fun t ht => by simp [ht, hS.idle t ht], fun i l => ?_,
        fun m' xs' hm => hS.pr m' xs' (by rw [hprog]; exact List.mem_cons_of_mem _ (by simpa using hm)),
        fun l => ?_⟩
      · simp only [emit_cmap, setTh_cmap]
        unfold unregMap
        split
        · simp
        · exact hS.cm i l
      · have := hS.cur l
        simpa [held, hp] using this
    · -- snapshot (C06: Op.snap changes nothing but the program counter)
      rw [h]
      refine ⟨fun t ht => by simp [ht, hS.idle t ht], fun m l => by simpa using hS.cm m l,
        fun m xs hm => hS.pr m xs (by rw [hprog]; exact List.mem_cons_of_mem _ (by simpa using hm)),
        fun l => ?_⟩
      have := hS.cur l
      simpa [held, hp] using this
  · rw [step_idle c eng s t (by rw [hS.idle t ht]) (by rw [hS.idle t ht])]
    exact hS

/-- both invariants at the end of a run that stays inside the statement -/
theorem solo_inv {c : Cfg} {L : Nat} (hwf : WF c L) {prog : List Op} (hp : ProgOK (solo prog))
    (h1 : LocksOnce c prog) (eng : Nat → Nat → Nat) (ms : Nat) (σ : List Nat)
    (hu : (runSched c eng (init c (solo prog) ms) σ).ung = false) :
    Inv c (runSched c eng (init c (solo prog) ms) σ) ∧ Solo c (runSched c eng (init c (solo prog) ms) σ) :=
  ⟨Inv.run hwf eng σ (Inv.init hwf _ hp ms) hu,
   run_with_inv hwf eng (Solo c) (fun s t hI hS hu' => hS.step hwf h1 eng s t hI hu') σ
     (Inv.init hwf _ hp ms) (Solo.init h1 ms) hu⟩

theorem count_ge_two {x : Ctx} {f r : List Ctx} (h : x ∈ f) : 2 ≤ (f.reverse ++ x :: r).count x := by
  have h1 : 1 ≤ f.reverse.count x := List.count_pos_iff.mpr (by simpa using h)
  rw [List.count_append, List.count_cons_self]
  omega

/-- (1) the only user of the locks is never blocked -/
theorem solo_not_blocked {c : Cfg} {s : LState} (hI : Inv c s) (hS : Solo c s) : blocked s 0 = false := by
  unfold blocked
  split
  · rename_i l r hp
    cases ho : s.owner l with
    | zero => rfl
    | succ t' =>
      exfalso
      have hheld : Ctx.lock l ∈ held (s.th t') := (hI.own t' l).mpr ho
      by_cases ht : t' = 0
      · subst ht
        have := count_ge_two (r := r) hheld
        have h2 := hS.cur l
        rw [hp] at h2
        omega
      · rw [hS.idle t' ht] at hheld
        simp [held] at hheld
  · rfl

theorem emit_ne (s s' : LState) (e : Ev) (h : s'.trace = s.trace) : emit s' e ≠ s := by
  intro heq
  have := congrArg (fun x => x.trace.length) heq
  simp [h] at this

/-- (2) it stands still only when its program is finished or malformed -/
theorem solo_progress {c : Cfg} (eng : Nat → Nat → Nat) {s : LState} (hI : Inv c s) (hS : Solo c s) :
    step c eng s 0 = s → (s.th 0).prog = [] ∨ stuckOutsideCall (s.th 0) := by
  have hB : blocked s 0 = false := solo_not_blocked hI hS
  unfold step
  simp only []
  split
  · -- entering contexts: not blocked, so the step appends `enter`
    rename_i x r hp
    obtain ⟨f, l, hf, _, _, _⟩ := (hI.ph 0).of_pend hp
    have hsome : ∃ s', enterCtx s 0 x = some s' := by
      cases x with
      | lock l =>
        have : s.owner l = 0 := by
          simp only [blocked, hp] at hB
          simpa using hB
        exact ⟨{ s with owner := fun i => if i = l then 0 + 1 else s.owner i }, by simp [enterCtx, this]⟩
      | ident => exact ⟨_, rfl⟩
      | user u => exact ⟨_, rfl⟩
    obtain ⟨s', he⟩ := hsome
    rw [he]
    simp only [hf]
    intro h
    exact absurd h (emit_ne _ _ _ (by simp [(enterCtx_some he).2.2.1]))
  · rename_i hp
    split
    · rename_i hprog; intro _; exact Or.inl hprog
    · rename_i tgt tag p hprog
      split
      · intro h; exact absurd h (emit_ne _ _ _ (by simp))
      · intro h; exact absurd h (emit_ne _ _ _ (by simp))
    · rename_i a p hprog
      split
      · rename_i hf
        intro _
        exact Or.inr ⟨hf, _, _, hprog, fun _ _ h => by cases h⟩
      · intro h; exact absurd h (emit_ne _ _ _ (by simp))
    · rename_i r p hprog
      split
      · rename_i hf
        intro _
        exact Or.inr ⟨hf, _, _, hprog, fun _ _ h => by cases h⟩
      · intro h; exact absurd h (emit_ne _ _ _ (by simp))
      · intro h; exact absurd h (emit_ne _ _ _ (by simp))
    · rename_i m xs p hprog
      split
      · rename_i hf
        intro _
        exact Or.inr ⟨hf, _, _, hprog, fun _ _ h => by cases h⟩
      · intro h; exact absurd h (emit_ne _ _ _ (by simp))
    · rename_i m p hprog
      split
      · rename_i hf
        intro _
        exact Or.inr ⟨hf, _, _, hprog, fun _ _ h => by cases h⟩
      · intro h; exact absurd h (emit_ne _ _ _ (by simp))
    · rename_i p hprog
      split
      · rename_i hf
        intro _
        exact Or.inr ⟨hf, _, _, hprog, fun _ _ h => by cases h⟩
      · intro h; exact absurd h (emit_ne _ _ _ (by simp))

/-! ### the serial order is the program order -/

theorem seqCall_idle (eng : Nat → Nat → Nat) (q : Seq) (t : Nat) (h : q.progs t = []) : seqCall eng q t = q := by
  unfold seqCall
  simp only [h, runOps]
  cases q with
  | mk progs ms log =>
    simp only [Seq.mk.injEq, and_true]
    funext i
    by_cases hi : i = t
    · subst hi; simpa using h.symm
    · simp [hi]

theorem seqRun_solo (eng : Nat → Nat → Nat) (order : List Nat) :
    ∀ (q : Seq), (∀ t, t ≠ 0 → q.progs t = []) →
      order.foldl (seqCall eng) q = (List.replicate (order.count 0) 0).foldl (seqCall eng) q := by
  induction order with
  | nil => intro q _; rfl
  | cons u order ih =>
    intro q hq
    by_cases hu : u = 0
    · subst hu
      simp only [List.foldl_cons, List.count_cons_self, List.replicate_succ]
      apply ih
      intro t ht
      simp [seqCall, ht, hq t ht]
    · have hne : (u == 0) = false := by simpa using hu
      simp only [List.foldl_cons, List.count_cons, hne]
      rw [seqCall_idle eng q u (hq u hu)]
      simpa using ih q hq

/-- (3) what the thread computes under the locks is what the unlocked sequential semantics computes,
calls in program order -/
theorem solo_serial {c : Cfg} {L : Nat} (hwf : WF c L) (eng : Nat → Nat → Nat)
    (prog : List Op) (hp : ProgOK (solo prog)) (ms : Nat) (σ : List Nat)
    (hu : (runSched c eng (init c (solo prog) ms) σ).ung = false)
    (hidle : ∀ t, t ≠ 0 → (runSched c eng (init c (solo prog) ms) σ).th t = ({} : Thread)) :
    let s := runSched c eng (init c (solo prog) ms) σ
    ∃ k : Nat,
      let q := seqRun eng (solo prog) ms (List.replicate k 0)
      ((s.th 0).frames = [] → q.progs 0 = (s.th 0).prog) ∧
      ((s.th 0).frames = [] ∨ (s.th 0).pend ≠ [] ∨ (s.th 0).exiting = true →
        q.ms = s.mstate ∧ q.log = cbLog s.trace) := by
  intro s
  obtain ⟨order, hpr, hm⟩ := serializable c L hwf eng (solo prog) hp ms σ hu
  have heq : seqRun eng (solo prog) ms order = seqRun eng (solo prog) ms (List.replicate (order.count 0) 0) := by
    unfold seqRun
    apply seqRun_solo
    intro t ht
    simp [solo, ht]
  refine ⟨order.count 0, ?_, ?_⟩
  · intro hf
    rw [← heq]
    exact hpr 0 hf
  · intro h0
    rw [← heq]
    apply hm
    intro t
    by_cases ht : t = 0
    · subst ht; exact h0
    · left
      show ((runSched c eng (init c (solo prog) ms) σ).th t).frames = []
      rw [hidle t ht]

/-- the default configuration (`machine_context=None` → one `PicklableLock`) with model contexts —
initial ones and those handed to `add_model` by the program — that are not locks: every lock is
listed once -/
theorem locksOnce_default (c : Cfg) (prog : List Op) (hb : c.base = [])
    (hx : ∀ p ∈ c.extra, ∀ l, Ctx.lock l ∉ p.2)
    (hr : ∀ m xs, Op.reg m xs ∈ prog → ∀ l, Ctx.lock l ∉ xs) :
    LocksOnce c prog := by
  have hm : c.mbase = [Ctx.lock 0] := by simp [Cfg.mbase, hb]
  have key : ∀ (xs : List Ctx) (l : Nat), xs.count (Ctx.lock l) = 0 →
      (c.mctx ++ xs).count (Ctx.lock l) ≤ 1 := by
    intro xs l h0
    unfold Cfg.mctx
    rw [hm]
    simp only [List.cons_append, List.nil_append, List.count_cons, List.count_append, h0]
    simp
    split <;> omega
  refine ⟨fun m l => ?_, fun m xs h l => key xs l (List.count_eq_zero.mpr (hr m xs h l))⟩
  unfold Cfg.cmap
  apply key
  rcases alookupD_cases m c.extra with h0 | ⟨p, hp, h0⟩
  · simp [h0]
  · rw [h0]; exact List.count_eq_zero.mpr (hx p hp l)

end C09P
end Locked
end TM
