/-
  Proofs/C03Effect.lean — P4 (effect) for globally declared transitions: what `_resolve_transition` exits and
  enters is exactly what the statement of C03 prescribes (`C03.expectedExits`, `C03.expectedEnters`):
  the active states strictly below the deepest active proper ancestor of the destination — only the destination's
  branch when that ancestor has several active children — and then the rest of the destination path together with
  the initial descendants of the destination.
-/
import Proofs.C02Change
import Proofs.C02Enter

namespace TM
open C02 C03

theorem C03_exits_global (cfg : NCfg) (hwf : cfg.states.WF = true)
    (conf : Forest) (hc : ConfOK cfg.states conf = true) (hlen : conf.len = 1)
    (dest : SPath) (r : Resolved) (h : resolveTransition cfg.root cfg.root conf dest = .ok r)
    (live : List SPath) (hnd : live.Nodup) (hl : ∀ p, p ∈ live ↔ p ∈ conf.nodes) :
    sameSet (pathsOf r.exits) (expectedExits live dest) = true := by
  sorry

theorem C03_enters_global (cfg : NCfg) (hwf : cfg.states.WF = true)
    (conf : Forest) (hc : ConfOK cfg.states conf = true) (hlen : conf.len = 1)
    (dest : SPath) (r : Resolved) (h : resolveTransition cfg.root cfg.root conf dest = .ok r)
    (live : List SPath) (hnd : live.Nodup) (hl : ∀ p, p ∈ live ↔ p ∈ conf.nodes) :
    sameSet (pathsOf r.enters) (expectedEnters cfg live dest) = true := by
  sorry

end TM
