/-
  Proofs/C03Effect.lean — P4 (effect) for transitions declared in ANY scope (on the machine, or inside a state
  definition): what `_resolve_transition` exits and enters is exactly what the statement of C03 prescribes
  (`C03.expectedExits`, `C03.expectedEnters`) for the GLOBAL destination `sc.pre ++ dest`:
  the active states strictly below the deepest active proper ancestor of the destination — only the destination's
  branch when that ancestor has several active children — and then the rest of the destination path together with
  the initial descendants of the destination.
  (`C03_exits_scoped`, `C03_enters_scoped`; `C03_exits_global`, `C03_enters_global` are the instances
  `sc = cfg.root`.)  The destination of a transition declared inside a state is looked up in the sub-tree of that
  state (`conf.reduceGet sc.pre`), so the root of the change is `sc.pre ++ rt` with `rt` the active proper prefix
  of the relative destination; every prefix of `sc.pre` is active because the lookup of the scope succeeded.

  Helper lemmas live in the namespace `TM.Effect`:
    * `rt_dst`, `anchor_eq`     the root computed by the `while tmp_tree is not None` loop (`activePrefix`, re-rooted
                                when the destination is fully active) is `C03.anchor`
    * `scoped_act`              activity of the prefixes of `sc.pre ++ dest` from those of `dest` inside the scope's tree
    * `resolve_inv`             inversion of a successful `resolveTransition` in an arbitrary declaring scope,
                                stated with global paths (root `A = sc.pre ++ rt`)
    * `liveKids_length`, `exits_sameSet`   the exit side
    * `relInit`, `Full`, `enterInitial_nodes`, `enterDest_nodes`, `initBelow_append`   the tree built by
                                `_enter_nested` is the destination path followed by `C03.initBelow`
-/
import Proofs.C02Change
import Proofs.C02Enter

namespace TM
open C02 C03

namespace Effect
open Change Enter

theorem sameSet_of_nodup {a b : List SPath} (ha : a.Nodup) (hb : b.Nodup) (h : ∀ p, p ∈ a ↔ p ∈ b) :
    sameSet a b = true := by
  have hp : a.Perm b := (List.perm_ext_iff_of_nodup ha hb).mpr h
  simp only [sameSet, Bool.and_eq_true, List.all_eq_true, List.contains_eq_mem, decide_eq_true_eq, beq_iff_eq]
  exact ⟨⟨fun p hp' => (h p).mp hp', fun p hp' => (h p).mpr hp'⟩, hp.length_eq⟩

theorem activePrefix_append (f : Forest) (dest : SPath) :
    (activePrefix f dest).1 ++ (activePrefix f dest).2 = dest := by
  induction dest generalizing f with
  | nil => rfl
  | cons k p ih =>
    simp only [activePrefix]
    cases hg : f.get? k with
    | none => rfl
    | some s => simp [ih s]

theorem activePrefix_active (f : Forest) (dest : SPath) (i : Nat) (hi : i ≤ dest.length) :
    (f.sub? (dest.take i)).isSome = true ↔ i ≤ (activePrefix f dest).1.length := by
  induction dest generalizing f i with
  | nil => simp at hi; subst hi; simp [Forest.sub?]
  | cons k p ih =>
    cases i with
    | zero => simp [Forest.sub?]
    | succ i =>
      simp only [List.take_succ_cons, Forest.sub?, activePrefix]
      cases hg : f.get? k with
      | none => simp
      | some s =>
        simp only [List.length_cons, Nat.add_le_add_iff_right]
        exact ih s i (by simpa using hi)

theorem filter_range_le (n m : Nat) (g : Nat → Bool) (hm : m < n) (hg : ∀ i, i < n → (g i = true ↔ i ≤ m)) :
    (List.range n).filter g = List.range (m + 1) := by
  induction n with
  | zero => omega
  | succ n ih =>
    rw [List.range_succ, List.filter_append]
    by_cases hmn : m = n
    · subst hmn
      have h1 : (List.range m).filter g = List.range m := by
        rw [List.filter_eq_self]
        intro a ha
        exact (hg a (by simp at ha; omega)).mpr (by simp at ha; omega)
      have h2 : g m = true := (hg m (by omega)).mpr (Nat.le_refl _)
      rw [h1, List.range_succ]
      simp [h2]
    · have h1 := ih (by omega) (fun i hi => hg i (by omega))
      have h2 : g n = false := by
        cases hgn : g n with
        | false => rfl
        | true => have := (hg n (by omega)).mp hgn; omega
      rw [h1]
      simp [h2]


/-- the root and the remaining destination computed by `_resolve_transition` -/
theorem rt_dst (conf : Forest) (dest : SPath) (hd : dest ≠ []) (rt dst : SPath)
    (hrt : rt = if (activePrefix conf dest).2.isEmpty = true then (activePrefix conf dest).1.dropLast
      else (activePrefix conf dest).1)
    (hdst : dst = if (activePrefix conf dest).2.isEmpty = true then
      (activePrefix conf dest).1.drop ((activePrefix conf dest).1.length - 1) else (activePrefix conf dest).2) :
    rt ++ dst = dest ∧ rt.length < dest.length ∧
      ∀ i, i < dest.length → ((conf.sub? (dest.take i)).isSome = true ↔ i ≤ rt.length) := by
  have happ := activePrefix_append conf dest
  have hact := activePrefix_active conf dest
  have hlen : (activePrefix conf dest).1.length + (activePrefix conf dest).2.length = dest.length := by
    rw [← List.length_append, happ]
  have hdl : 0 < dest.length := List.length_pos_iff.mpr hd
  by_cases he : (activePrefix conf dest).2.isEmpty = true
  · rw [if_pos he] at hrt hdst
    have h2 : (activePrefix conf dest).2 = [] := by simpa using he
    rw [h2, List.append_nil] at happ
    rw [h2] at hlen
    simp only [List.length_nil, Nat.add_zero] at hlen
    subst hrt hdst
    refine ⟨?_, ?_, ?_⟩
    · rw [List.dropLast_eq_take, List.take_append_drop, happ]
    · simp only [List.length_dropLast]; omega
    · intro i hi
      rw [hact i (by omega)]
      simp only [List.length_dropLast]; omega
  · rw [if_neg he] at hrt hdst
    have h2 : (activePrefix conf dest).2 ≠ [] := by simpa using he
    have : 0 < (activePrefix conf dest).2.length := List.length_pos_iff.mpr h2
    subst hrt hdst
    exact ⟨happ, by omega, fun i hi => hact i (by omega)⟩

theorem sub?_isSome_iff {conf : Forest} (hcw : conf.WF = true) {live : List SPath}
    (hl : ∀ p, p ∈ live ↔ p ∈ conf.nodes) (p : SPath) :
    (p.isEmpty || live.contains p) = (conf.sub? p).isSome := by
  cases p with
  | nil => simp [Forest.sub?]
  | cons x p =>
    rw [Bool.eq_iff_iff]
    simp only [List.isEmpty_cons, Bool.false_or, List.contains_eq_mem, decide_eq_true_eq, hl,
      Forest.mem_nodes_iff hcw]
    simp

theorem anchor_eq {conf : Forest} (hcw : conf.WF = true) {live : List SPath}
    (hl : ∀ p, p ∈ live ↔ p ∈ conf.nodes) {dest rt dst : SPath} (hd : rt ++ dst = dest)
    (hlt : rt.length < dest.length)
    (hact : ∀ i, i < dest.length → ((conf.sub? (dest.take i)).isSome = true ↔ i ≤ rt.length)) :
    anchor live dest = rt := by
  unfold anchor
  rw [List.filter_map]
  have : (List.range dest.length).filter ((fun p => p.isEmpty || live.contains p) ∘ fun i => dest.take i)
      = List.range (rt.length + 1) := by
    apply filter_range_le _ _ _ hlt
    intro i hi
    simp only [Function.comp_apply, sub?_isSome_iff hcw hl]
    exact hact i hi
  rw [this, List.range_succ, List.map_append]
  simp only [List.map_cons, List.map_nil, List.getLast?_concat, Option.getD_some]
  rw [← hd]; simp



theorem walk_eq_walkTo (sc : Scope) (p : SPath) : sc.walk p = sc.walkTo p := by
  induction p generalizing sc with
  | nil => rfl
  | cons k p ih =>
    simp only [Scope.walk, Scope.walkTo]
    cases sc.enter k with
    | none => rfl
    | some sc' => exact ih sc'

theorem enterRootEq : EnterRootEq := by
  intro sc rt dst
  rw [enterRoot_eq, walk_eq_walkTo]
  cases sc.walkTo rt <;> rfl

/-- activity of the prefixes of the global destination `pre ++ dest`, from the activity of the prefixes of the
scope-relative destination inside the sub-tree of the declaring scope -/
theorem scoped_act {conf scT : Forest} {pre dest rt : SPath} (hsT : conf.sub? pre = some scT)
    (hact : ∀ i, i < dest.length → ((scT.sub? (dest.take i)).isSome = true ↔ i ≤ rt.length)) :
    ∀ i, i < (pre ++ dest).length →
      ((conf.sub? ((pre ++ dest).take i)).isSome = true ↔ i ≤ (pre ++ rt).length) := by
  intro i hi
  simp only [List.length_append] at hi ⊢
  by_cases hip : i ≤ pre.length
  · have h1 : (pre ++ dest).take i = pre.take i := List.take_append_of_le_length hip
    have h2 : (conf.sub? (pre.take i)).isSome = true := by
      have := hsT
      rw [← List.take_append_drop i pre, Forest.sub?_append] at this
      cases h : conf.sub? (pre.take i) with
      | none => simp [h] at this
      | some _ => rfl
    rw [h1, h2]
    simp only [true_iff]; omega
  · have h1 : (pre ++ dest).take i = pre ++ dest.take (i - pre.length) := by
      rw [List.take_append, List.take_of_length_le (by omega)]
    rw [h1, Forest.sub?_append, hsT, Option.bind_some, hact _ (by omega)]
    omega

/-- inversion of a successful `_resolve_transition` of a transition declared in the scope `sc` (the machine or a
state definition): everything is stated with GLOBAL paths, `A` is the (global) root `scope + root` and
`sc.pre ++ dest` the global destination -/
theorem resolve_inv (cfg : NCfg) (hwf : cfg.states.WF = true) (sc : Scope) (hsc : cfg.root.walkTo sc.pre = some sc)
    (conf : Forest) (hc : ConfOK cfg.states conf = true) (hlen : conf.len = 1)
    (dest : SPath) (r : Resolved) (h : resolveTransition cfg.root sc conf dest = .ok r) :
    ∃ (A : SPath) (d0 : Nat) (dr : SPath) (st : Forest) (order : List SPath) (sc' : Scope) (T : Forest),
      A ++ d0 :: dr = sc.pre ++ dest ∧ A.length < (sc.pre ++ dest).length ∧
      (∀ i, i < (sc.pre ++ dest).length →
        ((conf.sub? ((sc.pre ++ dest).take i)).isSome = true ↔ i ≤ A.length)) ∧
      conf.sub? A = some st ∧
      order.Nodup ∧ (∀ q, q ∈ order ↔ q ∈ st.nodes ∧ (st.len > 1 → q.head? = some d0)) ∧
      pathsOf r.exits = order.map (A ++ ·) ∧
      cfg.root.walkTo A = some sc' ∧ enterDest sc' (d0 :: dr) = .ok (T, r.enters) := by
  have _ := hlen
  have hdest : dest ≠ [] := by
    rintro rfl
    simp [resolveTransition, getState_nil] at h
  simp only [resolveTransition] at h
  split at h
  · cases h
  · split at h
    · cases h
    · cases h
    rename_i sT hsT
    have hsT' : conf.sub? sc.pre = some sT := Forest.reduceGet_some.mp hsT
    generalize hdstE : (if (activePrefix sT dest).2.isEmpty = true then
        (activePrefix sT dest).1.drop ((activePrefix sT dest).1.length - 1) else (activePrefix sT dest).2) = dst
        at h
    generalize hrtE : (if (activePrefix sT dest).2.isEmpty = true then
        (activePrefix sT dest).1.dropLast else (activePrefix sT dest).1) = rt at h
    obtain ⟨happ, hlt, hact⟩ := rt_dst sT dest hdest rt dst hrtE.symm hdstE.symm
    have hdst : dst ≠ [] := by
      rintro rfl
      rw [List.append_nil] at happ
      rw [happ] at hlt; omega
    obtain ⟨d0, dr, rfl⟩ := List.exists_cons_of_ne_nil hdst
    simp only [List.headD_cons] at h
    split at h
    · cases h
    · cases h
    · rename_i st hred
      split at h
      · cases h
      · rename_i order hord
        obtain ⟨exits, hex, h⟩ := bind_ok h
        obtain ⟨⟨T, ents⟩, hen, h⟩ := bind_ok h
        simp only [PR.ok.injEq] at h
        subst h
        dsimp only
        rw [enterRootEq] at hen
        cases hw : sc.walkTo rt with
        | none => simp [hw] at hen
        | some sc' =>
        simp only [hw] at hen
        have hA : cfg.root.walkTo (sc.pre ++ rt) = some sc' := by
          rw [walkTo_append, hsc]; exact hw
        have hK : kidsAt cfg.states (sc.pre ++ rt) = some sc'.states := walkTo_kidsAt hA
        have hKr : kidsAt sc.states rt = some sc'.states := walkTo_kidsAt hw
        have hKwf : sc'.states.WF = true := WF_kidsAt hwf hK
        obtain ⟨v, rfl, hTok, -⟩ := enterDest_spec sc' hKwf d0 dr T ents hen
        have hs : conf.sub? (sc.pre ++ rt) = some st := Forest.reduceGet_some.mp hred
        obtain ⟨hst, hshape⟩ := ConfOK_sub hc hs hK
        have hcw : conf.WF = true := ConfOK_WF hc
        have hstw : st.WF = true := Forest.WF_sub hcw hs
        have hd0K : d0 ∈ sc'.states.names := by
          rw [ConfOK_cons_iff] at hTok
          obtain ⟨_, ⟨d, kids, hf, _⟩, _⟩ := hTok
          exact find_mem_names hf
        have hAne : st.len > 1 → sc.pre ++ rt ≠ [] := by
          intro hn e
          rw [e] at hs
          simp only [Forest.sub?, Option.some.injEq] at hs
          subst hs; omega
        have hES : (if st.len > 1 then Forest.cons d0 ((st.get? d0).getD .nil) .nil else st).WF = true ∧
            ∀ q, q ∈ (if st.len > 1 then Forest.cons d0 ((st.get? d0).getD .nil) .nil else st).nodes ↔
              q ∈ st.nodes ∧ (st.len > 1 → q.head? = some d0) := by
          by_cases hn : st.len > 1
          · have hd0 : d0 ∈ st.keys := by
              rcases hshape (hAne hn) with h1 | h1
              · omega
              · exact h1 d0 hd0K
            obtain ⟨s0, hg⟩ := Option.isSome_iff_exists.mp (Forest.get?_isSome.mpr hd0)
            simp only [hn, if_true, hg, Option.getD_some]
            refine ⟨by simp [Forest.WF, Forest.keys, Forest.WF_get? hstw hg], fun q => ?_⟩
            rw [mem_nodes_single, ← mem_nodes_head hstw hg]
            simp
          · simp only [hn, if_false]
            exact ⟨hstw, fun q => by simp⟩
        generalize (if st.len > 1 then Forest.cons d0 ((st.get? d0).getD .nil) .nil else st) = ES at hord hES
        have hperm := resolveOrder_perm hord
        have hordnd : order.Nodup := hperm.nodup_iff.mpr (Forest.nodes_nodup hES.1)
        have hmem : ∀ q, q ∈ order ↔ q ∈ st.nodes ∧ (st.len > 1 → q.head? = some d0) :=
          fun q => hperm.mem_iff.trans (hES.2 q)
        have hX : pathsOf exits = order.map ((sc.pre ++ rt) ++ ·) := by
          refine exitStates_paths (fun p hp => ?_) hex
          have hps := ((hmem p).mp hp).1
          have hpne : p ≠ [] := fun e => Forest.nil_not_mem_nodes st (e ▸ hps)
          rw [walk_append hKr hpne]
          exact ConfOK_walk hst hpne ((Forest.mem_nodes_iff hstw).mp hps).2
        refine ⟨sc.pre ++ rt, d0, dr, st, order, sc', _, ?_, ?_, scoped_act hsT' hact, hs, hordnd, hmem, hX, hA, hen⟩
        · rw [List.append_assoc, happ]
        · simp only [List.length_append]; omega



theorem isPrefix_iff {p q : SPath} : isPrefix p q = true ↔ ∃ t, q = p ++ t := by
  simp only [isPrefix, beq_iff_eq]
  constructor
  · intro h
    exact ⟨q.drop p.length, by conv => lhs; rw [← List.take_append_drop p.length q, h]⟩
  · rintro ⟨t, rfl⟩; simp

theorem keys_nodup {f : Forest} (h : f.WF = true) : f.keys.Nodup := by
  induction f with
  | nil => simp [Forest.keys]
  | cons k s r _ ihr =>
    obtain ⟨hk, _, hr⟩ := WF_cons.mp h
    simp only [Forest.keys, List.nodup_cons]
    exact ⟨hk, ihr hr⟩

theorem single_mem_nodes {f : Forest} {k : Nat} : [k] ∈ f.nodes ↔ k ∈ f.keys := by
  constructor
  · exact Forest.cons_mem_nodes_keys
  · intro h
    apply Forest.mem_nodes_of_sub? (by simp)
    have := Forest.get?_isSome.mpr h
    obtain ⟨s, hs⟩ := Option.isSome_iff_exists.mp this
    simp [Forest.sub?, hs]

/-- the live children of an active position correspond to the keys of the sub-dictionary there -/
theorem liveKids_length {conf st : Forest} (hcw : conf.WF = true) {live : List SPath} (hnd : live.Nodup)
    (hl : ∀ p, p ∈ live ↔ p ∈ conf.nodes) {rt : SPath} (hs : conf.sub? rt = some st) :
    (live.filter fun p => p.length == rt.length + 1 && isPrefix rt p).length = st.len := by
  have hstw : st.WF = true := Forest.WF_sub hcw hs
  rw [Forest.len_eq_keys_length]
  have h2 : (st.keys.map fun k => rt ++ [k]).Nodup :=
    nodup_map_inj (fun a b e => by simpa using e) (keys_nodup hstw)
  have hp : (live.filter fun p => p.length == rt.length + 1 && isPrefix rt p).Perm
      (st.keys.map fun k => rt ++ [k]) := by
    rw [List.perm_ext_iff_of_nodup (hnd.filter _) h2]
    intro p
    simp only [List.mem_filter, Bool.and_eq_true, beq_iff_eq, isPrefix_iff, List.mem_map, hl]
    constructor
    · rintro ⟨hp, hlen, t, rfl⟩
      have ht : t.length = 1 := by simp at hlen; omega
      match t, ht with
      | [k], _ =>
        exact ⟨k, single_mem_nodes.mp ((mem_nodes_below hcw hs (by simp)).mp hp), rfl⟩
    · rintro ⟨k, hk, rfl⟩
      exact ⟨(mem_nodes_below hcw hs (by simp)).mpr (single_mem_nodes.mpr hk), by simp, [k], rfl⟩
  rw [hp.length_eq, List.length_map]

theorem exits_sameSet {conf st : Forest} (hcw : conf.WF = true) {live : List SPath} (hnd : live.Nodup)
    (hl : ∀ p, p ∈ live ↔ p ∈ conf.nodes) {rt dr dest : SPath} {d0 : Nat} (hd : rt ++ d0 :: dr = dest)
    (ha : anchor live dest = rt) (hs : conf.sub? rt = some st) {order : List SPath} (hord : order.Nodup)
    (hmem : ∀ q, q ∈ order ↔ q ∈ st.nodes ∧ (st.len > 1 → q.head? = some d0)) :
    sameSet (order.map (rt ++ ·)) (expectedExits live dest) = true := by
  have hne : ∀ {q}, q ∈ st.nodes → q ≠ [] := fun hq e => Forest.nil_not_mem_nodes st (e ▸ hq)
  have h1 : (order.map (rt ++ ·)).Nodup := nodup_map_inj (fun a b e => by simpa using e) hord
  have htake : dest.take (rt.length + 1) = rt ++ [d0] := by
    rw [← hd, List.take_append]; simp [List.take_of_length_le]
  unfold expectedExits
  simp only [ha, liveKids_length hcw hnd hl hs, htake]
  by_cases hn : st.len > 1
  · simp only [hn, if_true]
    apply sameSet_of_nodup h1 (hnd.filter _)
    intro p
    simp only [List.mem_map, hmem, List.mem_filter, isPrefix_iff, hl]
    constructor
    · rintro ⟨q, ⟨hq, hh⟩, rfl⟩
      refine ⟨(mem_nodes_below hcw hs (hne hq)).mpr hq, ?_⟩
      have := hh hn
      cases q with
      | nil => simp at this
      | cons x t =>
        simp only [List.head?_cons, Option.some.injEq] at this
        subst this
        exact ⟨t, by simp⟩
    · rintro ⟨hp, t, rfl⟩
      rw [List.append_assoc] at hp
      exact ⟨[d0] ++ t, ⟨(mem_nodes_below hcw hs (by simp)).mp hp, fun _ => by simp⟩, by simp⟩
  · simp only [hn, if_false]
    apply sameSet_of_nodup h1 (hnd.filter _)
    intro p
    simp only [List.mem_map, hmem, List.mem_filter, properPrefix_iff, hl]
    constructor
    · rintro ⟨q, ⟨hq, _⟩, rfl⟩
      exact ⟨(mem_nodes_below hcw hs (hne hq)).mpr hq, q, hne hq, rfl⟩
    · rintro ⟨hp, t, ht, rfl⟩
      exact ⟨t, ⟨(mem_nodes_below hcw hs ht).mp hp, fun h => absurd h hn⟩, rfl⟩



/-- relative paths of the initial descendants below a `states` dictionary `S` entered through the names `I` -/
def relInit (I : List Nat) (S : SForest) : List SPath :=
  I.flatMap fun n => [n] :: ((alookup n (initPaths S)).getD []).map (n :: ·)

theorem initPaths_cons (d : SDef) (kids rest : SForest) :
    initPaths (.cons d kids rest) = (d.name, relInit d.initial kids) :: initPaths rest := rfl

theorem alookup_initPaths {S : SForest} {n : Nat} {d : SDef} {kids : SForest} (h : S.find n = some (d, kids)) :
    alookup n (initPaths S) = some (relInit d.initial kids) := by
  induction S with
  | nil => simp [SForest.find] at h
  | cons d' kids' rest _ ihr =>
    rw [initPaths_cons]
    simp only [SForest.find] at h
    simp only [alookup]
    split at h
    · rename_i hk
      simp only [Option.some.injEq, Prod.mk.injEq] at h
      obtain ⟨rfl, rfl⟩ := h
      simp [hk]
    · rename_i hk
      simp only [hk, if_false]
      exact ihr h

/-- a sub-configuration in which every entered state has exactly its `initial` children -/
def Full : SForest → Forest → Prop
  | _, .nil => True
  | K, .cons k s r => (∃ d kids, K.find k = some (d, kids) ∧ s.keys = d.initial ∧ Full kids s) ∧ Full K r

theorem Full_of {t : Forest} {S : SForest} (hP : PEnts S t) (hc : ConfOK S t = true) : Full S t := by
  induction t generalizing S with
  | nil => trivial
  | cons k s r ihs ihr =>
    obtain ⟨⟨d, kids, hf, hsd⟩, hr⟩ := hP
    rw [ConfOK_cons_iff] at hc
    obtain ⟨_, ⟨d', kids', hf', hm⟩, hcr⟩ := hc
    rw [hf] at hf'
    simp only [Option.some.injEq, Prod.mk.injEq] at hf'
    obtain ⟨rfl, rfl⟩ := hf'
    refine ⟨⟨d, kids, hf, ?_⟩, ihr hr hcr⟩
    rcases hsd with rfl | ⟨hk, hP'⟩
    · simp only [Forest.isEmpty, if_true] at hm
      exact ⟨by simpa [Forest.keys] using hm.symm, trivial⟩
    · cases s with
      | nil => 
        simp only [Forest.isEmpty, if_true] at hm
        exact ⟨by simpa [Forest.keys] using hm.symm, trivial⟩
      | cons k' s' r' =>
        simp only [Forest.isEmpty, Bool.false_eq_true, if_false] at hm
        exact ⟨hk, ihs hP' hm.2⟩

theorem Full_nodes {t : Forest} {S : SForest} (h : Full S t) : t.nodes = relInit t.keys S := by
  induction t generalizing S with
  | nil => rfl
  | cons k s r ihs ihr =>
    obtain ⟨⟨d, kids, hf, hk, hs⟩, hr⟩ := h
    simp only [Forest.nodes, Forest.keys, relInit, List.flatMap_cons, alookup_initPaths hf, Option.getD_some]
    rw [ihs hs, hk, ihr hr]
    rfl

theorem enterInitial_nodes (sc : Scope) (hsc : ScopeOK sc) (T : Forest) (ents : List Found)
    (h : enterInitial sc = .ok (T, ents)) : T.nodes = relInit sc.initial sc.states := by
  obtain ⟨hkeys, hok⟩ := enterInitial_spec sc hsc T ents h
  unfold enterInitial at h
  split at h
  · next hI =>
    simp at h
    obtain ⟨rfl, rfl⟩ := h
    simp [hI, relInit, Forest.nodes]
  · next hne =>
    split at h
    · simp at h
    · next sts hl =>
      have hinit : LInv sc.pre sc.initial sc.states [([], sc.pre, sts)] .nil [] :=
        { wf := rfl
          pnode := Or.inl rfl
          posNodup := by simp
          posNil := by intro j hj; simp only [List.mem_singleton] at hj; subst hj; rfl
          pend := by
            intro q I K _ hs
            rw [sub?_nil] at hs
            split at hs
            · next hq => right; simp [hq]
            · simp at hs
          job := by
            intro j hj; simp only [List.mem_singleton] at hj; subst hj
            exact ⟨by simp, sc.initial, sc.states, rfl, hne, hl⟩
          jobPre := by intro j hj; simp only [List.mem_singleton] at hj; subst hj; exact Or.inl rfl
          nodup := by simp
          mem := by simp [Forest.nodes]
          pf := rfl
          reg := by simp }
      have hfin := initLoop_inv hsc _ _ _ _ T ents hinit h
      rcases hfin.pnode with hT | ⟨hk, hP⟩
      · subst hT
        rw [← hkeys]; rfl
      · rw [Full_nodes (Full_of hP hok.conf), hk]



/-- the non-empty prefixes of a path, shortest first -/
def chain : SPath → List SPath
  | [] => []
  | k :: d => [k] :: (chain d).map (k :: ·)

theorem mem_chain {d q : SPath} : q ∈ chain d ↔ ∃ j, 0 < j ∧ j ≤ d.length ∧ q = d.take j := by
  induction d generalizing q with
  | nil => simp [chain]; intro j hj; omega
  | cons k d ih =>
    simp only [chain, List.mem_cons, List.mem_map, ih]
    constructor
    · rintro (rfl | ⟨q', ⟨j, hj, hjl, rfl⟩, rfl⟩)
      · exact ⟨1, by omega, by simp, by simp⟩
      · exact ⟨j + 1, by omega, by simpa using hjl, by simp⟩
    · rintro ⟨j, hj, hjl, rfl⟩
      obtain ⟨j', rfl⟩ : ∃ j', j = j' + 1 := ⟨j - 1, by omega⟩
      cases j' with
      | zero => left; simp
      | succ j'' => right; exact ⟨d.take (j'' + 1), ⟨j'' + 1, by omega, by simpa using hjl, rfl⟩, by simp⟩

theorem initBelow_cons_cons (sf : SForest) (k x : Nat) (p : SPath) :
    initBelow sf (k :: x :: p) = match sf.find k with
      | some (_, kids) => (initBelow kids (x :: p)).map (k :: ·)
      | none => [] := by
  cases h : sf.find k with
  | none => simp [initBelow, h]
  | some e => simp [initBelow, h]

/-- the tree built by `_enter_nested` for the destination `k :: d`: the destination path, then the initial
descendants of the destination -/
theorem enterDest_nodes : ∀ (d : SPath) (sc : Scope) (k : Nat) (T : Forest) (ents : List Found),
    sc.states.WF = true → enterDest sc (k :: d) = .ok (T, ents) →
    T.nodes = chain (k :: d) ++ initBelow sc.states (k :: d) := by
  intro d
  induction d with
  | nil =>
    intro sc k T ents hwf h
    cases he : sc.enter k with
    | none => simp [enterDest, he] at h
    | some sc' =>
      obtain ⟨T', ents', h1, rfl, rfl⟩ := enterDest_bind_ok he h
      have hsc' := ScopeOK_enter hwf he
      obtain ⟨dk, kids, hf, rfl⟩ := Scope.enter_eq he
      simp only [enterDest] at h1
      have := enterInitial_nodes _ hsc' T' ents' h1
      simp only [Scope.initial] at this
      simp only [Forest.nodes, this, chain, initBelow, alookup_initPaths hf, Option.getD_some, List.map_nil,
        List.append_nil, List.cons_append, List.nil_append]
  | cons k' d' ih =>
    intro sc k T ents hwf h
    cases he : sc.enter k with
    | none => simp [enterDest, he] at h
    | some sc' =>
      obtain ⟨T', ents', h1, rfl, rfl⟩ := enterDest_bind_ok he h
      have hsc' := ScopeOK_enter hwf he
      have := ih sc' k' T' ents' hsc'.wf h1
      obtain ⟨dk, kids, hf, rfl⟩ := Scope.enter_eq he
      simp only at this
      rw [initBelow_cons_cons, hf]
      simp only [Forest.nodes, this, List.append_nil, List.map_append]
      rfl

theorem initBelow_append {sf K : SForest} {a p : SPath} (h : kidsAt sf a = some K) (hp : p ≠ []) :
    initBelow sf (a ++ p) = (initBelow K p).map (a ++ ·) := by
  induction a generalizing sf with
  | nil => simp only [kidsAt, Option.some.injEq] at h; subst h; simp
  | cons k a ih =>
    simp only [kidsAt] at h
    split at h
    · rename_i d kids hf
      have hne : a ++ p ≠ [] := by simp [hp]
      obtain ⟨x, t, ht⟩ := List.exists_cons_of_ne_nil hne
      rw [List.cons_append, ht, initBelow_cons_cons, hf, ← ht]
      simp only [ih h, List.map_map]
      rfl
    · cases h

theorem part1_nodup (dest : SPath) (m : Nat) :
    (((List.range (dest.length + 1)).map fun i => dest.take i).filter fun p => p.length > m).Nodup := by
  apply List.Pairwise.filter
  have h1 : (List.range (dest.length + 1)).Pairwise (fun a b => dest.take a ≠ dest.take b) := by
    refine List.Pairwise.imp_of_mem ?_ (List.pairwise_lt_range (n := dest.length + 1))
    intro a b ha hb hab e
    have := congrArg List.length e
    simp only [List.length_take, List.mem_range] at this ha hb
    omega
  exact List.Pairwise.map _ (fun a b h => h) h1

theorem mem_part1 {rt dst dest : SPath} (hd : rt ++ dst = dest) (p : SPath) :
    p ∈ (((List.range (dest.length + 1)).map fun i => dest.take i).filter fun p => p.length > rt.length) ↔
      ∃ q ∈ chain dst, p = rt ++ q := by
  simp only [List.mem_filter, List.mem_map, List.mem_range, decide_eq_true_eq, mem_chain]
  subst hd
  constructor
  · rintro ⟨⟨i, hi, rfl⟩, hlen⟩
    simp only [List.length_take, List.length_append] at hlen hi
    refine ⟨dst.take (i - rt.length), ⟨i - rt.length, by omega, by omega, rfl⟩, ?_⟩
    rw [List.take_append, List.take_of_length_le (by omega)]
  · rintro ⟨q, ⟨j, hj, hjl, rfl⟩, rfl⟩
    refine ⟨⟨rt.length + j, by simp; omega, ?_⟩, by simp; omega⟩
    rw [List.take_append, List.take_of_length_le (by omega)]
    simp

end Effect

/-- P4 (exit side) for a transition declared in ANY scope (the machine or a state definition): with the
scope-relative destination `dest`, the global destination is `sc.pre ++ dest` -/
theorem C03_exits_scoped (cfg : NCfg) (hwf : cfg.states.WF = true) (sc : Scope) (hsc : cfg.root.walkTo sc.pre = some sc)
    (conf : Forest) (hc : ConfOK cfg.states conf = true) (hlen : conf.len = 1)
    (dest : SPath) (r : Resolved) (h : resolveTransition cfg.root sc conf dest = .ok r)
    (live : List SPath) (hnd : live.Nodup) (hl : ∀ p, p ∈ live ↔ p ∈ conf.nodes) :
    sameSet (pathsOf r.exits) (expectedExits live (sc.pre ++ dest)) = true := by
  obtain ⟨A, d0, dr, st, order, sc', T, happ, hlt, hact, hs, hordnd, hmem, hX, _, _⟩ :=
    Effect.resolve_inv cfg hwf sc hsc conf hc hlen dest r h
  have hcw : conf.WF = true := Change.ConfOK_WF hc
  have ha := Effect.anchor_eq hcw hl happ hlt hact
  rw [hX]
  exact Effect.exits_sameSet hcw hnd hl happ ha hs hordnd hmem

/-- P4 (enter side) for a transition declared in ANY scope -/
theorem C03_enters_scoped (cfg : NCfg) (hwf : cfg.states.WF = true) (sc : Scope) (hsc : cfg.root.walkTo sc.pre = some sc)
    (conf : Forest) (hc : ConfOK cfg.states conf = true) (hlen : conf.len = 1)
    (dest : SPath) (r : Resolved) (h : resolveTransition cfg.root sc conf dest = .ok r)
    (live : List SPath) (hnd : live.Nodup) (hl : ∀ p, p ∈ live ↔ p ∈ conf.nodes) :
    sameSet (pathsOf r.enters) (expectedEnters cfg live (sc.pre ++ dest)) = true := by
  have _ := hnd
  obtain ⟨A, d0, dr, st, order, sc', T, happ, hlt, hact, _, _, _, _, hw, hen⟩ :=
    Effect.resolve_inv cfg hwf sc hsc conf hc hlen dest r h
  have hcw : conf.WF = true := Change.ConfOK_WF hc
  have ha := Effect.anchor_eq hcw hl happ hlt hact
  have hK : Change.kidsAt cfg.states A = some sc'.states := Change.walkTo_kidsAt hw
  have hKwf : sc'.states.WF = true := Change.WF_kidsAt hwf hK
  have hpre : sc'.pre = A := by
    have := Change.walkTo_pre hw
    simpa [NCfg.root] using this
  obtain ⟨v, _, hTok, hNnd, hNmem, -, -⟩ := enterDest_spec sc' hKwf d0 dr T r.enters hen
  have hnodes := Effect.enterDest_nodes dr sc' d0 T r.enters hKwf hen
  have hTnd : T.nodes.Nodup := Forest.nodes_nodup (Change.ConfOK_WF hTok)
  rw [hnodes] at hTnd hNmem
  rw [hpre] at hNmem
  obtain ⟨_, hnd2, hdisj⟩ := List.nodup_append.mp hTnd
  have hib : initBelow cfg.states (sc.pre ++ dest) = (initBelow sc'.states (d0 :: dr)).map (A ++ ·) := by
    rw [← happ]; exact Effect.initBelow_append hK (by simp)
  unfold expectedEnters
  simp only [ha, hib]
  apply Effect.sameSet_of_nodup hNnd
  · rw [List.nodup_append]
    refine ⟨Effect.part1_nodup (sc.pre ++ dest) A.length,
      Enter.nodup_map_inj (fun a b e => by simpa using e) hnd2, ?_⟩
    intro a ha' b hb e
    subst e
    obtain ⟨q, hq, rfl⟩ := (Effect.mem_part1 happ a).mp ha'
    simp only [List.mem_map] at hb
    obtain ⟨q', hq', e⟩ := hb
    have := List.append_cancel_left e
    subst this
    exact hdisj _ hq _ hq' rfl
  · intro p
    show p ∈ r.enters.map (·.path) ↔ _
    rw [hNmem, List.mem_append, Effect.mem_part1 happ]
    simp only [List.mem_append, List.mem_map]
    constructor
    · rintro ⟨q, hq | hq, rfl⟩
      · exact Or.inl ⟨q, hq, rfl⟩
      · exact Or.inr ⟨q, hq, rfl⟩
    · rintro (⟨q, hq, rfl⟩ | ⟨q, hq, rfl⟩)
      · exact ⟨q, Or.inl hq, rfl⟩
      · exact ⟨q, Or.inr hq, rfl⟩

/-- the machine's own scope: `sc = cfg.root`, `sc.pre = []` -/
theorem C03_exits_global (cfg : NCfg) (hwf : cfg.states.WF = true)
    (conf : Forest) (hc : ConfOK cfg.states conf = true) (hlen : conf.len = 1)
    (dest : SPath) (r : Resolved) (h : resolveTransition cfg.root cfg.root conf dest = .ok r)
    (live : List SPath) (hnd : live.Nodup) (hl : ∀ p, p ∈ live ↔ p ∈ conf.nodes) :
    sameSet (pathsOf r.exits) (expectedExits live dest) = true :=
  C03_exits_scoped cfg hwf cfg.root rfl conf hc hlen dest r h live hnd hl

theorem C03_enters_global (cfg : NCfg) (hwf : cfg.states.WF = true)
    (conf : Forest) (hc : ConfOK cfg.states conf = true) (hlen : conf.len = 1)
    (dest : SPath) (r : Resolved) (h : resolveTransition cfg.root cfg.root conf dest = .ok r)
    (live : List SPath) (hnd : live.Nodup) (hl : ∀ p, p ∈ live ↔ p ∈ conf.nodes) :
    sameSet (pathsOf r.enters) (expectedEnters cfg live dest) = true :=
  C03_enters_scoped cfg hwf cfg.root rfl conf hc hlen dest r h live hnd hl

end TM
