/-
  Proofs/C02Queued.lean — events issued "through the queue": on a queued machine a callback may trigger further
  events; such a call only appends to the queue (and logs `api`/`ret`), the event is processed after the current one.
  The frame theorem for histories on queued machines whose callbacks issue trigger commands.

  Organisation (helpers live in `TM.Queued`), mirroring `Proofs/C02Frame.lean`:
    * `CallExt` / `…_busy`: while the queue is busy, callbacks whose commands are triggers never fail, keep the
      configuration and the busy queue, and append `api`/`ret` marks only;
    * `Pres R P r v` / `…_presQ`: every end state of `r` is `R`-related to `v` and satisfies `P` (`Busy` below the drain
      loop, `Idle` from it upwards), and `r` fails with engine kinds only (so `raised` marks are covered by `mark`);
    * `Ref` / `…_ref`: a command interpreter with less fuel runs out of fuel or behaves the same (used for the history
      run with fuel 1, whose interpreter `nrunCmd … 0` is not `SubBusy`).
-/
import Proofs.C02Frame

namespace TM
open C02

/-- the re-entrant commands of the script are trigger calls only -/
def TriggersOnly (sc : Script) : Prop := ∀ c k, ∀ cmd ∈ (sc c k).cmds, ∃ m ev, cmd = Cmd.trigger m ev

/-- what a trigger call does while another event is being processed on a queued machine -/
def busyTrigger (ev : Nat) (s : NSt) : NSt :=
  { s with nextTag := s.nextTag + 1, queue := s.queue ++ [(ev, s.nextTag)],
           log := s.log ++ [.api 0 s.nextTag 0 ev, .ret s.nextTag true],
           glog := s.glog ++ [.api s.nextTag ev, .ret s.nextTag true] }

theorem napiTrigger_busy (cfg : NCfg) (sub : NSub) (sc : Script) (qmax ev : Nat) (s : NSt)
    (hq : cfg.queued = true) (hb : s.queue ≠ []) :
    napiTrigger sub sc cfg qmax ev s = .ok true (busyTrigger ev s) := by
  cases s with
  | mk conf queue counts nextTag result exited log glog =>
    cases queue with
    | nil => exact absurd rfl hb
    | cons a l =>
      simp [napiTrigger, nmachineProcess, hq, NSt.emit, NSt.emitG, busyTrigger]

/-- a command interpreter that behaves like a queued machine's while the queue is busy -/
def SubBusy (sub : NSub) : Prop := ∀ m ev s, s.queue ≠ [] → sub (.trigger m ev) s = .ok () (busyTrigger ev s)

theorem nrunCmd_busy (cfg : NCfg) (sc : Script) (qmax f : Nat) (hq : cfg.queued = true) :
    SubBusy (nrunCmd sc cfg qmax (f + 1)) := by
  intro m ev s hb
  simp only [nrunCmd, napiTrigger_busy cfg _ sc qmax ev s hq hb, Res.map]

/-- `api` / `ret` marks -/
def GEv.isCall : GEv → Bool
  | .api _ _ => true
  | .ret _ _ => true
  | _ => false

namespace Queued

/-- the ghost bookkeeping skips a call mark -/
theorem gstep_call (cfg : NCfg) (g : G) (e : GEv) (h : e.isCall = true) : gstep cfg g e = g := by
  unfold gstep
  split
  · rfl
  · cases e <;> first | rfl | cases h

end Queued

open Queued in
/-- the ghost bookkeeping ignores `api` / `ret` marks -/
theorem grun_filter_calls (cfg : NCfg) (g : G) (seg : List GEv) :
    grun cfg g seg = grun cfg g (seg.filter fun e => !e.isCall) := by
  induction seg generalizing g with
  | nil => rfl
  | cons e seg ih =>
    cases h : e.isCall with
    | true =>
      simp only [grun, List.foldl_cons, List.filter_cons, h, Bool.not_true, Bool.false_eq_true, if_false,
        gstep_call cfg g e h]
      exact ih g
    | false =>
      simp only [grun, List.foldl_cons, List.filter_cons, h, Bool.not_false, if_true]
      exact ih _

namespace Queued

/-- `s'` is `s` with call marks appended to the ghost log (other bookkeeping may differ), the queue is busy -/
structure CallExt (s s' : NSt) : Prop where
  conf : s'.conf = s.conf
  queue : s'.queue ≠ []
  glog : ∃ calls, s'.glog = s.glog ++ calls ∧ ∀ e ∈ calls, e.isCall = true

theorem CallExt.refl {s : NSt} (h : s.queue ≠ []) : CallExt s s :=
  ⟨rfl, h, [], by simp, by simp⟩

theorem CallExt.trans {a b c : NSt} (h1 : CallExt a b) (h2 : CallExt b c) : CallExt a c := by
  obtain ⟨l1, e1, c1⟩ := h1.glog
  obtain ⟨l2, e2, c2⟩ := h2.glog
  refine ⟨h2.conf.trans h1.conf, h2.queue, l1 ++ l2, by rw [e2, e1, List.append_assoc], ?_⟩
  intro e he
  rcases List.mem_append.1 he with h | h
  · exact c1 e h
  · exact c2 e h

theorem busyTrigger_ext (ev : Nat) (s : NSt) : CallExt s (busyTrigger ev s) :=
  ⟨rfl, by simp [busyTrigger], _, rfl, by simp [GEv.isCall]⟩

/-- what is left of a list of call marks when the call marks are filtered out -/
theorem filter_calls {calls : List GEv} (h : ∀ e ∈ calls, e.isCall = true) :
    (calls.filter fun e => !e.isCall) = [] := by
  rw [List.filter_eq_nil_iff]
  intro e he
  simp [h e he]

section Busy
variable {cfg : NCfg} {sub : NSub} {sc : Script}

theorem nrunCmds_busy (hsub : SubBusy sub) : ∀ (cmds : List Cmd), (∀ cmd ∈ cmds, ∃ m ev, cmd = Cmd.trigger m ev) →
    ∀ (s : NSt), s.queue ≠ [] → ∃ s', nrunCmds sub cmds s = .ok () s' ∧ CallExt s s'
  | [], _, s, hb => ⟨s, rfl, CallExt.refl hb⟩
  | c :: cs, hc, s, hb => by
    obtain ⟨m, ev, rfl⟩ := hc c (by simp)
    have h1 := busyTrigger_ext ev s
    obtain ⟨s', hs', h2⟩ := nrunCmds_busy hsub cs (fun cmd h => hc cmd (by simp [h])) (busyTrigger ev s) h1.queue
    exact ⟨s', by simp only [nrunCmds, hsub m ev s hb, Res.bind, hs'], h1.trans h2⟩

theorem ninvoke_busy (hR : NoRaise sc) (hT : TriggersOnly sc) (hsub : SubBusy sub) (slot : Slot) (x : Ctx) (c : Nat)
    (s : NSt) (hb : s.queue ≠ []) : ∃ b s', ninvoke sub sc cfg slot x c s = .ok b s' ∧ CallExt s s' := by
  obtain ⟨b, hout⟩ := hR c (s.count c)
  obtain ⟨s3, h3, e3⟩ := nrunCmds_busy hsub (sc c (s.count c)).cmds (hT c (s.count c))
    (({ s with counts := aset c (s.count c + 1) s.counts } : NSt).emit
      (.call slot c x.model x.tag (confMask cfg s.conf))) hb
  refine ⟨b, s3.emit (.done c (.ret b)), ?_, ?_⟩
  · simp only [ninvoke, h3, hout]
  · exact ⟨e3.conf, e3.queue, e3.glog⟩

theorem ncallbacks_busy (hR : NoRaise sc) (hT : TriggersOnly sc) (hsub : SubBusy sub) (slot : Slot) (x : Ctx) :
    ∀ (cbs : List Nat) (s : NSt), s.queue ≠ [] →
    ∃ s', ncallbacks sub sc cfg slot x cbs s = .ok () s' ∧ CallExt s s'
  | [], s, hb => ⟨s, rfl, CallExt.refl hb⟩
  | c :: cs, s, hb => by
    obtain ⟨b, s1, h1, e1⟩ := ninvoke_busy (cfg := cfg) hR hT hsub slot x c s hb
    obtain ⟨s2, h2, e2⟩ := ncallbacks_busy hR hT hsub slot x cs s1 e1.queue
    exact ⟨s2, by simp only [ncallbacks, h1, Res.bind, h2], e1.trans e2⟩

theorem nevalConds_busy (hR : NoRaise sc) (hT : TriggersOnly sc) (hsub : SubBusy sub) (x : Ctx) :
    ∀ (cs : List Cond) (s : NSt), s.queue ≠ [] →
    ∃ b s', nevalConds sub sc cfg x cs s = .ok b s' ∧ CallExt s s'
  | [], s, hb => ⟨true, s, rfl, CallExt.refl hb⟩
  | c :: cs, s, hb => by
    obtain ⟨b, s1, h1, e1⟩ := ninvoke_busy (cfg := cfg) hR hT hsub (if c.target then .condition else .unless) x c.cb s hb
    by_cases hbt : b = c.target
    · obtain ⟨b2, s2, h2, e2⟩ := nevalConds_busy hR hT hsub x cs s1 e1.queue
      exact ⟨b2, s2, by simp only [nevalConds, h1, Res.bind, hbt, if_true, h2], e1.trans e2⟩
    · exact ⟨false, s1, by simp only [nevalConds, h1, Res.bind, hbt, if_false], e1⟩

end Busy
end Queued

open Queued in
theorem exitAll_busy (cfg : NCfg) (sub : NSub) (sc : Script) (hR : NoRaise sc) (hT : TriggersOnly sc)
    (hsub : SubBusy sub) (x : Ctx) : ∀ (fs : List Found) (s : NSt), s.queue ≠ [] →
    ∃ s', exitAll sub sc cfg x fs s = .ok () s' ∧ s'.conf = s.conf ∧ s'.queue ≠ [] ∧
      ∃ seg, s'.glog = s.glog ++ seg ∧ (seg.filter fun e => !e.isCall) = (pathsOf fs).map GEv.exit
  | [], s, hb => ⟨s, rfl, rfl, hb, [], by simp, rfl⟩
  | f :: fs, s, hb => by
    obtain ⟨s1, h1, e1⟩ := ncallbacks_busy (cfg := cfg) hR hT hsub .onExit x f.d.onExit (s.emitG (.exit f.path)) hb
    obtain ⟨calls, hg, hc⟩ := e1.glog
    obtain ⟨s2, h2, c2, q2, seg, g2, f2⟩ := exitAll_busy cfg sub sc hR hT hsub x fs s1 e1.queue
    refine ⟨s2, by simp only [exitAll, h1, Res.bind, h2], c2.trans e1.conf, q2, [.exit f.path] ++ calls ++ seg, ?_, ?_⟩
    · rw [g2, hg]; simp [NSt.emitG]
    · rw [List.filter_append, List.filter_append, filter_calls hc, f2]
      simp [pathsOf, GEv.isCall]

open Queued in
theorem enterAll_busy (cfg : NCfg) (sub : NSub) (sc : Script) (hR : NoRaise sc) (hT : TriggersOnly sc)
    (hsub : SubBusy sub) (x : Ctx) : ∀ (fs : List Found) (s : NSt), s.queue ≠ [] →
    ∃ s', enterAll sub sc cfg x fs s = .ok () s' ∧ s'.conf = s.conf ∧ s'.queue ≠ [] ∧
      ∃ seg, s'.glog = s.glog ++ seg ∧ (seg.filter fun e => !e.isCall) = (pathsOf fs).map GEv.enter
  | [], s, hb => ⟨s, rfl, rfl, hb, [], by simp, rfl⟩
  | f :: fs, s, hb => by
    obtain ⟨s1, h1, e1⟩ := ncallbacks_busy (cfg := cfg) hR hT hsub .onEnter x f.d.onEnter (s.emitG (.enter f.path)) hb
    obtain ⟨calls, hg, hc⟩ := e1.glog
    obtain ⟨s2, h2, c2, q2, seg, g2, f2⟩ := enterAll_busy cfg sub sc hR hT hsub x fs s1 e1.queue
    refine ⟨s2, by simp only [enterAll, h1, Res.bind, h2], c2.trans e1.conf, q2, [.enter f.path] ++ calls ++ seg, ?_, ?_⟩
    · rw [g2, hg]; simp [NSt.emitG]
    · rw [List.filter_append, List.filter_append, filter_calls hc, f2]
      simp [pathsOf, GEv.isCall]


/-- closure conditions for queued machines: state changes happen while the queue is busy, from any command
interpreter that only appends to the queue.  In `execChange` the `exec` mark may be followed by call marks: the
`before` callbacks run between the mark and `_change_state`, and their trigger commands log `api`/`ret`. -/
structure ClosedQ (cfg : NCfg) (sc : Script) (R : View → View → Prop) : Prop where
  refl : ∀ v, R v v
  trans : ∀ {a b c}, R a b → R b c → R a c
  mark : ∀ (v : View) (e : GEv), e.isMark = true → (∀ t m, e = .fin t m → m = confMask cfg v.conf) →
    (hne : ∀ t x, e = .raised t x → x.isEngine = true) → R v ⟨v.conf, v.glog ++ [e]⟩
  execChange : ∀ (sub : NSub), SubBusy sub → ∀ (scope : Scope) (x : Ctx) (dest : SPath) (tr : TRef) (s s' : NSt)
    (calls : List GEv), s.queue ≠ [] → cfg.root.walkTo scope.pre = some scope → (∀ e ∈ calls, e.isCall = true) →
    (nchangeState sub sc cfg scope x dest { s with glog := s.glog ++ [.exec tr] ++ calls }).state? = some s' →
    R s.view s'.view

namespace Queued

/-- the queue holds the event that is being processed -/
def Busy (s : NSt) : Prop := s.queue ≠ []
/-- no event is being processed -/
def Idle (s : NSt) : Prop := s.queue = []

/-- every completed run of `r` ends in a state that satisfies `P` and whose view is `R`-related to `v`; `r` fails
with engine kinds only -/
structure Pres {α} (R : View → View → Prop) (P : NSt → Prop) (r : NR α) (v : View) : Prop where
  pres : ∀ s', r.state? = some s' → R v s'.view ∧ P s'
  errE : ∀ e s', r = .err e s' → e.isEngine = true

/-- the standing hypotheses -/
structure Hyp (cfg : NCfg) (sub : NSub) (sc : Script) (R : View → View → Prop) : Prop where
  hR : NoRaise sc
  hT : TriggersOnly sc
  hsub : SubBusy sub
  hcl : ClosedQ cfg sc R

section Frame
variable {cfg : NCfg} {sub : NSub} {sc : Script} {R : View → View → Prop} {P : NSt → Prop}

theorem Pres.ok {α} {v : View} {a : α} {s : NSt} (h : R v s.view) (hp : P s) : Pres R P (.ok a s : NR α) v :=
  ⟨by intro s' hs; simp only [Res.state?, Option.some.injEq] at hs; subst hs; exact ⟨h, hp⟩,
   by intro e s' h; cases h⟩
theorem Pres.err {α} {v : View} {e : Exc} {s : NSt} (h : R v s.view) (hp : P s) (he : e.isEngine = true) :
    Pres R P (.err e s : NR α) v :=
  ⟨by intro s' hs; simp only [Res.state?, Option.some.injEq] at hs; subst hs; exact ⟨h, hp⟩,
   by intro e' s' h'; cases h'; exact he⟩
theorem Pres.oof {α} {v : View} : Pres R P (.oof : NR α) v :=
  ⟨by intro s' hs; simp [Res.state?] at hs, by intro e s' h; cases h⟩

theorem Pres.weaken {α} (hcl : ClosedQ cfg sc R) {r : NR α} {v w : View} (f : R v w) (h : Pres R P r w) :
    Pres R P r v :=
  ⟨fun s' hs => ⟨hcl.trans f (h.pres s' hs).1, (h.pres s' hs).2⟩, h.errE⟩

theorem Pres.bind {α β} {r : NR α} {f : α → NSt → NR β} {v : View}
    (h1 : Pres R P r v) (h2 : ∀ a s1, r = .ok a s1 → R v s1.view → P s1 → Pres R P (f a s1) v) :
    Pres R P (r.bind f) v := by
  cases r with
  | ok a s1 => exact h2 a s1 rfl (h1.pres s1 rfl).1 (h1.pres s1 rfl).2
  | err e s1 => exact Pres.err (h1.pres s1 rfl).1 (h1.pres s1 rfl).2 (h1.errE e s1 rfl)
  | oof => exact Pres.oof

theorem Pres.map {α β} {r : NR α} {f : α → β} {v : View} (h1 : Pres R P r v) : Pres R P (r.map f) v := by
  cases r with
  | ok a s1 => exact Pres.ok (h1.pres s1 rfl).1 (h1.pres s1 rfl).2
  | err e s1 => exact Pres.err (h1.pres s1 rfl).1 (h1.pres s1 rfl).2 (h1.errE e s1 rfl)
  | oof => exact Pres.oof

/-- call marks are marks under which `R` is closed -/
theorem rel_calls (hcl : ClosedQ cfg sc R) : ∀ (calls : List GEv) (v : View), (∀ e ∈ calls, e.isCall = true) →
    R v ⟨v.conf, v.glog ++ calls⟩
  | [], v, _ => by simpa using hcl.refl v
  | e :: cs, v, hc => by
    have he : e.isCall = true := hc e (by simp)
    have h1 : R v ⟨v.conf, v.glog ++ [e]⟩ :=
      hcl.mark v e (by cases e <;> first | rfl | cases he) (by intro t m h; subst h; cases he)
        (by intro t x h; subst h; cases he)
    have h2 := rel_calls hcl cs ⟨v.conf, v.glog ++ [e]⟩ (fun e' h => hc e' (by simp [h]))
    simp only [List.append_assoc, List.singleton_append] at h2
    exact hcl.trans h1 h2

theorem CallExt.rel (hcl : ClosedQ cfg sc R) {s s' : NSt} (h : CallExt s s') : R s.view s'.view := by
  obtain ⟨calls, hg, hc⟩ := h.glog
  have := rel_calls hcl calls s.view hc
  simpa [NSt.view, hg, h.conf] using this

theorem ncallbacks_presQ (H : Hyp cfg sub sc R) (slot : Slot) (x : Ctx) (cbs : List Nat) (s : NSt) (hb : Busy s) :
    Pres R Busy (ncallbacks sub sc cfg slot x cbs s) s.view := by
  obtain ⟨s', h, e⟩ := ncallbacks_busy (cfg := cfg) H.hR H.hT H.hsub slot x cbs s hb
  rw [h]; exact Pres.ok (e.rel H.hcl) e.queue

theorem nevalConds_presQ (H : Hyp cfg sub sc R) (x : Ctx) (cs : List Cond) (s : NSt) (hb : Busy s) :
    Pres R Busy (nevalConds sub sc cfg x cs s) s.view := by
  obtain ⟨b, s', h, e⟩ := nevalConds_busy (cfg := cfg) H.hR H.hT H.hsub x cs s hb
  rw [h]; exact Pres.ok (e.rel H.hcl) e.queue

/-- a mark other than `fin` / `raised` -/
theorem markQ (hcl : ClosedQ cfg sc R) (s : NSt) (e : GEv) (hm : e.isMark = true)
    (hf : ∀ t m, e = .fin t m → m = confMask cfg s.conf) (hr : ∀ t x, e = .raised t x → x.isEngine = true) :
    R s.view (s.emitG e).view :=
  hcl.mark s.view e hm hf hr

/-- `nchangeState` while the queue is busy: the queue stays busy, failures are the engine's -/
theorem nchangeState_busy (H : Hyp cfg sub sc R) (scope : Scope) (x : Ctx) (dest : SPath) (s : NSt) (hb : Busy s) :
    (∀ s', (nchangeState sub sc cfg scope x dest s).state? = some s' → Busy s') ∧
    (∀ e s', nchangeState sub sc cfg scope x dest s = .err e s' → e.isEngine = true) := by
  unfold nchangeState
  split
  · rename_i e he
    refine ⟨?_, ?_⟩
    · intro s' h; simp only [Res.state?, Option.some.injEq] at h; subst h; exact hb
    · intro e' s' h; cases h; exact resolveTransition_errE _ _ _ _ e he
  · exact ⟨by intro s' h; simp [Res.state?] at h, by intro e s' h; cases h⟩
  · rename_i r hr
    obtain ⟨s1, h1, _, q1, _⟩ := exitAll_busy cfg sub sc H.hR H.hT H.hsub x r.exits
      { s with exited := s.exited ++ r.exitNames } hb
    obtain ⟨s2, h2, _, q2, _⟩ := enterAll_busy cfg sub sc H.hR H.hT H.hsub x r.enters { s1 with conf := r.tree } q1
    simp only [h1, Res.bind, h2]
    exact ⟨by intro s' h; simp only [Res.state?, Option.some.injEq] at h; subst h; exact q2,
      by intro e s' h; cases h⟩

/-- the state change (if any) after the `exec` mark and the `before` callbacks, from the state before the mark -/
theorem execStep_presQ (H : Hyp cfg sub sc R) (scope : Scope) (x : Ctx) (tr : TRef)
    (dest : Option SPath) (s4 : NSt) (l calls : List GEv) (hw : cfg.root.walkTo scope.pre = some scope)
    (hb : Busy s4) : s4.glog = l ++ [.exec tr] ++ calls → (∀ e ∈ calls, e.isCall = true) →
    Pres R Busy (match dest with
      | some d => nchangeState sub sc cfg scope x d s4
      | none => (.ok () s4 : NR Unit)) ⟨s4.conf, l⟩ := by
  intro hg hc
  cases dest with
  | none =>
    refine Pres.ok ?_ hb
    have h1 := H.hcl.mark ⟨s4.conf, l⟩ (.exec tr) rfl (by intro t m h; cases h) (by intro t x h; cases h)
    have h2 := rel_calls H.hcl calls ⟨s4.conf, l ++ [.exec tr]⟩ hc
    have := H.hcl.trans h1 h2
    simpa [NSt.view, hg] using this
  | some d =>
    have hs : ({ ({ s4 with glog := l } : NSt) with
        glog := ({ s4 with glog := l } : NSt).glog ++ [.exec tr] ++ calls } : NSt) = s4 := by
      cases s4; simp only at hg; subst hg; rfl
    have hq := nchangeState_busy H scope x d s4 hb
    refine ⟨fun s' h => ⟨?_, hq.1 s' h⟩, hq.2⟩
    exact H.hcl.execChange sub H.hsub scope x d tr { s4 with glog := l } s' calls hb hw hc (by rw [hs]; exact h)

theorem nfinalStage_presQ (H : Hyp cfg sub sc R) (scope : Scope) (x : Ctx) (dest : Option SPath) (conf0 : Forest)
    (s : NSt) (hb : Busy s) : Pres R Busy (nfinalStage sub sc cfg scope x dest conf0 s) s.view := by
  rcases nfinalStage_cases sub sc cfg scope x dest conf0 s with h1 | ⟨cbs, h1⟩ | ⟨e, he, h1⟩ | h1 <;> rw [h1]
  · exact Pres.ok (H.hcl.refl _) hb
  · exact ncallbacks_presQ H _ x cbs s hb
  · exact Pres.err (H.hcl.refl _) hb he
  · exact Pres.oof

theorem nexecute_presQ (H : Hyp cfg sub sc R) (scope : Scope) (x : Ctx) (tr : TRef) (t : NTrans)
    (s : NSt) (hw : cfg.root.walkTo scope.pre = some scope) (hb : Busy s) :
    Pres R Busy (nexecute sub sc cfg scope x tr t s) s.view := by
  have hcl := H.hcl
  unfold nexecute
  have hcand : R s.view (s.emitG (.cand tr)).view := markQ hcl s _ rfl (by intro t m h; cases h) (by intro t x h; cases h)
  refine Pres.bind (Pres.weaken hcl hcand (ncallbacks_presQ H _ x _ _ hb)) ?_
  intro _ s1 _ f1 b1
  refine Pres.weaken hcl f1 (Pres.bind (nevalConds_presQ H x _ s1 b1) ?_)
  intro ok s2 _ f2 b2
  refine Pres.weaken hcl f2 ?_
  cases ok with
  | false => exact Pres.ok (hcl.refl _) b2
  | true =>
    simp only [Bool.not_true, Bool.false_eq_true, if_false]
    refine Pres.bind (ncallbacks_presQ H _ x _ s2 b2) ?_
    intro _ s3 _ f3 b3
    refine Pres.weaken hcl f3 ?_
    have hexec : R s3.view (s3.emitG (.exec tr)).view := markQ hcl s3 _ rfl (by intro t m h; cases h) (by intro t x h; cases h)
    refine Pres.bind (Pres.weaken hcl hexec (ncallbacks_presQ H _ x _ _ b3)) ?_
    intro _ s4 h4 _ b4
    obtain ⟨s4', h4', e4⟩ := ncallbacks_busy (cfg := cfg) H.hR H.hT H.hsub .before x t.before (s3.emitG (.exec tr)) b3
    rw [h4'] at h4; cases h4
    obtain ⟨calls, hg, hc⟩ := e4.glog
    have hconf : s4.conf = s3.conf := e4.conf
    have hstep := execStep_presQ H scope x tr t.dest s4 s3.glog calls hw b4 hg hc
    rw [hconf] at hstep
    refine Pres.bind hstep ?_
    intro _ s5 _ f5 b5
    refine Pres.weaken hcl f5 (Pres.bind (nfinalStage_presQ H scope x _ _ s5 b5) ?_)
    intro _ s5 _ f5 b5
    refine Pres.weaken hcl f5 (Pres.bind (ncallbacks_presQ H _ x _ s5 b5) ?_)
    intro _ s6 _ f6 b6
    refine Pres.weaken hcl f6 (Pres.bind (ncallbacks_presQ H _ x _ s6 b6) ?_)
    intro _ s7 _ f7 b7
    exact Pres.ok f7 b7

theorem ntry_presQ (H : Hyp cfg sub sc R) (scope : Scope) (x : Ctx)
    (hw : cfg.root.walkTo scope.pre = some scope) : ∀ (cands : List (TRef × NTrans)) (s : NSt), Busy s →
    Pres R Busy (ntry sub sc cfg scope x cands s) s.view
  | [], s, hb => Pres.ok (H.hcl.refl _) hb
  | (tr, t) :: r, s, hb => by
    unfold ntry
    refine Pres.bind (nexecute_presQ H scope x tr t s hw hb) ?_
    intro b s1 _ f1 b1
    cases b with
    | true => exact Pres.ok (s := { s1 with result := some true }) f1 b1
    | false =>
      exact Pres.weaken H.hcl (v := s.view) (w := ({ s1 with result := some false } : NSt).view) f1
        (ntry_presQ H scope x hw r _ b1)

theorem nprocess_presQ (H : Hyp cfg sub sc R) (scope : Scope) (x : Ctx)
    (hw : cfg.root.walkTo scope.pre = some scope) (cands : List (TRef × NTrans)) (s : NSt) (hb : Busy s) :
    Pres R Busy (nprocess sub sc cfg scope x cands s) s.view := by
  unfold nprocess
  refine Pres.bind (ncallbacks_presQ H _ x _ s hb) ?_
  intro _ s1 _ f1 b1
  exact Pres.weaken H.hcl f1 (ntry_presQ H scope x hw cands s1 b1)

theorem tnLoop_presQ (H : Hyp cfg sub sc R) (scope : Scope) (x : Ctx) (ev : Nat)
    (ts : List NTrans) (hw : cfg.root.walkTo scope.pre = some scope) : ∀ (ps done : List SPath) (s : NSt), Busy s →
    Pres R Busy (tnLoop sub sc cfg scope x ev ts ps done s) s.view
  | [], _, s, hb => Pres.ok (H.hcl.refl _) hb
  | p :: ps, done, s, hb => by
    unfold tnLoop
    simp only []
    split
    · exact tnLoop_presQ H scope x ev ts hw ps done s hb
    · split
      · exact Pres.err (H.hcl.refl _) hb rfl
      · refine Pres.bind (nprocess_presQ H scope x hw _ s hb) ?_
        intro _ s1 _ f1 b1
        exact Pres.weaken H.hcl f1 (tnLoop_presQ H scope x ev ts hw ps _ s1 b1)

theorem triggerNested_presQ (H : Hyp cfg sub sc R) (scope : Scope) (x : Ctx) (ev : Nat)
    (ts : List NTrans) (hw : cfg.root.walkTo scope.pre = some scope) (s : NSt) (hb : Busy s) :
    Pres R Busy (triggerNested sub sc cfg scope x ev ts s) s.view := by
  unfold triggerNested
  split
  · rename_i e he
    rw [Forest.reduceGet_err _ _ e he]; exact Pres.err (H.hcl.refl _) hb rfl
  · exact Pres.err (H.hcl.refl _) hb rfl
  · split
    · exact Pres.oof
    · refine Pres.bind (tnLoop_presQ H scope x ev ts hw _ _ s hb) ?_
      intro _ s1 _ f1 b1
      split
      · exact Pres.ok f1 b1
      · exact Pres.ok (s := { s1 with result := some true }) f1 b1

theorem ten_presQ (H : Hyp cfg sub sc R) (x : Ctx) (ev : Nat) :
    ∀ (tree : Forest) (scope : Scope) (res : List (Nat × Bool)) (offered : Bool) (s : NSt),
    cfg.root.walkTo scope.pre = some scope → Busy s →
    Pres R Busy (ten sub sc cfg x ev scope tree res offered s) s.view := by
  intro tree
  induction tree with
  | nil => intro scope res offered s _ hb; unfold ten; exact Pres.ok (H.hcl.refl _) hb
  | cons key value rest ihv ihr =>
    intro scope res offered s hw hb
    unfold ten
    refine Pres.bind ?_ ?_
    · split
      · exact Pres.ok (H.hcl.refl _) hb
      · split
        · exact Pres.err (H.hcl.refl _) hb rfl
        · rename_i inner he
          refine Pres.bind (ihv inner [] false s (Scope.walkTo_enter hw he) hb) ?_
          intro _ s1 _ f1 b1
          exact Pres.ok f1 b1
    · intro res1 s1 _ f1 b1
      refine Pres.weaken H.hcl f1 ?_
      split
      · split
        · refine Pres.bind (triggerNested_presQ H scope x ev _ hw s1 b1) ?_
          intro _ s2 _ f2 b2
          exact Pres.weaken H.hcl f2 (ihr scope _ true s2 hw b2)
        · exact ihr scope res1 offered s1 hw b1
      · exact ihr scope res1 offered s1 hw b1

theorem checkEventResult_presQ (hcl : ClosedQ cfg sc R) (res : Option Bool) (ev : Nat) (s : NSt) (hb : Busy s) :
    Pres R Busy (checkEventResult cfg res ev s) s.view := by
  unfold checkEventResult
  split
  · exact Pres.ok (hcl.refl _) hb
  · split
    · exact Pres.ok (hcl.refl _) hb
    · rename_i e he
      exact Pres.err (hcl.refl _) hb (cerLoop_errE cfg ev _ e he)
    · exact Pres.oof

theorem triggerEventBody_presQ (H : Hyp cfg sub sc R) (x : Ctx) (ev : Nat) (s : NSt) (hb : Busy s) :
    Pres R Busy (triggerEventBody sub sc cfg x ev s) s.view := by
  unfold triggerEventBody
  refine Pres.bind (ten_presQ H x ev s.conf cfg.root [] false s (NCfg.walkTo_root cfg) hb) ?_
  intro r s1 _ f1 b1
  refine Pres.weaken H.hcl f1 (Pres.bind (checkEventResult_presQ H.hcl _ ev s1 b1) ?_)
  intro b s2 _ f2 b2
  exact Pres.ok (s := { s2 with result := some b }) f2 b2

theorem nfinalize_presQ (H : Hyp cfg sub sc R) (x : Ctx) (s s' : NSt) (hb : Busy s)
    (h : nfinalize sub sc cfg x s = some s') : R s.view s'.view ∧ Busy s' := by
  unfold nfinalize at h
  have hfin : R s.view (s.emitG (.fin x.tag (confMask cfg s.conf))).view :=
    markQ H.hcl s _ rfl (by intro t m h; cases h; rfl) (by intro t x h; cases h)
  have hp := Pres.weaken H.hcl hfin (ncallbacks_presQ H .finalize x cfg.finalize _ hb)
  split at h
  · rename_i u s1 hc; cases h; exact hp.pres _ (by rw [hc]; rfl)
  · rename_i e s1 hc; cases h; exact hp.pres _ (by rw [hc]; rfl)
  · cases h

/-- the `except BaseException` clause of `_trigger_event` -/
theorem exceptClause_presQ (H : Hyp cfg sub sc R) (x : Ctx) (body : NR Bool) (v : View)
    (hbody : Pres R Busy body v) :
    Pres R Busy (match body with
      | .ok b s' => (.ok b s' : NR Bool)
      | .err e s' =>
        match cfg.onException with
        | [] => .err e s'
        | hs => (ncallbacks sub sc cfg .onException x hs s').bind fun _ s'' => .ok (s''.result.getD false) s''
      | .oof => .oof) v := by
  cases body with
  | ok b s1 => exact hbody
  | oof => exact Pres.oof
  | err e s1 =>
    have ⟨f1, b1⟩ := hbody.pres s1 rfl
    simp only []
    split
    · exact Pres.err f1 b1 (hbody.errE e s1 rfl)
    · refine Pres.weaken H.hcl f1 (Pres.bind (ncallbacks_presQ H _ x _ s1 b1) ?_)
      intro _ s2 _ f2 b2
      exact Pres.ok f2 b2

/-- the `finally` clause of `_trigger_event` -/
theorem finallyClause_presQ (H : Hyp cfg sub sc R) (x : Ctx) (r1 : NR Bool) (v : View)
    (hr1 : Pres R Busy r1 v) :
    Pres R Busy (match r1 with
      | .ok b s' => match nfinalize sub sc cfg x s' with
        | some s'' => (.ok b s'' : NR Bool)
        | none => .oof
      | .err e s' => match nfinalize sub sc cfg x s' with
        | some s'' => .err e s''
        | none => .oof
      | .oof => .oof) v := by
  cases r1 with
  | oof => exact Pres.oof
  | ok b s1 =>
    have ⟨f1, b1⟩ := hr1.pres s1 rfl
    simp only []
    cases hf : nfinalize sub sc cfg x s1 with
    | none => exact Pres.oof
    | some s2 =>
      have ⟨f2, b2⟩ := nfinalize_presQ H x s1 s2 b1 hf
      exact Pres.ok (H.hcl.trans f1 f2) b2
  | err e s1 =>
    have ⟨f1, b1⟩ := hr1.pres s1 rfl
    simp only []
    cases hf : nfinalize sub sc cfg x s1 with
    | none => exact Pres.oof
    | some s2 =>
      have ⟨f2, b2⟩ := nfinalize_presQ H x s1 s2 b1 hf
      exact Pres.err (H.hcl.trans f1 f2) b2 (hr1.errE e s1 rfl)

theorem ntriggerEvent_presQ (H : Hyp cfg sub sc R) (x : Ctx) (ev : Nat) (s : NSt) (hb : Busy s) :
    Pres R Busy (ntriggerEvent sub sc cfg x ev s) s.view := by
  have hbody : Pres R Busy (triggerEventBody sub sc cfg x ev { s with result := none, exited := [] }) s.view :=
    triggerEventBody_presQ H x ev { s with result := none, exited := [] } hb
  unfold ntriggerEvent
  exact finallyClause_presQ H x _ _ (exceptClause_presQ H x _ _ hbody)

/-- the drain loop ends with an empty queue -/
theorem ndrain_idle (H : Hyp cfg sub sc R) : ∀ (n : Nat) (s : NSt), Pres R Idle (ndrain sub sc cfg n s) s.view
  | 0, _ => Pres.oof
  | n + 1, s => by
    unfold ndrain
    split
    · rename_i hq; exact Pres.ok (H.hcl.refl _) hq
    · rename_i ev tag rest hq
      have hb : Busy s := by unfold Busy; rw [hq]; simp
      have ht := ntriggerEvent_presQ H ⟨0, tag⟩ ev s hb
      split
      · rename_i b s1 hc
        have f1 : R s.view s1.view := (ht.pres s1 (by rw [hc]; rfl)).1
        exact Pres.weaken H.hcl (w := ({ s1 with queue := s1.queue.drop 1 } : NSt).view) f1 (ndrain_idle H n _)
      · rename_i e s1 hc
        have f1 : R s.view s1.view := (ht.pres s1 (by rw [hc]; rfl)).1
        exact Pres.err (s := { s1 with queue := [] }) f1 rfl (ht.errE e s1 hc)
      · exact Pres.oof

theorem nmachineProcess_idle (H : Hyp cfg sub sc R) (hq : cfg.queued = true) (qmax ev tag : Nat) (s : NSt)
    (hi : Idle s) : Pres R Idle (nmachineProcess sub sc cfg qmax ev tag s) s.view := by
  unfold Idle at hi
  simp only [nmachineProcess, hq, Bool.not_true, Bool.false_eq_true, if_false, hi, List.nil_append,
    List.length_singleton, Nat.lt_irrefl]
  refine Pres.bind (v := s.view) (ndrain_idle H qmax { s with queue := [(ev, tag)] }) ?_
  intro _ s1 _ f1 i1
  exact Pres.ok f1 i1

/-- a trigger call from outside (no event in progress) on a queued machine -/
theorem napiTrigger_idle (H : Hyp cfg sub sc R) (hq : cfg.queued = true) (qmax ev : Nat) (s : NSt) (hi : Idle s) :
    Pres R Idle (napiTrigger sub sc cfg qmax ev s) s.view := by
  have hcl := H.hcl
  unfold napiTrigger
  simp only []
  have hapi : R s.view ((({ s with nextTag := s.nextTag + 1 } : NSt).emit (.api 0 s.nextTag 0 ev)).emitG
      (.api s.nextTag ev)).view :=
    hcl.mark s.view (.api s.nextTag ev) rfl (by intro t m h; cases h) (by intro t x h; cases h)
  have hp := Pres.weaken hcl hapi (nmachineProcess_idle H hq qmax ev s.nextTag
    ((({ s with nextTag := s.nextTag + 1 } : NSt).emit (.api 0 s.nextTag 0 ev)).emitG (.api s.nextTag ev)) hi)
  split
  · rename_i b s1 hc
    have ⟨f1, i1⟩ := hp.pres s1 (by rw [hc]; rfl)
    refine Pres.ok (hcl.trans f1 ?_) i1
    exact hcl.mark s1.view (.ret s.nextTag b) rfl (by intro t m h; cases h) (by intro t x h; cases h)
  · rename_i e s1 hc
    have ⟨f1, i1⟩ := hp.pres s1 (by rw [hc]; rfl)
    have he := hp.errE e s1 hc
    refine Pres.err (hcl.trans f1 ?_) i1 he
    exact hcl.mark s1.view (.raised s.nextTag e) rfl (by intro t m h; cases h)
      (by intro t x h; cases h; exact he)
  · exact Pres.oof

end Frame
end Queued


namespace Queued

/-! ### fuel: a command interpreter that runs out of fuel earlier -/

/-- `r1` runs out of fuel or is `r2` -/
def Ref {α} (r1 r2 : NR α) : Prop := r1 = .oof ∨ r1 = r2
/-- `sub1` behaves as `sub2` does unless it runs out of fuel -/
def SubRef (sub1 sub2 : NSub) : Prop := ∀ c s, Ref (sub1 c s) (sub2 c s)

theorem Ref.rfl {α} {r : NR α} : Ref r r := .inr _root_.rfl

theorem Ref.bind {α β} {r1 r2 : NR α} {f1 f2 : α → NSt → NR β} (h : Ref r1 r2)
    (hf : ∀ a s, Ref (f1 a s) (f2 a s)) : Ref (r1.bind f1) (r2.bind f2) := by
  rcases h with h | h
  · left; rw [h]; rfl
  · subst h
    cases r1 with
    | ok a s => exact hf a s
    | err e s => exact Ref.rfl
    | oof => exact Ref.rfl

theorem Ref.map {α β} {r1 r2 : NR α} {f : α → β} (h : Ref r1 r2) : Ref (r1.map f) (r2.map f) := by
  rcases h with h | h
  · left; rw [h]; rfl
  · subst h; exact Ref.rfl

section Fuel
variable {cfg : NCfg} {sub1 sub2 : NSub} {sc : Script}

theorem nrunCmds_ref (h : SubRef sub1 sub2) : ∀ (cmds : List Cmd) (s : NSt),
    Ref (nrunCmds sub1 cmds s) (nrunCmds sub2 cmds s)
  | [], s => Ref.rfl
  | c :: cs, s => by
    unfold nrunCmds
    exact Ref.bind (h c s) (fun _ s' => nrunCmds_ref h cs s')

theorem ninvoke_ref (h : SubRef sub1 sub2) (slot : Slot) (x : Ctx) (c : Nat) (s : NSt) :
    Ref (ninvoke sub1 sc cfg slot x c s) (ninvoke sub2 sc cfg slot x c s) := by
  rcases nrunCmds_ref h (sc c (s.count c)).cmds
    (({ s with counts := aset c (s.count c + 1) s.counts } : NSt).emit
      (.call slot c x.model x.tag (confMask cfg s.conf))) with h1 | h1
  · left; simp only [ninvoke, h1]
  · right; simp only [ninvoke, h1]

theorem ncallbacks_ref (h : SubRef sub1 sub2) (slot : Slot) (x : Ctx) : ∀ (cbs : List Nat) (s : NSt),
    Ref (ncallbacks sub1 sc cfg slot x cbs s) (ncallbacks sub2 sc cfg slot x cbs s)
  | [], s => Ref.rfl
  | c :: cs, s => by
    unfold ncallbacks
    exact Ref.bind (ninvoke_ref h slot x c s) (fun _ s' => ncallbacks_ref h slot x cs s')

theorem nevalConds_ref (h : SubRef sub1 sub2) (x : Ctx) : ∀ (cs : List Cond) (s : NSt),
    Ref (nevalConds sub1 sc cfg x cs s) (nevalConds sub2 sc cfg x cs s)
  | [], s => Ref.rfl
  | c :: cs, s => by
    unfold nevalConds
    refine Ref.bind (ninvoke_ref h _ x c.cb s) ?_
    intro b s'
    split
    · exact nevalConds_ref h x cs s'
    · exact Ref.rfl

theorem exitAll_ref (h : SubRef sub1 sub2) (x : Ctx) : ∀ (fs : List Found) (s : NSt),
    Ref (exitAll sub1 sc cfg x fs s) (exitAll sub2 sc cfg x fs s)
  | [], s => Ref.rfl
  | f :: fs, s => by
    unfold exitAll
    exact Ref.bind (ncallbacks_ref h _ x _ _) (fun _ s' => exitAll_ref h x fs s')

theorem enterAll_ref (h : SubRef sub1 sub2) (x : Ctx) : ∀ (fs : List Found) (s : NSt),
    Ref (enterAll sub1 sc cfg x fs s) (enterAll sub2 sc cfg x fs s)
  | [], s => Ref.rfl
  | f :: fs, s => by
    unfold enterAll
    exact Ref.bind (ncallbacks_ref h _ x _ _) (fun _ s' => enterAll_ref h x fs s')

theorem nchangeState_ref (h : SubRef sub1 sub2) (scope : Scope) (x : Ctx) (dest : SPath) (s : NSt) :
    Ref (nchangeState sub1 sc cfg scope x dest s) (nchangeState sub2 sc cfg scope x dest s) := by
  unfold nchangeState
  cases resolveTransition cfg.root scope s.conf dest with
  | err e => exact Ref.rfl
  | oof => exact Ref.rfl
  | ok r => exact Ref.bind (exitAll_ref h x _ _) (fun _ s1 => enterAll_ref h x _ _)

theorem nfinalStage_ref (h : SubRef sub1 sub2) (scope : Scope) (x : Ctx) (dest : Option SPath) (conf0 : Forest) (s : NSt) :
    Ref (nfinalStage sub1 sc cfg scope x dest conf0 s) (nfinalStage sub2 sc cfg scope x dest conf0 s) := by
  unfold nfinalStage
  cases dest with
  | none => exact Ref.rfl
  | some d =>
    simp only []
    cases resolveTransition cfg.root scope conf0 d with
    | err e => exact Ref.rfl
    | oof => exact Ref.rfl
    | ok r =>
      simp only []
      cases nfinalCheckRoot cfg r.tree (r.enters.map (·.path)) with
      | ok cbs => exact ncallbacks_ref h _ x _ _
      | err e => exact Ref.rfl
      | oof => exact Ref.rfl

theorem nexecute_ref (h : SubRef sub1 sub2) (scope : Scope) (x : Ctx) (tr : TRef) (t : NTrans) (s : NSt) :
    Ref (nexecute sub1 sc cfg scope x tr t s) (nexecute sub2 sc cfg scope x tr t s) := by
  unfold nexecute
  refine Ref.bind (ncallbacks_ref h _ x _ _) ?_
  intro _ s1
  refine Ref.bind (nevalConds_ref h x _ s1) ?_
  intro ok s2
  cases ok with
  | false => exact Ref.rfl
  | true =>
    simp only [Bool.not_true, Bool.false_eq_true, if_false]
    refine Ref.bind (ncallbacks_ref h _ x _ _) ?_
    intro _ s3
    refine Ref.bind (ncallbacks_ref h _ x _ _) ?_
    intro _ s4
    refine Ref.bind ?_ ?_
    · cases t.dest with
      | none => exact Ref.rfl
      | some d => exact nchangeState_ref h scope x d s4
    · intro _ s5
      refine Ref.bind (nfinalStage_ref h scope x _ _ s5) ?_
      intro _ s5
      refine Ref.bind (ncallbacks_ref h _ x _ _) ?_
      intro _ s6
      refine Ref.bind (ncallbacks_ref h _ x _ _) ?_
      intro _ s7
      exact Ref.rfl

theorem ntry_ref (h : SubRef sub1 sub2) (scope : Scope) (x : Ctx) : ∀ (cands : List (TRef × NTrans)) (s : NSt),
    Ref (ntry sub1 sc cfg scope x cands s) (ntry sub2 sc cfg scope x cands s)
  | [], s => Ref.rfl
  | (tr, t) :: r, s => by
    unfold ntry
    refine Ref.bind (nexecute_ref h scope x tr t s) ?_
    intro b s1
    cases b with
    | true => exact Ref.rfl
    | false => exact ntry_ref h scope x r _

theorem nprocess_ref (h : SubRef sub1 sub2) (scope : Scope) (x : Ctx) (cands : List (TRef × NTrans)) (s : NSt) :
    Ref (nprocess sub1 sc cfg scope x cands s) (nprocess sub2 sc cfg scope x cands s) := by
  unfold nprocess
  exact Ref.bind (ncallbacks_ref h _ x _ s) (fun _ s1 => ntry_ref h scope x cands s1)

theorem tnLoop_ref (h : SubRef sub1 sub2) (scope : Scope) (x : Ctx) (ev : Nat) (ts : List NTrans) :
    ∀ (ps done : List SPath) (s : NSt),
    Ref (tnLoop sub1 sc cfg scope x ev ts ps done s) (tnLoop sub2 sc cfg scope x ev ts ps done s)
  | [], _, s => Ref.rfl
  | p :: ps, done, s => by
    unfold tnLoop
    simp only []
    split
    · exact tnLoop_ref h scope x ev ts ps done s
    · cases getState cfg.root scope p with
      | none => exact Ref.rfl
      | some _ =>
        exact Ref.bind (nprocess_ref h scope x _ s) (fun _ s1 => tnLoop_ref h scope x ev ts ps _ s1)

theorem triggerNested_ref (h : SubRef sub1 sub2) (scope : Scope) (x : Ctx) (ev : Nat) (ts : List NTrans) (s : NSt) :
    Ref (triggerNested sub1 sc cfg scope x ev ts s) (triggerNested sub2 sc cfg scope x ev ts s) := by
  unfold triggerNested
  cases s.conf.reduceGet scope.pre with
  | error e => exact Ref.rfl
  | ok o =>
    cases o with
    | none => exact Ref.rfl
    | some sub' =>
      simp only []
      cases resolveOrder sub' with
      | none => exact Ref.rfl
      | some order => exact Ref.bind (tnLoop_ref h scope x ev ts _ _ s) (fun _ _ => Ref.rfl)

theorem ten_ref (h : SubRef sub1 sub2) (x : Ctx) (ev : Nat) :
    ∀ (tree : Forest) (scope : Scope) (res : List (Nat × Bool)) (offered : Bool) (s : NSt),
    Ref (ten sub1 sc cfg x ev scope tree res offered s) (ten sub2 sc cfg x ev scope tree res offered s) := by
  intro tree
  induction tree with
  | nil => intro scope res offered s; unfold ten; exact Ref.rfl
  | cons key value rest ihv ihr =>
    intro scope res offered s
    unfold ten
    refine Ref.bind ?_ ?_
    · split
      · exact Ref.rfl
      · cases scope.enter key with
        | none => exact Ref.rfl
        | some inner => exact Ref.bind (ihv inner [] false s) (fun _ _ => Ref.rfl)
    · intro res1 s1
      split
      · cases alookup ev scope.events with
        | none => exact ihr scope res1 offered s1
        | some ts => exact Ref.bind (triggerNested_ref h scope x ev ts s1) (fun _ s2 => ihr scope _ true s2)
      · exact ihr scope res1 offered s1

theorem triggerEventBody_ref (h : SubRef sub1 sub2) (x : Ctx) (ev : Nat) (s : NSt) :
    Ref (triggerEventBody sub1 sc cfg x ev s) (triggerEventBody sub2 sc cfg x ev s) := by
  unfold triggerEventBody
  exact Ref.bind (ten_ref h x ev _ _ _ _ s) (fun _ _ => Ref.rfl)

theorem nfinalize_ref (h : SubRef sub1 sub2) (x : Ctx) (s : NSt) :
    nfinalize sub1 sc cfg x s = none ∨ nfinalize sub1 sc cfg x s = nfinalize sub2 sc cfg x s := by
  rcases ncallbacks_ref (sc := sc) (cfg := cfg) h .finalize x cfg.finalize
    (s.emitG (.fin x.tag (confMask cfg s.conf))) with h1 | h1
  · left; simp only [nfinalize, h1]
  · right; simp only [nfinalize, h1]

theorem exceptClause_ref (h : SubRef sub1 sub2) (x : Ctx) (b1 b2 : NR Bool) : Ref b1 b2 →
    Ref (match b1 with
      | .ok b s' => (.ok b s' : NR Bool)
      | .err e s' =>
        match cfg.onException with
        | [] => .err e s'
        | hs => (ncallbacks sub1 sc cfg .onException x hs s').bind fun _ s'' => .ok (s''.result.getD false) s''
      | .oof => .oof)
    (match b2 with
      | .ok b s' => (.ok b s' : NR Bool)
      | .err e s' =>
        match cfg.onException with
        | [] => .err e s'
        | hs => (ncallbacks sub2 sc cfg .onException x hs s').bind fun _ s'' => .ok (s''.result.getD false) s''
      | .oof => .oof) := by
  intro hb
  rcases hb with hb | hb
  · left; rw [hb]
  · subst hb
    cases b1 with
    | ok b s1 => exact Ref.rfl
    | oof => exact Ref.rfl
    | err e s1 =>
      simp only []
      cases cfg.onException with
      | nil => exact Ref.rfl
      | cons a l => exact Ref.bind (ncallbacks_ref h _ x _ s1) (fun _ _ => Ref.rfl)

theorem finallyClause_ref (h : SubRef sub1 sub2) (x : Ctx) (r1 r2 : NR Bool) : Ref r1 r2 →
    Ref (match r1 with
      | .ok b s' => match nfinalize sub1 sc cfg x s' with
        | some s'' => (.ok b s'' : NR Bool)
        | none => .oof
      | .err e s' => match nfinalize sub1 sc cfg x s' with
        | some s'' => .err e s''
        | none => .oof
      | .oof => .oof)
    (match r2 with
      | .ok b s' => match nfinalize sub2 sc cfg x s' with
        | some s'' => (.ok b s'' : NR Bool)
        | none => .oof
      | .err e s' => match nfinalize sub2 sc cfg x s' with
        | some s'' => .err e s''
        | none => .oof
      | .oof => .oof) := by
  intro hr
  rcases hr with hr | hr
  · left; rw [hr]
  · subst hr
    cases r1 with
    | oof => exact Ref.rfl
    | ok b s1 =>
      simp only []
      rcases nfinalize_ref (sc := sc) (cfg := cfg) h x s1 with hf | hf
      · left; rw [hf]
      · rw [hf]; exact Ref.rfl
    | err e s1 =>
      simp only []
      rcases nfinalize_ref (sc := sc) (cfg := cfg) h x s1 with hf | hf
      · left; rw [hf]
      · rw [hf]; exact Ref.rfl

theorem ntriggerEvent_ref (h : SubRef sub1 sub2) (x : Ctx) (ev : Nat) (s : NSt) :
    Ref (ntriggerEvent sub1 sc cfg x ev s) (ntriggerEvent sub2 sc cfg x ev s) := by
  unfold ntriggerEvent
  exact finallyClause_ref h x _ _ (exceptClause_ref h x _ _ (triggerEventBody_ref h x ev _))

theorem ndrain_ref (h : SubRef sub1 sub2) : ∀ (n : Nat) (s : NSt),
    Ref (ndrain sub1 sc cfg n s) (ndrain sub2 sc cfg n s)
  | 0, _ => Ref.rfl
  | n + 1, s => by
    unfold ndrain
    cases s.queue with
    | nil => exact Ref.rfl
    | cons a l =>
      obtain ⟨ev, tag⟩ := a
      simp only []
      rcases ntriggerEvent_ref (sc := sc) (cfg := cfg) h ⟨0, tag⟩ ev s with ht | ht
      · left; rw [ht]
      · rw [ht]
        cases ntriggerEvent sub2 sc cfg ⟨0, tag⟩ ev s with
        | ok b s1 => exact ndrain_ref h n _
        | err e s1 => exact Ref.rfl
        | oof => exact Ref.rfl

theorem nmachineProcess_ref (h : SubRef sub1 sub2) (qmax ev tag : Nat) (s : NSt) :
    Ref (nmachineProcess sub1 sc cfg qmax ev tag s) (nmachineProcess sub2 sc cfg qmax ev tag s) := by
  unfold nmachineProcess
  split
  · cases s.queue with
    | nil => exact ntriggerEvent_ref h _ ev s
    | cons a l => exact Ref.rfl
  · simp only []
    split
    · exact Ref.rfl
    · exact Ref.bind (ndrain_ref h qmax _) (fun _ _ => Ref.rfl)

theorem napiTrigger_ref (h : SubRef sub1 sub2) (qmax ev : Nat) (s : NSt) :
    Ref (napiTrigger sub1 sc cfg qmax ev s) (napiTrigger sub2 sc cfg qmax ev s) := by
  rcases nmachineProcess_ref (sc := sc) (cfg := cfg) h qmax ev s.nextTag
    ((({ s with nextTag := s.nextTag + 1 } : NSt).emit (.api 0 s.nextTag 0 ev)).emitG (.api s.nextTag ev)) with h1 | h1
  · left; simp only [napiTrigger, h1]
  · right; simp only [napiTrigger, h1]

end Fuel

/-- one more unit of fuel: the same run unless the smaller fuel is exhausted -/
theorem nrunCmd_ref (sc : Script) (cfg : NCfg) (qmax : Nat) : ∀ (f : Nat),
    SubRef (nrunCmd sc cfg qmax f) (nrunCmd sc cfg qmax (f + 1))
  | 0 => fun _ _ => .inl _root_.rfl
  | f + 1 => by
    intro c s
    cases c with
    | trigger m ev =>
      show Ref ((napiTrigger (nrunCmd sc cfg qmax f) sc cfg qmax ev s).map fun _ => ())
        ((napiTrigger (nrunCmd sc cfg qmax (f + 1)) sc cfg qmax ev s).map fun _ => ())
      exact Ref.map (napiTrigger_ref (nrunCmd_ref sc cfg qmax f) qmax ev s)
    | _ => exact Ref.rfl

end Queued

open Queued in
/-- **histories on a queued machine**, callbacks may trigger events (processed later, one at a time) -/
theorem frame_history_queued (cfg : NCfg) (sc : Script) (R : View → View → Prop)
    (hR : NoRaise sc) (hT : TriggersOnly sc) (hq : cfg.queued = true) (hcl : ClosedQ cfg sc R) (qmax fuel : Nat) :
    ∀ (evs : List Nat) (s s' : NSt), s.queue = [] → nrunHistory sc cfg qmax fuel evs s = some s' →
      R s.view s'.view ∧ s'.queue = [] := by
  -- enough fuel for the commands of the callbacks: they are busy triggers
  have h2 : ∀ (f ev : Nat) (s : NSt), s.queue = [] →
      Pres R Idle (nrunCmd sc cfg qmax (f + 2) (.trigger 0 ev) s) s.view := by
    intro f ev s hi
    have H : Hyp cfg (nrunCmd sc cfg qmax (f + 1)) sc R := ⟨hR, hT, nrunCmd_busy cfg sc qmax f hq, hcl⟩
    show Pres R Idle ((napiTrigger (nrunCmd sc cfg qmax (f + 1)) sc cfg qmax ev s).map fun _ => ()) s.view
    exact Pres.map (napiTrigger_idle H hq qmax ev s hi)
  have hcmd : ∀ (ev : Nat) (s : NSt), s.queue = [] →
      Pres R Idle (nrunCmd sc cfg qmax fuel (.trigger 0 ev) s) s.view := by
    intro ev s hi
    match fuel with
    | 0 => exact Pres.oof
    | 1 =>
      -- the first command a callback issues exhausts the fuel; without one the run is that with more fuel
      rcases nrunCmd_ref sc cfg qmax 1 (.trigger 0 ev) s with h | h
      · rw [h]; exact Pres.oof
      · rw [h]; exact h2 0 ev s hi
    | f + 2 => exact h2 f ev s hi
  intro evs
  induction evs with
  | nil => intro s s' hi h; simp only [nrunHistory, Option.some.injEq] at h; subst h; exact ⟨hcl.refl _, hi⟩
  | cons ev evs ih =>
    intro s s' hi h
    unfold nrunHistory at h
    have hc := hcmd ev s hi
    split at h
    · rename_i u s1 he
      have ⟨f1, i1⟩ := hc.pres s1 (by rw [he]; rfl)
      have ⟨f2, i2⟩ := ih s1 s' i1 h
      exact ⟨hcl.trans f1 f2, i2⟩
    · rename_i e s1 he
      have ⟨f1, i1⟩ := hc.pres s1 (by rw [he]; rfl)
      have ⟨f2, i2⟩ := ih s1 s' i1 h
      exact ⟨hcl.trans f1 f2, i2⟩
    · cases h

end TM
