/-
  Proofs/C02Queued.lean — events issued "through the queue": on a queued machine a callback may trigger further
  events; such a call only appends to the queue (and logs `api`/`ret`), the event is processed after the current one.
  The frame theorem for histories on queued machines whose callbacks issue trigger commands.
-/
import Proofs.C02Frame

namespace TM
open C02

/-- the re-entrant commands of the script are trigger calls only -/
def TriggersOnly (sc : Script) : Prop := ∀ c k, ∀ cmd ∈ (sc c k).cmds, ∃ m ev, cmd = Cmd.trigger m ev

/-- what a trigger call does while another event is being processed on a queued machine -/
def busyTrigger (ev : Nat) (s : NSt) : NSt :=
  { s with nextTag := s.nextTag + 1, queue := s.queue ++ [(ev, s.nextTag)],
           log := s.log ++ [.api 0 s.nextTag 0 ev, .ret s.nextTag true],
           glog := s.glog ++ [.api s.nextTag ev, .ret s.nextTag true] }

theorem napiTrigger_busy (cfg : NCfg) (sub : NSub) (sc : Script) (qmax ev : Nat) (s : NSt)
    (hq : cfg.queued = true) (hb : s.queue ≠ []) :
    napiTrigger sub sc cfg qmax ev s = .ok true (busyTrigger ev s) := by
  sorry

/-- a command interpreter that behaves like a queued machine's while the queue is busy -/
def SubBusy (sub : NSub) : Prop := ∀ m ev s, s.queue ≠ [] → sub (.trigger m ev) s = .ok () (busyTrigger ev s)

theorem nrunCmd_busy (cfg : NCfg) (sc : Script) (qmax f : Nat) (hq : cfg.queued = true) :
    SubBusy (nrunCmd sc cfg qmax (f + 1)) := by
  sorry

/-- `api` / `ret` marks -/
def GEv.isCall : GEv → Bool
  | .api _ _ => true
  | .ret _ _ => true
  | _ => false

/-- the ghost bookkeeping ignores `api` / `ret` marks -/
theorem grun_filter_calls (cfg : NCfg) (g : G) (seg : List GEv) :
    grun cfg g seg = grun cfg g (seg.filter fun e => !e.isCall) := by
  sorry

theorem exitAll_busy (cfg : NCfg) (sub : NSub) (sc : Script) (hR : NoRaise sc) (hT : TriggersOnly sc)
    (hsub : SubBusy sub) (x : Ctx) : ∀ (fs : List Found) (s : NSt), s.queue ≠ [] →
    ∃ s', exitAll sub sc cfg x fs s = .ok () s' ∧ s'.conf = s.conf ∧ s'.queue ≠ [] ∧
      ∃ seg, s'.glog = s.glog ++ seg ∧ (seg.filter fun e => !e.isCall) = (pathsOf fs).map GEv.exit := by
  sorry

theorem enterAll_busy (cfg : NCfg) (sub : NSub) (sc : Script) (hR : NoRaise sc) (hT : TriggersOnly sc)
    (hsub : SubBusy sub) (x : Ctx) : ∀ (fs : List Found) (s : NSt), s.queue ≠ [] →
    ∃ s', enterAll sub sc cfg x fs s = .ok () s' ∧ s'.conf = s.conf ∧ s'.queue ≠ [] ∧
      ∃ seg, s'.glog = s.glog ++ seg ∧ (seg.filter fun e => !e.isCall) = (pathsOf fs).map GEv.enter := by
  sorry

/-- closure conditions for queued machines: state changes happen while the queue is busy, from any command
interpreter that only appends to the queue -/
structure ClosedQ (cfg : NCfg) (sc : Script) (R : View → View → Prop) : Prop where
  refl : ∀ v, R v v
  trans : ∀ {a b c}, R a b → R b c → R a c
  mark : ∀ (v : View) (e : GEv), e.isMark = true → (∀ t m, e = .fin t m → m = confMask cfg v.conf) →
    (hne : ∀ t x, e = .raised t x → x.isEngine = true) → R v ⟨v.conf, v.glog ++ [e]⟩
  execChange : ∀ (sub : NSub), SubBusy sub → ∀ (scope : Scope) (x : Ctx) (dest : SPath) (tr : TRef) (s s' : NSt),
    s.queue ≠ [] → cfg.root.walkTo scope.pre = some scope →
    (nchangeState sub sc cfg scope x dest { s with glog := s.glog ++ [.exec tr] }).state? = some s' →
    R s.view s'.view

/-- **histories on a queued machine**, callbacks may trigger events (processed later, one at a time) -/
theorem frame_history_queued (cfg : NCfg) (sc : Script) (R : View → View → Prop)
    (hR : NoRaise sc) (hT : TriggersOnly sc) (hq : cfg.queued = true) (hcl : ClosedQ cfg sc R) (qmax fuel : Nat) :
    ∀ (evs : List Nat) (s s' : NSt), s.queue = [] → nrunHistory sc cfg qmax fuel evs s = some s' →
      R s.view s'.view ∧ s'.queue = [] := by
  sorry

end TM
