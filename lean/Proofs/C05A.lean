/-
  Proofs/C05A.lean — property C05 on the asynchronous flat engine, `queued=True` (qm = 1: one machine-wide
  queue): the simulation between `Async.drain` / `Async.eventTrigger` and the abstract queue acceptor `C05.busy`
  (instance of the skeleton `Proofs/C05AGen.lean`; the relations `Blk` / `Syn` / `TagsOK` and the single-item
  advances `adv_*` are those of the synchronous proof, `Proofs/C05.lean`).
-/
import Proofs.C05AGen
import Proofs.C05

namespace TM
open C05
namespace A5
open N5 (Acc)

def accQ (fin0 : Nat) : Acc Q := ⟨Adv fin0, Adv.refl fin0, Adv.trans⟩

/-- the acceptor (owner `d`) inside the block of the event `x` -/
def BlkO (d : Nat) (x : Ctx) (σ : Q) (s : St) : Prop := Blk x σ s ∧ σ.owner = d
def SynO (d : Nat) (x : Ctx) (f : Bool) (σ : Q) (s : St) : Prop := Syn x f σ s ∧ σ.owner = d

theorem _root_.TM.Blk.frame {x : Ctx} {σ : Q} {s s' : St} (h : Blk x σ s) (hq : s'.queue = s.queue)
    (hn : s'.nextTag = s.nextTag) : Blk x σ s' :=
  ⟨by rw [hq]; exact h.head, ⟨by rw [hq]; exact h.tags.nodup, by rw [hq, hn]; exact h.tags.lt⟩, by rw [hq]; exact h.rel⟩

theorem _root_.TM.Syn.frame {x : Ctx} {f : Bool} {σ : Q} {s s' : St} (h : Syn x f σ s) (hq : s'.queue = s.queue)
    (hn : s'.nextTag = s.nextTag) : Syn x f σ s' :=
  ⟨by rw [hq]; exact h.head, ⟨by rw [hq]; exact h.tags.nodup, by rw [hq, hn]; exact h.tags.lt⟩,
    by rw [hq]; exact h.rel, h.fin⟩

/-- what awaited triggers must guarantee while the machine is busy with the event `x` -/
def ASubOK (fin0 d : Nat) (sub : Sub) : Prop :=
  ∀ (x : Ctx) (f : Bool) (c : Cmd) (σ : Q) (s : St), SynO d x f σ s →
    APost (accQ fin0) (SynO d x f) (SynO d x f) σ s.log (sub c s)

/-- the `call` item of a callback of the event in progress, whatever the acceptor's lag: afterwards in step -/
theorem call_step (fin0 : Nat) (x : Ctx) (slot : Slot) (c st : Nat) (σ : Q) (s : St) (hb : Blk x σ s) :
    ∃ σ1, Adv fin0 σ [.call slot c x.model x.tag st] σ1 ∧ σ1.owner = σ.owner ∧
      Syn x (decide (slot = Slot.finalize ∧ c = fin0)) σ1 s := by
  cases hq : s.queue.map key with
  | nil => have := hb.head; simp [hq] at this
  | cons k rest =>
    have hk : k = (x.tag, x.model) := by have := hb.head; simpa [hq] using this
    subst hk
    rcases hb.rel with ⟨hr, hf⟩ | ⟨hf, h, hne, hr⟩
    · exact ⟨{ σ with fin := decide (slot = Slot.finalize ∧ c = fin0) },
        adv_call_sync fin0 σ slot c x.model x.tag st rest (by rw [← hr, hq]) hf, rfl,
        ⟨hb.head, hb.tags, hr, rfl⟩⟩
    · exact ⟨{ σ with q := (x.tag, x.model) :: rest, fin := decide (slot = Slot.finalize ∧ c = fin0) },
        adv_call_lag fin0 σ slot c x.model x.tag st h rest (by rw [hr, hq]) hf hne, rfl,
        ⟨hb.head, hb.tags, hq, rfl⟩⟩

/-- the skeleton's interface, for the machine-wide abstract queue -/
def blockQ (fin0 d : Nat) (sub : Sub) (hsub : ASubOK fin0 d sub) (x : Ctx) : Block (accQ fin0) sub x where
  Blk := BlkO d x
  Syn := SynO d x
  Any := fun σ _ => σ.owner = d
  toBlk := fun h => ⟨h.1.toBlk, h.2⟩
  blkAny := fun h => h.2
  synAny := fun h => h.2
  blkFrame := fun h hq hn => ⟨h.1.frame hq hn, h.2⟩
  synFrame := fun h hq hn => ⟨h.1.frame hq hn, h.2⟩
  callBlk := by
    intro σ s slot c st hslot hb
    obtain ⟨σ1, a1, o1, h1⟩ := call_step fin0 x slot c st σ s hb.1
    have hd : decide (slot = Slot.finalize ∧ c = fin0) = false := by simp [hslot]
    rw [hd] at h1
    exact ⟨σ1, a1, h1, o1.trans hb.2⟩
  done := fun σ c o => adv_done fin0 σ c o
  sub := fun f c σ s h => hsub x f c σ s h

/-- the finalize stage (`gather` starts ALL finalize callbacks, whatever the first one does): the first one
(`fin0`, the visibility marker) tells the acceptor that the event has reached its finalize stage, the others
keep it there -/
theorem finalize_post (fin0 d : Nat) (sub : Sub) (hsub : ASubOK fin0 d sub) (sc : Script) (kd : Async.Kinds)
    (cfg : Cfg) (rest : List Nat) (hfin : cfg.finalize = fin0 :: rest) (hnot : fin0 ∉ rest) (x : Ctx) (σ : Q) (s : St)
    (hb : BlkO d x σ s) :
    APost (accQ fin0) (SynO d x true) (SynO d x true) σ s.log
      (Async.callbacks sub sc kd .finalize x cfg.finalize s) := by
  rw [hfin]
  unfold Async.callbacks
  refine APost.map _ ?_
  refine gather_of_startAll (blockQ fin0 d sub hsub x) sc kd (SynO d x true)
    (fun h hq hn => ⟨h.1.frame hq hn, h.2⟩) _ σ s ?_
  simp only [List.map_cons]
  rw [startAll_eq]
  obtain ⟨σ1, a1, o1, h1⟩ := call_step fin0 x .finalize fin0 (s.stateOf x.model) σ s hb.1
  have hd : decide (Slot.finalize = Slot.finalize ∧ fin0 = fin0) = true := by simp
  rw [hd] at h1
  refine OPost.cons (start_post (blockQ fin0 d sub hsub x) sc kd true
    { slot := .finalize, cb := fin0 } σ σ1 s a1 ⟨h1, o1.trans hb.2⟩) ?_
  intro e σ2 s2 h2
  have ih := startAll_syn (blockQ fin0 d sub hsub x) sc kd true
    (rest.map fun c => ({ slot := .finalize, cb := c } : Async.Job)) ?_ σ2 s2 h2
  · show OPost (accQ fin0) (SynO d x true) σ2 s2.log
      ((Async.startAll sub sc kd x (rest.map fun c => ({ slot := .finalize, cb := c } : Async.Job)) s2).map
        fun q => (e :: q.1, q.2))
    cases hr : Async.startAll sub sc kd x (rest.map fun c => ({ slot := .finalize, cb := c } : Async.Job)) s2 with
    | none => trivial
    | some q => obtain ⟨es, s3⟩ := q; rw [hr] at ih; exact ih
  · intro j hj σ3 s3 st h3
    obtain ⟨c, hc, rfl⟩ := List.mem_map.mp hj
    have hcne : c ≠ fin0 := fun h => hnot (h ▸ hc)
    cases hq : s3.queue.map key with
    | nil => have := h3.1.head; simp [hq] at this
    | cons k r =>
      have hk : k = (x.tag, x.model) := by have := h3.1.head; simpa [hq] using this
      subst hk
      exact ⟨σ3, adv_call_fin fin0 σ3 c x.model x.tag st r (by rw [← h3.1.rel, hq]) h3.1.fin hcne, h3⟩

/-- `AsyncEvent._trigger` for the queue head: if it returns, the event has been finalized; if it raises, the
acceptor's owner is unchanged (the queue is about to be cleared) -/
theorem eventTrigger_postQ (fin0 d : Nat) (sub : Sub) (hsub : ASubOK fin0 d sub) (sc : Script) (kd : Async.Kinds)
    (cfg : Cfg) (rest : List Nat) (hfin : cfg.finalize = fin0 :: rest) (hnot : fin0 ∉ rest) (ts : List Trans) (x : Ctx)
    (σ : Q) (s : St) (hb : BlkO d x σ s) :
    APost (accQ fin0) (SynO d x true) (fun σ' _ => σ'.owner = d) σ s.log
      (Async.eventTrigger sub sc kd cfg ts x s) :=
  eventTrigger_post (blockQ fin0 d sub hsub x) sc kd cfg
    (fun σ1 s1 h1 => finalize_post fin0 d sub hsub sc kd cfg rest hfin hnot x σ1 s1 h1) ts σ s hb

/-- With `queued=True` a trigger awaited while an event is in progress runs no callback: it only appends to the
machine-wide queue, exactly as the acceptor's queue is extended (or is refused: unknown event, unregistered model).
Holds at every fuel level. -/
theorem asubOK_runCmd (fin0 d : Nat) (sc : Script) (kd : Async.Kinds) (cfg : Cfg) (qmax : Nat) :
    ∀ n, ASubOK fin0 d (Async.runCmd sc kd cfg 1 qmax n) := by
  intro n x f c σ s hs
  cases n with
  | zero => trivial
  | succ n =>
    have hne : s.queue ≠ [] := by
      intro h0; have := hs.1.head; simp [h0] at this
    cases c with
    | trigger m ev =>
      show APost _ _ _ σ s.log ((Async.apiTrigger (Async.runCmd sc kd cfg 1 qmax n) sc kd cfg 1 qmax m ev s).map fun _ => ())
      apply APost.map
      let s1 : St := ({ s with nextTag := s.nextTag + 1 }).emit (.api 0 s.nextTag m ev)
      have hs1 : SynO d x f σ s1 := ⟨⟨hs.1.head, hs.1.tags.bump s1 rfl rfl, hs.1.rel, hs.1.fin⟩, hs.2⟩
      have refuse_exc : ∀ e, APost (accQ fin0) (SynO d x f) (SynO d x f) σ s.log
          (.err e (s1.emit (.raised s.nextTag e)) : R Bool) := fun e =>
        ⟨σ, [.api 0 s.nextTag m ev, .raised s.nextTag e], by simp [St.emit, s1], adv_refused_exc fin0 σ _ _ _ _,
          ⟨hs1.1.emit _, hs1.2⟩⟩
      have refuse : APost (accQ fin0) (SynO d x f) (SynO d x f) σ s.log
          (.ok false (s1.emit (.ret s.nextTag false)) : R Bool) :=
        ⟨σ, [.api 0 s.nextTag m ev, .ret s.nextTag false], by simp [St.emit, s1], adv_refused fin0 σ _ _ _,
          ⟨hs1.1.emit _, hs1.2⟩⟩
      unfold Async.apiTrigger
      show APost _ _ _ σ s.log (match Async.triggerByName _ sc kd cfg 1 qmax m ev s.nextTag s1 with
        | .ok b s' => .ok b (s'.emit (.ret s.nextTag b))
        | .err e s' => .err e (s'.emit (.raised s.nextTag e))
        | .oof => .oof)
      unfold Async.triggerByName
      by_cases hmod : (alookup m s1.mstate).isNone = true
      · simp only [hmod, if_true]; exact refuse_exc _
      · simp only [hmod]
        cases hev : cfg.event? ev with
        | none =>
          simp only [Bool.false_eq_true, if_false]
          cases cfg.state? (s1.stateOf m) with
          | none => exact refuse_exc _
          | some _ =>
            by_cases hig : ignoreInvalid cfg (s1.stateOf m) = true
            · simp only [hig, if_true]; exact refuse
            · simp only [hig]; exact refuse_exc _
        | some ts =>
          have hlen : (s1.queue ++ [(m, ev, s.nextTag)]).length > 1 := by
            have : s1.queue = s.queue := rfl
            rw [this]
            cases hqq : s.queue with
            | nil => exact absurd hqq hne
            | cons a r => simp
          have h10 : ((1 : Nat) = 0) = False := by simp
          have h12 : ((1 : Nat) = 2) = False := by simp
          simp only [Bool.false_eq_true, if_false, Async.machineProcess, Async.qOf, h10, h12, hlen, if_true]
          refine ⟨{ σ with q := σ.q ++ [(s.nextTag, m)] }, [.api 0 s.nextTag m ev, .ret s.nextTag true],
            by simp [St.emit, s1], adv_deferred fin0 σ _ _ _, ⟨?_, hs.2⟩⟩
          refine ⟨?_, ⟨?_, ?_⟩, ?_, hs.1.fin⟩
          · show ((s.queue ++ [(m, ev, s.nextTag)]).map key).head? = _
            rw [List.map_append, head?_append_of_ne _ (by simpa using hne)]
            exact hs.1.head
          · show ((s.queue ++ [(m, ev, s.nextTag)]).map (·.2.2)).Nodup
            rw [List.map_append, List.nodup_append]
            refine ⟨hs.1.tags.nodup, by simp, ?_⟩
            intro a ha b hb
            simp at hb
            subst hb
            obtain ⟨e, he, rfl⟩ := List.mem_map.mp ha
            exact Nat.ne_of_lt (hs.1.tags.lt e he)
          · intro e he
            show e.2.2 < s.nextTag + 1
            rcases List.mem_append.mp he with h1 | h1
            · exact Nat.lt_succ_of_lt (hs.1.tags.lt e h1)
            · simp at h1; subst h1; exact Nat.lt_succ_self _
          · show (s.queue ++ [(m, ev, s.nextTag)]).map key = σ.q ++ [(s.nextTag, m)]
            rw [List.map_append, hs.1.rel]; rfl
    | removeModel _ => trivial
    | addModel _ => trivial
    | dispatch _ => trivial
    | may _ _ => trivial

theorem adrain_post (fin0 : Nat) (sc : Script) (kd : Async.Kinds) (cfg : Cfg) (sub : Sub) (rest : List Nat)
    (hfin : cfg.finalize = fin0 :: rest) (hnot : fin0 ∉ rest) (m : Nat) :
    ∀ (n : Nat) (σ : Q) (s : St), ASubOK fin0 σ.owner sub → DrainPre σ s →
      APost (accQ fin0) (fun σ' s' => s'.queue = [] ∧ σ'.fin = true ∧ σ'.q.length = 1 ∧ σ'.owner = σ.owner)
        (fun σ' s' => s'.queue = [] ∧ σ'.owner = σ.owner) σ s.log (Async.drain sub sc kd cfg 1 m n s) := by
  intro n
  induction n with
  | zero => intro σ s _ _; trivial
  | succ n ih =>
    intro σ s hsub ⟨htags, hrel⟩
    have h12 : ((1 : Nat) = 2) = False := by simp
    cases hq : s.queue with
    | nil =>
      simp only [Async.drain, Async.qOf, h12, if_false, hq]
      rcases hrel with ⟨_, _, hne⟩ | ⟨hf, h, hσ, _⟩
      · exact absurd hq hne
      · exact ⟨σ, [], by simp, Adv.refl fin0 σ, hq, hf, by rw [hσ, hq]; rfl, rfl⟩
    | cons e0 r0 =>
      obtain ⟨m', ev, tag⟩ := e0
      simp only [Async.drain, Async.qOf, h12, if_false, hq]
      have hb : BlkO σ.owner ⟨m', tag⟩ σ s := by
        refine ⟨⟨by rw [hq]; rfl, htags, ?_⟩, rfl⟩
        rcases hrel with ⟨h1, h2, _⟩ | ⟨hf, h, hσ, hne⟩
        · exact Or.inl ⟨h1, h2⟩
        · exact Or.inr ⟨hf, h, (hne (m', ev, tag) (by rw [hq]; exact List.mem_cons_self ..)).symm, hσ⟩
      have hp := eventTrigger_postQ fin0 σ.owner sub hsub sc kd cfg rest hfin hnot ((cfg.event? ev).getD [])
        ⟨m', tag⟩ σ s hb
      cases hr : Async.eventTrigger sub sc kd cfg ((cfg.event? ev).getD []) ⟨m', tag⟩ s with
      | oof => trivial
      | err e s1 =>
        rw [hr] at hp
        obtain ⟨σ1, seg1, l1, a1, p1⟩ := hp
        exact ⟨σ1, seg1, l1, a1, by simp [Async.qClear], p1⟩
      | ok b s1 =>
        rw [hr] at hp
        obtain ⟨σ1, seg1, l1, a1, p1, o1⟩ := hp
        have hpop : Async.qPop 1 m s1.queue = s1.queue.drop 1 := by simp [Async.qPop]
        -- popleft
        have hpre : DrainPre σ1 { s1 with queue := Async.qPop 1 m s1.queue } := by
          rw [hpop]
          cases hq1 : s1.queue with
          | nil => have := p1.head; simp [hq1] at this
          | cons e1 r1 =>
            have hnd := p1.tags.nodup
            rw [hq1] at hnd
            simp only [List.map_cons, List.nodup_cons] at hnd
            refine ⟨⟨by simpa using hnd.2, ?_⟩, Or.inr ⟨p1.fin, key e1, ?_, ?_⟩⟩
            · intro e he
              exact p1.tags.lt e (by rw [hq1]; exact List.mem_cons_of_mem _ (by simpa using he))
            · rw [← p1.rel, hq1]; rfl
            · intro e he h
              have he' : e ∈ r1 := by simpa using he
              exact hnd.1 (List.mem_map.mpr ⟨e, he', h⟩)
        have h2 := ih σ1 { s1 with queue := Async.qPop 1 m s1.queue } (by rw [o1]; exact hsub) hpre
        show APost (accQ fin0) _ _ σ s.log (Async.drain sub sc kd cfg 1 m n { s1 with queue := Async.qPop 1 m s1.queue })
        cases hr2 : Async.drain sub sc kd cfg 1 m n { s1 with queue := Async.qPop 1 m s1.queue } with
        | oof => trivial
        | ok u s2 =>
          rw [hr2] at h2
          obtain ⟨σ2, seg2, l2, a2, p2⟩ := h2
          exact ⟨σ2, seg1 ++ seg2, by rw [l2]; show s1.log ++ seg2 = _; rw [l1, List.append_assoc],
            a1.trans a2, p2.1, p2.2.1, p2.2.2.1, p2.2.2.2.trans o1⟩
        | err e2 s2 =>
          rw [hr2] at h2
          obtain ⟨σ2, seg2, l2, a2, p2⟩ := h2
          exact ⟨σ2, seg1 ++ seg2, by rw [l2]; show s1.log ++ seg2 = _; rw [l1, List.append_assoc],
            a1.trans a2, p2.1, p2.2.trans o1⟩

end A5
end TM
