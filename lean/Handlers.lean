/-
  Handlers.lean — table of per-property driver handlers: request kind ↦ handler on the decoded
  naturals.  Each property contributes `Handlers/H<id>.lean` exporting a list; append it here.
-/
import Handlers.Basic
import Handlers.HC07

namespace Handlers

def all : List (String × (List Nat → Option String)) :=
  []
  ++ hC07

end Handlers
