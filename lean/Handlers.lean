/-
  Handlers.lean — table of per-property driver handlers: request kind ↦ handler on the decoded
  naturals.  Each property contributes `Handlers/H<id>.lean` exporting a list; append it here.
-/
import Handlers.Basic
import Handlers.HC04
import Handlers.HC06
import Handlers.HC07
import Handlers.HC08
import Handlers.HC13
import Handlers.HC14
import Handlers.HC15
import Handlers.HC16
import Handlers.HC17
import Handlers.HC19
import Handlers.HC02
import Handlers.HC11
import Handlers.HC18
import Handlers.HC09
import Handlers.HC05N
import Handlers.HC12N
import Handlers.HC04N

namespace Handlers

def all : List (String × (List Nat → Option String)) :=
  hC04 ++ hC06 ++ hC07 ++ hC08 ++ hC13 ++ hC14 ++ hC15 ++ hC16 ++ hC17 ++ hC19 ++ hC02 ++ hC11 ++ hC18
    ++ hC09 ++ hC05N ++ hC12N ++ hC04N

end Handlers
