import Generated.Tables
