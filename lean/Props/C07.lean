/-
  Props/C07.lean — property C07: "Async machines match the synchronous semantics when awaited one at
  a time".

  Statements only (helper lemmas live in `Proofs/C07.lean`).  The async engine is `Model/Async.lean`
  (written after `transitions/extensions/asyncio.py`), the synchronous one `Model/Core.lean`; the
  observation map `obsC07`, the regime `WellStaged` and the relation `Agree` are in `Model/Spec/C07.lean`.

  Quantifiers: every configuration, every script (condition valuations, callbacks that await triggers
  on any model, callbacks that raise), every assignment `kd` of plain / coroutine / suspending-coroutine
  to the callbacks and conditions, every history of awaited triggers (valid, blocked, invalid, unknown
  event names, unregistered models and destinations), every queue mode, every fuel — no bounds.
-/
import Proofs.C07

namespace TM
open C07

/-- **C07 at full strength (kept visible; FALSE for the code as it is, see the counterexample).**
For every configuration, script, kind assignment and history of awaited triggers the async engine and
the synchronous engine agree up to `obsC07`. -/
def C07_flat_statement : Prop :=
  ∀ (cfg : Cfg) (sc : Script) (kd : Async.Kinds) (qm m0 qmax fuel : Nat) (h : List Cmd) (s : St),
    cfg.queued = (qm != 0) → ScriptOK qm m0 sc → (∀ c ∈ h, CmdOK qm m0 c) →
    (qm = 2 → ∀ e ∈ s.queue, e.1 = m0) →
    Agree cfg sc (Async.runHistory sc kd cfg qm qmax fuel h s) (runHistory sc cfg qmax fuel h s)

/-- **C07 (partial: the regime `WellStaged`).**  When every callback that awaits triggers or raises
sits alone in its stage, and conditions sharing a stage are deterministic predicates, the async engine
— for ANY mix of plain, coroutine and suspending-coroutine callbacks and conditions, queued False /
True / 'model' — produces the same callback starts in the same order with the same arguments and
states seen, the same returned values, the same exception kinds, the same model states and the same
pending queue as the synchronous engine; the only calls it adds are those of conditions standing after
the first failing condition of their candidate. -/
theorem C07_flat_partial (cfg : Cfg) (sc : Script) (kd : Async.Kinds) (qm m0 qmax fuel : Nat)
    (h : List Cmd) (s : St)
    (hq : cfg.queued = (qm != 0)) (hsc : ScriptOK qm m0 sc) (hh : ∀ c ∈ h, CmdOK qm m0 c)
    (hs : qm = 2 → ∀ e ∈ s.queue, e.1 = m0)
    (hW : WellStaged cfg sc) :
    Agree cfg sc (Async.runHistory sc kd cfg qm qmax fuel h s) (runHistory sc cfg qmax fuel h s) := by
  have := runHistory_sim hsc hW kd hq qmax fuel h s s hh (Sim.refl s hs)
  revert this
  cases Async.runHistory sc kd cfg qm qmax fuel h s <;> cases runHistory sc cfg qmax fuel h s <;>
    simp only [HSim, Agree] <;> intro hsim <;> first | exact hsim.elim | trivial | skip
  exact ⟨hsim.log, hsim.mstate, hsim.models, hsim.queue⟩

/-- **A condition is honoured whether its value arrives directly or through an awaitable; a callback
runs the same whether it is a plain function, a coroutine, a coroutine that suspends, or a plain
callable handing back a Task / a Future / an object with `__await__`** (`Async.Kinds` = every
assignment of naturals, kinds 0–5 of `Model/Async.lean` included).
Two async runs that differ only in the kind assignment agree. -/
theorem C07_condition_awaitable (cfg : Cfg) (sc : Script) (kd1 kd2 : Async.Kinds) (qm m0 qmax fuel : Nat)
    (h : List Cmd) (s : St)
    (hq : cfg.queued = (qm != 0)) (hsc : ScriptOK qm m0 sc) (hh : ∀ c ∈ h, CmdOK qm m0 c)
    (hs : qm = 2 → ∀ e ∈ s.queue, e.1 = m0) (hW : WellStaged cfg sc) :
    Agree cfg sc (Async.runHistory sc kd1 cfg qm qmax fuel h s) (Async.runHistory sc kd2 cfg qm qmax fuel h s) := by
  have h1 := C07_flat_partial cfg sc kd1 qm m0 qmax fuel h s hq hsc hh hs hW
  have h2 := C07_flat_partial cfg sc kd2 qm m0 qmax fuel h s hq hsc hh hs hW
  revert h1 h2
  cases Async.runHistory sc kd1 cfg qm qmax fuel h s <;> cases Async.runHistory sc kd2 cfg qm qmax fuel h s <;>
    cases runHistory sc cfg qmax fuel h s <;> simp only [Agree] <;> intro h1 h2 <;>
    first | exact h1.elim | exact h2.elim | trivial | skip
  exact ⟨h1.1.trans h2.1.symm, h1.2.1.trans h2.2.1.symm, h1.2.2.1.trans h2.2.2.1.symm, h1.2.2.2.trans h2.2.2.2.symm⟩


/-- **C07 with `may_` polls in the history** (the same statement as `C07_flat_partial` for histories and
callback programs that mix awaited triggers with awaited `may_<event>` / `may_trigger` probes): the
async engine and the synchronous engine agree up to `obsC07`, on the answers of every probe and every
trigger, and on the engine state — so a probe changes nothing a later trigger could notice
differently from the synchronous machine. -/
theorem C07_flat_polls (cfg : Cfg) (sc : Script) (kd : Async.Kinds) (qm m0 qmax fuel : Nat)
    (h : List Cmd) (s : St)
    (hq : cfg.queued = (qm != 0)) (hsc : ScriptOKP qm m0 sc) (hh : ∀ c ∈ h, CmdOKP qm m0 c)
    (hs : qm = 2 → ∀ e ∈ s.queue, e.1 = m0)
    (hW : WellStaged cfg sc) :
    Agree cfg sc (Async.runHistoryP sc kd cfg qm qmax fuel h s) (runHistory sc cfg qmax fuel h s) := by
  have := runHistoryP_sim hsc hW kd hq qmax fuel h s s hh (Sim.refl s hs)
  revert this
  cases Async.runHistoryP sc kd cfg qm qmax fuel h s <;> cases runHistory sc cfg qmax fuel h s <;>
    simp only [HSim, Agree] <;> intro hsim <;> first | exact hsim.elim | trivial | skip
  exact ⟨hsim.log, hsim.mstate, hsim.models, hsim.queue⟩

/-- **The awaited `may_<event>` probe agrees with the synchronous one** (`AsyncMachine._can_trigger`
against `Machine._can_trigger`): same answer or same exception kind, same observation, same engine
state afterwards — for every configuration in the regime, every kind assignment, every interpreter
depth of the triggers / probes awaited by callbacks. -/
theorem C07_may_agrees (cfg : Cfg) (sc : Script) (kd : Async.Kinds) (qm m0 qmax fuel m ev tag : Nat) (s : St)
    (hq : cfg.queued = (qm != 0)) (hsc : ScriptOKP qm m0 sc) (hs : qm = 2 → ∀ e ∈ s.queue, e.1 = m0)
    (hW : WellStaged cfg sc) :
    match Async.canTrigger (Async.runCmdP sc kd cfg qm qmax fuel) sc kd cfg m ev tag s,
          canTrigger (runCmd sc cfg qmax fuel) sc cfg m ev tag s with
    | .ok v a, .ok w b => v = w ∧ Agree cfg sc (some a) (some b)
    | .err e a, .err f b => e = f ∧ Agree cfg sc (some a) (some b)
    | .oof, .oof => True
    | _, _ => False := by
  have := canTrigger_sim (runCmdP_sim hsc hW kd hq qmax fuel) hsc hW kd m ev tag s s (Sim.refl s hs)
  revert this
  cases Async.canTrigger (Async.runCmdP sc kd cfg qm qmax fuel) sc kd cfg m ev tag s <;>
    cases canTrigger (runCmd sc cfg qmax fuel) sc cfg m ev tag s <;>
    simp only [RSim, Agree] <;> intro h <;> first | exact h.elim | trivial | skip
  · exact ⟨h.1, h.2.log, h.2.mstate, h.2.models, h.2.queue⟩
  · exact ⟨h.1, h.2.log, h.2.mstate, h.2.models, h.2.queue⟩

/-- **The awaited `may_` probe is pure** (C12_pure for the async engine): whatever it answers or
raises, the model list, every model's state, the queue and the tag counter are unchanged — so a later
trigger meets exactly the machine it would have met without the probe (in particular a trigger that
is invalid in the current state still raises MachineError).  No regime hypothesis; scripts whose
callbacks await nothing themselves, every kind assignment. -/
theorem C07_may_pure (sub : Sub) (sc : Script) (kd : Async.Kinds) (cfg : Cfg) (hC : NoCmds sc) (m ev tag : Nat) (s : St) :
    ∀ s', (Async.canTrigger sub sc kd cfg m ev tag s).state? = some s' →
      s'.models = s.models ∧ s'.mstate = s.mstate ∧ s'.queue = s.queue ∧ s'.nextTag = s.nextTag := by
  intro s' h
  have := canTrigger_fr (cfg := cfg) hC sub kd m ev tag s
  revert this h
  cases Async.canTrigger sub sc kd cfg m ev tag s <;> simp only [Res.state?, RFr, Option.some.injEq] <;>
    intro h hf <;> first | (subst h; exact hf) | cases h

/-- **Stage barrier.**  Every coroutine callback and condition is awaited to completion before the
next stage starts: whenever a stage (`gather`) returns — normally or with an exception — the trace it
appended contains as many `done` as `call` items, i.e. everything it started has finished; for every
interpreter `sub` of awaited triggers with the same property, every script, every kind assignment. -/
theorem C07_stage_barrier (sub : Sub) (hsub : SubBal sub) (sc : Script) (kd : Async.Kinds) (x : Ctx)
    (js : List Async.Job) (s : St) : RBal s.log (Async.gather sub sc kd x js s) :=
  gather_bal hsub kd x js s

/-- ... and so does every awaited trigger and every whole history (no callback outlives its trigger),
for every configuration, script, queue mode and fuel. -/
theorem C07_history_barrier (cfg : Cfg) (sc : Script) (kd : Async.Kinds) (qm qmax fuel : Nat) (h : List Cmd) (s s' : St)
    (hr : Async.runHistory sc kd cfg qm qmax fuel h s = some s') : BalL s.log s'.log :=
  runHistory_bal kd qmax fuel h s s' hr

/-- the same for histories with `may_` polls -/
theorem C07_history_barrier_polls (cfg : Cfg) (sc : Script) (kd : Async.Kinds) (qm qmax fuel : Nat) (h : List Cmd) (s s' : St)
    (hr : Async.runHistoryP sc kd cfg qm qmax fuel h s = some s') : BalL s.log s'.log :=
  runHistoryP_bal kd qmax fuel h s s' hr

/-- **Callbacks of one stage are started in registration order**: the `call` items a stage of
command-free callbacks appends are exactly its callbacks, in list order, whatever their kinds and
whatever they return or raise. -/
theorem C07_stage_starts_in_order (sub : Sub) (sc : Script) (kd : Async.Kinds) (x : Ctx) (js : List Async.Job) (s s' : St)
    (hq : ∀ j ∈ js, ∀ k, (sc j.cb k).cmds = [])
    (h : (Async.gather sub sc kd x js s).state? = some s') :
    ∃ seg, s'.log = s.log ++ seg ∧ callsOf seg = js.map fun j => (j.slot, j.cb) :=
  gather_calls js s s' hq h

/-! ### the `gather` finding: the full-strength statement is false

`before = [1, 2]`, callback 1 raises.  A synchronous machine stops the stage at the raise; `gather` has
already started callback 2 (asyncio.py `AsyncMachine.callbacks` / `await_all`). -/

def cxCfg : Cfg :=
  { states := [{ name := 0 }], events := [(0, [{ source := 0, dest := none, before := [1, 2] }])], initial := 0 }

def cxScript : Script := fun c _ => if c = 1 then { out := .raise (.user 0) } else {}

theorem C07_flat_counterexample : ¬ C07_flat_statement := by
  intro h
  have := h cxCfg cxScript (fun _ => 0) 0 0 8 2 [.trigger 0 0] (St.init cxCfg [0]) rfl
    (by intro c k cmd hc; unfold cxScript at hc; split at hc <;> simp at hc)
    (by intro c hc; simp at hc; subst hc; exact ⟨0, 0, rfl, fun h => absurd h (by decide)⟩)
    (by intro h; cases h)
  revert this
  decide

/-! ### non-vacuity: a machine inside the regime whose async trace really differs from the sync one

Two exit callbacks (one suspending), two conditions on the first candidate of which the first fails
(so the second is evaluated by the async engine only), a prepare callback that awaits another trigger,
a final destination. -/

def exCfg7 : Cfg :=
  { states := [{ name := 0, onExit := [10, 11] }, { name := 1, onEnter := [12], final := true }],
    events := [(0, [{ source := 0, dest := some 1, conds := [⟨20, true⟩, ⟨21, false⟩] },
                    { source := 0, dest := some 1, prepare := [30], before := [31, 32] }]),
               (1, [{ source := 0, dest := none, after := [40] }])],
    finalize := [2], onFinal := [3], initial := 0 }

def exScript7 : Script := fun c k =>
  if c = 20 then { out := .ret false }
  else if c = 30 ∧ k = 0 then { cmds := [.trigger 0 1] }
  else {}

def exKinds7 : Async.Kinds := fun c => if c = 10 ∨ c = 20 ∨ c = 30 ∨ c = 31 then 2 else if c = 21 then 1 else 0

example : WellStaged exCfg7 exScript7 :=
  wellStaged_of_check [30]
    (by
      intro c hc k
      have : c ≠ 30 := by simpa using hc
      unfold exScript7
      split
      · exact ⟨rfl, _, rfl⟩
      · split
        · rename_i h; exact absurd h.1 this
        · exact ⟨rfl, _, rfl⟩)
    (by
      intro c hc j k
      have : c ≠ 30 := by simpa using hc
      simp [exScript7, this])
    (by decide)

example : ScriptOK 0 0 exScript7 := by
  intro c k cmd hc
  unfold exScript7 at hc
  split at hc
  · simp at hc
  · split at hc
    · simp at hc; subst hc; exact ⟨0, 1, rfl, fun h => absurd h (by decide)⟩
    · simp at hc


/-- the async trace has 28 items against 26 of the sync trace (the dead condition 21 is called, the
suspended callbacks finish later), both observe the same 15 items, both end in state 1 -/
example :
    ((Async.runHistory exScript7 exKinds7 exCfg7 0 16 3 [.trigger 0 0] (St.init exCfg7 [0])).map fun s =>
      (s.log.length, (obsC07 exCfg7 exScript7 s.log).length, s.stateOf 0)) = some (28, 15, 1) ∧
    ((runHistory exScript7 exCfg7 16 3 [.trigger 0 0] (St.init exCfg7 [0])).map fun s =>
      (s.log.length, (obsC07 exCfg7 exScript7 s.log).length, s.stateOf 0)) = some (26, 15, 1) := by
  decide

end TM
