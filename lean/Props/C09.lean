/-
  Props/C09.lean — property C09: "Every predefined machine class behaves like Machine on base
  configurations".

  Statements only (helper lemmas: `Proofs/C09.lean`, `Proofs/C09Locked.lean`; `C07_flat_partial` is imported from `Props/C07.lean`).

  The twelve classes are compositions of four mixins over the flat engine `Model/Core.lean`.  What is
  proved, per mixin, without bounds (all configurations, scripts, histories, fuels):

    diagram / markup   `C09_graph_noninterference`, `C09_markup_noninterference`, `C09_side_table_write_only`
                       the engine instrumented with a side table in exactly the places where
                       `TransitionGraphSupport._change_state`, the async `_change_state` copies and
                       `GraphMachine.add_model` touch `model_graphs` / `_markup` (`Model/Side.lean`),
                       for ANY update functions, is the plain engine once the table is projected away;
    locking            `C09_locked_single_thread`: with one thread the lock protocol of
                       `Model/Locked.lean` (dynamic registration: add_model / remove_model) never waits, stands still only at the end of the program, and
                       computes what the unlocked sequential semantics computes, calls in program order;
    asyncio            `C09_async_flat` = `C07_flat_partial`;
    hierarchy          `C09_nested_flat`: TODO — needs the nested engine model (`Model/Nested*.lean`, property
                       C02).  Until then: the depth-1 collapse of the one function that differs,
                       `NestedTransition._change_state` (`Model/HsmFlat.lean`, tied to HierarchicalMachine
                       by trace equality): `C09_hsm_flat`, full strength — every script, re-entrant calls
                       included (since /repo ba1cc46 the flat transition exits the state the model is in,
                       as the hierarchical one does); everything else about the hierarchical classes is
                       decided by the differential (harness/props/c09.py).

  and, in `Props/C09Tables.lean` (a module of its own, built by the C09 check only, so that a change of
  the live classes can break no other property's build), over the table that
  `harness/extract_tables.py` regenerates from the LIVE classes before every build
  (`Generated/Tables.lean`), by `decide`:

    `C09_factory_exact`    the factory returns, for each of the 12 supported feature tuples, a class whose
                           `issubclass` flags are exactly the tuple (distinct classes for distinct tuples),
                           and raises ValueError for the 4 locked+asyncio tuples;
    `C09_cls_triples`      every class resolves `state_cls / event_cls / transition_cls` to the family
                           its composition needs;
    `C09_ctor_compatible`  every class takes Machine's constructor parameters, in order, with Machine's
                           defaults (a "base configuration" means the same thing in all of them).

  When the live classes change so that one of the `decide`s fails, `Props/C09Tables.lean` no longer
  builds: the harness treats that as a broken proof obligation, evaluates the same predicates on the
  live classes and reports the offending tuple / class (harness/props/c09.py `table_failures`).
-/
import Proofs.C09
import Proofs.C09Locked
import Props.C07
import Proofs.C09Hsm

namespace TM

/-! ## diagram and markup support: a side table the engine never reads -/

open Side in
/-- **Attaching diagram support never changes what a machine does.**  Run the engine with a side table
`γ` that is updated — by ANY functions `H.pre / H.post / H.onAdd` — before and after every state
change and whenever a model is added (the places where `TransitionGraphSupport._change_state`, its
async copies and `GraphMachine.add_model` write `model_graphs`): projecting the table away gives
exactly the run of the plain engine — same trace (callback sequence, arguments, states seen, results,
exception kinds), same model states, same queue — for every configuration, script (callbacks that
trigger, raise, add or remove models), history, fuel and initial table. -/
theorem C09_graph_noninterference {γ : Type} (H : Hooks γ) (sc : Script) (cfg : Cfg) (qmax fuel : Nat)
    (h : List Cmd) (s : St) (g : γ) :
    (Side.runHistory H sc cfg qmax fuel h ⟨s, g⟩).map (·.base) = runHistory sc cfg qmax fuel h s :=
  C09P.runHistory_erase H sc cfg qmax fuel h ⟨s, g⟩

open Side in
/-- **… and neither does markup support**: `_needs_update` and the cached `_markup` (any type `μ`, any
conversion function) are written, within a run, only when `GraphMachine.add_model` builds a graph
from `machine.markup`; the run does not depend on them. -/
theorem C09_markup_noninterference {μ : Type} (convert : Unit → μ) (sc : Script) (cfg : Cfg) (qmax fuel : Nat)
    (h : List Cmd) (s : St) (dirty : Bool) (cache : μ) :
    (Side.runHistory (markupHooks convert) sc cfg qmax fuel h ⟨s, (dirty, cache)⟩).map (·.base) =
      runHistory sc cfg qmax fuel h s :=
  C09P.runHistory_erase _ sc cfg qmax fuel h ⟨s, (dirty, cache)⟩

open Side in
/-- the table is write-only: two machines with different side tables, even of different types and
with different update functions (e.g. the synchronous and the async graph hooks), run alike -/
theorem C09_side_table_write_only {γ δ : Type} (H : Hooks γ) (K : Hooks δ) (sc : Script) (cfg : Cfg)
    (qmax fuel : Nat) (h : List Cmd) (s : St) (g : γ) (d : δ) :
    (Side.runHistory H sc cfg qmax fuel h ⟨s, g⟩).map (·.base) =
      (Side.runHistory K sc cfg qmax fuel h ⟨s, d⟩).map (·.base) := by
  rw [C09_graph_noninterference, C09_graph_noninterference]

/-! non-vacuity: the Mermaid styling model as side table really is written.  Two states, `0 → 1` on
event 0 with an exit callback that re-triggers event 1 (an internal transition); a second model is
added afterwards. -/

def exCfg9 : Cfg :=
  { states := [{ name := 0, onExit := [10] }, { name := 1, onEnter := [11] }],
    events := [(0, [{ source := 0, dest := some 1 }]), (1, [{ source := 0, dest := none, after := [12] }])],
    initial := 0 }

def exScript9 : Script := fun c k => if c = 10 ∧ k = 0 then { cmds := [.trigger 0 1] } else {}

def exOpts9 : Diagram.Opts := { nested := false, showConds := false, showAttrs := false }

/-- after the run model 0's graph has node 0 styled 'previous', node 1 'active' and the edge 0 → 1
marked; model 1's graph is fresh with node 0 active — while the engine part equals the plain run -/
def exRun9 : Option (Side.SSt Side.Graphs) :=
  Side.runHistory (Side.graphHooks exOpts9) exScript9 exCfg9 8 3 [.trigger 0 0, .addModel 1]
    (Side.SSt.init (Side.graphHooks exOpts9) exCfg9 [0] [])

example :
    (exRun9.map fun s => ((Side.graphOf s.side 0).styleOf [0], (Side.graphOf s.side 0).styleOf [1])) = some (2, 1) ∧
    (exRun9.map fun s => (Side.graphOf s.side 0).edge) = some [([0], some [1])] ∧
    (exRun9.map fun s => ((Side.graphOf s.side 1).styleOf [0], s.base.stateOf 0, s.base.log.length)) = some (1, 1, 12) := by
  decide

example :
    exRun9.map (·.base.log) =
      (runHistory exScript9 exCfg9 8 3 [.trigger 0 0, .addModel 1] (St.init exCfg9 [0])).map (·.log) := by
  decide

/-! ## locking: one thread -/

namespace Locked

/-- **Attaching locking never changes what a machine does for a single thread.**  Configuration `c`
with the machine mutex `L` (`WF`), ANY engine `eng`, ANY program of thread 0 — calls, re-entrant calls
from callbacks, raising calls, `add_model` / `remove_model` (`Op.reg` / `Op.unreg`), even malformed
programs — in which the machine's own ident is never handed to `add_model` (`ProgOK`) and every
context list names each lock once (`LocksOnce`; true of the default `machine_context`, see
`C09_locks_once_default`), no other thread calling the machine, ANY schedule `σ` (the other threads'
turns are no-ops), inside C06's statement (`ung = false`: no event on a model that is unregistered at
that moment on a flat machine — such an event enters no context at all):

  1. the thread is never blocked — the locks never make their only user wait;
  2. it stands still only when its program is finished, or on a step outside any call (a malformed
     program): no deadlock;
  3. there is `k` such that the *unlocked* sequential semantics (`seqRun`: no lock, no context) after
     the first `k` outermost calls in program order has the same remaining program whenever the
     thread is outside a call, and the same machine state and the same log of engine steps whenever it
     is not inside a call body — lock and context actions are invisible. -/
theorem C09_locked_single_thread (c : Cfg) (L : Nat) (hwf : WF c L) (eng : Nat → Nat → Nat)
    (prog : List Op) (hp : ProgOK (solo prog)) (h1 : LocksOnce c prog) (ms : Nat) (σ : List Nat) :
    let s := runSched c eng (init c (solo prog) ms) σ
    s.ung = false →
    blocked s 0 = false ∧
    (step c eng s 0 = s → (s.th 0).prog = [] ∨ stuckOutsideCall (s.th 0)) ∧
    ∃ k : Nat,
      let q := seqRun eng (solo prog) ms (List.replicate k 0)
      ((s.th 0).frames = [] → q.progs 0 = (s.th 0).prog) ∧
      ((s.th 0).frames = [] ∨ (s.th 0).pend ≠ [] ∨ (s.th 0).exiting = true →
        q.ms = s.mstate ∧ q.log = cbLog s.trace) := by
  intro s hu
  obtain ⟨hI, hS⟩ := C09P.solo_inv hwf hp h1 eng ms σ hu
  exact ⟨C09P.solo_not_blocked hI hS, C09P.solo_progress eng hI hS,
    C09P.solo_serial hwf eng prog hp ms σ hu hS.idle⟩

/-- the hypotheses hold for the classes as the factory builds them: `machine_context=None`, model
contexts — initial ones and those a program hands to `add_model` — that are neither locks nor the
machine's ident; flat or hierarchical, any set of initially unregistered models -/
theorem C09_locks_once_default (hsm : Bool) (extra : List (Nat × List Ctx)) (absent : List Nat) (prog : List Op)
    (hx : ∀ p ∈ extra, ∀ l, Ctx.lock l ∉ p.2) (hi : ∀ p ∈ extra, Ctx.ident ∉ p.2)
    (hr : ∀ m xs, Op.reg m xs ∈ prog → (∀ l, Ctx.lock l ∉ xs) ∧ Ctx.ident ∉ xs) :
    WF { hsm := hsm, base := [], extra := extra, absent := absent } 0 ∧
    LocksOnce { hsm := hsm, base := [], extra := extra, absent := absent } prog ∧ ProgOK (solo prog) :=
  ⟨⟨by simp [Cfg.mbase], by simp, hi⟩,
   C09P.locksOnce_default _ prog rfl hx (fun m xs h => (hr m xs h).1),
   fun t m xs h => by
     by_cases ht : t = 0
     · subst ht; exact (hr m xs (by simpa [solo] using h)).2
     · simp [solo, ht] at h⟩

/-- non-vacuity: a program with a re-entrant call, a raising call, a remove_model and an add_model with
a new model context runs to completion under the lock protocol (the last event on model 0 enters the
machine lock, the ident and the NEW context 8); the engine sees `cb 1, cb 2, cb 3`; a further turn is
a no-op; the unlocked semantics computes the same state -/
example :
    let c : Cfg := { hsm := false, base := [], extra := [(0, [.user 7])] }
    let prog : List Op := [.call 1 0, .cb 1, .call 0 1, .cb 2, .ret false, .ret false,
                           .call 0 2, .unreg 0, .reg 0 [.user 8], .ret true, .call 1 3, .cb 3, .ret false]
    let s := runSched c (fun a m => 2 * m + a) (init c (solo prog) 0) (List.replicate 40 0)
    (s.th 0).prog = [] ∧ (s.th 0).frames = [] ∧ s.ung = false ∧ cbLog s.trace = [(0, 1), (0, 2), (0, 3)] ∧
    s.trace.drop 20 = [.callBegin 0 1 3, .enter 0 (.lock 0), .enter 0 .ident, .enter 0 (.user 8), .cb 0 3,
      .exit 0 (.user 8), .exit 0 .ident, .exit 0 (.lock 0), .callEnd 0 false] ∧
    s.mstate = 11 ∧ (step c (fun a m => 2 * m + a) s 0).trace.length = s.trace.length ∧
    (seqRun (fun a m => 2 * m + a) (solo prog) 0 [0, 0, 0]).ms = 11 := by
  decide

end Locked

/-! ## asyncio -/

open C07 in
/-- **Attaching asyncio support never changes what a machine does, up to the condition-evaluation
difference of C07** (= `C07_flat_partial`, restated): in the regime "awaited one at a time" the async
flat engine, for any mix of plain / coroutine / suspending callbacks and `queued` False / True /
'model', agrees with the synchronous engine on `obsC07` (callback starts in order with arguments and
states seen, results, exception kinds), model states, registered models and pending queue. -/
theorem C09_async_flat (cfg : Cfg) (sc : Script) (kd : Async.Kinds) (qm m0 qmax fuel : Nat)
    (h : List Cmd) (s : St)
    (hq : cfg.queued = (qm != 0)) (hsc : ScriptOK qm m0 sc) (hh : ∀ c ∈ h, CmdOK qm m0 c)
    (hs : qm = 2 → ∀ e ∈ s.queue, e.1 = m0) (hW : WellStaged cfg sc) :
    Agree cfg sc (Async.runHistory sc kd cfg qm qmax fuel h s) (runHistory sc cfg qmax fuel h s) :=
  C07_flat_partial cfg sc kd qm m0 qmax fuel h s hq hsc hh hs hW

open C07 Side in
/-- the compositions: an async class WITH diagram support (`AsyncGraphMachine`) agrees with the plain
synchronous `Machine` — async collapse, then side-table erasure on the synchronous side (the async
transition classes run the first half of the styling hook, `asyncGraphHooks`) -/
theorem C09_async_graph_flat {γ : Type} (H : Hooks γ) (cfg : Cfg) (sc : Script) (kd : Async.Kinds)
    (qm m0 qmax fuel : Nat) (h : List Cmd) (s : St) (g : γ)
    (hq : cfg.queued = (qm != 0)) (hsc : ScriptOK qm m0 sc) (hh : ∀ c ∈ h, CmdOK qm m0 c)
    (hs : qm = 2 → ∀ e ∈ s.queue, e.1 = m0) (hW : WellStaged cfg sc) :
    Agree cfg sc (Async.runHistory sc kd cfg qm qmax fuel h s)
      ((Side.runHistory H sc cfg qmax fuel h ⟨s, g⟩).map (·.base)) := by
  rw [C09_graph_noninterference]
  exact C09_async_flat cfg sc kd qm m0 qmax fuel h s hq hsc hh hs hW

/-! ## hierarchy

TODO `C09_nested_flat : Nested.run (embed cfg) = Core.run cfg` — HSM dispatch on depth-1 trees collapses
to the flat step.  Needs the nested engine model `Model/Nested*.lean` (property C02).  NOT proved here.

What IS modelled is the depth-1 collapse of the one function in which the hierarchical classes differ
from `Machine` on flat configurations, `NestedTransition._change_state` (`Model/HsmFlat.lean`; tied to
HierarchicalMachine by trace equality on every generated case, request `hflat`): the destination is
resolved first, then the states of the model's configuration AT THAT MOMENT are exited.  Since /repo
ba1cc46 (former finding F-C09-hsm-retrigger-exit, fixed) `Transition._change_state` exits the state the
model is in as well, and the two engines differ only in when an unregistered destination is noticed. -/

open HsmFlat in
/-- **C09 for the hierarchical classes, full strength.**  For every configuration with registered
destinations, EVERY script — callbacks and conditions may return or raise anything and issue any
re-entrant API calls (trigger, may_, dispatch, add / remove model) —, every history, queued or not,
every fuel: the hierarchical engine on a flat configuration IS the flat engine (same trace, same
model states, same queue). -/
theorem C09_hsm_flat (cfg : Cfg) (sc : Script) (qmax fuel : Nat) (h : List Cmd) (s : St)
    (hD : DestsRegistered cfg) :
    HsmFlat.runHistory sc cfg qmax fuel h s = runHistory sc cfg qmax fuel h s :=
  HsmFlat.C09P.runHistory_eq sc cfg hD qmax fuel h s

/-- regression (former finding F-C09-hsm-retrigger-exit; corpus/C09/retrigger_exit.json): `e0 : s0 → s2`,
its prepare callback 17 triggers `e0` again on the same model at its first invocation, unqueued; `s2`
has the exit callback 31 -/
def hsmWitnessCfg : Cfg :=
  { states := [{ name := 0 }, { name := 2, onExit := [31] }],
    events := [(0, [{ source := 0, dest := some 2, prepare := [17] }])], initial := 0 }

def hsmWitnessScript : Script := fun c k => if c = 17 ∧ k = 0 then { cmds := [.trigger 0 0] } else {}

/-- on the witness both engines now do the same: the inner event moves the model to `s2`; the outer
transition then exits `s2` — callback 31 — and re-enters it (before the repair `Machine` exited `s0`,
a state the model was no longer in, and callback 31 never ran) -/
example :
    HsmFlat.DestsRegistered hsmWitnessCfg ∧
    ((runHistory hsmWitnessScript hsmWitnessCfg 8 3 [.trigger 0 0] (St.init hsmWitnessCfg [0])).map fun s =>
      (C07.callsOf s.log, s.stateOf 0)) = some ([(.prepare, 17), (.prepare, 17), (.onExit, 31)], 2) ∧
    ((HsmFlat.runHistory hsmWitnessScript hsmWitnessCfg 8 3 [.trigger 0 0] (St.init hsmWitnessCfg [0])).map fun s =>
      (C07.callsOf s.log, s.stateOf 0)) = some ([(.prepare, 17), (.prepare, 17), (.onExit, 31)], 2) := by
  decide

/-- the hypothesis is needed: with an unregistered destination the flat engine runs the exit
callbacks before it raises ValueError, the hierarchical one raises first -/
example :
    let cfg : Cfg := { states := [{ name := 0, onExit := [5] }], events := [(0, [{ source := 0, dest := some 9 }])],
                       initial := 0 }
    ¬ HsmFlat.DestsRegistered cfg ∧
    ((runHistory (fun _ _ => {}) cfg 8 2 [.trigger 0 0] (St.init cfg [0])).map fun s => C07.callsOf s.log) =
      some [(.onExit, 5)] ∧
    ((HsmFlat.runHistory (fun _ _ => {}) cfg 8 2 [.trigger 0 0] (St.init cfg [0])).map fun s => C07.callsOf s.log) =
      some [] := by
  decide

end TM
