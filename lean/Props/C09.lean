/-
  Props/C09.lean — property C09: "Every predefined machine class behaves like Machine on base
  configurations".

  Statements only (helper lemmas: `Proofs/C09.lean`, `Proofs/C09Locked.lean`; `C07_flat_partial` is imported from `Props/C07.lean`).

  The twelve classes are compositions of four mixins over the flat engine `Model/Core.lean`.  What is
  proved, per mixin, without bounds (all configurations, scripts, histories, fuels):

    diagram / markup   `C09_graph_noninterference`, `C09_markup_noninterference`, `C09_side_table_write_only`
                       the engine instrumented with a side table in exactly the places where
                       `TransitionGraphSupport._change_state`, the async `_change_state` copies and
                       `GraphMachine.add_model` touch `model_graphs` / `_markup` (`Model/Side.lean`),
                       for ANY update functions, is the plain engine once the table is projected away;
    locking            `C09_locked_single_thread`: with one thread the lock protocol of
                       `Model/Locked.lean` never waits, stands still only at the end of the program, and
                       computes what the unlocked sequential semantics computes, calls in program order;
    asyncio            `C09_async_flat` = `C07_flat_partial`;
    hierarchy          `C09_nested_flat`: TODO — needs the nested engine model (`Model/Nested*.lean`, property
                       C02, being built).  Until then: the depth-1 collapse of the one function that
                       differs, `NestedTransition._change_state` (`Model/HsmFlat.lean`, tied to
                       HierarchicalMachine by trace equality): `C09_hsm_flat_partial` (scripts without
                       re-entrant calls), `C09_hsm_flat_counterexample` (the full-strength statement is
                       false: listed finding F-C09-hsm-retrigger-exit); everything else about the
                       hierarchical classes is decided by the differential (harness/props/c09.py).

  and, in `Props/C09Tables.lean` (a module of its own, built by the C09 check only, so that a change of
  the live classes can break no other property's build), over the table that
  `harness/extract_tables.py` regenerates from the LIVE classes before every build
  (`Generated/Tables.lean`), by `decide`:

    `C09_factory_exact`    the factory returns, for each of the 12 supported feature tuples, a class whose
                           `issubclass` flags are exactly the tuple (distinct classes for distinct tuples),
                           and raises ValueError for the 4 locked+asyncio tuples;
    `C09_cls_triples`      every class resolves `state_cls / event_cls / transition_cls` to the family
                           its composition needs;
    `C09_ctor_compatible`  every class takes Machine's constructor parameters, in order, with Machine's
                           defaults (a "base configuration" means the same thing in all of them).

  When the live classes change so that one of the `decide`s fails, `Props/C09Tables.lean` no longer
  builds: the harness treats that as a broken proof obligation, evaluates the same predicates on the
  live classes and reports the offending tuple / class (harness/props/c09.py `table_failures`).
-/
import Proofs.C09
import Proofs.C09Locked
import Props.C07
import Proofs.C09Hsm

namespace TM

/-! ## diagram and markup support: a side table the engine never reads -/

open Side in
/-- **Attaching diagram support never changes what a machine does.**  Run the engine with a side table
`γ` that is updated — by ANY functions `H.pre / H.post / H.onAdd` — before and after every state
change and whenever a model is added (the places where `TransitionGraphSupport._change_state`, its
async copies and `GraphMachine.add_model` write `model_graphs`): projecting the table away gives
exactly the run of the plain engine — same trace (callback sequence, arguments, states seen, results,
exception kinds), same model states, same queue — for every configuration, script (callbacks that
trigger, raise, add or remove models), history, fuel and initial table. -/
theorem C09_graph_noninterference {γ : Type} (H : Hooks γ) (sc : Script) (cfg : Cfg) (qmax fuel : Nat)
    (h : List Cmd) (s : St) (g : γ) :
    (Side.runHistory H sc cfg qmax fuel h ⟨s, g⟩).map (·.base) = runHistory sc cfg qmax fuel h s :=
  C09P.runHistory_erase H sc cfg qmax fuel h ⟨s, g⟩

open Side in
/-- **… and neither does markup support**: `_needs_update` and the cached `_markup` (any type `μ`, any
conversion function) are written, within a run, only when `GraphMachine.add_model` builds a graph
from `machine.markup`; the run does not depend on them. -/
theorem C09_markup_noninterference {μ : Type} (convert : Unit → μ) (sc : Script) (cfg : Cfg) (qmax fuel : Nat)
    (h : List Cmd) (s : St) (dirty : Bool) (cache : μ) :
    (Side.runHistory (markupHooks convert) sc cfg qmax fuel h ⟨s, (dirty, cache)⟩).map (·.base) =
      runHistory sc cfg qmax fuel h s :=
  C09P.runHistory_erase _ sc cfg qmax fuel h ⟨s, (dirty, cache)⟩

open Side in
/-- the table is write-only: two machines with different side tables, even of different types and
with different update functions (e.g. the synchronous and the async graph hooks), run alike -/
theorem C09_side_table_write_only {γ δ : Type} (H : Hooks γ) (K : Hooks δ) (sc : Script) (cfg : Cfg)
    (qmax fuel : Nat) (h : List Cmd) (s : St) (g : γ) (d : δ) :
    (Side.runHistory H sc cfg qmax fuel h ⟨s, g⟩).map (·.base) =
      (Side.runHistory K sc cfg qmax fuel h ⟨s, d⟩).map (·.base) := by
  rw [C09_graph_noninterference, C09_graph_noninterference]

/-! non-vacuity: the Mermaid styling model as side table really is written.  Two states, `0 → 1` on
event 0 with an exit callback that re-triggers event 1 (an internal transition); a second model is
added afterwards. -/

def exCfg9 : Cfg :=
  { states := [{ name := 0, onExit := [10] }, { name := 1, onEnter := [11] }],
    events := [(0, [{ source := 0, dest := some 1 }]), (1, [{ source := 0, dest := none, after := [12] }])],
    initial := 0 }

def exScript9 : Script := fun c k => if c = 10 ∧ k = 0 then { cmds := [.trigger 0 1] } else {}

def exOpts9 : Diagram.Opts := { nested := false, showConds := false, showAttrs := false }

/-- after the run model 0's graph has node 0 styled 'previous', node 1 'active' and the edge 0 → 1
marked; model 1's graph is fresh with node 0 active — while the engine part equals the plain run -/
def exRun9 : Option (Side.SSt Side.Graphs) :=
  Side.runHistory (Side.graphHooks exOpts9) exScript9 exCfg9 8 3 [.trigger 0 0, .addModel 1]
    (Side.SSt.init (Side.graphHooks exOpts9) exCfg9 [0] [])

example :
    (exRun9.map fun s => ((Side.graphOf s.side 0).styleOf [0], (Side.graphOf s.side 0).styleOf [1])) = some (2, 1) ∧
    (exRun9.map fun s => (Side.graphOf s.side 0).edge) = some [([0], some [1])] ∧
    (exRun9.map fun s => ((Side.graphOf s.side 1).styleOf [0], s.base.stateOf 0, s.base.log.length)) = some (1, 1, 12) := by
  decide

example :
    exRun9.map (·.base.log) =
      (runHistory exScript9 exCfg9 8 3 [.trigger 0 0, .addModel 1] (St.init exCfg9 [0])).map (·.log) := by
  decide

/-! ## locking: one thread -/

namespace Locked

/-- **Attaching locking never changes what a machine does for a single thread.**  Configuration `c`
with the machine mutex `L` (`WF`), every lock listed once per call (`LocksOnce`; true of the default
`machine_context`, see `C09_locks_once_default`), ANY engine `eng`, ANY program of thread 0 (calls,
re-entrant calls from callbacks, raising calls — even malformed ones), no other thread calling the
machine, ANY schedule `σ` (the other threads' turns are no-ops):

  1. the thread is never blocked — the locks never make their only user wait;
  2. it stands still only when its program is finished, or on an engine step / return outside any call
     (a malformed program): no deadlock;
  3. there is `k` such that the *unlocked* sequential semantics (`seqRun`: no lock, no context) after
     the first `k` outermost calls in program order has the same remaining program whenever the
     thread is outside a call, and the same machine state and the same log of engine steps whenever it
     is not inside a call body — lock and context actions are invisible. -/
theorem C09_locked_single_thread (c : Cfg) (L : Nat) (hwf : WF c L) (h1 : LocksOnce c)
    (eng : Nat → Nat → Nat) (prog : List Op) (ms : Nat) (σ : List Nat) :
    let s := runSched c eng (init (solo prog) ms) σ
    blocked s 0 = false ∧
    (step c eng s 0 = s → (s.th 0).prog = [] ∨ stuckOutsideCall (s.th 0)) ∧
    ∃ k : Nat,
      let q := seqRun eng (solo prog) ms (List.replicate k 0)
      ((s.th 0).frames = [] → q.progs 0 = (s.th 0).prog) ∧
      ((s.th 0).frames = [] ∨ (s.th 0).pend ≠ [] ∨ (s.th 0).exiting = true →
        q.ms = s.mstate ∧ q.log = cbLog s.trace) :=
  ⟨C09P.solo_not_blocked hwf h1 eng prog ms σ, C09P.solo_progress hwf h1 eng prog ms σ,
   C09P.solo_serial hwf eng prog ms σ⟩

/-- the hypotheses hold for the classes as the factory builds them: `machine_context=None`, model
contexts (if any) that are not locks — flat or hierarchical -/
theorem C09_locks_once_default (hsm : Bool) (extra : List (Nat × List Ctx))
    (hx : ∀ p ∈ extra, ∀ l, Ctx.lock l ∉ p.2) (hi : ∀ p ∈ extra, Ctx.ident ∉ p.2) :
    WF { hsm := hsm, base := [], extra := extra } 0 ∧ LocksOnce { hsm := hsm, base := [], extra := extra } :=
  ⟨⟨by simp [Cfg.mbase], by simp, hi⟩, C09P.locksOnce_default _ rfl hx⟩

/-- non-vacuity: a program with a re-entrant and a raising call runs to completion in 21 steps under
the lock protocol (12 of them lock / context actions; a further turn is a no-op) and the engine sees `cb 1, cb 2, cb 3` -/
example :
    let c : Cfg := { hsm := false, base := [], extra := [(0, [.user 7])] }
    let prog : List Op := [.call 1 0, .cb 1, .call 0 1, .cb 2, .ret false, .ret false, .call 1 2, .cb 3, .ret true]
    let s := runSched c (fun a m => 2 * m + a) (init (solo prog) 0) (List.replicate 21 0)
    (s.th 0).prog = [] ∧ (s.th 0).frames = [] ∧ s.trace.length = 21 ∧ cbLog s.trace = [(0, 1), (0, 2), (0, 3)] ∧
    s.mstate = 11 ∧ (step c (fun a m => 2 * m + a) s 0).trace.length = 21 ∧
    (seqRun (fun a m => 2 * m + a) (solo prog) 0 [0, 0]).ms = 11 := by
  decide

end Locked

/-! ## asyncio -/

open C07 in
/-- **Attaching asyncio support never changes what a machine does, up to the condition-evaluation
difference of C07** (= `C07_flat_partial`, restated): in the regime "awaited one at a time" the async
flat engine, for any mix of plain / coroutine / suspending callbacks and `queued` False / True /
'model', agrees with the synchronous engine on `obsC07` (callback starts in order with arguments and
states seen, results, exception kinds), model states, registered models and pending queue. -/
theorem C09_async_flat (cfg : Cfg) (sc : Script) (kd : Async.Kinds) (qm m0 qmax fuel : Nat)
    (h : List Cmd) (s : St)
    (hq : cfg.queued = (qm != 0)) (hsc : ScriptOK qm m0 sc) (hh : ∀ c ∈ h, CmdOK qm m0 c)
    (hs : qm = 2 → ∀ e ∈ s.queue, e.1 = m0) (hW : WellStaged cfg sc) :
    Agree cfg sc (Async.runHistory sc kd cfg qm qmax fuel h s) (runHistory sc cfg qmax fuel h s) :=
  C07_flat_partial cfg sc kd qm m0 qmax fuel h s hq hsc hh hs hW

open C07 Side in
/-- the compositions: an async class WITH diagram support (`AsyncGraphMachine`) agrees with the plain
synchronous `Machine` — async collapse, then side-table erasure on the synchronous side (the async
transition classes run the first half of the styling hook, `asyncGraphHooks`) -/
theorem C09_async_graph_flat {γ : Type} (H : Hooks γ) (cfg : Cfg) (sc : Script) (kd : Async.Kinds)
    (qm m0 qmax fuel : Nat) (h : List Cmd) (s : St) (g : γ)
    (hq : cfg.queued = (qm != 0)) (hsc : ScriptOK qm m0 sc) (hh : ∀ c ∈ h, CmdOK qm m0 c)
    (hs : qm = 2 → ∀ e ∈ s.queue, e.1 = m0) (hW : WellStaged cfg sc) :
    Agree cfg sc (Async.runHistory sc kd cfg qm qmax fuel h s)
      ((Side.runHistory H sc cfg qmax fuel h ⟨s, g⟩).map (·.base)) := by
  rw [C09_graph_noninterference]
  exact C09_async_flat cfg sc kd qm m0 qmax fuel h s hq hsc hh hs hW

/-! ## hierarchy

TODO `C09_nested_flat : Nested.run (embed cfg) = Core.run cfg` — HSM dispatch on depth-1 trees collapses
to the flat step.  Needs the nested engine model `Model/Nested*.lean` (property C02, being built).  NOT
proved here.

What IS modelled is the depth-1 collapse of the one function in which the hierarchical classes were
found to differ from `Machine` on flat configurations, `NestedTransition._change_state`
(`Model/HsmFlat.lean`; tied to HierarchicalMachine by trace equality on every generated case, request
`hflat`): the destination is resolved first, and the states that are exited are those of the model's
configuration AT THAT MOMENT, not `transition.source`.  The two coincide unless a callback of the event
has moved the model in the meantime. -/

open HsmFlat in
/-- **C09 for the hierarchical classes at full strength (kept visible; FALSE for the code as it is,
finding F-C09-hsm-retrigger-exit).** -/
def C09_hsm_flat_statement : Prop :=
  ∀ (cfg : Cfg) (sc : Script) (qmax fuel : Nat) (h : List Cmd) (s : St),
    DestsRegistered cfg → HsmFlat.runHistory sc cfg qmax fuel h s = runHistory sc cfg qmax fuel h s

open HsmFlat in
/-- **C09 for the hierarchical classes (partial).**  Exclusion: scripts whose callbacks issue no
re-entrant API calls (then the model is still in `transition.source` when `_change_state` starts).
For every configuration with registered destinations, every such script — callbacks and conditions
may return or raise anything —, every history (triggers, may_, dispatch, add / remove model), queued
or not: the hierarchical engine on a flat configuration IS the flat engine. -/
theorem C09_hsm_flat_partial (cfg : Cfg) (sc : Script) (qmax fuel : Nat) (h : List Cmd) (s : St)
    (hD : DestsRegistered cfg) (hC : NoCmds sc) :
    HsmFlat.runHistory sc cfg qmax fuel h s = runHistory sc cfg qmax fuel h s :=
  HsmFlat.C09P.runHistory_eq sc cfg hC hD qmax fuel h s

/-- the witness (corpus/C09/retrigger_exit.json, shrunk by the harness): `e0 : s0 → s2`, its prepare
callback 17 triggers `e0` again on the same model at its first invocation, unqueued; `s2` has the exit
callback 31 -/
def hsmWitnessCfg : Cfg :=
  { states := [{ name := 0 }, { name := 2, onExit := [31] }],
    events := [(0, [{ source := 0, dest := some 2, prepare := [17] }])], initial := 0 }

def hsmWitnessScript : Script := fun c k => if c = 17 ∧ k = 0 then { cmds := [.trigger 0 0] } else {}

theorem C09_hsm_flat_counterexample : ¬ C09_hsm_flat_statement := by
  intro h
  have := congrArg (Option.map fun s => s.log)
    (h hsmWitnessCfg hsmWitnessScript 8 3 [.trigger 0 0] (St.init hsmWitnessCfg [0]) (by decide))
  revert this
  decide

/-- what the two engines do on the witness: the inner event moves the model to `s2`; the outer
transition then exits `s0` on `Machine` (nothing to see) but `s2` — callback 31 — on the hierarchical
classes; both end in `s2` -/
example :
    ((runHistory hsmWitnessScript hsmWitnessCfg 8 3 [.trigger 0 0] (St.init hsmWitnessCfg [0])).map fun s =>
      (C07.callsOf s.log, s.stateOf 0)) = some ([(.prepare, 17), (.prepare, 17)], 2) ∧
    ((HsmFlat.runHistory hsmWitnessScript hsmWitnessCfg 8 3 [.trigger 0 0] (St.init hsmWitnessCfg [0])).map fun s =>
      (C07.callsOf s.log, s.stateOf 0)) = some ([(.prepare, 17), (.prepare, 17), (.onExit, 31)], 2) := by
  decide

/-- non-vacuity of the partial theorem: a configuration with callbacks in every stage and a raising
condition meets its hypotheses -/
example : HsmFlat.DestsRegistered exCfg9 ∧ HsmFlat.DestsRegistered hsmWitnessCfg := by decide

end TM
