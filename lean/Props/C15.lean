/-
  Props/C15.lean — property C15: "Pickling preserves a machine and yields an independent copy".

  Statements only (lemmas in `Proofs/C15.lean`).  The model is `Model/Pickle.lean`: the identity-keyed
  side tables (`model_context_map`, `model_graphs`, `_transition_queue_dict`), the
  `__getstate__`/`__setstate__` pairs as the MRO of each predefined class selects them, pickle's
  transport as a renaming `ρ` of object identities that leaves integer keys alone, and the part of an
  event that reads and writes those tables.  The engine proper is the arbitrary parameter `δ`
  (epoch, state, event ↦ destination), so "reacts like the original" is proved for an *abstract* step
  relation; `Model/Core.lean`'s interpreter is not re-proved equivariant here.

  Quantifiers: every class kind, every machine `M` (any number of models, contexts, stale entries),
  every injective `ρ`, every `δ`, every set of locks held by others, every history of events on
  registered models and of configuration changes (`regen`).

  History: on the tree as first pinned two class families did not have the property (the locked graph
  classes: `GraphMachine.__getstate__/__setstate__` shadowed `LockedMachine`'s; async `queued='model'`:
  `_transition_queue_dict` pickled with the old ids).  Both were repaired in /repo (5a2e4e5, a9d9f62); the
  model follows the repaired code and the full-strength statements `C15_full` / `C15_tables_full` are
  theorems.  The former counterexample witnesses are kept below as regression `example`s (and as
  harness cases under `corpus/C15/`).
-/
import Proofs.C15

namespace TM
open Pickle

/-- The copy reacts to every history like the original AT REST (`quiesce M`; `M` itself when the
snapshot is taken between events — an event in progress while a callback takes the snapshot lives on
the call stack, not in the machine): same observations up to the renaming
(contexts entered in the same order, same transitions, same states, blocked by the corresponding
locks, no KeyError the original would not raise). -/
def Pickle.Preserves (k : Kind) : Prop :=
  ∀ (δ : Delta) (ρ : Nat → Nat), Inj ρ → ∀ M : PM, WF k M → ∀ (held : List Nat) (h : List Ev),
    (∀ e ∈ h, e.onModels M.models) →
    (run k δ (held.map ρ) (roundtrip k ρ M) (h.map (renEv ρ))).2 = (run k δ held (quiesce M) h).2.map (renObs ρ)

/-- Every id-keyed table the class uses is keyed by the new ids after the round trip. -/
def Pickle.TablesRekeyed (k : Kind) : Prop :=
  ∀ (ρ : Nat → Nat), Inj ρ → ∀ M : PM, ∀ m ∈ M.models,
    (k.locked = true → (alookup (ρ m) (roundtrip k ρ M).ctx) = some ((lookupD m M.ctx).map ρ)) ∧
    (k.graph = true → alookup (ρ m) (roundtrip k ρ M).graphs = some (M.stateOf m + 1)) ∧
    (k.qmodel = true → alookup (ρ m) (roundtrip k ρ M).qdict = some (lookupD m M.qdict))

/-- **re-keying, every locked class** (with or without graph support): after
`__setstate__ ∘ pickle ∘ __getstate__` the context map has exactly one entry per model, in registration
order, under the NEW id, holding that model's translated contexts; no other key exists (no stale id). -/
theorem C15_rekey (k : Kind) (hl : k.locked = true) (ρ : Nat → Nat) (hρ : Inj ρ) (M : PM) :
    (roundtrip k ρ M).ctx.map (·.1) = M.models.map ρ ∧
    (∀ m ∈ M.models, lookupD (ρ m) (roundtrip k ρ M).ctx = (lookupD m M.ctx).map ρ) ∧
    (∀ x, (∀ m ∈ M.models, ρ m ≠ x) → alookup x (roundtrip k ρ M).ctx = none) := by
  rw [locked_ctx k hl ρ hρ M]
  refine ⟨by simp [List.map_map, Function.comp_def], ?_, ?_⟩
  · intro m hm
    have := alookup_of_list ρ hρ (fun x => (lookupD x M.ctx).map ρ) m M.models hm
    show (alookup (ρ m) _).getD [] = _
    rw [this]; rfl
  · intro x hx
    exact alookup_of_list_none _ ρ x M.models hx

/-- **re-keying, async `queued='model'`**: exactly one queue per model, in registration order, under
the new id, with the model's pending entries; no stale key. -/
theorem C15_queues (k : Kind) (hl : k.locked = false) (hq : k.qmodel = true) (ρ : Nat → Nat) (hρ : Inj ρ) (M : PM) :
    (roundtrip k ρ M).qdict.map (·.1) = M.models.map ρ ∧
    (∀ m ∈ M.models, alookup (ρ m) (roundtrip k ρ M).qdict = some (lookupD m M.qdict)) ∧
    (∀ x, (∀ m ∈ M.models, ρ m ≠ x) → alookup x (roundtrip k ρ M).qdict = none) := by
  rw [async_qdict k hl hq ρ M]
  refine ⟨by simp [List.map_map, Function.comp_def], ?_, ?_⟩
  · intro m hm
    exact alookup_of_list ρ hρ (fun x => lookupD x M.qdict) m M.models hm
  · intro x hx
    exact alookup_of_list_none _ ρ x M.models hx

/-- **separate queue cells**: distinct models get distinct entries (the keys of the rebuilt table are
pairwise distinct when the models are), and writing the entry of one model leaves the entry of every
other model untouched.  (`asyncSetstate` gives each model its own queue; the model's `step` never
leaves anything in a queue, so sharing one queue object between models — which only shows under
re-entrant triggers — is excluded here at table level and judged behaviourally by the harness.) -/
theorem C15_queues_separate (k : Kind) (hl : k.locked = false) (hq : k.qmodel = true) (ρ : Nat → Nat) (hρ : Inj ρ)
    (M : PM) (hnd : M.models.Nodup) :
    ((roundtrip k ρ M).qdict.map (·.1)).Nodup ∧
    ∀ m ∈ M.models, ∀ m' ∈ M.models, m' ≠ m → ∀ v,
      alookup (ρ m') (aset (ρ m) v (roundtrip k ρ M).qdict) = some (lookupD m' M.qdict) := by
  refine ⟨?_, ?_⟩
  · rw [(C15_queues k hl hq ρ hρ M).1]
    exact List.Pairwise.map ρ (fun a b hab e => hab (hρ a b e)) hnd
  · intro m _ m' hm' hne v
    have : ρ m' ≠ ρ m := fun e => hne (hρ _ _ e)
    rw [alookup_aset_ne' _ _ _ this]
    exact (C15_queues k hl hq ρ hρ M).2.1 m' hm'

/-- **regeneration, graph classes**: exactly one fresh graph per model, under the new id, in
registration order, showing the model's current state as active (`s + 1`); no stale key. -/
theorem C15_graphs (k : Kind) (hg : k.graph = true) (ρ : Nat → Nat) (hρ : Inj ρ) (M : PM) :
    (roundtrip k ρ M).graphs.map (·.1) = M.models.map ρ ∧
    (∀ m ∈ M.models, alookup (ρ m) (roundtrip k ρ M).graphs = some (M.stateOf m + 1)) ∧
    (∀ x, (∀ m ∈ M.models, ρ m ≠ x) → alookup x (roundtrip k ρ M).graphs = none) := by
  rw [graph_graphs k hg ρ hρ M]
  refine ⟨by simp [List.map_map, Function.comp_def], ?_, ?_⟩
  · intro m hm
    exact alookup_of_list ρ hρ (fun x => M.stateOf x + 1) m M.models hm
  · intro x hx
    exact alookup_of_list_none _ ρ x M.models hx

/-- models, machine contexts and model states are carried over for every class -/
theorem C15_models (k : Kind) (ρ : Nat → Nat) (hρ : Inj ρ) (M : PM) :
    (roundtrip k ρ M).models = M.models.map ρ ∧ (roundtrip k ρ M).mctx = M.mctx.map ρ ∧
    ∀ m, (roundtrip k ρ M).stateOf (ρ m) = M.stateOf m :=
  ⟨(roundtrip_models k ρ M).1, (roundtrip_models k ρ M).2, roundtrip_stateOf k ρ hρ M⟩

/-- **tables, full strength**: every predefined class has all the id-keyed tables it uses under the
new ids after the round trip. -/
theorem C15_tables_full (k : Kind) (hk : k.predefined = true) : TablesRekeyed k := by
  intro ρ hρ M m hm
  refine ⟨?_, ?_, ?_⟩
  · intro hl
    rw [locked_ctx k hl ρ hρ M]
    exact alookup_of_list ρ hρ (fun x => (lookupD x M.ctx).map ρ) m M.models hm
  · intro hg
    exact (C15_graphs k hg ρ hρ M).2.1 m hm
  · intro hq
    have hl : k.locked = false := by
      cases hl : k.locked with
      | false => rfl
      | true => cases ha : k.asyncio <;> simp [Kind.predefined, hl, hq, ha] at hk
    exact (C15_queues k hl hq ρ hρ M).2.1 m hm

/-- **behaviour transfer, full strength**: for every predefined class the unpickled machine and the
original react identically (up to the renaming of objects) to every history. -/
theorem C15_full (k : Kind) (hk : k.predefined = true) : Preserves k := by
  intro δ ρ hρ M hwf held h hh
  exact (sim_run δ hρ held h (quiesce M) _ (roundtrip_sim k hk ρ hρ M hwf) hh).1

/-- … and the relation is an invariant of the joint run, so the statement composes over further
snapshots and continuations -/
theorem C15_behaviour_invariant (k : Kind) (hk : k.predefined = true) (δ : Delta) (ρ : Nat → Nat) (hρ : Inj ρ)
    (M : PM) (hwf : WF k M) (held : List Nat) (h : List Ev) (hh : ∀ e ∈ h, e.onModels M.models) :
    Sim k ρ (run k δ held (quiesce M) h).1 (run k δ (held.map ρ) (roundtrip k ρ M) (h.map (renEv ρ))).1 :=
  (sim_run δ hρ held h (quiesce M) _ (roundtrip_sim k hk ρ hρ M hwf) hh).2

/-- **held locks, copy side**: every context object of the copy is the image of one of the
original's; so a set of held locks that contains no unpickled object (e.g. any locks of the original,
`ρ` being fresh) never blocks any history on the copy — for EVERY class, the defective ones included. -/
theorem C15_held_locks_copy (k : Kind) (δ : Delta) (ρ : Nat → Nat) (hρ : Inj ρ) (M : PM) (held : List Nat)
    (hfresh : ∀ l ∈ held, ∀ x, ρ x ≠ l) (h : List Ev) :
    run k δ held (roundtrip k ρ M) h = run k δ [] (roundtrip k ρ M) h := by
  apply run_unheld
  intro l hl hheld
  obtain ⟨l0, _, rfl⟩ := lockIds_roundtrip k ρ hρ M l hl
  exact hfresh _ hheld l0 rfl

/-- **held locks, original side**: locks that are not among the original's context objects (e.g. the
copy's, `ρ` being fresh) never block the original. -/
theorem C15_held_locks_orig (k : Kind) (δ : Delta) (M : PM) (held : List Nat)
    (hdisj : ∀ l ∈ lockIds M, l ∉ held) (h : List Ev) :
    run k δ held M h = run k δ [] M h :=
  run_unheld k δ held h M hdisj

/-- **frame**: an event on a registered model, or a configuration change, writes table entries only
under keys of registered models and never changes `models`, `machine_context` or the set of context
objects.  For the copy the registered models are `M.models.map ρ`: only keys in the image of `ρ` are
written, so with a fresh `ρ` no cell of the original (a separate value in this model) is touched. -/
theorem C15_frame (k : Kind) (δ : Delta) (held : List Nat) (M : PM) (e : Ev) (he : e.onModels M.models)
    (x : Nat) (hx : x ∉ M.models) :
    alookup x (step k δ held M e).1.mstate = alookup x M.mstate ∧
    alookup x (step k δ held M e).1.graphs = alookup x M.graphs ∧
    lookupD x (step k δ held M e).1.ctx = lookupD x M.ctx ∧
    (step k δ held M e).1.qdict = M.qdict ∧
    (step k δ held M e).1.models = M.models ∧ lockIds (step k δ held M e).1 = lockIds M := by
  refine ⟨?_, ?_, ?_, ?_, step_models .., lockIds_step ..⟩
  all_goals
    cases e with
    | trigger ep m ev =>
      have hne : x ≠ m := fun e => hx (e ▸ he)
      have := trigger_frame k δ held M ep m ev x hne
      first | exact this.1 | exact this.2.1 | exact this.2.2.1 | exact this.2.2.2
    | regen =>
      simp only [step]
      split
      · first | rfl | (simp only [alookup_regen, hx, if_false])
      · rfl
    | readd m => first | rfl | trivial

/-! ### any further identity-keyed table (`PM.idtabs`)

The predefined classes keep exactly the tables modelled above; `idtabs` stands for ANY further container of
`id(model)` a class might keep (a registry used for a membership test, a cache …).  Nothing re-keys it:
it is pickled by value.  The theorems say what that means; the harness discovers such tables generically
on the live objects (an integer equal to `id()` of one of the ORIGINAL's objects anywhere in the restored
machine's containers is a violation of separation), and drives `add_model` of a registered model
(`Ev.readd`, a no-op here: the registration test is membership in `models`), `add_model`, `remove_model`
and `dispatch` on copy and control. -/

/-- pickling leaves such a table exactly as it is: keyed by the ORIGINAL's ids -/
theorem C15_idtabs_by_value (k : Kind) (ρ : Nat → Nat) (M : PM) : (roundtrip k ρ M).idtabs = M.idtabs := by
  unfold roundtrip setstate getstate baseSetstate baseGetstate
  cases k.graph <;> cases k.locked <;> cases k.qmodel <;> rfl

/-- … so whenever the unpickled objects are new ones, every registered model recorded in such a table
leaves a STALE key in the copy: an id that belongs to none of the copy's models (while `ρ m` is what
a re-keyed table would hold, see `ren`) -/
theorem C15_idtabs_stale (k : Kind) (ρ : Nat → Nat) (M : PM)
    (hfresh : ∀ m ∈ M.models, ∀ x ∈ M.models, ρ x ≠ m) (t : List Nat) (ht : t ∈ M.idtabs)
    (m : Nat) (hmt : m ∈ t) (hm : m ∈ M.models) :
    t ∈ (roundtrip k ρ M).idtabs ∧ m ∈ t ∧ m ∉ (roundtrip k ρ M).models := by
  refine ⟨by rw [C15_idtabs_by_value]; exact ht, hmt, ?_⟩
  rw [(roundtrip_models k ρ M).1]
  intro h
  obtain ⟨x, hx, e⟩ := List.mem_map.mp h
  exact hfresh m hm x hx e

/-- hypothesis under which the copy equals the renamed original in this respect too: the class keeps no
further identity-keyed table (true of the 12 predefined classes on the pinned tree — checked on the live
objects by the harness on every snapshot) -/
theorem C15_idtabs_none (k : Kind) (ρ : Nat → Nat) (M : PM) (h : M.idtabs = []) :
    (roundtrip k ρ M).idtabs = (ren ρ M).idtabs := by
  rw [C15_idtabs_by_value, h]; simp [ren, h]

example : (roundtrip {} (· + 100) { models := [1, 2], idtabs := [[1, 2]] }).idtabs = [[1, 2]] := by decide
example : (ren (· + 100) { models := [1, 2], idtabs := [[1, 2]] }).idtabs = [[101, 102]] := by decide

/-! ### snapshots taken while an event is in progress (from a callback)

`M.identHeld` says that the pickling thread is inside an event of the (locked) machine.  As repaired
(cf88f30) `IdentManager.__getstate__` stores `current = 0`, the model's `getstate` resets the field,
and `C15_full` — stated against the original at rest — covers such snapshots at full strength.
(The other former mid-event finding, the scope stack of the hierarchical classes (b080617), is outside
this model: `Model/Pickle.lean` has no state tree; it is judged by the harness only.) -/

/-- **mid-event snapshots, full strength**: for every predefined class, whatever the pickling thread
holds at that moment, the copy reacts like the original at rest -/
theorem C15_midevent_full (k : Kind) (hk : k.predefined = true) (δ : Delta) (ρ : Nat → Nat) (hρ : Inj ρ)
    (M : PM) (hwf : WF k M) (held : List Nat) (h : List Ev) (hh : ∀ e ∈ h, e.onModels M.models) :
    (roundtrip k ρ M).identHeld = false ∧
    (run k δ (held.map ρ) (roundtrip k ρ M) (h.map (renEv ρ))).2 =
      (run k δ held (quiesce M) h).2.map (renObs ρ) :=
  ⟨roundtrip_ident k ρ M, C15_full k hk δ ρ hρ M hwf held h hh⟩

/-- … and for a snapshot taken between events that is the original itself -/
theorem C15_at_rest (k : Kind) (hk : k.predefined = true) (δ : Delta) (ρ : Nat → Nat) (hρ : Inj ρ)
    (M : PM) (hwf : WF k M) (hrest : M.identHeld = false) (held : List Nat) (h : List Ev)
    (hh : ∀ e ∈ h, e.onModels M.models) :
    (run k δ (held.map ρ) (roundtrip k ρ M) (h.map (renEv ρ))).2 = (run k δ held M h).2.map (renObs ρ) := by
  have hq : quiesce M = M := by cases M; simp only [quiesce] at *; simp_all
  have := C15_full k hk δ ρ hρ M hwf held h hh
  rwa [hq] at this

/-- regression (former finding F-C15-midevent-ident-pickled): a locked machine pickled from inside a
callback; the copy enters its (new) lock again, the original at that instant enters nothing -/
def exMid : PM := { models := [1], mstate := [(1, 0)], mctx := [10], ctx := [(1, [10])], identHeld := true }
def exDelta0 : Delta := fun _ s ev => if s = 0 ∧ ev = 0 then some 1 else none
example : (run { locked := true } exDelta0 [] exMid [.trigger 0 1 0]).2 = [.done [] true 1] := by decide
example : (run { locked := true } exDelta0 [] (roundtrip { locked := true } (· + 100) exMid) [.trigger 0 101 0]).2 =
    [.done [110] true 1] := by decide
example : (roundtrip { locked := true } (· + 100) exMid).identHeld = false := by decide

/-! ### regression: the witnesses of the two former findings -/

def exRho : Nat → Nat := (· + 100)
theorem exRho_inj : Inj exRho := by intro a b h; unfold exRho at h; omega
def exDelta : Delta := fun _ s ev => if s = 0 ∧ ev = 0 then some 1 else none

/-- a locked graph machine with one model `1` holding the machine lock `10` -/
def exLG : PM := { models := [1], mstate := [(1, 0)], mctx := [10], ctx := [(1, [10])], graphs := [(1, 1)] }
/-- an async machine with `queued='model'` and one model -/
def exQ : PM := { models := [1], mstate := [(1, 0)], qdict := [(1, [])] }

example : ({ graph := true, locked := true } : Kind).predefined = true := by decide
example : ({ qmodel := true, asyncio := true } : Kind).predefined = true := by decide
-- LockedGraphMachine: the copy enters the (new) lock around the event, like the original
example : (run { graph := true, locked := true } exDelta [] (roundtrip { graph := true, locked := true } exRho exLG)
    [.trigger 0 101 0]).2 = [.done [110] true 1] := by decide
example : (roundtrip { graph := true, locked := true, nested := true } exRho exLG).ctx = [(101, [110])] := by decide
example : (roundtrip { graph := true, locked := true } exRho exLG).graphs = [(101, 1)] := by decide
-- async queued='model': the queue is found under the new id
example : (roundtrip { qmodel := true, asyncio := true } exRho exQ).qdict = [(101, [])] := by decide
example : (run { qmodel := true, asyncio := true } exDelta [] (roundtrip { qmodel := true, asyncio := true } exRho exQ)
    [.trigger 0 101 0]).2 = [.done [] true 1] := by decide

/-! ### non-vacuity: a locked machine with two models (one with its own context), a fresh renaming,
a history with a transition, a rejected event and a configuration change -/

def exL : PM :=
  { models := [1, 2], mstate := [(1, 0), (2, 0)], mctx := [10], ctx := [(1, [10]), (2, [10, 11])] }

example : ({ locked := true } : Kind).predefined = true := by decide
example : WF { locked := true } exL := ⟨(by intro h; cases h), (by intro h; cases h)⟩
example : WF { graph := true } exLG :=
  ⟨(by intro _ m hm; simp [exLG] at hm; subst hm; decide), (by intro h; cases h)⟩
example : (roundtrip { locked := true } exRho exL).ctx = [(101, [110]), (102, [110, 111])] := by decide
example : (run { locked := true } exDelta [] exL [.trigger 0 2 0, .trigger 0 2 0, .regen, .trigger 0 1 0]).2 =
    [.done [10, 11] true 1, .done [10, 11] false 1, .regen, .done [10] true 1] := by decide
example : (run { locked := true } exDelta [111] (roundtrip { locked := true } exRho exL)
    [.trigger 0 102 0, .trigger 0 101 0]).2 = [.blocked 111, .done [110] true 1] := by decide

end TM
