/-
  Props/C08Scope.lean — C08, clause "at quiescence every model's state is a registered state", the part that lives
  on the shared state OBJECTS of the hierarchical async classes.

  `NestedAsyncState.scoped_enter` / `scoped_exit` (asyncio.py, after 4b06f60 / 84867c8) do

      self._scope = scope        # the names this state object answers to while its callbacks run
      try:     await …callbacks…
      finally: self._scope = []

  on a state object that ALL models share.  Events of different models may overlap (queued=False or 'model'), so the
  assignments of several tasks interleave arbitrarily at the await points.  The cell model below is that protocol and
  nothing else; PARTIAL: it is tied to the code by the names probe that ends every hierarchical C08 case
  (`asyncctl.names_probe`: `get_nested_state_names()` answers and every state object answers to its own name), not by
  the line-protocol driver, and says nothing about what a callback sees WHILE another task is inside (that is finding
  hsm.concurrent_scope).
-/
namespace TM.ScopeCell

/-- what one task does to the cell of one state object -/
inductive Ev
  | set (sc : List Nat)      -- `self._scope = scope`
  | reset                    -- `finally: self._scope = []`
  deriving Repr, DecidableEq

def step (_ : List Nat) : Ev → List Nat
  | .set sc => sc
  | .reset => []

def run (c : List Nat) (es : List Ev) : List Nat := es.foldl step c

/-- **quiescence**: every task that entered has left, so the last thing that happened to the cell is some task's
`finally` — whatever the interleaving, the number of tasks and the scopes they set, the object answers to its own name
again -/
theorem C08_scope_reset_at_quiescence (c : List Nat) (es : List Ev) : run c (es ++ [.reset]) = [] := by
  simp [run, List.foldl_append, step]

/-- the "more careful" variant (seeded change C08_21): each task remembers the scope it found and hands THAT back -/
inductive Ev2
  | enter (t : Nat) (sc : List Nat)
  | leave (t : Nat)
  deriving Repr, DecidableEq

structure St2 where
  cell : List Nat
  saved : List (Nat × List Nat)
  deriving Repr, DecidableEq

def step2 (s : St2) : Ev2 → St2
  | .enter t sc => { cell := sc, saved := (t, s.cell) :: s.saved }
  | .leave t => { cell := ((s.saved.find? fun e => e.1 == t).map (·.2)).getD [], saved := s.saved.filter fun e => e.1 != t }

/-- two overlapping tasks that finish first-in-first-out leave a stale scope behind for good (LIFO completion does
not): why the code resets instead of restoring -/
theorem C08_scope_save_restore_counterexample :
    ([Ev2.enter 1 [7], .enter 2 [7], .leave 1, .leave 2].foldl step2 ⟨[], []⟩).cell = [7] ∧
    ([Ev2.enter 1 [7], .enter 2 [7], .leave 2, .leave 1].foldl step2 ⟨[], []⟩).cell = [] := by decide

/-- non-vacuity: an interleaving of two tasks with different scopes -/
example : run [] [.set [1], .set [1, 2], .reset, .set [3], .reset] = [] := by decide

end TM.ScopeCell
